import SiaProofs.Lemmas.LedgerC01V1Txn
/-!
# C01 helper lemmas, part 14: blocks

Well-formed ledgers, the freshness hypothesis, the per-block id typing, and the
block-level loops (v1 transactions, v2 transactions, miner payouts, Foundation
subsidy, expiring v1 contracts).
-/
namespace Sia.Ledger

def ParamsOk (P : Params) : Prop := 12 ≤ P.blocksPerYear ∧ siacoins 30000 * P.blocksPerYear < curLimit

/-- well-formed ledger: the invariants every reachable ledger satisfies -/
structure WF (L : Ledger) : Prop where
  /-- ids of live elements are pairwise distinct, across all kinds -/
  nodup : (baseIds L .sc ++ baseIds L .sf ++ baseIds L .fc1 ++ baseIds L .fc2).Nodup
  /-- unresolved v1 contracts pay the same total whether proven or missed -/
  fc1_bal : ∀ e ∈ L.fc1, sumVals e.fc.valid = sumVals e.fc.missed
  /-- unresolved v2 contracts never promise the host more on a miss than on success -/
  fc2_missed : ∀ e ∈ L.fc2, e.fc.missedHost ≤ e.fc.host.value
  /-- the siafund supply fits in a uint64 -/
  sf_bound : SFtot L < u64Limit
  /-- network parameters for which `FoundationSubsidy` cannot panic -/
  params : ParamsOk L.P

/-- every id the block creates, in creation order, with its kind -/
def Block.created (b : Block) : List (Kind × Id) :=
  b.txns1.flatMap Txn1.created ++ (b.v2txns.flatMap Txn2.created ++ (b.payouts.map (fun x => (Kind.sc, x.1)) ++
  ((Kind.sc, b.foundationOutId) :: b.expiring.flatMap (fun x => x.2.map (fun i => (Kind.sc, i))))))

/-- hash-collision freedom: the ids a block creates are pairwise distinct and not in the ledger -/
def FreshIds (L : Ledger) (b : Block) : Prop :=
  (b.created.map (·.2)).Nodup ∧ ∀ p ∈ b.created, ∀ k, p.2 ∉ baseIds L k

/-- the id typing used while a block is applied -/
def Tb (L : Ledger) (b : Block) : Kind → Id → Prop := fun k id => id ∈ baseIds L k ∨ (k, id) ∈ b.created

theorem WF.kind_unique {L : Ledger} (h : WF L) {k k' : Kind} {id : Id} (h1 : id ∈ baseIds L k) (h2 : id ∈ baseIds L k') :
    k = k' := by
  have hn := h.nodup
  rw [List.nodup_append] at hn
  obtain ⟨h123, _, d4⟩ := hn
  rw [List.nodup_append] at h123
  obtain ⟨h12, _, d3⟩ := h123
  rw [List.nodup_append] at h12
  obtain ⟨_, _, d2⟩ := h12
  have hatt : ∀ x, x ∉ baseIds L Kind.att := fun x hx => by cases hx
  cases k <;> cases k' <;> first
    | rfl
    | exact absurd h1 (hatt _)
    | exact absurd h2 (hatt _)
    | exact absurd rfl (d2 _ h1 _ h2)
    | exact absurd rfl (d2 _ h2 _ h1)
    | exact absurd rfl (d3 _ (List.mem_append_left _ h1) _ h2)
    | exact absurd rfl (d3 _ (List.mem_append_right _ h1) _ h2)
    | exact absurd rfl (d3 _ (List.mem_append_left _ h2) _ h1)
    | exact absurd rfl (d3 _ (List.mem_append_right _ h2) _ h1)
    | exact absurd rfl (d4 _ (List.mem_append_left _ (List.mem_append_left _ h1)) _ h2)
    | exact absurd rfl (d4 _ (List.mem_append_left _ (List.mem_append_right _ h1)) _ h2)
    | exact absurd rfl (d4 _ (List.mem_append_right _ h1) _ h2)
    | exact absurd rfl (d4 _ (List.mem_append_left _ (List.mem_append_left _ h2)) _ h1)
    | exact absurd rfl (d4 _ (List.mem_append_left _ (List.mem_append_right _ h2)) _ h1)
    | exact absurd rfl (d4 _ (List.mem_append_right _ h2) _ h1)

theorem WF.nodup_kind {L : Ledger} (h : WF L) (k : Kind) : (baseIds L k).Nodup := by
  have hn := h.nodup
  rw [List.nodup_append] at hn
  obtain ⟨h123, n4, _⟩ := hn
  rw [List.nodup_append] at h123
  obtain ⟨h12, n3, _⟩ := h123
  rw [List.nodup_append] at h12
  obtain ⟨n1, n2, _⟩ := h12
  cases k
  · exact n1
  · exact n2
  · exact n3
  · exact n4
  · exact List.nodup_nil

theorem ctx_of_wf {L : Ledger} {b : Block} (hw : WF L) (hf : FreshIds L b) : Ctx (Tb L b) L := by
  refine ⟨?_, fun k id h => Or.inl h, hw.nodup_kind, hw.fc1_bal⟩
  intro k k' id h1 h2
  rcases h1 with h1 | h1 <;> rcases h2 with h2 | h2
  · exact hw.kind_unique h1 h2
  · exact absurd h1 (hf.2 _ h2 k)
  · exact absurd h2 (hf.2 _ h1 k')
  · have := base_unique b.created (·.2) hf.1 h1 h2 rfl
    exact (Prod.mk.inj this).1

theorem inv_newMid {T} (L : Ledger) : Inv T (newMid L) := by
  refine ⟨⟨?_, ?_, ?_⟩, ?_, ?_, ?_, ?_, List.nodup_nil, fun id h => by simp [newMid] at h⟩
  · intro k i id h; cases k <;> simp [Mid.idsOf, Mid.scIds, Mid.sfIds, Mid.fc1Ids, Mid.fc2Ids, newMid] at h
  · intro id i h; simp [Mid.lookup, newMid] at h
  · intro k id h; cases k <;> simp [Mid.idsOf, Mid.scIds, Mid.sfIds, Mid.fc1Ids, Mid.fc2Ids, newMid] at h
  all_goals (intro d hd; simp [newMid] at hd)

theorem fresh_newMid {L : Ledger} {b : Block} (hf : FreshIds L b) : Fresh (Tb L b) (newMid L) b.created := by
  refine ⟨hf.1, fun p hp => ⟨Or.inr hp, rfl, hf.2 p hp⟩⟩

theorem untouched_nil {E : Type} (base : List E) (eid : E → Id) : untouched base eid [] = base := by
  unfold untouched; simp

theorem Phi_newMid (L : Ledger) : Phi (newMid L) = V L := by
  unfold Phi scTot fc1Tot fc2Tot V Mid.scIds Mid.fc1Ids Mid.fc2Ids newMid
  simp [untouched_nil]

theorem sfTot_newMid (L : Ledger) : sfTot (newMid L) = SFtot L := by
  unfold sfTot SFtot Mid.sfIds newMid
  simp [untouched_nil]

-- ------------------------------------------------------------------ ghost quantities and id-list coverage

/-- the model passes `ValidOutputID(i)` as a finite list; it must cover the contract's valid outputs whenever
a storage proof is processed (in Go the id exists for every index) -/
def checkProofIds (pid : Id) (mw : Nat) : Mid → List Txn1 → Bool
  | _, [] => true
  | ms, t :: ts =>
    (t.proofs.all fun sp => match ms.fc1Element t.supp sp.parent with
      | some e => decide (e.fc.valid.length ≤ sp.outIds.length)
      | none => true) &&
    (match stepV1 pid mw ms t with
      | .ok ms' => checkProofIds pid mw ms' ts
      | .error _ => true)

/-- sum of all siafund claim outputs created by a run of v1 transactions -/
def claimsV1 : Mid → List Txn1 → Nat
  | _, [] => 0
  | ms, t :: ts => t.claims ms + (match applyTransaction ms t with
      | .ok ms' => claimsV1 ms' ts
      | .error _ => 0)

/-- sum of all siafund claim outputs created by a run of v2 transactions -/
def claimsV2 : Mid → List Txn2 → Nat
  | _, [] => 0
  | ms, t :: ts => t.claims ms.pool + (match applyV2Transaction ms t with
      | .ok ms' => claimsV2 ms' ts
      | .error _ => 0)

theorem loop_v1 {T} (pid : Id) (mw : Nat) (l : List Txn1) : ∀ (ms ms' : Mid) (R : List (Kind × Id)),
    Ctx T ms.base → Inv T ms → (∀ t ∈ l, SuppOk ms.base t.supp) →
    Fresh T ms (l.flatMap Txn1.created ++ R) → checkProofIds pid mw ms l = true →
    (∀ t ∈ l, (t.sfOuts.map (·.2.1)).sum < u64Limit) → sfTot ms < u64Limit →
    l.foldlM (stepV1 pid mw) ms = .ok ms' →
    Inv T ms' ∧ Fresh T ms' R ∧ ms'.base = ms.base ∧
    Phi ms' + (l.map (·.fees.sum)).sum = Phi ms + claimsV1 ms l ∧ sfTot ms' = sfTot ms ∧
    l.foldlM applyTransaction ms = .ok ms' ∧ ms.pool ≤ ms'.pool ∧
    (CsOk ms → CsOk ms' ∧ Psi ms' + 10000 * claimsV1 ms l ≤ Psi ms + (ms'.pool - ms.pool) * sfTot ms) ∧
    ms'.pool = ms.pool + (l.map (Txn1.taxes ms.base)).sum ∧
    (1 ≤ ms.base.P.maturityDelay → scW (wImm ms.base.child) ms + claimsV1 ms l ≤ scW (wImm ms.base.child) ms') := by
  induction l with
  | nil =>
    intro ms ms' R _ hI _ hF _ _ _ h
    simp only [List.foldlM_nil] at h; cases h
    exact ⟨hI, hF, rfl, by simp [claimsV1], rfl, rfl, Nat.le_refl _, fun h => ⟨h, by simp [claimsV1]⟩, by simp, fun _ => by simp [claimsV1]⟩
  | cons t l ih =>
    intro ms ms' R hc hI hsupp hF hchk hnw hsfb h
    rw [List.foldlM_cons, bind_eq_ok] at h
    obtain ⟨ms1, h1, h2⟩ := h
    unfold stepV1 at h1
    rw [bind_eq_ok] at h1; obtain ⟨u, hv, ha⟩ := h1
    simp only [List.flatMap_cons, List.append_assoc] at hF
    unfold checkProofIds at hchk
    rw [Bool.and_eq_true] at hchk
    have hstep : stepV1 pid mw ms t = .ok ms1 := by
      unfold stepV1; rw [bind_eq_ok]; exact ⟨u, hv, ha⟩
    rw [hstep] at hchk; simp only [] at hchk
    have hlen : ∀ sp ∈ t.proofs, ∀ e, ms.fc1Element t.supp sp.parent = some e → e.fc.valid.length ≤ sp.outIds.length := by
      intro sp hsp e he
      have := List.all_eq_true.mp hchk.1 sp hsp
      rw [he] at this; simpa using this
    obtain ⟨hI1, hF1, hb1, hP1, hS1, hpl1, hsv1, hpf1, hwi1⟩ := v1txn_conserves hc hI (hsupp t List.mem_cons_self) hF hlen
      (hnw t List.mem_cons_self) hsfb hv ha
    obtain ⟨hI2, hF2, hb2, hP2, hS2, ha2, hpl2, hsv2, hpf2, hwi2⟩ := ih ms1 ms' R (hb1 ▸ hc) hI1
      (fun t' ht' => hb1 ▸ hsupp t' (List.mem_cons_of_mem _ ht')) hF1 hchk.2
      (fun t' ht' => hnw t' (List.mem_cons_of_mem _ ht')) (hS1 ▸ hsfb) h2
    refine ⟨hI2, hF2, hb2.trans hb1, ?_, hS2.trans hS1, ?_, Nat.le_trans hpl1 hpl2, ?_, ?_, ?_⟩
    · simp only [List.map_cons, List.sum_cons]
      unfold claimsV1; rw [ha]; simp only []
      omega
    · rw [List.foldlM_cons, bind_eq_ok]; exact ⟨ms1, ha, ha2⟩
    · intro hcs
      obtain ⟨c1, q1⟩ := hsv1 hcs
      obtain ⟨c2, q2⟩ := hsv2 c1
      refine ⟨c2, ?_⟩
      unfold claimsV1; rw [ha]; simp only []
      rw [hS1] at q2
      have hsplit : (ms'.pool - ms.pool) * sfTot ms = (ms'.pool - ms1.pool) * sfTot ms + (ms1.pool - ms.pool) * sfTot ms := by
        rw [← Nat.add_mul]; congr 1; unfold Cur at *; omega
      rw [hsplit]; omega
    · simp only [List.map_cons, List.sum_cons]; rw [hpf2, hpf1, hb1]; exact Nat.add_assoc _ _ _
    · intro hmd
      have h1 := hwi1 hmd
      have h2 := hwi2 (by rw [hb1]; exact hmd)
      rw [hb1] at h2
      unfold claimsV1; rw [ha]; simp only []
      omega

theorem loop_v2 {T} (mw : Nat) (l : List Txn2) : ∀ (ms ms' : Mid) (R : List (Kind × Id)),
    Ctx T ms.base → ms.base.child ≥ ms.base.P.ephemeralFix → Inv T ms →
    (∀ e ∈ ms.base.fc2, e.fc.missedHost ≤ e.fc.host.value) →
    Fresh T ms (l.flatMap Txn2.created ++ R) →
    (∀ t ∈ l, (t.sfOuts.map (·.2.1)).sum < u64Limit) → sfTot ms < u64Limit →
    l.foldlM (stepV2 mw) ms = .ok ms' →
    Inv T ms' ∧ Fresh T ms' R ∧ ms'.base = ms.base ∧
    Phi ms' + (l.map (·.fee)).sum + (l.map Txn2.forfeits).sum = Phi ms + claimsV2 ms l ∧ sfTot ms' = sfTot ms ∧
    l.foldlM applyV2Transaction ms = .ok ms' ∧ ms.pool ≤ ms'.pool ∧
    (CsOk ms → CsOk ms' ∧ Psi ms' + 10000 * claimsV2 ms l ≤ Psi ms + (ms'.pool - ms.pool) * sfTot ms) ∧
    ms'.pool = ms.pool + (l.map Txn2.taxes).sum ∧
    (1 ≤ ms.base.P.maturityDelay → scW (wImm ms.base.child) ms + claimsV2 ms l ≤ scW (wImm ms.base.child) ms') := by
  induction l with
  | nil =>
    intro ms ms' R _ _ hI _ hF _ _ h
    simp only [List.foldlM_nil] at h; cases h
    exact ⟨hI, hF, rfl, by simp [claimsV2], rfl, rfl, Nat.le_refl _, fun h => ⟨h, by simp [claimsV2]⟩, by simp, fun _ => by simp [claimsV2]⟩
  | cons t l ih =>
    intro ms ms' R hc hfix hI hm2 hF hnw hsfb h
    rw [List.foldlM_cons, bind_eq_ok] at h
    obtain ⟨ms1, h1, h2⟩ := h
    unfold stepV2 at h1
    rw [bind_eq_ok] at h1; obtain ⟨u, hv, ha⟩ := h1
    simp only [List.flatMap_cons, List.append_assoc] at hF
    obtain ⟨hI1, hF1, hb1, hP1, hS1, hpl1, hsv1, hpf1, hwi1⟩ := v2txn_conserves hc hfix hI hm2 hF (hnw t List.mem_cons_self) hsfb hv ha
    obtain ⟨hI2, hF2, hb2, hP2, hS2, ha2, hpl2, hsv2, hpf2, hwi2⟩ := ih ms1 ms' R (hb1 ▸ hc) (hb1 ▸ hfix) hI1 (hb1 ▸ hm2) hF1
      (fun t' ht' => hnw t' (List.mem_cons_of_mem _ ht')) (hS1 ▸ hsfb) h2
    refine ⟨hI2, hF2, hb2.trans hb1, ?_, hS2.trans hS1, ?_, Nat.le_trans hpl1 hpl2, ?_, ?_, ?_⟩
    · simp only [List.map_cons, List.sum_cons]
      unfold claimsV2; rw [ha]; simp only []
      c1_omega
    · rw [List.foldlM_cons, bind_eq_ok]; exact ⟨ms1, ha, ha2⟩
    · intro hcs
      obtain ⟨c1, q1⟩ := hsv1 hcs
      obtain ⟨c2, q2⟩ := hsv2 c1
      refine ⟨c2, ?_⟩
      unfold claimsV2; rw [ha]; simp only []
      rw [hS1] at q2
      have hsplit : (ms'.pool - ms.pool) * sfTot ms = (ms'.pool - ms1.pool) * sfTot ms + (ms1.pool - ms.pool) * sfTot ms := by
        rw [← Nat.add_mul]; congr 1; unfold Cur at *; omega
      rw [hsplit]; omega
    · simp only [List.map_cons, List.sum_cons]; rw [hpf2, hpf1]; exact Nat.add_assoc _ _ _
    · intro hmd
      have h1 := hwi1 hmd
      have h2 := hwi2 (by rw [hb1]; exact hmd)
      rw [hb1] at h2
      unfold claimsV2; rw [ha]; simp only []
      omega

-- ------------------------------------------------------------------ miner payouts, subsidy, expirations

theorem loop_payouts {T} (l : List (Id × ScOut)) : ∀ (ms ms' : Mid) (R : List (Kind × Id)), Ctx T ms.base → Inv T ms →
    Fresh T ms (l.map (fun x => (Kind.sc, x.1)) ++ R) →
    l.foldlM stepPayout ms = .ok ms' →
    Inv T ms' ∧ Fresh T ms' R ∧ ms'.base = ms.base ∧
    Phi ms' = Phi ms + (l.map (·.2.value)).sum ∧ sfTot ms' = sfTot ms ∧ ms'.pool = ms.pool := by
  induction l with
  | nil =>
    intro ms ms' R _ hI hF h
    simp only [List.foldlM_nil] at h; cases h
    exact ⟨hI, hF, rfl, by simp, rfl, rfl⟩
  | cons a l ih =>
    intro ms ms' R hc hI hF h
    rw [List.foldlM_cons, bind_eq_ok] at h
    obtain ⟨ms1, h1, h2⟩ := h
    cases h1
    simp only [List.map_cons, List.cons_append] at hF
    unfold Mid.createImmatureSc at h2
    obtain ⟨hI1, hA1, hF1, hP1, hS1, hp1, hb1⟩ := createSc_spec hc hI hF a.2 (maturityHeight ms.base)
    obtain ⟨hI2, hF2, hb2, hP2, hS2, hp2⟩ := ih _ ms' R (by rw [hb1]; exact hc) hI1 hF1 h2
    refine ⟨hI2, hF2, hb2.trans hb1, ?_, hS2.trans hS1, hp2.trans hp1⟩
    simp only [List.map_cons, List.sum_cons]; rw [hP2, hP1]; omega

/-- value of the Foundation subsidy scheduled for the block after `L` (0 if none) -/
def subsidyVal (L : Ledger) : Nat :=
  match foundationSubsidy L with
  | .ok (some o) => o.value
  | _ => 0

def optVal (o : Option ScOut) : Nat :=
  match o with
  | some o => o.value
  | none => 0

theorem subsidyVal_eq {L : Ledger} {sub : Option ScOut} (h : foundationSubsidy L = .ok sub) :
    subsidyVal L = optVal sub := by
  unfold subsidyVal; rw [h]; cases sub <;> rfl

theorem siacoins_mul_le (a b : Nat) (h : a ≤ b) : siacoins 30000 * a ≤ siacoins 30000 * b :=
  Nat.mul_le_mul_left _ h

/-- with sane parameters `FoundationSubsidy` never panics -/
theorem foundationSubsidy_ok (L : Ledger) (hp : ParamsOk L.P) : ∃ sub, foundationSubsidy L = .ok sub := by
  unfold foundationSubsidy
  have hbpm : L.P.blocksPerYear / 12 ≠ 0 := by
    have := hp.1
    intro h
    have := Nat.div_eq_zero_iff.mp h
    omega
  have hle : L.P.blocksPerYear / 12 ≤ L.P.blocksPerYear := Nat.div_le_self _ _
  have h1 : siacoins 30000 * L.P.blocksPerYear < curLimit := hp.2
  have h2 : siacoins 30000 * (L.P.blocksPerYear / 12) < curLimit :=
    Nat.lt_of_le_of_lt (siacoins_mul_le _ _ hle) h1
  simp only []
  split
  · exact ⟨none, rfl⟩
  · split
    · exact ⟨none, rfl⟩
    · split
      · unfold mul64C; rw [if_pos h1]; exact ⟨_, rfl⟩
      · unfold mul64C; rw [if_pos h2]; exact ⟨_, rfl⟩

theorem applySubsidy_spec {T} {ms : Mid} (hc : Ctx T ms.base) (hI : Inv T ms) {b : Block} {R : List (Kind × Id)}
    (hF : Fresh T ms ((Kind.sc, b.foundationOutId) :: R)) (sub : Option ScOut) :
    Inv T (applySubsidy ms b sub) ∧ Fresh T (applySubsidy ms b sub) R ∧ (applySubsidy ms b sub).base = ms.base ∧
    Phi (applySubsidy ms b sub) = Phi ms + optVal sub ∧
    sfTot (applySubsidy ms b sub) = sfTot ms ∧ (applySubsidy ms b sub).pool = ms.pool := by
  unfold applySubsidy
  cases sub with
  | none => exact ⟨hI, hF.tail, rfl, rfl, rfl, rfl⟩
  | some o =>
    simp only []
    unfold Mid.createImmatureSc
    obtain ⟨hI1, hA1, hF1, hP1, hS1, hp1, hb1⟩ := createSc_spec hc hI hF o (maturityHeight ms.base)
    exact ⟨hI1, hF1, hb1, hP1, hS1, hp1⟩

theorem loop_expiring {T} (l : List (Fc1Elem × List Id)) : ∀ (ms ms' : Mid) (R : List (Kind × Id)), Ctx T ms.base → Inv T ms →
    (∀ x ∈ l, x.1 ∈ ms.base.fc1 ∧ x.1.fc.missed.length ≤ x.2.length) →
    Fresh T ms (l.flatMap (fun x => x.2.map (fun i => (Kind.sc, i))) ++ R) →
    l.foldlM stepExpire ms = .ok ms' →
    Inv T ms' ∧ Fresh T ms' R ∧ ms'.base = ms.base ∧ Phi ms' = Phi ms ∧ sfTot ms' = sfTot ms ∧ ms'.pool = ms.pool := by
  induction l with
  | nil =>
    intro ms ms' R _ hI _ hF h
    simp only [List.foldlM_nil] at h; cases h
    exact ⟨hI, hF, rfl, rfl, rfl, rfl⟩
  | cons a l ih =>
    intro ms ms' R hc hI hx hF h
    rw [List.foldlM_cons, bind_eq_ok] at h
    obtain ⟨ms1, h1, h2⟩ := h
    unfold stepExpire at h1
    simp only [List.flatMap_cons, List.append_assoc] at hF
    obtain ⟨hbase, hlen⟩ := hx a List.mem_cons_self
    by_cases hsp : ms.isSpent a.1.id = true
    · rw [if_pos hsp] at h1; cases h1
      exact ih ms ms' R hc hI (fun x hx' => hx x (List.mem_cons_of_mem _ hx')) hF.drop_append h2
    · rw [if_neg hsp] at h1; cases h1
      have hsp' : ms.isSpent a.1.id = false := by simpa using hsp
      have hT : T Kind.fc1 a.1.id := hc.base Kind.fc1 _ (List.mem_map_of_mem hbase)
      have hres : ResolvableFc1 T ms a.1 := by
        refine ⟨hT, ?_⟩
        cases hv : ms.fc1Diff? a.1.id with
        | none => exact hbase
        | some d =>
          simp only []
          obtain ⟨hm, hid⟩ := fc1Diff?_mem hv
          have hok := hI.fc1 d hm
          have hnr : d.resolved = false := by
            cases hr : d.resolved with
            | false => rfl
            | true =>
              have := isSpent_of_mem (hok.2.2.1 hr)
              rw [hid, hsp'] at this; cases this
          have hcr : d.created = false := by
            cases hcd : d.created with
            | false => rfl
            | true =>
              have := hok.1 hcd; rw [hid] at this
              exact absurd (List.mem_map_of_mem hbase) this
          have hde : d.e = a.1 := base_unique ms.base.fc1 (·.id) (hc.nodup Kind.fc1) (hok.2.1 hcr) hbase hid
          refine ⟨hnr, ?_, fun _ _ => hbase⟩
          rw [(hok.2.2.2 hnr).1, hde]
      obtain ⟨hI1, hA1, hP1, hS1, hp1, hb1⟩ := resolveFc1_spec hc hI hres false
      have hF1 := hF.agree hA1 (fun q hq => hres.not_fresh hF q hq)
      have hF1' := Fresh.zip_prefix a.1.fc.missed a.2 hF1
      obtain ⟨hI2, hA2, hF2, hP2, hS2, hp2, hb2, _⟩ := payOuts_spec (a.1.fc.missed.zip a.2) _ _ (hb1 ▸ hc) hI1
        (by simpa [List.map_map] using hF1')
      obtain ⟨hI3, hF3, hb3, hP3, hS3, hp3⟩ := ih _ ms' R (by rw [hb2, hb1]; exact hc) hI2
        (fun x hx' => by rw [hb2, hb1]; exact hx x (List.mem_cons_of_mem _ hx')) hF2 h2
      refine ⟨hI3, hF3, hb3.trans (hb2.trans hb1), ?_, hS3.trans (hS2.trans hS1), hp3.trans (hp2.trans hp1)⟩
      rw [hP3, hP2, zip_fst_sum _ _ hlen]
      have := hc.fc1_bal a.1 hbase
      unfold Fc1.val at hP1
      omega

-- ------------------------------------------------------------------ the block

theorem validateSupplement_ok {L : Ledger} {b : Block} (h : validateSupplement L b = .ok ()) :
    (∀ t ∈ b.txns1, SuppOk L t.supp) ∧ (∀ x ∈ b.expiring, x.1 ∈ L.fc1) ∧
    ¬ (L.child ≥ L.P.v2Require ∧ (b.txns1.length ≠ 0 ∨ b.expiring.length ≠ 0)) := by
  unfold validateSupplement at h
  simp only [] at h
  split at h
  · rw [bind_eq_ok] at h; obtain ⟨_, hr, _⟩ := h; cases hr
  · rename_i hcond
    split at h
    · rw [bind_eq_ok] at h; obtain ⟨_, hr, _⟩ := h; cases hr
    rw [bind_eq_ok] at h; obtain ⟨u, hloop, h⟩ := h
    have h1 := forIn_unit_inv _ (fun t : Txn1 => SuppOk L t.supp) (by
      intro t s r hh
      split at hh
      · rw [bind_eq_ok] at hh; obtain ⟨_, hr, _⟩ := hh; cases hr
      · rename_i c1
        split at hh
        · rw [bind_eq_ok] at hh; obtain ⟨_, hr, _⟩ := hh; cases hr
        · rename_i c2
          split at hh
          · rw [bind_eq_ok] at hh; obtain ⟨_, hr, _⟩ := hh; cases hr
          · rename_i c3
            split at hh
            · rw [bind_eq_ok] at hh; obtain ⟨_, hr, _⟩ := hh; cases hr
            · rename_i c4
              cases hh
              refine ⟨⟨?_, ?_, ?_, ?_⟩, rfl⟩
              · intro e he
                have := List.all_eq_true.mp (Decidable.not_not.mp c1) e he
                exact List.contains_iff_mem.mp this
              · intro e he
                have := List.all_eq_true.mp (Decidable.not_not.mp c2) e he
                exact List.contains_iff_mem.mp this
              · intro e he
                have := List.all_eq_true.mp (Decidable.not_not.mp c3) e he
                exact List.contains_iff_mem.mp this
              · intro e he
                have := List.all_eq_true.mp (Decidable.not_not.mp c4) e he
                exact List.contains_iff_mem.mp this) b.txns1 hloop
    refine ⟨h1, ?_, hcond⟩
    split at h
    · cases h
    · rename_i c5
      intro x hx
      have := List.all_eq_true.mp (Decidable.not_not.mp c5) x hx
      exact List.contains_iff_mem.mp this

theorem sum_flatten_nat (l : List (List Nat)) : l.flatten.sum = (l.map List.sum).sum := by
  induction l with
  | nil => rfl
  | cons a l ih => simp only [List.flatten_cons, List.sum_append, List.map_cons, List.sum_cons, ih]

/-- siafund output sums of a transaction do not wrap a uint64 (guaranteed in Go by the block weight limit) -/
def SfNoWrap (b : Block) : Prop :=
  (∀ t ∈ b.txns1, (t.sfOuts.map (·.2.1)).sum < u64Limit) ∧ (∀ t ∈ b.v2txns, (t.sfOuts.map (·.2.1)).sum < u64Limit)

/-- the finite id lists of the model cover every output that is created (always true of `ValidOutputID(i)`,
`MissedOutputID(i)` in Go) -/
def IdListsCover (L : Ledger) (b : Block) (pid : Id) : Prop :=
  checkProofIds pid b.maxWeight (newMid L) b.txns1 = true ∧ ∀ x ∈ b.expiring, x.1.fc.missed.length ≤ x.2.length

/-- total of the siafund claim outputs created by the block -/
def Block.claims (L : Ledger) (b : Block) : Nat :=
  claimsV1 (newMid L) b.txns1 +
  (match b.txns1.foldlM applyTransaction (newMid L) with
    | .ok ms1 => claimsV2 ms1 b.v2txns
    | .error _ => 0)

/-- siafund tax collected by the block -/
def Block.taxSum (L : Ledger) (b : Block) : Nat := (b.txns1.map (Txn1.taxes L)).sum + (b.v2txns.map Txn2.taxes).sum

/-- total value forfeited by missed v2 expirations in the block -/
def Block.forfeits (b : Block) : Nat := (b.v2txns.map Txn2.forfeits).sum

theorem block_conserves {L : Ledger} {b : Block} {pid : Id} {msv : Mid}
    (hw : WF L) (hf : FreshIds L b) (hfix : L.child ≥ L.P.ephemeralFix) (hnw : SfNoWrap b)
    (hcov : IdListsCover L b pid) (hv : validateBlock L b pid = .ok msv) :
    ∃ ms, midApplyBlock (newMid L) b = .ok ms ∧ Inv (Tb L b) ms ∧ ms.base = L ∧
      Phi ms + b.forfeits = V L + blockReward L + subsidyVal L + b.claims L ∧ sfTot ms = SFtot L ∧
      L.pool ≤ ms.pool ∧
      (CsOk (newMid L) → CsOk ms ∧ Psi ms + 10000 * b.claims L ≤ Psi (newMid L) + (ms.pool - L.pool) * SFtot L) ∧
      ms.pool = L.pool + b.taxSum L := by
  obtain ⟨hvo, hvs, ms1, hl1, hl2⟩ := validateBlock_ok hv
  obtain ⟨hsupp, hexp, hcond⟩ := validateSupplement_ok hvs
  have hpay := validateMinerPayouts_ok (validateOrphan_ok hvo)
  have hc : Ctx (Tb L b) (newMid L).base := ctx_of_wf hw hf
  have hI0 : Inv (Tb L b) (newMid L) := inv_newMid L
  have hF0 := fresh_newMid hf
  unfold Block.created at hF0
  have hsf0 : sfTot (newMid L) < u64Limit := by rw [sfTot_newMid]; exact hw.sf_bound
  -- v1 transactions
  obtain ⟨hI1, hF1, hb1, hP1, hS1, ha1, hpl1, hsv1, hpf1, _⟩ := loop_v1 pid b.maxWeight b.txns1 (newMid L) ms1 _ hc hI0 hsupp hF0 hcov.1
    hnw.1 hsf0 hl1
  have hb1' : ms1.base = L := hb1
  -- v2 transactions
  obtain ⟨hI2, hF2, hb2, hP2, hS2, ha2, hpl2, hsv2, hpf2, _⟩ := loop_v2 b.maxWeight b.v2txns ms1 msv _ (hb1' ▸ hc) (hb1' ▸ hfix) hI1 (hb1' ▸ hw.fc2_missed) hF1
    hnw.2 (hS1 ▸ hsf0) hl2
  have hb2' : msv.base = L := hb2.trans hb1'
  -- miner payouts
  have hpo : ∃ ms3, b.payouts.foldlM stepPayout msv = .ok ms3 := by
    generalize msv = m
    induction b.payouts generalizing m with
    | nil => exact ⟨m, rfl⟩
    | cons a l ih => obtain ⟨m', hm'⟩ := ih (m.createImmatureSc a.1 a.2); exact ⟨m', by rw [List.foldlM_cons]; exact hm'⟩
  obtain ⟨ms3, hl3⟩ := hpo
  obtain ⟨hI3, hF3, hb3, hP3, hS3, hp3⟩ := loop_payouts b.payouts msv ms3 _ (hb2' ▸ hc) hI2 hF2 hl3
  have hb3' : ms3.base = L := hb3.trans hb2'
  -- subsidy
  obtain ⟨sub, hsub⟩ := foundationSubsidy_ok L hw.params
  have hsv := subsidyVal_eq hsub
  obtain ⟨hI4, hF4, hb4, hP4, hS4, hp4⟩ := applySubsidy_spec (hb3' ▸ hc) hI3 (b := b) hF3 sub
  have hb4' : (applySubsidy ms3 b sub).base = L := hb4.trans hb3'
  -- expirations
  have hex : ∃ ms5, b.expiring.foldlM stepExpire (applySubsidy ms3 b sub) = .ok ms5 := by
    generalize applySubsidy ms3 b sub = m
    induction b.expiring generalizing m with
    | nil => exact ⟨m, rfl⟩
    | cons a l ih =>
      obtain ⟨m', hm'⟩ := ih (if m.isSpent a.1.id then m else payOuts (m.resolveFc1 a.1 false) (a.1.fc.missed.zip a.2))
      exact ⟨m', by rw [List.foldlM_cons]; exact hm'⟩
  obtain ⟨ms5, hl5⟩ := hex
  obtain ⟨hI5, hF5, hb5, hP5, hS5, hp5⟩ := loop_expiring b.expiring _ ms5 [] (hb4' ▸ hc) hI4
    (fun x hx => ⟨hb4' ▸ hexp x hx, hcov.2 x hx⟩) (by simpa using hF4) hl5
  have hpool5 : ms5.pool = msv.pool := by rw [hp5, hp4, hp3]
  refine ⟨ms5, ?_, hI5, hb5.trans hb4', ?_, ?_, ?_, ?_, ?_⟩
  · rw [midApplyBlock_eq_c1]
    have hcond' : ¬ ((newMid L).base.child ≥ (newMid L).base.P.v2Require ∧ (b.txns1.length ≠ 0 ∨ b.expiring.length ≠ 0)) := hcond
    rw [if_neg hcond', bind_eq_ok]
    refine ⟨ms1, ha1, ?_⟩
    rw [bind_eq_ok]; refine ⟨msv, ha2, ?_⟩
    rw [bind_eq_ok]; refine ⟨ms3, hl3, ?_⟩
    rw [bind_eq_ok]; refine ⟨sub, by rw [hb3']; exact hsub, hl5⟩
  · have hcl : b.claims L = claimsV1 (newMid L) b.txns1 + claimsV2 ms1 b.v2txns := by
      unfold Block.claims; rw [ha1]
    have hfe1 : b.fees1.sum = (b.txns1.map (·.fees.sum)).sum := by
      unfold Block.fees1; rw [sum_flatten_nat, List.map_map]; rfl
    have hfe2 : b.fees2.sum = (b.v2txns.map (·.fee)).sum := rfl
    rw [hP5, hP4, hP3, hsv, hcl]
    unfold Block.forfeits
    rw [Phi_newMid] at hP1
    clear hv hvo hvs hl1 hl2 hl3 ha1 ha2 hF0 hF1 hF2 hF3
    c1_omega
  · rw [hS5, hS4, hS3, hS2, hS1, sfTot_newMid]
  · rw [hpool5]; exact Nat.le_trans hpl1 hpl2
  · intro hcs
    obtain ⟨c1, q1⟩ := hsv1 hcs
    obtain ⟨c2, q2⟩ := hsv2 c1
    have s35 : SfSame msv ms5 :=
      (sfSame_payouts hl3).trans ((sfSame_subsidy ms3 b sub).trans (sfSame_expiring hl5))
    obtain ⟨q5, c5⟩ := Psi_shift s35 0 (by rw [hpool5]; rfl) c2
    refine ⟨c5, ?_⟩
    have hcl : b.claims L = claimsV1 (newMid L) b.txns1 + claimsV2 ms1 b.v2txns := by
      unfold Block.claims; rw [ha1]
    rw [hcl, q5, hpool5]
    rw [hS1, sfTot_newMid] at q2
    rw [sfTot_newMid] at q1
    have hnp : (newMid L).pool = L.pool := rfl
    rw [hnp] at q1 hpl1
    have hsplit : (msv.pool - L.pool) * SFtot L = (msv.pool - ms1.pool) * SFtot L + (ms1.pool - L.pool) * SFtot L := by
      rw [← Nat.add_mul]; congr 1; unfold Cur at *; omega
    rw [hsplit]
    simp only [Nat.zero_mul, Nat.add_zero]
    omega
  · unfold Block.taxSum
    rw [hpool5, hpf2, hpf1]
    show L.pool + _ + _ = _
    exact Nat.add_assoc _ _ _

end Sia.Ledger
