/-
  SiaProofs.Lemmas.UpdateLeaves — `recompute` / `updateLeaves` (consensus/merkle.go:312)
  against the naive forest.
-/
import SiaProofs.Lemmas.Forest
set_option linter.unusedSectionVars false
namespace Sia.ElemAcc
section
variable {H : Type} [Hasher H] [Inhabited H]

/-! list facts -/

theorem take_succ_split {α : Type} [Inhabited α] {p A : List α} {x : α} {k : Nat} (hA : A.length = k)
    (h : p.take (k + 1) = A ++ [x]) :
    p.take k = A ∧ p.getD k default = x ∧ p.drop k = x :: p.drop (k + 1) := by
  have hp : p = (A ++ [x]) ++ p.drop (k + 1) := by rw [← h, List.take_append_drop]
  have hl : (A ++ [x]).length = k + 1 := by simp [hA]
  refine ⟨?_, ?_, ?_⟩
  · have : p.take k = (p.take (k + 1)).take k := by rw [List.take_take]; congr 1; omega
    rw [this, h, List.take_append_of_le_length (by omega), ← hA, List.take_length]
  · rw [hp]
    simp [List.getD, List.getElem?_append_left (show k < (A ++ [x]).length by omega),
      List.getElem?_append_right (show A.length ≤ k by omega), hA]
  · conv => lhs; rw [hp]
    rw [List.drop_append_of_le_length (by omega), List.drop_append_of_le_length (by omega), ← hA, List.drop_length]
    simp

theorem set_append_cons {α : Type} (A B : List α) (y x : α) : (A ++ y :: B).set A.length x = A ++ x :: B := by
  induction A with
  | nil => simp
  | cons a A ih => simp [ih]

theorem dropWhile_sorted {α : Type} (key : α → Nat) (mid : Nat) :
    ∀ (l : List α), l.Pairwise (fun a b => key a < key b) →
      ∀ x ∈ l.dropWhile (fun a => decide (key a < mid)), mid ≤ key x := by
  intro l
  induction l with
  | nil => intro _ x hx; simp at hx
  | cons a l ih =>
    intro hp x hx
    rw [List.pairwise_cons] at hp
    by_cases ha : key a < mid
    · rw [List.dropWhile_cons_of_pos (by simpa using ha)] at hx
      exact ih hp.2 x hx
    · rw [List.dropWhile_cons_of_neg (by simpa using ha)] at hx
      rcases List.mem_cons.1 hx with rfl | hx'
      · omega
      · have := hp.1 x hx'; omega

/-- the proof rewrite `recompute` performs on a leaf of the block `(height, i)` -/
def fixPath (ls' : List H) (height i : Nat) (l : Leaf H) : Leaf H :=
  { l with proof := subPath ls' 0 l.index height i ++ l.proof.drop height }

theorem fixPath_hash (ls' : List H) (height i : Nat) (l : Leaf H) : (fixPath ls' height i l).hash = l.hash := rfl
theorem setProofAt_hash (l : Leaf H) (k : Nat) (x : H) : (l.setProofAt k x).hash = l.hash := rfl

/-- `recompute` on a block of the tree: given the old paths (below the block height) and
    the new leaf hashes, it returns the block's root in the updated forest and rewrites
    every proof, below the block height, to the path in the updated forest. -/
theorem recompute_spec (ls ls' : List H) : ∀ (height i : Nat) (leaves : List (Leaf H)),
    2 ^ height ∣ i →
    leaves ≠ [] →
    leaves.Pairwise (fun a b => a.index < b.index) →
    (∀ l ∈ leaves, i ≤ l.index ∧ l.index < i + 2 ^ height) →
    (∀ l ∈ leaves, l.proof.take height = subPath ls 0 l.index height i) →
    (∀ l ∈ leaves, ls'.getD l.index default = l.hash) →
    (∀ q, i ≤ q → q < i + 2 ^ height → (∀ l ∈ leaves, l.index ≠ q) → ls'.getD q default = ls.getD q default) →
    recompute height i leaves = .ok (subRoot ls' height i, leaves.map (fixPath ls' height i)) := by
  intro height
  induction height with
  | zero =>
    intro i leaves _ hne hsorted hrange _ hnew _
    match leaves, hne with
    | [l], _ =>
      have hi := hrange l (by simp)
      have : l.index = i := by simp at hi; omega
      simp only [recompute, subRoot, List.map_cons, List.map_nil]
      rw [← this, hnew l (by simp)]
      simp [fixPath, subPath]
    | a :: b :: rest, _ =>
      exfalso
      have ha := hrange a (by simp)
      have hb := hrange b (by simp)
      rw [List.pairwise_cons] at hsorted
      have := hsorted.1 b (by simp)
      simp at ha hb; omega
  | succ height ih =>
    intro i leaves hal hne hsorted hrange hold hnew hsame
    have hp := pow_succ2 height
    have hpos := Nat.two_pow_pos height
    have hsplit : leaves.takeWhile (fun l => decide (l.index < i + 2 ^ height)) ++
        leaves.dropWhile (fun l => decide (l.index < i + 2 ^ height)) = leaves := List.takeWhile_append_dropWhile
    have hleftlt : ∀ l ∈ leaves.takeWhile (fun l => decide (l.index < i + 2 ^ height)), l.index < i + 2 ^ height := by
      intro l hl
      have h1 : (leaves.takeWhile (fun l => decide (l.index < i + 2 ^ height))).all (fun l => decide (l.index < i + 2 ^ height)) = true := List.all_takeWhile
      simpa using List.all_eq_true.1 h1 l hl
    have hrightge := dropWhile_sorted (fun l : Leaf H => l.index) (i + 2 ^ height) leaves hsorted
    have hlsub := List.takeWhile_sublist (l := leaves) (fun l => decide (l.index < i + 2 ^ height))
    have hrsub := List.dropWhile_sublist (l := leaves) (fun l => decide (l.index < i + 2 ^ height))
    unfold recompute
    simp only []
    generalize hL : leaves.takeWhile (fun l => decide (l.index < i + 2 ^ height)) = left at *
    generalize hR : leaves.dropWhile (fun l => decide (l.index < i + 2 ^ height)) = right at *
    have hlmem : ∀ l ∈ left, l ∈ leaves := fun l hl => hlsub.subset hl
    have hrmem : ∀ l ∈ right, l ∈ leaves := fun l hl => hrsub.subset hl
    have hmem : ∀ l ∈ leaves, l ∈ left ∨ l ∈ right := by
      intro l hl; rw [← hsplit] at hl; exact List.mem_append.1 hl
    -- facts about a leaf's old proof at this level
    have holdL : ∀ l ∈ left, l.proof.take height = subPath ls 0 l.index height i ∧
        l.proof.getD height default = subRoot ls height (i + 2 ^ height) ∧
        l.proof.drop height = subRoot ls height (i + 2 ^ height) :: l.proof.drop (height + 1) := by
      intro l hl
      have h1 := hold l (hlmem l hl)
      rw [subPath_left ls (Nat.zero_le _) (hleftlt l hl)] at h1
      exact take_succ_split (by rw [subPath_length]; omega) h1
    have holdR : ∀ l ∈ right, l.proof.take height = subPath ls 0 l.index height (i + 2 ^ height) ∧
        l.proof.getD height default = subRoot ls height i ∧
        l.proof.drop height = subRoot ls height i :: l.proof.drop (height + 1) := by
      intro l hl
      have h1 := hold l (hrmem l hl)
      rw [subPath_right ls (Nat.zero_le _) (hrightge l hl)] at h1
      exact take_succ_split (by rw [subPath_length]; omega) h1
    have hsameL : ∀ q, i ≤ q → q < i + 2 ^ height → (∀ l ∈ left, l.index ≠ q) → ls'.getD q default = ls.getD q default := by
      intro q h1 h2 h3
      apply hsame q h1 (by omega)
      intro l hl
      rcases hmem l hl with h | h
      · exact h3 l h
      · have := hrightge l h; omega
    have hsameR : ∀ q, i + 2 ^ height ≤ q → q < i + 2 ^ height + 2 ^ height → (∀ l ∈ right, l.index ≠ q) → ls'.getD q default = ls.getD q default := by
      intro q h1 h2 h3
      apply hsame q (by omega) (by omega)
      intro l hl
      rcases hmem l hl with h | h
      · have := hleftlt l h; omega
      · exact h3 l h
    have ihL : left ≠ [] → recompute height i left = .ok (subRoot ls' height i, left.map (fixPath ls' height i)) := fun hne' =>
      ih i left (dvd_of_dvd_succ hal) hne' (hsorted.sublist hlsub)
        (fun l hl => ⟨(hrange l (hlmem l hl)).1, hleftlt l hl⟩) (fun l hl => (holdL l hl).1)
        (fun l hl => hnew l (hlmem l hl)) hsameL
    -- final proof shapes
    have fixL : ∀ l ∈ left, ∀ x, x = subRoot ls' height (i + 2 ^ height) →
        ((fixPath ls' height i l).setProofAt height x) = fixPath ls' (height + 1) i l := by
      intro l hl x hx
      have h1 := (holdL l hl).2.2
      simp only [fixPath, Leaf.setProofAt]
      congr 1
      rw [subPath_left ls' (Nat.zero_le _) (hleftlt l hl), h1]
      have := set_append_cons (subPath ls' 0 l.index height i) (l.proof.drop (height + 1)) (subRoot ls height (i + 2 ^ height)) x
      rw [subPath_length] at this
      simp only [Nat.sub_zero] at this
      rw [this, hx]; simp
    have fixR : ∀ l ∈ right, ∀ x, x = subRoot ls' height i →
        fixPath ls' height (i + 2 ^ height) (l.setProofAt height x) = fixPath ls' (height + 1) i l := by
      intro l hl x hx
      have h1 := (holdR l hl).2.2
      simp only [fixPath, Leaf.setProofAt]
      congr 1
      rw [subPath_right ls' (Nat.zero_le _) (hrightge l hl), List.drop_set, if_neg (by omega), h1, Nat.sub_self, hx]
      simp
    match left, right, hsplit, hmem, hlmem, hrmem, hleftlt, hrightge, holdL, holdR, hsameL, hsameR, ihL, fixL, fixR with
    | [], [], hsplit, _, _, _, _, _, _, _, _, _, _, _, _ =>
      exfalso; simp at hsplit; exact hne hsplit
    | [], r0 :: rs, hsplit, hmem, hlmem, hrmem, hleftlt, hrightge, holdL, holdR, hsameL, hsameR, ihL, fixL, fixR =>
      simp only [List.nil_append] at hsplit
      have hrr := ih (i + 2 ^ height) (r0 :: rs) (dvd_add_pow hal) (by simp) (by rw [hsplit]; exact hsorted)
        (fun l hl => ⟨hrightge l hl, by have := (hrange l (hrmem l hl)).2; omega⟩) (fun l hl => (holdR l hl).1)
        (fun l hl => hnew l (hrmem l hl)) hsameR
      have hleft : subRoot ls' height i = subRoot ls height i :=
        subRoot_ext height i (fun q h1 h2 => hsameL q h1 h2 (fun l hl => by simp at hl))
      simp only [hrr, bind, Except.bind, pure, Except.pure, subRoot]
      rw [(holdR r0 (by simp)).2.1, hleft, ← hsplit]
      congr 2
      apply List.map_congr_left
      intro l hl
      have h1 := (holdR l hl).2.2
      simp only [fixPath]
      congr 1
      rw [subPath_right ls' (Nat.zero_le _) (hrightge l hl), h1, hleft]; simp
    | l0 :: lrest, [], hsplit, hmem, hlmem, hrmem, hleftlt, hrightge, holdL, holdR, hsameL, hsameR, ihL, fixL, fixR =>
      simp only [List.append_nil] at hsplit
      have hll := ihL (by simp)
      have hright : subRoot ls' height (i + 2 ^ height) = subRoot ls height (i + 2 ^ height) :=
        subRoot_ext height _ (fun q h1 h2 => hsameR q h1 h2 (fun l hl => by simp at hl))
      have h0 := (holdL l0 (by simp)).2.2
      simp only [hll, bind, Except.bind, pure, Except.pure, subRoot, List.map_cons]
      have hget : (fixPath ls' height i l0).proof.getD height default = subRoot ls height (i + 2 ^ height) := by
        simp only [fixPath, h0]
        have hl := subPath_length ls' 0 l0.index height i
        simp [List.getD, List.getElem?_append_right (show (subPath ls' 0 l0.index height i).length ≤ height by omega), hl]
      rw [hget, hright, ← hsplit]
      congr 2
      rw [← List.map_cons]
      apply List.map_congr_left
      intro l hl
      have h1 := (holdL l hl).2.2
      simp only [fixPath]
      congr 1
      rw [subPath_left ls' (Nat.zero_le _) (hleftlt l hl), h1, hright]; simp
    | l0 :: lrest, r0 :: rs, hsplit, hmem, hlmem, hrmem, hleftlt, hrightge, holdL, holdR, hsameL, hsameR, ihL, fixL, fixR =>
      have hll := ihL (by simp)
      have hrr := ih (i + 2 ^ height) ((r0 :: rs).map (·.setProofAt height (subRoot ls' height i))) (dvd_add_pow hal) (by simp)
        (by
          have := hsorted.sublist hrsub
          rw [List.pairwise_map]; exact this)
        (by
          intro l hl
          obtain ⟨l1, hl1, rfl⟩ := List.mem_map.1 hl
          exact ⟨hrightge l1 hl1, by have := (hrange l1 (hrmem l1 hl1)).2; simp only [Leaf.setProofAt]; omega⟩)
        (by
          intro l hl
          obtain ⟨l1, hl1, rfl⟩ := List.mem_map.1 hl
          simp only [Leaf.setProofAt]
          rw [List.take_set_of_le (Nat.le_refl _)]
          exact (holdR l1 hl1).1)
        (by
          intro l hl
          obtain ⟨l1, hl1, rfl⟩ := List.mem_map.1 hl
          exact hnew l1 (hrmem l1 hl1))
        (by
          intro q h1 h2 h3
          apply hsameR q h1 h2
          intro l hl
          exact h3 (l.setProofAt height (subRoot ls' height i)) (List.mem_map.2 ⟨l, hl, rfl⟩))
      simp only [hll, hrr, bind, Except.bind, pure, Except.pure, subRoot]
      rw [← hsplit, List.map_append, List.map_map, List.map_map]
      congr 2
      congr 1
      · apply List.map_congr_left
        intro l hl
        exact fixL l hl _ rfl
      · apply List.map_congr_left
        intro l hl
        exact fixR l hl _ rfl


/-! ### updateLeaves -/

/-- `ls` with the hashes of `upd` written at their indices: the leaf list after a block
    rewrites existing leaves (specification side) -/
def writeLeaves (ls : List H) (upd : List (Leaf H)) : List H :=
  upd.foldl (fun acc l => acc.set l.index l.hash) ls

theorem writeLeaves_length (upd : List (Leaf H)) : ∀ ls : List H, (writeLeaves ls upd).length = ls.length := by
  induction upd with
  | nil => intro ls; rfl
  | cons a rest ih => intro ls; simp only [writeLeaves, List.foldl_cons]; exact (ih _).trans (by simp)

theorem writeLeaves_get_other (upd : List (Leaf H)) : ∀ (ls : List H) (q : Nat), (∀ l ∈ upd, l.index ≠ q) →
    (writeLeaves ls upd).getD q default = ls.getD q default := by
  induction upd with
  | nil => intro ls q _; rfl
  | cons a rest ih =>
    intro ls q h
    simp only [writeLeaves, List.foldl_cons]
    have := ih (ls.set a.index a.hash) q (fun l hl => h l (List.mem_cons_of_mem _ hl))
    simp only [writeLeaves] at this
    rw [this]
    have hne : a.index ≠ q := h a (by simp)
    simp [List.getD, List.getElem?_set_ne hne]

theorem writeLeaves_get_mem (upd : List (Leaf H)) : ∀ (ls : List H),
    upd.Pairwise (fun a b => a.index ≠ b.index) → ∀ l ∈ upd, l.index < ls.length →
    (writeLeaves ls upd).getD l.index default = l.hash := by
  induction upd with
  | nil => intro ls _ l hl; simp at hl
  | cons a rest ih =>
    intro ls hp l hl hlt
    rw [List.pairwise_cons] at hp
    simp only [writeLeaves, List.foldl_cons]
    rcases List.mem_cons.1 hl with rfl | hl'
    · have := writeLeaves_get_other rest (ls.set l.index l.hash) l.index (fun u hu => (hp.1 u hu).symm)
      simp only [writeLeaves] at this
      rw [this]
      simp [List.getD, List.getElem?_set_self hlt]
    · have := ih (ls.set a.index a.hash) hp.2 l hl' (by simpa using hlt)
      simpa only [writeLeaves] using this

theorem leafLE_trans (a b c : Leaf H) : leafLE a b = true → leafLE b c = true → leafLE a c = true := by
  simp only [leafLE, Bool.or_eq_true, decide_eq_true_eq, Bool.and_eq_true, beq_iff_eq]
  omega

theorem leafLE_total (a b : Leaf H) : (leafLE a b || leafLE b a) = true := by
  simp only [leafLE, Bool.or_eq_true, decide_eq_true_eq, Bool.and_eq_true, beq_iff_eq]
  omega

theorem clearBits_eq_anc (x k : Nat) : clearBits x k = x / 2 ^ k * 2 ^ k := by
  unfold clearBits
  have := Nat.div_add_mod x (2 ^ k)
  rw [Nat.mul_comm] at this
  omega

/-- the hypotheses on the leaves a block rewrites: distinct existing positions, each
    carrying its current naive path -/
structure UpdOK (ls : List H) (updated : List (Leaf H)) : Prop where
  nodup : updated.Pairwise (fun a b => a.index ≠ b.index)
  lt : ∀ l ∈ updated, l.index < ls.length
  proof : ∀ l ∈ updated, l.proof = path ls l.index

/-- give leaf `l` its path in `ls'` -/
def withPath (ls' : List H) (l : Leaf H) : Leaf H := { l with proof := path ls' l.index }

theorem updateGroup_spec (ls : List H) (updated sorted : List (Leaf H)) (ok : UpdOK ls updated)
    (hperm : sorted.Perm updated) (hsorted : sorted.Pairwise (fun a b => leafLE a b = true)) (h : Nat) :
    updateGroup sorted h =
      .ok ((sorted.filter (fun l => l.proof.length == h)).map (withPath (writeLeaves ls updated))) := by
  unfold updateGroup
  generalize hg : sorted.filter (fun l => l.proof.length == h) = grp
  match grp, hg with
  | [], _ => rfl
  | l0 :: rest, hg =>
    have hmem : ∀ l, l ∈ l0 :: rest ↔ l ∈ updated ∧ l.proof.length = h := by
      intro l; rw [← hg, List.mem_filter, hperm.mem_iff]; simp
    have hlen' : (writeLeaves ls updated).length = ls.length := writeLeaves_length _ _
    have hth : ∀ l ∈ l0 :: rest, InTree ls.length h l.index := by
      intro l hl
      obtain ⟨hu, hlh⟩ := (hmem l).1 hl
      have := treeHeight_spec (ok.lt l hu)
      rw [ok.proof l hu, path_length] at hlh
      rw [hlh] at this; exact this
    have hstart : clearBits l0.index h = treeStart ls.length h := by
      obtain ⟨_, h1, h2⟩ := hth l0 (by simp)
      rw [clearBits_eq_anc]
      exact anc_eq (dvd_of_dvd_succ (treeStart_dvd _ _)) h1 h2
    have hbit := (hth l0 (by simp)).1
    have hend := tree_end_le hbit
    have hnodup : sorted.Pairwise (fun a b => a.index ≠ b.index) :=
      hperm.symm.pairwise ok.nodup (fun hab => fun e => hab e.symm)
    have hpw : (l0 :: rest).Pairwise (fun a b => a.index < b.index) := by
      rw [← hg]
      have h1 := (hsorted.and hnodup).filter (fun l => l.proof.length == h)
      rw [hg] at h1 ⊢
      refine List.Pairwise.imp_of_mem ?_ h1
      intro a b ha hb hab
      have ea := ((hmem a).1 ha).2
      have eb := ((hmem b).1 hb).2
      obtain ⟨h2, h3⟩ := hab
      simp only [leafLE, Bool.or_eq_true, decide_eq_true_eq, Bool.and_eq_true, beq_iff_eq] at h2
      omega
    have hrec := recompute_spec ls (writeLeaves ls updated) h (treeStart ls.length h) (l0 :: rest)
      (dvd_of_dvd_succ (treeStart_dvd _ _)) (by simp) hpw
      (fun l hl => ⟨(hth l hl).2.1, (hth l hl).2.2⟩)
      (by
        intro l hl
        obtain ⟨hu, hlh⟩ := (hmem l).1 hl
        have hp := ok.proof l hu
        have hth' := treeHeight_unique (hth l hl)
        rw [List.take_of_length_le (by omega), hp, path_eq, hth'])
      (fun l hl => writeLeaves_get_mem updated ls ok.nodup l ((hmem l).1 hl).1 (ok.lt l ((hmem l).1 hl).1))
      (by
        intro q h1 h2 h3
        apply writeLeaves_get_other
        intro u hu hq
        have hin : InTree ls.length h q := ⟨hbit, h1, h2⟩
        have : u.proof.length = h := by
          rw [ok.proof u hu, path_length, hq]; exact treeHeight_unique hin
        exact h3 u ((hmem u).2 ⟨hu, this⟩) hq)
    dsimp only
    rw [hstart, hrec]
    simp only [bind, Except.bind, pure, Except.pure]
    congr 1
    apply List.map_congr_left
    intro l hl
    obtain ⟨hu, hlh⟩ := (hmem l).1 hl
    have hth' := treeHeight_unique (hth l hl)
    simp only [fixPath, withPath]
    congr 1
    rw [List.drop_of_length_le (by omega), path_eq, hlen', hth']; simp

theorem updateGroups_spec (ls : List H) (updated sorted : List (Leaf H)) (ok : UpdOK ls updated)
    (hperm : sorted.Perm updated) (hsorted : sorted.Pairwise (fun a b => leafLE a b = true)) (k : Nat) :
    ∃ f, updateGroups sorted k = .ok f ∧ ∀ h, f h =
      if h < k then (sorted.filter (fun l => l.proof.length == h)).map (withPath (writeLeaves ls updated)) else [] := by
  induction k with
  | zero => exact ⟨_, rfl, fun h => by simp⟩
  | succ k ih =>
    obtain ⟨f, hf, hspec⟩ := ih
    refine ⟨setFn f k ((sorted.filter (fun l => l.proof.length == k)).map (withPath (writeLeaves ls updated))), ?_, ?_⟩
    · simp only [updateGroups, hf, updateGroup_spec ls updated sorted ok hperm hsorted k, bind, Except.bind, pure, Except.pure]
    · intro h
      unfold setFn
      by_cases hk : h = k
      · subst hk; simp
      · rw [if_neg hk, hspec h]
        by_cases h1 : h < k
        · rw [if_pos h1, if_pos (by omega)]
        · rw [if_neg h1, if_neg (by omega)]

/-- **updateLeaves computes the updated forest's paths.** Every rewritten leaf ends up,
    grouped by the height of its tree, with its path in the updated leaf list. -/
theorem updateLeaves_spec (ls : List H) (updated : List (Leaf H)) (ok : UpdOK ls updated) (hn : ls.length < 2 ^ 64) :
    ∃ upd, updateLeaves updated = .ok upd ∧
      ∀ h l', l' ∈ upd h ↔ ∃ l ∈ updated, l.proof.length = h ∧ l' = withPath (writeLeaves ls updated) l := by
  have hperm := List.mergeSort_perm updated leafLE
  have hsorted := List.pairwise_mergeSort (le := leafLE) leafLE_trans leafLE_total updated
  obtain ⟨f, hf, hspec⟩ := updateGroups_spec ls updated _ ok hperm hsorted 64
  refine ⟨f, hf, ?_⟩
  intro h l'
  rw [hspec h]
  constructor
  · intro hl
    split at hl
    · obtain ⟨l, hl1, rfl⟩ := List.mem_map.1 hl
      rw [List.mem_filter, hperm.mem_iff] at hl1
      exact ⟨l, hl1.1, by simpa using hl1.2, rfl⟩
    · simp at hl
  · rintro ⟨l, hu, hlh, rfl⟩
    have hlt : h < 64 := by
      have := treeHeight_spec (ok.lt l hu)
      rw [ok.proof l hu, path_length] at hlh
      rw [hlh] at this
      rcases Nat.lt_or_ge h 64 with h1 | h1
      · exact h1
      · have hf : ls.length.testBit h = false :=
          Nat.testBit_lt_two_pow (Nat.lt_of_lt_of_le hn (Nat.pow_le_pow_right (by omega) h1))
        rw [this.1] at hf; cases hf
    rw [if_pos hlt]
    exact List.mem_map.2 ⟨l, by rw [List.mem_filter, hperm.mem_iff]; exact ⟨hu, by simpa using hlh⟩, rfl⟩

end
end Sia.ElemAcc
