import SiaProofs.Lemmas.MerkleRhpAppend
/-!
  Helper lemmas for C16, part 8: range proofs inside one sector (`RangeProofVerifier`,
  `n = 2^k` leaves): the streamed subtree roots of the covered data.
-/
set_option linter.unusedVariables false
set_option linter.unusedSectionVars false
namespace Sia.Rhp
open HashOps

variable {H : Type} [HashOps H]

/-- inside a power-of-two tree an aligned subtree never crosses the end -/
theorem pow2_step {k i : Nat} (h0 : 0 < i) (hlt : i < 2 ^ k) : i + 2 ^ tz i ≤ 2 ^ k := by
  have hi : i ≠ 0 := by omega
  have hle := two_pow_tz_le hi
  have htk : tz i < k := by
    have : 2 ^ tz i < 2 ^ k := by omega
    exact (Nat.pow_lt_pow_iff_right (by omega)).1 this
  have d1 : 2 ^ tz i ∣ 2 ^ k := Nat.pow_dvd_pow 2 (by omega)
  have d2 : 2 ^ tz i ∣ 2 ^ k - i := Nat.dvd_sub d1 (tz_dvd hi)
  have := Nat.le_of_dvd (by omega) d2
  omega

theorem nss_pow2 {k i : Nat} (h0 : 0 < i) (hlt : i < 2 ^ k) : nextSubtreeSize i (2 ^ k) = 2 ^ tz i := by
  have hs := pow2_step h0 hlt
  have h2 : tz i ≤ (2 ^ k - i).log2 := (Nat.le_log2 (by omega)).2 (by omega)
  unfold nextSubtreeSize
  simp only
  have h3 : ¬ (tz i > (2 ^ k - i).log2) := by omega
  have hi : i ≠ 0 := by omega
  simp [hi, h3]

theorem rangeSubtreeRoots_done (l : List H) (i j : Nat) (h : ¬ i < j) : rangeSubtreeRoots l i j = [] := by
  rw [rangeSubtreeRoots]; simp [h]

theorem rangeSubtreeRoots_step (l : List H) (i j : Nat) (h : i < j) :
    rangeSubtreeRoots l i j = metaRoot (l.take (nextSubtreeSize i j))
      :: rangeSubtreeRoots (l.drop (nextSubtreeSize i j)) (i + nextSubtreeSize i j) j := by
  rw [rangeSubtreeRoots]; simp [h]

/-- what `ReadFrom` computes from the honest data is what the builder would emit for `[i, e)` -/
theorem rangeSubtreeRoots_eq_buildRange (ls : List H) (e : Nat) (he : e ≤ ls.length) :
    ∀ (d i : Nat), e - i = d → rangeSubtreeRoots ((ls.drop i).take (e - i)) i e = buildRange ls i e := by
  intro d
  induction d using Nat.strongRecOn with
  | _ d ih =>
    intro i hd
    by_cases hlt : i < e
    · obtain ⟨k, hk, hdvd, hle⟩ := nss_spec hlt
      have hp := Nat.two_pow_pos k
      have hnc : ¬ (i + nextSubtreeSize i e > ls.length) := by rw [hk]; omega
      rw [rangeSubtreeRoots_step _ i e hlt, buildRange_step ls i e ⟨hlt, by omega⟩]
      rw [hk] at hnc
      simp only [hk, hnc, if_false]
      rw [List.take_take, Nat.min_eq_left (by omega)]
      congr 1
      rw [List.drop_take, List.drop_drop]
      have e1 : e - i - 2 ^ k = e - (i + 2 ^ k) := by omega
      rw [e1]
      exact ih (e - (i + 2 ^ k)) (by omega) (i + 2 ^ k) rfl
    · rw [rangeSubtreeRoots_done _ i e hlt, buildRange_done ls i e (by omega)]

theorem rangeSubtreeRoots_length (l : List H) : ∀ (d i j : Nat), j - i = d →
    (rangeSubtreeRoots l i j).length = diffRangeCount i j := by
  intro d
  induction d using Nat.strongRecOn generalizing l with
  | _ d ih =>
    intro i j hd
    rw [diffRangeCount_unfold]
    by_cases hlt : i < j
    · have hp := nextSubtreeSize_pos i j
      rw [rangeSubtreeRoots_step l i j hlt]
      simp only [hlt, if_true, List.length_cons]
      rw [ih (j - (i + nextSubtreeSize i j)) (by omega) _ _ j rfl]; omega
    · rw [rangeSubtreeRoots_done l i j hlt]; simp [hlt]

/-- the streamed subtree roots determine the leaf hashes (given their number) -/
theorem rangeSubtreeRoots_inj (hinj : NodeInj H) : ∀ (d i j : Nat) (l1 l2 : List H), j - i = d →
    l1.length = j - i → l2.length = j - i →
    rangeSubtreeRoots l1 i j = rangeSubtreeRoots l2 i j → l1 = l2 := by
  intro d
  induction d using Nat.strongRecOn with
  | _ d ih =>
    intro i j l1 l2 hd h1 h2 heq
    by_cases hlt : i < j
    · obtain ⟨k, hk, hdvd, hle⟩ := nss_spec hlt
      have hp := Nat.two_pow_pos k
      rw [rangeSubtreeRoots_step l1 i j hlt, rangeSubtreeRoots_step l2 i j hlt, hk] at heq
      simp only [List.cons.injEq] at heq
      obtain ⟨hroot, hrest⟩ := heq
      have ht : l1.take (2 ^ k) = l2.take (2 ^ k) := by
        apply root_injective_aux hinj _ _ _ hroot
        simp [List.length_take, h1, h2]
      have hdr : l1.drop (2 ^ k) = l2.drop (2 ^ k) :=
        ih (j - (i + 2 ^ k)) (by omega) (i + 2 ^ k) j _ _ rfl
          (by simp [List.length_drop, h1]; omega) (by simp [List.length_drop, h2]; omega) hrest
      rw [← List.take_append_drop (2 ^ k) l1, ← List.take_append_drop (2 ^ k) l2, ht, hdr]
    · have e1 : l1.length = 0 := by omega
      have e2 : l2.length = 0 := by omega
      rw [List.eq_nil_of_length_eq_zero e1, List.eq_nil_of_length_eq_zero e2]


/-! ### the accumulator of `RangeProofVerifier.Verify` -/

def leafAcc (n : Nat) (proof leaves : List H) (s e : Nat) : Acc H × List H :=
  let roots := rangeSubtreeRoots leaves s e
  let s1 := insertRange Acc.empty proof 0 s
  let s2 := insertRange s1.1 roots s e
  insertRange s2.1 s1.2 e n

theorem rpv_eq [DecidableEq H] (n : Nat) (proof leaves : List H) (s e : Nat) (root : H)
    (hl : proof.length = rangeProofSize n s e) :
    rangeProofVerify n proof leaves s e root = decide ((leafAcc n proof leaves s e).1.root = root) := by
  unfold rangeProofVerify leafAcc
  simp [hl]

theorem leafAcc_honest (ls : List H) (k : Nat) (hlen : ls.length = 2 ^ k) (hk : k ≤ 30)
    (s e : Nat) (hse : s < e) (hen : e ≤ ls.length) :
    let P := buildRange ls 0 s ++ buildRange ls e maxInt32
    let D := (ls.drop s).take (e - s)
    (insertRange Acc.empty P 0 s).1.n = s ∧
    (insertRange Acc.empty P 0 s).2 = buildRange ls e maxInt32 ∧
    (insertRange (insertRange Acc.empty P 0 s).1 (rangeSubtreeRoots D s e) s e).1.n = e ∧
    (insertRange (insertRange Acc.empty P 0 s).1 (rangeSubtreeRoots D s e) s e).2 = [] ∧
    (leafAcc (2 ^ k) P D s e).2 = [] ∧ InvC (leafAcc (2 ^ k) P D s e).1 ls := by
  intro P D
  have hn30 : ls.length ≤ 2 ^ 30 := by rw [hlen]; exact Nat.pow_le_pow_right (by omega) hk
  have h0 : Inv (Acc.empty : Acc H) (ls.take 0) := by simpa using Inv.empty
  obtain ⟨a1, ha1, hinv1⟩ := insertRange_buildRange_exact ls s (by omega) s 0 Acc.empty
    (buildRange ls e maxInt32) rfl (Nat.zero_le _) h0
  have hD : rangeSubtreeRoots D s e = buildRange ls s e := rangeSubtreeRoots_eq_buildRange ls e hen (e - s) s rfl
  obtain ⟨a2, ha2, hinv2⟩ := insertRange_buildRange_exact ls e hen (e - s) s a1 [] rfl (by omega) hinv1
  rw [List.append_nil] at ha2
  have hJ1 : 2 * (ls.length - 1) ≤ maxInt32 := by unfold maxInt32; omega
  have hJ2 : ∀ i, 0 < i → i < ls.length → nextSubtreeSize i (2 ^ k) = 2 ^ tz i ∧ i < 2 ^ k := by
    intro i h0 hlt
    exact ⟨nss_pow2 h0 (by omega), by omega⟩
  obtain ⟨a3, ha3, hinv3⟩ := insertRange_buildRange_right ls maxInt32 (2 ^ k) hJ1 hJ2
    (ls.length - e) e a2 rfl (by omega) hen hinv2
  have e1 : insertRange Acc.empty P 0 s = (a1, buildRange ls e maxInt32) := ha1
  have hn1 : a1.n = s := by rw [hinv1.2]; simp; omega
  have hn2 : a2.n = e := by rw [hinv2.2]; simp; omega
  refine ⟨?_, ?_, ?_, ?_, ?_, ?_⟩
  · rw [e1]; exact hn1
  · rw [e1]
  · rw [e1, hD]; simp only; rw [ha2]; exact hn2
  · rw [e1, hD]; simp only; rw [ha2]
  · show (leafAcc (2 ^ k) P D s e).2 = []
    unfold leafAcc; simp only [e1, hD]; rw [ha2]; simp only; rw [ha3]
  · show InvC (leafAcc (2 ^ k) P D s e).1 ls
    unfold leafAcc; simp only [e1, hD]; rw [ha2]; simp only; rw [ha3]; exact hinv3

end Sia.Rhp
