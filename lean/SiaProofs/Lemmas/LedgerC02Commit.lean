import SiaProofs.Lemmas.LedgerC08Fold
/-!
# What `Mid.commit` keeps live
-/
namespace Sia.Ledger

theorem commit_sc_mem (ms : Mid) (bid : Id) (e : ScElem) :
    e ∈ (ms.commit bid).sc ↔
      ((e ∈ ms.base.sc ∧ ∀ d ∈ ms.sces, d.e.id ≠ e.id) ∨ (∃ d ∈ ms.sces, d.spent = false ∧ d.e = e)) := by
  simp [Mid.commit, and_assoc]

theorem commit_sf_mem (ms : Mid) (bid : Id) (e : SfElem) :
    e ∈ (ms.commit bid).sf ↔
      ((e ∈ ms.base.sf ∧ ∀ d ∈ ms.sfes, d.e.id ≠ e.id) ∨ (∃ d ∈ ms.sfes, d.spent = false ∧ d.e = e)) := by
  simp [Mid.commit, and_assoc]

theorem commit_fc1_mem (ms : Mid) (bid : Id) (e : Fc1Elem) :
    e ∈ (ms.commit bid).fc1 ↔
      ((e ∈ ms.base.fc1 ∧ ∀ d ∈ ms.fces, d.e.id ≠ e.id) ∨ (∃ d ∈ ms.fces, d.resolved = false ∧ d.current = e)) := by
  simp [Mid.commit, and_assoc]

theorem commit_fc2_mem (ms : Mid) (bid : Id) (e : Fc2Elem) :
    e ∈ (ms.commit bid).fc2 ↔
      ((e ∈ ms.base.fc2 ∧ ∀ d ∈ ms.v2fces, d.e.id ≠ e.id) ∨
        (∃ d ∈ ms.v2fces, d.resolution = none ∧
          (match d.revision with | some r => { d.e with fc := r } | none => d.e) = e)) := by
  simp [Mid.commit, and_assoc]
  refine or_congr Iff.rfl (exists_congr fun d => and_congr Iff.rfl (and_congr Iff.rfl ?_))
  cases d.revision <;> exact Iff.rfl

/-- two entries of a list with pairwise distinct keys and equal keys are equal -/
theorem eq_of_nodup_map {α κ} (key : α → κ) {l : List α} (h : (l.map key).Nodup) {a b : α}
    (ha : a ∈ l) (hb : b ∈ l) (hk : key a = key b) : a = b := by
  induction l with
  | nil => cases ha
  | cons x l ih =>
    rw [List.map_cons, List.nodup_cons] at h
    rcases List.mem_cons.1 ha with rfl | ha' <;> rcases List.mem_cons.1 hb with rfl | hb'
    · rfl
    · exact absurd (List.mem_map.2 ⟨b, hb', hk.symm⟩) h.1
    · exact absurd (List.mem_map.2 ⟨a, ha', hk⟩) h.1
    · exact ih h.2 ha' hb' 

end Sia.Ledger
