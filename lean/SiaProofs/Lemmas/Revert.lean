/-
  SiaProofs.Lemmas.Revert — `revertBlock` / `elementRevertUpdate.updateElementProof`
  (consensus/merkle.go:410, 476) against the naive forest.
-/
import SiaProofs.Lemmas.ApplyBlock
set_option linter.unusedSectionVars false
namespace Sia.ElemAcc

theorem treeHeight_mono {n n' j : Nat} (hj : j < n) (hn : n ≤ n') : treeHeight n j ≤ treeHeight n' j := by
  obtain ⟨hbit, hlo, hhi⟩ := treeHeight_spec hj
  have hend := tree_end_le hbit
  generalize treeHeight n j = b at *
  have hmh := mergeHeight_eq (n := n') (i := j) (by omega)
  rcases Nat.lt_or_ge (treeHeight n' j) b with hlt | hge
  · exfalso
    have hle : mergeHeight n' j ≤ b := by omega
    rw [mergeHeight_le_iff, div_eq_of_block (dvd_of_dvd_succ (treeStart_dvd n b)) hlo hhi] at hle
    have h1 : (treeStart n b + 2 ^ b) / 2 ^ b ≤ n' / 2 ^ b := Nat.div_le_div_right (by omega)
    rw [Nat.add_div_right _ (Nat.two_pow_pos b)] at h1
    omega
  · exact hge

section
variable {H : Type} [Hasher H] [Inhabited H]

/-- the path of an existing leaf in a longer leaf list starts with its path in the shorter one -/
theorem path_append_take (ls1 ext : List H) {j : Nat} (hj : j < ls1.length) :
    (path (ls1 ++ ext) j).take (treeHeight ls1.length j) = path ls1 j := by
  obtain ⟨hbit, hlo, hhi⟩ := treeHeight_spec hj
  have hmono := treeHeight_mono hj (show ls1.length ≤ ls1.length + ext.length by omega)
  have hend := tree_end_le hbit
  have hj' : j < ls1.length + ext.length := by omega
  obtain ⟨hbit', hlo', hhi'⟩ := treeHeight_spec hj'
  rw [path_eq, path_eq, List.length_append]
  generalize treeHeight ls1.length j = b at *
  generalize treeHeight (ls1.length + ext.length) j = Ht at *
  have hS : 2 ^ b ∣ treeStart ls1.length b := dvd_of_dvd_succ (treeStart_dvd _ _)
  have hS' : 2 ^ Ht ∣ treeStart (ls1.length + ext.length) Ht := dvd_of_dvd_succ (treeStart_dvd _ _)
  have hle : treeStart (ls1.length + ext.length) Ht ≤ treeStart ls1.length b := by
    rcases Nat.lt_or_ge (treeStart ls1.length b) (treeStart (ls1.length + ext.length) Ht) with h | h
    · have := mul_succ_le_of_lt hS (Nat.dvd_trans (Nat.pow_dvd_pow 2 hmono) hS') h; omega
    · exact h
  rw [subPath_comp (ls1 ++ ext) hS hlo hhi Ht _ hmono hS' hle (by omega)]
  have hl : (subPath (ls1 ++ ext) 0 j b (treeStart ls1.length b)).length = b := by rw [subPath_length]; omega
  rw [List.take_append_of_le_length (by omega), List.take_of_length_le (by omega)]
  apply subPath_ext
  intro q _ hq2
  simp [List.getD, List.getElem?_append_left (show q < ls1.length by omega)]

theorem writeLeaves_self (upd : List (Leaf H)) : ∀ (ls : List H),
    (∀ l ∈ upd, l.index < ls.length) → (∀ l ∈ upd, ls.getD l.index default = l.hash) → writeLeaves ls upd = ls := by
  induction upd with
  | nil => intro ls _ _; rfl
  | cons a rest ih =>
    intro ls hlt hh
    simp only [writeLeaves, List.foldl_cons]
    have ha := hh a (by simp)
    have hal := hlt a (by simp)
    have : ls.set a.index a.hash = ls := by
      rw [← ha]
      simp [List.getD, List.getElem?_eq_getElem hal]
    rw [this]
    exact ih ls (fun l hl => hlt l (List.mem_cons_of_mem _ hl)) (fun l hl => hh l (List.mem_cons_of_mem _ hl))

/-- **revertBlock against the naive forest.** `ls` is the parent's leaf list, `ls1 ++ ext`
    the child's (`ls1` = `ls` with the block's rewrites, `ext` the leaves it added);
    `updated` are the block's elements in their parent form with their parent proofs.
    Every holder of a child proof of an element that exists in the parent obtains the
    parent's naive path. -/
theorem revertBlock_spec (acc : Acc H) (ls : List H) (hnum : acc.numLeaves = ls.length)
    (updated : List (Leaf H)) (ok : UpdOK ls updated)
    (hhash : ∀ l ∈ updated, ls.getD l.index default = l.hash)
    (added : List (Leaf H))
    (ls1 ext : List H) (hlen1 : ls1.length = ls.length)
    (hsame : ∀ q, (∀ l ∈ updated, l.index ≠ q) → ls1.getD q default = ls.getD q default)
    (hsz : ls.length ≤ unassignedLeafIndex) :
    ∃ ru added', acc.revertBlock updated added = .ok (ru, added') ∧
      ru.numLeaves = ls.length ∧
      (∀ h l', l' ∈ ru.updated h ↔ l' ∈ updated ∧ l'.proof.length = h) ∧
      (∀ j, j < ls.length → ru.updateElementProof j (path (ls1 ++ ext) j) = .ok (path ls j)) := by
  have hult : unassignedLeafIndex < 2 ^ 64 := by unfold unassignedLeafIndex; omega
  have hn : ls.length < 2 ^ 64 := by omega
  obtain ⟨upd, hupd, hspec⟩ := updateLeaves_spec ls updated ok hn
  have hself : writeLeaves ls updated = ls := writeLeaves_self updated ls ok.lt hhash
  rw [hself] at hspec
  have hwp : ∀ l ∈ updated, withPath ls l = l := by
    intro l hl
    have := ok.proof l hl
    cases l with
    | mk e s i p => simp only [withPath] at this ⊢; rw [← this]
  have hmem : ∀ h l', l' ∈ upd h ↔ l' ∈ updated ∧ l'.proof.length = h := by
    intro h l'
    rw [hspec]
    constructor
    · rintro ⟨l, hl, hlh, rfl⟩; rw [hwp l hl]; exact ⟨hl, hlh⟩
    · rintro ⟨hl, hlh⟩; exact ⟨l', hl, hlh, (hwp l' hl).symm⟩
  refine ⟨{ updated := upd, numLeaves := acc.numLeaves },
    added.mapIdx fun i l => { l with index := acc.numLeaves + i }, ?_, hnum, hmem, ?_⟩
  · simp only [Acc.revertBlock, hupd, bind, Except.bind, pure, Except.pure]
  · intro j hj
    obtain ⟨hbit, hlo, hhi⟩ := treeHeight_spec hj
    have hj1 : j < ls1.length := by omega
    have htake := path_append_take ls1 ext hj1
    have hmono := treeHeight_mono hj1 (show ls1.length ≤ (ls1 ++ ext).length by simp)
    have hplen := path_length (ls1 ++ ext) j
    have hmh := mergeHeight_eq hj
    rw [hlen1] at htake hmono
    generalize hb : treeHeight ls.length j = b at *
    have hgok : GroupOK ls1 ls b (treeStart ls.length b) (upd b) := by
      refine ⟨dvd_of_dvd_succ (treeStart_dvd _ _), ?_, ?_, ?_, ?_⟩
      · intro u hu
        obtain ⟨hu1, hu2⟩ := (hmem b u).1 hu
        have := treeHeight_spec (ok.lt u hu1)
        rw [ok.proof u hu1, path_length] at hu2
        rw [hu2] at this
        exact ⟨this.2.1, this.2.2⟩
      · intro u hu
        obtain ⟨hu1, hu2⟩ := (hmem b u).1 hu
        refine ⟨[], ?_⟩
        have hp := ok.proof u hu1
        rw [hp, path_length] at hu2
        rw [hp, path_eq, hu2]; simp
      · intro u hu
        exact hhash u ((hmem b u).1 hu).1
      · intro q h1 h2 h3
        symm
        apply hsame
        intro u hu hq
        have hinq : InTree ls.length b q := ⟨hbit, h1, h2⟩
        have hlh : u.proof.length = b := by rw [ok.proof u hu, path_length, hq]; exact treeHeight_unique hinq
        exact h3 u ((hmem b u).2 ⟨hu, hlh⟩) hq
    have hup := updateProof_spec ls1 ls b (treeStart ls.length b) _ hgok upd rfl j hlo hhi
    have hp1 : path ls1 j = subPath ls1 0 j b (treeStart ls.length b) := by rw [path_eq, hlen1, hb]
    simp only [RevertUpdate.updateElementProof, hnum]
    rw [if_neg (by omega), if_neg (by omega), hmh, hplen]
    have hfin : (if b + 1 ≤ treeHeight (ls1 ++ ext).length j then (path (ls1 ++ ext) j).take (b + 1 - 1)
        else path (ls1 ++ ext) j) = subPath ls1 0 j b (treeStart ls.length b) := by
      rw [← hp1, ← htake, Nat.add_sub_cancel]
      split
      · rfl
      · rw [List.take_of_length_le (by rw [hplen]; omega)]
    simp only [hfin, hup]
    rw [path_eq, hb]

end
end Sia.ElemAcc
