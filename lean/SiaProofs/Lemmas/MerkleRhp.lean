import SiaModel.Merkle.Rhp
/-!
  Helper lemmas for C16 (RHP Merkle roots and proofs).

  Part 1: the plain tree (`metaRoot`), the stack view of the binary-counter
  accumulators, and the representation invariant that links them.
-/
set_option linter.unusedVariables false
set_option linter.unusedSectionVars false
namespace Sia.Rhp
open HashOps

variable {H : Type} [HashOps H]

/-! ### powers of two -/

theorem two_pow_succ' (k : Nat) : 2 ^ (k + 1) = 2 * 2 ^ k := by
  rw [Nat.pow_succ]; omega

theorem splitPoint_eq {n k : Nat} (h1 : 2 ^ k < n) (h2 : n ≤ 2 ^ (k + 1)) : splitPoint n = 2 ^ k := by
  unfold splitPoint
  have hp := Nat.two_pow_pos k
  have : (n - 1).log2 = k := by
    rw [Nat.log2_eq_iff (by omega)]
    rw [two_pow_succ'] at *
    omega
  rw [this]

/-! ### metaRoot -/

theorem metaRoot_nil : metaRoot ([] : List H) = zero := by
  rw [metaRoot]

theorem metaRoot_singleton (x : H) : metaRoot [x] = x := by
  rw [metaRoot]

theorem metaRoot_split (ls : List H) (h : 2 ≤ ls.length) :
    metaRoot ls = node (metaRoot (ls.take (splitPoint ls.length))) (metaRoot (ls.drop (splitPoint ls.length))) := by
  match ls, h with
  | x :: y :: r, _ =>
    rw [metaRoot]
    simp only [List.length_cons]

/-- a full left subtree of `2^k` leaves followed by at most `2^k` leaves -/
theorem metaRoot_append (l r : List H) (k : Nat) (hl : l.length = 2 ^ k)
    (hr0 : 0 < r.length) (hr : r.length ≤ 2 ^ k) :
    metaRoot (l ++ r) = node (metaRoot l) (metaRoot r) := by
  have hp := Nat.two_pow_pos k
  have hlen : (l ++ r).length = 2 ^ k + r.length := by simp [hl]
  have hsp : splitPoint (l ++ r).length = 2 ^ k := by
    apply splitPoint_eq
    · omega
    · rw [two_pow_succ']; omega
  rw [metaRoot_split (l ++ r) (by omega), hsp, List.take_left' hl, List.drop_left' hl]


/-! ### the stack view of an accumulator -/

/-- `(height, subtree root)` pairs, lowest height first -/
abbrev Stack (H : Type) := List (Nat × H)

/-- insert a subtree root at `height`, merging with equal-height neighbours (the carry chain) -/
def sInsert : Stack H → H → Nat → Stack H
  | [], h, i => [(i, h)]
  | (j, t) :: rest, h, i => if j = i then sInsert rest (node t h) (i + 1) else (i, h) :: (j, t) :: rest

/-- the occupied slots of `trees` according to the bits of `m = numLeaves >> i` -/
def toStack (t : Nat → H) (m i : Nat) : Stack H :=
  if h : m = 0 then []
  else if m % 2 = 1 then (i, t i) :: toStack t (m / 2) (i + 1)
  else toStack t (m / 2) (i + 1)
termination_by m
decreasing_by all_goals omega

def Acc.stack (a : Acc H) : Stack H := toStack a.trees a.n 0

theorem toStack_zero (t : Nat → H) (i : Nat) : toStack t 0 i = [] := by
  rw [toStack]; simp

theorem toStack_odd (t : Nat → H) (m i : Nat) (h : m % 2 = 1) :
    toStack t m i = (i, t i) :: toStack t (m / 2) (i + 1) := by
  rw [toStack]
  have : m ≠ 0 := by omega
  simp [this, h]

theorem toStack_even (t : Nat → H) (m i : Nat) (h : m % 2 = 0) :
    toStack t m i = toStack t (m / 2) (i + 1) := by
  by_cases h0 : m = 0
  · subst h0; simp [toStack_zero]
  · rw [toStack]
    have : ¬ (m % 2 = 1) := by omega
    simp [h0, this]

theorem toStack_heights (t : Nat → H) : ∀ (m i : Nat) (x : Nat × H), x ∈ toStack t m i → i ≤ x.1 := by
  intro m
  induction m using Nat.strongRecOn with
  | _ m ih =>
    intro i x hx
    by_cases h0 : m = 0
    · subst h0; simp [toStack_zero] at hx
    · by_cases h1 : m % 2 = 1
      · rw [toStack_odd t m i h1] at hx
        cases hx with
        | head => exact Nat.le_refl _
        | tail _ hx =>
          have := ih (m / 2) (by omega) (i + 1) x hx
          omega
      · rw [toStack_even t m i (by omega)] at hx
        have := ih (m / 2) (by omega) (i + 1) x hx
        omega

theorem toStack_frame (t t' : Nat → H) : ∀ (m i : Nat), (∀ j, i ≤ j → t j = t' j) → toStack t m i = toStack t' m i := by
  intro m
  induction m using Nat.strongRecOn with
  | _ m ih =>
    intro i hf
    by_cases h0 : m = 0
    · subst h0; simp [toStack_zero]
    · by_cases h1 : m % 2 = 1
      · rw [toStack_odd t m i h1, toStack_odd t' m i h1, hf i (Nat.le_refl _)]
        rw [ih (m / 2) (by omega) (i + 1) (fun j hj => hf j (by omega))]
      · rw [toStack_even t m i (by omega), toStack_even t' m i (by omega)]
        exact ih (m / 2) (by omega) (i + 1) (fun j hj => hf j (by omega))

theorem toStack_shift (t : Nat → H) (m : Nat) : ∀ (k i : Nat), toStack t (2 ^ k * m) i = toStack t m (i + k) := by
  intro k
  induction k with
  | zero => intro i; simp
  | succ k ih =>
    intro i
    have e : 2 ^ (k + 1) * m = 2 * (2 ^ k * m) := by rw [two_pow_succ', Nat.mul_assoc]
    rw [e, toStack_even t _ i (by omega)]
    have : 2 * (2 ^ k * m) / 2 = 2 ^ k * m := by omega
    rw [this, ih (i + 1)]
    congr 1; omega

theorem carry_odd (t : Nat → H) (m i : Nat) (h : H) (hm : m % 2 = 1) :
    carry t m i h = carry t (m / 2) (i + 1) (node (t i) h) := by
  rw [carry]; simp [hm]

theorem carry_even (t : Nat → H) (m i : Nat) (h : H) (hm : m % 2 = 0) :
    carry t m i h = (i, h) := by
  rw [carry]
  have : ¬ (m % 2 = 1) := by omega
  simp [this]

/-- one `insertNode`/`AddLeaf` on the slot array is `sInsert` on the stack view -/
theorem toStack_carry (t : Nat → H) : ∀ (m i : Nat) (h : H),
    toStack (setTree t (carry t m i h).1 (carry t m i h).2) (m + 1) i = sInsert (toStack t m i) h i := by
  intro m
  induction m using Nat.strongRecOn with
  | _ m ih =>
    intro i h
    by_cases h1 : m % 2 = 1
    · rw [carry_odd t m i h h1, toStack_odd t m i h1]
      simp only [sInsert, if_true]
      rw [← ih (m / 2) (by omega) (i + 1) (node (t i) h)]
      rw [toStack_even _ (m + 1) i (by omega)]
      have : (m + 1) / 2 = m / 2 + 1 := by omega
      rw [this]
    · have h0 : m % 2 = 0 := by omega
      rw [carry_even t m i h h0]
      simp only
      rw [toStack_odd _ (m + 1) i (by omega)]
      have e1 : (m + 1) / 2 = m / 2 := by omega
      rw [e1]
      have e2 : setTree t i h i = h := by simp [setTree]
      rw [e2]
      have e3 : toStack (setTree t i h) (m / 2) (i + 1) = toStack t (m / 2) (i + 1) := by
        apply toStack_frame
        intro j hj
        simp [setTree]
        intro hji; omega
      rw [e3]
      by_cases hm0 : m = 0
      · subst hm0; simp [toStack_zero, sInsert]
      · rw [toStack_even t m i h0]
        -- the stack starts above height i
        cases hs : toStack t (m / 2) (i + 1) with
        | nil => simp [sInsert]
        | cons x rest =>
          have hx : i + 1 ≤ x.1 := toStack_heights t (m / 2) (i + 1) x (by rw [hs]; exact List.mem_cons_self)
          obtain ⟨j, tj⟩ := x
          simp only [sInsert]
          have : ¬ (j = i) := by simp at hx; omega
          simp [this]

theorem stack_insertNode (a : Acc H) (h : H) (k : Nat) (hd : 2 ^ k ∣ a.n) :
    (a.insertNode h k).stack = sInsert a.stack h k := by
  obtain ⟨m, hm⟩ := hd
  have hp := Nat.two_pow_pos k
  unfold Acc.stack Acc.insertNode
  simp only
  have e1 : a.n / 2 ^ k = m := by rw [hm]; exact Nat.mul_div_cancel_left m hp
  have e2 : a.n + 2 ^ k = 2 ^ k * (m + 1) := by rw [hm, Nat.mul_add]; omega
  rw [e1, e2, toStack_shift, hm, toStack_shift]
  simp only [Nat.zero_add]
  exact toStack_carry a.trees m k h

theorem stack_heights_of_dvd (a : Acc H) (k : Nat) (hd : 2 ^ k ∣ a.n) : ∀ x ∈ a.stack, k ≤ x.1 := by
  obtain ⟨m, hm⟩ := hd
  intro x hx
  unfold Acc.stack at hx
  rw [hm, toStack_shift] at hx
  have := toStack_heights a.trees m (0 + k) x hx
  omega

theorem addLeaf_eq_insertNode (a : Acc H) (h : H) : a.addLeaf h = a.insertNode h 0 := by
  unfold Acc.addLeaf Acc.insertNode
  simp

/-! ### root of a stack -/

def sStep (r : Option H) (x : Nat × H) : Option H :=
  some (match r with | none => x.2 | some y => node x.2 y)

def sRoot (s : Stack H) : H := (s.foldl sStep none).getD zero

theorem rootLoop_stack (t : Nat → H) : ∀ (m i : Nat) (r : Option H),
    rootLoop t m i r = (toStack t m i).foldl sStep r := by
  intro m
  induction m using Nat.strongRecOn with
  | _ m ih =>
    intro i r
    by_cases h0 : m = 0
    · subst h0; rw [rootLoop.eq_def]; simp [toStack_zero]
    · rw [rootLoop.eq_def]
      simp only [h0, dite_false]
      by_cases h1 : m % 2 = 1
      · rw [toStack_odd t m i h1, ih (m / 2) (by omega)]
        simp only [h1, if_true, List.foldl_cons, sStep]
        cases r <;> rfl
      · rw [toStack_even t m i (by omega), ih (m / 2) (by omega)]
        simp [h1]

theorem root_stack (a : Acc H) : a.root = sRoot a.stack := by
  unfold Acc.root sRoot Acc.stack
  rw [rootLoop_stack]


/-! ### the representation invariant -/

/-- `Repr s ls`: the stack `s` (heights strictly increasing from the head) holds the plain
roots of the aligned blocks of sizes `2^height` that `ls` decomposes into (head = last block). -/
inductive Repr : Stack H → List H → Prop
  | nil : Repr [] []
  | cons {s : Stack H} {ls : List H} (h : Nat) (B : List H) :
      Repr s ls → (∀ x ∈ s, h < x.1) → B.length = 2 ^ h → Repr ((h, metaRoot B) :: s) (ls ++ B)

/-- as `Repr`, but the last block may be clipped (`0 < |B| ≤ 2^h`) -/
inductive ReprC : Stack H → List H → Prop
  | nil : ReprC [] []
  | cons {s : Stack H} {ls : List H} (h : Nat) (B : List H) :
      Repr s ls → (∀ x ∈ s, h < x.1) → 0 < B.length → B.length ≤ 2 ^ h → ReprC ((h, metaRoot B) :: s) (ls ++ B)

theorem Repr.toC {s : Stack H} {ls : List H} (r : Repr s ls) : ReprC s ls := by
  cases r with
  | nil => exact ReprC.nil
  | cons h B r hs hB =>
    have := Nat.two_pow_pos h
    exact ReprC.cons h B r hs (by omega) (by omega)

theorem foldl_sStep_repr {s : Stack H} {ls : List H} (r : Repr s ls) :
    ∀ (X : List H) (b : Nat), 0 < X.length → X.length ≤ 2 ^ b → (∀ x ∈ s, b ≤ x.1) →
      s.foldl sStep (some (metaRoot X)) = some (metaRoot (ls ++ X)) := by
  induction r with
  | nil => intro X b _ _ _; simp
  | @cons s ls h B r hs hB ih =>
    intro X b hX0 hXb hall
    have hbh : b ≤ h := hall (h, metaRoot B) List.mem_cons_self
    have hpow : 2 ^ b ≤ 2 ^ h := Nat.pow_le_pow_right (by omega) hbh
    simp only [List.foldl_cons, sStep]
    rw [← metaRoot_append B X h hB hX0 (by omega)]
    rw [ih (B ++ X) (h + 1) (by simp; omega) (by simp [two_pow_succ']; omega)
      (fun x hx => hs x hx)]
    simp [List.append_assoc]

theorem sRoot_spec {s : Stack H} {ls : List H} (r : ReprC s ls) : sRoot s = metaRoot ls := by
  cases r with
  | nil => simp [sRoot, metaRoot_nil]
  | cons h B r hs hB0 hB =>
    unfold sRoot
    simp only [List.foldl_cons, sStep]
    rw [foldl_sStep_repr r B h hB0 hB (fun x hx => Nat.le_of_lt (hs x hx))]
    simp

theorem sInsert_repr {s : Stack H} {ls : List H} (r : Repr s ls) :
    ∀ (B : List H) (h : Nat), B.length = 2 ^ h → (∀ x ∈ s, h ≤ x.1) →
      Repr (sInsert s (metaRoot B) h) (ls ++ B) := by
  induction r with
  | nil =>
    intro B h hB _
    exact Repr.cons h B Repr.nil (by simp) hB
  | @cons s ls h' B' r hs hB' ih =>
    intro B h hB hall
    have hle : h ≤ h' := hall (h', metaRoot B') List.mem_cons_self
    simp only [sInsert]
    by_cases heq : h' = h
    · subst heq
      simp only [if_true]
      rw [← metaRoot_append B' B h' hB' (by rw [hB]; exact Nat.two_pow_pos _) (by omega)]
      have := ih (B' ++ B) (h' + 1) (by simp [two_pow_succ']; omega) (fun x hx => hs x hx)
      rw [List.append_assoc]
      exact this
    · simp only [heq, if_false]
      refine Repr.cons h B (Repr.cons h' B' r hs hB') ?_ hB
      intro x hx
      cases hx with
      | head => show h < h'; omega
      | tail _ hx => have := hs x hx; omega

theorem sInsert_reprC {s : Stack H} {ls : List H} (r : Repr s ls) :
    ∀ (B : List H) (h : Nat), 0 < B.length → B.length ≤ 2 ^ h → (∀ x ∈ s, h ≤ x.1) →
      ReprC (sInsert s (metaRoot B) h) (ls ++ B) := by
  induction r with
  | nil =>
    intro B h hB0 hB _
    exact ReprC.cons h B Repr.nil (by simp) hB0 hB
  | @cons s ls h' B' r hs hB' ih =>
    intro B h hB0 hB hall
    have hle : h ≤ h' := hall (h', metaRoot B') List.mem_cons_self
    simp only [sInsert]
    by_cases heq : h' = h
    · subst heq
      simp only [if_true]
      rw [← metaRoot_append B' B h' hB' hB0 hB]
      have := ih (B' ++ B) (h' + 1) (by simp; omega) (by simp [two_pow_succ']; omega) (fun x hx => hs x hx)
      rw [List.append_assoc]
      exact this
    · simp only [heq, if_false]
      refine ReprC.cons h B (Repr.cons h' B' r hs hB') ?_ hB0 hB
      intro x hx
      cases hx with
      | head => show h < h'; omega
      | tail _ hx => have := hs x hx; omega

/-- the accumulator `a` holds exactly the leaves `ls` -/
def Inv (a : Acc H) (ls : List H) : Prop := Repr a.stack ls ∧ a.n = ls.length

def InvC (a : Acc H) (ls : List H) : Prop := ReprC a.stack ls

theorem Inv.empty : Inv (Acc.empty : Acc H) [] := by
  refine ⟨?_, rfl⟩
  show Repr (toStack _ 0 0) []
  rw [toStack_zero]; exact Repr.nil

theorem Inv.toC {a : Acc H} {ls : List H} (h : Inv a ls) : InvC a ls := h.1.toC

theorem Inv.insertNode {a : Acc H} {ls : List H} (hi : Inv a ls) (B : List H) (k : Nat)
    (hB : B.length = 2 ^ k) (hd : 2 ^ k ∣ ls.length) : Inv (a.insertNode (metaRoot B) k) (ls ++ B) := by
  obtain ⟨hr, hn⟩ := hi
  have hd' : 2 ^ k ∣ a.n := by rw [hn]; exact hd
  refine ⟨?_, ?_⟩
  · rw [stack_insertNode a _ k hd']
    exact sInsert_repr hr B k hB (stack_heights_of_dvd a k hd')
  · simp [Acc.insertNode, hn, hB]

theorem Inv.insertNodeC {a : Acc H} {ls : List H} (hi : Inv a ls) (B : List H) (k : Nat)
    (hB0 : 0 < B.length) (hB : B.length ≤ 2 ^ k) (hd : 2 ^ k ∣ ls.length) :
    InvC (a.insertNode (metaRoot B) k) (ls ++ B) := by
  obtain ⟨hr, hn⟩ := hi
  have hd' : 2 ^ k ∣ a.n := by rw [hn]; exact hd
  show ReprC _ _
  rw [stack_insertNode a _ k hd']
  exact sInsert_reprC hr B k hB0 hB (stack_heights_of_dvd a k hd')

theorem InvC.root {a : Acc H} {ls : List H} (h : InvC a ls) : a.root = metaRoot ls := by
  rw [root_stack]; exact sRoot_spec h

theorem Inv.root {a : Acc H} {ls : List H} (h : Inv a ls) : a.root = metaRoot ls := h.toC.root

theorem Inv.insertLeaf {a : Acc H} {ls : List H} (hi : Inv a ls) (x : H) : Inv (a.insertNode x 0) (ls ++ [x]) := by
  have := hi.insertNode [x] 0 (by simp) (by simp)
  rwa [metaRoot_singleton] at this

theorem Inv.foldl_insertLeaf {a : Acc H} {l0 : List H} (hi : Inv a l0) (ls : List H) :
    Inv (ls.foldl (fun a h => a.insertNode h 0) a) (l0 ++ ls) := by
  induction ls generalizing a l0 with
  | nil => simpa using hi
  | cons x xs ih =>
    simp only [List.foldl_cons]
    have := ih (hi.insertLeaf x)
    simpa [List.append_assoc] using this

theorem Inv.foldl_addLeaf {a : Acc H} {l0 : List H} (hi : Inv a l0) (ls : List H) :
    Inv (ls.foldl Acc.addLeaf a) (l0 ++ ls) := by
  have e : (Acc.addLeaf : Acc H → H → Acc H) = (fun a h => a.insertNode h 0) := by
    funext a h; exact addLeaf_eq_insertNode a h
  rw [e]; exact hi.foldl_insertLeaf ls

end Sia.Rhp
