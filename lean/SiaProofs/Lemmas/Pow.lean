import SiaModel.Pow.Header
/-! Helper lemmas for C13: the `Except` plumbing and the basic Work/target operations. -/
namespace Sia.Pow

theorem bind_eq_ok {α β : Type} {x : Except String α} {f : α → Except String β} {b : β} :
    (x >>= f) = .ok b ↔ ∃ a, x = .ok a ∧ f a = .ok b := by
  cases x with
  | error e => simp [bind, Except.bind]
  | ok a => simp [bind, Except.bind]

theorem wadd_eq_ok {w v c : Nat} : wadd w v = .ok c ↔ w + v < W256 ∧ c = w + v := by
  unfold wadd; split <;> simp_all <;> omega

theorem wsub_eq_ok {w v c : Nat} : wsub w v = .ok c ↔ v ≤ w ∧ c = w - v := by
  unfold wsub; split <;> simp_all <;> omega

theorem wmul64_eq_ok {w v c : Nat} : wmul64 w v = .ok c ↔ w * v < W256 ∧ c = w * v := by
  unfold wmul64; split <;> simp_all <;> omega

theorem wdiv64_eq_ok {w v c : Nat} : wdiv64 w v = .ok c ↔ v ≠ 0 ∧ c = w / v := by
  unfold wdiv64; split <;> simp_all <;> omega

theorem invTarget_eq_ok {n c : Nat} : invTarget n = .ok c ↔ n ≠ 0 ∧ c = MAXT / n := by
  unfold invTarget; split <;> simp_all <;> omega

theorem pure_eq_ok {α : Type} {a b : α} : (pure a : Except String α) = .ok b ↔ a = b := by
  simp [pure, Except.pure]

theorem wmax_eq (a b : Nat) : wmax a b = max a b := by
  unfold wmax; split <;> omega

theorem wmin_eq (a b : Nat) : wmin a b = min a b := by
  unfold wmin; split <;> omega

/-! ### inversion of `applyHeader` -/

theorem applyHeader_inv {n : Network} {s s' : PowState} {h : Header} {tt : Int}
    (hp : h.parentID ≠ 0) (hok : applyHeader n s h tt = .ok s') :
    ∃ tw dp d ct ow ot,
      updateTotalWork n s = .ok (tw, dp) ∧ adjustDifficulty n s h.timestamp tt = .ok (d, ct) ∧
      updateOakWork n s = .ok (ow, ot) ∧
      s'.totalWork = tw ∧ s'.difficulty = d ∧ s'.oakWork = ow ∧
      s'.oakTime = updateOakTime n s h.timestamp (s.prevTimestamps.headD ZEROTIME) ∧
      s'.height = (s.height + 1) % 18446744073709551616 ∧ s'.id = h.id ∧
      s'.prevTimestamps = h.timestamp :: s.prevTimestamps.take 10 ∧
      (if (s.height + 1) % 18446744073709551616 ≥ n.v2FinalCutHeight
        then s'.depth = 0 ∧ s'.childTarget = 0 ∧ s'.oakTarget = 0
        else s'.depth = dp ∧ s'.childTarget = ct ∧ s'.oakTarget = ot) := by
  unfold applyHeader at hok
  by_cases hc : s.height > 0 ∧ s.id ≠ h.parentID
  · rw [if_pos hc] at hok; simp at hok
  · rw [if_neg hc, if_neg hp] at hok
    simp only [bind_eq_ok, pure_eq_ok] at hok
    obtain ⟨⟨tw, dp⟩, h1, ⟨d, ct⟩, h2, ⟨ow, ot⟩, h3, nx, rfl, h5⟩ := hok
    refine ⟨tw, dp, d, ct, ow, ot, h1, h2, h3, ?_⟩
    dsimp only at h5
    split at h5 <;> simp only [pure_eq_ok] at h5 <;> subst h5 <;> simp_all <;> (intro hh; omega)

theorem applyHeader_inv_genesis {n : Network} {s s' : PowState} {h : Header} {tt : Int}
    (hp : h.parentID = 0) (hok : applyHeader n s h tt = .ok s') :
    ∃ ow ot,
      updateOakWork n s = .ok (ow, ot) ∧
      s'.totalWork = s.totalWork ∧ s'.difficulty = s.difficulty ∧ s'.oakWork = ow ∧
      s'.oakTime = updateOakTime n s h.timestamp h.timestamp ∧
      s'.height = 0 ∧ s'.id = h.id ∧
      s'.prevTimestamps = h.timestamp :: s.prevTimestamps.take 10 ∧
      (if 0 ≥ n.v2FinalCutHeight
        then s'.depth = 0 ∧ s'.childTarget = 0 ∧ s'.oakTarget = 0
        else s'.depth = s.depth ∧ s'.childTarget = s.childTarget ∧ s'.oakTarget = ot) := by
  unfold applyHeader at hok
  by_cases hc : s.height > 0 ∧ s.id ≠ h.parentID
  · rw [if_pos hc] at hok; simp at hok
  · rw [if_neg hc, if_pos hp] at hok
    simp only [bind_eq_ok, pure_eq_ok] at hok
    obtain ⟨⟨ow, ot⟩, h3, nx, rfl, h5⟩ := hok
    refine ⟨ow, ot, h3, ?_⟩
    dsimp only at h5
    split at h5 <;> simp only [pure_eq_ok] at h5 <;> subst h5 <;> simp_all <;> (intro hh; omega)

/-! ### targets, total work, difficulty: what the functions return -/

theorem intToTarget_ofNat_small {x : Nat} (h : x < W255) : intToTarget (Int.ofNat x) = x := by
  unfold intToTarget
  simp only [Int.ofNat_eq_natCast, Int.natAbs_natCast]
  split <;> omega

theorem intToTarget_lt (i : Int) : intToTarget i < W256 := by
  unfold intToTarget; split <;> omega

theorem mulTargetFrac_eq_ok {x : Nat} {n d : Int} {r : Nat} :
    mulTargetFrac x n d = .ok r ↔ d ≠ 0 ∧ r = intToTarget (Int.ediv (Int.ofNat x * n) d) := by
  unfold mulTargetFrac; split <;> simp_all <;> omega

theorem mulTargetFrac_lt {x : Nat} {n d : Int} {r : Nat} (h : mulTargetFrac x n d = .ok r) : r < W256 := by
  rw [mulTargetFrac_eq_ok] at h; rw [h.2]; exact intToTarget_lt _

/-- what `intToTarget` does to a natural number: everything from 2^255 up becomes 2^256-1 -/
def capT (x : Nat) : Nat := if x ≥ W255 then MAXT else x

theorem capT_mono {a b : Nat} (h : a ≤ b) : capT a ≤ capT b := by
  unfold capT; split <;> split <;> omega

theorem capT_small {a : Nat} (h : a < W255) : capT a = a := by
  unfold capT; split <;> omega

theorem mulTargetFrac_nat (x n d : Nat) (hd : d ≠ 0) :
    mulTargetFrac x (Int.ofNat n) (Int.ofNat d) = .ok (capT (x * n / d)) := by
  rw [mulTargetFrac_eq_ok]
  refine ⟨by simp; omega, ?_⟩
  have : Int.ediv (Int.ofNat x * Int.ofNat n) (Int.ofNat d) = Int.ofNat (x * n / d) := by
    show (Int.ofNat x * Int.ofNat n) / (Int.ofNat d) = Int.ofNat (x * n / d)
    simp only [Int.ofNat_eq_natCast]
    rw [← Int.natCast_mul, ← Int.natCast_ediv]
  rw [this]
  unfold intToTarget capT
  simp only [Int.ofNat_eq_natCast, Int.natAbs_natCast]


theorem oakClamp_inv {s : PowState} {nt r : Nat} (h : oakClamp s nt = .ok r) :
    ∃ lo hi, mulTargetFrac s.childTarget 1000 1004 = .ok lo ∧ mulTargetFrac s.childTarget 1004 1000 = .ok hi ∧
      ((hi < nt ∧ r = hi) ∨ (¬ hi < nt ∧ lo > nt ∧ r = lo) ∨ (¬ hi < nt ∧ ¬ lo > nt ∧ r = nt)) := by
  unfold oakClamp at h
  simp only [bind_eq_ok] at h
  obtain ⟨hi, h1, lo, h2, h⟩ := h
  refine ⟨lo, hi, h2, h1, ?_⟩
  split at h
  · simp only [pure_eq_ok] at h; exact Or.inl ⟨by assumption, h.symm⟩
  · split at h <;> simp only [pure_eq_ok] at h
    · exact Or.inr (Or.inl ⟨by assumption, by assumption, h.symm⟩)
    · exact Or.inr (Or.inr ⟨by assumption, by assumption, h.symm⟩)

theorem oakNewTarget_lt {n : Network} {s : PowState} {r : Nat} (h : oakNewTarget n s = .ok r) : r < W256 := by
  unfold oakNewTarget at h
  split at h
  · simp at h
  · simp only [Except.ok.injEq] at h; rw [← h]; exact intToTarget_lt _

theorem preOakAdjust_lt {n : Network} {s : PowState} {ts tt : Int} {r : Nat}
    (hct : s.childTarget < W256) (h : preOakAdjust n s ts tt = .ok r) : r < W256 := by
  unfold preOakAdjust at h
  split at h
  · simp only [Except.ok.injEq] at h; omega
  · dsimp only at h
    repeat' split at h
    all_goals exact mulTargetFrac_lt h

theorem adjustTarget_lt {n : Network} {s : PowState} {ts tt : Int} {r : Nat}
    (hct : s.childTarget < W256) (h : adjustTarget n s ts tt = .ok r) : r < W256 := by
  unfold adjustTarget at h
  split at h
  · exact preOakAdjust_lt hct h
  · simp only [bind_eq_ok] at h
    obtain ⟨nt, h1, h⟩ := h
    have hnt := oakNewTarget_lt h1
    split at h
    · simp only [pure_eq_ok] at h; omega
    · obtain ⟨lo, hi, h2, h3, h4⟩ := oakClamp_inv h
      have := mulTargetFrac_lt h2
      have := mulTargetFrac_lt h3
      omega

theorem addTarget_inv {x y r : Nat} (hx : x < W256) (hy : y < W256) (h : addTarget x y = .ok r) :
    x + y ≠ 0 ∧ r = x * y / (x + y) ∧ r ≤ x ∧ r ≤ y := by
  unfold addTarget at h
  split at h
  · simp at h
  · rename_i h0
    have hpos : 0 < x + y := by omega
    have h1 : x * y ≤ x * MAXT := Nat.mul_le_mul_left x (by omega)
    have h2 : x * y ≤ MAXT * y := Nat.mul_le_mul_right y (by omega)
    have hlt : x * y / (x + y) < W255 := by
      rw [Nat.div_lt_iff_lt_mul hpos]
      rw [Nat.mul_add]
      omega
    rw [intToTarget_ofNat_small hlt] at h
    simp only [Except.ok.injEq] at h
    subst h
    refine ⟨h0, rfl, ?_, ?_⟩
    · apply Nat.div_le_of_le_mul
      rw [Nat.add_mul, Nat.mul_comm y x]; omega
    · apply Nat.div_le_of_le_mul
      rw [Nat.add_mul, Nat.mul_comm y y]
      have : 0 ≤ y * y := Nat.zero_le _
      omega

theorem updateTotalWork_inv {n : Network} {s : PowState} {tw dp : Nat}
    (hx : s.depth < W256) (hy : s.childTarget < W256)
    (h : updateTotalWork n s = .ok (tw, dp)) :
    (s.childHeight < n.v2AllowHeight → dp ≠ 0 ∧ dp ≤ s.depth ∧ dp < W256 ∧ tw = MAXT / dp) ∧
    (n.v2AllowHeight ≤ s.childHeight →
        tw = s.totalWork + s.difficulty ∧ tw < W256 ∧ tw ≠ 0 ∧ dp = MAXT / tw) := by
  unfold updateTotalWork at h
  split at h
  · simp only [bind_eq_ok, invTarget_eq_ok, pure_eq_ok, Prod.mk.injEq] at h
    obtain ⟨dp', h1, w, ⟨h2, rfl⟩, rfl, rfl⟩ := h
    have := addTarget_inv hx hy h1
    exact ⟨fun _ => ⟨h2, this.2.2.1, by omega, rfl⟩, fun h => by omega⟩
  · simp only [bind_eq_ok, invTarget_eq_ok, wadd_eq_ok, pure_eq_ok, Prod.mk.injEq] at h
    obtain ⟨tw', ⟨h1, rfl⟩, w, ⟨h2, rfl⟩, rfl, rfl⟩ := h
    exact ⟨fun h => by omega, fun _ => ⟨rfl, h1, h2, rfl⟩⟩

theorem invTarget_ok_of_ne {d : Nat} (h : d ≠ 0) : invTarget d = .ok (MAXT / d) := by
  unfold invTarget; rw [if_neg h]

theorem powTarget_of_lt {n : Network} {s : PowState} (h : s.childHeight < n.v2FinalCutHeight) :
    powTarget n s = .ok s.childTarget := by
  unfold powTarget; rw [if_pos h]

theorem powTarget_of_ge {n : Network} {s : PowState} (h : ¬ s.childHeight < n.v2FinalCutHeight)
    (hd : s.difficulty ≠ 0) : powTarget n s = .ok (MAXT / s.difficulty) := by
  unfold powTarget; rw [if_neg h]; exact invTarget_ok_of_ne hd

theorem updateOakWork_inv {n : Network} {s : PowState} {ow ot : Nat}
    (h : updateOakWork n s = .ok (ow, ot)) :
    (s.childHeight < n.v2AllowHeight → ot ≠ 0 ∧ ow = MAXT / ot) ∧
    (n.v2AllowHeight ≤ s.childHeight → ot = MAXT / ow) := by
  unfold updateOakWork at h
  split at h
  · simp only [bind_eq_ok, invTarget_eq_ok, pure_eq_ok, Prod.mk.injEq] at h
    obtain ⟨t, h1, w, ⟨h2, rfl⟩, rfl, rfl⟩ := h
    exact ⟨fun _ => ⟨h2, rfl⟩, fun h => by omega⟩
  · simp only [bind_eq_ok, invTarget_eq_ok, pure_eq_ok, Prod.mk.injEq] at h
    obtain ⟨_, _, _, _, w, _, t, ⟨_, rfl⟩, rfl, rfl⟩ := h
    exact ⟨fun h => by omega, fun _ => rfl⟩

theorem adjustDifficultyV2_lt {n : Network} {s : PowState} {ts : Int} {d : Nat}
    (hD : s.difficulty < W256) (h : adjustDifficultyV2 n s ts = .ok d) : d < W256 := by
  unfold adjustDifficultyV2 at h
  simp only [bind_eq_ok, wdiv64_eq_ok, wmul64_eq_ok, wsub_eq_ok] at h
  obtain ⟨est, _, nd, ⟨hnd, rfl⟩, ma, ⟨_, rfl⟩, mn, ⟨_, rfl⟩, h⟩ := h
  split at h
  · simp only [pure_eq_ok] at h; omega
  · simp only [bind_eq_ok, wadd_eq_ok] at h
    obtain ⟨mx, ⟨_, rfl⟩, h⟩ := h
    split at h <;> simp only [pure_eq_ok] at h <;> omega

theorem adjustDifficultyFinalCut_lt {n : Network} {s : PowState} {ts : Int} {d : Nat}
    (hD : s.difficulty < W256) (h : adjustDifficultyFinalCut n s ts = .ok d) : d < W256 := by
  unfold adjustDifficultyFinalCut at h
  simp only [bind_eq_ok, wdiv64_eq_ok, wmul64_eq_ok, wsub_eq_ok, wadd_eq_ok, pure_eq_ok] at h
  obtain ⟨a, _, hh, _, b, _, nd, _, q, ⟨_, rfl⟩, hi, ⟨_, rfl⟩, lo, ⟨hlo, rfl⟩, rfl⟩ := h
  simp only [wmax_eq, wmin_eq] at *
  omega

/-- what `adjustDifficulty` returns, era by era -/
theorem adjustDifficulty_inv {n : Network} {s : PowState} {ts tt : Int} {d ct : Nat}
    (h : adjustDifficulty n s ts tt = .ok (d, ct)) :
    (s.childHeight < n.v2AllowHeight →
        adjustTarget n s ts tt = .ok ct ∧ ct ≠ 0 ∧ d = MAXT / ct) ∧
    (n.v2AllowHeight ≤ s.childHeight → s.childHeight < n.v2FinalCutHeight →
        adjustDifficultyV2 n s ts = .ok d ∧ d ≠ 0 ∧ ct = MAXT / d) ∧
    (n.v2AllowHeight ≤ s.childHeight → n.v2FinalCutHeight ≤ s.childHeight →
        adjustDifficultyFinalCut n s ts = .ok d ∧ d ≠ 0 ∧ ct = MAXT / d) := by
  unfold adjustDifficulty at h
  split at h
  · simp only [bind_eq_ok, invTarget_eq_ok, pure_eq_ok, Prod.mk.injEq] at h
    obtain ⟨t, h1, w, ⟨h2, rfl⟩, rfl, rfl⟩ := h
    exact ⟨fun _ => ⟨h1, h2, rfl⟩, fun h => by omega, fun h => by omega⟩
  · split at h
    · simp only [bind_eq_ok, invTarget_eq_ok, pure_eq_ok, Prod.mk.injEq] at h
      obtain ⟨d', h1, t, ⟨h2, rfl⟩, rfl, rfl⟩ := h
      exact ⟨fun h => by omega, fun _ _ => ⟨h1, h2, rfl⟩, fun _ h => by omega⟩
    · simp only [bind_eq_ok, invTarget_eq_ok, pure_eq_ok, Prod.mk.injEq] at h
      obtain ⟨d', h1, t, ⟨h2, rfl⟩, rfl, rfl⟩ := h
      exact ⟨fun h => by omega, fun _ h => by omega, fun _ _ => ⟨h1, h2, rfl⟩⟩

theorem div_pos_of_lt {d : Nat} (h0 : d ≠ 0) (h : d < W256) : MAXT / d ≠ 0 := by
  have : 1 ≤ MAXT / d := (Nat.le_div_iff_mul_le (Nat.pos_of_ne_zero h0)).2 (by omega)
  omega


end Sia.Pow
