import SiaProofs.Props.C15
import SiaModel.Gen.CodeRhp4
import SiaModel.Ledger.ContractRules
/-!
# Helper lemmas for C17: inversion forms of the C15 currency theorems

`Currency.Add/Sub/Mul64` of the generated code live in `Except String`; the C15
theorems say when they return and what.  Here they are restated in the two shapes
the C17 proofs need: *inversion* (`op = .ok s → …`) and *introduction*
(`no overflow → op = .ok s`).
-/
namespace C17
open Gen.Types C15

theorem bind_ok {α β : Type} {x : Except String α} {f : α → Except String β} {b : β}
    (h : (x >>= f) = .ok b) : ∃ a, x = .ok a ∧ f a = .ok b := by
  cases x with
  | error e => simp [bind, Except.bind] at h
  | ok a => exact ⟨a, rfl, h⟩

theorem add_inv {a b s : Currency} (ha : WF a) (hb : WF b) (h : a.Add b = .ok s) :
    WF s ∧ val s = val a + val b ∧ val a + val b < W2 := by
  obtain ⟨h1, h2⟩ := c15_add_panics_iff a b ha hb
  by_cases hlt : val a + val b < W2
  · obtain ⟨s', e, w, v⟩ := h1 hlt
    rw [e] at h; cases h; exact ⟨w, v, hlt⟩
  · obtain ⟨e, he⟩ := h2 (by omega)
    rw [he] at h; cases h

theorem add_intro {a b : Currency} (ha : WF a) (hb : WF b) (h : val a + val b < W2) :
    ∃ s, a.Add b = .ok s ∧ WF s ∧ val s = val a + val b :=
  (c15_add_panics_iff a b ha hb).1 h

theorem sub_inv {a b s : Currency} (ha : WF a) (hb : WF b) (h : a.Sub b = .ok s) :
    WF s ∧ val s + val b = val a ∧ val b ≤ val a := by
  obtain ⟨h1, h2⟩ := c15_sub_panics_iff a b ha hb
  by_cases hle : val b ≤ val a
  · obtain ⟨s', e, w, v⟩ := h1 hle
    rw [e] at h; cases h; exact ⟨w, by omega, hle⟩
  · obtain ⟨e, he⟩ := h2 (by omega)
    rw [he] at h; cases h

theorem sub_intro {a b : Currency} (ha : WF a) (hb : WF b) (h : val b ≤ val a) :
    ∃ s, a.Sub b = .ok s ∧ WF s ∧ val s + val b = val a := by
  obtain ⟨s, e, w, v⟩ := (c15_sub_panics_iff a b ha hb).1 h
  exact ⟨s, e, w, by omega⟩

theorem mul64_inv {a s : Currency} {n : Nat} (ha : WF a) (hn : n < W) (h : a.Mul64 n = .ok s) :
    WF s ∧ val s = val a * n ∧ val a * n < W2 := by
  obtain ⟨h1, h2⟩ := c15_mul64_panics_iff a n ha hn
  by_cases hlt : val a * n < W2
  · obtain ⟨s', e, w, v⟩ := h1 hlt
    rw [e] at h; cases h; exact ⟨w, v, hlt⟩
  · obtain ⟨e, he⟩ := h2 (by omega)
    rw [he] at h; cases h

theorem mul64_intro {a : Currency} {n : Nat} (ha : WF a) (hn : n < W) (h : val a * n < W2) :
    ∃ s, a.Mul64 n = .ok s ∧ WF s ∧ val s = val a * n :=
  (c15_mul64_panics_iff a n ha hn).1 h

theorem cmp_lt {a b : Currency} (ha : WF a) (hb : WF b) : a.Cmp b < 0 ↔ val a < val b := by
  obtain ⟨h1, h2, h3⟩ := c15_cmp a b ha hb
  constructor
  · intro h
    by_cases e0 : a.Cmp b = 0
    · omega
    · by_cases e1 : a.Cmp b = 1
      · omega
      · by_cases hlt : val a < val b
        · exact hlt
        · by_cases heq : val a = val b
          · exact absurd (h2.mpr heq) e0
          · exact absurd (h3.mpr (by omega)) e1
  · intro h; rw [h1.mpr h]; decide

theorem cmp_gt {a b : Currency} (ha : WF a) (hb : WF b) : a.Cmp b > 0 ↔ val b < val a := by
  obtain ⟨h1, h2, h3⟩ := c15_cmp a b ha hb
  constructor
  · intro h
    by_cases e0 : a.Cmp b = 0
    · omega
    · by_cases e1 : a.Cmp b = -1
      · omega
      · by_cases hlt : val b < val a
        · exact hlt
        · by_cases heq : val a = val b
          · exact absurd (h2.mpr heq) e0
          · exact absurd (h1.mpr (by omega)) e1
  · intro h; rw [h3.mpr h]; decide

theorem wf_zero : WF ({} : Currency) := by simp [WF]
theorem val_zero : val ({} : Currency) = 0 := by simp [val]

theorem isZero_iff {a : Currency} (ha : WF a) : a.IsZero = true ↔ val a = 0 := by
  unfold Currency.IsZero Gen.Types.ZeroCurrency
  constructor
  · intro h; have := of_decide_eq_true h; rw [this]; exact val_zero
  · intro h
    have : a = ({} : Currency) := val_inj ha wf_zero (by rw [h, val_zero])
    simp [this]

theorem equals_iff {a b : Currency} (ha : WF a) (hb : WF b) : a.Equals b = true ↔ val a = val b := by
  unfold Currency.Equals
  constructor
  · intro h; rw [of_decide_eq_true h]
  · intro h; simp [val_inj ha hb h]

end C17
