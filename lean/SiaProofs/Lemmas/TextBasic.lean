import SiaModel.Text.Ident
/-! Helper lemmas for C20: hex and decimal round trips. -/
namespace Sia.Text

theorem hexDigit_toNat (n : Nat) (h : n < 16) :
    (hexDigit n).toNat = if n < 10 then 48 + n else 87 + n := by
  unfold hexDigit
  split <;> simp [UInt8.toNat_ofNat'] <;> omega

theorem hexVal_hexDigit (n : Nat) (h : n < 16) : hexVal (hexDigit n) = some n := by
  have := hexDigit_toNat n h
  unfold hexVal
  simp only [this]
  split
  · rename_i h10
    simp; omega
  · rename_i h10
    have h1 : ¬ (48 ≤ 87 + n ∧ 87 + n ≤ 57) := by omega
    have h2 : (97 ≤ 87 + n ∧ 87 + n ≤ 102) := by omega
    simp [h1, h2]

theorem byte_split (b : UInt8) : UInt8.ofNat (b.toNat / 16 * 16 + b.toNat % 16) = b := by
  rw [Nat.div_add_mod']
  exact UInt8.ofNat_toNat

theorem byte_split' (b : UInt8) : UInt8.ofNat (b.toNat / 16) * 16 + UInt8.ofNat (b.toNat % 16) = b := by
  have := byte_split b
  simpa using this

theorem hexDec_hexEnc (bs : List UInt8) : hexDec (hexEnc bs) = some bs := by
  induction bs with
  | nil => rfl
  | cons b bs ih =>
    have hb := b.toNat_lt
    have h1 : b.toNat / 16 < 16 := by omega
    have h2 : b.toNat % 16 < 16 := by omega
    simp [hexEnc, hexDec, hexVal_hexDigit _ h1, hexVal_hexDigit _ h2, ih, byte_split']

theorem hexEnc_length (bs : List UInt8) : (hexEnc bs).length = 2 * bs.length := by
  induction bs with
  | nil => rfl
  | cons b bs ih => simp [hexEnc, ih]; omega

theorem hexEnc_append (a b : List UInt8) : hexEnc (a ++ b) = hexEnc a ++ hexEnc b := by
  induction a with
  | nil => rfl
  | cons x xs ih => simp [hexEnc, ih]

/-- what `hexDec` accepts: even length, every byte a hex digit, and the result
    has half the length -/
theorem hexDec_some {t : Txt} {bs : List UInt8} (h : hexDec t = some bs) :
    t.length = 2 * bs.length ∧ ∀ c ∈ t, isHex c = true := by
  induction t using hexDec.induct generalizing bs with
  | case1 => simp [hexDec] at h; subst h; simp
  | case2 c => simp [hexDec] at h
  | case3 hc lc rest a b ha hb out hrest ih =>
    simp [hexDec, ha, hb, hrest] at h
    subst h
    have := ih hrest
    refine ⟨by simp; omega, ?_⟩
    intro c hc'
    simp at hc'
    rcases hc' with rfl | rfl | hc'
    · simp [isHex, *]
    · simp [isHex, *]
    · exact this.2 c hc'
  | case4 hc lc rest a b ha hb hrest ih =>
    simp [hexDec, ha, hb, hrest] at h
  | case5 hc lc rest hno =>
    simp [hexDec] at h

end Sia.Text

namespace Sia.Text

/-! ## decimal -/

def valLSD : List Nat → Nat
  | [] => 0
  | d :: ds => d + 10 * valLSD ds

theorem revDigits_spec : ∀ f n, n < f →
    valLSD (revDigits f n) = n ∧ (∀ d ∈ revDigits f n, d < 10) ∧ revDigits f n ≠ [] := by
  intro f
  induction f with
  | zero => intro n h; omega
  | succ f ih =>
    intro n h
    unfold revDigits
    split
    · rename_i h10
      simp [valLSD]; exact h10
    · rename_i h10
      have hlt : n / 10 < f := by omega
      obtain ⟨h1, h2, _⟩ := ih (n / 10) hlt
      refine ⟨?_, ?_, by simp⟩
      · simp [valLSD, h1]; omega
      · intro d hd
        simp at hd
        rcases hd with rfl | hd
        · omega
        · exact h2 d hd

theorem foldr_val (l : List Nat) : l.foldr (fun d a => a * 10 + d) 0 = valLSD l := by
  induction l with
  | nil => rfl
  | cons d ds ih => simp [List.foldr, valLSD, ih]; omega

theorem digitChar_toNat (d : Nat) (h : d < 10) : (digitChar d).toNat = 48 + d := by
  unfold digitChar; simp [UInt8.toNat_ofNat']; omega

theorem isDigit_digitChar (d : Nat) (h : d < 10) : isDigit (digitChar d) = true := by
  simp [isDigit, digitChar_toNat d h]; omega

theorem parseDigits_map (ds : List Nat) (h : ∀ d ∈ ds, d < 10) (acc : Nat) :
    parseDigits (ds.map digitChar) acc = some (ds.foldl (fun a d => a * 10 + d) acc) := by
  induction ds generalizing acc with
  | nil => rfl
  | cons d ds ih =>
    have hd : d < 10 := h d (by simp)
    simp only [List.map, parseDigits, isDigit_digitChar d hd, if_true, List.foldl]
    rw [digitChar_toNat d hd]
    have : 48 + d - 48 = d := by omega
    rw [this]
    exact ih (fun x hx => h x (by simp [hx])) _

theorem natToDec_ne_nil (n : Nat) : natToDec n ≠ [] := by
  have := (revDigits_spec (n + 1) n (by omega)).2.2
  simp [natToDec, this]

theorem natToDec_digits (n : Nat) : ∀ c ∈ natToDec n, isDigit c = true := by
  intro c hc
  obtain ⟨_, h2, _⟩ := revDigits_spec (n + 1) n (by omega)
  simp [natToDec] at hc
  obtain ⟨d, hd, rfl⟩ := hc
  exact isDigit_digitChar d (h2 d hd)

theorem parseDigits_natToDec (n : Nat) : parseDigits (natToDec n) 0 = some n := by
  obtain ⟨h1, h2, _⟩ := revDigits_spec (n + 1) n (by omega)
  unfold natToDec
  rw [parseDigits_map _ (by intro d hd; exact h2 d (by simpa using hd))]
  rw [List.foldl_reverse, foldr_val, h1]

theorem parseUint_natToDec (bits n : Nat) (h : n < 2 ^ bits) : parseUint bits (natToDec n) = some n := by
  simp [parseUint, natToDec_ne_nil, parseDigits_natToDec, h]

theorem parseUint_bound {bits : Nat} {t : Txt} {n : Nat} (h : parseUint bits t = some n) : n < 2 ^ bits := by
  unfold parseUint at h
  split at h
  · simp at h
  · split at h
    · split at h
      · simp at h; omega
      · simp at h
    · simp at h

theorem parseInt64_intToDec (t : Int) (h1 : -(2 ^ 63 : Int) ≤ t) (h2 : t < 2 ^ 63) :
    parseInt64 (intToDec t) = some t := by
  unfold intToDec
  split
  · rename_i hneg
    have hb : t.natAbs < 2 ^ 64 := by omega
    simp only [parseInt64]
    simp [parseUint_natToDec 64 _ hb]
    omega
  · rename_i hpos
    have hb : t.natAbs < 2 ^ 64 := by omega
    have hne := natToDec_ne_nil t.natAbs
    have hd := natToDec_digits t.natAbs
    match hq : natToDec t.natAbs with
    | [] => exact absurd hq hne
    | c :: cs =>
      have hc : isDigit c = true := hd c (by simp [hq])
      have hc' : 48 ≤ c.toNat ∧ c.toNat ≤ 57 := by simpa [isDigit] using hc
      have n43 : (c == 43) = false := by
        simp; intro h; rw [h] at hc'; simp at hc'
      have n45 : (c == 45) = false := by
        simp; intro h; rw [h] at hc'; simp at hc'
      simp only [parseInt64, n43, n45]
      simp
      rw [← hq, parseUint_natToDec 64 _ hb]
      simp
      omega

end Sia.Text

namespace Sia.Text

/-! ## splitting, prefixes, unguarded hex decode -/

theorem splitFirst_append (c : UInt8) (a rest : Txt) (h : ∀ x ∈ a, x ≠ c) :
    splitFirst c (a ++ c :: rest) = some (a, rest) := by
  induction a with
  | nil => simp [splitFirst]
  | cons x xs ih =>
    have hx : x ≠ c := h x (by simp)
    have := ih (fun y hy => h y (by simp [hy]))
    simp [splitFirst, hx, this]

theorem splitFirst_some {c : UInt8} {t a b : Txt} (h : splitFirst c t = some (a, b)) :
    t = a ++ c :: b ∧ ∀ x ∈ a, x ≠ c := by
  induction t generalizing a b with
  | nil => simp [splitFirst] at h
  | cons x xs ih =>
    simp only [splitFirst] at h
    split at h
    · rename_i hx
      simp at h; obtain ⟨rfl, rfl⟩ := h
      simp at hx; simp [hx]
    · rename_i hx
      split at h
      · rename_i a' b' hq
        simp at h; obtain ⟨rfl, rfl⟩ := h
        obtain ⟨h1, h2⟩ := ih hq
        refine ⟨by simp [h1], ?_⟩
        intro y hy
        simp at hy
        rcases hy with rfl | hy
        · simpa using hx
        · exact h2 y hy
      · simp at h

theorem stripPrefix_append (p x : Txt) : stripPrefix p (p ++ x) = some x := by
  induction p with
  | nil => simp [stripPrefix]
  | cons a p ih => simp [stripPrefix, ih]

theorem hexDecodeInto_hexEnc (k : List UInt8) : ∀ (room : Nat) (acc : List UInt8), k.length ≤ room →
    hexDecodeInto room (hexEnc k) acc = .ok (acc.reverse ++ k) := by
  induction k with
  | nil => intro room acc _; simp [hexEnc, hexDecodeInto]
  | cons b bs ih =>
    intro room acc h
    have hb := b.toNat_lt
    have h1 : b.toNat / 16 < 16 := by omega
    have h2 : b.toNat % 16 < 16 := by omega
    match room, h with
    | room + 1, h =>
      simp only [hexEnc, hexDecodeInto, hexVal_hexDigit _ h1, hexVal_hexDigit _ h2]
      rw [ih room _ (by simpa using h)]
      simp [byte_split']

theorem isHex_hexDigit (n : Nat) (h : n < 16) : isHex (hexDigit n) = true := by
  simp [isHex, hexVal_hexDigit n h]

theorem hexEnc_isHex (bs : List UInt8) : ∀ c ∈ hexEnc bs, isHex c = true := by
  induction bs with
  | nil => simp [hexEnc]
  | cons b bs ih =>
    have hb := b.toNat_lt
    intro c hc
    simp [hexEnc] at hc
    rcases hc with rfl | rfl | hc
    · exact isHex_hexDigit _ (by omega)
    · exact isHex_hexDigit _ (by omega)
    · exact ih c hc

/-- hex digits are alphanumeric bytes in '0'..'9', 'A'..'F', 'a'..'f' -/
theorem isHex_range {c : UInt8} (h : isHex c = true) :
    (48 ≤ c.toNat ∧ c.toNat ≤ 57) ∨ (97 ≤ c.toNat ∧ c.toNat ≤ 102) ∨ (65 ≤ c.toNat ∧ c.toNat ≤ 70) := by
  unfold isHex hexVal at h
  simp only at h
  split at h
  · left; assumption
  · split at h
    · right; left; assumption
    · split at h
      · right; right; assumption
      · simp at h

theorem isDigit_range {c : UInt8} (h : isDigit c = true) : 48 ≤ c.toNat ∧ c.toNat ≤ 57 := by
  simpa [isDigit] using h

theorem ne_of_toNat_ne {a b : UInt8} (h : a.toNat ≠ b.toNat) : a ≠ b := by
  intro e; exact h (by rw [e])

theorem splitSep_append (a b : Txt) (h : ∀ x ∈ a, x ≠ 58) :
    splitSep (a ++ 58 :: 58 :: b) = some (a, b) := by
  induction a with
  | nil => simp [splitSep]
  | cons x xs ih =>
    have hx : x ≠ 58 := h x (by simp)
    have ih' := ih (fun y hy => h y (by simp [hy]))
    match xs, ih' with
    | [], ih' => simp [splitSep, hx] at ih' ⊢
    | y :: ys, ih' =>
      simp only [List.cons_append] at ih' ⊢
      simp [splitSep, hx, ih']

theorem splitSep_none (t : Txt) (h : ∀ x ∈ t, x ≠ 58) : splitSep t = none := by
  induction t using splitSep.induct with
  | case1 => rfl
  | case2 c => rfl
  | case3 a b rest hab =>
    have : a ≠ 58 := h a (by simp)
    simp at hab; exact absurd hab.1 this
  | case4 a b rest hab x y hq ih =>
    have := ih (fun z hz => h z (by simp at hz ⊢; right; exact hz))
    rw [hq] at this; simp at this
  | case5 a b rest hab hq ih =>
    have ha : a ≠ 58 := h a (by simp)
    simp [splitSep, ha, hq]

theorem takeNum_append (ds rest : Txt) (hd : ∀ c ∈ ds, isDigit c = true)
    (hr : rest = [] ∨ ∃ c r, rest = c :: r ∧ isDigit c = false) : takeNum (ds ++ rest) = (ds, rest) := by
  induction ds with
  | nil =>
    rcases hr with rfl | ⟨c, r, rfl, hc⟩
    · rfl
    · simp [takeNum, hc]
  | cons d ds ih =>
    have h1 : isDigit d = true := hd d (by simp)
    have := ih (fun c hc => hd c (by simp [hc]))
    simp [takeNum, h1, this]

theorem scanSkip_digit (c : UInt8) (cs : Txt) (h : isDigit c = true) : scanSkip (c :: cs) = some (c :: cs) := by
  have := isDigit_range h
  have h10 : (c == 10) = false := by
    simp; intro e; rw [e] at this; simp at this
  have hs : isSpace c = false := by
    simp [isSpace]
    constructor
    · intro e; rw [e] at this; simp at this
    · omega
  simp [scanSkip, h10, hs]

end Sia.Text

namespace Sia.Text

/-! ## hex decoding is injective up to the case of the digits -/

theorem hexVal_lt {c : UInt8} {v : Nat} (h : hexVal c = some v) : v < 16 := by
  unfold hexVal at h
  simp only at h
  split at h
  · simp at h; omega
  · split at h
    · simp at h; omega
    · split at h
      · simp at h; omega
      · simp at h

theorem ofNat_byte_inj {a b a' b' : Nat} (ha : a < 16) (hb : b < 16) (ha' : a' < 16) (hb' : b' < 16)
    (h : UInt8.ofNat (a * 16 + b) = UInt8.ofNat (a' * 16 + b')) : a = a' ∧ b = b' := by
  have := congrArg UInt8.toNat h
  simp [UInt8.toNat_ofNat'] at this
  omega

theorem hexDec_append_enc (a : List UInt8) (y : Txt) :
    hexDec (hexEnc a ++ y) = (hexDec y).map (a ++ ·) := by
  induction a with
  | nil => simp [hexEnc]
  | cons b bs ih =>
    have hb := b.toNat_lt
    have h1 : b.toNat / 16 < 16 := by omega
    have h2 : b.toNat % 16 < 16 := by omega
    simp only [hexEnc, List.cons_append, hexDec, hexVal_hexDigit _ h1, hexVal_hexDigit _ h2, ih]
    cases hexDec y <;> simp [byte_split']

/-- changing one character to one with a different hex value changes (or breaks) the decoding -/
theorem hexDec_set_ne : ∀ (u : Txt) (x : List UInt8), hexDec u = some x →
    ∀ (j : Nat) (old c' : UInt8), u[j]? = some old → hexVal c' ≠ hexVal old → hexDec (u.set j c') ≠ some x := by
  intro u
  induction u using hexDec.induct with
  | case1 => intro x _ j old c' hj; simp at hj
  | case2 c => intro x hu; simp [hexDec] at hu
  | case3 h l rest a b hl hh out hrest ih =>
    intro x hu j old c' hj hne
    simp only [hexDec, hl, hh, hrest, Option.some.injEq] at hu
    subst hu
    have hla := hexVal_lt hh
    have hlb := hexVal_lt hl
    match j, hj with
    | 0, hj =>
      simp at hj; subst hj
      cases hc : hexVal c' with
      | none => simp [hexDec, hc]
      | some a' =>
        simp only [List.set_cons_zero, hexDec, hc, hl, hrest]
        intro e
        simp only [Option.some.injEq, List.cons.injEq, and_true] at e
        have := (ofNat_byte_inj (hexVal_lt hc) hlb hla hlb e).1
        rw [hc, hh, this] at hne; exact hne rfl
    | 1, hj =>
      simp at hj; subst hj
      cases hc : hexVal c' with
      | none => simp [hexDec, hc, hh]
      | some b' =>
        simp only [List.set_cons_succ, List.set_cons_zero, hexDec, hc, hh, hrest]
        intro e
        simp only [Option.some.injEq, List.cons.injEq, and_true] at e
        have := (ofNat_byte_inj hla (hexVal_lt hc) hla hlb e).2
        rw [hc, hl, this] at hne; exact hne rfl
    | j + 2, hj =>
      simp at hj
      have := ih out hrest j old c' hj hne
      cases hq : hexDec (rest.set j c') with
      | none => simp [hexDec, hl, hh, hq]
      | some out' =>
        simp only [List.set_cons_succ, hexDec, hl, hh, hq]
        intro e
        simp only [Option.some.injEq, List.cons.injEq, true_and] at e
        exact this (by rw [hq, e])
  | case4 h l rest a b ha hb hrest ih =>
    intro x hu; simp [hexDec, ha, hb, hrest] at hu
  | case5 h l rest hno =>
    intro x hu; simp [hexDec] at hu

end Sia.Text
