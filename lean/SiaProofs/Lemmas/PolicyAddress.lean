import SiaModel.Policy.Address
/-! Address invariance under opaquification (C14). -/
namespace Sia.Policy

theorem opaqueList_eq_map (H : ByteArray → ByteArray) (l : List Policy) :
    opaqueList H l = l.map (policyOpaque H) := by
  induction l with
  | nil => simp [opaqueList]
  | cons c cs ih =>
    rw [opaqueList.eq_def]
    simp only [ih]
    cases c <;> simp [policyOpaque]

theorem policyOpaque_idem (H : ByteArray → ByteArray) (p : Policy) :
    policyOpaque H (policyOpaque H p) = policyOpaque H p := by
  cases p <;> simp [policyOpaque]

theorem policyOpaque_isOpaque (H : ByteArray → ByteArray) (p : Policy) :
    (policyOpaque H p).isOpaque = true := by
  cases p <;> simp [policyOpaque, Policy.isOpaque]

theorem address_thresh (H : ByteArray → ByteArray) (n : Nat) (subs : List Policy) :
    addressWith H (.thresh n subs)
      = H (addressPrefix ++ encode (.thresh n (subs.map (policyOpaque H)))) := by
  rw [addressWith, opaqueList_eq_map]

mutual
theorem Opq.address_eq {H : ByteArray → ByteArray} {p q : Policy} (h : Opq H p q) :
    addressWith H q = addressWith H p ∧ policyOpaque H q = policyOpaque H p := by
  match p, q, h with
  | _, _, .keep p => exact ⟨rfl, rfl⟩
  | _, _, .inside (n := n) (subs := subs) (subs' := subs') hl =>
    have := OpqL.map_eq hl
    have ha : addressWith H (.thresh n subs') = addressWith H (.thresh n subs) := by
      rw [address_thresh, address_thresh, this]
    exact ⟨ha, by simp [policyOpaque, ha]⟩
theorem OpqL.map_eq {H : ByteArray → ByteArray} {l l' : List Policy} (h : OpqL H l l') :
    l'.map (policyOpaque H) = l.map (policyOpaque H) := by
  match l, l', h with
  | _, _, .nil => rfl
  | _, _, .same hc hl =>
    simp only [List.map_cons]
    rw [(Opq.address_eq hc).2, OpqL.map_eq hl]
  | _, _, .hide hc hl =>
    simp only [List.map_cons]
    rw [policyOpaque_idem, (Opq.address_eq hc).2, OpqL.map_eq hl]
end

end Sia.Policy
