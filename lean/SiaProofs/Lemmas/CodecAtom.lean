import SiaProofs.Lemmas.CodecPrim
/-! The laws every leaf codec (atom or hand-modelled `ext`) must satisfy, and their
proofs for the atoms of `SiaModel.Codec.Schema`. -/
namespace Sia.Codec

/-- Laws of a leaf codec. The generic theorems of C11 / C10-decode are proved for
every schema over an environment whose `ext` codecs satisfy these. -/
structure CodecOK (c : Codec) : Prop where
  roundtrip : ∀ st k v rest, c.canon v = true → c.dec st k (c.enc v ++ rest) = .ok (v, rest)
  minLen_le : ∀ v, c.canon v = true → c.minLen ≤ (c.enc v).length
  trunc : ∀ st k v p q, c.canon v = true → p ++ q = c.enc v → q ≠ [] → ∃ e, c.dec st k p = .error e
  dec_sound : ∀ st k bs v rest, c.dec st k bs = .ok (v, rest) →
      c.canon v = true ∧ ∃ cs, bs = cs ++ rest ∧ c.minLen ≤ cs.length
  strict_enc : ∀ k bs v rest, c.dec true k bs = .ok (v, rest) → c.enc v ++ rest = bs
  strict_lax : ∀ k bs r, c.dec true k bs = .ok r → c.dec false k bs = .ok r
  no_panic : c.guarded = true → ∀ st k bs, c.dec st k bs ≠ .error .panic
  alloc_ok : c.guarded = true → ∀ k bs v rest, c.dec false k bs = .ok (v, rest) →
      c.alloc k bs + c.depth * rest.length ≤ c.depth * bs.length
  alloc_err : c.guarded = true → ∀ k bs, c.alloc k bs ≤ c.depth * (bs.length + k)

theorem Codec.unsupported_ok : CodecOK Codec.unsupported := by
  constructor <;> simp [Codec.unsupported]

/-- proper prefix is shorter -/
theorem prefix_len_lt {p q x : Bytes} (h : p ++ q = x) (hq : q ≠ []) : p.length < x.length := by
  subst h
  have : 0 < q.length := List.length_pos_iff.mpr hq
  simp; omega

theorem u8_ok (lim : Nat) : CodecOK (Atom.u8.codec lim) := by
  constructor
  · intro st k v rest hc
    cases v <;> simp [Atom.codec, isNat] at hc
    rename_i n
    simp only [Atom.codec]
    rw [takeN_append' _ _ (leBytes_length 1 n)]
    simp [leVal_leBytes]; omega
  · intro v hc
    cases v <;> simp [Atom.codec, isNat] at hc
    simp [Atom.codec, leBytes_length]
  · intro st k v p q hc h hq
    cases v <;> simp [Atom.codec, isNat] at hc
    have hl := prefix_len_lt h hq
    simp only [Atom.codec, leBytes_length] at hl ⊢
    rw [takeN_short hl]; exact ⟨_, rfl⟩
  · intro st k bs v rest h
    simp only [Atom.codec] at h ⊢
    split at h
    · rename_i a r h1
      obtain ⟨hb, hl⟩ := takeN_ok h1
      injection h with h; injection h with e1 e2; subst e1; subst e2
      refine ⟨?_, a, hb, by omega⟩
      have := leVal_lt a; rw [hl] at this; simpa [isNat] using this
    · cases h
  · intro k bs v rest h
    simp only [Atom.codec] at h ⊢
    split at h
    · rename_i a r h1
      obtain ⟨hb, hl⟩ := takeN_ok h1
      injection h with h; injection h with e1 e2; subst e1; subst e2
      simp only; rw [← hl, leBytes_leVal, hb]
    · cases h
  · intro k bs r h; exact h
  · intro _ st k bs
    simp only [Atom.codec]
    split <;> simp
    rename_i e h1; have := (takeN_error h1).1; subst this; simp
  · intro _ k bs v rest _; simp [Atom.codec]
  · intro _ k bs; simp [Atom.codec]


theorem u64_codec_ok (c : Codec)
    (henc : c.enc = fun v => match v with | .nat n => u64le n | _ => [])
    (hdec : c.dec = fun _ _ bs => okNat (readU64 bs))
    (halloc : c.alloc = fun _ _ => 0)
    (hcanon : c.canon = isNat W64) (hmin : c.minLen = 8) (hdepth : c.depth = 0) : CodecOK c := by
  constructor
  · intro st k v rest hc
    rw [hcanon] at hc
    cases v <;> simp [isNat] at hc
    rw [henc, hdec]; simp only
    rw [readU64_append hc]; rfl
  · intro v hc
    rw [hcanon] at hc
    cases v <;> simp [isNat] at hc
    rw [henc, hmin]; simp [u64le_length]
  · intro st k v p q hc h hq
    rw [hcanon] at hc
    cases v <;> simp [isNat] at hc
    have hl := prefix_len_lt h hq
    rw [henc] at hl; simp only [u64le_length] at hl
    rw [hdec]; simp only
    rw [readU64_short hl]; exact ⟨_, rfl⟩
  · intro st k bs v rest h
    rw [hdec] at h; simp only [okNat] at h
    split at h
    · rename_i n r h1
      obtain ⟨hb, hl⟩ := readU64_ok h1
      injection h with h; injection h with e1 e2; subst e1; subst e2
      rw [hcanon, hmin]
      exact ⟨by simpa [isNat] using hl, u64le n, hb, by simp [u64le_length]⟩
    · cases h
  · intro k bs v rest h
    rw [hdec] at h; simp only [okNat] at h
    split at h
    · rename_i n r h1
      obtain ⟨hb, hl⟩ := readU64_ok h1
      injection h with h; injection h with e1 e2; subst e1; subst e2
      rw [henc]; simp only; exact hb.symm
    · cases h
  · intro k bs r h; rw [hdec] at *; exact h
  · intro _ st k bs
    rw [hdec]; simp only [okNat]
    split
    · simp
    · rename_i e h1; have := (readU64_error h1).1; subst this; simp
  · intro _ k bs v rest _; rw [halloc, hdepth]; simp
  · intro _ k bs; rw [halloc]; simp

theorem u64_ok (lim : Nat) : CodecOK (Atom.u64.codec lim) :=
  u64_codec_ok _ rfl rfl rfl rfl rfl rfl

theorem time_ok (lim : Nat) : CodecOK (Atom.time.codec lim) :=
  u64_codec_ok _ rfl rfl rfl rfl rfl rfl

theorem bool_ok (lim : Nat) : CodecOK (Atom.bool.codec lim) := by
  constructor
  · intro st k v rest hc
    cases v <;> simp [Atom.codec] at hc
    rename_i b
    simp only [Atom.codec]
    rw [show [if b = true then (1 : UInt8) else 0] ++ rest = [if b = true then (1 : UInt8) else 0] ++ rest from rfl,
      takeN_append' _ _ (by simp)]
    cases b <;> simp [leVal]
  · intro v hc
    cases v <;> simp [Atom.codec] at hc
    simp [Atom.codec]
  · intro st k v p q hc h hq
    cases v <;> simp [Atom.codec] at hc
    have hl := prefix_len_lt h hq
    simp only [Atom.codec, List.length_singleton] at hl ⊢
    rw [takeN_short hl]; exact ⟨_, rfl⟩
  · intro st k bs v rest h
    simp only [Atom.codec] at h ⊢
    split at h
    · rename_i a r h1
      obtain ⟨hb, hl⟩ := takeN_ok h1
      split at h
      · injection h with h; injection h with e1 e2; subst e1; subst e2
        exact ⟨rfl, a, hb, by omega⟩
      · split at h
        · injection h with h; injection h with e1 e2; subst e1; subst e2
          exact ⟨rfl, a, hb, by omega⟩
        · cases h
    · cases h
  · intro k bs v rest h
    simp only [Atom.codec] at h ⊢
    split at h
    · rename_i a r h1
      obtain ⟨hb, hl⟩ := takeN_ok h1
      have ha : a = leBytes 1 (leVal a) := by rw [← hl, leBytes_leVal]
      split at h
      · rename_i h0
        injection h with h; injection h with e1 e2; subst e1; subst e2
        rw [hb, ha, h0]; simp [leBytes]
      · split at h
        · rename_i h0
          injection h with h; injection h with e1 e2; subst e1; subst e2
          rw [hb, ha, h0]; simp [leBytes]
        · cases h
    · cases h
  · intro k bs r h; exact h
  · intro _ st k bs
    simp only [Atom.codec]
    split
    · split
      · simp
      · split <;> simp
    · rename_i e h1; have := (takeN_error h1).1; subst this; simp
  · intro _ k bs v rest _; simp [Atom.codec]
  · intro _ k bs; simp [Atom.codec]

theorem fixed_ok (lim n : Nat) : CodecOK ((Atom.fixed n).codec lim) := by
  constructor
  · intro st k v rest hc
    cases v <;> simp [Atom.codec, isBytes] at hc
    simp only [Atom.codec]
    rw [takeN_append' _ _ hc]; rfl
  · intro v hc
    cases v <;> simp [Atom.codec, isBytes] at hc
    simp [Atom.codec, hc]
  · intro st k v p q hc h hq
    cases v <;> simp [Atom.codec, isBytes] at hc
    have hl := prefix_len_lt h hq
    simp only [Atom.codec] at hl ⊢
    rw [hc] at hl
    rw [takeN_short hl]; exact ⟨_, rfl⟩
  · intro st k bs v rest h
    simp only [Atom.codec, okBytes] at h ⊢
    split at h
    · rename_i a r h1
      obtain ⟨hb, hl⟩ := takeN_ok h1
      injection h with h; injection h with e1 e2; subst e1; subst e2
      exact ⟨by simp [isBytes, hl], a, hb, by omega⟩
    · cases h
  · intro k bs v rest h
    simp only [Atom.codec, okBytes] at h ⊢
    split at h
    · rename_i a r h1
      obtain ⟨hb, hl⟩ := takeN_ok h1
      injection h with h; injection h with e1 e2; subst e1; subst e2
      exact hb.symm
    · cases h
  · intro k bs r h; exact h
  · intro _ st k bs
    simp only [Atom.codec, okBytes]
    split
    · simp
    · rename_i e h1; have := (takeN_error h1).1; subst this; simp
  · intro _ k bs v rest _; simp [Atom.codec]
  · intro _ k bs; simp [Atom.codec]


/-! ### length-prefixed byte strings -/

theorem readPrefixed_append (k : Nat) {b : Bytes} (h : b.length < W64) (rest : Bytes) :
    readPrefixed k (u64le b.length ++ b ++ rest) = .ok (b, rest) := by
  unfold readPrefixed
  rw [List.append_assoc, readU64_append h]
  simp only
  rw [if_neg (by simp; omega), takeN_append]

theorem readPrefixed_ok {k : Nat} {bs a r : Bytes} (h : readPrefixed k bs = .ok (a, r)) :
    bs = u64le a.length ++ a ++ r ∧ a.length < W64 := by
  unfold readPrefixed at h
  split at h
  · rename_i n r1 h1
    obtain ⟨hb, hn⟩ := readU64_ok h1
    split at h
    · cases h
    · obtain ⟨hb2, hl⟩ := takeN_ok h
      subst hl
      exact ⟨by rw [hb, hb2]; simp, hn⟩
  · cases h

theorem readPrefixed_error {k : Nat} {bs : Bytes} {e : DecErr} (h : readPrefixed k bs = .error e) :
    e = .short ∨ e = .invalid := by
  unfold readPrefixed at h
  split at h
  · split at h
    · injection h with h; exact Or.inr h.symm
    · exact Or.inl (takeN_error h).1
  · rename_i e' h1; injection h with h; subst h; exact Or.inl (readU64_error h1).1

theorem readPrefixed_trunc {k : Nat} {b p q : Bytes} (hb : b.length < W64)
    (h : p ++ q = u64le b.length ++ b) (hq : q ≠ []) : ∃ e, readPrefixed k p = .error e := by
  rcases prefix_split h with ⟨q', h1, hq'⟩ | ⟨p', h1, h2⟩
  · have hl := prefix_len_lt h1 hq'
    rw [u64le_length] at hl
    unfold readPrefixed; rw [readU64_short hl]; exact ⟨_, rfl⟩
  · subst h1
    unfold readPrefixed
    rw [readU64_append hb]
    simp only
    split
    · exact ⟨_, rfl⟩
    · have hl := prefix_len_lt h2 hq
      rw [takeN_short hl]; exact ⟨_, rfl⟩

theorem allocPrefixed_ok {k : Nat} {bs a r : Bytes} (h : readPrefixed k bs = .ok (a, r)) :
    allocPrefixed k bs = a.length := by
  unfold readPrefixed at h
  unfold allocPrefixed
  split at h
  · rename_i n r1 h1
    split at h
    · cases h
    · rename_i hg
      rw [if_neg hg]
      exact (takeN_ok h).2.symm
  · cases h

theorem allocPrefixed_le (k : Nat) (bs : Bytes) : allocPrefixed k bs ≤ bs.length + k := by
  unfold allocPrefixed
  split
  · rename_i n r h1
    obtain ⟨hb, _⟩ := readU64_ok h1
    split
    · omega
    · subst hb; simp [u64le_length]; omega
  · omega

theorem bytes_codec_ok (c : Codec)
    (henc : c.enc = fun v => match v with | .bytes b => u64le b.length ++ b | _ => [])
    (hdec : c.dec = fun _ k bs => okBytes (readPrefixed k bs))
    (halloc : c.alloc = allocPrefixed)
    (hcanon : c.canon = isBytes (fun b => decide (b.length < W64))) (hmin : c.minLen = 8)
    (hdepth : c.depth = 1) : CodecOK c := by
  constructor
  · intro st k v rest hc
    rw [hcanon] at hc
    cases v <;> simp [isBytes] at hc
    rw [henc, hdec]; simp only
    rw [readPrefixed_append k hc]; rfl
  · intro v hc
    rw [hcanon] at hc
    cases v <;> simp [isBytes] at hc
    rw [henc, hmin]; simp [u64le_length]
  · intro st k v p q hc h hq
    rw [hcanon] at hc
    cases v <;> simp [isBytes] at hc
    rw [henc] at h; simp only at h
    rw [hdec]; simp only
    obtain ⟨e, he⟩ := readPrefixed_trunc (k := k) hc h hq
    rw [he]; exact ⟨_, rfl⟩
  · intro st k bs v rest h
    rw [hdec] at h; simp only [okBytes] at h
    split at h
    · rename_i a r h1
      obtain ⟨hb, hl⟩ := readPrefixed_ok h1
      injection h with h; injection h with e1 e2; subst e1; subst e2
      rw [hcanon, hmin]
      exact ⟨by simpa [isBytes] using hl, u64le a.length ++ a, hb, by simp [u64le_length]⟩
    · cases h
  · intro k bs v rest h
    rw [hdec] at h; simp only [okBytes] at h
    split at h
    · rename_i a r h1
      obtain ⟨hb, hl⟩ := readPrefixed_ok h1
      injection h with h; injection h with e1 e2; subst e1; subst e2
      rw [henc]; simp only; exact hb.symm
    · cases h
  · intro k bs r h; rw [hdec] at *; exact h
  · intro _ st k bs
    rw [hdec]; simp only [okBytes]
    split
    · simp
    · rename_i e h1; rcases readPrefixed_error h1 with h | h <;> subst h <;> simp
  · intro _ k bs v rest h
    rw [hdec] at h; simp only [okBytes] at h
    split at h
    · rename_i a r h1
      obtain ⟨hb, hl⟩ := readPrefixed_ok h1
      injection h with h; injection h with e1 e2; subst e2
      rw [halloc, hdepth, allocPrefixed_ok h1, hb]; simp
    · cases h
  · intro _ k bs; rw [halloc, hdepth]; have := allocPrefixed_le k bs; omega

theorem bytes_ok (lim : Nat) : CodecOK (Atom.bytes.codec lim) :=
  bytes_codec_ok _ rfl rfl rfl rfl rfl rfl

theorem str_ok (lim : Nat) : CodecOK (Atom.str.codec lim) :=
  bytes_codec_ok _ rfl rfl rfl rfl rfl rfl

theorem copyInto_self {n : Nat} {b : Bytes} (h : b.length = n) : copyInto n b = b := by
  subst h; simp [copyInto, zeros]

theorem copyInto_length (n : Nat) (b : Bytes) : (copyInto n b).length = n := by
  simp [copyInto, zeros]; omega

theorem pfixed_ok (lim n : Nat) : CodecOK ((Atom.pfixed n).codec lim) := by
  constructor
  · intro st k v rest hc
    cases v <;> simp [Atom.codec, isBytes] at hc
    rename_i b
    simp only [Atom.codec]
    rw [readPrefixed_append k (by omega)]
    have : ¬ (W64 ≤ n) := by omega
    simp [hc.1, copyInto_self hc.1, this]
  · intro v hc
    cases v <;> simp [Atom.codec, isBytes] at hc
    simp [Atom.codec, u64le_length]
  · intro st k v p q hc h hq
    cases v <;> simp [Atom.codec, isBytes] at hc
    simp only [Atom.codec] at h ⊢
    obtain ⟨e, he⟩ := readPrefixed_trunc (k := k) (by omega) h hq
    rw [he]; exact ⟨_, rfl⟩
  · intro st k bs v rest h
    simp only [Atom.codec] at h ⊢
    split at h
    · rename_i a r h1
      obtain ⟨hb, hl⟩ := readPrefixed_ok h1
      split at h
      · cases h
      · injection h with h; injection h with e1 e2; subst e1; subst e2
        rename_i hs
        refine ⟨?_, u64le a.length ++ a, hb, by simp [u64le_length]⟩
        simp at hs
        simp [isBytes, copyInto_length]; omega
    · cases h
  · intro k bs v rest h
    simp only [Atom.codec] at h ⊢
    split at h
    · rename_i a r h1
      obtain ⟨hb, hl⟩ := readPrefixed_ok h1
      split at h
      · cases h
      · rename_i hs
        injection h with h; injection h with e1 e2; subst e1; subst e2
        have hn : a.length = n := by simp at hs; exact hs.1
        simp only [copyInto_self hn]; exact hb.symm
    · cases h
  · intro k bs r h
    simp only [Atom.codec] at h ⊢
    split at h
    · rename_i a r h1
      split at h
      · cases h
      · rename_i hs
        simp at hs
        rw [if_neg (by simp; exact hs.2)]; exact h
    · cases h
  · intro _ st k bs
    simp only [Atom.codec]
    split
    · split <;> simp
    · rename_i e h1; rcases readPrefixed_error h1 with h | h <;> subst h <;> simp
  · intro _ k bs v rest h
    simp only [Atom.codec] at h ⊢
    split at h
    · rename_i a r h1
      obtain ⟨hb, hl⟩ := readPrefixed_ok h1
      split at h
      · cases h
      · injection h with h; injection h with e1 e2; subst e2
        rw [allocPrefixed_ok h1, hb]; simp
    · cases h
  · intro _ k bs; simp only [Atom.codec]; have := allocPrefixed_le k bs; omega


/-! ### V1 currency forms -/

theorem readCur1_error {st : Bool} {bs : Bytes} {e : DecErr} (h : readCur1 st bs = .error e) :
    e = .short ∨ e = .invalid := by
  unfold readCur1 at h
  split at h
  · split at h
    · injection h with h; exact Or.inr h.symm
    · split at h
      · split at h
        · injection h with h; exact Or.inr h.symm
        · cases h
      · rename_i e' h2; injection h with h; subst h; exact Or.inl (takeN_error h2).1
  · rename_i e' h1; injection h with h; subst h; exact Or.inl (readU64_error h1).1

theorem readCur1_trunc {st : Bool} {n : Nat} {p q : Bytes}
    (h : p ++ q = encCur1 n) (hq : q ≠ []) : ∃ e, readCur1 st p = .error e := by
  have hl : (trimZeros (be16 n)).length ≤ 16 := by
    have := trimZeros_length_le (be16 n); rw [be16_length] at this; exact this
  have hl2 : (trimZeros (be16 n)).length < W64 := by unfold W64; omega
  unfold encCur1 at h
  rcases prefix_split h with ⟨q', h1, hq'⟩ | ⟨p', h1, h2⟩
  · have hlen := prefix_len_lt h1 hq'
    rw [u64le_length] at hlen
    unfold readCur1; rw [readU64_short hlen]; exact ⟨_, rfl⟩
  · subst h1
    unfold readCur1
    rw [readU64_append hl2]
    simp only
    rw [if_neg (by omega)]
    have hlen := prefix_len_lt h2 hq
    rw [takeN_short hlen]; exact ⟨_, rfl⟩

theorem readCur1_cons {st : Bool} {bs r : Bytes} {n : Nat} (h : readCur1 st bs = .ok (n, r)) :
    ∃ cs, bs = cs ++ r ∧ 8 ≤ cs.length := by
  obtain ⟨_, a, hb, _, _, _⟩ := readCur1_ok h
  exact ⟨u64le a.length ++ a, hb, by simp [u64le_length]⟩

theorem cur1_ok (lim : Nat) : CodecOK (Atom.cur1.codec lim) := by
  constructor
  · intro st k v rest hc
    cases v <;> simp [Atom.codec, isNat] at hc
    simp only [Atom.codec]
    rw [readCur1_append st hc]; rfl
  · intro v hc
    cases v <;> simp [Atom.codec, isNat] at hc
    simp only [Atom.codec]; exact encCur1_length_ge _
  · intro st k v p q hc h hq
    cases v <;> simp [Atom.codec, isNat] at hc
    simp only [Atom.codec] at h ⊢
    obtain ⟨e, he⟩ := readCur1_trunc (st := st) h hq
    rw [he]; exact ⟨_, rfl⟩
  · intro st k bs v rest h
    simp only [Atom.codec, okNat] at h ⊢
    split at h
    · rename_i n r h1
      injection h with h; injection h with e1 e2; subst e1; subst e2
      exact ⟨by simpa [isNat] using (readCur1_ok h1).1, readCur1_cons h1⟩
    · cases h
  · intro k bs v rest h
    simp only [Atom.codec, okNat] at h ⊢
    split at h
    · rename_i n r h1
      injection h with h; injection h with e1 e2; subst e1; subst e2
      exact readCur1_strict_enc h1
    · cases h
  · intro k bs r h
    simp only [Atom.codec, okNat] at h ⊢
    split at h
    · rename_i n r h1
      rw [readCur1_strict_lax h1]; exact h
    · cases h
  · intro _ st k bs
    simp only [Atom.codec, okNat]
    split
    · simp
    · rename_i e h1; rcases readCur1_error h1 with h | h <;> subst h <;> simp
  · intro _ k bs v rest _; simp [Atom.codec]
  · intro _ k bs; simp [Atom.codec]

theorem sfval1_ok (lim : Nat) : CodecOK (Atom.sfval1.codec lim) := by
  constructor
  · intro st k v rest hc
    cases v <;> simp [Atom.codec, isNat] at hc
    simp only [Atom.codec]
    rw [readCur1_append st (by unfold W128; unfold W64 at hc; omega)]
    simp only; rw [if_neg (by omega)]
  · intro v hc
    cases v <;> simp [Atom.codec, isNat] at hc
    simp only [Atom.codec]; exact encCur1_length_ge _
  · intro st k v p q hc h hq
    cases v <;> simp [Atom.codec, isNat] at hc
    simp only [Atom.codec] at h ⊢
    obtain ⟨e, he⟩ := readCur1_trunc (st := st) h hq
    rw [he]; exact ⟨_, rfl⟩
  · intro st k bs v rest h
    simp only [Atom.codec] at h ⊢
    split at h
    · rename_i n r h1
      split at h
      · cases h
      · injection h with h; injection h with e1 e2; subst e1; subst e2
        exact ⟨by simp [isNat]; omega, readCur1_cons h1⟩
    · cases h
  · intro k bs v rest h
    simp only [Atom.codec] at h ⊢
    split at h
    · rename_i n r h1
      split at h
      · cases h
      · injection h with h; injection h with e1 e2; subst e1; subst e2
        exact readCur1_strict_enc h1
    · cases h
  · intro k bs r h
    simp only [Atom.codec] at h ⊢
    split at h
    · rename_i n r h1
      rw [readCur1_strict_lax h1]; exact h
    · cases h
  · intro _ st k bs
    simp only [Atom.codec]
    split
    · split <;> simp
    · rename_i e h1; rcases readCur1_error h1 with h | h <;> subst h <;> simp
  · intro _ k bs v rest _; simp [Atom.codec]
  · intro _ k bs; simp [Atom.codec]

theorem cur1pad_ok (lim : Nat) : CodecOK (Atom.cur1pad.codec lim) := by
  constructor
  · intro st k v rest hc
    cases v <;> simp [Atom.codec] at hc
    simp only [Atom.codec]
    rw [readCur1_append st (by unfold W128; omega)]
    simp
  · intro v hc
    cases v <;> simp [Atom.codec] at hc
    simp only [Atom.codec]; exact encCur1_length_ge _
  · intro st k v p q hc h hq
    cases v <;> simp [Atom.codec] at hc
    simp only [Atom.codec] at h ⊢
    obtain ⟨e, he⟩ := readCur1_trunc (st := st) h hq
    rw [he]; exact ⟨_, rfl⟩
  · intro st k bs v rest h
    simp only [Atom.codec] at h ⊢
    split at h
    · rename_i n r h1
      split at h
      · cases h
      · injection h with h; injection h with e1 e2; subst e1; subst e2
        exact ⟨rfl, readCur1_cons h1⟩
    · cases h
  · intro k bs v rest h
    simp only [Atom.codec] at h ⊢
    split at h
    · rename_i n r h1
      split at h
      · cases h
      · rename_i hs
        injection h with h; injection h with e1 e2; subst e1; subst e2
        have hn : n = 0 := by simpa using hs
        subst hn
        exact readCur1_strict_enc h1
    · cases h
  · intro k bs r h
    simp only [Atom.codec] at h ⊢
    split at h
    · rename_i n r h1
      rw [readCur1_strict_lax h1]
      split at h
      · cases h
      · simpa using h
    · cases h
  · intro _ st k bs
    simp only [Atom.codec]
    split
    · split <;> simp
    · rename_i e h1; rcases readCur1_error h1 with h | h <;> subst h <;> simp
  · intro _ k bs v rest _; simp [Atom.codec]
  · intro _ k bs; simp [Atom.codec]

theorem ubytes_ok (lim : Nat) : CodecOK (Atom.ubytes.codec lim) := by
  constructor
  · intro st k v rest hc
    cases v <;> simp [Atom.codec, isBytes] at hc
    simp only [Atom.codec]
    rw [List.append_assoc, readU64_append hc.1]
    simp only; rw [if_neg (by omega), takeN_append]; rfl
  · intro v hc
    cases v <;> simp [Atom.codec, isBytes] at hc
    simp [Atom.codec, u64le_length]
  · intro st k v p q hc h hq
    cases v <;> simp [Atom.codec, isBytes] at hc
    simp only [Atom.codec] at h ⊢
    rcases prefix_split h with ⟨q', h1, hq'⟩ | ⟨p', h1, h2⟩
    · have hl := prefix_len_lt h1 hq'
      rw [u64le_length] at hl
      rw [readU64_short hl]; exact ⟨_, rfl⟩
    · subst h1
      rw [readU64_append hc.1]
      simp only
      rw [if_neg (by omega)]
      have hl := prefix_len_lt h2 hq
      rw [takeN_short hl]; exact ⟨_, rfl⟩
  · intro st k bs v rest h
    simp only [Atom.codec] at h ⊢
    split at h
    · rename_i n r1 h1
      obtain ⟨hb, hn⟩ := readU64_ok h1
      split at h
      · cases h
      · simp only [okBytes] at h
        split at h
        · rename_i a r h2
          obtain ⟨hb2, hl⟩ := takeN_ok h2
          injection h with h; injection h with e1 e2; subst e1; subst e2
          refine ⟨by simp [isBytes]; omega, u64le n ++ a, by rw [hb, hb2]; simp, by simp [u64le_length]⟩
        · cases h
    · cases h
  · intro k bs v rest h
    simp only [Atom.codec] at h ⊢
    split at h
    · rename_i n r1 h1
      obtain ⟨hb, hn⟩ := readU64_ok h1
      split at h
      · cases h
      · simp only [okBytes] at h
        split at h
        · rename_i a r h2
          obtain ⟨hb2, hl⟩ := takeN_ok h2
          injection h with h; injection h with e1 e2; subst e1; subst e2
          simp only; rw [hb, hb2, hl]; simp
        · cases h
    · cases h
  · intro k bs r h; exact h
  · intro hg; simp [Atom.codec] at hg
  · intro hg; simp [Atom.codec] at hg
  · intro hg; simp [Atom.codec] at hg

theorem cbytes_ok (lim : Nat) : CodecOK (Atom.cbytes.codec lim) := by
  constructor
  · intro st k v rest hc
    cases v <;> simp [Atom.codec, isBytes] at hc
    simp only [Atom.codec]
    rw [List.append_assoc, readU64_append hc]
    simp only; rw [takeN_append]; rfl
  · intro v hc
    cases v <;> simp [Atom.codec, isBytes] at hc
    simp [Atom.codec, u64le_length]
  · intro st k v p q hc h hq
    cases v <;> simp [Atom.codec, isBytes] at hc
    simp only [Atom.codec] at h ⊢
    rcases prefix_split h with ⟨q', h1, hq'⟩ | ⟨p', h1, h2⟩
    · have hl := prefix_len_lt h1 hq'
      rw [u64le_length] at hl
      rw [readU64_short hl]; exact ⟨_, rfl⟩
    · subst h1
      rw [readU64_append hc]
      simp only
      have hl := prefix_len_lt h2 hq
      rw [takeN_short hl]; exact ⟨_, rfl⟩
  · intro st k bs v rest h
    simp only [Atom.codec] at h ⊢
    split at h
    · rename_i n r1 h1
      obtain ⟨hb, hn⟩ := readU64_ok h1
      simp only [okBytes] at h
      split at h
      · rename_i a r h2
        obtain ⟨hb2, hl⟩ := takeN_ok h2
        injection h with h; injection h with e1 e2; subst e1; subst e2
        refine ⟨by simp [isBytes]; omega, u64le n ++ a, by rw [hb, hb2]; simp, by simp [u64le_length]⟩
      · cases h
    · cases h
  · intro k bs v rest h
    simp only [Atom.codec] at h ⊢
    split at h
    · rename_i n r1 h1
      obtain ⟨hb, hn⟩ := readU64_ok h1
      simp only [okBytes] at h
      split at h
      · rename_i a r h2
        obtain ⟨hb2, hl⟩ := takeN_ok h2
        injection h with h; injection h with e1 e2; subst e1; subst e2
        simp only; rw [hb, hb2, hl]; simp
      · cases h
    · cases h
  · intro k bs r h; exact h
  · intro _ st k bs
    simp only [Atom.codec]
    split
    · simp only [okBytes]
      split
      · simp
      · rename_i e h2; have := (takeN_error h2).1; subst this; simp
    · rename_i e h1; have := (readU64_error h1).1; subst this; simp
  · intro _ k bs v rest h
    simp only [Atom.codec] at h ⊢
    split at h
    · rename_i n r1 h1
      obtain ⟨hb, hn⟩ := readU64_ok h1
      simp only [okBytes] at h
      split at h
      · rename_i a r h2
        obtain ⟨hb2, hl⟩ := takeN_ok h2
        injection h with h; injection h with e1 e2; subst e2
        rw [hb, hb2]; simp [u64le_length]; omega
      · cases h
    · cases h
  · intro _ k bs
    simp only [Atom.codec]
    split
    · rename_i n r1 h1
      obtain ⟨hb, hn⟩ := readU64_ok h1
      rw [hb]; simp [u64le_length]; omega
    · omega

theorem atom_ok (lim : Nat) (a : Atom) : CodecOK (a.codec lim) := by
  cases a
  · exact u8_ok lim
  · exact u64_ok lim
  · exact bool_ok lim
  · exact time_ok lim
  · exact fixed_ok lim _
  · exact bytes_ok lim
  · exact str_ok lim
  · exact pfixed_ok lim _
  · exact cur1_ok lim
  · exact sfval1_ok lim
  · exact cur1pad_ok lim
  · exact ubytes_ok lim
  · exact cbytes_ok lim

end Sia.Codec
