import SiaModel.Merkle.StorageProof
import SiaProofs.Lemmas.MerkleRhpTie
/-!
  Helper lemmas for C07 (storage proofs), part 1: bit facts about the merge height
  `bits.Len64(leafIndex ^ lastLeafIndex)` and the direction rule of the verifier.
-/
set_option linter.unusedVariables false
namespace Sia.SP
open Sia.Rhp

theorem bitLen_eq (x : Nat) : bitLen x = Sia.Rhp.bitLen x := rfl

theorem bitLen_le_iff (x j : Nat) : bitLen x ≤ j ↔ x < 2 ^ j := by
  unfold bitLen
  by_cases h : x = 0
  · subst h; simp; exact Nat.two_pow_pos j
  · simp only [h, if_false]
    rw [← Nat.log2_lt h]; omega

/-- the direction rule as a Bool: sibling on the LEFT at step `j` -/
def dirOf (i sh : Nat) (j : Nat) : Bool := i.testBit j || decide (j ≥ sh)

theorem dirOf_iff (i sh j : Nat) : (i / 2 ^ j % 2 = 1 ∨ j ≥ sh) ↔ dirOf i sh j = true := by
  unfold dirOf
  rw [Nat.testBit_eq_decide_div_mod_eq]
  simp

/-- B1: inside a perfect subtree of `2^t` leaves, above the merge height with its last leaf the
index bits are ones -/
theorem bit_above_merge {i t j : Nat} (hi : i < 2 ^ t) (hj : j < t)
    (hm : bitLen (i ^^^ (2 ^ t - 1)) ≤ j) : i.testBit j = true := by
  rw [bitLen_le_iff] at hm
  have h1 := Nat.testBit_lt_two_pow hm
  rw [Nat.testBit_xor, Nat.testBit_two_pow_sub_one] at h1
  simp [hj] at h1
  exact h1

theorem testBit_top {m t : Nat} (h1 : 2 ^ t ≤ m) (h2 : m < 2 ^ (t + 1)) : m.testBit t = true := by
  have e : m = 2 ^ t + (m - 2 ^ t) := by omega
  rw [e, Nat.testBit_two_pow_add_eq]
  have : m - 2 ^ t < 2 ^ t := by rw [two_pow_succ'] at h2; omega
  simp [Nat.testBit_lt_two_pow this]

/-- B2: a leaf of the left (perfect) half merges with the last leaf at the top -/
theorem bitLen_xor_top {i m t : Nat} (hi : i < 2 ^ t) (h1 : 2 ^ t ≤ m) (h2 : m < 2 ^ (t + 1)) :
    bitLen (i ^^^ m) = t + 1 := by
  have hlt : i ^^^ m < 2 ^ (t + 1) :=
    Nat.xor_lt_two_pow (Nat.lt_of_lt_of_le hi (Nat.pow_le_pow_right (by omega) (by omega))) h2
  have hle := (bitLen_le_iff _ _).2 hlt
  have hb : (i ^^^ m).testBit t = true := by
    rw [Nat.testBit_xor, Nat.testBit_lt_two_pow hi, testBit_top h1 h2]; rfl
  have hge := Nat.ge_two_pow_of_testBit hb
  have : ¬ (bitLen (i ^^^ m) ≤ t) := by rw [bitLen_le_iff]; omega
  omega

/-- B4 -/
theorem testBit_sub_pow {i t j : Nat} (h1 : 2 ^ t ≤ i) (hj : j < t) : (i - 2 ^ t).testBit j = i.testBit j := by
  have e : i = 2 ^ t + (i - 2 ^ t) := by omega
  rw [e, Nat.testBit_two_pow_add_gt hj]
  congr 1; omega

/-- B3: two leaves of the right half merge where their relative indices merge -/
theorem xor_sub_pow {a b t : Nat} (ha1 : 2 ^ t ≤ a) (ha2 : a < 2 ^ (t + 1)) (hb1 : 2 ^ t ≤ b) (hb2 : b < 2 ^ (t + 1)) :
    a ^^^ b = (a - 2 ^ t) ^^^ (b - 2 ^ t) := by
  have ha' : a - 2 ^ t < 2 ^ t := by rw [two_pow_succ'] at ha2; omega
  have hb' : b - 2 ^ t < 2 ^ t := by rw [two_pow_succ'] at hb2; omega
  apply Nat.eq_of_testBit_eq
  intro j
  rw [Nat.testBit_xor, Nat.testBit_xor]
  by_cases hj : j < t
  · rw [testBit_sub_pow ha1 hj, testBit_sub_pow hb1 hj]
  · by_cases hjt : j = t
    · subst hjt
      rw [testBit_top ha1 ha2, testBit_top hb1 hb2, Nat.testBit_lt_two_pow ha', Nat.testBit_lt_two_pow hb']
      rfl
    · have hgt : t + 1 ≤ j := by omega
      have p1 : (2:Nat) ^ (t + 1) ≤ 2 ^ j := Nat.pow_le_pow_right (by omega) hgt
      have p2 : (2:Nat) ^ t ≤ 2 ^ j := Nat.pow_le_pow_right (by omega) (by omega)
      rw [Nat.testBit_lt_two_pow (show a < 2 ^ j by omega), Nat.testBit_lt_two_pow (show b < 2 ^ j by omega),
        Nat.testBit_lt_two_pow (show a - 2 ^ t < 2 ^ j by omega), Nat.testBit_lt_two_pow (show b - 2 ^ t < 2 ^ j by omega)]

/-- B5: at the merge height the smaller index has a zero bit -/
theorem testBit_merge_zero : ∀ (d a b : Nat), a + b = d → a < b → a.testBit (diffLen a b - 1) = false := by
  intro d
  induction d using Nat.strongRecOn with
  | _ d ih =>
    intro a b hd hab
    have hne : a ≠ b := by omega
    rw [diffLen_ne hne]
    simp only [Nat.add_sub_cancel]
    by_cases hh : a / 2 = b / 2
    · rw [hh, diffLen_self]
      rw [Nat.testBit_eq_decide_div_mod_eq]
      simp; omega
    · have hlt : a / 2 < b / 2 := by omega
      have := ih (a / 2 + b / 2) (by omega) (a / 2) (b / 2) rfl hlt
      have hpos : 1 ≤ diffLen (a / 2) (b / 2) := by rw [diffLen_ne hh]; omega
      have e : diffLen (a / 2) (b / 2) = (diffLen (a / 2) (b / 2) - 1) + 1 := by omega
      rw [e, Nat.testBit_succ]
      exact this

theorem testBit_merge_zero' {a b : Nat} (hab : a < b) : a.testBit (bitLen (a ^^^ b) - 1) = false := by
  rw [bitLen_eq, bitLen_xor _ a b rfl]
  exact testBit_merge_zero _ a b rfl hab

theorem bitLen_xor_self (a : Nat) : bitLen (a ^^^ a) = 0 := by simp [bitLen, Nat.xor_self]

end Sia.SP
