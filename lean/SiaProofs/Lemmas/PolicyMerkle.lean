import SiaModel.Policy.Address
/-! The unlock-conditions Merkle root determines the unlock conditions (C14), over an
    abstract hash algebra whose constructors are injective and disjoint (`HashInj`). -/
namespace Sia.Policy

/-- symbolic collision-freeness of the two Merkle hash constructors
    (`leaf d` = BLAKE2b(0x00 ‖ d), `node l r` = BLAKE2b(0x01 ‖ l ‖ r)); a hypothesis, never an axiom -/
structure HashInj {D : Type} (leaf : ByteArray → D) (node : D → D → D) : Prop where
  leaf_inj : ∀ a b, leaf a = leaf b → a = b
  node_inj : ∀ a b c d, node a b = node c d → a = c ∧ b = d
  leaf_ne_node : ∀ a b c, leaf a ≠ node b c

/-- the free algebra: Merkle trees as terms -/
inductive MTree where
  | leaf (d : ByteArray)
  | node (l r : MTree)

namespace MTree
def eval {D : Type} (lf : ByteArray → D) (nd : D → D → D) : MTree → D
  | .leaf d => lf d
  | .node l r => nd (eval lf nd l) (eval lf nd r)
def fringe : MTree → List ByteArray
  | .leaf d => [d]
  | .node l r => fringe l ++ fringe r

theorem eval_inj {D : Type} {lf : ByteArray → D} {nd : D → D → D} (h : HashInj lf nd) :
    ∀ t t' : MTree, eval lf nd t = eval lf nd t' → t = t'
  | .leaf a, .leaf b, e => by rw [h.leaf_inj a b e]
  | .leaf a, .node l r, e => absurd e (h.leaf_ne_node _ _ _)
  | .node l r, .leaf a, e => absurd e.symm (h.leaf_ne_node _ _ _)
  | .node l r, .node l' r', e => by
    obtain ⟨e1, e2⟩ := h.node_inj _ _ _ _ e
    rw [eval_inj h l l' e1, eval_inj h r r' e2]

/-- the free algebra is a model of `HashInj`: the hypothesis is satisfiable -/
theorem hashInj_free : HashInj MTree.leaf MTree.node :=
  ⟨fun _ _ e => by cases e; rfl, fun _ _ _ _ e => by cases e; exact ⟨rfl, rfl⟩, fun _ _ _ e => by cases e⟩
end MTree

section hom
variable {D : Type} (lf : ByteArray → D) (nd : D → D → D)

/-- evaluate every tree of an accumulator stack -/
def smap (st : List (Nat × MTree)) : List (Nat × D) := st.map (fun x => (x.1, MTree.eval lf nd x.2))

theorem accAddG_hom (st : List (Nat × MTree)) (i : Nat) (t : MTree) :
    accAddG nd (smap lf nd st) i (MTree.eval lf nd t) = smap lf nd (accAddG MTree.node st i t) := by
  induction st generalizing i t with
  | nil => simp [accAddG, smap]
  | cons x rest ih =>
    obtain ⟨ht, u⟩ := x
    simp only [smap, List.map_cons, accAddG]
    by_cases h : ht = i
    · simp only [h, if_true]
      have := ih (i + 1) (.node u t)
      simpa [smap, MTree.eval] using this
    · simp [h]

theorem fold_hom (ts : List MTree) (st : List (Nat × MTree)) :
    (ts.map (MTree.eval lf nd)).foldl (fun acc l => accAddG nd acc 0 l) (smap lf nd st)
      = smap lf nd (ts.foldl (fun acc t => accAddG MTree.node acc 0 t) st) := by
  induction ts generalizing st with
  | nil => rfl
  | cons t ts ih => simp only [List.map_cons, List.foldl_cons]; rw [accAddG_hom, ih]

theorem rootFold_hom (rest : List (Nat × MTree)) (t : MTree) :
    (smap lf nd rest).foldl (fun root x => nd x.2 root) (MTree.eval lf nd t)
      = MTree.eval lf nd (rest.foldl (fun root x => MTree.node x.2 root) t) := by
  induction rest generalizing t with
  | nil => rfl
  | cons x xs ih =>
    simp only [smap, List.map_cons, List.foldl_cons]
    exact ih (.node x.2 t)
end hom

/-- fringes of a stack, oldest (largest) tree first -/
def sfr (st : List (Nat × MTree)) : List ByteArray := st.reverse.flatMap (fun x => x.2.fringe)

theorem sfr_cons (x : Nat × MTree) (st : List (Nat × MTree)) : sfr (x :: st) = sfr st ++ x.2.fringe := by
  simp [sfr]

theorem sfr_accAdd (st : List (Nat × MTree)) (i : Nat) (t : MTree) :
    sfr (accAddG MTree.node st i t) = sfr st ++ t.fringe := by
  induction st generalizing i t with
  | nil => simp [accAddG, sfr]
  | cons x rest ih =>
    obtain ⟨ht, u⟩ := x
    simp only [accAddG]
    by_cases h : ht = i
    · simp only [h, if_true]; rw [ih, sfr_cons]; simp [MTree.fringe]
    · simp only [h, if_false]; rw [sfr_cons]

theorem accAdd_ne_nil (st : List (Nat × MTree)) (i : Nat) (t : MTree) : accAddG MTree.node st i t ≠ [] := by
  induction st generalizing i t with
  | nil => simp [accAddG]
  | cons x rest ih =>
    obtain ⟨ht, u⟩ := x
    simp only [accAddG]; split
    · exact ih _ _
    · simp

theorem sfr_fold (ts : List MTree) (st : List (Nat × MTree)) :
    sfr (ts.foldl (fun acc t => accAddG MTree.node acc 0 t) st) = sfr st ++ ts.flatMap MTree.fringe := by
  induction ts generalizing st with
  | nil => simp
  | cons t ts ih => simp only [List.foldl_cons]; rw [ih, sfr_accAdd]; simp

theorem fold_ne_nil (ts : List MTree) (st : List (Nat × MTree)) (h : st ≠ [] ∨ ts ≠ []) :
    ts.foldl (fun acc t => accAddG MTree.node acc 0 t) st ≠ [] := by
  induction ts generalizing st with
  | nil => simpa using h
  | cons t ts ih => simp only [List.foldl_cons]; exact ih _ (Or.inl (accAdd_ne_nil _ _ _))

theorem fringe_rootFold (rest : List (Nat × MTree)) (t : MTree) :
    (rest.foldl (fun root x => MTree.node x.2 root) t).fringe = sfr rest ++ t.fringe := by
  induction rest generalizing t with
  | nil => simp [sfr]
  | cons x xs ih => simp only [List.foldl_cons]; rw [ih, sfr_cons]; simp [MTree.fringe]

/-- For a non-empty list of leaf data there is a term (its Merkle tree) whose value is the
    accumulator's root and whose fringe is the list. -/
theorem merkleRootG_tree {D : Type} (lf : ByteArray → D) (nd : D → D → D) (zero : D)
    (l : List ByteArray) (hl : l ≠ []) :
    ∃ T : MTree, merkleRootG nd zero (l.map lf) = T.eval lf nd ∧ T.fringe = l := by
  have e : l.map lf = (l.map MTree.leaf).map (MTree.eval lf nd) := by simp [MTree.eval]
  have hf := fold_hom lf nd (l.map MTree.leaf) []
  simp only [smap, List.map_nil] at hf
  have hne := fold_ne_nil (l.map MTree.leaf) [] (Or.inr (by simpa using hl))
  have hfr := sfr_fold (l.map MTree.leaf) []
  unfold merkleRootG
  rw [e, hf]
  cases hs : (l.map MTree.leaf).foldl (fun acc t => accAddG MTree.node acc 0 t) [] with
  | nil => exact absurd hs hne
  | cons x rest =>
    obtain ⟨hx, t⟩ := x
    refine ⟨rest.foldl (fun root x => MTree.node x.2 root) t, ?_, ?_⟩
    · simp only [List.map_cons, accRootG]
      exact rootFold_hom lf nd rest t
    · rw [fringe_rootFold, ← sfr_cons (hx, t) rest, ← hs, hfr]
      simp [sfr, MTree.fringe, List.flatMap_map]

/-- the Merkle root of a non-empty list determines the list -/
theorem merkleRootG_inj {D : Type} {lf : ByteArray → D} {nd : D → D → D} (h : HashInj lf nd) (zero : D)
    (l l' : List ByteArray) (hl : l ≠ []) (hl' : l' ≠ [])
    (e : merkleRootG nd zero (l.map lf) = merkleRootG nd zero (l'.map lf)) : l = l' := by
  obtain ⟨T, h1, h2⟩ := merkleRootG_tree lf nd zero l hl
  obtain ⟨T', h1', h2'⟩ := merkleRootG_tree lf nd zero l' hl'
  rw [h1, h1'] at e
  rw [← h2, ← h2', MTree.eval_inj h T T' e]

/-! ### the encodings under the leaves are injective on well-formed unlock conditions -/

theorem le64_inj {a b : Nat} (ha : a < 18446744073709551616) (hb : b < 18446744073709551616)
    (h : le64 a = le64 b) : a = b := by
  have := congrArg (·.data.toList) h
  simp [le64, ByteArray.push, ByteArray.emptyWithCapacity] at this
  obtain ⟨h0, h1, h2, h3, h4, h5, h6, h7⟩ := this
  rw [← UInt8.toNat_inj] at h0 h1 h2 h3 h4 h5 h6 h7
  simp [UInt64.toNat_toUInt8, UInt64.toNat_shiftRight, Nat.shiftRight_eq_div_pow] at h0 h1 h2 h3 h4 h5 h6 h7
  omega

theorem le64_size (n : Nat) : (le64 n).size = 8 := by
  unfold le64; rfl

theorem ba_append_inj {a b c d : ByteArray} (h : a ++ b = c ++ d) (hs : a.size = c.size) : a = c ∧ b = d := by
  have := congrArg ByteArray.data h
  simp only [ByteArray.data_append] at this
  obtain ⟨h1, h2⟩ := Array.append_inj this hs
  exact ⟨ByteArray.ext h1, ByteArray.ext h2⟩

/-- well-formed unlock key: a 16-byte specifier and a key whose length fits a uint64 -/
def UnlockKey.WF (k : UnlockKey) : Prop := k.algorithm.size = 16 ∧ k.key.size < 18446744073709551616

/-- well-formed unlock conditions: uint64 fields, well-formed keys -/
def UnlockConditions.WF (c : UnlockConditions) : Prop :=
  c.timelock < 18446744073709551616 ∧ c.signaturesRequired < 18446744073709551616 ∧ ∀ k ∈ c.publicKeys, k.WF

theorem encUnlockKey_inj {k k' : UnlockKey} (hk : k.WF) (hk' : k'.WF) (h : encUnlockKey k = encUnlockKey k') : k = k' := by
  unfold encUnlockKey at h
  rw [ByteArray.append_assoc, ByteArray.append_assoc] at h
  obtain ⟨e1, e2⟩ := ba_append_inj h (by rw [hk.1, hk'.1])
  obtain ⟨e3, e4⟩ := ba_append_inj e2 (by rw [le64_size, le64_size])
  cases k; cases k'; simp_all

theorem map_encUnlockKey_inj : ∀ (ks ks' : List UnlockKey), (∀ k ∈ ks, k.WF) → (∀ k ∈ ks', k.WF) →
    ks.map encUnlockKey = ks'.map encUnlockKey → ks = ks'
  | [], [], _, _, _ => rfl
  | [], _ :: _, _, _, h => by simp at h
  | _ :: _, [], _, _, h => by simp at h
  | k :: ks, k' :: ks', hw, hw', h => by
    simp only [List.map_cons, List.cons.injEq] at h
    rw [encUnlockKey_inj (hw k (by simp)) (hw' k' (by simp)) h.1,
      map_encUnlockKey_inj ks ks' (fun x hx => hw x (by simp [hx])) (fun x hx => hw' x (by simp [hx])) h.2]

/-- **The unlock-conditions root determines the unlock conditions.** -/
theorem ucRootG_inj {D : Type} {lf : ByteArray → D} {nd : D → D → D} (h : HashInj lf nd) (zero : D)
    (c c' : UnlockConditions) (hc : c.WF) (hc' : c'.WF)
    (e : ucRootG lf nd zero c = ucRootG lf nd zero c') : c = c' := by
  unfold ucRootG at e
  have m : ∀ c : UnlockConditions,
      [lf (le64 c.timelock)] ++ c.publicKeys.map (fun k => lf (encUnlockKey k)) ++ [lf (le64 c.signaturesRequired)]
        = ([le64 c.timelock] ++ c.publicKeys.map encUnlockKey ++ [le64 c.signaturesRequired]).map lf := by
    intro c; simp
  rw [m c, m c'] at e
  have := merkleRootG_inj h zero _ _ (by simp) (by simp) e
  simp only [List.cons_append, List.cons.injEq] at this
  obtain ⟨e1, e2⟩ := this
  obtain ⟨e3, e4⟩ := List.append_inj' e2 rfl
  simp only [List.cons.injEq, and_true] at e4
  have t := le64_inj hc.1 hc'.1 e1
  have r := le64_inj hc.2.1 hc'.2.1 e4
  have ks := map_encUnlockKey_inj _ _ hc.2.2 hc'.2.2 e3
  cases c; cases c'; simp_all

end Sia.Policy
