import SiaProofs.Lemmas.CodecComb
/-! The bitmap combinator (`V2Transaction`) preserves the leaf laws. -/
namespace Sia.Codec

def FieldsOK (fs : List BitField) : Prop := ∀ f ∈ fs, CodecOK f.c

theorem FieldsOK.head {f : BitField} {fs : List BitField} (h : FieldsOK (f :: fs)) : CodecOK f.c :=
  h f (by simp)
theorem FieldsOK.tail {f : BitField} {fs : List BitField} (h : FieldsOK (f :: fs)) : FieldsOK fs :=
  fun g hg => h g (by simp [hg])

theorem maskOf_lt (l : List Bool) : maskOf l < 2 ^ l.length := by
  induction l with
  | nil => simp [maskOf]
  | cons b bs ih =>
    simp only [maskOf, List.length_cons, Nat.pow_succ]
    cases b <;> simp <;> omega

theorem maskOf_cons_true (bs : List Bool) : maskOf (true :: bs) % 2 = 1 ∧ maskOf (true :: bs) / 2 = maskOf bs := by
  simp only [maskOf]; constructor <;> simp <;> omega
theorem maskOf_cons_false (bs : List Bool) : maskOf (false :: bs) % 2 = 0 ∧ maskOf (false :: bs) / 2 = maskOf bs := by
  simp only [maskOf]; constructor <;> simp <;> omega

theorem canonFields_length {fs : List BitField} {vs : List Val} (h : canonFields fs vs = true) :
    vs.length = fs.length := by
  induction fs generalizing vs with
  | nil => simp [canonFields] at h; simp [h]
  | cons f fs ih =>
    cases vs with
    | nil => simp [canonFields] at h
    | cons v vs' =>
      simp only [canonFields, Bool.and_eq_true] at h
      simp [ih h.2]

/-- shape of a canonical entry -/
theorem canon_entry {f : BitField} {v : Val}
    (h : (match v with | .some x => f.c.canon x && !f.isZero x | .none => true | _ => false) = true) :
    v = .none ∨ ∃ x, v = .some x ∧ f.c.canon x = true ∧ f.isZero x = false := by
  cases v <;> simp at h
  · exact Or.inl rfl
  · exact Or.inr ⟨_, rfl, h.1, h.2⟩

theorem decFields_roundtrip {fs : List BitField} (hfs : FieldsOK fs) (st : Bool) (k : Nat)
    (vs : List Val) (hc : canonFields fs vs = true) (rest : Bytes) :
    decFields st k fs (maskOf (vs.map isSome)) (encFields fs vs ++ rest) = .ok (vs, rest) := by
  induction fs generalizing vs with
  | nil =>
    simp [canonFields] at hc; subst hc
    simp [decFields, encFields]
  | cons f fs ih =>
    cases vs with
    | nil => simp [canonFields] at hc
    | cons v vs' =>
      simp only [canonFields, Bool.and_eq_true] at hc
      rcases canon_entry hc.1 with hv | ⟨x, hv, hcx, hz⟩
      · subst hv
        have hm := maskOf_cons_false (vs'.map isSome)
        simp only [List.map_cons, isSome, decFields, encFields, List.nil_append]
        rw [hm.1, hm.2]
        simp only [show ¬ (0 = 1) by decide, ↓reduceIte]
        rw [ih hfs.tail vs' hc.2]; rfl
      · subst hv
        have hm := maskOf_cons_true (vs'.map isSome)
        simp only [List.map_cons, isSome, decFields, encFields, List.append_assoc]
        rw [hm.1, hm.2]
        simp only [↓reduceIte]
        rw [hfs.head.roundtrip st k x _ hcx]
        simp only [hz, Bool.false_eq_true, ↓reduceIte]
        rw [ih hfs.tail vs' hc.2]; rfl

theorem decFields_trunc {fs : List BitField} (hfs : FieldsOK fs) (st : Bool) (k : Nat)
    (vs : List Val) (hc : canonFields fs vs = true) (p q : Bytes)
    (h : p ++ q = encFields fs vs) (hq : q ≠ []) :
    ∃ e, decFields st k fs (maskOf (vs.map isSome)) p = .error e := by
  induction fs generalizing vs p with
  | nil => simp [encFields] at h; exact absurd h.2 hq
  | cons f fs ih =>
    cases vs with
    | nil => simp [canonFields] at hc
    | cons v vs' =>
      simp only [canonFields, Bool.and_eq_true] at hc
      rcases canon_entry hc.1 with hv | ⟨x, hv, hcx, hz⟩
      · subst hv
        have hm := maskOf_cons_false (vs'.map isSome)
        simp only [encFields, List.nil_append] at h
        simp only [List.map_cons, isSome, decFields]
        rw [hm.1, hm.2]
        simp only [show ¬ (0 = 1) by decide, ↓reduceIte]
        obtain ⟨e, he⟩ := ih hfs.tail vs' hc.2 p h
        rw [he]; exact ⟨_, rfl⟩
      · subst hv
        have hm := maskOf_cons_true (vs'.map isSome)
        simp only [encFields] at h
        simp only [List.map_cons, isSome, decFields]
        rw [hm.1, hm.2]
        simp only [↓reduceIte]
        rcases prefix_split h with ⟨q', h1, hq'⟩ | ⟨p', h1, h2⟩
        · obtain ⟨e, he⟩ := hfs.head.trunc st k x p q' hcx h1 hq'
          rw [he]; exact ⟨_, rfl⟩
        · subst h1
          rw [hfs.head.roundtrip st k x _ hcx]
          simp only [hz, Bool.false_eq_true, ↓reduceIte]
          obtain ⟨e, he⟩ := ih hfs.tail vs' hc.2 p' h2
          rw [he]; exact ⟨_, rfl⟩

theorem consOk_ok {v : Val} {r : Except DecErr (List Val × Bytes)} {vs : List Val} {rest : Bytes}
    (h : consOk v r = .ok (vs, rest)) : ∃ vs', r = .ok (vs', rest) ∧ vs = v :: vs' := by
  unfold consOk at h
  split at h
  · rename_i vs' r'
    injection h with h; injection h with e1 e2; subst e1; subst e2
    exact ⟨vs', rfl, rfl⟩
  · cases h

theorem decFields_sound {fs : List BitField} (hfs : FieldsOK fs) (st : Bool) (k : Nat)
    (m : Nat) (bs : Bytes) (vs : List Val) (rest : Bytes)
    (h : decFields st k fs m bs = .ok (vs, rest)) :
    canonFields fs vs = true ∧ ∃ cs, bs = cs ++ rest := by
  induction fs generalizing m bs vs with
  | nil =>
    simp only [decFields] at h
    injection h with h; injection h with e1 e2; subst e1; subst e2
    exact ⟨rfl, [], rfl⟩
  | cons f fs ih =>
    simp only [decFields] at h
    split at h
    · split at h
      · rename_i x r hd
        obtain ⟨hcx, c1, hb1, _⟩ := hfs.head.dec_sound st k bs x r hd
        split at h
        · rename_i hz
          split at h
          · cases h
          · obtain ⟨vs', h2, hv⟩ := consOk_ok h
            obtain ⟨hc, c2, hb2⟩ := ih hfs.tail _ _ _ h2
            subst hv
            exact ⟨by simp [canonFields, hc], c1 ++ c2, by rw [hb1, hb2]; simp⟩
        · rename_i hz
          obtain ⟨vs', h2, hv⟩ := consOk_ok h
          obtain ⟨hc, c2, hb2⟩ := ih hfs.tail _ _ _ h2
          subst hv
          refine ⟨?_, c1 ++ c2, by rw [hb1, hb2]; simp⟩
          simp only [canonFields, Bool.and_eq_true]
          exact ⟨by simp [hcx, hz], hc⟩
      · cases h
    · obtain ⟨vs', h2, hv⟩ := consOk_ok h
      obtain ⟨hc, c2, hb2⟩ := ih hfs.tail _ _ _ h2
      subst hv
      exact ⟨by simp [canonFields, hc], c2, hb2⟩

theorem decFields_strict_enc {fs : List BitField} (hfs : FieldsOK fs) (k : Nat)
    (m : Nat) (bs : Bytes) (vs : List Val) (rest : Bytes)
    (h : decFields true k fs m bs = .ok (vs, rest)) :
    encFields fs vs ++ rest = bs ∧ maskOf (vs.map isSome) = m % 2 ^ fs.length := by
  induction fs generalizing m bs vs with
  | nil =>
    simp only [decFields] at h
    injection h with h; injection h with e1 e2; subst e1; subst e2
    simp [encFields, maskOf, Nat.mod_one]
  | cons f fs ih =>
    have hpow : m % 2 ^ (fs.length + 1) = m % 2 + 2 * (m / 2 % 2 ^ fs.length) := by
      rw [Nat.pow_succ, Nat.mul_comm, Nat.mod_mul]
    simp only [decFields] at h
    split at h
    · rename_i hbit
      split at h
      · rename_i x r hd
        split at h
        · simp at h
        · obtain ⟨vs', h2, hv⟩ := consOk_ok h
          obtain ⟨he, hm⟩ := ih hfs.tail _ _ _ h2
          subst hv
          refine ⟨?_, ?_⟩
          · simp only [encFields, List.append_assoc]
            rw [he, hfs.head.strict_enc k bs x r hd]
          · simp only [List.map_cons, isSome, maskOf, List.length_cons, ↓reduceIte]
            rw [hm, hpow, hbit]
      · cases h
    · rename_i hbit
      obtain ⟨vs', h2, hv⟩ := consOk_ok h
      obtain ⟨he, hm⟩ := ih hfs.tail _ _ _ h2
      subst hv
      refine ⟨?_, ?_⟩
      · simp only [encFields, List.nil_append]; exact he
      · simp only [List.map_cons, isSome, maskOf, List.length_cons, Bool.false_eq_true, ↓reduceIte]
        rw [hm, hpow]; omega

theorem consOk_mono {v : Val} {r r' : Except DecErr (List Val × Bytes)} {x : List Val × Bytes}
    (hr : ∀ y, r = .ok y → r' = .ok y) (h : consOk v r = .ok x) : consOk v r' = .ok x := by
  cases r with
  | error e => simp [consOk] at h
  | ok y =>
    rw [hr y rfl]; exact h

theorem decFields_strict_lax {fs : List BitField} (hfs : FieldsOK fs) (k : Nat)
    (m : Nat) (bs : Bytes) (x : List Val × Bytes)
    (h : decFields true k fs m bs = .ok x) : decFields false k fs m bs = .ok x := by
  induction fs generalizing m bs x with
  | nil => exact h
  | cons f fs ih =>
    simp only [decFields] at h ⊢
    split at h
    · rename_i hbit
      rw [if_pos hbit]
      split at h
      · rename_i y r hd
        rw [hfs.head.strict_lax k bs _ hd]
        simp only
        split at h
        · simp at h
        · rename_i hz
          rw [if_neg hz]
          exact consOk_mono (fun y hy => ih hfs.tail _ _ _ hy) h
      · cases h
    · rename_i hbit
      rw [if_neg hbit]
      exact consOk_mono (fun y hy => ih hfs.tail _ _ _ hy) h

theorem consOk_error {v : Val} {r : Except DecErr (List Val × Bytes)} {e : DecErr}
    (h : consOk v r = .error e) : r = .error e := by
  unfold consOk at h
  split at h
  · cases h
  · rename_i e' ; injection h with h; subst h; rfl

theorem decFields_no_panic {fs : List BitField} (hfs : FieldsOK fs) (hg : fieldsGuarded fs = true)
    (st : Bool) (k : Nat) (m : Nat) (bs : Bytes) : decFields st k fs m bs ≠ .error .panic := by
  induction fs generalizing m bs with
  | nil => simp [decFields]
  | cons f fs ih =>
    simp only [fieldsGuarded, Bool.and_eq_true] at hg
    simp only [decFields]
    split
    · split
      · split
        · split
          · simp
          · intro h; exact ih hfs.tail hg.2 _ _ (consOk_error h)
        · intro h; exact ih hfs.tail hg.2 _ _ (consOk_error h)
      · rename_i e hd; intro h; injection h with h; subst h
        exact hfs.head.no_panic hg.1 st k bs hd
    · intro h; exact ih hfs.tail hg.2 _ _ (consOk_error h)

theorem allocFields_bounds {fs : List BitField} (hfs : FieldsOK fs) (hg : fieldsGuarded fs = true)
    (k : Nat) (m : Nat) (bs : Bytes) :
    allocFields k fs m bs ≤ fieldsDepth fs * (bs.length + k) ∧
    (∀ vs rest, decFields false k fs m bs = .ok (vs, rest) →
      ∃ cs, bs = cs ++ rest ∧ allocFields k fs m bs ≤ fieldsDepth fs * cs.length) := by
  induction fs generalizing m bs with
  | nil =>
    refine ⟨by simp [allocFields], ?_⟩
    intro vs rest h
    simp only [decFields] at h
    injection h with h; injection h with e1 e2; subst e2
    exact ⟨[], rfl, by simp [allocFields]⟩
  | cons f fs ih =>
    simp only [fieldsGuarded, Bool.and_eq_true] at hg
    have ok := hfs.head
    have hd1 : f.c.depth ≤ max f.c.depth (fieldsDepth fs) := Nat.le_max_left _ _
    have hd2 : fieldsDepth fs ≤ max f.c.depth (fieldsDepth fs) := Nat.le_max_right _ _
    simp only [allocFields, decFields, fieldsDepth]
    split
    · -- bit set
      split
      · rename_i x r hd
        obtain ⟨_, c1, hb1, _⟩ := ok.dec_sound false k bs x r hd
        have ha1 := ok.alloc_ok hg.1 k bs x r hd
        rw [hb1, List.length_append, Nat.mul_add] at ha1
        have ha1' : f.c.alloc k bs ≤ f.c.depth * c1.length := by rw [hb1]; omega
        obtain ⟨rA, rB⟩ := ih hfs.tail hg.2 (m / 2) r
        have e1 : bs.length = c1.length + r.length := by rw [hb1]; simp
        have m1 := Nat.mul_le_mul_right c1.length hd1
        constructor
        · have m2 := Nat.mul_le_mul_right (r.length + k) hd2
          rw [e1, show c1.length + r.length + k = c1.length + (r.length + k) by omega, Nat.mul_add]
          omega
        · intro vs rest h
          have h' : ∃ v, consOk v (decFields false k fs (m / 2) r) = .ok (vs, rest) := by
            split at h
            · simp only [Bool.false_eq_true, ↓reduceIte] at h; exact ⟨_, h⟩
            · exact ⟨_, h⟩
          obtain ⟨v, h'⟩ := h'
          obtain ⟨vs', h2, _⟩ := consOk_ok h'
          obtain ⟨c2, hb2, ha2⟩ := rB _ _ h2
          have m2 := Nat.mul_le_mul_right c2.length hd2
          refine ⟨c1 ++ c2, by rw [hb1, hb2]; simp, ?_⟩
          rw [List.length_append, Nat.mul_add]; omega
      · rename_i e hd
        constructor
        · have := ok.alloc_err hg.1 k bs
          have m1 := Nat.mul_le_mul_right (bs.length + k) hd1
          omega
        · intro vs rest h; cases h
    · obtain ⟨rA, rB⟩ := ih hfs.tail hg.2 (m / 2) bs
      constructor
      · have m2 := Nat.mul_le_mul_right (bs.length + k) hd2
        omega
      · intro vs rest h
        obtain ⟨vs', h2, _⟩ := consOk_ok h
        obtain ⟨c2, hb2, ha2⟩ := rB _ _ h2
        have m2 := Nat.mul_le_mul_right c2.length hd2
        exact ⟨c2, hb2, by omega⟩

theorem okList_ok {r : Except DecErr (List Val × Bytes)} {v : Val} {rest : Bytes}
    (h : okList r = .ok (v, rest)) : ∃ vs, r = .ok (vs, rest) ∧ v = .list vs := by
  unfold okList at h
  split at h
  · rename_i vs r'
    injection h with h; injection h with e1 e2; subst e1; subst e2
    exact ⟨vs, rfl, rfl⟩
  · cases h

theorem pow_le_W64 {n : Nat} (h : n ≤ 64) : 2 ^ n ≤ W64 := by
  have := Nat.pow_le_pow_right (show 0 < 2 by decide) h
  unfold W64; omega

theorem bitmap_ok {version : Nat} {fs : List BitField} (hv : version < 256) (hn : fs.length ≤ 64)
    (hfs : FieldsOK fs) : CodecOK (Codec.bitmap version fs) := by
  have hver : leVal (leBytes 1 version) = version := by rw [leVal_leBytes]; simp; omega
  constructor
  · -- roundtrip
    intro st k v rest hc
    cases v <;> simp [Codec.bitmap] at hc
    rename_i vs
    have hlen := canonFields_length hc.2
    have hm : maskOf (vs.map isSome) < 2 ^ fs.length := by
      have := maskOf_lt (vs.map isSome); simpa [hlen] using this
    have hm64 : maskOf (vs.map isSome) < W64 := Nat.lt_of_lt_of_le hm (pow_le_W64 hn)
    simp only [Codec.bitmap, List.append_assoc]
    rw [takeN_append' _ _ (leBytes_length 1 version)]
    simp only [hver, ne_eq, not_true_eq_false, ↓reduceIte]
    rw [readU64_append hm64]
    simp only
    rw [if_neg (by simp; omega)]
    rw [decFields_roundtrip hfs st k vs hc.2 rest]; rfl
  · -- minLen
    intro v hc
    cases v <;> simp [Codec.bitmap] at hc
    simp [Codec.bitmap, leBytes_length, u64le_length]; omega
  · -- trunc
    intro st k v p q hc h hq
    cases v <;> simp [Codec.bitmap] at hc
    rename_i vs
    have hlen := canonFields_length hc.2
    have hm : maskOf (vs.map isSome) < 2 ^ fs.length := by
      have := maskOf_lt (vs.map isSome); simpa [hlen] using this
    have hm64 : maskOf (vs.map isSome) < W64 := Nat.lt_of_lt_of_le hm (pow_le_W64 hn)
    simp only [Codec.bitmap] at h ⊢
    rcases prefix_split h with ⟨q', h1, hq'⟩ | ⟨p', h1, h2⟩
    · have hl := prefix_len_lt h1 hq'
      rw [leBytes_length] at hl
      rw [takeN_short hl]; exact ⟨_, rfl⟩
    · subst h1
      rw [takeN_append' _ _ (leBytes_length 1 version)]
      simp only [hver, ne_eq, not_true_eq_false, ↓reduceIte]
      rcases prefix_split h2 with ⟨q', h1, hq'⟩ | ⟨p'', h1, h3⟩
      · have hl := prefix_len_lt h1 hq'
        rw [u64le_length] at hl
        rw [readU64_short hl]; exact ⟨_, rfl⟩
      · subst h1
        rw [readU64_append hm64]
        simp only
        rw [if_neg (by simp; omega)]
        obtain ⟨e, he⟩ := decFields_trunc hfs st k vs hc.2 p'' q h3 hq
        rw [he]; exact ⟨_, rfl⟩
  · -- dec_sound
    intro st k bs v rest h
    simp only [Codec.bitmap] at h ⊢
    split at h
    · rename_i a r h1
      obtain ⟨hb, hl⟩ := takeN_ok h1
      split at h
      · cases h
      · split at h
        · rename_i m r2 h2
          obtain ⟨hb2, _⟩ := readU64_ok h2
          split at h
          · cases h
          · obtain ⟨vs, h3, hvs⟩ := okList_ok h
            obtain ⟨hc, cs, hcs⟩ := decFields_sound hfs st k m r2 vs rest h3
            subst hvs
            refine ⟨by simp [hv, hn, hc], a ++ (u64le m ++ cs), by rw [hb, hb2, hcs]; simp, ?_⟩
            simp [u64le_length]; omega
        · cases h
    · cases h
  · -- strict_enc
    intro k bs v rest h
    simp only [Codec.bitmap] at h ⊢
    split at h
    · rename_i a r h1
      obtain ⟨hb, hl⟩ := takeN_ok h1
      split at h
      · cases h
      · rename_i hva
        have hva' : leVal a = version := by simpa using hva
        split at h
        · rename_i m r2 h2
          obtain ⟨hb2, _⟩ := readU64_ok h2
          split at h
          · cases h
          · rename_i hst
            obtain ⟨vs, h3, hvs⟩ := okList_ok h
            obtain ⟨he, hm⟩ := decFields_strict_enc hfs k m r2 vs rest h3
            subst hvs
            have hmm : m % 2 ^ fs.length = m := Nat.mod_eq_of_lt (by simpa using hst)
            simp only [List.append_assoc]
            rw [hm, hmm, he, ← hva', leBytes_one_leVal hl, hb, hb2]
        · cases h
    · cases h
  · -- strict_lax
    intro k bs r h
    simp only [Codec.bitmap] at h ⊢
    split at h
    · split at h
      · cases h
      · rename_i hva
        rw [if_neg hva]
        split at h
        · rename_i m r2 h2
          simp only [Bool.false_and, Bool.false_eq_true, ↓reduceIte]
          split at h
          · cases h
          · unfold okList at h ⊢
            split at h
            · rename_i vs r' h3
              rw [decFields_strict_lax hfs k m r2 _ h3]; exact h
            · cases h
        · cases h
    · cases h
  · -- no_panic
    intro hg st k bs
    simp only [Codec.bitmap] at hg ⊢
    split
    · split
      · simp
      · split
        · split
          · simp
          · unfold okList
            split
            · simp
            · rename_i e h3; intro h; injection h with h; subst h
              exact decFields_no_panic hfs hg st k _ _ h3
        · rename_i e h2; have := (readU64_error h2).1; subst this; simp
    · rename_i e h1; have := (takeN_error h1).1; subst this; simp
  · -- alloc_ok
    intro hg k bs v rest h
    simp only [Codec.bitmap] at hg h ⊢
    split at h
    · rename_i a r h1
      obtain ⟨hb, hl⟩ := takeN_ok h1
      split at h
      · cases h
      · rename_i hva
        rw [if_neg hva]
        split at h
        · rename_i m r2 h2
          obtain ⟨hb2, _⟩ := readU64_ok h2
          simp only [Bool.false_and, Bool.false_eq_true, ↓reduceIte] at h
          obtain ⟨vs, h3, _⟩ := okList_ok h
          obtain ⟨cs, hcs, ha⟩ := (allocFields_bounds hfs hg k m r2).2 vs rest h3
          rw [hb, hb2, hcs]
          rw [hcs] at ha
          simp only [List.length_append, Nat.mul_add]
          omega
        · cases h
    · cases h
  · -- alloc_err
    intro hg k bs
    simp only [Codec.bitmap] at hg ⊢
    split
    · rename_i a r h1
      obtain ⟨hb, hl⟩ := takeN_ok h1
      split
      · omega
      · split
        · rename_i m r2 h2
          obtain ⟨hb2, _⟩ := readU64_ok h2
          have ha := (allocFields_bounds hfs hg k m r2).1
          have : fieldsDepth fs * (r2.length + k) ≤ fieldsDepth fs * (bs.length + k) :=
            Nat.mul_le_mul_left _ (by rw [hb, hb2]; simp; omega)
          omega
        · omega
    · omega

end Sia.Codec
