/-
  SiaProofs.Lemmas.TxCanon — canonicity along the traversal of `forEachElementLeaf`:
  from `Canon E (.slice v2txn) t` alone, (1) every visited parent has the element shape with
  32-byte proof entries (`GoodTxns t`) and (2) the stripped set (`l.MerkleProof = nil` on the
  visited parents) is canonical again.

  Stated for ANY environment in which the three irregular codecs involved are the modelled
  ones (`TxnEnv`): the V2Transaction bitmap codec over the generated field list, the
  resolution codec and its tagged payload. Other entries of the environment (e.g. a spend
  policy codec) are irrelevant: the traversal never touches them.
-/
import SiaModel.Codec.Irregular
import SiaProofs.Lemmas.TxTraverse
set_option linter.unusedSectionVars false
namespace Sia.Multiproof
open Sia.Codec

/-- empty the proof of a visited parent, leave an ephemeral one alone: what `strip` writes -/
def stripEl (x : Val) : Val := if visited x then setProof x [] else x

theorem setProofsEls_nils : ∀ (els : List Val) (n : Nat), nvis els ≤ n →
    setProofsEls els (List.replicate n []) = els.map stripEl := by
  intro els
  induction els with
  | nil => intro n _; rfl
  | cons el els ih =>
    intro n hn
    rw [nvis_cons] at hn
    by_cases hv : visited el = true
    · simp only [hv, if_true] at hn
      obtain ⟨m, rfl⟩ : ∃ m, n = m + 1 := ⟨n - 1, by omega⟩
      simp only [List.replicate_succ, setProofsEls, hv, if_true, List.map_cons, stripEl, ih m (by omega)]
    · simp only [hv, if_false, Nat.zero_add, Bool.false_eq_true] at hn
      simp only [setProofsEls, hv, if_false, List.map_cons, stripEl, ih n hn, Bool.false_eq_true]

/-- an element schema: a record whose first field is the StateElement -/
def IsElem (s : Sch) : Prop := ∃ l r, s = .cons l Gen.encSchema_Types_StateElement r

theorem elem_shaped {E : Env} {s : Sch} (hs : IsElem s) {x : Val} (hc : canon E s x = true) : Shaped x := by
  obtain ⟨l, r, rfl⟩ := hs
  cases x with
  | pair se rest =>
    simp only [canon, Bool.and_eq_true] at hc
    obtain ⟨hse, _⟩ := hc
    unfold Gen.encSchema_Types_StateElement at hse
    cases se with
    | pair i q =>
      simp only [canon, Bool.and_eq_true] at hse
      obtain ⟨_, hq⟩ := hse
      cases q with
      | pair pr u =>
        simp only [canon, Bool.and_eq_true] at hq
        obtain ⟨hpr, _⟩ := hq
        cases pr with
        | list pv =>
          refine ⟨i, pv, u, rest, rfl, ?_⟩
          unfold Gen.encSchema_Types_Hash256 at hpr
          simp only [canon, Bool.and_eq_true, List.all_eq_true] at hpr
          intro y hy
          have := hpr.2 y hy
          cases y with
          | bytes b =>
            simp only [Atom.codec, isBytes, beq_iff_eq] at this
            exact ⟨⟨b, this⟩, rfl⟩
          | _ => simp [Atom.codec, isBytes] at this
        | _ => simp [canon, Gen.encSchema_Types_Hash256] at hpr
      | _ => simp [canon] at hq
    | _ => simp [canon] at hse
  | _ => simp [canon] at hc

theorem elem_strip_canon {E : Env} {s : Sch} (hs : IsElem s) {x : Val} (hc : canon E s x = true) :
    canon E s (stripEl x) = true := by
  unfold stripEl
  split
  · obtain ⟨i, pv, u, rest, rfl, _⟩ := elem_shaped hs hc
    obtain ⟨l, r, rfl⟩ := hs
    simp only [setProof, List.map_nil]
    simp only [canon, Bool.and_eq_true, Gen.encSchema_Types_StateElement] at hc ⊢
    obtain ⟨⟨h1, h2, h3⟩, h4⟩ := hc
    refine ⟨⟨h1, ?_, h3⟩, h4⟩
    simp [Gen.encSchema_Types_Hash256, canon, W64]
  · exact hc

/-- the traversal `t` applied to canonical values of schema `s`: its targets are shaped
    elements, and writing the stripped targets back gives a canonical value again -/
structure Typed (E : Env) (t : Trav) (s : Sch) : Prop where
  shaped : ∀ v, canon E s v = true → ∀ x ∈ t.get v, Shaped x
  strip : ∀ v, canon E s v = true → ∀ r,
    canon E s (t.put v ((t.get v).map stripEl ++ r)).1 = true ∧ (t.put v ((t.get v).map stripEl ++ r)).2 = r

theorem typed_none (E : Env) (s : Sch) : Typed E Trav.none s :=
  ⟨fun v _ x hx => by simp [Trav.none] at hx, fun v hc r => ⟨hc, rfl⟩⟩

theorem typed_here (E : Env) {s : Sch} (hs : IsElem s) : Typed E Trav.here s :=
  ⟨fun v hc x hx => by
      simp only [Trav.here, List.mem_singleton] at hx
      subst hx; exact elem_shaped hs hc,
   fun v hc r => ⟨elem_strip_canon hs hc, rfl⟩⟩

theorem typed_pair {E : Env} {t1 t2 : Trav} {s1 r1 : Sch} (lbl : String) (h1 : Typed E t1 s1) (h2 : Typed E t2 r1) :
    Typed E (Trav.pair t1 t2) (.cons lbl s1 r1) := by
  refine ⟨?_, ?_⟩
  · intro v hc x hx
    cases v with
    | pair a b =>
      simp only [canon, Bool.and_eq_true] at hc
      simp only [Trav.pair, List.mem_append] at hx
      rcases hx with hx | hx
      · exact h1.shaped a hc.1 x hx
      · exact h2.shaped b hc.2 x hx
    | _ => simp [canon] at hc
  · intro v hc r
    cases v with
    | pair a b =>
      simp only [canon, Bool.and_eq_true] at hc
      simp only [Trav.pair, List.map_append, List.append_assoc]
      obtain ⟨c1, e1⟩ := h1.strip a hc.1 ((t2.get b).map stripEl ++ r)
      obtain ⟨c2, e2⟩ := h2.strip b hc.2 r
      rw [e1]
      simp only [canon, c1, c2, Bool.and_self, e2, and_self]
    | _ => simp [canon] at hc

theorem putList_strip {E : Env} {t : Trav} {s : Sch} (h : Typed E t s) : ∀ (vs : List Val),
    (∀ v ∈ vs, canon E s v = true) → ∀ r,
    (∀ v ∈ (Trav.putList t vs ((vs.flatMap t.get).map stripEl ++ r)).1, canon E s v = true) ∧
    (Trav.putList t vs ((vs.flatMap t.get).map stripEl ++ r)).1.length = vs.length ∧
    (Trav.putList t vs ((vs.flatMap t.get).map stripEl ++ r)).2 = r := by
  intro vs
  induction vs with
  | nil => intro _ r; exact ⟨fun v hv => by simp [Trav.putList] at hv, rfl, rfl⟩
  | cons v vs ih =>
    intro hc r
    simp only [Trav.putList, List.flatMap_cons, List.map_append, List.append_assoc]
    obtain ⟨c1, e1⟩ := h.strip v (hc v (by simp)) ((vs.flatMap t.get).map stripEl ++ r)
    obtain ⟨i1, i2, i3⟩ := ih (fun x hx => hc x (List.mem_cons_of_mem _ hx)) r
    rw [e1]
    refine ⟨?_, by simp [i2], i3⟩
    intro x hx
    rcases List.mem_cons.1 hx with rfl | hx'
    · exact c1
    · exact i1 x hx'

theorem typed_list {E : Env} {t : Trav} {s : Sch} (h : Typed E t s) : Typed E (Trav.list t) (.slice s) := by
  refine ⟨?_, ?_⟩
  · intro v hc x hx
    cases v with
    | list vs =>
      simp only [canon, Bool.and_eq_true, List.all_eq_true] at hc
      simp only [Trav.list, List.mem_flatMap] at hx
      obtain ⟨v, hv, hx⟩ := hx
      exact h.shaped v (hc.2 v hv) x hx
    | _ => simp [canon] at hc
  · intro v hc r
    cases v with
    | list vs =>
      simp only [canon, Bool.and_eq_true, List.all_eq_true, decide_eq_true_eq] at hc
      obtain ⟨i1, i2, i3⟩ := putList_strip h vs hc.2 r
      simp only [Trav.list, canon, Bool.and_eq_true, List.all_eq_true, decide_eq_true_eq, i2, hc.1, true_and]
      exact ⟨i1, i3⟩
    | _ => simp [canon] at hc

/-- the list traversal keeps the number of elements (so a `len`-emptiness test is unchanged) -/
theorem list_put_length (t : Trav) (vs : List Val) (l : List Val) :
    ∃ vs', ((Trav.list t).put (.list vs) l).1 = .list vs' ∧ vs'.length = vs.length := by
  refine ⟨(Trav.putList t vs l).1, rfl, ?_⟩
  induction vs generalizing l with
  | nil => rfl
  | cons v vs ih => simp [Trav.putList, ih]

theorem typed_of_canon_eq {E E' : Env} {t : Trav} {s s' : Sch} (h : ∀ v, canon E s v = canon E' s' v)
    (ht : Typed E' t s') : Typed E t s :=
  ⟨fun v hc => ht.shaped v (by rw [← h]; exact hc),
   fun v hc r => by
     have := ht.strip v (by rw [← h]; exact hc) r
     rw [← h] at this; exact this⟩

/-! ### the environment -/

/-- the three irregular codecs the traversal passes through are the modelled ones -/
structure TxnEnv (E E2 E1 E0 : Env) : Prop where
  txn : E.ext "Types.V2Transaction" = Irregular.v2TxnCodec E2
  res : E2.ext "Types.V2FileContractResolution" = Codec.ofSch E1 Irregular.resolutionSch
  pay : E1.ext "Types.V2FileContractResolution.payload" = Irregular.resolutionPayload E0

theorem isElem_siacoin : IsElem Gen.encSchema_Types_SiacoinElement := ⟨_, _, rfl⟩
theorem isElem_siafund : IsElem Gen.encSchema_Types_SiafundElement := ⟨_, _, rfl⟩
theorem isElem_v2fc : IsElem Gen.encSchema_Types_V2FileContractElement := ⟨_, _, rfl⟩
theorem isElem_chainIndex : IsElem Gen.encSchema_Types_ChainIndexElement := ⟨_, _, rfl⟩

/-- the payload of a resolution: for a storage proof (tag 1) the proof index is visited -/
theorem typed_payload {E1 E0 : Env} (hp : E1.ext "Types.V2FileContractResolution.payload" = Irregular.resolutionPayload E0) :
    Typed E1 (Trav.tagged 1 (Trav.pair Trav.here Trav.none)) (.ext "Types.V2FileContractResolution.payload") := by
  have hsp : Typed E0 (Trav.pair Trav.here Trav.none) Gen.encSchema_Types_V2StorageProof :=
    typed_pair _ (typed_here E0 isElem_chainIndex) (typed_none E0 _)
  have hcanon : ∀ v, canon E1 (.ext "Types.V2FileContractResolution.payload") v = (Irregular.resolutionPayload E0).canon v := by
    intro v; simp only [canon, hp]
  refine ⟨?_, ?_⟩
  · intro v hc x hx
    rw [hcanon] at hc
    match v, hc, hx with
    | .pair (.nat k) y, hc, hx =>
      by_cases hk : k = 1
      · subst hk
        simp only [Irregular.resolutionPayload, Codec.tagged, findTag, Bool.and_eq_true] at hc
        simp only [Trav.tagged, if_true] at hx
        exact hsp.shaped y (by simpa [Codec.ofSch] using hc.2) x hx
      · simp only [Trav.tagged, hk, if_false] at hx
        simp at hx
  · intro v hc r
    have hc0 := hc
    rw [hcanon] at hc
    match v, hc, hc0 with
    | .pair (.nat k) y, hc, hc0 =>
      by_cases hk : k = 1
      · subst hk
        simp only [Irregular.resolutionPayload, Codec.tagged, findTag, Bool.and_eq_true] at hc
        obtain ⟨c1, e1⟩ := hsp.strip y (by simpa [Codec.ofSch] using hc.2) r
        simp only [Trav.tagged, if_true]
        refine ⟨?_, e1⟩
        rw [hcanon]
        simp only [Irregular.resolutionPayload, Codec.tagged, findTag, Bool.and_eq_true]
        exact ⟨hc.1, by simpa [Codec.ofSch] using c1⟩
      · simp only [Trav.tagged, hk, if_false, List.map_nil, List.nil_append]
        exact ⟨hc0, trivial⟩

/-- one resolution -/
theorem typed_resolution {E2 E1 E0 : Env}
    (hr : E2.ext "Types.V2FileContractResolution" = Codec.ofSch E1 Irregular.resolutionSch)
    (hp : E1.ext "Types.V2FileContractResolution.payload" = Irregular.resolutionPayload E0) :
    Typed E2 resolutionParents (.ext "Types.V2FileContractResolution") := by
  have h1 : Typed E1 resolutionParents Irregular.resolutionSch := by
    unfold resolutionParents Irregular.resolutionSch Sch.seq
    exact typed_pair _ (typed_here E1 isElem_v2fc) (typed_pair _ (typed_payload hp) (typed_none E1 _))
  exact typed_of_canon_eq (fun v => by simp only [canon, hr, Codec.ofSch]) h1

/-! ### one transaction -/

/-- the bitmap codec's condition on one field value -/
def fieldOK (f : BitField) (v : Val) : Prop :=
  v = .none ∨ ∃ x, v = .some x ∧ f.c.canon x = true ∧ f.isZero x = false

theorem canonFields_cons {f : BitField} {fs : List BitField} {vs : List Val} (h : canonFields (f :: fs) vs = true) :
    ∃ v vs', vs = v :: vs' ∧ fieldOK f v ∧ canonFields fs vs' = true := by
  cases vs with
  | nil => simp [canonFields] at h
  | cons v vs' =>
    simp only [canonFields, Bool.and_eq_true] at h
    refine ⟨v, vs', rfl, ?_, h.2⟩
    cases v with
    | none => exact Or.inl rfl
    | some x =>
      have := h.1
      simp only [Bool.and_eq_true, Bool.not_eq_true'] at this
      exact Or.inr ⟨x, rfl, this.1, this.2⟩
    | _ => simp at h

theorem canonFields_cons_iff {f : BitField} {fs : List BitField} {v : Val} {vs : List Val}
    (hv : fieldOK f v) (hr : canonFields fs vs = true) : canonFields (f :: fs) (v :: vs) = true := by
  simp only [canonFields, Bool.and_eq_true]
  refine ⟨?_, hr⟩
  rcases hv with rfl | ⟨x, rfl, h1, h2⟩
  · rfl
  · simp [h1, h2]

/-- a slice field whose elements are traversed by `P` -/
theorem field_step {E2 : Env} {P : Trav} {S : Sch} (hP : Typed E2 P S) {v : Val}
    (hv : fieldOK { c := Codec.ofSch E2 (.slice S), isZero := isZeroVal .len } v) :
    (∀ x ∈ (Trav.some (Trav.list P)).get v, Shaped x) ∧
    ∀ r, fieldOK { c := Codec.ofSch E2 (.slice S), isZero := isZeroVal .len }
        ((Trav.some (Trav.list P)).put v (((Trav.some (Trav.list P)).get v).map stripEl ++ r)).1 ∧
      ((Trav.some (Trav.list P)).put v (((Trav.some (Trav.list P)).get v).map stripEl ++ r)).2 = r := by
  have hl := typed_list hP
  rcases hv with rfl | ⟨x, rfl, h1, h2⟩
  · exact ⟨fun x hx => by simp [Trav.some] at hx, fun r => ⟨Or.inl rfl, rfl⟩⟩
  · have hc : canon E2 (.slice S) x = true := by simpa [Codec.ofSch] using h1
    refine ⟨fun y hy => hl.shaped x hc y (by simpa [Trav.some] using hy), ?_⟩
    intro r
    obtain ⟨c1, e1⟩ := hl.strip x hc r
    simp only [Trav.some]
    refine ⟨Or.inr ⟨_, rfl, by simpa [Codec.ofSch] using c1, ?_⟩, e1⟩
    cases x with
    | list xs =>
      obtain ⟨xs', e, hlen⟩ := list_put_length P xs (((Trav.list P).get (.list xs)).map stripEl ++ r)
      rw [e]
      simp only [isZeroVal] at h2 ⊢
      cases xs <;> cases xs' <;> simp_all
    | _ => simp [canon] at hc

/-- a field the traversal does not enter -/
theorem field_none (f : BitField) {v : Val} (hv : fieldOK f v) (r : List Val) :
    fieldOK f (Trav.none.put v ((Trav.none.get v).map stripEl ++ r)).1 ∧
      (Trav.none.put v ((Trav.none.get v).map stripEl ++ r)).2 = r := ⟨hv, rfl⟩

theorem typed_txn {E E2 E1 E0 : Env} (h : TxnEnv E E2 E1 E0) : Typed E txnParents (.ext "Types.V2Transaction") := by
  have P0 : Typed E2 parentOf Gen.encSchema_Types_V2SiacoinInput := by
    unfold parentOf Gen.encSchema_Types_V2SiacoinInput
    exact typed_pair _ (typed_here E2 isElem_siacoin) (typed_none E2 _)
  have P2 : Typed E2 parentOf Gen.encSchema_Types_V2SiafundInput := by
    unfold parentOf Gen.encSchema_Types_V2SiafundInput
    exact typed_pair _ (typed_here E2 isElem_siafund) (typed_none E2 _)
  have P5 : Typed E2 parentOf Gen.encSchema_Types_V2FileContractRevision := by
    unfold parentOf Gen.encSchema_Types_V2FileContractRevision
    exact typed_pair _ (typed_here E2 isElem_v2fc) (typed_none E2 _)
  have P6 := typed_resolution h.res h.pay
  have hcanon : ∀ v, canon E (.ext "Types.V2Transaction") v = (Irregular.v2TxnCodec E2).canon v := by
    intro v; simp only [canon, h.txn]
  -- the shape of a canonical transaction: exactly the eleven generated fields
  have hshape : ∀ v, canon E (.ext "Types.V2Transaction") v = true →
      ∃ v0 v1 v2 v3 v4 v5 v6 v7 v8 v9 v10, v = .list [v0, v1, v2, v3, v4, v5, v6, v7, v8, v9, v10] ∧
        fieldOK { c := Codec.ofSch E2 (.slice Gen.encSchema_Types_V2SiacoinInput), isZero := isZeroVal .len } v0 ∧
        fieldOK { c := Codec.ofSch E2 (.slice Gen.encSchema_Types_V2SiafundInput), isZero := isZeroVal .len } v2 ∧
        fieldOK { c := Codec.ofSch E2 (.slice Gen.encSchema_Types_V2FileContractRevision), isZero := isZeroVal .len } v5 ∧
        fieldOK { c := Codec.ofSch E2 (.slice (.ext "Types.V2FileContractResolution")), isZero := isZeroVal .len } v6 ∧
        ∀ w0 w2 w5 w6,
          fieldOK { c := Codec.ofSch E2 (.slice Gen.encSchema_Types_V2SiacoinInput), isZero := isZeroVal .len } w0 →
          fieldOK { c := Codec.ofSch E2 (.slice Gen.encSchema_Types_V2SiafundInput), isZero := isZeroVal .len } w2 →
          fieldOK { c := Codec.ofSch E2 (.slice Gen.encSchema_Types_V2FileContractRevision), isZero := isZeroVal .len } w5 →
          fieldOK { c := Codec.ofSch E2 (.slice (.ext "Types.V2FileContractResolution")), isZero := isZeroVal .len } w6 →
          canon E (.ext "Types.V2Transaction") (.list [w0, v1, w2, v3, v4, w5, w6, v7, v8, v9, v10]) = true := by
    intro v hc
    rw [hcanon] at hc
    cases v with
    | list vs =>
      simp only [Irregular.v2TxnCodec, Codec.bitmap, Bool.and_eq_true] at hc
      obtain ⟨⟨hver, hlen⟩, hf⟩ := hc
      simp only [Irregular.v2TxnBitFields, Gen.v2TxnFieldsEnc, List.map] at hf
      obtain ⟨v0, r0, rfl, f0, hf⟩ := canonFields_cons hf
      obtain ⟨v1, r1, rfl, f1, hf⟩ := canonFields_cons hf
      obtain ⟨v2, r2, rfl, f2, hf⟩ := canonFields_cons hf
      obtain ⟨v3, r3, rfl, f3, hf⟩ := canonFields_cons hf
      obtain ⟨v4, r4, rfl, f4, hf⟩ := canonFields_cons hf
      obtain ⟨v5, r5, rfl, f5, hf⟩ := canonFields_cons hf
      obtain ⟨v6, r6, rfl, f6, hf⟩ := canonFields_cons hf
      obtain ⟨v7, r7, rfl, f7, hf⟩ := canonFields_cons hf
      obtain ⟨v8, r8, rfl, f8, hf⟩ := canonFields_cons hf
      obtain ⟨v9, r9, rfl, f9, hf⟩ := canonFields_cons hf
      obtain ⟨v10, r10, rfl, f10, hf⟩ := canonFields_cons hf
      have : r10 = [] := by cases r10 <;> simp_all [canonFields]
      subst this
      refine ⟨v0, v1, v2, v3, v4, v5, v6, v7, v8, v9, v10, rfl, f0, f2, f5, f6, ?_⟩
      intro w0 w2 w5 w6 g0 g2 g5 g6
      rw [hcanon]
      simp only [Irregular.v2TxnCodec, Codec.bitmap, Bool.and_eq_true]
      refine ⟨⟨hver, hlen⟩, ?_⟩
      simp only [Irregular.v2TxnBitFields, Gen.v2TxnFieldsEnc, List.map]
      exact canonFields_cons_iff g0 (canonFields_cons_iff f1 (canonFields_cons_iff g2 (canonFields_cons_iff f3
        (canonFields_cons_iff f4 (canonFields_cons_iff g5 (canonFields_cons_iff g6 (canonFields_cons_iff f7
        (canonFields_cons_iff f8 (canonFields_cons_iff f9 (canonFields_cons_iff f10 hf))))))))))
    | _ => simp [Irregular.v2TxnCodec, Codec.bitmap] at hc
  refine ⟨?_, ?_⟩
  · intro v hc x hx
    obtain ⟨v0, v1, v2, v3, v4, v5, v6, v7, v8, v9, v10, rfl, f0, f2, f5, f6, _⟩ := hshape v hc
    simp only [txnParents, Trav.fields, Trav.getFields, List.mem_append] at hx
    rcases hx with hx | hx | hx | hx | hx | hx | hx | hx
    · exact (field_step P0 f0).1 x hx
    · simp [Trav.none] at hx
    · exact (field_step P2 f2).1 x hx
    · simp [Trav.none] at hx
    · simp [Trav.none] at hx
    · exact (field_step P5 f5).1 x hx
    · exact (field_step P6 f6).1 x hx
    · simp at hx
  · intro v hc r
    obtain ⟨v0, v1, v2, v3, v4, v5, v6, v7, v8, v9, v10, rfl, f0, f2, f5, f6, hback⟩ := hshape v hc
    simp only [txnParents, Trav.fields, Trav.getFields, Trav.putFields, Trav.none, List.nil_append, List.append_nil,
      List.map_append, List.append_assoc]
    obtain ⟨a0, e0⟩ := (field_step P0 f0).2
      (((Trav.some (Trav.list parentOf)).get v2).map stripEl ++ (((Trav.some (Trav.list parentOf)).get v5).map stripEl ++
        (((Trav.some (Trav.list resolutionParents)).get v6).map stripEl ++ r)))
    obtain ⟨a2, e2⟩ := (field_step P2 f2).2
      (((Trav.some (Trav.list parentOf)).get v5).map stripEl ++ (((Trav.some (Trav.list resolutionParents)).get v6).map stripEl ++ r))
    obtain ⟨a5, e5⟩ := (field_step P5 f5).2 (((Trav.some (Trav.list resolutionParents)).get v6).map stripEl ++ r)
    obtain ⟨a6, e6⟩ := (field_step P6 f6).2 r
    rw [e0, e2, e5, e6]
    exact ⟨hback _ _ _ _ a0 a2 a5 a6, rfl⟩

/-- **Canonicity along the traversal.** -/
theorem typed_txns {E E2 E1 E0 : Env} (h : TxnEnv E E2 E1 E0) :
    Typed E txnsParents (.slice (.ext "Types.V2Transaction")) := typed_list (typed_txn h)

/-- the schema of a slice of v2 transactions -/
abbrev txnsSchema : Sch := .slice (.ext "Types.V2Transaction")

/-- (1) a canonical transaction set is well shaped -/
theorem goodTxns_of_canon {E E2 E1 E0 : Env} (h : TxnEnv E E2 E1 E0) {t : Val} (hc : Canon E txnsSchema t) : GoodTxns t :=
  fun el hel _ => (typed_txns h).shaped t hc el hel

/-- (2) the stripped set of a canonical transaction set is canonical -/
theorem strip_canon {E E2 E1 E0 : Env} (h : TxnEnv E E2 E1 E0) (eh : Nat → Val → Hash32)
    (encP : Val → Bytes) (decP : Bytes → Except DecErr (Val × Bytes)) {t : Val} (hc : Canon E txnsSchema t) :
    Canon E txnsSchema ((valOps eh encP decP).strip t) := by
  have hs := ((typed_txns h).strip t hc []).1
  rw [List.append_nil] at hs
  simp only [TxSetOps.strip, valOps, leavesOfEls]
  have : ((leavesFrom eh 0 (txnsParents.get t)).map fun _ => ([] : List Hash32)) =
      List.replicate (nvis (txnsParents.get t)) [] := by
    rw [← leavesFrom_length eh (txnsParents.get t) 0]
    exact List.map_const'
  rw [this, setProofsEls_nils _ _ (Nat.le_refl _)]
  exact hs

/-- the environment of the codec model satisfies `TxnEnv` -/
theorem irregular_txnEnv : TxnEnv Irregular.env Irregular.env2 Irregular.env1 Irregular.envP :=
  ⟨by simp [Irregular.env, Env.with], by simp [Irregular.env2, Env.with], by simp [Irregular.env1, Env.with]⟩

end Sia.Multiproof
