import SiaProofs.Lemmas.MerkleRhpLeaf
/-!
  Helper lemmas for C16, part 10: `BuildProof`'s recursive halving emits the same hashes
  as the left-to-right walk of `BuildSectorRangeProof`.
-/
set_option linter.unusedVariables false
set_option linter.unusedSectionVars false
namespace Sia.Rhp
open HashOps

variable {H : Type} [HashOps H]

/-- a subtree that fits below the bound is taken whole -/
theorem nss_of_fits {y J : Nat} (h0 : 0 < y) (hfit : y + 2 ^ tz y ≤ J) : nextSubtreeSize y J = 2 ^ tz y := by
  have hp := Nat.two_pow_pos (tz y)
  have h2 : tz y ≤ (J - y).log2 := (Nat.le_log2 (by omega)).2 (by omega)
  unfold nextSubtreeSize
  simp only
  have h3 : ¬ (tz y > (J - y).log2) := by omega
  have hy : y ≠ 0 := by omega
  simp [hy, h3]

/-- inside an aligned block `[i, i + 2^f)` an aligned subtree never crosses the block's end -/
theorem block_step {f i y : Nat} (hal : 2 ^ f ∣ i) (h1 : i < y) (h2 : y < i + 2 ^ f) :
    y + 2 ^ tz y ≤ i + 2 ^ f := by
  have hy : y ≠ 0 := by omega
  have htf : tz y < f := by
    apply Nat.lt_of_not_le
    intro hge
    have d1 : 2 ^ f ∣ y := Nat.dvd_trans (Nat.pow_dvd_pow 2 hge) (tz_dvd hy)
    have d2 : 2 ^ f ∣ y - i := Nat.dvd_sub d1 hal
    have := Nat.le_of_dvd (by omega) d2
    omega
  have d0 : 2 ^ tz y ∣ 2 ^ f := Nat.pow_dvd_pow 2 (by omega)
  have d1 : 2 ^ tz y ∣ i + 2 ^ f := Nat.dvd_add (Nat.dvd_trans d0 hal) d0
  have d2 : 2 ^ tz y ∣ i + 2 ^ f - y := Nat.dvd_sub d1 (tz_dvd hy)
  have := Nat.le_of_dvd (by omega) d2
  omega

/-- at the start of an aligned block the whole block is the next subtree -/
theorem nss_block_start {f i : Nat} (hal : 2 ^ f ∣ i) : nextSubtreeSize i (i + 2 ^ f) = 2 ^ f := by
  unfold nextSubtreeSize
  have e1 : i + 2 ^ f - i = 2 ^ f := by omega
  simp only [e1, Nat.log2_two_pow]
  by_cases h0 : i = 0
  · simp [h0]
  · have : f ≤ tz i := (pow_dvd_iff_le_tz f i h0).1 hal
    by_cases h1 : tz i > f
    · simp [h1]
    · have : tz i = f := by omega
      simp [h0, this]

/-- … and if the bound lies strictly inside the upper half, the lower half is the next subtree -/
theorem nss_block_lower {f i s : Nat} (hal : 2 ^ (f + 1) ∣ i) (h1 : i + 2 ^ f < s) (h2 : s < i + 2 ^ (f + 1)) :
    nextSubtreeSize i s = 2 ^ f := by
  rw [two_pow_succ'] at h2
  have hp := Nat.two_pow_pos f
  have hlog : (s - i).log2 = f := by
    rw [Nat.log2_eq_iff (by omega), two_pow_succ']; omega
  unfold nextSubtreeSize
  simp only [hlog]
  by_cases h0 : i = 0
  · simp [h0]
  · have : f + 1 ≤ tz i := (pow_dvd_iff_le_tz (f + 1) i h0).1 hal
    have : tz i > f := by omega
    simp [this]

theorem buildRange_single (ls : List H) {f i : Nat} (hal : 2 ^ f ∣ i) (hn : i + 2 ^ f ≤ ls.length) :
    buildRange ls i (i + 2 ^ f) = [metaRoot ((ls.drop i).take (2 ^ f))] := by
  have hp := Nat.two_pow_pos f
  rw [buildRange_step ls i (i + 2 ^ f) ⟨by omega, by omega⟩, nss_block_start hal]
  have hnc : ¬ (i + 2 ^ f > ls.length) := by omega
  simp only [hnc, if_false]
  rw [buildRange_done ls (i + 2 ^ f) (i + 2 ^ f) (by omega)]

/-- a walk can be cut at any point it is guaranteed to stop at -/
theorem buildRange_split (ls : List H) (m j : Nat) (hmj : m ≤ j) (hj : j ≤ ls.length)
    (hsame : ∀ y, y < m → nextSubtreeSize y j = nextSubtreeSize y m) :
    ∀ (d x : Nat), m - x = d → x ≤ m →
      buildRange ls x j = buildRange ls x m ++ buildRange ls m j := by
  intro d
  induction d using Nat.strongRecOn with
  | _ d ih =>
    intro x hd hxm
    by_cases hlt : x < m
    · obtain ⟨k, hk, hdvd, hle⟩ := nss_spec hlt
      have hp := Nat.two_pow_pos k
      have hkj : nextSubtreeSize x j = 2 ^ k := by rw [hsame x hlt, hk]
      rw [buildRange_step ls x j ⟨by omega, by omega⟩, buildRange_step ls x m ⟨hlt, by omega⟩, hkj, hk]
      have hnc : ¬ (x + 2 ^ k > ls.length) := by omega
      simp only [hnc, if_false, List.cons_append]
      rw [ih (m - (x + 2 ^ k)) (by omega) (x + 2 ^ k) rfl hle]
    · have : x = m := by omega
      subst this
      rw [buildRange_done ls x x (by omega)]
      simp

/-- in a power-of-two tree the right-hand walk does not depend on the (large enough) bound -/
theorem buildRange_bound_pow2 (ls : List H) (k : Nat) (hlen : ls.length = 2 ^ k) (J : Nat)
    (hJ : 2 * (ls.length - 1) ≤ J) :
    ∀ (d x : Nat), ls.length - x = d → 0 < x → buildRange ls x J = buildRange ls x ls.length := by
  intro d
  induction d using Nat.strongRecOn with
  | _ d ih =>
    intro x hd hx0
    by_cases hlt : x < ls.length
    · have hs := pow2_step hx0 (by rw [← hlen]; exact hlt)
      rw [← hlen] at hs
      have hp := Nat.two_pow_pos (tz x)
      have e1 : nextSubtreeSize x J = 2 ^ tz x := nss_big hx0 (by omega)
      have e2 : nextSubtreeSize x ls.length = 2 ^ tz x := nss_of_fits hx0 hs
      rw [buildRange_step ls x J ⟨by omega, hlt⟩, buildRange_step ls x ls.length ⟨hlt, hlt⟩, e1, e2]
      have hnc : ¬ (x + 2 ^ tz x > ls.length) := by omega
      simp only [hnc, if_false]
      rw [ih (ls.length - (x + 2 ^ tz x)) (by omega) _ rfl (by omega)]
    · rw [buildRange_done ls x J (by omega), buildRange_done ls x ls.length (by omega)]

theorem buildProofRec_unfold (ls : List H) (s e fuel i j : Nat) :
    buildProofRec ls s e fuel i j =
      if i ≥ s ∧ j ≤ e then []
      else if j ≤ s ∨ i ≥ e then [metaRoot ((ls.drop i).take (j - i))]
      else match fuel with
        | 0 => []
        | f + 1 => buildProofRec ls s e f i ((i + j) / 2) ++ buildProofRec ls s e f ((i + j) / 2) j := by
  cases fuel <;> rw [buildProofRec]

/-- the recursion of `BuildProof` on an aligned block = the left-to-right walks restricted to it -/
theorem buildProofRec_eq (ls : List H) (s e : Nat) (hse : s < e) :
    ∀ (f i : Nat), 2 ^ f ∣ i → i + 2 ^ f ≤ ls.length →
      buildProofRec ls s e f i (i + 2 ^ f) =
        buildRange ls i (min s (i + 2 ^ f)) ++ buildRange ls (max e i) (i + 2 ^ f) := by
  intro f
  induction f with
  | zero =>
    intro i hal hn
    rw [buildProofRec_unfold]
    simp only [Nat.pow_zero] at hn ⊢
    by_cases hA : i ≥ s ∧ i + 1 ≤ e
    · simp only [hA, and_self, if_true]
      rw [buildRange_done ls i (min s (i + 1)) (by omega), buildRange_done ls (max e i) (i + 1) (by omega)]; rfl
    · simp only [hA, if_false]
      have hB : i + 1 ≤ s ∨ i ≥ e := by omega
      simp only [hB, if_true]
      have e1 : i + 1 - i = 1 := by omega
      rw [e1]
      cases hB with
      | inl hl =>
        rw [Nat.min_eq_right hl, buildRange_done ls (max e i) (i + 1) (by omega), List.append_nil]
        have := buildRange_single ls (f := 0) (i := i) (by simp) (by simpa using hn)
        simpa using this.symm
      | inr hr =>
        rw [buildRange_done ls i (min s (i + 1)) (by omega), Nat.max_eq_right (by omega), List.nil_append]
        have := buildRange_single ls (f := 0) (i := i) (by simp) (by simpa using hn)
        simpa using this.symm
  | succ f ih =>
    intro i hal hn
    have hp := Nat.two_pow_pos f
    have h2 : 2 ^ (f + 1) = 2 * 2 ^ f := two_pow_succ' f
    have half : 2 ^ f ∣ i := Nat.dvd_trans (Nat.pow_dvd_pow 2 (by omega)) hal
    have hmidal : 2 ^ f ∣ i + 2 ^ f := Nat.dvd_add half (Nat.dvd_refl _)
    rw [buildProofRec_unfold]
    by_cases hA : i ≥ s ∧ i + 2 ^ (f + 1) ≤ e
    · simp only [hA, and_self, if_true]
      rw [buildRange_done ls i (min s (i + 2 ^ (f + 1))) (by omega), buildRange_done ls (max e i) (i + 2 ^ (f + 1)) (by omega)]; rfl
    · simp only [hA, if_false]
      by_cases hB : i + 2 ^ (f + 1) ≤ s ∨ i ≥ e
      · simp only [hB, if_true]
        have e1 : i + 2 ^ (f + 1) - i = 2 ^ (f + 1) := by omega
        rw [e1]
        cases hB with
        | inl hl =>
          rw [Nat.min_eq_right hl, buildRange_done ls (max e i) (i + 2 ^ (f + 1)) (by omega), List.append_nil]
          exact (buildRange_single ls hal hn).symm
        | inr hr =>
          rw [buildRange_done ls i (min s (i + 2 ^ (f + 1))) (by omega), Nat.max_eq_right (by omega), List.nil_append]
          exact (buildRange_single ls hal hn).symm
      · simp only [hB, if_false]
        have hs : s < i + 2 ^ (f + 1) := by omega
        have he : i < e := by omega
        have emid : (i + (i + 2 ^ (f + 1))) / 2 = i + 2 ^ f := by omega
        have ej : i + 2 ^ (f + 1) = (i + 2 ^ f) + 2 ^ f := by omega
        rw [emid]
        rw [ih i half (by omega)]
        have := ih (i + 2 ^ f) hmidal (by omega)
        rw [← ej] at this
        rw [this]
        have emin : min s (i + 2 ^ (f + 1)) = s := Nat.min_eq_left (Nat.le_of_lt hs)
        have emax : max e i = e := Nat.max_eq_left (Nat.le_of_lt he)
        simp only [emin, emax]
        -- left walks
        have hL : buildRange ls i (min s (i + 2 ^ f)) ++ buildRange ls (i + 2 ^ f) s
            = buildRange ls i s ∧
            (buildRange ls (i + 2 ^ f) s = [] ∨ buildRange ls e (i + 2 ^ f) = []) := by
          by_cases hsm : s ≤ i + 2 ^ f
          · rw [Nat.min_eq_left hsm, buildRange_done ls (i + 2 ^ f) s (by omega)]
            exact ⟨by simp, Or.inl rfl⟩
          · rw [Nat.min_eq_right (by omega)]
            refine ⟨?_, Or.inr ?_⟩
            · rw [buildRange_single ls half (by omega)]
              rw [buildRange_step ls i s ⟨by omega, by omega⟩, nss_block_lower hal (by omega) hs]
              have hnc : ¬ (i + 2 ^ f > ls.length) := by omega
              simp [hnc]
            · rw [buildRange_done ls e (i + 2 ^ f) (by omega)]
        -- right walks
        have hR : buildRange ls e (i + 2 ^ f) ++ buildRange ls (max e (i + 2 ^ f)) (i + 2 ^ (f + 1))
            = buildRange ls e (i + 2 ^ (f + 1)) := by
          by_cases hem : e ≥ i + 2 ^ f
          · rw [buildRange_done ls e (i + 2 ^ f) (by omega), Nat.max_eq_left hem]; simp
          · rw [Nat.max_eq_right (by omega)]
            have hsplit := buildRange_split ls (i + 2 ^ f) (i + 2 ^ (f + 1)) (by omega) hn
            -- every step below the midpoint is the same under both bounds, as long as it starts above i
            have key : ∀ (d x : Nat), i + 2 ^ f - x = d → i < x → x ≤ i + 2 ^ f →
                buildRange ls x (i + 2 ^ (f + 1)) = buildRange ls x (i + 2 ^ f)
                  ++ buildRange ls (i + 2 ^ f) (i + 2 ^ (f + 1)) := by
              intro d
              induction d using Nat.strongRecOn with
              | _ d ihd =>
                intro x hd hix hxm
                by_cases hlt : x < i + 2 ^ f
                · have hfit := block_step half hix hlt
                  have hpx := Nat.two_pow_pos (tz x)
                  have e1 : nextSubtreeSize x (i + 2 ^ (f + 1)) = 2 ^ tz x := nss_of_fits (by omega) (by omega)
                  have e2 : nextSubtreeSize x (i + 2 ^ f) = 2 ^ tz x := nss_of_fits (by omega) hfit
                  rw [buildRange_step ls x _ ⟨by omega, by omega⟩,
                    buildRange_step ls x (i + 2 ^ f) ⟨hlt, by omega⟩, e1, e2]
                  have hnc : ¬ (x + 2 ^ tz x > ls.length) := by omega
                  simp only [hnc, if_false, List.cons_append]
                  rw [ihd (i + 2 ^ f - (x + 2 ^ tz x)) (by omega) _ rfl (by omega) hfit]
                · have : x = i + 2 ^ f := by omega
                  subst this
                  rw [buildRange_done ls _ (i + 2 ^ f) (by omega)]; simp
            exact (key _ e rfl he (by omega)).symm
        obtain ⟨hL1, hL2⟩ := hL
        rw [← hL1, ← hR]
        cases hL2 with
        | inl h => rw [h]; simp
        | inr h => rw [h]; simp

end Sia.Rhp
