import SiaProofs.Lemmas.LedgerC01V2
/-!
# C01 helper lemmas, part 9: what `validateV2Transaction` establishes
-/
namespace Sia.Ledger

-- ------------------------------------------------------------------ generic fold inversions

/-- a fold that conses a key onto a "seen" list after checking it is new -/
theorem seen_fold {α : Type} (f : List Id → α → VM (List Id)) (key : α → Id) (P : α → Prop)
    (hstep : ∀ seen x seen', f seen x = .ok seen' → seen' = key x :: seen ∧ key x ∉ seen ∧ P x) :
    ∀ (l : List α) (seen0 seen : List Id), l.foldlM f seen0 = .ok seen →
      (∀ x ∈ l, P x) ∧ (l.map key).Nodup ∧ (∀ x ∈ l, key x ∉ seen0) ∧ seen = (l.map key).reverse ++ seen0 := by
  intro l
  induction l with
  | nil => intro s0 s h; simp only [List.foldlM_nil] at h; cases h; simp
  | cons a l ih =>
    intro s0 s h
    rw [List.foldlM_cons, bind_eq_ok] at h
    obtain ⟨s1, h1, h2⟩ := h
    obtain ⟨e1, n1, p1⟩ := hstep _ _ _ h1
    obtain ⟨hp, hn, hns, hs⟩ := ih _ _ h2
    subst e1
    refine ⟨?_, ?_, ?_, ?_⟩
    · intro x hx; rcases List.mem_cons.mp hx with rfl | hx
      · exact p1
      · exact hp x hx
    · simp only [List.map_cons, List.nodup_cons]
      refine ⟨?_, hn⟩
      intro hm
      obtain ⟨y, hy, hky⟩ := List.mem_map.mp hm
      exact hns y hy (hky ▸ List.mem_cons_self)
    · intro x hx; rcases List.mem_cons.mp hx with rfl | hx
      · exact n1
      · exact fun hm => hns x hx (List.mem_cons_of_mem _ hm)
    · rw [hs]; simp

theorem foldlM_sum {α : Type} (f : Cur → α → VM Cur) (g : α → Nat)
    (hstep : ∀ s x r, f s x = .ok r → r = s + g x) :
    ∀ (l : List α) (s0 r : Cur), l.foldlM f s0 = .ok r → r = s0 + (l.map g).sum := by
  intro l
  induction l with
  | nil => intro s0 r h; simp only [List.foldlM_nil] at h; cases h; simp
  | cons a l ih =>
    intro s0 r h
    rw [List.foldlM_cons, bind_eq_ok] at h
    obtain ⟨s1, h1, h2⟩ := h
    rw [ih _ _ h2, hstep _ _ _ h1]; simp [Nat.add_assoc]

theorem foldlM_sum2 {α : Type} (f : Cur × Cur → α → VM (Cur × Cur)) (g1 g2 : α → Nat)
    (hstep : ∀ s x r, f s x = .ok r → r.1 = s.1 + g1 x ∧ r.2 = s.2 + g2 x) :
    ∀ (l : List α) (s0 r : Cur × Cur), l.foldlM f s0 = .ok r →
      r.1 = s0.1 + (l.map g1).sum ∧ r.2 = s0.2 + (l.map g2).sum := by
  intro l
  induction l with
  | nil => intro s0 r h; simp only [List.foldlM_nil] at h; cases h; simp
  | cons a l ih =>
    intro s0 r h
    rw [List.foldlM_cons, bind_eq_ok] at h
    obtain ⟨s1, h1, h2⟩ := h
    obtain ⟨a1, a2⟩ := ih _ _ h2
    obtain ⟨b1, b2⟩ := hstep _ _ _ h1
    rw [a1, a2, b1, b2]; simp [Nat.add_assoc]

theorem foldl_modsum {α : Type} (g : α → Nat) (M : Nat) (l : List α) (s0 : Nat) :
    l.foldl (fun s x => (s + g x) % M) s0 % M = (s0 + (l.map g).sum) % M := by
  induction l generalizing s0 with
  | nil => simp
  | cons a l ih =>
    simp only [List.foldl_cons, List.map_cons, List.sum_cons]
    rw [ih]
    rw [Nat.add_mod, Nat.mod_mod, ← Nat.add_mod, Nat.add_assoc]

theorem foldlM_modsum {α : Type} (f : Nat → α → VM Nat) (g : α → Nat) (M : Nat)
    (hstep : ∀ s x r, f s x = .ok r → r = (s + g x) % M) :
    ∀ (l : List α) (s0 r : Nat), l.foldlM f s0 = .ok r → r % M = (s0 + (l.map g).sum) % M := by
  intro l
  induction l with
  | nil => intro s0 r h; simp only [List.foldlM_nil] at h; cases h; simp
  | cons a l ih =>
    intro s0 r h
    rw [List.foldlM_cons, bind_eq_ok] at h
    obtain ⟨s1, h1, h2⟩ := h
    rw [ih _ _ h2, hstep _ _ _ h1]
    simp only [List.map_cons, List.sum_cons]
    rw [Nat.add_mod, Nat.mod_mod, ← Nat.add_mod, Nat.add_assoc]

theorem forIn_unit_ok {α : Type} (chk : α → VM Unit) (l : List α)
    (h : (forIn l PUnit.unit fun x _ => (do chk x; pure (ForInStep.yield PUnit.unit) : VM (ForInStep PUnit))) = .ok PUnit.unit) :
    ∀ x ∈ l, chk x = .ok () := by
  induction l with
  | nil => intro x hx; cases hx
  | cons a l ih =>
    rw [List.forIn_cons, bind_eq_ok] at h
    obtain ⟨st, h1, h2⟩ := h
    rw [bind_eq_ok] at h1
    obtain ⟨u, hu, h1⟩ := h1
    cases h1
    intro x hx
    rcases List.mem_cons.mp hx with rfl | hx
    · exact hu
    · exact ih h2 x hx

-- ------------------------------------------------------------------ validateV2Transaction

theorem validateV2Transaction_ok {ms : Mid} {t : Txn2} {mw : Nat} (h : validateV2Transaction ms t mw = .ok ()) :
    validateV2Siacoins ms t = .ok () ∧ validateV2Siafunds ms t = .ok () ∧ validateV2FileContracts ms t = .ok () := by
  unfold validateV2Transaction at h
  simp only [] at h
  split at h
  · rw [bind_eq_ok] at h; obtain ⟨_, hr, _⟩ := h; cases hr
  · rw [bind_eq_ok] at h; obtain ⟨_, _, h⟩ := h
    rw [bind_eq_ok] at h; obtain ⟨_, _, h⟩ := h
    split at h
    · rw [bind_eq_ok] at h; obtain ⟨_, hr, _⟩ := h; cases hr
    · split at h
      · rw [bind_eq_ok] at h; obtain ⟨_, hr, _⟩ := h; cases hr
      · rw [bind_eq_ok] at h; obtain ⟨_, h1, h⟩ := h
        rw [bind_eq_ok] at h; obtain ⟨_, h2, h⟩ := h
        rw [bind_eq_ok] at h; obtain ⟨_, h3, h⟩ := h
        exact ⟨h1, h2, h3⟩

/-- the per-input checks of `validateV2Siacoins` -/
def ScIn2Ok (ms : Mid) (sci : ScIn2) : Prop :=
  ms.isSpent sci.parent.id = false ∧ sci.parent.maturity ≤ ms.base.child ∧
  match sci.parent.leaf with
  | none => validateEphemeralSc ms sci = .ok ()
  | some _ => ms.base.hasSc sci.parent = true

def resRoll (r : Resolution2) : Nat :=
  match r.res with
  | .renewal rn => rn.renterRollover + rn.hostRollover
  | _ => 0

def resCost (r : Resolution2) : Nat :=
  match r.res with
  | .renewal rn => rn.newContract.val + rn.newContract.val / 25
  | _ => 0

theorem validateV2Siacoins_ok {ms : Mid} {t : Txn2} (h : validateV2Siacoins ms t = .ok ()) :
    (∀ sci ∈ t.scIns, ScIn2Ok ms sci) ∧ (t.scIns.map (·.parent.id)).Nodup ∧
    (t.scIns.map (·.parent.value)).sum + (t.ress.map resRoll).sum =
      (t.scOuts.map (·.2.value)).sum + (t.fcs.map (fun x => x.2.1.val + x.2.1.val / 25)).sum +
      (t.ress.map resCost).sum + t.fee := by
  unfold validateV2Siacoins at h
  rw [bind_eq_ok] at h; obtain ⟨seen, hseen, h⟩ := h
  rw [bind_eq_ok] at h; obtain ⟨in0, hin0, h⟩ := h
  rw [bind_eq_ok] at h; obtain ⟨out0, hout0, h⟩ := h
  rw [bind_eq_ok] at h; obtain ⟨out1, hout1, h⟩ := h
  rw [bind_eq_ok] at h; obtain ⟨pr, hpr, h⟩ := h
  obtain ⟨inS, out2⟩ := pr
  simp only [] at h
  rw [bind_eq_ok] at h; obtain ⟨outS, houtS, h⟩ := h
  have hfin : inS = outS := by
    split at h
    · cases h
    · rename_i hne; simpa using hne
  rw [addC_ok] at houtS
  have e0 := foldlM_sum _ (fun sci : ScIn2 => sci.parent.value) (by
    intro s x r hh
    split at hh
    · cases hh; rfl
    · cases hh) _ _ _ hin0
  have e1 := foldlM_sum _ (fun o : Id × ScOut => o.2.value) (by
    intro s x r hh
    split at hh
    · cases hh
    · exact (addC_ok.mp hh).2) _ _ _ hout0
  have e2 := foldlM_sum _ (fun x : Id × Fc2 × Bool => x.2.1.val + x.2.1.val / 25) (by
    intro s x r hh
    obtain ⟨id, fc, sg⟩ := x
    simp only [] at hh
    rw [bind_eq_ok] at hh; obtain ⟨a, ha, hh⟩ := hh
    rw [bind_eq_ok] at hh; obtain ⟨b, hb, hh⟩ := hh
    rw [bind_eq_ok] at hh; obtain ⟨tax, htax, hh⟩ := hh
    rw [addC_ok] at ha hb hh
    have := v2Tax_ok htax
    rw [hh.2, hb.2, ha.2, this]; unfold Fc2.val; simp only []; c1_omega) _ _ _ hout1
  have e3 := foldlM_sum2 _ resRoll resCost (by
    intro s x r hh
    obtain ⟨i, o⟩ := s
    unfold resRoll resCost
    simp only [] at hh
    cases hres : x.res with
    | renewal rn =>
      rw [hres] at hh; simp only [] at hh
      split at hh
      · rw [bind_eq_ok] at hh; obtain ⟨i1, hi1, hh⟩ := hh
        cases hi1
        split at hh
        · rw [bind_eq_ok] at hh; obtain ⟨i2, hi2, hh⟩ := hh
          cases hi2
          rw [bind_eq_ok] at hh; obtain ⟨a, ha, hh⟩ := hh
          rw [bind_eq_ok] at hh; obtain ⟨b, hb, hh⟩ := hh
          rw [bind_eq_ok] at hh; obtain ⟨tax, htax, hh⟩ := hh
          rw [bind_eq_ok] at hh; obtain ⟨c, hc, hh⟩ := hh
          cases hh
          rw [addC_ok] at ha hb hc
          have := v2Tax_ok htax
          simp only []
          constructor
          · simp only [Nat.add_assoc]
          · rw [hc.2, hb.2, ha.2, this]; unfold Fc2.val; simp only [Nat.add_assoc]
        · rw [bind_eq_ok] at hh; obtain ⟨_, hr, _⟩ := hh; cases hr
      · rw [bind_eq_ok] at hh; obtain ⟨_, hr, _⟩ := hh; cases hr
    | proof a b c d => rw [hres] at hh; cases hh; simp
    | expiration => rw [hres] at hh; cases hh; simp) _ _ _ hpr
  obtain ⟨e3a, e3b⟩ := e3
  have hseen' := seen_fold _ (fun sci : ScIn2 => sci.parent.id) (ScIn2Ok ms) (by
    intro sn x sn' hh
    split at hh
    · cases hh
    · rename_i hsp
      split at hh
      · cases hh
      · rename_i hct
        split at hh
        · cases hh
        · rename_i hmat
          rw [bind_eq_ok] at hh; obtain ⟨u, hu, hh⟩ := hh
          split at hh
          · cases hh
          · split at hh
            · cases hh
            · cases hh
              refine ⟨rfl, ?_, ?_, Nat.le_of_not_lt hmat, ?_⟩
              · intro hm; exact hct (List.contains_iff_mem.mpr hm)
              · simpa using hsp
              · split at hu
                · rename_i hl; rw [hl]; exact hu
                · rename_i v hl; rw [hl]; simp only []
                  split at hu
                  · assumption
                  · cases hu) _ _ _ hseen
  refine ⟨hseen'.1, hseen'.2.1, ?_⟩
  have e3a' : inS = in0 + (t.ress.map resRoll).sum := e3a
  have e3b' : out2 = out1 + (t.ress.map resCost).sum := e3b
  have h4 := houtS.2
  clear e3a e3b hseen' hseen hin0 hout0 hout1 hpr h houtS
  c1_omega

-- ------------------------------------------------------------------ siafunds

def SfIn2Ok (ms : Mid) (sfi : SfIn2) : Prop :=
  ms.isSpent sfi.parent.id = false ∧
  match sfi.parent.leaf with
  | none => validateEphemeralSf ms sfi = .ok ()
  | some _ => ms.base.hasSf sfi.parent = true

theorem validateV2Siafunds_ok {ms : Mid} {t : Txn2} (h : validateV2Siafunds ms t = .ok ()) :
    (∀ sfi ∈ t.sfIns, SfIn2Ok ms sfi) ∧ (t.sfIns.map (·.parent.id)).Nodup ∧
    (t.sfIns.map (·.parent.value)).sum % u64Limit = (t.sfOuts.map (·.2.1)).sum % u64Limit := by
  unfold validateV2Siafunds at h
  rw [bind_eq_ok] at h; obtain ⟨seen, hseen, h⟩ := h
  simp only [] at h
  rw [bind_eq_ok] at h; obtain ⟨outS, hout, h⟩ := h
  have hfin : List.foldl (fun s (i : SfIn2) => (s + i.parent.value) % u64Limit) 0 t.sfIns = outS := by
    split at h
    · cases h
    · rename_i hne; simpa using hne
  have e1 := foldl_modsum (fun i : SfIn2 => i.parent.value) u64Limit t.sfIns 0
  have e2 := foldlM_modsum _ (fun x : Id × Nat × Addr => x.2.1) u64Limit (by
    intro s x r hh
    obtain ⟨id, v, a⟩ := x
    simp only [] at hh
    split at hh
    · cases hh
    · cases hh; rfl) _ _ _ hout
  have hseen' := seen_fold _ (fun sfi : SfIn2 => sfi.parent.id) (SfIn2Ok ms) (by
    intro sn x sn' hh
    split at hh
    · cases hh
    · rename_i hsp
      split at hh
      · cases hh
      · rename_i hct
        rw [bind_eq_ok] at hh; obtain ⟨u, hu, hh⟩ := hh
        split at hh
        · cases hh
        · split at hh
          · cases hh
          · cases hh
            refine ⟨rfl, ?_, ?_, ?_⟩
            · intro hm; exact hct (List.contains_iff_mem.mpr hm)
            · simpa using hsp
            · split at hu
              · rename_i hl; rw [hl]; exact hu
              · rename_i v hl; rw [hl]; simp only []
                split at hu
                · assumption
                · cases hu) _ _ _ hseen
  refine ⟨hseen'.1, hseen'.2.1, ?_⟩
  rw [hfin] at e1
  simp only [Nat.zero_add] at e1 e2
  rw [← e1, ← e2]

-- ------------------------------------------------------------------ v2 file contracts

theorem validateContract2_ok {ms : Mid} {fc : Fc2} {sg : Bool} (h : validateContract2 ms fc sg = .ok ()) :
    fc.missedHost ≤ fc.host.value := by
  unfold validateContract2 at h
  repeat' split at h
  all_goals first | cases h | skip
  all_goals (rename_i hh _ _; exact Nat.le_of_not_lt hh)

theorem validateParent2_ok {ms : Mid} {revised resolved : List Id} {e : Fc2Elem}
    (h : validateParent2 ms revised resolved e = .ok ()) :
    ms.isSpent e.id = false ∧ e.id ∉ revised ∧ e.id ∉ resolved ∧ ms.base.hasFc2 e = true := by
  unfold validateParent2 at h
  split at h
  · cases h
  · rename_i h1
    split at h
    · cases h
    · rename_i h2
      split at h
      · cases h
      · rename_i h3
        split at h
        · cases h
        · rename_i h4
          refine ⟨by simpa using h1, fun hm => h2 (List.contains_iff_mem.mpr hm),
            fun hm => h3 (List.contains_iff_mem.mpr hm), by simpa using h4⟩

def Rev2Ok (ms : Mid) (r : Rev2) : Prop :=
  ms.isSpent r.parent.id = false ∧ ms.base.hasFc2 r.parent = true ∧
  validateRevision2 ms r.parent r.rev r.sigCurOk = .ok ()

def Res2Ok (ms : Mid) (revised : List Id) (r : Resolution2) : Prop :=
  ms.isSpent r.parent.id = false ∧ r.parent.id ∉ revised ∧ ms.base.hasFc2 r.parent = true ∧
  match r.res with
  | .renewal rn =>
    rn.finalRenter.value + rn.renterRollover + rn.finalHost.value + rn.hostRollover = r.parent.fc.val ∧
    rn.newContract.missedHost ≤ rn.newContract.host.value
  | _ => True

theorem validateV2FileContracts_ok {ms : Mid} {t : Txn2} (h : validateV2FileContracts ms t = .ok ()) :
    (∀ x ∈ t.fcs, x.2.1.missedHost ≤ x.2.1.host.value) ∧
    (∀ r ∈ t.revs, Rev2Ok ms r) ∧ (t.revs.map (·.parent.id)).Nodup ∧
    (∀ r ∈ t.ress, Res2Ok ms (t.revs.map (·.parent.id)) r) ∧ (t.ress.map (·.parent.id)).Nodup := by
  unfold validateV2FileContracts at h
  rw [bind_eq_ok] at h; obtain ⟨u, hfcs, h⟩ := h
  rw [bind_eq_ok] at h; obtain ⟨revised, hrevs, h⟩ := h
  rw [bind_eq_ok] at h; obtain ⟨resolved, hress, h⟩ := h
  have h1 : ∀ x ∈ t.fcs, x.2.1.missedHost ≤ x.2.1.host.value := by
    have := forIn_unit_ok (fun x : Id × Fc2 × Bool => validateContract2 ms x.2.1 x.2.2) t.fcs hfcs
    intro x hx; exact validateContract2_ok (this x hx)
  have h2 := seen_fold _ (fun r : Rev2 => r.parent.id) (Rev2Ok ms) (by
    intro sn x sn' hh
    rw [bind_eq_ok] at hh; obtain ⟨u, hp, hh⟩ := hh
    obtain ⟨p1, p2, _, p4⟩ := validateParent2_ok hp
    simp only [] at hh
    split at hh
    · rw [bind_eq_ok] at hh; obtain ⟨_, hr, _⟩ := hh; cases hr
    · rw [bind_eq_ok] at hh; obtain ⟨_, hv, hh⟩ := hh
      cases hh
      exact ⟨rfl, p2, p1, p4, hv⟩) _ _ _ hrevs
  obtain ⟨h2a, h2b, _, h2d⟩ := h2
  simp only [List.append_nil] at h2d
  have h3 := seen_fold _ (fun r : Resolution2 => r.parent.id) (Res2Ok ms (t.revs.map (·.parent.id))) (by
    intro sn x sn' hh
    rw [bind_eq_ok] at hh; obtain ⟨u, hp, hh⟩ := hh
    obtain ⟨p1, p2, p3, p4⟩ := validateParent2_ok hp
    have p2' : x.parent.id ∉ t.revs.map (·.parent.id) := by
      intro hm; apply p2; rw [h2d]; exact List.mem_reverse.mpr hm
    simp only [] at hh
    unfold Res2Ok
    cases hres : x.res with
    | renewal rn =>
      rw [hres] at hh; simp only [] at hh ⊢
      split at hh
      · rw [bind_eq_ok] at hh; obtain ⟨_, hr, _⟩ := hh; cases hr
      · split at hh
        · rw [bind_eq_ok] at hh; obtain ⟨_, hr, _⟩ := hh; cases hr
        · rw [bind_eq_ok] at hh; obtain ⟨a, ha, hh⟩ := hh
          rw [bind_eq_ok] at hh; obtain ⟨b, hb, hh⟩ := hh
          rw [bind_eq_ok] at hh; obtain ⟨tp, htp, hh⟩ := hh
          rw [bind_eq_ok] at hh; obtain ⟨ex, hex, hh⟩ := hh
          rw [addC_ok] at ha hb htp hex
          split at hh
          · rw [bind_eq_ok] at hh; obtain ⟨_, hr, _⟩ := hh; cases hr
          · rename_i heq
            rw [bind_eq_ok] at hh; obtain ⟨c, hc, hh⟩ := hh
            rw [bind_eq_ok] at hh; obtain ⟨tax, htax, hh⟩ := hh
            rw [bind_eq_ok] at hh; obtain ⟨cost, hcost, hh⟩ := hh
            rw [bind_eq_ok] at hh; obtain ⟨ro, hro, hh⟩ := hh
            split at hh
            · rw [bind_eq_ok] at hh; obtain ⟨_, hr, _⟩ := hh; cases hr
            · rw [bind_eq_ok] at hh; obtain ⟨_, hvc, hh⟩ := hh
              have hmh := validateContract2_ok hvc
              split at hh
              · cases hh
                refine ⟨rfl, p3, p1, p2', p4, ?_, hmh⟩
                have heq' : tp = ex := by simpa using heq
                unfold Fc2.val
                rw [← hex.2, ← heq', htp.2, hb.2, ha.2]
              · rw [bind_eq_ok] at hh; obtain ⟨_, hr, _⟩ := hh; cases hr
    | proof a b c d =>
      rw [hres] at hh; simp only [] at hh ⊢
      repeat' split at hh
      all_goals first
        | (rw [bind_eq_ok] at hh; obtain ⟨_, hr, _⟩ := hh; cases hr)
        | (cases hh; exact ⟨rfl, p3, p1, p2', p4, trivial⟩)
    | expiration =>
      rw [hres] at hh; simp only [] at hh ⊢
      split at hh
      · rw [bind_eq_ok] at hh; obtain ⟨_, hr, _⟩ := hh; cases hr
      · cases hh; exact ⟨rfl, p3, p1, p2', p4, trivial⟩) _ _ _ hress
  exact ⟨h1, h2a, h2b, h3.1, h3.2.1⟩

-- ------------------------------------------------------------------ validateRevision2

def curFc2 (ms : Mid) (e : Fc2Elem) : Fc2 :=
  match ms.lookup e.id with
  | some i => match (ms.v2fces.getD i default).revision with
    | some r => r
    | none => e.fc
  | none => e.fc

def validateRevision2Core (ms : Mid) (cur rev : Fc2) (sigCurOk : Bool) : VM Unit := do
  let curSum ← addC cur.renter.value cur.host.value
  let revSum ← addC rev.renter.value rev.host.value
  if rev.capacity < cur.capacity then reject "decreases capacity"
  else if rev.filesize > rev.capacity then reject "has filesize exceeding capacity"
  else if cur.proofHeight < ms.base.child then reject "revises contract after its proof window has opened"
  else if rev.revNum ≤ cur.revNum then reject "does not increase revision number"
  else if revSum ≠ curSum then reject "modifies output sum"
  else if rev.missedHost > cur.missedHost then reject "has missed host value exceeding old value"
  else if ms.base.child ≥ ms.base.P.ephemeralFix ∧ rev.missedHost > rev.host.value then reject "has missed host value exceeding valid host value"
  else if rev.totalCollateral ≠ cur.totalCollateral then reject "modifies total collateral"
  else if rev.proofHeight < ms.base.child then reject "has proof height that has already passed"
  else if rev.expHeight ≤ rev.proofHeight then reject "leaves no time between proof height and expiration height"
  else if sigCurOk then pure () else reject "has invalid signature"

theorem validateRevision2_eq_c1 (ms : Mid) (e : Fc2Elem) (rev : Fc2) (sg : Bool) :
    validateRevision2 ms e rev sg = validateRevision2Core ms (curFc2 ms e) rev sg := rfl

theorem validateRevision2Core_ok {ms : Mid} {cur rev : Fc2} {sg : Bool}
    (h : validateRevision2Core ms cur rev sg = .ok ()) :
    rev.val = cur.val ∧ (ms.base.child ≥ ms.base.P.ephemeralFix → rev.missedHost ≤ rev.host.value) := by
  unfold validateRevision2Core at h
  rw [bind_eq_ok] at h; obtain ⟨curSum, hcs, h⟩ := h
  rw [bind_eq_ok] at h; obtain ⟨revSum, hrs, h⟩ := h
  rw [addC_ok] at hcs hrs
  by_cases c1 : rev.capacity < cur.capacity
  · rw [if_pos c1] at h; cases h
  rw [if_neg c1] at h
  by_cases c2 : rev.filesize > rev.capacity
  · rw [if_pos c2] at h; cases h
  rw [if_neg c2] at h
  by_cases c3 : cur.proofHeight < ms.base.child
  · rw [if_pos c3] at h; cases h
  rw [if_neg c3] at h
  by_cases c4 : rev.revNum ≤ cur.revNum
  · rw [if_pos c4] at h; cases h
  rw [if_neg c4] at h
  by_cases h5 : revSum ≠ curSum
  · rw [if_pos h5] at h; cases h
  rw [if_neg h5] at h
  by_cases c6 : rev.missedHost > cur.missedHost
  · rw [if_pos c6] at h; cases h
  rw [if_neg c6] at h
  by_cases h7 : ms.base.child ≥ ms.base.P.ephemeralFix ∧ rev.missedHost > rev.host.value
  · rw [if_pos h7] at h; cases h
  clear h
  constructor
  · have : revSum = curSum := by simpa using h5
    unfold Fc2.val; rw [← hrs.2, this, hcs.2]
  · intro hfix
    have : ¬ rev.missedHost > rev.host.value := fun hh => h7 ⟨hfix, hh⟩
    exact Nat.le_of_not_lt this
end Sia.Ledger
