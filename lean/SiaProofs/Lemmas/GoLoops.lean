import SiaModel.Prim.GoSem
/-!
Reasoning principle for translated `for … range` loops (`Go.forRange`): if the loop ends without an early
return, the per-iteration relation `R` chains through the list, in order.
-/
namespace GoLoops

/-- `R` relates the loop state before and after each element, in order. -/
def Chain {α σ : Type} (R : α → σ → σ → Prop) : List α → σ → σ → Prop
  | [], st, st' => st = st'
  | x :: xs, st, st'' => ∃ st', R x st st' ∧ Chain R xs st' st''

theorem forRangeFrom_none {α σ ρ : Type} {f : Int → α → σ → Except String (Option ρ × σ)}
    {R : α → σ → σ → Prop}
    (hf : ∀ i x st st', f i x st = .ok (none, st') → R x st st') :
    ∀ (xs : List α) (i : Int) (st st' : σ),
      Go.forRangeFrom f xs i st = .ok (none, st') → Chain R xs st st' := by
  intro xs
  induction xs with
  | nil => intro i st st' h; simp [Go.forRangeFrom] at h; exact h
  | cons x xs ih =>
    intro i st st' h
    unfold Go.forRangeFrom at h
    cases hx : f i x st with
    | error e => simp [hx] at h
    | ok p =>
      obtain ⟨r, st1⟩ := p
      cases r with
      | some v => simp [hx] at h
      | none =>
        simp [hx] at h
        exact ⟨st1, hf i x st st1 hx, ih (i + 1) st1 st' h⟩

theorem forRange_none {α σ ρ : Type} {f : Int → α → σ → Except String (Option ρ × σ)}
    {R : α → σ → σ → Prop}
    (hf : ∀ i x st st', f i x st = .ok (none, st') → R x st st')
    (xs : List α) (st st' : σ) (h : Go.forRange xs st f = .ok (none, st')) : Chain R xs st st' :=
  forRangeFrom_none hf xs 0 st st' h

/-- a chain of relations that each imply `Q` on the element -/
theorem Chain.all {α σ : Type} {R : α → σ → σ → Prop} {Q : α → Prop}
    (hq : ∀ x st st', R x st st' → Q x) : ∀ (xs : List α) (st st' : σ), Chain R xs st st' → ∀ x ∈ xs, Q x := by
  intro xs
  induction xs with
  | nil => intro _ _ _ x hx; cases hx
  | cons y ys ih =>
    intro st st' h x hx
    obtain ⟨st1, r, c⟩ := h
    cases hx with
    | head => exact hq _ _ _ r
    | tail _ hm => exact ih st1 st' c x hm

/-- every early exit of the loop is an early exit of some iteration -/
theorem forRangeFrom_some {α σ ρ : Type} {f : Int → α → σ → Except String (Option ρ × σ)} {P : ρ → Prop}
    (hf : ∀ i x st r st', f i x st = .ok (some r, st') → P r) :
    ∀ (xs : List α) (i : Int) (st : σ) (r : ρ) (st' : σ),
      Go.forRangeFrom f xs i st = .ok (some r, st') → P r := by
  intro xs
  induction xs with
  | nil => intro i st r st' h; simp [Go.forRangeFrom] at h
  | cons x xs ih =>
    intro i st r st' h
    unfold Go.forRangeFrom at h
    cases hx : f i x st with
    | error e => simp [hx] at h
    | ok p =>
      obtain ⟨r1, st1⟩ := p
      cases r1 with
      | some v =>
        simp [hx] at h
        obtain ⟨h1, _⟩ := h
        subst h1
        exact hf i x st v st1 hx
      | none =>
        simp [hx] at h
        exact ih (i + 1) st1 r st' h

theorem forRange_some {α σ ρ : Type} {f : Int → α → σ → Except String (Option ρ × σ)} {P : ρ → Prop}
    (hf : ∀ i x st r st', f i x st = .ok (some r, st') → P r)
    (xs : List α) (st : σ) (r : ρ) (st' : σ) (h : Go.forRange xs st f = .ok (some r, st')) : P r :=
  forRangeFrom_some hf xs 0 st r st' h

/-- an accumulating chain: each step adds `wt x` to the measure `m` of the state and keeps `I` -/
theorem Chain.sum {α σ : Type} {R : α → σ → σ → Prop} {m : σ → Nat} {I : σ → Prop} {wt : α → Nat} {ok : α → Prop}
    (hR : ∀ x st st', R x st st' → ok x → I st → I st' ∧ m st' = m st + wt x) :
    ∀ (xs : List α) (st st' : σ), Chain R xs st st' → (∀ x ∈ xs, ok x) → I st →
      I st' ∧ m st' = m st + (xs.map wt).sum := by
  intro xs
  induction xs with
  | nil => intro st st' h _ hi; cases h; simp [hi]
  | cons y ys ih =>
    intro st st' h hok hi
    obtain ⟨st1, r, c⟩ := h
    obtain ⟨i1, m1⟩ := hR y st st1 r (hok y (List.mem_cons_self)) hi
    obtain ⟨i2, m2⟩ := ih st1 st' c (fun x hx => hok x (List.mem_cons_of_mem _ hx)) i1
    refine ⟨i2, ?_⟩
    simp [List.map_cons, List.sum_cons]; omega

/-- a total check-only loop: it ends without early exit exactly when every element is `good` -/
theorem forRangeFrom_none_iff {α σ ρ : Type} {f : Int → α → σ → Except String (Option ρ × σ)} {good : α → Prop}
    (hf : ∀ i x st, ∃ r st', f i x st = .ok (r, st') ∧ (r = none ↔ good x)) :
    ∀ (xs : List α) (k : Int) (st : σ), ∃ r st', Go.forRangeFrom f xs k st = .ok (r, st') ∧ (r = none ↔ ∀ x ∈ xs, good x) := by
  intro xs
  induction xs with
  | nil => intro k st; exact ⟨none, st, by simp [Go.forRangeFrom], by simp⟩
  | cons x xs ih =>
    intro k st
    obtain ⟨r, st1, e, g⟩ := hf k x st
    unfold Go.forRangeFrom
    rw [e]
    cases r with
    | some v =>
      refine ⟨some v, st1, rfl, ?_⟩
      constructor
      · intro h; cases h
      · intro h
        have := g.mpr (h x List.mem_cons_self)
        cases this
    | none =>
      obtain ⟨r2, st2, e2, g2⟩ := ih (k + 1) st1
      refine ⟨r2, st2, e2, ?_⟩
      rw [g2]
      constructor
      · intro h y hy
        cases hy with
        | head => exact g.mp rfl
        | tail _ hm => exact h y hm
      · intro h y hy
        exact h y (List.mem_cons_of_mem _ hy)

end GoLoops
