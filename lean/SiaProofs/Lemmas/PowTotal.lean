import SiaProofs.Lemmas.Pow

namespace C13aux
open Sia.Pow
theorem clamp_v2_lower {n : Network} {s : PowState} {ts : Int} {d : Nat}
    (h : adjustDifficultyV2 n s ts = .ok d) : s.difficulty - s.difficulty / 250 ≤ d := by
  unfold adjustDifficultyV2 at h
  simp only [bind_eq_ok, wdiv64_eq_ok, wmul64_eq_ok, wsub_eq_ok] at h
  obtain ⟨est, _, nd, _, ma, ⟨_, rfl⟩, mn, ⟨_, rfl⟩, h⟩ := h
  split at h
  · simp only [pure_eq_ok] at h; omega
  · simp only [bind_eq_ok, wadd_eq_ok] at h
    obtain ⟨mx, ⟨_, rfl⟩, h⟩ := h
    split at h <;> simp only [pure_eq_ok] at h <;> omega

theorem clamp_finalcut_lower {n : Network} {s : PowState} {ts : Int} {d : Nat}
    (h : adjustDifficultyFinalCut n s ts = .ok d) : 1 ≤ d := by
  unfold adjustDifficultyFinalCut at h
  simp only [bind_eq_ok, wdiv64_eq_ok, wmul64_eq_ok, wsub_eq_ok, wadd_eq_ok, pure_eq_ok] at h
  obtain ⟨a, _, hh, _, b, _, nd, _, q, ⟨_, rfl⟩, hi, ⟨_, rfl⟩, lo, ⟨hlo, rfl⟩, rfl⟩ := h
  simp only [wmax_eq, wmin_eq] at *
  omega
end C13aux

namespace Sia.Pow

theorem toU64_lt (x : Int) : toU64 x < W64 := by
  unfold toU64; omega

theorem toU64_of_range {x : Int} (h0 : 0 ≤ x) (h1 : x < 18446744073709551616) : (toU64 x : Int) = x := by
  unfold toU64; omega

theorem tdiv_nonneg_eq {a b : Int} (ha : 0 ≤ a) : Int.tdiv a b = a / b :=
  Int.tdiv_eq_ediv_of_nonneg ha

theorem i64div_nonneg_eq {a b : Int} (ha : 0 ≤ a) : i64div a b = a / b := by
  unfold i64div; exact Int.tdiv_eq_ediv_of_nonneg ha

theorem i64mul_small {a b : Int} (h1 : -9223372036854775808 ≤ a * b) (h2 : a * b < 9223372036854775808) :
    i64mul a b = a * b := by
  unfold i64mul wrap64; omega

/-- the clamp at the end of `v2TargetBlockTime` -/
theorem v2TargetBlockTime_bounds {n : Network} (s : PowState) (ts : Int)
    (h1 : 1 ≤ n.blockInterval) (h2 : n.blockInterval ≤ 1125899906842624) :
    0 ≤ v2TargetBlockTime n s ts ∧ v2TargetBlockTime n s ts ≤ 3377699720527872 := by
  unfold v2TargetBlockTime
  dsimp only
  generalize i64add n.blockInterval _ = x
  have e1 : i64div n.blockInterval 3 = n.blockInterval / 3 := i64div_nonneg_eq (by omega)
  have e2 : i64mul n.blockInterval 3 = n.blockInterval * 3 := i64mul_small (by omega) (by omega)
  generalize i64div n.blockInterval 3 = mn at e1 ⊢
  generalize i64mul n.blockInterval 3 = mx at e2 ⊢
  split
  · omega
  · split <;> omega

theorem finalCutTargetInterval_bounds {n : Network} (s : PowState) (ts : Int)
    (h1 : 1 ≤ n.blockInterval) (h2 : n.blockInterval ≤ 1125899906842624) :
    0 ≤ finalCutTargetInterval n s ts ∧ finalCutTargetInterval n s ts ≤ 3377699720527872 := by
  unfold finalCutTargetInterval
  dsimp only
  generalize i64add n.blockInterval _ = x
  have e1 : i64div n.blockInterval 3 = n.blockInterval / 3 := i64div_nonneg_eq (by omega)
  have e2 : i64mul n.blockInterval 3 = n.blockInterval * 3 := i64mul_small (by omega) (by omega)
  generalize i64div n.blockInterval 3 = mn at e1 ⊢
  generalize i64mul n.blockInterval 3 = mx at e2 ⊢
  omega

theorem oakTargetBlockTime_bounds {n : Network} (s : PowState)
    (h1 : 1 ≤ n.blockInterval) (h2 : n.blockInterval ≤ 1125899906842624) :
    1 ≤ oakTargetBlockTime n s ∧ oakTargetBlockTime n s ≤ 3377700 := by
  unfold oakTargetBlockTime
  dsimp only
  have e0 : i64div n.blockInterval SECOND = n.blockInterval / SECOND := i64div_nonneg_eq (by omega)
  generalize i64div n.blockInterval SECOND = bi at e0 ⊢
  generalize i64add bi _ = x
  have e1 : i64div bi 3 = bi / 3 := i64div_nonneg_eq (by omega)
  have e2 : i64mul bi 3 = bi * 3 := i64mul_small (by omega) (by omega)
  generalize i64div bi 3 = mn at e1 ⊢
  generalize i64mul bi 3 = mx at e2 ⊢
  split <;> split <;> try split
  all_goals omega

theorem oakTotalTimeSec_pos (s : PowState) : 1 ≤ oakTotalTimeSec s := by
  unfold oakTotalTimeSec; dsimp only; split <;> omega


theorem wdiv64_ok {w v : Nat} (h : v ≠ 0) : wdiv64 w v = .ok (w / v) := by
  unfold wdiv64; rw [if_neg h]
theorem wmul64_ok {w v : Nat} (h : w * v < W256) : wmul64 w v = .ok (w * v) := by
  unfold wmul64; rw [if_pos h]
theorem wadd_ok {w v : Nat} (h : w + v < W256) : wadd w v = .ok (w + v) := by
  unfold wadd; rw [if_pos h]
theorem wsub_ok {w v : Nat} (h : v ≤ w) : wsub w v = .ok (w - v) := by
  unfold wsub; rw [if_pos h]

theorem ok_bind {α β : Type} (a : α) (f : α → Except String β) :
    ((Except.ok a : Except String α) >>= f) = f a := rfl

theorem adjustDifficultyV2_total {n : Network} {s : PowState} (ts : Int)
    (h1 : 1 ≤ n.blockInterval) (h2 : n.blockInterval ≤ 1125899906842624)
    (ht : s.oakTime < 9223372036854775808)
    (hD : s.difficulty < 1606938044258990275541962092341162602522202993782792835301376)
    (hOW : s.oakWork < 1606938044258990275541962092341162602522202993782792835301376) :
    ∃ d, adjustDifficultyV2 n s ts = .ok d := by
  unfold adjustDifficultyV2
  obtain ⟨b1, b2⟩ := v2TargetBlockTime_bounds s ts h1 h2
  generalize v2TargetBlockTime n s ts = tbt at b1 b2
  dsimp only
  -- the hashrate divisor
  have hv : toU64 (i64div (if s.oakTime ≤ SECOND then SECOND else s.oakTime) SECOND) ≠ 0 := by
    have : (1:Int) ≤ i64div (if s.oakTime ≤ SECOND then SECOND else s.oakTime) SECOND ∧
        i64div (if s.oakTime ≤ SECOND then SECOND else s.oakTime) SECOND < 18446744073709551616 := by
      rw [i64div_nonneg_eq (by split <;> omega)]
      split <;> omega
    have := toU64_of_range (by omega) this.2
    omega
  generalize toU64 (i64div (if s.oakTime ≤ SECOND then SECOND else s.oakTime) SECOND) = v at hv ⊢
  rw [wdiv64_ok hv, ok_bind]
  have e : i64div tbt SECOND = tbt / SECOND := i64div_nonneg_eq b1
  generalize i64div tbt SECOND = q at e ⊢
  have hu : (toU64 q : Int) = q := toU64_of_range (by omega) (by omega)
  have hu2 : toU64 q < 4194304 := by omega
  generalize toU64 q = u at hu2 ⊢
  have hm : s.oakWork / v * u < W256 := by
    have ha : s.oakWork / v ≤ s.oakWork := Nat.div_le_self _ _
    calc _ ≤ s.oakWork * u := Nat.mul_le_mul_right _ ha
      _ ≤ 1606938044258990275541962092341162602522202993782792835301376 * 4194304 :=
          Nat.mul_le_mul (by omega) (by omega)
      _ < W256 := by decide
  rw [wmul64_ok hm, ok_bind, wdiv64_ok (by omega), ok_bind, wsub_ok (Nat.div_le_self _ _), ok_bind]
  split
  · exact ⟨_, rfl⟩
  · rw [wadd_ok (by omega), ok_bind]
    split <;> exact ⟨_, rfl⟩

theorem adjustDifficultyFinalCut_total {n : Network} {s : PowState} (ts : Int)
    (h1 : 1 ≤ n.blockInterval) (h2 : n.blockInterval ≤ 1125899906842624)
    (ht0 : -9223372036854775808 ≤ s.oakTime) (ht : s.oakTime < 9223372036854775808)
    (hD1 : 1 ≤ s.difficulty)
    (hD : s.difficulty < 1606938044258990275541962092341162602522202993782792835301376)
    (hOW : s.oakWork < 1606938044258990275541962092341162602522202993782792835301376) :
    ∃ d, adjustDifficultyFinalCut n s ts = .ok d := by
  unfold adjustDifficultyFinalCut
  obtain ⟨b1, b2⟩ := finalCutTargetInterval_bounds s ts h1 h2
  generalize finalCutTargetInterval n s ts = ti at b1 b2
  dsimp only
  have hu : (toU64 ti : Int) = ti := toU64_of_range b1 (by omega)
  have hm : s.oakWork * toU64 ti < 7237005577332262213973186563042994240829374041602535252466099000494570602496 := by
    calc _ ≤ 1606938044258990275541962092341162602522202993782792835301376 * 3377699720527872 :=
          Nat.mul_le_mul (by omega) (by omega)
      _ < _ := by decide
  rw [wmul64_ok (by omega), ok_bind]
  have hh := toU64_lt (i64div s.oakTime 2)
  rw [wmul64_ok (by omega), ok_bind, wadd_ok (by omega), ok_bind]
  have hv : toU64 (max s.oakTime 1) ≠ 0 := by
    have := toU64_of_range (x := max s.oakTime 1) (by omega) (by omega)
    omega
  rw [wdiv64_ok hv, ok_bind, wdiv64_ok (by omega), ok_bind]
  simp only [wmax_eq, wmin_eq]
  rw [wadd_ok (by omega), ok_bind, wsub_ok (by omega), ok_bind]
  exact ⟨_, rfl⟩

theorem capT_pos {a : Nat} (h : 1 ≤ a) : 1 ≤ capT a := by
  unfold capT; split <;> omega

theorem capT_lt (a : Nat) : capT a < W256 := by
  unfold capT; split <;> omega

theorem capT_ge2 {a : Nat} (h : 2 ≤ a) : 2 ≤ capT a := by
  unfold capT; split <;> omega

/-- `addTarget` of two targets ≥ 2 succeeds with a non-zero result -/
theorem addTarget_total {x y : Nat} (hx : x < W256) (hy : y < W256) (hx2 : 2 ≤ x) (hy2 : 2 ≤ y) :
    ∃ r, addTarget x y = .ok r ∧ r ≠ 0 ∧ r < W256 := by
  have h0 : x + y ≠ 0 := by omega
  have hr : addTarget x y = .ok (intToTarget (Int.ofNat (x * y / (x + y)))) := by
    unfold addTarget; rw [if_neg h0]
  obtain ⟨_, e, le1, _⟩ := addTarget_inv hx hy hr
  refine ⟨_, hr, ?_, by omega⟩
  rw [e]
  have h1 : 2 * y ≤ x * y := Nat.mul_le_mul_right y hx2
  have h2 : x * 2 ≤ x * y := Nat.mul_le_mul_left x hy2
  have : 1 ≤ x * y / (x + y) := (Nat.le_div_iff_mul_le (by omega)).2 (by omega)
  omega

theorem updateTotalWork_total {n : Network} {s : PowState}
    (hdp : s.depth < W256) (hct : s.childTarget < W256) (hd1 : 1 ≤ s.difficulty)
    (hpre : s.childHeight < n.v2AllowHeight → 2 ≤ s.depth ∧ 2 ≤ s.childTarget)
    (hv2 : n.v2AllowHeight ≤ s.childHeight → s.totalWork + s.difficulty < W256) :
    ∃ r, updateTotalWork n s = .ok r := by
  unfold updateTotalWork
  split
  · rename_i h
    obtain ⟨r, h1, h2, _⟩ := addTarget_total hdp hct (hpre h).1 (hpre h).2
    rw [h1, ok_bind, invTarget_ok_of_ne h2, ok_bind]
    exact ⟨_, rfl⟩
  · rename_i h
    rw [wadd_ok (hv2 (by omega)), ok_bind, invTarget_ok_of_ne (by omega), ok_bind]
    exact ⟨_, rfl⟩

theorem updateOakWork_total {n : Network} {s : PowState}
    (hot : s.oakTarget < W256) (hct : s.childTarget < W256) (hd1 : 1 ≤ s.difficulty)
    (hasic : n.asicOakTarget ≠ 0)
    (hpre : s.childHeight < n.v2AllowHeight → 2 ≤ s.oakTarget ∧ 2 ≤ s.childTarget)
    (hv2 : n.v2AllowHeight ≤ s.childHeight → s.oakWork + s.difficulty < W256) :
    ∃ r, updateOakWork n s = .ok r := by
  unfold updateOakWork
  split
  · rename_i h
    have : ∃ t, updateOakTarget n s = .ok t ∧ t ≠ 0 := by
      unfold updateOakTarget
      split
      · exact ⟨_, rfl, hasic⟩
      · have e := mulTargetFrac_nat s.oakTarget 1000 995 (by omega)
        have e' : mulTargetFrac s.oakTarget 1000 995 = .ok (capT (s.oakTarget * 1000 / 995)) := e
        rw [e', ok_bind]
        have : 2 ≤ s.oakTarget * 1000 / 995 := by have := (hpre h).1; omega
        obtain ⟨r, h1, h2, _⟩ := addTarget_total (capT_lt _) hct (capT_ge2 this) (hpre h).2
        exact ⟨r, h1, h2⟩
    obtain ⟨t, h1, h2⟩ := this
    rw [h1, ok_bind, invTarget_ok_of_ne h2, ok_bind]
    exact ⟨_, rfl⟩
  · rename_i h
    have := hv2 (by omega)
    rw [wdiv64_ok (by omega), ok_bind, wsub_ok (Nat.div_le_self _ _), ok_bind, wadd_ok (by omega), ok_bind,
      invTarget_ok_of_ne (by omega), ok_bind]
    exact ⟨_, rfl⟩


theorem intToTarget_ne_zero {i : Int} (h : 1 ≤ i) : intToTarget i ≠ 0 := by
  unfold intToTarget; split <;> omega

theorem oakNewTarget_total {n : Network} {s : PowState}
    (h1 : 1 ≤ n.blockInterval) (h2 : n.blockInterval ≤ 1125899906842624)
    (hot0 : 4294967296 ≤ s.oakTarget) :
    ∃ r, oakNewTarget n s = .ok r ∧ r ≠ 0 := by
  unfold oakNewTarget
  rw [if_neg (by omega)]
  dsimp only
  refine ⟨_, rfl, ?_⟩
  apply intToTarget_ne_zero
  obtain ⟨t1, t2⟩ := oakTargetBlockTime_bounds s h1 h2
  have o1 := oakTotalTimeSec_pos s
  generalize oakTargetBlockTime n s = tbt at t1 t2
  generalize oakTotalTimeSec s = ott at o1
  -- A = MAXT / oakTarget ≤ MAXT / 2^32
  have hA : MAXT / s.oakTarget ≤ 26959946667150639794667015087019630673637144422540572481103610249215 :=
    Nat.le_trans (Nat.div_le_div_left hot0 (by omega)) (by decide)
  generalize MAXT / s.oakTarget = A at hA
  have hq0 : 0 ≤ Int.ediv (Int.ofNat A) ott := Int.ediv_nonneg (by simp) (by omega)
  have hq1 : Int.ediv (Int.ofNat A) ott ≤ Int.ofNat A := Int.ediv_le_self _ (by simp)
  generalize Int.ediv (Int.ofNat A) ott = q at hq0 hq1
  have hqA : q ≤ 26959946667150639794667015087019630673637144422540572481103610249215 := by
    have : Int.ofNat A ≤ 26959946667150639794667015087019630673637144422540572481103610249215 := by
      simp only [Int.ofNat_eq_natCast]; omega
    omega
  have he0 : 0 ≤ q * tbt := Int.mul_nonneg hq0 (by omega)
  have he1 : q * tbt ≤ 26959946667150639794667015087019630673637144422540572481103610249215 * 3377700 :=
    Int.mul_le_mul hqA t2 (by omega) (by omega)
  generalize q * tbt = e at he0 he1
  have hest : 1 ≤ (if e = 0 then 1 else e) ∧ (if e = 0 then 1 else e) ≤ Int.ofNat MAXT := by
    simp only [Int.ofNat_eq_natCast]
    split <;> omega
  generalize (if e = 0 then 1 else e) = est at hest
  exact Int.le_ediv_of_mul_le (by omega) (by omega)


theorem oakClamp_total {s : PowState} (nt : Nat) (hnt : nt ≠ 0) (hct : 2 ≤ s.childTarget) :
    ∃ r, oakClamp s nt = .ok r ∧ r ≠ 0 := by
  unfold oakClamp
  have e1 : mulTargetFrac s.childTarget 1000 1004 = .ok (capT (s.childTarget * 1000 / 1004)) :=
    mulTargetFrac_nat s.childTarget 1000 1004 (by omega)
  have e2 : mulTargetFrac s.childTarget 1004 1000 = .ok (capT (s.childTarget * 1004 / 1000)) :=
    mulTargetFrac_nat s.childTarget 1004 1000 (by omega)
  rw [e2, ok_bind, e1, ok_bind]
  have p1 : 1 ≤ capT (s.childTarget * 1000 / 1004) := capT_pos (by omega)
  have p2 : 1 ≤ capT (s.childTarget * 1004 / 1000) := capT_pos (by omega)
  split
  · exact ⟨_, rfl, by omega⟩
  · split
    · exact ⟨_, rfl, by omega⟩
    · exact ⟨_, rfl, hnt⟩

theorem preOakAdjust_total {n : Network} {s : PowState} (ts tt : Int)
    (h1 : 1 ≤ n.blockInterval) (h2 : n.blockInterval ≤ 1125899906842624)
    (hsec : SECOND ≤ n.blockInterval ∨ n.oakHeight < 500)
    (hch : s.childHeight ≤ n.oakHeight) (hch0 : s.childHeight ≠ 0)
    (hct : 3 ≤ s.childTarget) :
    ∃ r, preOakAdjust n s ts tt = .ok r ∧ r ≠ 0 := by
  unfold preOakAdjust
  dsimp only
  by_cases hm : s.childHeight % 500 ≠ 0
  · rw [if_pos hm]; exact ⟨_, rfl, by omega⟩
  · rw [if_neg hm]
    have hbi : SECOND ≤ n.blockInterval := by
      cases hsec with
      | inl h => exact h
      | inr h => omega
    have e0 : i64div n.blockInterval SECOND = n.blockInterval / SECOND := i64div_nonneg_eq (by omega)
    generalize i64div n.blockInterval SECOND = bi at e0 ⊢
    have hd : (if 1000 > s.childHeight then s.childHeight else 1000) = 500 ∨
              (if 1000 > s.childHeight then s.childHeight else 1000) = 1000 := by
      split <;> omega
    generalize (if 1000 > s.childHeight then s.childHeight else 1000) = depth at hd
    have hbi2 : 1 ≤ bi ∧ bi ≤ 1125899 := by omega
    have hexp : 1 ≤ i64mul bi (ofU64 depth) := by
      clear e0 hbi hsec h1 h2 hch hch0 hct hm
      cases hd with
      | inl h =>
        subst h
        have : ofU64 500 = 500 := by decide
        rw [this, i64mul_small (by omega) (by omega)]; omega
      | inr h =>
        subst h
        have : ofU64 1000 = 1000 := by decide
        rw [this, i64mul_small (by omega) (by omega)]; omega
    generalize i64mul bi (ofU64 depth) = expected at hexp
    generalize i64div (timeSub ts tt) SECOND = elapsed
    have c1 : mulTargetFrac s.childTarget 10 25 = .ok (capT (s.childTarget * 10 / 25)) :=
      mulTargetFrac_nat s.childTarget 10 25 (by omega)
    have c2 : mulTargetFrac s.childTarget 25 10 = .ok (capT (s.childTarget * 25 / 10)) :=
      mulTargetFrac_nat s.childTarget 25 10 (by omega)
    split
    · exact ⟨_, c1, by have := capT_pos (a := s.childTarget * 10 / 25) (by omega); omega⟩
    · rename_i hg
      split
      · exact ⟨_, c2, by have := capT_pos (a := s.childTarget * 25 / 10) (by omega); omega⟩
      · rename_i hl
        -- not clamped: elapsed > 0 and 2·expected ≤ 5·elapsed
        have hel : 0 < elapsed ∧ 2 * expected ≤ 5 * elapsed := by
          unfold ratioGt25 at hg
          unfold ratioLt04 at hl
          by_cases z : elapsed = 0
          · simp [z] at hg; omega
          · by_cases pz : elapsed > 0
            · simp [z, pz] at hg; omega
            · simp [z, pz] at hl; omega
        refine ⟨_, (mulTargetFrac_eq_ok.2 ⟨by omega, rfl⟩), ?_⟩
        apply intToTarget_ne_zero
        apply Int.le_ediv_of_mul_le (by omega)
        have : (3:Int) * elapsed ≤ Int.ofNat s.childTarget * elapsed :=
          Int.mul_le_mul_of_nonneg_right (by simp only [Int.ofNat_eq_natCast]; omega) (by omega)
        omega


theorem adjustTarget_total {n : Network} {s : PowState} (ts tt : Int)
    (h1 : 1 ≤ n.blockInterval) (h2 : n.blockInterval ≤ 1125899906842624)
    (hsec : SECOND ≤ n.blockInterval ∨ n.oakHeight < 500)
    (hch0 : s.childHeight ≠ 0)
    (hct : 4294967296 ≤ s.childTarget) (hot : 4294967296 ≤ s.oakTarget) :
    ∃ r, adjustTarget n s ts tt = .ok r ∧ r ≠ 0 := by
  unfold adjustTarget
  split
  · rename_i h
    exact preOakAdjust_total ts tt h1 h2 hsec h hch0 (by omega)
  · obtain ⟨nt, e1, e2⟩ := oakNewTarget_total (s := s) h1 h2 hot
    rw [e1, ok_bind]
    split
    · exact ⟨_, rfl, e2⟩
    · exact oakClamp_total nt e2 (by omega)

theorem adjustDifficulty_total {n : Network} {s : PowState} (ts tt : Int)
    (h1 : 1 ≤ n.blockInterval) (h2 : n.blockInterval ≤ 1125899906842624)
    (hsec : SECOND ≤ n.blockInterval ∨ n.oakHeight < 500)
    (hch0 : s.childHeight ≠ 0)
    (ht0 : -9223372036854775808 ≤ s.oakTime) (ht : s.oakTime < 9223372036854775808)
    (hD1 : 1 ≤ s.difficulty)
    (hpre : s.childHeight < n.v2AllowHeight → 4294967296 ≤ s.childTarget ∧ 4294967296 ≤ s.oakTarget)
    (hv2 : n.v2AllowHeight ≤ s.childHeight →
      s.difficulty < 1606938044258990275541962092341162602522202993782792835301376 ∧
      s.oakWork < 1606938044258990275541962092341162602522202993782792835301376) :
    ∃ r, adjustDifficulty n s ts tt = .ok r := by
  unfold adjustDifficulty
  split
  · rename_i h
    obtain ⟨r, e1, e2⟩ := adjustTarget_total (s := s) ts tt h1 h2 hsec hch0 (hpre h).1 (hpre h).2
    rw [e1, ok_bind, invTarget_ok_of_ne e2, ok_bind]
    exact ⟨_, rfl⟩
  · rename_i h
    have hv := hv2 (by omega)
    split
    · obtain ⟨d, e⟩ := adjustDifficultyV2_total (s := s) ts h1 h2 ht hv.1 hv.2
      have := (C13aux.clamp_v2_lower e)
      rw [e, ok_bind, invTarget_ok_of_ne (by omega), ok_bind]
      exact ⟨_, rfl⟩
    · obtain ⟨d, e⟩ := adjustDifficultyFinalCut_total (s := s) ts h1 h2 ht0 ht hD1 hv.1 hv.2
      have := (C13aux.clamp_finalcut_lower e)
      rw [e, ok_bind, invTarget_ok_of_ne (by omega), ok_bind]
      exact ⟨_, rfl⟩

end Sia.Pow
