import SiaProofs.Props.C11
import SiaModel.Codec.Size
/-! Encoded sizes: `size = |enc|`, and the bound `maxSize` under per-field limits (C19). -/
namespace Sia.Codec

theorem sizeList_eq {f : Val → Nat} {g : Val → Bytes} (vs : List Val)
    (h : ∀ v ∈ vs, f v = (g v).length) : sizeList f vs = (encList g vs).length := by
  induction vs with
  | nil => rfl
  | cons v vs ih =>
    simp only [sizeList, encList, List.length_append]
    rw [h v (by simp), ih (fun w hw => h w (by simp [hw]))]

/-- **size = |enc|** -/
theorem size_eq (E : Env) (s : Sch) (v : Val) : size E s v = (enc E s v).length := by
  induction s generalizing v with
  | atom a => rfl
  | nil => rfl
  | cons l s r ihs ihr => cases v <;> simp [size, enc, ihs, ihr]
  | slice s ih =>
    cases v <;> simp [size, enc, u64le_length]
    rename_i vs
    rw [sizeList_eq vs (fun w _ => ih w)]
  | opt s ih => cases v <;> simp [size, enc, ih]; omega
  | uslice s ih =>
    cases v <;> simp [size, enc, u64le_length]
    rename_i vs
    rw [sizeList_eq vs (fun w _ => ih w)]
  | aslice s ih =>
    cases v <;> simp [size, enc, u64le_length]
    rename_i vs
    rw [sizeList_eq vs (fun w _ => ih w)]
  | ext n => rfl

theorem encList_length_le {g : Val → Bytes} {m : Nat} (vs : List Val)
    (h : ∀ v ∈ vs, (g v).length ≤ m) : (encList g vs).length ≤ vs.length * m := by
  induction vs with
  | nil => simp [encList]
  | cons v vs ih =>
    have h1 := h v (by simp)
    have h2 := ih (fun w hw => h w (by simp [hw]))
    simp only [encList, List.length_append, List.length_cons, Nat.succ_mul]
    omega

theorem optAdd_some {a b : Option Nat} {m : Nat} (h : optAdd a b = some m) :
    ∃ x y, a = some x ∧ b = some y ∧ m = x + y := by
  cases a <;> cases b <;> simp [optAdd] at h
  exact ⟨_, _, rfl, rfl, h.symm⟩

theorem optMul_some {n : Nat} {a : Option Nat} {m : Nat} (h : optMul n a = some m) :
    ∃ x, a = some x ∧ m = n * x := by
  cases a <;> simp [optMul] at h
  exact ⟨_, rfl, h.symm⟩

theorem encCur1_length_le {n : Nat} : (encCur1 n).length ≤ 24 := by
  have := trimZeros_length_le (be16 n)
  rw [be16_length] at this
  simp [encCur1, u64le_length]; omega

theorem slice_bound {E : Env} {s : Sch} {vs : List Val} {n x : Nat}
    (hl : vs.length ≤ n) (h : ∀ v ∈ vs, (enc E s v).length ≤ x) :
    (u64le vs.length ++ encList (enc E s) vs).length ≤ 8 + n * x := by
  have h1 := encList_length_le vs h
  have h2 : vs.length * x ≤ n * x := Nat.mul_le_mul_right _ hl
  simp [u64le_length]; omega

/-- the size bound of a part -/
theorem maxSizeIn_bound (E : Env) (cur : Option Nat) (s : Sch) (m : Nat) (v : Val)
    (hm : maxSizeIn cur s = some m) (hc : Canon E s v) (hw : withinIn cur s v = true) :
    (enc E s v).length ≤ m := by
  induction s generalizing m v with
  | atom a =>
    cases a <;> simp only [maxSizeIn] at hm
    case u8 =>
      injection hm with hm; subst hm
      cases v <;> simp [Canon, canon, Atom.codec, isNat] at hc
      simp [enc, Atom.codec, leBytes_length]
    case u64 =>
      injection hm with hm; subst hm
      cases v <;> simp [Canon, canon, Atom.codec, isNat] at hc
      simp [enc, Atom.codec, u64le_length]
    case time =>
      injection hm with hm; subst hm
      cases v <;> simp [Canon, canon, Atom.codec, isNat] at hc
      simp [enc, Atom.codec, u64le_length]
    case bool =>
      injection hm with hm; subst hm
      cases v <;> simp [Canon, canon, Atom.codec] at hc
      simp [enc, Atom.codec]
    case fixed n =>
      injection hm with hm; subst hm
      cases v <;> simp [Canon, canon, Atom.codec, isBytes] at hc
      simp [enc, Atom.codec, hc]
    case pfixed n =>
      injection hm with hm; subst hm
      cases v <;> simp [Canon, canon, Atom.codec, isBytes] at hc
      simp [enc, Atom.codec, u64le_length, hc.1]
    case cur1 =>
      injection hm with hm; subst hm
      cases v <;> simp [Canon, canon, Atom.codec, isNat] at hc
      simp only [enc, Atom.codec]; exact encCur1_length_le
    case sfval1 =>
      injection hm with hm; subst hm
      cases v <;> simp [Canon, canon, Atom.codec, isNat] at hc
      simp only [enc, Atom.codec]; exact encCur1_length_le
    case cur1pad =>
      injection hm with hm; subst hm
      cases v <;> simp [Canon, canon, Atom.codec] at hc
      simp only [enc, Atom.codec]; decide
    all_goals
      obtain ⟨x, y, hx, hy, rfl⟩ := optAdd_some hm
      injection hx with hx; subst hx; subst hy
      cases v <;> simp [withinIn] at hw
      simp [enc, Atom.codec, u64le_length]; omega
  | nil => simp [enc]
  | cons l s r ihs ihr =>
    simp only [maxSizeIn] at hm
    obtain ⟨x, y, hx, hy, rfl⟩ := optAdd_some hm
    cases v <;> simp [Canon, canon] at hc
    rename_i a b
    simp only [withinIn, Bool.and_eq_true] at hw
    have h1 := ihs x a hx hc.1 hw.1
    have h2 := ihr y b hy hc.2 hw.2
    simp [enc]; omega
  | slice s ih =>
    cases cur with
    | none => simp [maxSizeIn] at hm
    | some n =>
      simp only [maxSizeIn] at hm
      obtain ⟨x8, y, hx8, hy, rfl⟩ := optAdd_some hm
      obtain ⟨x, hx, rfl⟩ := optMul_some hy
      injection hx8 with hx8; subst hx8
      cases v <;> simp [Canon, canon] at hc
      rename_i vs
      simp only [withinIn, Bool.and_eq_true, decide_eq_true_eq, List.all_eq_true] at hw
      simp only [enc]
      exact slice_bound hw.1 (fun w hwm => ih x w hx (hc.2 w hwm) (hw.2 w hwm))
  | opt s ih =>
    simp only [maxSizeIn] at hm
    obtain ⟨x1, y, hx1, hy, rfl⟩ := optAdd_some hm
    injection hx1 with hx1; subst hx1
    cases v <;> simp [Canon, canon] at hc
    · simp [enc]
    · rename_i a
      simp only [withinIn] at hw
      have := ih y a hy hc hw
      simp [enc]; omega
  | uslice s ih =>
    cases cur with
    | none => simp [maxSizeIn] at hm
    | some n =>
      simp only [maxSizeIn] at hm
      obtain ⟨x8, y, hx8, hy, rfl⟩ := optAdd_some hm
      obtain ⟨x, hx, rfl⟩ := optMul_some hy
      injection hx8 with hx8; subst hx8
      cases v <;> simp [Canon, canon] at hc
      rename_i vs
      simp only [withinIn, Bool.and_eq_true, decide_eq_true_eq, List.all_eq_true] at hw
      simp only [enc]
      exact slice_bound hw.1 (fun w hwm => ih x w hx (hc.2 w hwm) (hw.2 w hwm))
  | aslice s ih =>
    cases cur with
    | none => simp [maxSizeIn] at hm
    | some n =>
      simp only [maxSizeIn] at hm
      obtain ⟨x8, y, hx8, hy, rfl⟩ := optAdd_some hm
      obtain ⟨x, hx, rfl⟩ := optMul_some hy
      injection hx8 with hx8; subst hx8
      cases v <;> simp [Canon, canon] at hc
      rename_i vs
      simp only [withinIn, Bool.and_eq_true, decide_eq_true_eq, List.all_eq_true] at hw
      simp only [enc]
      exact slice_bound hw.1 (fun w hwm => ih x w hx (hc.2 w hwm) (hw.2 w hwm))
  | ext n => simp [maxSizeIn] at hm

/-- the size bound of a record under per-field limits -/
theorem maxSize_bound (E : Env) (B : Limits) (s : Sch) (m : Nat) (v : Val)
    (hm : maxSize B s = some m) (hc : Canon E s v) (hw : within B s v = true) :
    (enc E s v).length ≤ m := by
  induction s generalizing B m v with
  | cons l s r _ ihr =>
    cases B with
    | nil =>
      simp only [maxSize] at hm
      obtain ⟨x, y, hx, hy, rfl⟩ := optAdd_some hm
      cases v <;> simp [Canon, canon] at hc
      rename_i a b
      simp only [within, Bool.and_eq_true] at hw
      have h1 := maxSizeIn_bound E none s x a hx hc.1 hw.1
      have h2 := ihr [] y b hy hc.2 hw.2
      simp [enc]; omega
    | cons b0 B' =>
      simp only [maxSize] at hm
      obtain ⟨x, y, hx, hy, rfl⟩ := optAdd_some hm
      cases v <;> simp [Canon, canon] at hc
      rename_i a b
      simp only [within, Bool.and_eq_true] at hw
      have h1 := maxSizeIn_bound E b0.2 s x a hx hc.1 hw.1
      have h2 := ihr B' y b hy hc.2 hw.2
      simp [enc]; omega
  | nil => simp [enc]
  | atom a =>
    have hm' : maxSizeIn none (.atom a) = some m := by cases B <;> simpa [maxSize] using hm
    have hw' : withinIn none (.atom a) v = true := by cases B <;> simpa [within] using hw
    exact maxSizeIn_bound E none _ m v hm' hc hw'
  | slice s _ => cases B <;> simp [maxSize, maxSizeIn] at hm
  | uslice s _ => cases B <;> simp [maxSize, maxSizeIn] at hm
  | aslice s _ => cases B <;> simp [maxSize, maxSizeIn] at hm
  | opt s _ =>
    have hm' : maxSizeIn none (.opt s) = some m := by cases B <;> simpa [maxSize] using hm
    have hw' : withinIn none (.opt s) v = true := by cases B <;> simpa [within] using hw
    exact maxSizeIn_bound E none _ m v hm' hc hw'
  | ext n => cases B <;> simp [maxSize, maxSizeIn] at hm

end Sia.Codec
