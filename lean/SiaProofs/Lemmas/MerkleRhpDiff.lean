import SiaProofs.Lemmas.MerkleRhpLeaf
/-!
  Helper lemmas for C16, part 9: diff proofs (`verifyMulti` of rhp/v2 VerifyDiffProof,
  rhp/v4 VerifyFreeSectorsProof).
-/
set_option linter.unusedVariables false
set_option linter.unusedSectionVars false
namespace Sia.Rhp
open HashOps

variable {H : Type} [HashOps H]

/-- strictly increasing indices inside `[start, n)` (what `sectorsChanged` returns) -/
def IdxOK : Nat → List Nat → Nat → Prop
  | start, [], n => start ≤ n
  | start, e :: es, n => start ≤ e ∧ e < n ∧ IdxOK (e + 1) es n

/-- the honest tree hashes: the subtree roots of the gaps between the indices, up to `n` -/
def gapHashes (ls : List H) : List Nat → Nat → Nat → List H
  | [], start, n => buildRange ls start n
  | e :: es, start, n => buildRange ls start e ++ gapHashes ls es (e + 1) n

/-- `ls[start:n]` with the positions `idx` replaced by `leaves` -/
def patchFrom (ls : List H) : List Nat → List H → Nat → Nat → List H
  | [], _, start, n => (ls.drop start).take (n - start)
  | e :: es, l :: lv, start, n => (ls.drop start).take (e - start) ++ l :: patchFrom ls es lv (e + 1) n
  | _ :: _, [], start, n => (ls.drop start).take (n - start)

theorem IdxOK.le {start n : Nat} {idx : List Nat} (h : IdxOK start idx n) : start ≤ n := by
  induction idx generalizing start with
  | nil => exact h
  | cons e es ih => obtain ⟨h1, h2, h3⟩ := h; omega

theorem diffBuildRange_eq (ls : List H) (j : Nat) (hj : j ≤ ls.length) :
    ∀ (d i : Nat), j - i = d → diffBuildRange ls i j = .ok (buildRange ls i j) := by
  intro d
  induction d using Nat.strongRecOn with
  | _ d ih =>
    intro i hd
    rw [diffBuildRange]
    by_cases hlt : i < j
    · obtain ⟨k, hk, hdvd, hle⟩ := nss_spec hlt
      have hp := Nat.two_pow_pos k
      have hnc : ¬ (i + nextSubtreeSize i j > ls.length) := by rw [hk]; omega
      rw [buildRange_step ls i j ⟨hlt, by omega⟩]
      simp only [hlt, dite_true, hnc, if_false]
      rw [ih (j - (i + nextSubtreeSize i j)) (by rw [hk]; omega) _ rfl]
      rfl
    · rw [buildRange_done ls i j (by omega)]
      simp [hlt]

theorem diffTreeHashes_eq (ls : List H) : ∀ (idx : List Nat) (start : Nat), IdxOK start idx ls.length →
    diffTreeHashes ls idx start = .ok (gapHashes ls idx start ls.length) := by
  intro idx
  induction idx with
  | nil =>
    intro start h
    simp only [diffTreeHashes, gapHashes]
    exact diffBuildRange_eq ls ls.length (Nat.le_refl _) _ start rfl
  | cons e es ih =>
    intro start h
    obtain ⟨h1, h2, h3⟩ := h
    simp only [diffTreeHashes, gapHashes]
    rw [diffBuildRange_eq ls e (by omega) _ start rfl, ih (e + 1) h3]
    rfl

/-- the verifier's walk: starting from `pre` (`|pre| = start`) it consumes exactly the gap hashes
and ends up holding `pre ++ patch` — whatever leaf hashes it is given -/
theorem verifyMultiLoop_patch (ls : List H) (n : Nat) (hn : n ≤ ls.length) :
    ∀ (idx : List Nat) (start : Nat) (a : Acc H) (pre lv rest : List H),
      IdxOK start idx n → pre.length = start → Inv a pre → lv.length = idx.length →
      ∃ a', verifyMultiLoop a (gapHashes ls idx start n ++ rest) idx lv start n = .ok (a', rest) ∧
        Inv a' (pre ++ patchFrom ls idx lv start n) := by
  intro idx
  induction idx with
  | nil =>
    intro start a pre lv rest hok hpre hinv hlv
    simp only [verifyMultiLoop, gapHashes, patchFrom]
    obtain ⟨a', h1, h2⟩ := insertRange_buildRange_seg ls n hn (n - start) start a pre rest rfl hok hpre hinv
    exact ⟨a', by rw [h1], h2⟩
  | cons e es ih =>
    intro start a pre lv rest hok hpre hinv hlv
    obtain ⟨h1, h2, h3⟩ := hok
    cases lv with
    | nil => simp at hlv
    | cons l lv' =>
      simp only [verifyMultiLoop, gapHashes, patchFrom, List.append_assoc]
      obtain ⟨a1, e1, hinv1⟩ := insertRange_buildRange_seg ls e (by omega) (e - start) start a pre
        (gapHashes ls es (e + 1) n ++ rest) rfl h1 hpre hinv
      rw [e1]
      simp only
      have hinv2 := hinv1.insertLeaf l
      obtain ⟨a', e2, hinv3⟩ := ih (e + 1) (a1.insertNode l 0) (pre ++ (ls.drop start).take (e - start) ++ [l])
        lv' rest h3 (by simp [hpre, List.length_take, List.length_drop]; omega) hinv2 (by simpa using hlv)
      refine ⟨a', e2, ?_⟩
      simpa [List.append_assoc] using hinv3

/-- patching with the list's own elements changes nothing -/
theorem patchFrom_self (ls : List H) : ∀ (idx : List Nat) (start : Nat), IdxOK start idx ls.length →
    patchFrom ls idx (idx.map (fun j => ls.getD j zero)) start ls.length = ls.drop start := by
  intro idx
  induction idx with
  | nil =>
    intro start h
    simp only [patchFrom, List.map_nil]
    apply List.take_of_length_le; simp
  | cons e es ih =>
    intro start h
    obtain ⟨h1, h2, h3⟩ := h
    simp only [patchFrom, List.map_cons]
    rw [ih (e + 1) h3]
    have e1 : ls.getD e zero = ls[e] := by simp [List.getD, h2]
    rw [e1, List.getElem_cons_drop h2]
    have : ls.drop e = (ls.drop start).drop (e - start) := by
      rw [List.drop_drop]; congr 1; omega
    rw [this, List.take_append_drop]

theorem verifyMultiLoop_flow : ∀ (idx : List Nat) (th1 th2 lf1 lf2 : List H) (a1 a2 : Acc H) (start n : Nat),
    th1.length = th2.length → lf1.length = idx.length → lf2.length = idx.length → a1.n = a2.n →
    ∃ r1 r2, verifyMultiLoop a1 th1 idx lf1 start n = .ok r1 ∧ verifyMultiLoop a2 th2 idx lf2 start n = .ok r2 ∧
      r1.1.n = r2.1.n ∧ r1.2.length = r2.2.length := by
  intro idx
  induction idx with
  | nil =>
    intro th1 th2 lf1 lf2 a1 a2 start n hth h1 h2 hn
    simp only [verifyMultiLoop]
    exact ⟨_, _, rfl, rfl, insertRange_same_flow th1 th2 a1 a2 start n hth hn⟩
  | cons e es ih =>
    intro th1 th2 lf1 lf2 a1 a2 start n hth h1 h2 hn
    cases lf1 with
    | nil => simp at h1
    | cons l1 lf1' =>
      cases lf2 with
      | nil => simp at h2
      | cons l2 lf2' =>
        simp only [verifyMultiLoop]
        have f := insertRange_same_flow th1 th2 a1 a2 start e hth hn
        exact ih _ _ lf1' lf2' _ _ (e + 1) n f.2 (by simpa using h1) (by simpa using h2)
          (by simp [insertNode_n, f.1])

/-- injectivity of the verifier's walk against an honest run of the same length -/
theorem verifyMultiLoop_inj (hinj : NodeInj H) (ls : List H) (n : Nat) (hn : n ≤ ls.length) :
    ∀ (idx : List Nat) (start : Nat) (a1 a2 : Acc H) (pre2 th1 rest2 lf1 lf2 : List H)
      (r1 r2 : Acc H × List H),
      IdxOK start idx n → pre2.length = start → Inv a2 pre2 → a1.n = start →
      th1.length = (gapHashes ls idx start n ++ rest2).length →
      lf1.length = idx.length → lf2.length = idx.length →
      verifyMultiLoop a1 th1 idx lf1 start n = .ok r1 →
      verifyMultiLoop a2 (gapHashes ls idx start n ++ rest2) idx lf2 start n = .ok r2 →
      r1.1.stack = r2.1.stack → r1.2 = r2.2 →
      a1.stack = a2.stack ∧ th1 = gapHashes ls idx start n ++ rest2 ∧ lf1 = lf2 := by
  intro idx
  induction idx with
  | nil =>
    intro start a1 a2 pre2 th1 rest2 lf1 lf2 r1 r2 hok hpre hinv2 hn1 hth h1 h2 e1 e2 hs hr
    simp only [verifyMultiLoop, Except.ok.injEq] at e1 e2
    subst e1 e2
    have hn2 : a2.n = start := by rw [hinv2.2, hpre]
    obtain ⟨hst, hthe⟩ := insertRange_inj hinj th1 _ a1 a2 start n hth hn1 hn2 hs hr
    have : lf1 = lf2 := by
      have q1 : lf1 = [] := List.eq_nil_of_length_eq_zero (by simpa using h1)
      have q2 : lf2 = [] := List.eq_nil_of_length_eq_zero (by simpa using h2)
      rw [q1, q2]
    exact ⟨hst, hthe, this⟩
  | cons e es ih =>
    intro start a1 a2 pre2 th1 rest2 lf1 lf2 r1 r2 hok hpre hinv2 hn1 hth h1 h2 e1 e2 hs hr
    obtain ⟨hk1, hk2, hk3⟩ := hok
    have hn2 : a2.n = start := by rw [hinv2.2, hpre]
    cases lf1 with
    | nil => simp at h1
    | cons l1 lf1' =>
      cases lf2 with
      | nil => simp at h2
      | cons l2 lf2' =>
        simp only [verifyMultiLoop, gapHashes, List.append_assoc] at e1 e2 hth ⊢
        obtain ⟨b2, eb2, hinvb2⟩ := insertRange_buildRange_seg ls e (by omega) (e - start) start a2 pre2
          (gapHashes ls es (e + 1) n ++ rest2) rfl hk1 hpre hinv2
        have f := insertRange_same_flow th1 _ a1 a2 start e hth (by rw [hn1, hn2])
        rw [eb2] at e2 f
        simp only at e2 f
        have hb2n : b2.n = e := by
          rw [hinvb2.2]; simp [hpre, List.length_take, List.length_drop]; omega
        have hinvb2' := hinvb2.insertLeaf l2
        obtain ⟨hst', hth', hlf'⟩ := ih (e + 1) _ _ (pre2 ++ (ls.drop start).take (e - start) ++ [l2])
          (insertRange a1 th1 start e).2 rest2 lf1' lf2' r1 r2 hk3
          (by simp [hpre, List.length_take, List.length_drop]; omega) hinvb2'
          (by simp [insertNode_n, f.1, hb2n]) f.2 (by simpa using h1) (by simpa using h2) e1 e2 hs hr
        obtain ⟨hst1, hl⟩ := insertNode_inj hinj _ _ l1 l2 0 (by rw [f.1]) (by simp) hst'
        have := insertRange_inj hinj th1 _ a1 a2 start e hth hn1 hn2
          (by rw [eb2]; exact hst1) (by rw [eb2]; exact hth')
        subst hl hlf'
        exact ⟨this.1, this.2, rfl⟩


/-! ### counting what `verifyMulti` consumes (for the proposed fix: also require
`acc.numLeaves == numLeaves`) -/

theorem insertRange_count : ∀ (th : List H) (a : Acc H) (i j : Nat), i ≤ j →
    (insertRange a th i j).1.n ≤ a.n + (j - i) ∧
    ((insertRange a th i j).1.n = a.n + (j - i) →
      th.length = diffRangeCount i j + (insertRange a th i j).2.length) := by
  intro th
  induction th with
  | nil =>
    intro a i j hij
    simp only [insertRange, List.length_nil]
    refine ⟨by omega, ?_⟩
    intro h
    have : i = j := by omega
    subst this
    rw [diffRangeCount_unfold]; simp
  | cons p ps ih =>
    intro a i j hij
    by_cases hlt : i < j
    · obtain ⟨k, hk, hdvd, hle⟩ := nss_spec hlt
      have hp := Nat.two_pow_pos k
      rw [insertRange_cons a p ps i j hlt, hk, tz_two_pow]
      obtain ⟨h1, h2⟩ := ih (a.insertNode p k) (i + 2 ^ k) j hle
      rw [insertNode_n] at h1 h2
      refine ⟨by omega, ?_⟩
      intro h
      have := h2 (by omega)
      rw [diffRangeCount_unfold i j]
      simp only [hlt, if_true, hk, List.length_cons]
      omega
    · have : i = j := by omega
      subst this
      rw [insertRange_done a _ i i (by omega)]
      simp only
      refine ⟨by omega, ?_⟩
      intro _
      rw [diffRangeCount_unfold]; simp

theorem verifyMultiLoop_count : ∀ (idx : List Nat) (start n : Nat) (a : Acc H) (th lf : List H)
    (r : Acc H × List H), IdxOK start idx n → verifyMultiLoop a th idx lf start n = .ok r →
    r.1.n ≤ a.n + (n - start) ∧
    (r.1.n = a.n + (n - start) → th.length = diffTreeCount idx start n + r.2.length) := by
  intro idx
  induction idx with
  | nil =>
    intro start n a th lf r hok e
    simp only [verifyMultiLoop, Except.ok.injEq] at e
    subst e
    simp only [diffTreeCount]
    exact insertRange_count th a start n hok
  | cons e es ih =>
    intro start n a th lf r hok heq
    obtain ⟨h1, h2, h3⟩ := hok
    cases lf with
    | nil => simp [verifyMultiLoop] at heq
    | cons l lf' =>
      simp only [verifyMultiLoop] at heq
      obtain ⟨c1, c2⟩ := insertRange_count th a start e h1
      obtain ⟨d1, d2⟩ := ih (e + 1) n _ _ lf' r h3 heq
      rw [insertNode_n] at d1 d2
      have hle := h3.le
      refine ⟨by omega, ?_⟩
      intro h
      have q1 := c2 (by omega)
      have q2 := d2 (by omega)
      simp only [diffTreeCount]
      omega


theorem verifyMultiLoop_patch_length (ls : List H) (n : Nat) (hn : n ≤ ls.length) :
    ∀ (idx : List Nat) (start : Nat) (lv : List H), IdxOK start idx n → lv.length = idx.length →
      (patchFrom ls idx lv start n).length = n - start := by
  intro idx
  induction idx with
  | nil =>
    intro start lv hok hlv
    simp only [patchFrom, List.length_take, List.length_drop]
    have : start ≤ n := hok
    omega
  | cons e es ih =>
    intro start lv hok hlv
    obtain ⟨h1, h2, h3⟩ := hok
    cases lv with
    | nil => simp at hlv
    | cons l lv' =>
      simp only [patchFrom, List.length_append, List.length_cons, List.length_take, List.length_drop]
      rw [ih (e + 1) lv' h3 (by simpa using hlv)]
      have := h3.le
      omega

end Sia.Rhp
