import SiaProofs.Lemmas.LedgerC01Inv
/-!
# C01 helper lemmas, part 7: specification of each mid-state primitive
-/
namespace Sia.Ledger

theorem base_unique {α : Type} (l : List α) (eid : α → Id) (hn : (l.map eid).Nodup) {a b : α}
    (ha : a ∈ l) (hb : b ∈ l) (h : eid a = eid b) : a = b := by
  induction l with
  | nil => cases ha
  | cons x l ih =>
    simp only [List.map_cons, List.nodup_cons] at hn
    rcases List.mem_cons.mp ha with ha' | ha' <;> rcases List.mem_cons.mp hb with hb' | hb'
    · rw [ha', hb']
    · subst ha'; exact absurd (h ▸ List.mem_map_of_mem hb') hn.1
    · subst hb'; exact absurd (h ▸ List.mem_map_of_mem ha') hn.1
    · exact ih hn.2 ha' hb'

-- ------------------------------------------------------------------ siacoin outputs

theorem createSc_spec {T} {ms : Mid} (hc : Ctx T ms.base) (hI : Inv T ms) {id : Id} {R : List (Kind × Id)}
    (hF : Fresh T ms ((Kind.sc, id) :: R)) (o : ScOut) (mat : Nat) :
    Inv T (ms.createSc id o mat) ∧ Agree ms (ms.createSc id o mat) (· = id) ∧ Fresh T (ms.createSc id o mat) R ∧
    Phi (ms.createSc id o mat) = Phi ms + o.value ∧ sfTot (ms.createSc id o mat) = sfTot ms ∧
    (ms.createSc id o mat).pool = ms.pool ∧ (ms.createSc id o mat).base = ms.base := by
  obtain ⟨hT, hl, hb⟩ := hF.2 (Kind.sc, id) (List.mem_cons_self)
  simp only [] at hT hl hb
  have hv : ms.scDiff? id = none := scDiff?_none_of_lookup hl
  unfold Mid.createSc
  generalize hf : (fun d : ScDiff => ({ d with e := { id := id, value := o.value, addr := o.addr, maturity := mat, leaf := none }, created := true } : ScDiff)) = f
  have hnew : scNew ms id f = ⟨⟨id, o.value, o.addr, mat, none⟩, true, false⟩ := by
    unfold scNew; rw [hv, ← hf]; rfl
  have hfid : (scNew ms id f).e.id = id := by rw [hnew]
  have hok : ScOk ms.base ms.spends (scNew ms id f) := by
    rw [hnew]; unfold ScOk
    refine ⟨fun _ => hb Kind.sc, fun h => ?_, fun h => ?_⟩ <;> simp at h
  have hA := putSc_agree hI.struct hc.disj hT f hfid
  refine ⟨putSc_inv hI hc.disj hT f hfid hok, hA, hF.tail.agree hA (fun q hq => hF.head_not_mem q hq), ?_, ?_,
    putSc_pool _ _ _, putSc_base _ _ _⟩
  · unfold Phi
    rw [putSc_tot_fresh hI.struct hc.disj hT f hfid hv (hb Kind.sc),
      fc1Tot_congr (putSc_base _ _ _) (putSc_fces _ _ _), fc2Tot_congr (putSc_base _ _ _) (putSc_v2fces _ _ _),
      putSc_pool, hnew]
    have : scDv ⟨⟨id, o.value, o.addr, mat, none⟩, true, false⟩ = o.value := rfl
    rw [this]; omega
  · exact sfTot_congr (putSc_base _ _ _) (putSc_sfes _ _ _)

/-- what validation establishes about a siacoin element that is about to be spent -/
def SpendableSc (T : Kind → Id → Prop) (ms : Mid) (e : ScElem) : Prop :=
  T Kind.sc e.id ∧
  match ms.scDiff? e.id with
  | none => e ∈ ms.base.sc
  | some d => d.spent = false ∧ d.e.value = e.value

theorem SpendableSc.agree {T ms ms' e} {P : Id → Prop} (h : SpendableSc T ms e) (ha : Agree ms ms' P) (hp : ¬ P e.id) :
    SpendableSc T ms' e := by
  unfold SpendableSc at *
  rw [(ha.2 e.id hp).2.1, ha.1]; exact h

theorem SpendableSc.not_fresh {T ms e R} (h : SpendableSc T ms e) (hF : Fresh T ms R) : ∀ q ∈ R, q.2 ≠ e.id := by
  intro q hq he
  obtain ⟨_, hl, hb⟩ := hF.2 q hq
  rw [he] at hl hb
  have hv := scDiff?_none_of_lookup hl
  unfold SpendableSc at h; rw [hv] at h
  exact hb Kind.sc (List.mem_map_of_mem h.2)

theorem spendSc_spec {T} {ms : Mid} (hc : Ctx T ms.base) (hI : Inv T ms) {e : ScElem} (hs : SpendableSc T ms e) :
    Inv T (ms.spendSc e) ∧ Agree ms (ms.spendSc e) (· = e.id) ∧
    Phi (ms.spendSc e) + e.value = Phi ms ∧ sfTot (ms.spendSc e) = sfTot ms ∧
    (ms.spendSc e).pool = ms.pool ∧ (ms.spendSc e).base = ms.base := by
  obtain ⟨hT, hm⟩ := hs
  unfold Mid.spendSc
  generalize hf : (fun d : ScDiff => ({ d with e := e, spent := true } : ScDiff)) = f
  have hnew : scNew ms e.id f = { ((ms.scDiff? e.id).getD default) with e := e, spent := true } := by
    unfold scNew; rw [← hf]
  have hfid : (scNew ms e.id f).e.id = e.id := by rw [hnew]
  have hok : ScOk ms.base (e.id :: ms.spends) (scNew ms e.id f) := by
    rw [hnew]
    cases hv : ms.scDiff? e.id with
    | none =>
      rw [hv] at hm
      unfold ScOk
      refine ⟨fun h => ?_, fun _ => ⟨rfl, hm⟩, fun _ => List.mem_cons_self⟩
      have hdc : (default : ScDiff).created = false := rfl
      simp only [Option.getD_none, hdc] at h; cases h
    | some d =>
      rw [hv] at hm
      have hd := hI.sc d (scDiff?_mem hv).1
      have hid := (scDiff?_mem hv).2
      simp only [Option.getD_some]
      unfold ScOk
      refine ⟨fun h => ?_, fun h => ?_, fun _ => List.mem_cons_self⟩
      · have := hd.1 h; rw [hid] at this; exact this
      · have := (hd.2.1 h).1; rw [hm.1] at this; cases this
  have hA1 := putSc_agree hI.struct hc.disj hT f hfid
  have hA2 := agree_addSpend (ms.putSc e.id f) e.id
  simp only [putSc_spends] at hA2 ⊢
  have hI' := putSc_inv' hI hc.disj hT f hfid (e.id :: ms.spends) (fun x hx => List.mem_cons_of_mem _ hx) hok
  refine ⟨hI', hA1.trans hA2, ?_, ?_, putSc_pool _ _ _, putSc_base _ _ _⟩
  · unfold Phi
    have e1 : scTot { ms.putSc e.id f with spends := e.id :: ms.spends } = scTot (ms.putSc e.id f) := scTot_congr rfl rfl
    have e2 : fc1Tot { ms.putSc e.id f with spends := e.id :: ms.spends } = fc1Tot ms :=
      fc1Tot_congr (putSc_base _ _ _) (putSc_fces _ _ _)
    have e3 : fc2Tot { ms.putSc e.id f with spends := e.id :: ms.spends } = fc2Tot ms :=
      fc2Tot_congr (putSc_base _ _ _) (putSc_v2fces _ _ _)
    have e4 : ({ ms.putSc e.id f with spends := e.id :: ms.spends } : Mid).pool = ms.pool := putSc_pool _ _ _
    rw [e1, e2, e3, e4]
    have hdv : scDv (scNew ms e.id f) = 0 := by rw [hnew]; rfl
    cases hv : ms.scDiff? e.id with
    | none =>
      rw [hv] at hm
      have := putSc_tot_base hI.struct hc.disj hT f hfid hv hm rfl (hc.nodup Kind.sc)
      omega
    | some d =>
      rw [hv] at hm
      have := putSc_tot_found hI.struct hc.disj hT f hfid hv
      have hd : scDv d = e.value := by unfold scDv; rw [hm.1]; exact hm.2
      omega
  · exact sfTot_congr (putSc_base _ _ _) (putSc_sfes _ _ _)

-- ------------------------------------------------------------------ siafund outputs

theorem createSf_spec {T} {ms : Mid} (hc : Ctx T ms.base) (hI : Inv T ms) {id : Id} {R : List (Kind × Id)}
    (hF : Fresh T ms ((Kind.sf, id) :: R)) (v : Nat) (a : Addr) :
    Inv T (ms.createSf id v a) ∧ Agree ms (ms.createSf id v a) (· = id) ∧ Fresh T (ms.createSf id v a) R ∧
    Phi (ms.createSf id v a) = Phi ms ∧ sfTot (ms.createSf id v a) = sfTot ms + v ∧
    (ms.createSf id v a).pool = ms.pool ∧ (ms.createSf id v a).base = ms.base := by
  obtain ⟨hT, hl, hb⟩ := hF.2 (Kind.sf, id) (List.mem_cons_self)
  simp only [] at hT hl hb
  have hv : ms.sfDiff? id = none := sfDiff?_none_of_lookup hl
  unfold Mid.createSf
  generalize hf : (fun d : SfDiff => ({ d with e := { id := id, value := v, addr := a, claimStart := ms.pool, leaf := none }, created := true } : SfDiff)) = f
  have hnew : sfNew ms id f = ⟨⟨id, v, a, ms.pool, none⟩, true, false⟩ := by
    unfold sfNew; rw [hv, ← hf]; rfl
  have hfid : (sfNew ms id f).e.id = id := by rw [hnew]
  have hok : SfOk ms.base ms.spends (sfNew ms id f) := by
    rw [hnew]; unfold SfOk
    refine ⟨fun _ => hb Kind.sf, fun h => ?_, fun h => ?_⟩ <;> simp at h
  have hA := putSf_agree hI.struct hc.disj hT f hfid
  refine ⟨putSf_inv hI hc.disj hT f hfid hok, hA, hF.tail.agree hA (fun q hq => hF.head_not_mem q hq), ?_, ?_,
    putSf_pool _ _ _, putSf_base _ _ _⟩
  · unfold Phi
    rw [scTot_congr (putSf_base _ _ _) (putSf_sces _ _ _),
      fc1Tot_congr (putSf_base _ _ _) (putSf_fces _ _ _), fc2Tot_congr (putSf_base _ _ _) (putSf_v2fces _ _ _),
      putSf_pool]
  · rw [putSf_tot_fresh hI.struct hc.disj hT f hfid hv (hb Kind.sf), hnew]
    rfl

/-- what validation establishes about a siafund element that is about to be spent -/
def SpendableSf (T : Kind → Id → Prop) (ms : Mid) (e : SfElem) : Prop :=
  T Kind.sf e.id ∧
  match ms.sfDiff? e.id with
  | none => e ∈ ms.base.sf
  | some d => d.spent = false ∧ d.e.value = e.value

theorem SpendableSf.agree {T ms ms' e} {P : Id → Prop} (h : SpendableSf T ms e) (ha : Agree ms ms' P) (hp : ¬ P e.id) :
    SpendableSf T ms' e := by
  unfold SpendableSf at *
  rw [(ha.2 e.id hp).2.2.1, ha.1]; exact h

theorem SpendableSf.not_fresh {T ms e R} (h : SpendableSf T ms e) (hF : Fresh T ms R) : ∀ q ∈ R, q.2 ≠ e.id := by
  intro q hq he
  obtain ⟨_, hl, hb⟩ := hF.2 q hq
  rw [he] at hl hb
  have hv := sfDiff?_none_of_lookup hl
  unfold SpendableSf at h; rw [hv] at h
  exact hb Kind.sf (List.mem_map_of_mem h.2)

theorem spendSf_spec {T} {ms : Mid} (hc : Ctx T ms.base) (hI : Inv T ms) {e : SfElem} (hs : SpendableSf T ms e) :
    Inv T (ms.spendSf e) ∧ Agree ms (ms.spendSf e) (· = e.id) ∧
    Phi (ms.spendSf e) = Phi ms ∧ sfTot (ms.spendSf e) + e.value = sfTot ms ∧
    (ms.spendSf e).pool = ms.pool ∧ (ms.spendSf e).base = ms.base := by
  obtain ⟨hT, hm⟩ := hs
  unfold Mid.spendSf
  generalize hf : (fun d : SfDiff => ({ d with e := e, spent := true } : SfDiff)) = f
  have hnew : sfNew ms e.id f = { ((ms.sfDiff? e.id).getD default) with e := e, spent := true } := by
    unfold sfNew; rw [← hf]
  have hfid : (sfNew ms e.id f).e.id = e.id := by rw [hnew]
  have hok : SfOk ms.base (e.id :: ms.spends) (sfNew ms e.id f) := by
    rw [hnew]
    cases hv : ms.sfDiff? e.id with
    | none =>
      rw [hv] at hm
      unfold SfOk
      refine ⟨fun h => ?_, fun _ => ⟨rfl, hm⟩, fun _ => List.mem_cons_self⟩
      have hdc : (default : SfDiff).created = false := rfl
      simp only [Option.getD_none, hdc] at h; cases h
    | some d =>
      rw [hv] at hm
      have hd := hI.sf d (sfDiff?_mem hv).1
      have hid := (sfDiff?_mem hv).2
      simp only [Option.getD_some]
      unfold SfOk
      refine ⟨fun h => ?_, fun h => ?_, fun _ => List.mem_cons_self⟩
      · have := hd.1 h; rw [hid] at this; exact this
      · have := (hd.2.1 h).1; rw [hm.1] at this; cases this
  have hA1 := putSf_agree hI.struct hc.disj hT f hfid
  have hA2 := agree_addSpend (ms.putSf e.id f) e.id
  simp only [putSf_spends] at hA2 ⊢
  have hI' := putSf_inv' hI hc.disj hT f hfid (e.id :: ms.spends) (fun x hx => List.mem_cons_of_mem _ hx) hok
  refine ⟨hI', hA1.trans hA2, ?_, ?_, putSf_pool _ _ _, putSf_base _ _ _⟩
  · unfold Phi
    have e1 : scTot { ms.putSf e.id f with spends := e.id :: ms.spends } = scTot ms :=
      scTot_congr (putSf_base _ _ _) (putSf_sces _ _ _)
    have e2 : fc1Tot { ms.putSf e.id f with spends := e.id :: ms.spends } = fc1Tot ms :=
      fc1Tot_congr (putSf_base _ _ _) (putSf_fces _ _ _)
    have e3 : fc2Tot { ms.putSf e.id f with spends := e.id :: ms.spends } = fc2Tot ms :=
      fc2Tot_congr (putSf_base _ _ _) (putSf_v2fces _ _ _)
    have e4 : ({ ms.putSf e.id f with spends := e.id :: ms.spends } : Mid).pool = ms.pool := putSf_pool _ _ _
    rw [e1, e2, e3, e4]
  · have e1 : sfTot { ms.putSf e.id f with spends := e.id :: ms.spends } = sfTot (ms.putSf e.id f) := sfTot_congr rfl rfl
    rw [e1]
    have hdv : sfDv (sfNew ms e.id f) = 0 := by rw [hnew]; rfl
    cases hv : ms.sfDiff? e.id with
    | none =>
      rw [hv] at hm
      have := putSf_tot_base hI.struct hc.disj hT f hfid hv hm rfl (hc.nodup Kind.sf)
      omega
    | some d =>
      rw [hv] at hm
      have := putSf_tot_found hI.struct hc.disj hT f hfid hv
      have hd : sfDv d = e.value := by unfold sfDv; rw [hm.1]; exact hm.2
      omega

-- ------------------------------------------------------------------ v2 contracts

theorem v2Tax_ok {fc : Fc2} {t : Cur} (h : v2Tax fc = .ok t) : t = fc.val / 25 := by
  unfold v2Tax at h; rw [bind_eq_ok] at h
  obtain ⟨s, h1, h2⟩ := h
  rw [addC_ok] at h1; cases h2; rw [h1.2]; rfl

theorem createFc2_spec {T} {ms ms' : Mid} (hc : Ctx T ms.base) (hI : Inv T ms) {id : Id} {R : List (Kind × Id)}
    (hF : Fresh T ms ((Kind.fc2, id) :: R)) {fc : Fc2} (hmh : fc.missedHost ≤ fc.host.value)
    (h : ms.createFc2 id fc = .ok ms') :
    Inv T ms' ∧ Agree ms ms' (· = id) ∧ Fresh T ms' R ∧
    Phi ms' = Phi ms + fc.val + fc.val / 25 ∧ sfTot ms' = sfTot ms ∧
    ms'.pool = ms.pool + fc.val / 25 ∧ ms'.base = ms.base := by
  obtain ⟨hT, hl, hb⟩ := hF.2 (Kind.fc2, id) (List.mem_cons_self)
  simp only [] at hT hl hb
  have hv : ms.fc2Diff? id = none := fc2Diff?_none_of_lookup hl
  unfold Mid.createFc2 at h
  generalize hf : (fun d : Fc2Diff => ({ d with e := { id := id, fc := fc, leaf := none }, created := true } : Fc2Diff)) = f at h
  simp only [] at h
  rw [bind_eq_ok] at h; obtain ⟨tax, ht, h⟩ := h
  rw [bind_eq_ok] at h; obtain ⟨pool, hp, h⟩ := h
  have htax := v2Tax_ok ht
  rw [addC_ok, putFc2_pool] at hp
  cases h
  have hnew : fc2New ms id f = ⟨⟨id, fc, none⟩, true, none, none⟩ := by
    unfold fc2New; rw [hv, ← hf]; rfl
  have hfid : (fc2New ms id f).e.id = id := by rw [hnew]
  have hok : Fc2Ok ms.base ms.spends (fc2New ms id f) := by
    rw [hnew]; unfold Fc2Ok
    refine ⟨fun _ => hb Kind.fc2, fun h => ?_, fun h => ?_, rfl, hmh⟩ <;> simp at h
  have hA := putFc2_agree hI.struct hc.disj hT f hfid
  have hI1 := putFc2_inv hI hc.disj hT f hfid hok
  have hA2 : Agree (ms.putFc2 id f) { ms.putFc2 id f with pool := pool } (· = id) :=
    agree_scalars rfl rfl rfl rfl rfl rfl rfl _
  have hAA := hA.trans hA2
  refine ⟨hI1.scalars rfl rfl rfl rfl rfl rfl rfl, hAA, hF.tail.agree hAA (fun q hq => hF.head_not_mem q hq), ?_, ?_, ?_,
    putFc2_base _ _ _⟩
  · unfold Phi
    have e1 : scTot { ms.putFc2 id f with pool := pool } = scTot ms := scTot_congr (putFc2_base _ _ _) (putFc2_sces _ _ _)
    have e2 : fc1Tot { ms.putFc2 id f with pool := pool } = fc1Tot ms := fc1Tot_congr (putFc2_base _ _ _) (putFc2_fces _ _ _)
    have e3 : fc2Tot { ms.putFc2 id f with pool := pool } = fc2Tot (ms.putFc2 id f) := fc2Tot_congr rfl rfl
    rw [e1, e2, e3, putFc2_tot_fresh hI.struct hc.disj hT f hfid hv (hb Kind.fc2), hnew]
    have : fc2Dv ⟨⟨id, fc, none⟩, true, none, none⟩ = fc.val := rfl
    rw [this]; simp only []; rw [hp.2, htax]; omega
  · exact sfTot_congr (putFc2_base _ _ _) (putFc2_sfes _ _ _)
  · simp only []; rw [hp.2, htax]

/-- what validation establishes about a v2 contract that is about to be revised or resolved -/
def LiveFc2 (T : Kind → Id → Prop) (ms : Mid) (e : Fc2Elem) : Prop :=
  T Kind.fc2 e.id ∧ e ∈ ms.base.fc2 ∧
  match ms.fc2Diff? e.id with
  | none => True
  | some d => d.resolution = none

theorem LiveFc2.agree {T ms ms' e} {P : Id → Prop} (h : LiveFc2 T ms e) (ha : Agree ms ms' P) (hp : ¬ P e.id) :
    LiveFc2 T ms' e := by
  unfold LiveFc2 at *
  rw [(ha.2 e.id hp).2.2.2.2.1, ha.1]; exact h

theorem LiveFc2.not_fresh {T ms e R} (h : LiveFc2 T ms e) (hF : Fresh T ms R) : ∀ q ∈ R, q.2 ≠ e.id := by
  intro q hq he
  obtain ⟨_, _, hb⟩ := hF.2 q hq
  rw [he] at hb
  exact hb Kind.fc2 (List.mem_map_of_mem h.2.1)

/-- a diff recorded for a base contract is not `created`, and carries that very contract -/
theorem LiveFc2.diff {T ms e} (hc : Ctx T ms.base) (hI : Inv T ms) (h : LiveFc2 T ms e) {d : Fc2Diff}
    (hv : ms.fc2Diff? e.id = some d) : d.created = false ∧ d.e = e := by
  have hd := hI.fc2 d (fc2Diff?_mem hv).1
  have hid := (fc2Diff?_mem hv).2
  have hcr : d.created = false := by
    cases hcd : d.created with
    | false => rfl
    | true =>
      have := hd.1 hcd; rw [hid] at this
      exact absurd (List.mem_map_of_mem h.2.1) this
  exact ⟨hcr, base_unique ms.base.fc2 (·.id) (hc.nodup Kind.fc2) (hd.2.1 hcr) h.2.1 hid⟩

theorem reviseFc2_spec {T} {ms : Mid} (hc : Ctx T ms.base) (hI : Inv T ms) {e : Fc2Elem} (hs : LiveFc2 T ms e)
    {rev : Fc2} (hval : rev.val = e.fc.val) (hmh : rev.missedHost ≤ rev.host.value) :
    Inv T (ms.reviseFc2 e rev) ∧ Agree ms (ms.reviseFc2 e rev) (· = e.id) ∧
    Phi (ms.reviseFc2 e rev) = Phi ms ∧ sfTot (ms.reviseFc2 e rev) = sfTot ms ∧
    (ms.reviseFc2 e rev).pool = ms.pool ∧ (ms.reviseFc2 e rev).base = ms.base := by
  have hT := hs.1
  unfold Mid.reviseFc2
  generalize hf : (fun d : Fc2Diff =>
      if d.created then ({ d with e := { d.e with fc := rev } } : Fc2Diff)
      else if d.revision.isSome then { d with revision := some rev }
      else { d with e := e, revision := some rev }) = f
  -- the new diff in both cases
  have hnew : fc2New ms e.id f = ⟨e, false, some rev, none⟩ := by
    unfold fc2New
    cases hv : ms.fc2Diff? e.id with
    | none => rw [← hf]; rfl
    | some d =>
      obtain ⟨hcr, hde⟩ := hs.diff hc hI hv
      have hres : d.resolution = none := by have := hs.2.2; rw [hv] at this; exact this
      rw [← hf]; simp only [Option.getD_some, hcr]
      cases hr : d.revision with
      | none =>
        simp only [Bool.false_eq_true, if_false, Option.isSome_none]
        rw [← hres]
      | some r =>
        simp only [Bool.false_eq_true, if_false, Option.isSome_some, if_true]
        rw [← hres, ← hde, ← hcr]
  have hfid : (fc2New ms e.id f).e.id = e.id := by rw [hnew]
  have hok : Fc2Ok ms.base ms.spends (fc2New ms e.id f) := by
    rw [hnew]; unfold Fc2Ok
    refine ⟨fun h => ?_, fun _ => hs.2.1, fun h => ?_, hval, hmh⟩ <;> simp at h
  have hA := putFc2_agree hI.struct hc.disj hT f hfid
  refine ⟨putFc2_inv hI hc.disj hT f hfid hok, hA, ?_, sfTot_congr (putFc2_base _ _ _) (putFc2_sfes _ _ _),
    putFc2_pool _ _ _, putFc2_base _ _ _⟩
  unfold Phi
  rw [scTot_congr (putFc2_base _ _ _) (putFc2_sces _ _ _), fc1Tot_congr (putFc2_base _ _ _) (putFc2_fces _ _ _),
    putFc2_pool]
  have hdv : fc2Dv (fc2New ms e.id f) = e.fc.val := by rw [hnew]; exact hval
  cases hv : ms.fc2Diff? e.id with
  | none =>
    have := putFc2_tot_base hI.struct hc.disj hT f hfid hv hs.2.1 rfl (hc.nodup Kind.fc2)
    omega
  | some d =>
    obtain ⟨hcr, hde⟩ := hs.diff hc hI hv
    have hres : d.resolution = none := by have := hs.2.2; rw [hv] at this; exact this
    have hd := hI.fc2 d (fc2Diff?_mem hv).1
    have hdd : fc2Dv d = e.fc.val := by
      unfold fc2Dv; rw [hres]; simp only [Option.isNone_none, if_true]; rw [hd.2.2.2.1, hde]
    have := putFc2_tot_found hI.struct hc.disj hT f hfid hv
    omega

theorem resolveFc2_spec {T} {ms ms' : Mid} (hc : Ctx T ms.base) (hI : Inv T ms) {e : Fc2Elem} (hs : LiveFc2 T ms e)
    {k : ResKind} (h : ms.resolveFc2 e k = .ok ms') :
    Inv T ms' ∧ Agree ms ms' (· = e.id) ∧
    Phi ms' + e.fc.val = Phi ms ∧ sfTot ms' = sfTot ms ∧ ms'.pool = ms.pool ∧ ms'.base = ms.base := by
  have hT := hs.1
  generalize hf : (fun d : Fc2Diff => ({ d with e := e, resolution := some k } : Fc2Diff)) = f at h
  have hms' : ms' = { ms.putFc2 e.id f with spends := e.id :: (ms.putFc2 e.id f).spends } := by
    unfold Mid.resolveFc2 at h
    rw [hf] at h
    split at h
    · split at h
      · cases h
      · cases h; rfl
    · cases h; rfl
  subst hms'
  have hnew : ∃ rv, fc2New ms e.id f = ⟨e, false, rv, some k⟩ ∧
      (∀ r, rv = some r → r.val = e.fc.val ∧ r.missedHost ≤ r.host.value) := by
    unfold fc2New
    cases hv : ms.fc2Diff? e.id with
    | none =>
      refine ⟨none, ?_, fun r hr => by cases hr⟩
      rw [← hf]; rfl
    | some d =>
      obtain ⟨hcr, hde⟩ := hs.diff hc hI hv
      have hd := hI.fc2 d (fc2Diff?_mem hv).1
      refine ⟨d.revision, ?_, fun r hr => ?_⟩
      · rw [← hf]; simp only [Option.getD_some]; rw [← hcr]
      · have h1 := hd.2.2.2.1; have h2 := hd.2.2.2.2
        unfold Fc2Diff.current at h1 h2; rw [hr] at h1 h2; simp only [] at h1 h2
        rw [hde] at h1; exact ⟨h1, h2⟩
  obtain ⟨rv, hnew, hrv⟩ := hnew
  have hfid : (fc2New ms e.id f).e.id = e.id := by rw [hnew]
  have hok : Fc2Ok ms.base (e.id :: ms.spends) (fc2New ms e.id f) := by
    rw [hnew]; unfold Fc2Ok
    refine ⟨fun h => ?_, fun _ => hs.2.1, fun _ => List.mem_cons_self, ?_, ?_⟩
    · simp at h
    · unfold Fc2Diff.current; cases rv with
      | none => rfl
      | some r => exact (hrv r rfl).1
    · unfold Fc2Diff.current; cases rv with
      | none => exact hc.fc2_missed e hs.2.1
      | some r => exact (hrv r rfl).2
  have hA1 := putFc2_agree hI.struct hc.disj hT f hfid
  have hA2 := agree_addSpend (ms.putFc2 e.id f) e.id
  simp only [putFc2_spends] at hA2 ⊢
  have hI' := putFc2_inv' hI hc.disj hT f hfid (e.id :: ms.spends) (fun x hx => List.mem_cons_of_mem _ hx) hok
  refine ⟨hI', hA1.trans hA2, ?_, sfTot_congr (putFc2_base _ _ _) (putFc2_sfes _ _ _), putFc2_pool _ _ _, putFc2_base _ _ _⟩
  unfold Phi
  have e1 : scTot { ms.putFc2 e.id f with spends := e.id :: ms.spends } = scTot ms :=
    scTot_congr (putFc2_base _ _ _) (putFc2_sces _ _ _)
  have e2 : fc1Tot { ms.putFc2 e.id f with spends := e.id :: ms.spends } = fc1Tot ms :=
    fc1Tot_congr (putFc2_base _ _ _) (putFc2_fces _ _ _)
  have e3 : fc2Tot { ms.putFc2 e.id f with spends := e.id :: ms.spends } = fc2Tot (ms.putFc2 e.id f) :=
    fc2Tot_congr rfl rfl
  have e4 : ({ ms.putFc2 e.id f with spends := e.id :: ms.spends } : Mid).pool = ms.pool := putFc2_pool _ _ _
  rw [e1, e2, e3, e4]
  have hdv : fc2Dv (fc2New ms e.id f) = 0 := by rw [hnew]; rfl
  cases hv : ms.fc2Diff? e.id with
  | none =>
    have := putFc2_tot_base hI.struct hc.disj hT f hfid hv hs.2.1 rfl (hc.nodup Kind.fc2)
    omega
  | some d =>
    obtain ⟨hcr, hde⟩ := hs.diff hc hI hv
    have hres : d.resolution = none := by have := hs.2.2; rw [hv] at this; exact this
    have hd := hI.fc2 d (fc2Diff?_mem hv).1
    have hdd : fc2Dv d = e.fc.val := by
      unfold fc2Dv; rw [hres]; simp only [Option.isNone_none, if_true]; rw [hd.2.2.2.1, hde]
    have := putFc2_tot_found hI.struct hc.disj hT f hfid hv
    omega

end Sia.Ledger
