import SiaProofs.Lemmas.LedgerC01Inv
/-!
# C01 helper lemmas, part 7: specification of each mid-state primitive
-/
namespace Sia.Ledger

theorem base_unique {α : Type} (l : List α) (eid : α → Id) (hn : (l.map eid).Nodup) {a b : α}
    (ha : a ∈ l) (hb : b ∈ l) (h : eid a = eid b) : a = b := by
  induction l with
  | nil => cases ha
  | cons x l ih =>
    simp only [List.map_cons, List.nodup_cons] at hn
    rcases List.mem_cons.mp ha with ha' | ha' <;> rcases List.mem_cons.mp hb with hb' | hb'
    · rw [ha', hb']
    · subst ha'; exact absurd (h ▸ List.mem_map_of_mem hb') hn.1
    · subst hb'; exact absurd (h ▸ List.mem_map_of_mem ha') hn.1
    · exact ih hn.2 ha' hb'

-- ------------------------------------------------------------------ siacoin outputs

theorem createSc_spec {T} {ms : Mid} (hc : Ctx T ms.base) (hI : Inv T ms) {id : Id} {R : List (Kind × Id)}
    (hF : Fresh T ms ((Kind.sc, id) :: R)) (o : ScOut) (mat : Nat) :
    Inv T (ms.createSc id o mat) ∧ Agree ms (ms.createSc id o mat) (· = id) ∧ Fresh T (ms.createSc id o mat) R ∧
    Phi (ms.createSc id o mat) = Phi ms + o.value ∧ sfTot (ms.createSc id o mat) = sfTot ms ∧
    (ms.createSc id o mat).pool = ms.pool ∧ (ms.createSc id o mat).base = ms.base := by
  obtain ⟨hT, hl, hb⟩ := hF.2 (Kind.sc, id) (List.mem_cons_self)
  simp only [] at hT hl hb
  have hv : ms.scDiff? id = none := scDiff?_none_of_lookup hl
  unfold Mid.createSc
  generalize hf : (fun d : ScDiff => ({ d with e := { id := id, value := o.value, addr := o.addr, maturity := mat, leaf := none }, created := true } : ScDiff)) = f
  have hnew : scNew ms id f = ⟨⟨id, o.value, o.addr, mat, none⟩, true, false⟩ := by
    unfold scNew; rw [hv, ← hf]; rfl
  have hfid : (scNew ms id f).e.id = id := by rw [hnew]
  have hok : ScOk ms.base ms.spends (scNew ms id f) := by
    rw [hnew]; unfold ScOk
    refine ⟨fun _ => hb Kind.sc, fun h => ?_, fun h => ?_⟩ <;> simp at h
  have hA := putSc_agree hI.struct hc.disj hT f hfid
  refine ⟨putSc_inv hI hc.disj hT f hfid hok (hI.not_spent_of_lookup_none hl), hA, hF.tail.agree hA (fun q hq => hF.head_not_mem q hq), ?_, ?_,
    putSc_pool _ _ _, putSc_base_c1 _ _ _⟩
  · unfold Phi
    rw [putSc_tot_fresh hI.struct hc.disj hT f hfid hv (hb Kind.sc),
      fc1Tot_congr (putSc_base_c1 _ _ _) (putSc_fces _ _ _), fc2Tot_congr (putSc_base_c1 _ _ _) (putSc_v2fces _ _ _),
      putSc_pool, hnew]
    have : scDv ⟨⟨id, o.value, o.addr, mat, none⟩, true, false⟩ = o.value := rfl
    rw [this]; omega
  · exact sfTot_congr (putSc_base_c1 _ _ _) (putSc_sfes _ _ _)

/-- what validation establishes about a siacoin element that is about to be spent -/
def SpendableSc (T : Kind → Id → Prop) (ms : Mid) (e : ScElem) : Prop :=
  T Kind.sc e.id ∧
  match ms.scDiff? e.id with
  | none => e ∈ ms.base.sc
  | some d => d.spent = false ∧ d.e.value = e.value ∧ d.e.maturity = e.maturity

theorem SpendableSc.agree {T ms ms' e} {P : Id → Prop} (h : SpendableSc T ms e) (ha : Agree ms ms' P) (hp : ¬ P e.id) :
    SpendableSc T ms' e := by
  unfold SpendableSc at *
  rw [(ha.2 e.id hp).2.1, ha.1]; exact h

theorem SpendableSc.not_fresh {T ms e R} (h : SpendableSc T ms e) (hF : Fresh T ms R) : ∀ q ∈ R, q.2 ≠ e.id := by
  intro q hq he
  obtain ⟨_, hl, hb⟩ := hF.2 q hq
  rw [he] at hl hb
  have hv := scDiff?_none_of_lookup hl
  unfold SpendableSc at h; rw [hv] at h
  exact hb Kind.sc (List.mem_map_of_mem h.2)

theorem spendSc_spec {T} {ms : Mid} (hc : Ctx T ms.base) (hI : Inv T ms) {e : ScElem} (hs : SpendableSc T ms e) :
    Inv T (ms.spendSc e) ∧ Agree ms (ms.spendSc e) (· = e.id) ∧
    Phi (ms.spendSc e) + e.value = Phi ms ∧ sfTot (ms.spendSc e) = sfTot ms ∧
    (ms.spendSc e).pool = ms.pool ∧ (ms.spendSc e).base = ms.base := by
  obtain ⟨hT, hm⟩ := hs
  unfold Mid.spendSc
  generalize hf : (fun d : ScDiff => ({ d with e := e, spent := true } : ScDiff)) = f
  have hnew : scNew ms e.id f = { ((ms.scDiff? e.id).getD default) with e := e, spent := true } := by
    unfold scNew; rw [← hf]
  have hfid : (scNew ms e.id f).e.id = e.id := by rw [hnew]
  have hok : ScOk ms.base (e.id :: ms.spends) (scNew ms e.id f) := by
    rw [hnew]
    cases hv : ms.scDiff? e.id with
    | none =>
      rw [hv] at hm
      unfold ScOk
      refine ⟨fun h => ?_, fun _ => ⟨rfl, hm⟩, fun _ => List.mem_cons_self⟩
      have hdc : (default : ScDiff).created = false := rfl
      simp only [Option.getD_none, hdc] at h; cases h
    | some d =>
      rw [hv] at hm
      have hd := hI.sc d (scDiff?_mem hv).1
      have hid := (scDiff?_mem hv).2
      simp only [Option.getD_some]
      unfold ScOk
      refine ⟨fun h => ?_, fun h => ?_, fun _ => List.mem_cons_self⟩
      · have := hd.1 h; rw [hid] at this; exact this
      · have := (hd.2.1 h).1; rw [hm.1] at this; cases this
  have hA1 := putSc_agree hI.struct hc.disj hT f hfid
  have hA2 := agree_addSpend (ms.putSc e.id f) e.id
  simp only [putSc_spends_c1] at hA2 ⊢
  have hns : e.id ∉ ms.spends := hI.not_spent_sc hc.disj hT (fun d hv => by have := hm; rw [hv] at this; exact this.1)
  have hI' := putSc_inv' hI hc.disj hT f hfid (e.id :: ms.spends) (fun x hx => List.mem_cons_of_mem _ hx) hok
    (List.nodup_cons.mpr ⟨hns, hI.nodup⟩) (fun y hy => by
      rcases List.mem_cons.mp hy with h | h
      · exact Or.inl h
      · exact Or.inr h) (by rw [hnew])
  refine ⟨hI', hA1.trans hA2, ?_, ?_, putSc_pool _ _ _, putSc_base_c1 _ _ _⟩
  · unfold Phi
    have e1 : scTot { ms.putSc e.id f with spends := e.id :: ms.spends } = scTot (ms.putSc e.id f) := scTot_congr rfl rfl
    have e2 : fc1Tot { ms.putSc e.id f with spends := e.id :: ms.spends } = fc1Tot ms :=
      fc1Tot_congr (putSc_base_c1 _ _ _) (putSc_fces _ _ _)
    have e3 : fc2Tot { ms.putSc e.id f with spends := e.id :: ms.spends } = fc2Tot ms :=
      fc2Tot_congr (putSc_base_c1 _ _ _) (putSc_v2fces _ _ _)
    have e4 : ({ ms.putSc e.id f with spends := e.id :: ms.spends } : Mid).pool = ms.pool := putSc_pool _ _ _
    rw [e1, e2, e3, e4]
    have hdv : scDv (scNew ms e.id f) = 0 := by rw [hnew]; rfl
    cases hv : ms.scDiff? e.id with
    | none =>
      rw [hv] at hm
      have := putSc_tot_base hI.struct hc.disj hT f hfid hv hm rfl (hc.nodup Kind.sc)
      omega
    | some d =>
      rw [hv] at hm
      have := putSc_tot_found hI.struct hc.disj hT f hfid hv
      have hd : scDv d = e.value := by unfold scDv; rw [hm.1]; exact hm.2.1
      omega
  · exact sfTot_congr (putSc_base_c1 _ _ _) (putSc_sfes _ _ _)

-- ------------------------------------------------------------------ siafund outputs

theorem createSf_spec {T} {ms : Mid} (hc : Ctx T ms.base) (hI : Inv T ms) {id : Id} {R : List (Kind × Id)}
    (hF : Fresh T ms ((Kind.sf, id) :: R)) (v : Nat) (a : Addr) :
    Inv T (ms.createSf id v a) ∧ Agree ms (ms.createSf id v a) (· = id) ∧ Fresh T (ms.createSf id v a) R ∧
    Phi (ms.createSf id v a) = Phi ms ∧ sfTot (ms.createSf id v a) = sfTot ms + v ∧
    (ms.createSf id v a).pool = ms.pool ∧ (ms.createSf id v a).base = ms.base := by
  obtain ⟨hT, hl, hb⟩ := hF.2 (Kind.sf, id) (List.mem_cons_self)
  simp only [] at hT hl hb
  have hv : ms.sfDiff? id = none := sfDiff?_none_of_lookup hl
  unfold Mid.createSf
  generalize hf : (fun d : SfDiff => ({ d with e := { id := id, value := v, addr := a, claimStart := ms.pool, leaf := none }, created := true } : SfDiff)) = f
  have hnew : sfNew ms id f = ⟨⟨id, v, a, ms.pool, none⟩, true, false⟩ := by
    unfold sfNew; rw [hv, ← hf]; rfl
  have hfid : (sfNew ms id f).e.id = id := by rw [hnew]
  have hok : SfOk ms.base ms.spends (sfNew ms id f) := by
    rw [hnew]; unfold SfOk
    refine ⟨fun _ => hb Kind.sf, fun h => ?_, fun h => ?_⟩ <;> simp at h
  have hA := putSf_agree hI.struct hc.disj hT f hfid
  refine ⟨putSf_inv hI hc.disj hT f hfid hok (hI.not_spent_of_lookup_none hl), hA, hF.tail.agree hA (fun q hq => hF.head_not_mem q hq), ?_, ?_,
    putSf_pool _ _ _, putSf_base_c1 _ _ _⟩
  · unfold Phi
    rw [scTot_congr (putSf_base_c1 _ _ _) (putSf_sces _ _ _),
      fc1Tot_congr (putSf_base_c1 _ _ _) (putSf_fces _ _ _), fc2Tot_congr (putSf_base_c1 _ _ _) (putSf_v2fces _ _ _),
      putSf_pool]
  · rw [putSf_tot_fresh hI.struct hc.disj hT f hfid hv (hb Kind.sf), hnew]
    rfl

/-- what validation establishes about a siafund element that is about to be spent -/
def SpendableSf (T : Kind → Id → Prop) (ms : Mid) (e : SfElem) : Prop :=
  T Kind.sf e.id ∧
  match ms.sfDiff? e.id with
  | none => e ∈ ms.base.sf
  | some d => d.spent = false ∧ d.e = e

theorem SpendableSf.agree {T ms ms' e} {P : Id → Prop} (h : SpendableSf T ms e) (ha : Agree ms ms' P) (hp : ¬ P e.id) :
    SpendableSf T ms' e := by
  unfold SpendableSf at *
  rw [(ha.2 e.id hp).2.2.1, ha.1]; exact h

theorem SpendableSf.not_fresh {T ms e R} (h : SpendableSf T ms e) (hF : Fresh T ms R) : ∀ q ∈ R, q.2 ≠ e.id := by
  intro q hq he
  obtain ⟨_, hl, hb⟩ := hF.2 q hq
  rw [he] at hl hb
  have hv := sfDiff?_none_of_lookup hl
  unfold SpendableSf at h; rw [hv] at h
  exact hb Kind.sf (List.mem_map_of_mem h.2)

theorem spendSf_spec {T} {ms : Mid} (hc : Ctx T ms.base) (hI : Inv T ms) {e : SfElem} (hs : SpendableSf T ms e) :
    Inv T (ms.spendSf e) ∧ Agree ms (ms.spendSf e) (· = e.id) ∧
    Phi (ms.spendSf e) = Phi ms ∧ sfTot (ms.spendSf e) + e.value = sfTot ms ∧
    (ms.spendSf e).pool = ms.pool ∧ (ms.spendSf e).base = ms.base := by
  obtain ⟨hT, hm⟩ := hs
  unfold Mid.spendSf
  generalize hf : (fun d : SfDiff => ({ d with e := e, spent := true } : SfDiff)) = f
  have hnew : sfNew ms e.id f = { ((ms.sfDiff? e.id).getD default) with e := e, spent := true } := by
    unfold sfNew; rw [← hf]
  have hfid : (sfNew ms e.id f).e.id = e.id := by rw [hnew]
  have hok : SfOk ms.base (e.id :: ms.spends) (sfNew ms e.id f) := by
    rw [hnew]
    cases hv : ms.sfDiff? e.id with
    | none =>
      rw [hv] at hm
      unfold SfOk
      refine ⟨fun h => ?_, fun _ => ⟨rfl, hm⟩, fun _ => List.mem_cons_self⟩
      have hdc : (default : SfDiff).created = false := rfl
      simp only [Option.getD_none, hdc] at h; cases h
    | some d =>
      rw [hv] at hm
      have hd := hI.sf d (sfDiff?_mem hv).1
      have hid := (sfDiff?_mem hv).2
      simp only [Option.getD_some]
      unfold SfOk
      refine ⟨fun h => ?_, fun h => ?_, fun _ => List.mem_cons_self⟩
      · have := hd.1 h; rw [hid] at this; exact this
      · have := (hd.2.1 h).1; rw [hm.1] at this; cases this
  have hA1 := putSf_agree hI.struct hc.disj hT f hfid
  have hA2 := agree_addSpend (ms.putSf e.id f) e.id
  simp only [putSf_spends_c1] at hA2 ⊢
  have hns : e.id ∉ ms.spends := hI.not_spent_sf hc.disj hT (fun d hv => by have := hm; rw [hv] at this; exact this.1)
  have hI' := putSf_inv' hI hc.disj hT f hfid (e.id :: ms.spends) (fun x hx => List.mem_cons_of_mem _ hx) hok
    (List.nodup_cons.mpr ⟨hns, hI.nodup⟩) (fun y hy => by
      rcases List.mem_cons.mp hy with h | h
      · exact Or.inl h
      · exact Or.inr h) (by rw [hnew])
  refine ⟨hI', hA1.trans hA2, ?_, ?_, putSf_pool _ _ _, putSf_base_c1 _ _ _⟩
  · unfold Phi
    have e1 : scTot { ms.putSf e.id f with spends := e.id :: ms.spends } = scTot ms :=
      scTot_congr (putSf_base_c1 _ _ _) (putSf_sces _ _ _)
    have e2 : fc1Tot { ms.putSf e.id f with spends := e.id :: ms.spends } = fc1Tot ms :=
      fc1Tot_congr (putSf_base_c1 _ _ _) (putSf_fces _ _ _)
    have e3 : fc2Tot { ms.putSf e.id f with spends := e.id :: ms.spends } = fc2Tot ms :=
      fc2Tot_congr (putSf_base_c1 _ _ _) (putSf_v2fces _ _ _)
    have e4 : ({ ms.putSf e.id f with spends := e.id :: ms.spends } : Mid).pool = ms.pool := putSf_pool _ _ _
    rw [e1, e2, e3, e4]
  · have e1 : sfTot { ms.putSf e.id f with spends := e.id :: ms.spends } = sfTot (ms.putSf e.id f) := sfTot_congr rfl rfl
    rw [e1]
    have hdv : sfDv (sfNew ms e.id f) = 0 := by rw [hnew]; rfl
    cases hv : ms.sfDiff? e.id with
    | none =>
      rw [hv] at hm
      have := putSf_tot_base hI.struct hc.disj hT f hfid hv hm rfl (hc.nodup Kind.sf)
      omega
    | some d =>
      rw [hv] at hm
      have := putSf_tot_found hI.struct hc.disj hT f hfid hv
      have hd : sfDv d = e.value := by unfold sfDv; rw [hm.1, hm.2]; rfl
      omega

-- ------------------------------------------------------------------ v2 contracts

theorem v2Tax_ok {fc : Fc2} {t : Cur} (h : v2Tax fc = .ok t) : t = fc.val / 25 := by
  unfold v2Tax at h; rw [bind_eq_ok] at h
  obtain ⟨s, h1, h2⟩ := h
  rw [addC_ok] at h1; cases h2; rw [h1.2]; rfl

theorem createFc2_spec {T} {ms ms' : Mid} (hc : Ctx T ms.base) (hI : Inv T ms) {id : Id} {R : List (Kind × Id)}
    (hF : Fresh T ms ((Kind.fc2, id) :: R)) {fc : Fc2} (hmh : fc.missedHost ≤ fc.host.value)
    (h : ms.createFc2 id fc = .ok ms') :
    Inv T ms' ∧ Agree ms ms' (· = id) ∧ Fresh T ms' R ∧
    Phi ms' = Phi ms + fc.val + fc.val / 25 ∧ sfTot ms' = sfTot ms ∧
    ms'.pool = ms.pool + fc.val / 25 ∧ ms'.base = ms.base := by
  obtain ⟨hT, hl, hb⟩ := hF.2 (Kind.fc2, id) (List.mem_cons_self)
  simp only [] at hT hl hb
  have hv : ms.fc2Diff? id = none := fc2Diff?_none_of_lookup hl
  unfold Mid.createFc2 at h
  generalize hf : (fun d : Fc2Diff => ({ d with e := { id := id, fc := fc, leaf := none }, created := true } : Fc2Diff)) = f at h
  simp only [] at h
  rw [bind_eq_ok] at h; obtain ⟨tax, ht, h⟩ := h
  rw [bind_eq_ok] at h; obtain ⟨pool, hp, h⟩ := h
  have htax := v2Tax_ok ht
  rw [addC_ok, putFc2_pool] at hp
  cases h
  have hnew : fc2New ms id f = ⟨⟨id, fc, none⟩, true, none, none⟩ := by
    unfold fc2New; rw [hv, ← hf]; rfl
  have hfid : (fc2New ms id f).e.id = id := by rw [hnew]
  have hok : Fc2Ok ms.base ms.spends (fc2New ms id f) := by
    rw [hnew]; unfold Fc2Ok
    refine ⟨fun _ => hb Kind.fc2, fun h => ?_, fun h => ?_, rfl, hmh⟩ <;> simp at h
  have hA := putFc2_agree hI.struct hc.disj hT f hfid
  have hI1 := putFc2_inv hI hc.disj hT f hfid hok (hI.not_spent_of_lookup_none hl)
  have hA2 : Agree (ms.putFc2 id f) { ms.putFc2 id f with pool := pool } (· = id) :=
    agree_scalars rfl rfl rfl rfl rfl rfl rfl _
  have hAA := hA.trans hA2
  refine ⟨hI1.scalars rfl rfl rfl rfl rfl rfl rfl, hAA, hF.tail.agree hAA (fun q hq => hF.head_not_mem q hq), ?_, ?_, ?_,
    putFc2_base_c1 _ _ _⟩
  · unfold Phi
    have e1 : scTot { ms.putFc2 id f with pool := pool } = scTot ms := scTot_congr (putFc2_base_c1 _ _ _) (putFc2_sces_c1 _ _ _)
    have e2 : fc1Tot { ms.putFc2 id f with pool := pool } = fc1Tot ms := fc1Tot_congr (putFc2_base_c1 _ _ _) (putFc2_fces _ _ _)
    have e3 : fc2Tot { ms.putFc2 id f with pool := pool } = fc2Tot (ms.putFc2 id f) := fc2Tot_congr rfl rfl
    rw [e1, e2, e3, putFc2_tot_fresh hI.struct hc.disj hT f hfid hv (hb Kind.fc2), hnew]
    have : fc2Dv ⟨⟨id, fc, none⟩, true, none, none⟩ = fc.val := rfl
    rw [this]; simp only []; rw [hp.2, htax]; omega
  · exact sfTot_congr (putFc2_base_c1 _ _ _) (putFc2_sfes _ _ _)
  · simp only []; rw [hp.2, htax]

/-- what validation establishes about a v2 contract that is about to be revised or resolved -/
def LiveFc2 (T : Kind → Id → Prop) (ms : Mid) (e : Fc2Elem) : Prop :=
  T Kind.fc2 e.id ∧ e ∈ ms.base.fc2 ∧
  match ms.fc2Diff? e.id with
  | none => True
  | some d => d.resolution = none

theorem LiveFc2.agree {T ms ms' e} {P : Id → Prop} (h : LiveFc2 T ms e) (ha : Agree ms ms' P) (hp : ¬ P e.id) :
    LiveFc2 T ms' e := by
  unfold LiveFc2 at *
  rw [(ha.2 e.id hp).2.2.2.2.1, ha.1]; exact h

theorem LiveFc2.not_fresh {T ms e R} (h : LiveFc2 T ms e) (hF : Fresh T ms R) : ∀ q ∈ R, q.2 ≠ e.id := by
  intro q hq he
  obtain ⟨_, _, hb⟩ := hF.2 q hq
  rw [he] at hb
  exact hb Kind.fc2 (List.mem_map_of_mem h.2.1)

/-- a diff recorded for a base contract is not `created`, and carries that very contract -/
theorem LiveFc2.diff {T ms e} (hc : Ctx T ms.base) (hI : Inv T ms) (h : LiveFc2 T ms e) {d : Fc2Diff}
    (hv : ms.fc2Diff? e.id = some d) : d.created = false ∧ d.e = e := by
  have hd := hI.fc2 d (fc2Diff?_mem hv).1
  have hid := (fc2Diff?_mem hv).2
  have hcr : d.created = false := by
    cases hcd : d.created with
    | false => rfl
    | true =>
      have := hd.1 hcd; rw [hid] at this
      exact absurd (List.mem_map_of_mem h.2.1) this
  exact ⟨hcr, base_unique ms.base.fc2 (·.id) (hc.nodup Kind.fc2) (hd.2.1 hcr) h.2.1 hid⟩

theorem reviseFc2_spec {T} {ms : Mid} (hc : Ctx T ms.base) (hI : Inv T ms) {e : Fc2Elem} (hs : LiveFc2 T ms e)
    {rev : Fc2} (hval : rev.val = e.fc.val) (hmh : rev.missedHost ≤ rev.host.value) :
    Inv T (ms.reviseFc2 e rev) ∧ Agree ms (ms.reviseFc2 e rev) (· = e.id) ∧
    Phi (ms.reviseFc2 e rev) = Phi ms ∧ sfTot (ms.reviseFc2 e rev) = sfTot ms ∧
    (ms.reviseFc2 e rev).pool = ms.pool ∧ (ms.reviseFc2 e rev).base = ms.base := by
  have hT := hs.1
  unfold Mid.reviseFc2
  generalize hf : (fun d : Fc2Diff =>
      if d.created then ({ d with e := { d.e with fc := rev } } : Fc2Diff)
      else if d.revision.isSome then { d with revision := some rev }
      else { d with e := e, revision := some rev }) = f
  -- the new diff in both cases
  have hnew : fc2New ms e.id f = ⟨e, false, some rev, none⟩ := by
    unfold fc2New
    cases hv : ms.fc2Diff? e.id with
    | none => rw [← hf]; rfl
    | some d =>
      obtain ⟨hcr, hde⟩ := hs.diff hc hI hv
      have hres : d.resolution = none := by have := hs.2.2; rw [hv] at this; exact this
      rw [← hf]; simp only [Option.getD_some, hcr]
      cases hr : d.revision with
      | none =>
        simp only [Bool.false_eq_true, if_false, Option.isSome_none]
        rw [← hres]
      | some r =>
        simp only [Bool.false_eq_true, if_false, Option.isSome_some, if_true]
        rw [← hres, ← hde, ← hcr]
  have hfid : (fc2New ms e.id f).e.id = e.id := by rw [hnew]
  have hok : Fc2Ok ms.base ms.spends (fc2New ms e.id f) := by
    rw [hnew]; unfold Fc2Ok
    refine ⟨fun h => ?_, fun _ => hs.2.1, fun h => ?_, hval, hmh⟩ <;> simp at h
  have hA := putFc2_agree hI.struct hc.disj hT f hfid
  have hns : e.id ∉ ms.spends := hI.not_spent_fc2 hc.disj hT (fun d hv => by have := hs.2.2; rw [hv] at this; exact this)
  refine ⟨putFc2_inv hI hc.disj hT f hfid hok hns, hA, ?_, sfTot_congr (putFc2_base_c1 _ _ _) (putFc2_sfes _ _ _),
    putFc2_pool _ _ _, putFc2_base_c1 _ _ _⟩
  unfold Phi
  rw [scTot_congr (putFc2_base_c1 _ _ _) (putFc2_sces_c1 _ _ _), fc1Tot_congr (putFc2_base_c1 _ _ _) (putFc2_fces _ _ _),
    putFc2_pool]
  have hdv : fc2Dv (fc2New ms e.id f) = e.fc.val := by rw [hnew]; exact hval
  cases hv : ms.fc2Diff? e.id with
  | none =>
    have := putFc2_tot_base hI.struct hc.disj hT f hfid hv hs.2.1 rfl (hc.nodup Kind.fc2)
    omega
  | some d =>
    obtain ⟨hcr, hde⟩ := hs.diff hc hI hv
    have hres : d.resolution = none := by have := hs.2.2; rw [hv] at this; exact this
    have hd := hI.fc2 d (fc2Diff?_mem hv).1
    have hdd : fc2Dv d = e.fc.val := by
      unfold fc2Dv; rw [hres]; simp only [Option.isNone_none, if_true]; rw [hd.2.2.2.1, hde]
    have := putFc2_tot_found hI.struct hc.disj hT f hfid hv
    omega

theorem resolveFc2_spec {T} {ms ms' : Mid} (hc : Ctx T ms.base) (hI : Inv T ms) {e : Fc2Elem} (hs : LiveFc2 T ms e)
    (hmh : e.fc.missedHost ≤ e.fc.host.value) {k : ResKind} (h : ms.resolveFc2 e k = .ok ms') :
    Inv T ms' ∧ Agree ms ms' (· = e.id) ∧
    Phi ms' + e.fc.val = Phi ms ∧ sfTot ms' = sfTot ms ∧ ms'.pool = ms.pool ∧ ms'.base = ms.base := by
  have hT := hs.1
  generalize hf : (fun d : Fc2Diff => ({ d with e := e, resolution := some k } : Fc2Diff)) = f at h
  have hms' : ms' = { ms.putFc2 e.id f with spends := e.id :: (ms.putFc2 e.id f).spends } := by
    unfold Mid.resolveFc2 at h
    rw [hf] at h
    split at h
    · split at h
      · cases h
      · cases h; rfl
    · cases h; rfl
  subst hms'
  have hnew : ∃ rv, fc2New ms e.id f = ⟨e, false, rv, some k⟩ ∧
      (∀ r, rv = some r → r.val = e.fc.val ∧ r.missedHost ≤ r.host.value) := by
    unfold fc2New
    cases hv : ms.fc2Diff? e.id with
    | none =>
      refine ⟨none, ?_, fun r hr => by cases hr⟩
      rw [← hf]; rfl
    | some d =>
      obtain ⟨hcr, hde⟩ := hs.diff hc hI hv
      have hd := hI.fc2 d (fc2Diff?_mem hv).1
      refine ⟨d.revision, ?_, fun r hr => ?_⟩
      · rw [← hf]; simp only [Option.getD_some]; rw [← hcr]
      · have h1 := hd.2.2.2.1; have h2 := hd.2.2.2.2
        unfold Fc2Diff.current at h1 h2; rw [hr] at h1 h2; simp only [] at h1 h2
        rw [hde] at h1; exact ⟨h1, h2⟩
  obtain ⟨rv, hnew, hrv⟩ := hnew
  have hfid : (fc2New ms e.id f).e.id = e.id := by rw [hnew]
  have hok : Fc2Ok ms.base (e.id :: ms.spends) (fc2New ms e.id f) := by
    rw [hnew]; unfold Fc2Ok
    refine ⟨fun h => ?_, fun _ => hs.2.1, fun _ => List.mem_cons_self, ?_, ?_⟩
    · simp at h
    · unfold Fc2Diff.current; cases rv with
      | none => rfl
      | some r => exact (hrv r rfl).1
    · unfold Fc2Diff.current; cases rv with
      | none => exact hmh
      | some r => exact (hrv r rfl).2
  have hA1 := putFc2_agree hI.struct hc.disj hT f hfid
  have hA2 := agree_addSpend (ms.putFc2 e.id f) e.id
  simp only [putFc2_spends_c1] at hA2 ⊢
  have hns : e.id ∉ ms.spends := hI.not_spent_fc2 hc.disj hT (fun d hv => by have := hs.2.2; rw [hv] at this; exact this)
  have hI' := putFc2_inv' hI hc.disj hT f hfid (e.id :: ms.spends) (fun x hx => List.mem_cons_of_mem _ hx) hok
    (List.nodup_cons.mpr ⟨hns, hI.nodup⟩) (fun y hy => by
      rcases List.mem_cons.mp hy with h | h
      · exact Or.inl h
      · exact Or.inr h) (by rw [hnew]; rfl)
  refine ⟨hI', hA1.trans hA2, ?_, sfTot_congr (putFc2_base_c1 _ _ _) (putFc2_sfes _ _ _), putFc2_pool _ _ _, putFc2_base_c1 _ _ _⟩
  unfold Phi
  have e1 : scTot { ms.putFc2 e.id f with spends := e.id :: ms.spends } = scTot ms :=
    scTot_congr (putFc2_base_c1 _ _ _) (putFc2_sces_c1 _ _ _)
  have e2 : fc1Tot { ms.putFc2 e.id f with spends := e.id :: ms.spends } = fc1Tot ms :=
    fc1Tot_congr (putFc2_base_c1 _ _ _) (putFc2_fces _ _ _)
  have e3 : fc2Tot { ms.putFc2 e.id f with spends := e.id :: ms.spends } = fc2Tot (ms.putFc2 e.id f) :=
    fc2Tot_congr rfl rfl
  have e4 : ({ ms.putFc2 e.id f with spends := e.id :: ms.spends } : Mid).pool = ms.pool := putFc2_pool _ _ _
  rw [e1, e2, e3, e4]
  have hdv : fc2Dv (fc2New ms e.id f) = 0 := by rw [hnew]; rfl
  cases hv : ms.fc2Diff? e.id with
  | none =>
    have := putFc2_tot_base hI.struct hc.disj hT f hfid hv hs.2.1 rfl (hc.nodup Kind.fc2)
    omega
  | some d =>
    obtain ⟨hcr, hde⟩ := hs.diff hc hI hv
    have hres : d.resolution = none := by have := hs.2.2; rw [hv] at this; exact this
    have hd := hI.fc2 d (fc2Diff?_mem hv).1
    have hdd : fc2Dv d = e.fc.val := by
      unfold fc2Dv; rw [hres]; simp only [Option.isNone_none, if_true]; rw [hd.2.2.2.1, hde]
    have := putFc2_tot_found hI.struct hc.disj hT f hfid hv
    omega

-- ------------------------------------------------------------------ v1 contracts

theorem createFc1_spec {T} {ms ms' : Mid} (hc : Ctx T ms.base) (hI : Inv T ms) {id : Id} {R : List (Kind × Id)}
    (hF : Fresh T ms ((Kind.fc1, id) :: R)) {fc : Fc1} (hbal : sumVals fc.valid = sumVals fc.missed)
    (h : ms.createFc1 id fc = .ok ms') :
    Inv T ms' ∧ Agree ms ms' (· = id) ∧ Fresh T ms' R ∧
    Phi ms' = Phi ms + fc.val + fileContractTax ms.base fc.payout ∧ sfTot ms' = sfTot ms ∧
    ms'.pool = ms.pool + fileContractTax ms.base fc.payout ∧ ms'.base = ms.base := by
  obtain ⟨hT, hl, hb⟩ := hF.2 (Kind.fc1, id) (List.mem_cons_self)
  simp only [] at hT hl hb
  have hv : ms.fc1Diff? id = none := fc1Diff?_none_of_lookup hl
  unfold Mid.createFc1 at h
  generalize hf : (fun d : Fc1Diff => ({ d with e := { id := id, fc := fc, leaf := none }, created := true } : Fc1Diff)) = f at h
  simp only [] at h
  rw [bind_eq_ok] at h; obtain ⟨pool, hp, h⟩ := h
  rw [addC_ok, putFc1_pool, putFc1_base_c1] at hp
  cases h
  have hnew : fc1New ms id f = ⟨⟨id, fc, none⟩, true, none, false, false⟩ := by
    unfold fc1New; rw [hv, ← hf]; rfl
  have hfid : (fc1New ms id f).e.id = id := by rw [hnew]
  have hok : Fc1Ok ms.base ms.spends (fc1New ms id f) := by
    rw [hnew]; unfold Fc1Ok
    refine ⟨fun _ => hb Kind.fc1, fun h => ?_, fun h => ?_, fun _ => ⟨rfl, hbal⟩⟩ <;> simp at h
  have hA := putFc1_agree hI.struct hc.disj hT f hfid
  have hI1 := putFc1_inv hI hc.disj hT f hfid hok (hI.not_spent_of_lookup_none hl)
  have hA2 : Agree (ms.putFc1 id f) { ms.putFc1 id f with pool := pool } (· = id) :=
    agree_scalars rfl rfl rfl rfl rfl rfl rfl _
  have hAA := hA.trans hA2
  refine ⟨hI1.scalars rfl rfl rfl rfl rfl rfl rfl, hAA, hF.tail.agree hAA (fun q hq => hF.head_not_mem q hq), ?_, ?_, ?_,
    putFc1_base_c1 _ _ _⟩
  · unfold Phi
    have e1 : scTot { ms.putFc1 id f with pool := pool } = scTot ms := scTot_congr (putFc1_base_c1 _ _ _) (putFc1_sces_c1 _ _ _)
    have e2 : fc1Tot { ms.putFc1 id f with pool := pool } = fc1Tot (ms.putFc1 id f) := fc1Tot_congr rfl rfl
    have e3 : fc2Tot { ms.putFc1 id f with pool := pool } = fc2Tot ms := fc2Tot_congr (putFc1_base_c1 _ _ _) (putFc1_v2fces _ _ _)
    rw [e1, e2, e3, putFc1_tot_fresh hI.struct hc.disj hT f hfid hv (hb Kind.fc1), hnew]
    have : fc1Dv ⟨⟨id, fc, none⟩, true, none, false, false⟩ = fc.val := rfl
    rw [this]; simp only []; rw [hp.2]; omega
  · exact sfTot_congr (putFc1_base_c1 _ _ _) (putFc1_sfes _ _ _)
  · simp only []; rw [hp.2]

/-- what validation establishes about a v1 contract about to be revised or proven -/
def LiveFc1 (T : Kind → Id → Prop) (ms : Mid) (e : Fc1Elem) : Prop :=
  T Kind.fc1 e.id ∧
  match ms.fc1Diff? e.id with
  | none => e ∈ ms.base.fc1
  | some d => d.resolved = false ∧ e = d.current

theorem LiveFc1.agree {T ms ms' e} {P : Id → Prop} (h : LiveFc1 T ms e) (ha : Agree ms ms' P) (hp : ¬ P e.id) :
    LiveFc1 T ms' e := by
  unfold LiveFc1 at *
  rw [(ha.2 e.id hp).2.2.2.1, ha.1]; exact h

theorem LiveFc1.not_fresh {T ms e R} (h : LiveFc1 T ms e) (hF : Fresh T ms R) : ∀ q ∈ R, q.2 ≠ e.id := by
  intro q hq he
  obtain ⟨_, hl, hb⟩ := hF.2 q hq
  rw [he] at hl hb
  have hv := fc1Diff?_none_of_lookup hl
  unfold LiveFc1 at h; rw [hv] at h
  exact hb Kind.fc1 (List.mem_map_of_mem h.2)

theorem LiveFc1.bal {T ms e} (hc : Ctx T ms.base) (hI : Inv T ms) (h : LiveFc1 T ms e) :
    sumVals e.fc.valid = sumVals e.fc.missed := by
  unfold LiveFc1 at h
  cases hv : ms.fc1Diff? e.id with
  | none => rw [hv] at h; exact hc.fc1_bal e h.2
  | some d =>
    rw [hv] at h
    have := ((hI.fc1 d (fc1Diff?_mem hv).1).2.2.2 h.2.1).2
    rw [← h.2.2] at this; exact this

/-- the diff function of `reviseFc1` -/
def reviseF1 (e : Fc1Elem) (rev : Fc1) : Fc1Diff → Fc1Diff := fun d =>
  if d.created then { d with e := { d.e with fc := { rev with payout := e.fc.payout } } }
  else if d.revision.isSome then { d with revision := some { rev with payout := e.fc.payout } }
  else { d with e := e, revision := some { rev with payout := e.fc.payout } }

theorem reviseF1_props (e : Fc1Elem) (rev : Fc1) (d : Fc1Diff) (he : e = d.current) :
    (reviseF1 e rev d).resolved = d.resolved ∧ (reviseF1 e rev d).created = d.created ∧
    (reviseF1 e rev d).e.id = d.e.id ∧
    (d.created = false → (reviseF1 e rev d).e = d.e) ∧
    ((reviseF1 e rev d).current.fc.valid = rev.valid ∧ (reviseF1 e rev d).current.fc.missed = rev.missed ∨
     (reviseF1 e rev d).current.fc = d.current.fc) ∧
    ((reviseF1 e rev d).e.fc.valid = rev.valid ∨ (reviseF1 e rev d).e.fc = d.e.fc) := by
  obtain ⟨de, dc, dr, dres, dval⟩ := d
  unfold reviseF1 Fc1Diff.current at *
  cases dc <;> cases dr <;> simp_all

theorem reviseFc1_spec {T} {ms : Mid} (hc : Ctx T ms.base) (hI : Inv T ms) {e : Fc1Elem} (hs : LiveFc1 T ms e)
    {rev : Fc1} (hval : sumVals rev.valid = sumVals e.fc.valid) (hmis : sumVals rev.missed = sumVals e.fc.missed) :
    Inv T (ms.reviseFc1 e rev) ∧ Agree ms (ms.reviseFc1 e rev) (· = e.id) ∧
    Phi (ms.reviseFc1 e rev) = Phi ms ∧ sfTot (ms.reviseFc1 e rev) = sfTot ms ∧
    (ms.reviseFc1 e rev).pool = ms.pool ∧ (ms.reviseFc1 e rev).base = ms.base := by
  have hT := hs.1
  have hbal := hs.bal hc hI
  have hfeq : ms.reviseFc1 e rev = ms.putFc1 e.id (reviseF1 e rev) := rfl
  rw [hfeq]
  generalize hf : reviseF1 e rev = f
  have hnewdef : fc1New ms e.id f = reviseF1 e rev ((ms.fc1Diff? e.id).getD default) := by unfold fc1New; rw [hf]
  -- facts about the new diff
  have key : (fc1New ms e.id f).e.id = e.id ∧ Fc1Ok ms.base ms.spends (fc1New ms e.id f) ∧
      fc1Dv (fc1New ms e.id f) = e.fc.val := by
    rw [hnewdef]
    cases hv : ms.fc1Diff? e.id with
    | none =>
      have hm : e ∈ ms.base.fc1 := by have := hs.2; rw [hv] at this; exact this
      have hn : reviseF1 e rev ((none : Option Fc1Diff).getD default) =
          ⟨e, false, some { rev with payout := e.fc.payout }, false, false⟩ := rfl
      rw [hn]
      refine ⟨rfl, ?_, ?_⟩
      · unfold Fc1Ok
        refine ⟨fun h => by simp at h, fun _ => hm, fun h => by simp at h, fun _ => ⟨?_, ?_⟩⟩
        · show sumVals rev.valid = sumVals e.fc.valid; exact hval
        · show sumVals rev.valid = sumVals rev.missed; rw [hval, hmis]; exact hbal
      · show sumVals rev.valid = sumVals e.fc.valid; exact hval
    | some d =>
      have hd : d.resolved = false ∧ e = d.current := by have := hs.2; rw [hv] at this; exact this
      obtain ⟨hm, hid⟩ := fc1Diff?_mem hv
      have hok := hI.fc1 d hm
      obtain ⟨p1, p2, p3, p4, p5, p6⟩ := reviseF1_props e rev d hd.2
      simp only [Option.getD_some]
      have hcur := hok.2.2.2 hd.1
      rw [← hd.2] at hcur
      have hvalcur : (reviseF1 e rev d).current.fc.val = e.fc.val := by
        unfold Fc1.val
        rcases p5 with ⟨q1, _⟩ | q
        · rw [q1]; exact hval
        · rw [q, ← hd.2]
      refine ⟨p3.trans hid, ?_, ?_⟩
      · unfold Fc1Ok
        refine ⟨fun h => ?_, fun h => ?_, fun h => ?_, fun _ => ⟨?_, ?_⟩⟩
        · rw [p3]; exact hok.1 (p2 ▸ h)
        · rw [p4 (p2 ▸ h)]; exact hok.2.1 (p2 ▸ h)
        · rw [p1, hd.1] at h; cases h
        · rw [hvalcur]
          unfold Fc1.val at hcur ⊢
          rcases p6 with q | q
          · rw [q]; exact hval.symm
          · rw [q]; exact hcur.1
        · rcases p5 with ⟨q1, q2⟩ | q
          · rw [q1, q2, hval, hmis]; exact hbal
          · rw [q, ← hd.2]; exact hbal
      · unfold fc1Dv; rw [p1, hd.1]; simp only [Bool.false_eq_true, if_false]; exact hvalcur
  obtain ⟨hfid, hok, hdv⟩ := key
  have hA := putFc1_agree hI.struct hc.disj hT f hfid
  have hns : e.id ∉ ms.spends := hI.not_spent_fc1 hc.disj hT (fun d hv => by have := hs.2; rw [hv] at this; exact this.1)
  refine ⟨putFc1_inv hI hc.disj hT f hfid hok hns, hA, ?_, sfTot_congr (putFc1_base_c1 _ _ _) (putFc1_sfes _ _ _),
    putFc1_pool _ _ _, putFc1_base_c1 _ _ _⟩
  unfold Phi
  rw [scTot_congr (putFc1_base_c1 _ _ _) (putFc1_sces_c1 _ _ _), fc2Tot_congr (putFc1_base_c1 _ _ _) (putFc1_v2fces _ _ _),
    putFc1_pool]
  cases hv : ms.fc1Diff? e.id with
  | none =>
    have hm : e ∈ ms.base.fc1 := by have := hs.2; rw [hv] at this; exact this
    have := putFc1_tot_base hI.struct hc.disj hT f hfid hv hm rfl (hc.nodup Kind.fc1)
    omega
  | some d =>
    have hd : d.resolved = false ∧ e = d.current := by have := hs.2; rw [hv] at this; exact this
    have hdd : fc1Dv d = e.fc.val := by unfold fc1Dv; rw [hd.1, hd.2]; rfl
    have := putFc1_tot_found hI.struct hc.disj hT f hfid hv
    omega

/-- what is needed to resolve a v1 contract (by proof or by expiry) paying out `e`'s outputs -/
def ResolvableFc1 (T : Kind → Id → Prop) (ms : Mid) (e : Fc1Elem) : Prop :=
  T Kind.fc1 e.id ∧
  match ms.fc1Diff? e.id with
  | none => e ∈ ms.base.fc1
  | some d => d.resolved = false ∧ d.current.fc.val = e.fc.val ∧ (d.created = false → d.revision = none → e ∈ ms.base.fc1)

theorem ResolvableFc1.agree {T ms ms' e} {P : Id → Prop} (h : ResolvableFc1 T ms e) (ha : Agree ms ms' P) (hp : ¬ P e.id) :
    ResolvableFc1 T ms' e := by
  unfold ResolvableFc1 at *
  rw [(ha.2 e.id hp).2.2.2.1, ha.1]; exact h

theorem ResolvableFc1.not_fresh {T ms e R} (h : ResolvableFc1 T ms e) (hF : Fresh T ms R) : ∀ q ∈ R, q.2 ≠ e.id := by
  intro q hq he
  obtain ⟨_, hl, hb⟩ := hF.2 q hq
  rw [he] at hl hb
  have hv := fc1Diff?_none_of_lookup hl
  unfold ResolvableFc1 at h; rw [hv] at h
  exact hb Kind.fc1 (List.mem_map_of_mem h.2)

theorem LiveFc1.resolvable {T ms e} (hI : Inv T ms) (h : LiveFc1 T ms e) : ResolvableFc1 T ms e := by
  unfold LiveFc1 at h; unfold ResolvableFc1
  refine ⟨h.1, ?_⟩
  cases hv : ms.fc1Diff? e.id with
  | none => rw [hv] at h; exact h.2
  | some d =>
    rw [hv] at h; simp only [] at h ⊢
    refine ⟨h.2.1, by rw [h.2.2], fun hcr hrv => ?_⟩
    have := (hI.fc1 d (fc1Diff?_mem hv).1).2.1 hcr
    rw [h.2.2]; unfold Fc1Diff.current; rw [hrv]; exact this

theorem resolveFc1_spec {T} {ms : Mid} (hc : Ctx T ms.base) (hI : Inv T ms) {e : Fc1Elem} (hs : ResolvableFc1 T ms e)
    (v : Bool) :
    Inv T (ms.resolveFc1 e v) ∧ Agree ms (ms.resolveFc1 e v) (· = e.id) ∧
    Phi (ms.resolveFc1 e v) + e.fc.val = Phi ms ∧ sfTot (ms.resolveFc1 e v) = sfTot ms ∧
    (ms.resolveFc1 e v).pool = ms.pool ∧ (ms.resolveFc1 e v).base = ms.base := by
  have hT := hs.1
  unfold Mid.resolveFc1
  generalize hf : (fun d : Fc1Diff =>
      if d.revision.isSome then ({ d with resolved := true, valid := v } : Fc1Diff)
      else { d with e := e, resolved := true, valid := v }) = f
  have key : (fc1New ms e.id f).e.id = e.id ∧ Fc1Ok ms.base (e.id :: ms.spends) (fc1New ms e.id f) ∧
      fc1Dv (fc1New ms e.id f) = 0 := by
    unfold fc1New
    cases hv : ms.fc1Diff? e.id with
    | none =>
      have hm : e ∈ ms.base.fc1 := by have := hs.2; rw [hv] at this; exact this
      have hn : f ((none : Option Fc1Diff).getD default) = ⟨e, false, none, true, v⟩ := by rw [← hf]; rfl
      rw [hn]
      refine ⟨rfl, ?_, rfl⟩
      unfold Fc1Ok
      exact ⟨fun h => by simp at h, fun _ => hm, fun _ => List.mem_cons_self, fun h => by simp at h⟩
    | some d =>
      have hd := hs.2; rw [hv] at hd; simp only [] at hd
      obtain ⟨hm, hid⟩ := fc1Diff?_mem hv
      have hok := hI.fc1 d hm
      simp only [Option.getD_some]
      rw [← hf]
      obtain ⟨de, dc, dr, dres, dval⟩ := d
      simp only [] at hd hid hok ⊢
      cases dr with
      | none =>
        simp only [Option.isSome_none, Bool.false_eq_true, if_false]
        refine ⟨by first | rfl | trivial, ?_, by first | rfl | trivial⟩
        unfold Fc1Ok; simp only []
        refine ⟨fun h => ?_, fun h => hd.2.2 h rfl, fun _ => List.mem_cons_self, fun h => by simp at h⟩
        have := hok.1 h; simp only [] at this; rw [hid] at this; exact this
      | some r =>
        simp only [Option.isSome_some, if_true]
        refine ⟨hid, ?_, rfl⟩
        unfold Fc1Ok; simp only []
        refine ⟨fun h => hok.1 h, fun h => hok.2.1 h, fun _ => by rw [hid]; exact List.mem_cons_self, fun h => by simp at h⟩
  obtain ⟨hfid, hok, hdv⟩ := key
  have hA1 := putFc1_agree hI.struct hc.disj hT f hfid
  have hA2 := agree_addSpend (ms.putFc1 e.id f) e.id
  simp only [putFc1_spends_c1] at hA2 ⊢
  have hns : e.id ∉ ms.spends := hI.not_spent_fc1 hc.disj hT (fun d hv => by have := hs.2; rw [hv] at this; exact this.1)
  have hres : (fc1New ms e.id f).resolved = true := by
    unfold fc1New; rw [← hf]; simp only []; split <;> rfl
  have hI' := putFc1_inv' hI hc.disj hT f hfid (e.id :: ms.spends) (fun x hx => List.mem_cons_of_mem _ hx) hok
    (List.nodup_cons.mpr ⟨hns, hI.nodup⟩) (fun y hy => by
      rcases List.mem_cons.mp hy with h | h
      · exact Or.inl h
      · exact Or.inr h) hres
  refine ⟨hI', hA1.trans hA2, ?_, sfTot_congr (putFc1_base_c1 _ _ _) (putFc1_sfes _ _ _), putFc1_pool _ _ _, putFc1_base_c1 _ _ _⟩
  unfold Phi
  have e1 : scTot { ms.putFc1 e.id f with spends := e.id :: ms.spends } = scTot ms :=
    scTot_congr (putFc1_base_c1 _ _ _) (putFc1_sces_c1 _ _ _)
  have e2 : fc1Tot { ms.putFc1 e.id f with spends := e.id :: ms.spends } = fc1Tot (ms.putFc1 e.id f) :=
    fc1Tot_congr rfl rfl
  have e3 : fc2Tot { ms.putFc1 e.id f with spends := e.id :: ms.spends } = fc2Tot ms :=
    fc2Tot_congr (putFc1_base_c1 _ _ _) (putFc1_v2fces _ _ _)
  have e4 : ({ ms.putFc1 e.id f with spends := e.id :: ms.spends } : Mid).pool = ms.pool := putFc1_pool _ _ _
  rw [e1, e2, e3, e4]
  cases hv : ms.fc1Diff? e.id with
  | none =>
    have hm : e ∈ ms.base.fc1 := by have := hs.2; rw [hv] at this; exact this
    have := putFc1_tot_base hI.struct hc.disj hT f hfid hv hm rfl (hc.nodup Kind.fc1)
    omega
  | some d =>
    have hd := hs.2; rw [hv] at hd; simp only [] at hd
    have hdd : fc1Dv d = e.fc.val := by unfold fc1Dv; rw [hd.1]; exact hd.2.1
    have := putFc1_tot_found hI.struct hc.disj hT f hfid hv
    omega

end Sia.Ledger
