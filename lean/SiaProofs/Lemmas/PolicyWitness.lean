import SiaProofs.Lemmas.PolicyLimits
/-! What an accepted run consumes (C14): framing (surplus witnesses stay), every consumed
    witness was checked and found valid, the unlock-conditions key assignment. -/
namespace Sia.Policy

/-! ### framing -/

theorem ucLoop_frame (E : Env) (ks : List UnlockKey) (req : Nat) (sigs sigs' x : List ByteArray)
    (h : ucLoop E ks req sigs = .ok (0, sigs')) : ucLoop E ks req (sigs ++ x) = .ok (0, sigs' ++ x) := by
  rw [ucLoop_ok_iff] at *
  obtain ⟨used, rfl, h2, h3⟩ := h
  exact ⟨used, by simp, h2, h3⟩

mutual
theorem verifyP_frame (E : Env) (p : Policy) (s pr s' pr' x y : List ByteArray) (t t' : Nat)
    (h : verifyP E p ⟨s, pr, t⟩ = .ok ⟨s', pr', t'⟩) :
    verifyP E p ⟨s ++ x, pr ++ y, t⟩ = .ok ⟨s' ++ x, pr' ++ y, t'⟩ := by
  match p with
  | .above a =>
    simp only [verifyP] at h ⊢
    split at h <;> simp at h
    rename_i hh; obtain ⟨rfl, rfl, rfl⟩ := h; simp [hh]
  | .after a =>
    simp only [verifyP] at h ⊢
    split at h <;> simp at h
    rename_i hh; obtain ⟨rfl, rfl, rfl⟩ := h; simp [hh]
  | .pk k =>
    simp only [verifyP] at h ⊢
    cases s with
    | nil => simp at h
    | cons a as =>
      simp only at h
      split at h <;> simp at h
      rename_i hh; obtain ⟨rfl, rfl, rfl⟩ := h; simp [hh]
  | .hash k =>
    simp only [verifyP] at h ⊢
    cases pr with
    | nil => simp at h
    | cons a as =>
      simp only at h
      split at h <;> simp at h
      rename_i hh; obtain ⟨rfl, rfl, rfl⟩ := h; simp [hh]
  | .opaque a => simp [verifyP] at h
  | .uc c =>
    simp only [verifyP] at h ⊢
    split at h
    · rename_i hh
      simp only [hh, if_true]
      cases hl : ucLoop E c.publicKeys c.signaturesRequired s with
      | error e => rw [hl] at h; simp at h
      | ok r =>
        obtain ⟨req, sg⟩ := r
        rw [hl] at h
        simp only at h
        split at h <;> simp at h
        rename_i hr; subst hr
        obtain ⟨rfl, rfl, rfl⟩ := h
        rw [ucLoop_frame E _ _ _ _ x hl]
        simp
    · simp at h
  | .thresh n subs =>
    simp only [verifyP] at h ⊢
    split at h
    · simp at h
    · rename_i hc
      simp only [hc, if_false]
      exact verifySubs_frame E n subs 0 s pr s' pr' x y _ t' h
theorem verifySubs_frame (E : Env) (n : Nat) (subs : List Policy) (sat : Nat)
    (s pr s' pr' x y : List ByteArray) (t t' : Nat)
    (h : verifySubs E n subs sat ⟨s, pr, t⟩ = .ok ⟨s', pr', t'⟩) :
    verifySubs E n subs sat ⟨s ++ x, pr ++ y, t⟩ = .ok ⟨s' ++ x, pr' ++ y, t'⟩ := by
  match subs with
  | [] =>
    simp only [verifySubs] at h ⊢
    split at h <;> simp at h
    rename_i hh; obtain ⟨rfl, rfl, rfl⟩ := h; simp [hh]
  | c :: rest =>
    simp only [verifySubs] at h ⊢
    split at h
    · simp at h
    · rename_i h1
      simp only [h1, if_false]
      split at h
      · rename_i h2
        simp only [h2, if_true]
        exact verifySubs_frame E n rest sat s pr s' pr' x y t t' h
      · rename_i h2
        simp only [h2, if_false]
        split at h
        · simp at h
        · rename_i h3
          simp only [h3, if_false]
          cases hv : verifyP E c ⟨s, pr, t⟩ with
          | error e => rw [hv] at h; simp at h
          | ok st1 =>
            obtain ⟨s1, p1, t1⟩ := st1
            rw [hv] at h
            simp only at h
            rw [verifyP_frame E c s pr s1 p1 x y t t1 hv]
            exact verifySubs_frame E n rest (sat + 1) s1 p1 s' pr' x y t1 t' h
end

/-! ### every consumed witness was checked and valid -/

/-- `Consumed E ls s pr s' pr'`: the run consumed a prefix of each witness list; every consumed
    signature verifies under the key of some public-key leaf in `ls`, every consumed preimage
    hashes to some hash leaf in `ls`. -/
def Consumed (E : Env) (ls : List Policy) (s pr s' pr' : List ByteArray) : Prop :=
  ∃ us ups, s = us ++ s' ∧ pr = ups ++ pr' ∧
    (∀ x ∈ us, ∃ k, Policy.pk k ∈ ls ∧ E.verifySig k E.sigHash x = true) ∧
    (∀ x ∈ ups, ∃ h, Policy.hash h ∈ ls ∧ E.sha x = h)

theorem Consumed.refl (E : Env) (ls : List Policy) (s pr : List ByteArray) : Consumed E ls s pr s pr :=
  ⟨[], [], rfl, rfl, by simp, by simp⟩

theorem Consumed.trans {E : Env} {l1 l2 : List Policy} {s pr s1 p1 s2 p2 : List ByteArray}
    (a : Consumed E l1 s pr s1 p1) (b : Consumed E l2 s1 p1 s2 p2) :
    Consumed E (l1 ++ l2) s pr s2 p2 := by
  obtain ⟨u1, v1, rfl, rfl, a1, a2⟩ := a
  obtain ⟨u2, v2, rfl, rfl, b1, b2⟩ := b
  refine ⟨u1 ++ u2, v1 ++ v2, by simp, by simp, ?_, ?_⟩
  · intro x hx
    rcases List.mem_append.1 hx with hx | hx
    · obtain ⟨k, hk, hv⟩ := a1 x hx; exact ⟨k, List.mem_append_left _ hk, hv⟩
    · obtain ⟨k, hk, hv⟩ := b1 x hx; exact ⟨k, List.mem_append_right _ hk, hv⟩
  · intro x hx
    rcases List.mem_append.1 hx with hx | hx
    · obtain ⟨k, hk, hv⟩ := a2 x hx; exact ⟨k, List.mem_append_left _ hk, hv⟩
    · obtain ⟨k, hk, hv⟩ := b2 x hx; exact ⟨k, List.mem_append_right _ hk, hv⟩

theorem Consumed.mono_right {E : Env} {l1 l2 : List Policy} {s pr s' pr' : List ByteArray}
    (a : Consumed E l2 s pr s' pr') : Consumed E (l1 ++ l2) s pr s' pr' := by
  simpa using (Consumed.refl E l1 s pr).trans a

mutual
theorem verifyP_consumed (E : Env) (p : Policy) (st st' : St) (hu : p.isUC = false)
    (h : verifyP E p st = .ok st') : Consumed E p.leaves st.sigs st.pres st'.sigs st'.pres := by
  match p with
  | .above a =>
    simp only [verifyP] at h; split at h <;> simp at h; subst h; exact Consumed.refl ..
  | .after a =>
    simp only [verifyP] at h; split at h <;> simp at h; subst h; exact Consumed.refl ..
  | .pk k =>
    obtain ⟨s, pr, t⟩ := st
    simp only [verifyP] at h
    cases s with
    | nil => simp at h
    | cons a as =>
      simp only at h
      split at h <;> simp at h
      rename_i hh; subst h
      exact ⟨[a], [], rfl, rfl, by simpa [Policy.leaves] using hh, by simp⟩
  | .hash k =>
    obtain ⟨s, pr, t⟩ := st
    simp only [verifyP] at h
    cases pr with
    | nil => simp at h
    | cons a as =>
      simp only at h
      split at h <;> simp at h
      rename_i hh; subst h
      exact ⟨[], [a], rfl, rfl, by simp, by simpa [Policy.leaves] using hh⟩
  | .opaque a => simp [verifyP] at h
  | .uc c => simp [Policy.isUC] at hu
  | .thresh n subs =>
    simp only [verifyP] at h
    split at h
    · simp at h
    · simpa [Policy.leaves] using verifySubs_consumed E n subs 0 _ st' h
theorem verifySubs_consumed (E : Env) (n : Nat) (subs : List Policy) (sat : Nat) (st st' : St)
    (h : verifySubs E n subs sat st = .ok st') :
    Consumed E (leavesList subs) st.sigs st.pres st'.sigs st'.pres := by
  match subs with
  | [] =>
    simp only [verifySubs] at h; split at h <;> simp at h; subst h; exact Consumed.refl ..
  | c :: rest =>
    simp only [verifySubs] at h
    split at h
    · simp at h
    · rename_i h1
      split at h
      · exact (verifySubs_consumed E n rest sat st st' h).mono_right
      · split at h
        · simp at h
        · cases hv : verifyP E c st with
          | error e => rw [hv] at h; simp at h
          | ok st1 =>
            rw [hv] at h
            simp only at h
            have a := verifyP_consumed E c st st1 (by simpa using h1) hv
            have b := verifySubs_consumed E n rest (sat + 1) st1 st' h
            simpa [leavesList] using a.trans b
end

/-! ### unlock conditions: the signatures go to distinct listed keys, in order -/

theorem UCMatch.indices {E : Env} {ks : List UnlockKey} {ss : List ByteArray} (h : UCMatch E ks ss) :
    ∃ idx : List Nat, idx.length = ss.length ∧ idx.Pairwise (· < ·) ∧
      ∀ (j i : Nat) (s : ByteArray), idx[j]? = some i → ss[j]? = some s →
        ∃ k, ks[i]? = some k ∧ ¬ keyBlocked k ∧ keyAccepts E k s := by
  induction h with
  | done ks => exact ⟨[], rfl, List.Pairwise.nil, by simp⟩
  | @use k ks s ss hb ha _ ih =>
    obtain ⟨idx, hl, hp, hi⟩ := ih
    refine ⟨0 :: idx.map (· + 1), by simp [hl], ?_, ?_⟩
    · rw [List.pairwise_cons]
      refine ⟨?_, ?_⟩
      · intro a ha'; obtain ⟨b, _, rfl⟩ := List.mem_map.1 ha'; omega
      · rw [List.pairwise_map]; exact hp.imp (by intro a b h; omega)
    · intro j i x h1 h2
      cases j with
      | zero =>
        simp at h1 h2; subst h1; subst h2
        exact ⟨k, by simp, hb, ha⟩
      | succ j =>
        simp only [List.getElem?_cons_succ, List.getElem?_map, Option.map_eq_some_iff] at h1 h2
        obtain ⟨i', hi', rfl⟩ := h1
        obtain ⟨k', hk', r⟩ := hi j i' x hi' h2
        exact ⟨k', by simpa using hk', r⟩
  | @skip k ks s ss hb _ ih =>
    obtain ⟨idx, hl, hp, hi⟩ := ih
    refine ⟨idx.map (· + 1), by simp [hl], ?_, ?_⟩
    · rw [List.pairwise_map]; exact hp.imp (by intro a b h; omega)
    · intro j i x h1 h2
      simp only [List.getElem?_map, Option.map_eq_some_iff] at h1
      obtain ⟨i', hi', rfl⟩ := h1
      obtain ⟨k', hk', r⟩ := hi j i' x hi' h2
      exact ⟨k', by simpa using hk', r⟩

end Sia.Policy
