/-
  SiaProofs.Lemmas.OutlineBytes — byte-level round trip of the block outline codec.
-/
import SiaModel.Gateway.OutlineBytes
import SiaProofs.Lemmas.Outline
import SiaProofs.Lemmas.MultiproofBytes
set_option linter.unusedSectionVars false
namespace Sia.Outline
open Sia.Codec Sia.Multiproof

/-- a codec round-trips on the values satisfying `P` -/
def BCodec.Law {α : Type} (c : BCodec α) (P : α → Prop) : Prop :=
  ∀ a rest, P a → c.dec (c.enc a ++ rest) = .ok (a, rest)

section
variable {Tx1 Tx2 : Type}

/-- present entries carry the hash of their transaction, and at most one transaction -/
def EntriesWF (env : Env Tx1 Tx2 Hash32 Hash32) (txs : List (OTx Tx1 Tx2 Hash32)) : Prop :=
  ∀ t ∈ txs, (∀ x, t.txn = some x → t.hash = env.leaf1 x ∧ t.v2txn = none) ∧
    (∀ x, t.v2txn = some x → t.hash = env.leaf2 x)

theorem shape_roundtrip (env : Env Tx1 Tx2 Hash32 Hash32) (bo : BOutline Tx1 Tx2) (hwf : EntriesWF env bo.transactions) :
    decodeShape env (encodeShape bo).1 (encodeShape bo).2.1 (encodeShape bo).2.2.1 (encodeShape bo).2.2.2 = some bo.transactions := by
  cases bo with
  | mk height parentID nonce timestamp minerAddress transactions =>
    simp only [encodeShape]
    simp only at hwf
    induction transactions with
    | nil => simp [decodeShape]
    | cons t rest ih =>
      have hrest := ih (fun x hx => hwf x (List.mem_cons_of_mem _ hx))
      obtain ⟨w1, w2⟩ := hwf t (by simp)
      rcases t with ⟨h, t1, t2⟩
      cases t1 with
      | some x =>
        obtain ⟨e1, e2⟩ := w1 x rfl
        simp only at e1 e2
        subst e2
        simpa [decodeShape, e1] using hrest
      | none =>
        cases t2 with
        | some y =>
          have e1 := w2 y rfl
          simp only at e1
          simpa [decodeShape, e1] using hrest
        | none => simpa [decodeShape] using hrest

theorem shape_counts (bo : BOutline Tx1 Tx2) :
    (encodeShape bo).1.length + (encodeShape bo).2.1.length + (encodeShape bo).2.2.1.length = (encodeShape bo).2.2.2.length ∧
    ∀ k ∈ (encodeShape bo).2.2.2, k ≤ 2 := by
  cases bo with
  | mk height parentID nonce timestamp minerAddress transactions =>
    simp only [encodeShape]
    induction transactions with
    | nil => simp
    | cons t rest ih =>
      obtain ⟨i1, i2⟩ := ih
      rcases t with ⟨h, t1, t2⟩
      cases t1 <;> cases t2 <;> simp at i1 i2 ⊢ <;> refine ⟨by omega, ?_⟩ <;> intro a ha <;> exact i2 a ha

theorem readHash_append (h : Hash32) (r : Bytes) : readHash (h.val ++ r) = .ok (h, r) := by
  have := readHashes_flatten [h] r
  simp only [List.length_cons, List.length_nil, List.map_cons, List.map_nil, List.flatten_cons, List.flatten_nil,
    List.append_nil] at this
  simp [readHash, this]

theorem readKinds_append : ∀ (ks : List Nat), (∀ k ∈ ks, k ≤ 2) → ∀ (r : Bytes),
    readKinds ks.length (ks.map UInt8.ofNat ++ r) = .ok (ks, r) := by
  intro ks
  induction ks with
  | nil => intro _ r; rfl
  | cons k t ih =>
    intro hk r
    have hk2 := hk k (by simp)
    have e : (UInt8.ofNat k).toNat = k := by
      have : k = 0 ∨ k = 1 ∨ k = 2 := by omega
      rcases this with rfl | rfl | rfl <;> rfl
    simp only [List.length_cons, List.map_cons, List.cons_append, readKinds, e]
    rw [if_neg (by omega), ih (fun x hx => hk x (List.mem_cons_of_mem _ hx))]

/-- **The outline codec round-trips on bytes**, for any lawful payload codecs. -/
theorem outline_bytes_roundtrip (env : Env Tx1 Tx2 Hash32 Hash32) (C : OutlineCodecs Tx1 Tx2)
    (P1 : List Tx1 → Prop) (P2 : List Tx2 → Prop) (PH : List Hash32 → Prop)
    (l1 : C.v1.Law P1) (l2 : C.v2.Law P2) (lH : C.hs.Law PH)
    (bo : BOutline Tx1 Tx2) (hwf : EntriesWF env bo.transactions)
    (hh : bo.height < W64) (hnn : bo.nonce < W64) (hts : bo.timestamp < W64)
    (h1 : P1 (encodeShape bo).1) (h2 : P2 (encodeShape bo).2.1) (h3 : PH (encodeShape bo).2.2.1) (tail : Bytes) :
    decodeOutline env C (encodeOutline C bo ++ tail) = .ok (bo, tail) := by
  obtain ⟨hc, hk⟩ := shape_counts bo
  unfold encodeOutline decodeOutline
  simp only [List.append_assoc]
  rw [readU64_append hh]; simp only []
  rw [readHash_append]; simp only []
  rw [readU64_append hnn]; simp only []
  rw [readU64_append hts]; simp only []
  rw [readHash_append]; simp only []
  rw [l1 _ _ h1]; simp only []
  rw [l2 _ _ h2]; simp only []
  rw [lH _ _ h3]; simp only []
  rw [hc, readKinds_append _ hk]; simp only []
  rw [shape_roundtrip env bo hwf]

end
end Sia.Outline
