import SiaProofs.Lemmas.MerkleRhpSound
/-!
  Helper lemmas for C16, part 12: the 4-lane `sectorAccumulator`.
  Rows of four subtree roots are merged by the same carry loop as single hashes (`quadOps`), so
  the stack view (`toStack`, `sInsert`, `toStack_carry`) is reused at type `Quad H`.
-/
set_option linter.unusedVariables false
set_option linter.unusedSectionVars false
namespace Sia.Rhp
open HashOps

variable {H : Type} [HashOps H]

/-- the roots of the four quarters of a block of `4 * 2^l` leaves -/
def quarters (l : Nat) (B : List H) : Quad H :=
  ⟨metaRoot (B.take (2 ^ l)), metaRoot ((B.drop (2 ^ l)).take (2 ^ l)),
   metaRoot ((B.drop (2 * 2 ^ l)).take (2 ^ l)), metaRoot ((B.drop (3 * 2 ^ l)).take (2 ^ l))⟩

/-- two adjacent blocks of `p` leaves inside `B` -/
theorem metaRoot_two_blocks (B : List H) (l off : Nat) (h : off + 2 * 2 ^ l ≤ B.length) :
    node (metaRoot ((B.drop off).take (2 ^ l))) (metaRoot ((B.drop (off + 2 ^ l)).take (2 ^ l)))
      = metaRoot ((B.drop off).take (2 * 2 ^ l)) := by
  have hp := Nat.two_pow_pos l
  have e : 2 * 2 ^ l = 2 ^ l + 2 ^ l := by omega
  rw [e, List.take_add, List.drop_drop]
  exact (metaRoot_append _ _ l (by simp [List.length_take, List.length_drop]; omega)
    (by simp [List.length_take, List.length_drop]; omega)
    (by simp [List.length_take, List.length_drop]; omega)).symm

theorem root4_quarters (l : Nat) (B : List H) (h : B.length = 4 * 2 ^ l) :
    root4 (quarters l B) = metaRoot B := by
  have hp := Nat.two_pow_pos l
  unfold root4 quarters
  simp only
  have h1 := metaRoot_two_blocks B l 0 (by omega)
  have h2 := metaRoot_two_blocks B l (2 * 2 ^ l) (by omega)
  simp only [List.drop_zero, Nat.zero_add] at h1
  have e3 : 2 * 2 ^ l + 2 ^ l = 3 * 2 ^ l := by omega
  rw [e3] at h2
  rw [h1, h2]
  have e4 : 2 * 2 ^ l = 2 ^ (l + 1) := (two_pow_succ' l).symm
  rw [e4]
  have := metaRoot_two_blocks B (l + 1) 0 (by rw [two_pow_succ']; omega)
  simp only [List.drop_zero, Nat.zero_add] at this
  rw [this, two_pow_succ']
  congr 1
  apply List.take_of_length_le; omega

theorem merge_quarters (l : Nat) (A B : List H) (hA : A.length = 4 * 2 ^ l) (hB : B.length = 4 * 2 ^ l) :
    mergeQuads (quarters l A) (quarters l B) = quarters (l + 1) (A ++ B) := by
  have hp := Nat.two_pow_pos l
  have e2 : (2:Nat) ^ (l + 1) = 2 * 2 ^ l := two_pow_succ' l
  unfold mergeQuads quarters
  simp only [e2]
  have a1 := metaRoot_two_blocks A l 0 (by omega)
  have a2 := metaRoot_two_blocks A l (2 * 2 ^ l) (by omega)
  have b1 := metaRoot_two_blocks B l 0 (by omega)
  have b2 := metaRoot_two_blocks B l (2 * 2 ^ l) (by omega)
  simp only [List.drop_zero, Nat.zero_add] at a1 b1
  have e3 : 2 * 2 ^ l + 2 ^ l = 3 * 2 ^ l := by omega
  rw [e3] at a2 b2
  rw [a1, a2, b1, b2]
  have t1 : (A ++ B).take (2 * 2 ^ l) = A.take (2 * 2 ^ l) := List.take_append_of_le_length (by omega)
  have t2 : ((A ++ B).drop (2 * 2 ^ l)).take (2 * 2 ^ l) = (A.drop (2 * 2 ^ l)).take (2 * 2 ^ l) := by
    rw [List.drop_append_of_le_length (by omega)]
    exact List.take_append_of_le_length (by simp [List.length_drop]; omega)
  have t3 : (A ++ B).drop (2 * (2 * 2 ^ l)) = B := List.drop_left' (by omega)
  have t4 : (A ++ B).drop (3 * (2 * 2 ^ l)) = B.drop (2 * 2 ^ l) := by
    have : 3 * (2 * 2 ^ l) = A.length + 2 * 2 ^ l := by omega
    rw [this, ← List.drop_drop, List.drop_left' rfl]
  rw [t1, t2, t3, t4]

/-- rows of the sector accumulator represent `ls` -/
inductive QRepr : Stack (Quad H) → List H → Prop
  | nil : QRepr [] []
  | cons {s : Stack (Quad H)} {ls : List H} (l : Nat) (B : List H) :
      QRepr s ls → (∀ x ∈ s, l < x.1) → B.length = 4 * 2 ^ l → QRepr ((l, quarters l B) :: s) (ls ++ B)

theorem qInsert_repr {s : Stack (Quad H)} {ls : List H} (r : QRepr s ls) :
    ∀ (B : List H) (l : Nat), B.length = 4 * 2 ^ l → (∀ x ∈ s, l ≤ x.1) →
      QRepr (sInsert s (quarters l B) l) (ls ++ B) := by
  induction r with
  | nil =>
    intro B l hB _
    exact QRepr.cons l B QRepr.nil (by simp) hB
  | @cons s ls l' B' r hs hB' ih =>
    intro B l hB hall
    have hle : l ≤ l' := hall (l', quarters l' B') List.mem_cons_self
    simp only [sInsert]
    by_cases heq : l' = l
    · subst heq
      simp only [if_true]
      have hm : (node (quarters l' B') (quarters l' B) : Quad H) = quarters (l' + 1) (B' ++ B) :=
        merge_quarters l' B' B hB' hB
      rw [hm]
      have := ih (B' ++ B) (l' + 1) (by simp [two_pow_succ']; omega) (fun x hx => hs x hx)
      rw [List.append_assoc]
      exact this
    · simp only [heq, if_false]
      refine QRepr.cons l B (QRepr.cons l' B' r hs hB') ?_ hB
      intro x hx
      cases hx with
      | head => show l < l'; omega
      | tail _ hx => have := hs x hx; omega

/-- forgetting the quarters: a row of level `l` is one subtree of height `l + 2` -/
theorem QRepr.toRepr {s : Stack (Quad H)} {ls : List H} (r : QRepr s ls) :
    Repr (s.map (fun x => (x.1 + 2, root4 x.2))) ls := by
  induction r with
  | nil => exact Repr.nil
  | @cons s ls l B r hs hB ih =>
    simp only [List.map_cons]
    rw [root4_quarters l B hB]
    refine Repr.cons (l + 2) B ih ?_ ?_
    · intro x hx
      simp only [List.mem_map] at hx
      obtain ⟨y, hy, rfl⟩ := hx
      have := hs y hy
      simp; omega
    · rw [hB, Nat.pow_add]; omega

theorem QRepr.length {s : Stack (Quad H)} {ls : List H} (r : QRepr s ls) (hs : s = []) : ls = [] := by
  cases r with
  | nil => rfl
  | cons l B r _ _ => simp at hs

theorem toStack_map_root4 (t : Nat → Quad H) : ∀ (m i : Nat),
    toStack (fun l => root4 (t l)) m i = (toStack t m i).map (fun x => (x.1, root4 x.2)) := by
  intro m
  induction m using Nat.strongRecOn with
  | _ m ih =>
    intro i
    by_cases h0 : m = 0
    · subst h0; simp [toStack_zero]
    · by_cases h1 : m % 2 = 1
      · rw [toStack_odd _ m i h1, toStack_odd t m i h1, ih (m / 2) (by omega)]; simp
      · rw [toStack_even _ m i (by omega), toStack_even t m i (by omega), ih (m / 2) (by omega)]

theorem foldl_sStep_congr : ∀ (s1 s2 : Stack H) (r : Option H), s1.map Prod.snd = s2.map Prod.snd →
    s1.foldl sStep r = s2.foldl sStep r := by
  intro s1
  induction s1 with
  | nil =>
    intro s2 r h
    cases s2 with
    | nil => rfl
    | cons b s2 => simp at h
  | cons a s1 ih =>
    intro s2 r h
    cases s2 with
    | nil => simp at h
    | cons b s2 =>
      simp only [List.map_cons, List.cons.injEq] at h
      simp only [List.foldl_cons, sStep, h.1]
      exact ih s2 _ h.2

/-! ### the invariant of the sector accumulator -/

def Quad.get (q : Quad H) (i : Nat) : H :=
  match i with
  | 0 => q.a
  | 1 => q.b
  | 2 => q.c
  | _ => q.d

/-- `sa` holds the nodes `ls`: whole groups of four in the rows, the last `numLeaves % 4` in `nodeBuf` -/
def SInv (sa : SecAcc H) (ls : List H) : Prop :=
  ∃ big tail, ls = big ++ tail ∧ tail.length = sa.numLeaves % 4 ∧
    QRepr (toStack sa.trees (sa.numLeaves / 4) 0) big ∧
    (∀ j (hj : j < tail.length), tail[j] = sa.nodeBuf.get j)

theorem SInv.empty : SInv (SecAcc.empty : SecAcc H) [] := by
  refine ⟨[], [], rfl, rfl, ?_, ?_⟩
  · show QRepr (toStack _ (0 / 4) 0) []
    simp [toStack_zero]; exact QRepr.nil
  · intro j hj; simp at hj

theorem quarters_zero (w x y z : H) : quarters 0 [w, x, y, z] = ⟨w, x, y, z⟩ := by
  simp [quarters, metaRoot_singleton]

/-- pushing a full `nodeBuf` down the rows -/
theorem SInv.merge {sa : SecAcc H} {big : List H} (w x y z : H)
    (hq : QRepr (toStack sa.trees (sa.numLeaves / 4) 0) big) (h4 : sa.numLeaves % 4 = 0) :
    SInv ({ sa with nodeBuf := ⟨w, x, y, z⟩ }.mergeNodeBuf) (big ++ [w, x, y, z]) := by
  refine ⟨big ++ [w, x, y, z], [], by simp, ?_, ?_, ?_⟩
  · simp [SecAcc.mergeNodeBuf]; omega
  · simp only [SecAcc.mergeNodeBuf]
    have e : (sa.numLeaves + 4) / 4 = sa.numLeaves / 4 + 1 := by omega
    rw [e, toStack_carry sa.trees (sa.numLeaves / 4) 0 ⟨w, x, y, z⟩, ← quarters_zero w x y z]
    exact qInsert_repr hq [w, x, y, z] 0 (by simp) (fun x _ => Nat.zero_le _)
  · intro j hj; simp at hj

theorem Quad.get_set (q : Quad H) (i j : Nat) (h : H) (hi : i < 4) (hj : j < 4) :
    (q.set i h).get j = if j = i then h else q.get j := by
  have : i = 0 ∨ i = 1 ∨ i = 2 ∨ i = 3 := by omega
  have : j = 0 ∨ j = 1 ∨ j = 2 ∨ j = 3 := by omega
  rcases ‹i = 0 ∨ i = 1 ∨ i = 2 ∨ i = 3› with rfl | rfl | rfl | rfl <;>
  rcases ‹j = 0 ∨ j = 1 ∨ j = 2 ∨ j = 3› with rfl | rfl | rfl | rfl <;> simp [Quad.set, Quad.get]

theorem SInv.appendNode {sa : SecAcc H} {ls : List H} (hi : SInv sa ls) (h : H) :
    SInv (sa.appendNode h) (ls ++ [h]) := by
  obtain ⟨big, tail, hls, hlen, hq, hbuf⟩ := hi
  unfold SecAcc.appendNode
  simp only
  by_cases h3 : (sa.numLeaves + 1) % 4 = 0
  · -- the buffer is full: merge
    simp only [h3, if_true]
    have hr : sa.numLeaves % 4 = 3 := by omega
    have hl3 : tail.length = 3 := by omega
    obtain ⟨t0, t1, t2, rfl⟩ : ∃ t0 t1 t2, tail = [t0, t1, t2] := by
      match tail, hl3 with
      | [a, b, c], _ => exact ⟨a, b, c, rfl⟩
    have g0 := hbuf 0 (by simp)
    have g1 := hbuf 1 (by simp)
    have g2 := hbuf 2 (by simp)
    simp only [List.getElem_cons_zero, List.getElem_cons_succ, Quad.get] at g0 g1 g2
    have hset : sa.nodeBuf.set (sa.numLeaves % 4) h = ⟨t0, t1, t2, h⟩ := by
      rw [hr]; simp [Quad.set, g0, g1, g2]
    rw [hset]
    have hsub : sa.numLeaves + 1 - 4 = sa.numLeaves - 3 := by omega
    have := SInv.merge (sa := { sa with numLeaves := sa.numLeaves - 3 }) (big := big) t0 t1 t2 h
      (by simp only; have : (sa.numLeaves - 3) / 4 = sa.numLeaves / 4 := by omega
          rw [this]; exact hq)
      (by simp only; omega)
    rw [hls]
    simp only [hsub, List.append_assoc, List.cons_append, List.nil_append]
    exact this
  · simp only [h3, if_false]
    have hr : sa.numLeaves % 4 < 3 := by omega
    refine ⟨big, tail ++ [h], by rw [hls]; simp, by simp; omega, ?_, ?_⟩
    · simp only
      have : (sa.numLeaves + 1) / 4 = sa.numLeaves / 4 := by omega
      rw [this]; exact hq
    · intro j hj
      simp only [List.length_append, List.length_cons, List.length_nil] at hj
      rw [Quad.get_set _ _ _ _ (by omega) (by omega)]
      by_cases hjl : j < tail.length
      · rw [List.getElem_append_left hjl, hbuf j hjl]
        have : ¬ (j = sa.numLeaves % 4) := by omega
        simp [this]
      · have : j = tail.length := by omega
        subst this
        simp [hlen]

theorem SInv.foldl_appendNode {sa : SecAcc H} {l0 : List H} (hi : SInv sa l0) (ls : List H) :
    SInv (ls.foldl SecAcc.appendNode sa) (l0 ++ ls) := by
  induction ls generalizing sa l0 with
  | nil => simpa using hi
  | cons x xs ih =>
    simp only [List.foldl_cons]
    have := ih (hi.appendNode x)
    simpa [List.append_assoc] using this

theorem SInv.root {sa : SecAcc H} {ls : List H} (hi : SInv sa ls) : sa.root = metaRoot ls := by
  obtain ⟨big, tail, hls, hlen, hq, hbuf⟩ := hi
  unfold SecAcc.root
  by_cases h0 : sa.numLeaves = 0
  · simp only [h0, if_true]
    rw [h0] at hq hlen
    simp only [Nat.zero_div, toStack_zero] at hq
    have hb : big = [] := hq.length rfl
    have ht : tail = [] := List.eq_nil_of_length_eq_zero (by simpa using hlen)
    rw [hls, hb, ht]; simp [metaRoot_nil]
  · simp only [h0, if_false]
    rw [rootLoop_stack, toStack_map_root4]
    have hR := hq.toRepr
    have hcongr : ∀ r, ((toStack sa.trees (sa.numLeaves / 4) 0).map (fun x => (x.1, root4 x.2))).foldl sStep r
        = ((toStack sa.trees (sa.numLeaves / 4) 0).map (fun x => (x.1 + 2, root4 x.2))).foldl sStep r := by
      intro r
      apply foldl_sStep_congr
      simp [List.map_map, Function.comp_def]
    rw [hcongr]
    have hheights : ∀ x ∈ (toStack sa.trees (sa.numLeaves / 4) 0).map (fun x => (x.1 + 2, root4 x.2)), 2 ≤ x.1 := by
      intro x hx
      simp only [List.mem_map] at hx
      obtain ⟨y, _, rfl⟩ := hx
      simp
    have hcase : sa.numLeaves % 4 = 0 ∨ sa.numLeaves % 4 = 1 ∨ sa.numLeaves % 4 = 2 ∨ sa.numLeaves % 4 = 3 := by omega
    rcases hcase with hr | hr | hr | hr
    · have ht : tail = [] := List.eq_nil_of_length_eq_zero (by omega)
      simp only [hr]
      rw [hls, ht, List.append_nil]
      exact sRoot_spec hR.toC
    · have hl1 : tail.length = 1 := by omega
      obtain ⟨t0, rfl⟩ := List.length_eq_one_iff.1 hl1
      have g0 := hbuf 0 (by simp)
      simp only [List.getElem_cons_zero, Quad.get] at g0
      simp only [hr]
      rw [← g0, ← metaRoot_singleton t0, foldl_sStep_repr hR [t0] 2 (by simp) (by simp) hheights, hls]
      simp
    · have hl2 : tail.length = 2 := by omega
      obtain ⟨t0, t1, rfl⟩ : ∃ t0 t1, tail = [t0, t1] := by
        match tail, hl2 with
        | [a, b], _ => exact ⟨a, b, rfl⟩
      have g0 := hbuf 0 (by simp)
      have g1 := hbuf 1 (by simp)
      simp only [List.getElem_cons_zero, List.getElem_cons_succ, Quad.get] at g0 g1
      simp only [hr]
      have e : node t0 t1 = metaRoot [t0, t1] := by
        have := metaRoot_append [t0] [t1] 0 rfl (by simp) (by simp)
        simpa [metaRoot_singleton] using this.symm
      rw [← g0, ← g1, e, foldl_sStep_repr hR [t0, t1] 2 (by simp) (by simp) hheights, hls]
      simp
    · have hl3 : tail.length = 3 := by omega
      obtain ⟨t0, t1, t2, rfl⟩ : ∃ t0 t1 t2, tail = [t0, t1, t2] := by
        match tail, hl3 with
        | [a, b, c], _ => exact ⟨a, b, c, rfl⟩
      have g0 := hbuf 0 (by simp)
      have g1 := hbuf 1 (by simp)
      have g2 := hbuf 2 (by simp)
      simp only [List.getElem_cons_zero, List.getElem_cons_succ, Quad.get] at g0 g1 g2
      simp only [hr]
      have e2 : node t0 t1 = metaRoot [t0, t1] := by
        have := metaRoot_append [t0] [t1] 0 rfl (by simp) (by simp)
        simpa [metaRoot_singleton] using this.symm
      have e3 : node (node t0 t1) t2 = metaRoot [t0, t1, t2] := by
        have := metaRoot_append [t0, t1] [t2] 1 rfl (by simp) (by simp)
        rw [e2]
        simpa [metaRoot_singleton] using this.symm
      rw [← g0, ← g1, ← g2, e3, foldl_sStep_repr hR [t0, t1, t2] 2 (by simp) (by simp) hheights, hls]
      simp

/-- `appendLeaves` under Go's precondition: four or more leaves only on a 4-aligned count -/
theorem SInv.appendLeafHashes : ∀ (n : Nat) (hs : List H) (sa : SecAcc H) (ls : List H), hs.length = n →
    SInv sa ls → (sa.numLeaves % 4 = 0 ∨ hs.length < 4) → SInv (sa.appendLeafHashes hs) (ls ++ hs) := by
  intro n
  induction n using Nat.strongRecOn with
  | _ n ih =>
    intro hs sa ls hn hi hpre
    match hs, hn with
    | w :: x :: y :: z :: rest, hn =>
      have h4 : sa.numLeaves % 4 = 0 := by
        cases hpre with
        | inl h => exact h
        | inr h => simp at h; omega
      obtain ⟨big, tail, hls, hlen, hq, hbuf⟩ := hi
      have ht : tail = [] := List.eq_nil_of_length_eq_zero (by omega)
      subst ht
      simp only [List.append_nil] at hls
      subst hls
      have hm := SInv.merge (sa := sa) (big := ls) w x y z hq h4
      simp only [SecAcc.appendLeafHashes]
      have := ih rest.length (by simp at hn; omega) rest _ _ rfl hm
        (Or.inl (by simp [SecAcc.mergeNodeBuf]; omega))
      simpa [List.append_assoc] using this
    | [], _ => simpa [SecAcc.appendLeafHashes] using hi
    | [a], _ => simpa [SecAcc.appendLeafHashes] using hi.foldl_appendNode [a]
    | [a, b], _ => simpa [SecAcc.appendLeafHashes] using hi.foldl_appendNode [a, b]
    | [a, b, c], _ => simpa [SecAcc.appendLeafHashes] using hi.foldl_appendNode [a, b, c]

end Sia.Rhp
