import SiaProofs.Lemmas.MerkleRhpBits
/-!
  Helper lemmas for C16, part 3: the range-proof builder and verifier walk the same
  subtrees (completeness of range proofs).
-/
set_option linter.unusedVariables false
set_option linter.unusedSectionVars false
namespace Sia.Rhp
open HashOps

variable {H : Type} [HashOps H]

theorem buildRange_done (ls : List H) (i j : Nat) (h : ¬ (i < j ∧ i < ls.length)) :
    buildRange ls i j = [] := by
  rw [buildRange]; simp [h]

theorem buildRange_step (ls : List H) (i j : Nat) (h : i < j ∧ i < ls.length) :
    buildRange ls i j =
      metaRoot ((ls.drop i).take (if i + nextSubtreeSize i j > ls.length then ls.length - i else nextSubtreeSize i j))
        :: buildRange ls (i + (if i + nextSubtreeSize i j > ls.length then ls.length - i else nextSubtreeSize i j)) j := by
  rw [buildRange]; simp [h]

theorem insertRange_done (a : Acc H) (l : List H) (i j : Nat) (h : ¬ i < j) :
    insertRange a l i j = (a, l) := by
  cases l with
  | nil => simp [insertRange]
  | cons p ps => simp [insertRange, h]

theorem insertRange_cons (a : Acc H) (p : H) (ps : List H) (i j : Nat) (h : i < j) :
    insertRange a (p :: ps) i j =
      insertRange (a.insertNode p (tz (nextSubtreeSize i j))) ps (i + nextSubtreeSize i j) j := by
  simp [insertRange, h]

/-- inside the list (`j ≤ n`) the verifier consumes exactly what the builder emitted; if it
held `pre` (`|pre| = i`) before, it holds `pre ++ ls[i:j]` afterwards -/
theorem insertRange_buildRange_seg (ls : List H) (j : Nat) (hj : j ≤ ls.length) :
    ∀ (d i : Nat) (a : Acc H) (pre rest : List H), j - i = d → i ≤ j → pre.length = i → Inv a pre →
      ∃ a', insertRange a (buildRange ls i j ++ rest) i j = (a', rest) ∧
        Inv a' (pre ++ (ls.drop i).take (j - i)) := by
  intro d
  induction d using Nat.strongRecOn with
  | _ d ih =>
    intro i a pre rest hd hij hpre hinv
    by_cases hlt : i < j
    · obtain ⟨k, hk, hdvd, hle⟩ := nss_spec hlt
      have hp := Nat.two_pow_pos k
      have hin : i < ls.length := by omega
      have hnc : ¬ (i + nextSubtreeSize i j > ls.length) := by rw [hk]; omega
      rw [buildRange_step ls i j ⟨hlt, hin⟩]
      simp only [hnc, if_false, List.cons_append]
      rw [insertRange_cons a _ _ i j hlt, hk, tz_two_pow]
      have hB : ((ls.drop i).take (2 ^ k)).length = 2 ^ k := by
        simp [List.length_take, List.length_drop]; omega
      have hinv' := hinv.insertNode ((ls.drop i).take (2 ^ k)) k hB (by rw [hpre]; exact hdvd)
      obtain ⟨a', h1, h2⟩ := ih (j - (i + 2 ^ k)) (by omega) (i + 2 ^ k) _
        (pre ++ (ls.drop i).take (2 ^ k)) rest rfl hle (by simp [hpre, hB]) hinv'
      refine ⟨a', h1, ?_⟩
      have e1 : j - i = 2 ^ k + (j - (i + 2 ^ k)) := by omega
      rw [e1, List.take_add, List.drop_drop, ← List.append_assoc]
      exact h2
    · have : i = j := by omega
      subst this
      rw [buildRange_done ls i i (by omega)]
      simp only [List.nil_append, Nat.sub_self, List.take_zero, List.append_nil]
      exact ⟨a, insertRange_done a rest i i (by omega), hinv⟩

theorem insertRange_buildRange_exact (ls : List H) (j : Nat) (hj : j ≤ ls.length) :
    ∀ (d i : Nat) (a : Acc H) (rest : List H), j - i = d → i ≤ j → Inv a (ls.take i) →
      ∃ a', insertRange a (buildRange ls i j ++ rest) i j = (a', rest) ∧ Inv a' (ls.take j) := by
  intro d i a rest hd hij hinv
  obtain ⟨a', h1, h2⟩ := insertRange_buildRange_seg ls j hj d i a (ls.take i) rest hd hij
    (by simp [List.length_take]; omega) hinv
  refine ⟨a', h1, ?_⟩
  rw [← List.take_add] at h2
  have : i + (j - i) = j := by omega
  rwa [this] at h2

/-- right of the range the builder (bound `J1`) and the verifier (bound `J2`) walk the same
aligned subtrees up to the end of the list, where the last subtree may be clipped -/
theorem insertRange_buildRange_right (ls : List H) (J1 J2 : Nat)
    (hJ1 : 2 * (ls.length - 1) ≤ J1)
    (hJ2 : ∀ i, 0 < i → i < ls.length → nextSubtreeSize i J2 = 2 ^ tz i ∧ i < J2) :
    ∀ (d i : Nat) (a : Acc H), ls.length - i = d → 0 < i → i ≤ ls.length → Inv a (ls.take i) →
      ∃ a', insertRange a (buildRange ls i J1) i J2 = (a', []) ∧ InvC a' ls := by
  intro d
  induction d using Nat.strongRecOn with
  | _ d ih =>
    intro i a hd hi0 hin hinv
    by_cases hlt : i < ls.length
    · have hk1 : nextSubtreeSize i J1 = 2 ^ tz i := nss_big hi0 (by omega)
      have hk2 : nextSubtreeSize i J2 = 2 ^ tz i := (hJ2 i hi0 hlt).1
      have hiJ2 : i < J2 := (hJ2 i hi0 hlt).2
      have hdvd : 2 ^ tz i ∣ i := tz_dvd (by omega)
      have hp := Nat.two_pow_pos (tz i)
      rw [buildRange_step ls i J1 ⟨by omega, hlt⟩, hk1]
      rw [insertRange_cons a _ _ i J2 (by omega), hk2, tz_two_pow]
      by_cases hc : i + 2 ^ tz i > ls.length
      · -- clipped last subtree
        simp only [hc, if_true]
        have e1 : i + (ls.length - i) = ls.length := by omega
        rw [e1, buildRange_done ls ls.length J1 (by omega)]
        have hB : ((ls.drop i).take (ls.length - i)) = ls.drop i := by
          apply List.take_of_length_le; simp
        rw [hB]
        refine ⟨a.insertNode (metaRoot (ls.drop i)) (tz i), by simp [insertRange], ?_⟩
        have := hinv.insertNodeC (ls.drop i) (tz i) (by simp; omega) (by simp; omega)
          (by simp [List.length_take]; rw [Nat.min_eq_left (by omega)]; exact hdvd)
        rwa [List.take_append_drop] at this
      · simp only [hc, if_false]
        have hB : ((ls.drop i).take (2 ^ tz i)).length = 2 ^ tz i := by
          simp [List.length_take, List.length_drop]; omega
        have hinv' := hinv.insertNode ((ls.drop i).take (2 ^ tz i)) (tz i) hB
          (by simp [List.length_take]; rw [Nat.min_eq_left (by omega)]; exact hdvd)
        rw [← List.take_add] at hinv'
        exact ih (ls.length - (i + 2 ^ tz i)) (by omega) (i + 2 ^ tz i) _ rfl (by omega) (by omega) hinv'
    · have : i = ls.length := by omega
      subst this
      rw [buildRange_done ls _ J1 (by omega)]
      refine ⟨a, by simp [insertRange], ?_⟩
      have := hinv.toC
      rwa [List.take_of_length_le (Nat.le_refl _)] at this

/-- inserting the covered roots one by one -/
theorem Inv.foldl_range {a : Acc H} (ls : List H) (s e : Nat) (hse : s ≤ e)
    (hinv : Inv a (ls.take s)) :
    Inv (((ls.drop s).take (e - s)).foldl (fun a h => a.insertNode h 0) a) (ls.take e) := by
  have := hinv.foldl_insertLeaf ((ls.drop s).take (e - s))
  rw [← List.take_add] at this
  have e1 : s + (e - s) = e := by omega
  rwa [e1] at this

end Sia.Rhp
