import SiaProofs.Lemmas.LedgerC06Genuine
/-!
# Ledgers along a chain keep unique ids; `applyBlock` unpacked
-/
namespace Sia.Ledger

theorem nodup_commit {α δ} (key : α → Id) (dkey : δ → Id) (out : δ → α) (p : α → Bool) (keep : δ → Bool)
    (l : List α) (ds : List δ) (hl : (l.map key).Nodup) (hds : (ds.map dkey).Nodup)
    (hp : ∀ e, p e = true → ∀ d ∈ ds, dkey d ≠ key e) (hout : ∀ d, key (out d) = dkey d) :
    ((l.filter p ++ (ds.filter keep).map out).map key).Nodup := by
  rw [List.map_append, List.nodup_append]
  refine ⟨(List.Sublist.map key List.filter_sublist).nodup hl, ?_, ?_⟩
  · have : ((ds.filter keep).map out).map key = (ds.filter keep).map dkey := by
      rw [List.map_map]; apply List.map_congr_left; intro d _; exact hout d
    rw [this]
    exact (List.Sublist.map dkey List.filter_sublist).nodup hds
  · intro x hx y hy hxy
    obtain ⟨e, he, rfl⟩ := List.mem_map.1 hx
    obtain ⟨e', he', rfl⟩ := List.mem_map.1 hy
    obtain ⟨d, hd, rfl⟩ := List.mem_map.1 he'
    have hd' := List.mem_filter.1 hd
    rw [hout d] at hxy
    exact hp e (List.mem_filter.1 he).2 d hd'.1 hxy.symm

/-- committing a mid-state with the index invariant keeps element ids unique -/
theorem commit_ledgerIds (ms : Mid) (bid : Id) (hL : LedgerIds ms.base) (hJ : MidJ ms) : LedgerIds (ms.commit bid) := by
  refine ⟨?_, ?_, ?_, ?_⟩
  · show ((List.filter _ _ ++ List.map _ (List.filter _ _)).map (fun e : ScElem => e.id)).Nodup
    apply nodup_commit (fun e : ScElem => e.id) (fun d : ScDiff => d.e.id) _ _ _ _ _ hL.sc hJ.sc.nodup
    · intro e he d hd; simp at he; exact he d hd
    · intro d; rfl
  · show ((List.filter _ _ ++ List.map _ (List.filter _ _)).map (fun e : SfElem => e.id)).Nodup
    apply nodup_commit (fun e : SfElem => e.id) (fun d : SfDiff => d.e.id) _ _ _ _ _ hL.sf hJ.sf.nodup
    · intro e he d hd; simp at he; exact he d hd
    · intro d; rfl
  · show ((List.filter _ _ ++ List.map _ (List.filter _ _)).map (fun e : Fc1Elem => e.id)).Nodup
    apply nodup_commit (fun e : Fc1Elem => e.id) (fun d : Fc1Diff => d.e.id) _ _ _ _ _ hL.fc1 hJ.fc1.nodup
    · intro e he d hd; simp at he; exact he d hd
    · intro d; exact Fc1Diff.current_id d
  · show ((List.filter _ _ ++ List.map _ (List.filter _ _)).map (fun e : Fc2Elem => e.id)).Nodup
    apply nodup_commit (fun e : Fc2Elem => e.id) (fun d : Fc2Diff => d.e.id) _ _ _ _ _ hL.fc2 hJ.fc2.nodup
    · intro e he d hd; simp at he; exact he d hd
    · intro d; cases d.revision <;> rfl

theorem applyBlock_facts {L L' : Ledger} {b : Block} {ms : Mid} (h : applyBlock L b = .ok (L', ms)) :
    midApplyBlock (newMid L) b = .ok ms ∧ L' = ms.commit b.blockId := by
  unfold applyBlock at h
  obtain ⟨m, hm, h⟩ := bind_ok_iff.1 h
  simp at h
  obtain ⟨rfl, rfl⟩ := h
  exact ⟨hm, rfl⟩

theorem applyBlock_ledgerIds {L L' : Ledger} {b : Block} {ms : Mid} (hL : LedgerIds L)
    (h : applyBlock L b = .ok (L', ms)) : LedgerIds L' := by
  obtain ⟨hm, rfl⟩ := applyBlock_facts h
  exact commit_ledgerIds ms _ (by rw [midApplyBlock_base hm]; exact hL) (midApplyBlock_J hm)

end Sia.Ledger
