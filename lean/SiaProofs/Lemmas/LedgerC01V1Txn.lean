import SiaProofs.Lemmas.LedgerC01V1Val
/-!
# C01 helper lemmas, part 13: one v1 transaction conserves value
-/
namespace Sia.Ledger

/-- the supplement of a v1 transaction only contains elements of the base ledger -/
structure SuppOk (L : Ledger) (s : Supp1) : Prop where
  sc : ∀ e ∈ s.scIns, e ∈ L.sc
  sf : ∀ e ∈ s.sfIns, e ∈ L.sf
  rev : ∀ e ∈ s.revised, e ∈ L.fc1
  proof : ∀ p ∈ s.proofs, p.1 ∈ L.fc1

theorem pendSc1_of {T} {ms : Mid} (hc : Ctx T ms.base) (hI : Inv T ms) {supp : Supp1} (hs : SuppOk ms.base supp)
    {sci : ScIn1} (hsp : ms.isSpent sci.parent = false) {p : ScElem} (hp : ms.scElement supp sci.parent = some p) :
    PendSc1 T ms supp sci := by
  refine ⟨p, hp, ?_⟩
  unfold Mid.scElement at hp
  cases hv : ms.scDiff? sci.parent with
  | some d =>
    rw [hv] at hp; simp only [Option.some.injEq] at hp; subst hp
    obtain ⟨hm, hid⟩ := scDiff?_mem hv
    refine ⟨hid, ?_, ?_⟩
    · apply hI.struct.typed Kind.sc; exact List.mem_map_of_mem hm
    · rw [hid, hv]; simp only []
      refine ⟨?_, by first | rfl | trivial⟩
      cases hsd : d.spent with
      | false => rfl
      | true =>
        have := isSpent_of_mem ((hI.sc d hm).2.2 hsd)
        rw [hid, hsp] at this; cases this
  | none =>
    rw [hv] at hp; simp only [] at hp
    have hmem := List.mem_of_find?_eq_some hp
    have hid : p.id = sci.parent := by simpa using List.find?_some hp
    have hb := hs.sc p hmem
    refine ⟨hid, hc.base Kind.sc _ (List.mem_map_of_mem hb), ?_⟩
    rw [hid, hv]; exact hb

theorem pendSf1_of {T} {ms : Mid} (hc : Ctx T ms.base) (hI : Inv T ms) {supp : Supp1} (hs : SuppOk ms.base supp)
    {sfi : SfIn1} (hsp : ms.isSpent sfi.parent = false) {p : SfElem} (hp : ms.sfElement supp sfi.parent = some p) :
    PendSf1 T ms supp sfi := by
  refine ⟨p, hp, ?_⟩
  unfold Mid.sfElement at hp
  cases hv : ms.sfDiff? sfi.parent with
  | some d =>
    rw [hv] at hp; simp only [Option.some.injEq] at hp; subst hp
    obtain ⟨hm, hid⟩ := sfDiff?_mem hv
    refine ⟨hid, ?_, ?_⟩
    · apply hI.struct.typed Kind.sf; exact List.mem_map_of_mem hm
    · rw [hid, hv]; simp only []
      refine ⟨?_, by first | rfl | trivial⟩
      cases hsd : d.spent with
      | false => rfl
      | true =>
        have := isSpent_of_mem ((hI.sf d hm).2.2 hsd)
        rw [hid, hsp] at this; cases this
  | none =>
    rw [hv] at hp; simp only [] at hp
    have hmem := List.mem_of_find?_eq_some hp
    have hid : p.id = sfi.parent := by simpa using List.find?_some hp
    have hb := hs.sf p hmem
    refine ⟨hid, hc.base Kind.sf _ (List.mem_map_of_mem hb), ?_⟩
    rw [hid, hv]; exact hb

/-- a successful v1 contract lookup of an unspent id returns a live contract carrying that id -/
theorem liveFc1_of {T} {ms : Mid} (hc : Ctx T ms.base) (hI : Inv T ms) {supp : Supp1} (hs : SuppOk ms.base supp)
    {id : Id} (hsp : ms.isSpent id = false) {p : Fc1Elem} (hp : ms.fc1Element supp id = some p) :
    p.id = id ∧ LiveFc1 T ms p := by
  unfold Mid.fc1Element at hp
  cases hv : ms.fc1Diff? id with
  | some d =>
    rw [hv] at hp; simp only [Option.some.injEq] at hp; subst hp
    obtain ⟨hm, hid⟩ := fc1Diff?_mem hv
    have hcid : d.current.id = id := by unfold Fc1Diff.current; split <;> exact hid
    refine ⟨hcid, ?_, ?_⟩
    · rw [hcid, ← hid]; apply hI.struct.typed Kind.fc1; exact List.mem_map_of_mem hm
    · rw [hcid, hv]; simp only []
      refine ⟨?_, by first | rfl | trivial⟩
      cases hsd : d.resolved with
      | false => rfl
      | true =>
        have := isSpent_of_mem ((hI.fc1 d hm).2.2.1 hsd)
        rw [hid, hsp] at this; cases this
  | none =>
    rw [hv] at hp; simp only [] at hp
    have hfound : p ∈ ms.base.fc1 ∧ p.id = id := by
      split at hp
      · rename_i e he
        cases hp
        exact ⟨hs.rev _ (List.mem_of_find?_eq_some he), by simpa using List.find?_some he⟩
      · rw [Option.map_eq_some_iff] at hp
        obtain ⟨q, hq, rfl⟩ := hp
        exact ⟨hs.proof _ (List.mem_of_find?_eq_some hq), by simpa using List.find?_some hq⟩
    refine ⟨hfound.2, hc.base Kind.fc1 _ (List.mem_map_of_mem hfound.1), ?_⟩
    rw [hfound.2, hv]; exact hfound.1

-- ------------------------------------------------------------------ the transaction

/-- ids created by a v1 transaction, in creation order, with their kinds -/
def Txn1.created (t : Txn1) : List (Kind × Id) :=
  t.scOuts.map (fun x => (Kind.sc, x.1)) ++ (t.sfIns.map (fun i => (Kind.sc, i.claimId)) ++
  (t.sfOuts.map (fun x => (Kind.sf, x.1)) ++ (t.fcs.map (fun x => (Kind.fc1, x.1)) ++
  t.proofs.flatMap Proof1.created)))

/-- sum of the claim outputs a v1 transaction creates, evaluated in the state before it -/
def Txn1.claims (ms : Mid) (t : Txn1) : Nat := (t.sfIns.map (sfInClaim ms t.supp ms.pool)).sum

/-- siafund tax collected by a v1 transaction -/
def Txn1.taxes (L : Ledger) (t : Txn1) : Nat := (t.fcs.map (fun x => fileContractTax L x.2.payout)).sum

theorem foundation1_fields (ms : Mid) (t : Txn1) :
    (foundation1 ms t).base = ms.base ∧ (foundation1 ms t).elements = ms.elements ∧ (foundation1 ms t).spends = ms.spends ∧
    (foundation1 ms t).sces = ms.sces ∧ (foundation1 ms t).sfes = ms.sfes ∧ (foundation1 ms t).fces = ms.fces ∧
    (foundation1 ms t).v2fces = ms.v2fces ∧ (foundation1 ms t).pool = ms.pool := by
  unfold foundation1
  split
  · rcases t.foundation with _ | ⟨_ | ⟨p, f⟩, sg⟩ <;> exact ⟨rfl, rfl, rfl, rfl, rfl, rfl, rfl, rfl⟩
  · exact ⟨rfl, rfl, rfl, rfl, rfl, rfl, rfl, rfl⟩

theorem sum_payout_eq (ms : Mid) (l : List (Id × Fc1)) (h : ∀ x ∈ l, Fc1FormOk ms x) :
    (l.map (·.2.payout)).sum = (l.map (fun x => x.2.val + fileContractTax ms.base x.2.payout)).sum := by
  induction l with
  | nil => rfl
  | cons a l ih =>
    simp only [List.map_cons, List.sum_cons]
    rw [ih (fun x hx => h x (List.mem_cons_of_mem _ hx))]
    have := (h a List.mem_cons_self).2
    unfold Fc1.val
    c1_omega

theorem v1txn_conserves {T} {ms ms' : Mid} {t : Txn1} {pid : Id} {mw : Nat} {R : List (Kind × Id)}
    (hc : Ctx T ms.base) (hI : Inv T ms) (hsupp : SuppOk ms.base t.supp)
    (hF : Fresh T ms (t.created ++ R))
    (hlen : ∀ sp ∈ t.proofs, ∀ e, ms.fc1Element t.supp sp.parent = some e → e.fc.valid.length ≤ sp.outIds.length)
    (hnw : (t.sfOuts.map (·.2.1)).sum < u64Limit) (hsfb : sfTot ms < u64Limit)
    (hv : validateTransaction ms t pid mw = .ok ()) (ha : applyTransaction ms t = .ok ms') :
    Inv T ms' ∧ Fresh T ms' R ∧ ms'.base = ms.base ∧
    Phi ms' + t.fees.sum = Phi ms + t.claims ms ∧ sfTot ms' = sfTot ms ∧ ms.pool ≤ ms'.pool ∧
    (CsOk ms → CsOk ms' ∧ Psi ms' + 10000 * t.claims ms ≤ Psi ms + (ms'.pool - ms.pool) * sfTot ms) ∧
    ms'.pool = ms.pool + t.taxes ms.base ∧
    (1 ≤ ms.base.P.maturityDelay →
      scW (wImm ms.base.child) ms + t.claims ms ≤ scW (wImm ms.base.child) ms') := by
  obtain ⟨hv1, hv2, hv3, hv4⟩ := validateTransaction_ok hv
  obtain ⟨hsc, hbal⟩ := validateSiacoins1_ok hv1
  obtain ⟨hsf, hsfbal⟩ := validateSiafunds1_ok hv2
  obtain ⟨hfcs, hrevs, hprn, hprs, hmix⟩ := validateFileContracts1_ok hv3
  have hnd := validateSignatures_ok hv4
  rw [List.nodup_append] at hnd
  obtain ⟨hnd12, hndr, _⟩ := hnd
  rw [List.nodup_append] at hnd12
  obtain ⟨hndsc, hndsf, _⟩ := hnd12
  rw [applyTransaction_eq_c1] at ha
  rw [bind_eq_ok] at ha; obtain ⟨ms1, a1, ha⟩ := ha
  rw [bind_eq_ok] at ha; obtain ⟨ms2, a2, ha⟩ := ha
  rw [bind_eq_ok] at ha; obtain ⟨ms3, a3, ha⟩ := ha
  rw [bind_eq_ok] at ha; obtain ⟨ms4, a4, ha⟩ := ha
  rw [bind_eq_ok] at ha; obtain ⟨ms5, a5, ha⟩ := ha
  rw [bind_eq_ok] at ha; obtain ⟨ms6, a6, ha⟩ := ha
  rw [bind_eq_ok] at ha; obtain ⟨ms7, a7, ha⟩ := ha
  cases ha
  -- preconditions relative to the state before the transaction
  have pSc : ∀ sci ∈ t.scIns, PendSc1 T ms t.supp sci := fun sci h => by
    obtain ⟨h1, p, hp, _⟩ := hsc sci h; exact pendSc1_of hc hI hsupp h1 hp
  have pSf : ∀ sfi ∈ t.sfIns, PendSf1 T ms t.supp sfi := fun sfi h => by
    obtain ⟨h1, p, hp⟩ := hsf sfi h; exact pendSf1_of hc hI hsupp h1 hp
  have pRev : ∀ r ∈ t.revs, PendRev1 T ms t.supp r := fun r h => by
    obtain ⟨h1, p, hp, h2, h3⟩ := hrevs r h
    obtain ⟨hid, hl⟩ := liveFc1_of hc hI hsupp h1 hp
    exact ⟨p, hp, hid, hl, h2, h3⟩
  have pPr : ∀ sp ∈ t.proofs, PendProof1 T ms t.supp sp := fun sp h => by
    obtain ⟨h1, e, he⟩ := hprs sp h
    obtain ⟨hid, hl⟩ := liveFc1_of hc hI hsupp h1 he
    exact ⟨e, he, hid, hl, hlen sp h e he⟩
  -- kinds of the parents
  have kSc : ∀ sci ∈ t.scIns, T Kind.sc sci.parent := fun sci h => by
    obtain ⟨e, _, h2, h3⟩ := pSc sci h; exact h2 ▸ h3.1
  have kSf : ∀ sfi ∈ t.sfIns, T Kind.sf sfi.parent := fun sfi h => by
    obtain ⟨e, _, h2, h3⟩ := pSf sfi h; exact h2 ▸ h3.1
  have kRev : ∀ r ∈ t.revs, T Kind.fc1 r.parent := fun r h => by
    obtain ⟨e, _, h2, h3, _⟩ := pRev r h; exact h2 ▸ h3.1
  have kPr : ∀ sp ∈ t.proofs, T Kind.fc1 sp.parent := fun sp h => by
    obtain ⟨e, _, h2, h3, _⟩ := pPr sp h; exact h2 ▸ h3.1
  unfold Txn1.created at hF
  simp only [List.append_assoc] at hF
  -- 1. siacoin inputs
  obtain ⟨r1, e1P, e1S, e1p, e1W⟩ := loop_scIns1 t.supp t.scIns ms ms1 hc hI pSc hndsc a1
  have F1 := hF.agree r1.agree (by
    intro q hq hm
    obtain ⟨sci, hs, he⟩ := List.mem_map.mp hm
    obtain ⟨e, _, h2, h3⟩ := pSc sci hs
    exact h3.not_fresh hF q hq (he.symm.trans h2.symm))
  have hc1 : Ctx T ms1.base := by rw [r1.base]; exact hc
  -- 2. siacoin outputs
  obtain ⟨r2, F2, e2P, e2S, e2p, e2W⟩ := loop_scOuts t.scOuts ms1 ms2 _ hc1 r1.inv F1 a2
  have hc2 : Ctx T ms2.base := by rw [r2.base]; exact hc1
  have inF_scOut : ∀ x, x ∈ t.scOuts.map (·.1) → ∃ q ∈ (t.scOuts.map (fun x => (Kind.sc, x.1)) ++ (t.sfIns.map (fun i => (Kind.sc, i.claimId)) ++
      (t.sfOuts.map (fun x => (Kind.sf, x.1)) ++ (t.fcs.map (fun x => (Kind.fc1, x.1)) ++ (t.proofs.flatMap Proof1.created ++ R))))), q.2 = x := by
    intro x hx
    obtain ⟨o, ho, he⟩ := List.mem_map.mp hx
    exact ⟨(Kind.sc, o.1), List.mem_append_left _ (List.mem_map_of_mem ho), he⟩
  have inF_claim : ∀ x, x ∈ t.sfIns.map (·.claimId) → ∃ q ∈ (t.scOuts.map (fun x => (Kind.sc, x.1)) ++ (t.sfIns.map (fun i => (Kind.sc, i.claimId)) ++
      (t.sfOuts.map (fun x => (Kind.sf, x.1)) ++ (t.fcs.map (fun x => (Kind.fc1, x.1)) ++ (t.proofs.flatMap Proof1.created ++ R))))), q.2 = x := by
    intro x hx
    obtain ⟨o, ho, he⟩ := List.mem_map.mp hx
    exact ⟨(Kind.sc, o.claimId), List.mem_append_right _ (List.mem_append_left _ (List.mem_map_of_mem ho)), he⟩
  have inF_sfOut : ∀ x, x ∈ t.sfOuts.map (·.1) → ∃ q ∈ (t.scOuts.map (fun x => (Kind.sc, x.1)) ++ (t.sfIns.map (fun i => (Kind.sc, i.claimId)) ++
      (t.sfOuts.map (fun x => (Kind.sf, x.1)) ++ (t.fcs.map (fun x => (Kind.fc1, x.1)) ++ (t.proofs.flatMap Proof1.created ++ R))))), q.2 = x := by
    intro x hx
    obtain ⟨o, ho, he⟩ := List.mem_map.mp hx
    exact ⟨(Kind.sf, o.1), List.mem_append_right _ (List.mem_append_right _ (List.mem_append_left _ (List.mem_map_of_mem ho))), he⟩
  have inF_fc : ∀ x, x ∈ t.fcs.map (·.1) → ∃ q ∈ (t.scOuts.map (fun x => (Kind.sc, x.1)) ++ (t.sfIns.map (fun i => (Kind.sc, i.claimId)) ++
      (t.sfOuts.map (fun x => (Kind.sf, x.1)) ++ (t.fcs.map (fun x => (Kind.fc1, x.1)) ++ (t.proofs.flatMap Proof1.created ++ R))))), q.2 = x := by
    intro x hx
    obtain ⟨o, ho, he⟩ := List.mem_map.mp hx
    exact ⟨(Kind.fc1, o.1), List.mem_append_right _ (List.mem_append_right _ (List.mem_append_right _
      (List.mem_append_left _ (List.mem_map_of_mem ho)))), he⟩
  -- 3. siafund inputs
  have pSf2 : ∀ sfi ∈ t.sfIns, PendSf1 T ms2 t.supp sfi := by
    intro sfi h
    have h0 := pSf sfi h
    refine (h0.agree r1.agree ?_).agree r2.agree ?_
    · intro hm
      obtain ⟨sci, hs, he⟩ := List.mem_map.mp hm
      have := hc.disj _ _ _ (kSc sci hs) (he ▸ kSf sfi h); cases this
    · intro hm
      obtain ⟨q, hq, he⟩ := inF_scOut _ hm
      exact h0.not_fresh hF q hq he
  obtain ⟨r3, F3, e3P, e3S, e3p, e3W, e3Wc⟩ := loop_sfIns1 t.supp t.sfIns ms2 ms3 _ hc2 r2.inv pSf2 hndsf F2 a3
  have hc3 : Ctx T ms3.base := by rw [r3.base]; exact hc2
  -- 4. siafund outputs
  obtain ⟨r4, F4, e4P, e4S, e4p, e4W⟩ := loop_sfOuts t.sfOuts ms3 ms4 _ hc3 r3.inv F3 a4
  have hc4 : Ctx T ms4.base := by rw [r4.base]; exact hc3
  -- 5. contract formations
  obtain ⟨r5, F5, e5P, e5S, e5p⟩ := loop_fcs1 t.fcs ms4 ms5 _ hc4 r4.inv (fun x hx => (hfcs x hx).1) F4 a5
  have hc5 : Ctx T ms5.base := by rw [r5.base]; exact hc4
  have hb4 : ms4.base = ms.base := by rw [r4.base, r3.base, r2.base, r1.base]
  -- agreement ms → ms5 outside everything touched so far, for ids of kind fc1 that are not fresh
  have ag5 : ∀ x, T Kind.fc1 x → (∀ q ∈ (t.scOuts.map (fun x => (Kind.sc, x.1)) ++ (t.sfIns.map (fun i => (Kind.sc, i.claimId)) ++
      (t.sfOuts.map (fun x => (Kind.sf, x.1)) ++ (t.fcs.map (fun x => (Kind.fc1, x.1)) ++ (t.proofs.flatMap Proof1.created ++ R))))), q.2 ≠ x) →
      ∃ P : Id → Prop, Agree ms ms5 P ∧ ¬ P x := by
    intro x hk nf
    refine ⟨fun y => (((y ∈ t.scIns.map (·.parent) ∨ y ∈ t.scOuts.map (·.1)) ∨
      (y ∈ t.sfIns.map (·.parent) ∨ y ∈ t.sfIns.map (·.claimId))) ∨ y ∈ t.sfOuts.map (·.1)) ∨ y ∈ t.fcs.map (·.1), ?_, ?_⟩
    · refine ((((r1.agree.mono ?_).trans (r2.agree.mono ?_)).trans (r3.agree.mono ?_)).trans (r4.agree.mono ?_)).trans (r5.agree.mono ?_)
      · intro y hy; exact Or.inl (Or.inl (Or.inl (Or.inl hy)))
      · intro y hy; exact Or.inl (Or.inl (Or.inl (Or.inr hy)))
      · intro y hy; exact Or.inl (Or.inl (Or.inr hy))
      · intro y hy; exact Or.inl (Or.inr hy)
      · intro y hy; exact Or.inr hy
    · rintro (((((hm | hm) | (hm | hm)) | hm)) | hm)
      · obtain ⟨sci, hs, he⟩ := List.mem_map.mp hm
        have := hc.disj _ _ _ (kSc sci hs) (he ▸ hk); cases this
      · obtain ⟨q, hq, he⟩ := inF_scOut _ hm; exact nf q hq he
      · obtain ⟨sfi, hs, he⟩ := List.mem_map.mp hm
        have := hc.disj _ _ _ (kSf sfi hs) (he ▸ hk); cases this
      · obtain ⟨q, hq, he⟩ := inF_claim _ hm; exact nf q hq he
      · obtain ⟨q, hq, he⟩ := inF_sfOut _ hm; exact nf q hq he
      · obtain ⟨q, hq, he⟩ := inF_fc _ hm; exact nf q hq he
  -- 6. revisions
  have pRev5 : ∀ r ∈ t.revs, PendRev1 T ms5 t.supp r := by
    intro r h
    obtain ⟨P, hA, hnP⟩ := ag5 r.parent (kRev r h) ((pRev r h).not_fresh hF)
    exact (pRev r h).agree hA hnP
  obtain ⟨r6, e6P, e6S, e6p⟩ := loop_revs1 t.supp t.revs ms5 ms6 hc5 r5.inv pRev5 hndr a6
  have hc6 : Ctx T ms6.base := by rw [r6.base]; exact hc5
  have F6 := F5.agree r6.agree (by
    intro q hq hm
    obtain ⟨r, hr, he⟩ := List.mem_map.mp hm
    exact (pRev5 r hr).not_fresh F5 q hq he.symm)
  -- 7. storage proofs
  have pPr6 : ∀ sp ∈ t.proofs, PendProof1 T ms6 t.supp sp := by
    intro sp h
    obtain ⟨P, hA, hnP⟩ := ag5 sp.parent (kPr sp h) ((pPr sp h).not_fresh hF)
    refine ((pPr sp h).agree hA hnP).agree r6.agree ?_
    have hne : t.proofs ≠ [] := by intro he; rw [he] at h; cases h
    rw [(hmix hne).2.2.2]; simp
  obtain ⟨r7, F7, e7P, e7S, e7p, e7W⟩ := loop_proofs1 t.supp t.proofs ms6 ms7 R hc6 r6.inv pPr6 hprn F6 a7
  -- 8. scalars
  obtain ⟨f1, f2, f3, f4, f5, f6, f7, f8⟩ := foundation1_fields ms7 t
  have hb7 : ms7.base = ms.base := by
    rw [r7.base, r6.base, r5.base, r4.base, r3.base, r2.base, r1.base]
  -- lookups of siafund parents are the same before and after the siacoin stages
  have sfEl2 : ∀ sfi ∈ t.sfIns, ms2.sfElement t.supp sfi.parent = ms.sfElement t.supp sfi.parent := by
    intro sfi hm
    have h0 := pSf sfi hm
    rw [sfElement_agree r2.agree, sfElement_agree r1.agree]
    · intro hmm
      obtain ⟨sci, hs, he⟩ := List.mem_map.mp hmm
      have := hc.disj _ _ _ (kSc sci hs) (he ▸ kSf sfi hm); cases this
    · intro hmm
      obtain ⟨q, hq, he⟩ := inF_scOut _ hmm
      exact h0.not_fresh hF q hq he
  have hp2 : ms2.pool = ms.pool := by rw [e2p, e1p]
  have hsfeq : (t.sfIns.map (sfInClaim ms2 t.supp ms2.pool)).sum = (t.sfIns.map (sfInClaim ms t.supp ms.pool)).sum := by
    congr 1; apply List.map_congr_left; intro sfi hm
    unfold sfInClaim; rw [hp2, sfEl2 sfi hm]
  have hvals : (t.sfIns.map (sfInVal ms2 t.supp)).sum = (t.sfIns.map (sfInVal ms t.supp)).sum := by
    congr 1; apply List.map_congr_left; intro sfi hm
    unfold sfInVal; rw [sfEl2 sfi hm]
  have hS4 : sfTot ms4 = sfTot ms := by
    rw [hvals] at e3S
    have hin : (t.sfIns.map (sfInVal ms t.supp)).sum < u64Limit := by
      clear hsfbal hbal; omega
    have h1 := Nat.mod_eq_of_lt hin
    have h2 := Nat.mod_eq_of_lt hnw
    have h3 : (t.sfIns.map (sfInVal ms t.supp)).sum = (t.sfOuts.map (·.2.1)).sum := h1.symm.trans (hsfbal.trans h2)
    clear hsfbal hbal h1 h2 hin hnw hsfb
    omega
  refine ⟨r7.inv.scalars f1 f2 f3 f4 f5 f6 f7, ?_, f1.trans hb7, ?_, ?_, ?_, ?_, ?_, ?_⟩
  · exact F7.agree (agree_scalars f1 f2 f3 f4 f5 f6 f7 (fun _ => False)) (fun _ _ h => h)
  · rw [Phi_scalars f1 f4 f6 f7 f8]
    unfold Txn1.claims
    have hpay := sum_payout_eq ms t.fcs hfcs
    unfold Txn1.payouts at hbal
    rw [hb4] at e5P
    rw [hsfeq] at e3P
    clear hv hv1 hv2 hv3 hv4 a1 a2 a3 a4 a5 a6 a7 hF F1 F2 F3 F4 F5 F6 F7 e3W e4W
    c1_omega
  · rw [sfTot_congr f1 f5, e7S, e6S, e5S, hS4]
  · rw [f8, e7p, e6p, e5p, e4p, e3p, e2p, e1p]
    unfold Cur; omega
  · intro hcs
    have s12 : SfSame ms ms2 := (sfSame_scIns1 a1).trans (sfSame_scOuts a2)
    obtain ⟨q2, c2⟩ := Psi_shift s12 0 (by rw [hp2]; rfl) hcs
    obtain ⟨c3, q3⟩ := Psi_spend_stage ms.pool hp2 (e3p.trans hp2)
      (fun w => (t.sfIns.map (sfInW ms2 t.supp w)).sum) e3W c2
    have hp3 : ms3.pool = ms.pool := e3p.trans hp2
    obtain ⟨c4, q4⟩ := Psi_create_stage ms.pool hp3 (e4p.trans hp3)
      (t.sfOuts.map (fun x => (⟨x.1, x.2.1, x.2.2, ms3.pool, none⟩ : SfElem)))
      (by intro o ho; obtain ⟨x, _, rfl⟩ := List.mem_map.mp ho; exact hp3)
      (by intro w; rw [e4W w, List.map_map]; rfl) c3
    obtain ⟨q5, c5⟩ := Psi_shift (sfSame_fcs1 a5) _ e5p c4
    obtain ⟨q6, c6⟩ := Psi_shift (sfSame_revs1 a6) 0 (by rw [e6p]; rfl) c5
    obtain ⟨q7, c7⟩ := Psi_shift (sfSame_proofs1 a7) 0 (by rw [e7p]; rfl) c6
    obtain ⟨q8, c8⟩ := Psi_shift (ms := ms7) (ms' := foundation1 ms7 t) ⟨f5, f1⟩ 0 (by rw [f8]; rfl) c7
    refine ⟨c8, ?_⟩
    have hcl : 10000 * t.claims ms ≤ (t.sfIns.map (sfInW ms2 t.supp (psiW ms.pool))).sum := by
      unfold Txn1.claims
      rw [← hsfeq, hp2]
      apply sum_scaled_le
      intro i _
      unfold sfInClaim sfInW
      cases ms2.sfElement t.supp i.parent with
      | none => exact Nat.le_refl _
      | some e => exact claimVal_le_psiW _ _ _
    have hpool : (foundation1 ms7 t).pool - ms.pool = (t.fcs.map (fun x => fileContractTax ms4.base x.2.payout)).sum := by
      rw [f8, e7p, e6p, e5p, e4p, e3p, e2p, e1p]; unfold Cur; omega
    rw [hpool, q8, q7, q6, q5, q4]
    have hS5 : sfTot ms5 = sfTot ms := e5S.trans hS4
    have hS6 : sfTot ms6 = sfTot ms := e6S.trans hS5
    rw [hS4, hS5, hS6]
    simp only [Nat.zero_mul, Nat.add_zero] at q2 ⊢
    clear hv hv1 hv2 hv3 hv4 a1 a2 a3 a4 a5 a6 a7 hF F1 F2 F3 F4 F5 F6 F7 e3W e4W hbal hsfbal
    omega
  · unfold Txn1.taxes
    rw [f8, e7p, e6p, e5p, e4p, e3p, e2p, e1p, hb4]
  · intro hmd
    have h1 := e1W (wImm ms.base.child) (wImm_congr _)
    have z1 : (t.scIns.map (scInW ms t.supp (wImm ms.base.child))).sum = 0 := by
      apply sum_map_zero; intro sci hm
      obtain ⟨_, p, hp, hmat⟩ := hsc sci hm
      unfold scInW; rw [hp]; simp only []
      unfold wImm; rw [if_pos hmat]
    have h2 := e2W (wImm ms.base.child)
    have z2 : (t.scOuts.map (fun x => wImm ms.base.child ⟨x.1, x.2.value, x.2.addr, 0, none⟩)).sum = 0 := by
      apply sum_map_zero; intro x _
      unfold wImm; rw [if_pos (Nat.zero_le _)]
    have h3 := e3Wc (wImm ms.base.child)
    have hb2 : ms2.base = ms.base := by rw [r2.base, r1.base]
    have z3 : (t.sfIns.map (sfInClaimW ms2 t.supp (wImm ms.base.child))).sum = t.claims ms := by
      unfold Txn1.claims
      rw [← hsfeq]
      congr 1; apply List.map_congr_left; intro i _
      unfold sfInClaimW sfInClaim
      cases ms2.sfElement t.supp i.parent with
      | none => rfl
      | some e =>
        simp only []
        unfold wImm maturityHeight
        rw [hb2]
        have : ¬ (ms.base.child + ms.base.P.maturityDelay ≤ ms.base.child) := by omega
        simp only []
        rw [if_neg this]
    have h4 := foldlM_scW_same stepSfOut (fun b a b' hh w => by cases hh; exact scW_createSf _ _ _ _ w) _ _ _ a4
      (wImm ms.base.child)
    have h5 := foldlM_scW_same stepFc1 (fun b a b' hh w => scW_createFc1 hh w) _ _ _ a5 (wImm ms.base.child)
    have h6 := foldlM_scW_same (stepRev1 t.supp) (fun b a b' hh w => by
      unfold stepRev1 at hh
      split at hh
      · cases hh
      · cases hh; exact scW_reviseFc1 _ _ _ w) _ _ _ a6 (wImm ms.base.child)
    have h7 := e7W (wImm ms.base.child)
    have h8 : scW (wImm ms.base.child) (foundation1 ms7 t) = scW (wImm ms.base.child) ms7 := scW_congr _ f1 f4
    rw [z3] at h3
    rw [z2] at h2
    rw [z1] at h1
    omega

end Sia.Ledger
