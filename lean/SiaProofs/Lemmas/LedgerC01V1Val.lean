import SiaProofs.Lemmas.LedgerC01V1
import SiaProofs.Lemmas.LedgerC01V2Txn
/-!
# C01 helper lemmas, part 12: what `validateTransaction` (v1) establishes
-/
namespace Sia.Ledger

theorem foldlM_sum_P {α : Type} (f : Cur → α → VM Cur) (g : α → Nat) (P : α → Prop)
    (hstep : ∀ s x r, f s x = .ok r → r = s + g x ∧ P x) :
    ∀ (l : List α) (s0 r : Cur), l.foldlM f s0 = .ok r → r = s0 + (l.map g).sum ∧ ∀ x ∈ l, P x := by
  intro l
  induction l with
  | nil => intro s0 r h; simp only [List.foldlM_nil] at h; cases h; simp
  | cons a l ih =>
    intro s0 r h
    rw [List.foldlM_cons, bind_eq_ok] at h
    obtain ⟨s1, h1, h2⟩ := h
    obtain ⟨e1, p1⟩ := hstep _ _ _ h1
    obtain ⟨e2, p2⟩ := ih _ _ h2
    refine ⟨by rw [e2, e1]; simp [Nat.add_assoc], ?_⟩
    intro x hx; rcases List.mem_cons.mp hx with rfl | hx
    · exact p1
    · exact p2 x hx

theorem foldlM_modsum_P {α : Type} (f : Nat → α → VM Nat) (g : α → Nat) (M : Nat) (P : α → Prop)
    (hstep : ∀ s x r, f s x = .ok r → r = (s + g x) % M ∧ P x) :
    ∀ (l : List α) (s0 r : Nat), l.foldlM f s0 = .ok r → r % M = (s0 + (l.map g).sum) % M ∧ ∀ x ∈ l, P x := by
  intro l
  induction l with
  | nil => intro s0 r h; simp only [List.foldlM_nil] at h; cases h; simp
  | cons a l ih =>
    intro s0 r h
    rw [List.foldlM_cons, bind_eq_ok] at h
    obtain ⟨s1, h1, h2⟩ := h
    obtain ⟨e1, p1⟩ := hstep _ _ _ h1
    obtain ⟨e2, p2⟩ := ih _ _ h2
    refine ⟨?_, ?_⟩
    · rw [e2, e1]; simp only [List.map_cons, List.sum_cons]
      rw [Nat.add_mod, Nat.mod_mod, ← Nat.add_mod, Nat.add_assoc]
    · intro x hx; rcases List.mem_cons.mp hx with rfl | hx
      · exact p1
      · exact p2 x hx

theorem forIn_unit_inv {α : Type} (body : α → PUnit.{1} → VM (ForInStep PUnit.{1})) (P : α → Prop)
    (hstep : ∀ x s r, body x s = .ok r → P x ∧ r = ForInStep.yield PUnit.unit) (l : List α)
    (h : forIn l PUnit.unit body = .ok PUnit.unit) : ∀ x ∈ l, P x := by
  induction l with
  | nil => intro x hx; cases hx
  | cons a l ih =>
    rw [List.forIn_cons, bind_eq_ok] at h
    obtain ⟨st, h1, h2⟩ := h
    obtain ⟨p1, rfl⟩ := hstep _ _ _ h1
    intro x hx
    rcases List.mem_cons.mp hx with rfl | hx
    · exact p1
    · exact ih h2 x hx

-- ------------------------------------------------------------------ validateTransaction

theorem validateTransaction_ok {ms : Mid} {t : Txn1} {pid : Id} {mw : Nat} (h : validateTransaction ms t pid mw = .ok ()) :
    validateSiacoins ms t = .ok () ∧ validateSiafunds ms t = .ok () ∧ validateFileContracts ms t pid = .ok () ∧
    validateSignatures t = .ok () := by
  unfold validateTransaction at h
  simp only [] at h
  split at h
  · rw [bind_eq_ok] at h; obtain ⟨_, hr, _⟩ := h; cases hr
  · rw [bind_eq_ok] at h; obtain ⟨_, _, h⟩ := h
    rw [bind_eq_ok] at h; obtain ⟨_, _, h⟩ := h
    split at h
    · rw [bind_eq_ok] at h; obtain ⟨_, hr, _⟩ := h; cases hr
    · rw [bind_eq_ok] at h; obtain ⟨_, _, h⟩ := h
      rw [bind_eq_ok] at h; obtain ⟨_, h1, h⟩ := h
      rw [bind_eq_ok] at h; obtain ⟨_, h2, h⟩ := h
      rw [bind_eq_ok] at h; obtain ⟨_, h3, h⟩ := h
      rw [bind_eq_ok] at h; obtain ⟨_, _, h⟩ := h
      exact ⟨h1, h2, h3, h⟩

theorem validateSignatures_ok {t : Txn1} (h : validateSignatures t = .ok ()) :
    (t.scIns.map (·.parent) ++ t.sfIns.map (·.parent) ++ t.revs.map (·.parent)).Nodup := by
  unfold validateSignatures at h
  simp only [] at h
  split at h
  · cases h
  · rename_i hn; exact Decidable.not_not.mp hn

def Txn1.payouts (t : Txn1) : Nat := (t.fcs.map (·.2.payout)).sum

theorem validateSiacoins1_ok {ms : Mid} {t : Txn1} (h : validateSiacoins ms t = .ok ()) :
    (∀ sci ∈ t.scIns, ms.isSpent sci.parent = false ∧ ∃ p, ms.scElement t.supp sci.parent = some p ∧ p.maturity ≤ ms.base.child) ∧
    (t.scIns.map (scInVal ms t.supp)).sum = (t.scOuts.map (·.2.value)).sum + t.payouts + t.fees.sum := by
  unfold validateSiacoins at h
  rw [bind_eq_ok] at h; obtain ⟨inS, hin, h⟩ := h
  rw [bind_eq_ok] at h; obtain ⟨o1, ho1, h⟩ := h
  rw [bind_eq_ok] at h; obtain ⟨o2, ho2, h⟩ := h
  rw [bind_eq_ok] at h; obtain ⟨outS, ho3, h⟩ := h
  have hfin : inS = outS := by
    split at h
    · cases h
    · rename_i hne; simpa using hne
  have e1 := foldlM_addC (fun o : Id × ScOut => o.2.value) t.scOuts 0 o1 ho1
  have e2 := foldlM_addC (fun f : Id × Fc1 => f.2.payout) t.fcs o1 o2 ho2
  have e3 := foldlM_sum _ (fun f : Cur => f) (by
    intro s x r hh
    split at hh
    · cases hh; rfl
    · cases hh) _ _ _ ho3
  have e0 := foldlM_sum_P _ (scInVal ms t.supp)
    (fun sci => ms.isSpent sci.parent = false ∧ ∃ p, ms.scElement t.supp sci.parent = some p ∧ p.maturity ≤ ms.base.child) (by
    intro s x r hh
    split at hh
    · cases hh
    · split at hh
      · cases hh
      · rename_i hsp
        unfold scInVal
        split at hh
        · cases hh
        · rename_i p hp
          split at hh
          · cases hh
          · split at hh
            · cases hh
            · rename_i hmat
              split at hh
              · cases hh
                rw [hp]; simp only []
                exact ⟨by first | rfl | trivial, by simpa using hsp, p, rfl, Nat.le_of_not_lt hmat⟩
              · cases hh) _ _ _ hin
  refine ⟨e0.2, ?_⟩
  have e0' := e0.1
  unfold Txn1.payouts
  simp only [List.map_id'] at e3
  clear hin ho1 ho2 ho3 h e0
  c1_omega

theorem validateSiafunds1_ok {ms : Mid} {t : Txn1} (h : validateSiafunds ms t = .ok ()) :
    (∀ sfi ∈ t.sfIns, ms.isSpent sfi.parent = false ∧ ∃ p, ms.sfElement t.supp sfi.parent = some p) ∧
    (t.sfIns.map (sfInVal ms t.supp)).sum % u64Limit = (t.sfOuts.map (·.2.1)).sum % u64Limit := by
  unfold validateSiafunds at h
  rw [bind_eq_ok] at h; obtain ⟨inS, hin, h⟩ := h
  simp only [] at h
  have hfin : inS = List.foldl (fun s (x : Id × Nat × Addr) => (s + x.2.1) % u64Limit) 0 t.sfOuts := by
    split at h
    · cases h
    · rename_i hne; simpa using hne
  have e1 := foldl_modsum (fun x : Id × Nat × Addr => x.2.1) u64Limit t.sfOuts 0
  have e0 := foldlM_modsum_P _ (sfInVal ms t.supp) u64Limit
    (fun sfi => ms.isSpent sfi.parent = false ∧ ∃ p, ms.sfElement t.supp sfi.parent = some p) (by
    intro s x r hh
    split at hh
    · cases hh
    · split at hh
      · cases hh
      · rename_i hsp
        unfold sfInVal
        split at hh
        · cases hh
        · rename_i p hp
          split at hh
          · cases hh
          · cases hh
            rw [hp]; simp only []
            exact ⟨by first | rfl | trivial, by simpa using hsp, p, rfl⟩) _ _ _ hin
  refine ⟨e0.2, ?_⟩
  have e0' := e0.1
  rw [hfin, e1] at e0'
  simp only [Nat.zero_add] at e0'
  exact e0'.symm

def Fc1FormOk (ms : Mid) (x : Id × Fc1) : Prop :=
  sumVals x.2.valid = sumVals x.2.missed ∧ x.2.payout = sumVals x.2.valid + fileContractTax ms.base x.2.payout

def Rev1Ok (ms : Mid) (supp : Supp1) (r : Rev1) : Prop :=
  ms.isSpent r.parent = false ∧ ∃ p, ms.fc1Element supp r.parent = some p ∧
    sumVals r.fc.valid = sumVals p.fc.valid ∧ sumVals r.fc.missed = sumVals p.fc.missed

def Proof1Ok (ms : Mid) (supp : Supp1) (sp : Proof1) : Prop :=
  ms.isSpent sp.parent = false ∧ ∃ e, ms.fc1Element supp sp.parent = some e

set_option maxRecDepth 4000 in
theorem validateFileContracts1_ok {ms : Mid} {t : Txn1} {pid : Id} (h : validateFileContracts ms t pid = .ok ()) :
    (∀ x ∈ t.fcs, Fc1FormOk ms x) ∧ (∀ r ∈ t.revs, Rev1Ok ms t.supp r) ∧
    (t.proofs.map (·.parent)).Nodup ∧ (∀ sp ∈ t.proofs, Proof1Ok ms t.supp sp) ∧
    (t.proofs ≠ [] → t.scOuts = [] ∧ t.sfOuts = [] ∧ t.fcs = [] ∧ t.revs = []) := by
  unfold validateFileContracts at h
  rw [bind_eq_ok] at h; obtain ⟨u1, hfcs, h⟩ := h
  rw [bind_eq_ok] at h; obtain ⟨u2, hrevs, h⟩ := h
  have h1 := forIn_unit_inv _ (Fc1FormOk ms) (by
    intro x s r hh
    obtain ⟨id, fc⟩ := x
    simp only [] at hh
    split at hh
    · rw [bind_eq_ok] at hh; obtain ⟨_, hr, _⟩ := hh; cases hr
    · split at hh
      · rw [bind_eq_ok] at hh; obtain ⟨_, hr, _⟩ := hh; cases hr
      · rw [bind_eq_ok] at hh; obtain ⟨vs, hvs, hh⟩ := hh
        rw [bind_eq_ok] at hh; obtain ⟨msum, hms, hh⟩ := hh
        split at hh
        · rw [bind_eq_ok] at hh; obtain ⟨_, hr, _⟩ := hh; cases hr
        · rename_i heq
          rw [bind_eq_ok] at hh; obtain ⟨want, hw, hh⟩ := hh
          split at hh
          · rw [bind_eq_ok] at hh; obtain ⟨_, hr, _⟩ := hh; cases hr
          · rename_i hpay
            cases hh
            have a1 := sumOuts_ok hvs
            have a2 := sumOuts_ok hms
            have a3 : vs = msum := by simpa using heq
            have a4 : fc.payout = want := by simpa using hpay
            rw [addC_ok] at hw
            refine ⟨⟨?_, ?_⟩, rfl⟩
            · show sumVals fc.valid = sumVals fc.missed
              unfold sumVals; rw [← a1, ← a2, a3]
            · show fc.payout = sumVals fc.valid + fileContractTax ms.base fc.payout
              have hsv : sumVals fc.valid = vs := a1.symm
              rw [hsv]; exact a4.trans hw.2) t.fcs hfcs
  have h2 := forIn_unit_inv _ (Rev1Ok ms t.supp) (by
    intro x s r hh
    split at hh
    · rw [bind_eq_ok] at hh; obtain ⟨_, hr, _⟩ := hh; cases hr
    · split at hh
      · rw [bind_eq_ok] at hh; obtain ⟨_, hr, _⟩ := hh; cases hr
      · split at hh
        · rw [bind_eq_ok] at hh; obtain ⟨_, hr, _⟩ := hh; cases hr
        · split at hh
          · rw [bind_eq_ok] at hh; obtain ⟨_, hr, _⟩ := hh; cases hr
          · rename_i hsp
            split at hh
            · rw [bind_eq_ok] at hh; obtain ⟨_, hr, _⟩ := hh; cases hr
            · rename_i p hp
              split at hh
              · rw [bind_eq_ok] at hh; obtain ⟨_, hr, _⟩ := hh; cases hr
              · split at hh
                · rw [bind_eq_ok] at hh; obtain ⟨_, hr, _⟩ := hh; cases hr
                · split at hh
                  · rw [bind_eq_ok] at hh; obtain ⟨_, hr, _⟩ := hh; cases hr
                  · rw [bind_eq_ok] at hh; obtain ⟨a, ha, hh⟩ := hh
                    rw [bind_eq_ok] at hh; obtain ⟨b, hb, hh⟩ := hh
                    split at hh
                    · rw [bind_eq_ok] at hh; obtain ⟨_, hr, _⟩ := hh; cases hr
                    · rename_i hab
                      rw [bind_eq_ok] at hh; obtain ⟨c, hc, hh⟩ := hh
                      rw [bind_eq_ok] at hh; obtain ⟨d, hd, hh⟩ := hh
                      split at hh
                      · rw [bind_eq_ok] at hh; obtain ⟨_, hr, _⟩ := hh; cases hr
                      · rename_i hcd
                        cases hh
                        have a1 := sumOuts_ok ha
                        have a2 := sumOuts_ok hb
                        have a3 := sumOuts_ok hc
                        have a4 := sumOuts_ok hd
                        have a5 : a = b := by simpa using hab
                        have a6 : c = d := by simpa using hcd
                        refine ⟨⟨by simpa using hsp, p, hp, ?_, ?_⟩, rfl⟩
                        · unfold sumVals; rw [← a1, ← a2, a5]
                        · unfold sumVals; rw [← a3, ← a4, a6]) t.revs hrevs
  split at h
  · cases h
  · rename_i hmix
    split at h
    · cases h
    · rename_i hnd
      rw [bind_eq_ok] at h; obtain ⟨u3, hpr, h⟩ := h
      have h3 := forIn_unit_inv _ (Proof1Ok ms t.supp) (by
        intro x s r hh
        split at hh
        · rw [bind_eq_ok] at hh; obtain ⟨_, hr, _⟩ := hh; cases hr
        · rename_i hsp
          split at hh
          · rw [bind_eq_ok] at hh; obtain ⟨_, hr, _⟩ := hh; cases hr
          · rename_i e he
            split at hh
            · rw [bind_eq_ok] at hh; obtain ⟨_, hr, _⟩ := hh; cases hr
            · split at hh
              · cases hh; exact ⟨⟨by simpa using hsp, e, he⟩, rfl⟩
              · rw [bind_eq_ok] at hh; obtain ⟨_, hr, _⟩ := hh; cases hr) t.proofs hpr
      refine ⟨h1, h2, Decidable.not_not.mp hnd, h3, ?_⟩
      intro hne
      have hlen : t.proofs.length > 0 := by
        cases hp : t.proofs with
        | nil => exact absurd hp hne
        | cons a l => simp
      have hmix' : ¬ (t.scOuts.length > 0 ∨ t.sfOuts.length > 0 ∨ t.fcs.length > 0 ∨ t.revs.length > 0) :=
        fun hh => hmix ⟨hlen, hh⟩
      refine ⟨?_, ?_, ?_, ?_⟩
      · cases hl : t.scOuts with
        | nil => rfl
        | cons a l => exact absurd (Or.inl (by rw [hl]; simp)) hmix'
      · cases hl : t.sfOuts with
        | nil => rfl
        | cons a l => exact absurd (Or.inr (Or.inl (by rw [hl]; simp))) hmix'
      · cases hl : t.fcs with
        | nil => rfl
        | cons a l => exact absurd (Or.inr (Or.inr (Or.inl (by rw [hl]; simp)))) hmix'
      · cases hl : t.revs with
        | nil => rfl
        | cons a l => exact absurd (Or.inr (Or.inr (Or.inr (by rw [hl]; simp)))) hmix'

end Sia.Ledger
