import SiaProofs.Lemmas.LedgerC08Fold
/-!
# The v1 validators of the ledger model as conjunctions of named rules
-/
namespace Sia.Ledger

-- ================================================================= siacoin inputs

/-- per-input body of the loop of `validateSiacoins` (copied verbatim from the model) -/
def scIn1Step (ms : Mid) (t : Txn1) (sum : Cur) (sci : ScIn1) : VM Cur := do
    if sci.timelock > ms.base.child then reject "siacoin input has timelocked parent"
    else if ms.isSpent sci.parent then reject "siacoin input double-spends parent output"
    else match ms.scElement t.supp sci.parent with
      | none => reject "siacoin input spends nonexistent siacoin output"
      | some p =>
        if sci.ucAddr ≠ p.addr then reject "siacoin input claims incorrect unlock conditions"
        else if p.maturity > ms.base.child then reject "siacoin input has immature parent"
        else if sum + p.value < curLimit then pure (sum + p.value) else reject "siacoin inputs overflow"

/-- the balance part of `validateSiacoins` -/
def v1ScBalance (t : Txn1) (inputSum : Cur) : VM Unit := do
  let o1 ← t.scOuts.foldlM (fun s o => addC s o.2.value) 0
  let o2 ← t.fcs.foldlM (fun s f => addC s f.2.payout) o1
  let outputSum ← t.fees.foldlM (fun (s : Cur) f => if s + f < curLimit then pure (s + f) else reject "transaction outputs exceed inputs") o2
  if inputSum ≠ outputSum then reject "siacoin inputs do not equal outputs" else pure ()

theorem validateSiacoins_eq (ms : Mid) (t : Txn1) :
    validateSiacoins ms t = (do let s ← t.scIns.foldlM (scIn1Step ms t) 0; v1ScBalance t s) := rfl

/-- rules of a v1 siacoin input whose parent resolves to `p` -/
structure ScIn1Rules (ms : Mid) (sci : ScIn1) (p : ScElem) : Prop where
  timelock : sci.timelock ≤ ms.base.child
  notSpent : ms.isSpent sci.parent = false
  addr : sci.ucAddr = p.addr
  mature : p.maturity ≤ ms.base.child

/-- value contributed by an input (0 if its parent does not resolve) -/
def scIn1Value (ms : Mid) (t : Txn1) (sci : ScIn1) : Cur :=
  ((ms.scElement t.supp sci.parent).map (·.value)).getD 0

def ScIn1Ok (ms : Mid) (t : Txn1) (sum : Cur) (sci : ScIn1) : Prop :=
  ∃ p, ms.scElement t.supp sci.parent = some p ∧ ScIn1Rules ms sci p ∧ sum + p.value < curLimit

theorem scIn1Step_ok_iff (ms : Mid) (t : Txn1) (sum : Cur) (sci : ScIn1) (s' : Cur) :
    scIn1Step ms t sum sci = .ok s' ↔ (s' = sum + scIn1Value ms t sci ∧ ScIn1Ok ms t sum sci) := by
  unfold scIn1Step scIn1Value ScIn1Ok
  constructor
  · intro h
    split at h
    · exact absurd h (reject_ne_ok _ _)
    split at h
    · exact absurd h (reject_ne_ok _ _)
    split at h
    · exact absurd h (reject_ne_ok _ _)
    rename_i p hp
    split at h
    · exact absurd h (reject_ne_ok _ _)
    split at h
    · exact absurd h (reject_ne_ok _ _)
    split at h
    · rename_i hlt
      simp at h; subst h
      rw [hp]
      exact ⟨rfl, p, rfl, ⟨by omega, by simp_all, by simp_all, by omega⟩, hlt⟩
    · exact absurd h (reject_ne_ok _ _)
  · rintro ⟨rfl, p, hp, ⟨h1, h2, h3, h4⟩, hlt⟩
    rw [if_neg (by omega), if_neg (by simp [h2]), hp]
    simp only [Option.map_some, Option.getD_some]
    rw [if_neg (fun hn => hn h3), if_neg (by omega), if_pos hlt]
    rfl

/-- `validateSiacoins` accepts iff every input satisfies its rules (with the running input sum not
overflowing) and the balance part accepts. -/
theorem validateSiacoins_ok_iff (ms : Mid) (t : Txn1) :
    validateSiacoins ms t = .ok () ↔
      (FoldAll (ScIn1Ok ms t) (fun s sci => s + scIn1Value ms t sci) 0 t.scIns ∧
        v1ScBalance t (t.scIns.foldl (fun s sci => s + scIn1Value ms t sci) 0) = .ok ()) := by
  rw [validateSiacoins_eq, bind_ok_iff]
  constructor
  · rintro ⟨s, hs, hb⟩
    obtain ⟨rfl, hall⟩ := (foldlM_ok_iff (scIn1Step_ok_iff ms t) _ _ _).1 hs
    exact ⟨hall, hb⟩
  · rintro ⟨hall, hb⟩
    exact ⟨_, (foldlM_ok_iff (scIn1Step_ok_iff ms t) _ _ _).2 ⟨rfl, hall⟩, hb⟩

theorem FoldAll.forall_of_imp {α β} {P : β → α → Prop} {Q : α → Prop} {upd : β → α → β}
    (h : ∀ s x, P s x → Q x) {s : β} {l : List α} (hall : FoldAll P upd s l) : ∀ x ∈ l, Q x :=
  (foldAll_const_iff Q upd l s).1 (hall.imp h)

/-- necessity: an accepted `validateSiacoins` means every input resolves to a parent and obeys the rules -/
theorem validateSiacoins_ok_rules {ms : Mid} {t : Txn1} (h : validateSiacoins ms t = .ok ()) :
    ∀ sci ∈ t.scIns, ∃ p, ms.scElement t.supp sci.parent = some p ∧ ScIn1Rules ms sci p := by
  have := ((validateSiacoins_ok_iff ms t).1 h).1
  exact this.forall_of_imp (fun s x ⟨p, hp, hr, _⟩ => ⟨p, hp, hr⟩)

-- ================================================================= siafund inputs

def sfIn1Step (ms : Mid) (t : Txn1) (sum : Nat) (sfi : SfIn1) : VM Nat := do
    if sfi.timelock > ms.base.child then reject "siafund input has timelocked parent"
    else if ms.isSpent sfi.parent then reject "siafund input double-spends parent output"
    else match ms.sfElement t.supp sfi.parent with
      | none => reject "siafund input spends nonexistent siafund output"
      | some p =>
        if sfi.ucAddr ≠ p.addr ∧
            ¬ (ms.base.child ≥ ms.base.P.hfDevAddr ∧ p.addr = ms.base.P.devOldAddr ∧ sfi.ucAddr = ms.base.P.devNewAddr) then
          reject "siafund input claims incorrect unlock conditions"
        else pure ((sum + p.value) % u64Limit)

def v1SfBalance (t : Txn1) (inputSum : Nat) : VM Unit :=
  let outputSum := t.sfOuts.foldl (fun s (_, v, _) => (s + v) % u64Limit) 0
  if inputSum ≠ outputSum then reject "siafund inputs do not equal outputs" else pure ()

theorem validateSiafunds_eq (ms : Mid) (t : Txn1) :
    validateSiafunds ms t = (do let s ← t.sfIns.foldlM (sfIn1Step ms t) 0; v1SfBalance t s) := rfl

structure SfIn1Rules (ms : Mid) (sfi : SfIn1) (p : SfElem) : Prop where
  timelock : sfi.timelock ≤ ms.base.child
  notSpent : ms.isSpent sfi.parent = false
  addr : sfi.ucAddr = p.addr ∨
    (ms.base.child ≥ ms.base.P.hfDevAddr ∧ p.addr = ms.base.P.devOldAddr ∧ sfi.ucAddr = ms.base.P.devNewAddr)

def sfIn1Value (ms : Mid) (t : Txn1) (sfi : SfIn1) : Nat :=
  ((ms.sfElement t.supp sfi.parent).map (·.value)).getD 0

def SfIn1Ok (ms : Mid) (t : Txn1) (sfi : SfIn1) : Prop :=
  ∃ p, ms.sfElement t.supp sfi.parent = some p ∧ SfIn1Rules ms sfi p

theorem sfIn1Step_ok_iff (ms : Mid) (t : Txn1) (sum : Nat) (sfi : SfIn1) (s' : Nat) :
    sfIn1Step ms t sum sfi = .ok s' ↔ (s' = (sum + sfIn1Value ms t sfi) % u64Limit ∧ SfIn1Ok ms t sfi) := by
  unfold sfIn1Step sfIn1Value SfIn1Ok
  constructor
  · intro h
    split at h
    · exact absurd h (reject_ne_ok _ _)
    split at h
    · exact absurd h (reject_ne_ok _ _)
    split at h
    · exact absurd h (reject_ne_ok _ _)
    rename_i p hp
    split at h
    · exact absurd h (reject_ne_ok _ _)
    rename_i h1 h2 h3
    rw [hp]
    refine ⟨by simpa using h, p, rfl, ⟨by omega, by simp_all, ?_⟩⟩
    by_cases ha : sfi.ucAddr = p.addr
    · exact Or.inl ha
    · right
      exact Classical.not_not.1 (fun hn => h3 ⟨ha, hn⟩)
  · rintro ⟨rfl, p, hp, ⟨h1, h2, h3⟩⟩
    rw [if_neg (by omega), if_neg (by simp [h2]), hp]
    simp only [Option.map_some, Option.getD_some]
    rw [if_neg]
    · rfl
    · rintro ⟨ha, hb⟩
      rcases h3 with h3 | h3
      · exact ha h3
      · exact hb h3

theorem sfIn1Step_noPanic (ms : Mid) (t : Txn1) (sum : Nat) (sfi : SfIn1) : NoPanic (sfIn1Step ms t sum sfi) := by
  unfold sfIn1Step
  repeat' split
  all_goals simp

theorem validateSiafunds_ok_iff (ms : Mid) (t : Txn1) :
    validateSiafunds ms t = .ok () ↔
      ((∀ sfi ∈ t.sfIns, SfIn1Ok ms t sfi) ∧
        v1SfBalance t (t.sfIns.foldl (fun s sfi => (s + sfIn1Value ms t sfi) % u64Limit) 0) = .ok ()) := by
  rw [validateSiafunds_eq, bind_ok_iff]
  constructor
  · rintro ⟨s, hs, hb⟩
    obtain ⟨rfl, hall⟩ := (foldlM_ok_iff (sfIn1Step_ok_iff ms t) _ _ _).1 hs
    exact ⟨(foldAll_const_iff _ _ _ _).1 hall, hb⟩
  · rintro ⟨hall, hb⟩
    exact ⟨_, (foldlM_ok_iff (sfIn1Step_ok_iff ms t) _ _ _).2 ⟨rfl, (foldAll_const_iff _ _ _ _).2 hall⟩, hb⟩

theorem validateSiafunds_noPanic (ms : Mid) (t : Txn1) : NoPanic (validateSiafunds ms t) := by
  rw [validateSiafunds_eq]
  refine bind_noPanic (foldlM_noPanic (sfIn1Step_noPanic ms t) _ _) ?_
  intro s _
  unfold v1SfBalance
  simp only []
  split <;> simp

-- ================================================================= file contracts

/-- body of the formation loop of `validateFileContracts` -/
def fc1FormStep (ms : Mid) (fc : Fc1) : VM Unit :=
    if fc.windowStart < ms.base.child then reject "file contract has window that starts in the past"
    else if fc.windowEnd ≤ fc.windowStart then reject "file contract has window that ends before it begins"
    else do
      let validSum ← sumOuts fc.valid
      let missedSum ← sumOuts fc.missed
      if validSum ≠ missedSum then reject "file contract has valid payout that does not equal missed payout"
      else
        let want ← addC validSum (fileContractTax ms.base fc.payout)
        if fc.payout ≠ want then reject "file contract has payout with incorrect tax" else pure ()

/-- the checks of a revision against the contract `p` it resolves to -/
def rev1ParentCheck (ms : Mid) (r : Rev1) (p : Fc1Elem) : VM Unit :=
        if p.fc.windowStart < ms.base.child then reject "file contract revision revises contract after its proof window has opened"
        else if r.fc.revNum ≤ p.fc.revNum then reject "file contract revision does not have a higher revision number than its parent"
        else if r.ucAddr ≠ p.fc.unlockHash then reject "file contract revision claims incorrect unlock conditions"
        else do
          let a ← sumOuts r.fc.valid
          let b ← sumOuts p.fc.valid
          if a ≠ b then reject "file contract revision changes valid payout sum"
          else
            let c ← sumOuts r.fc.missed
            let d ← sumOuts p.fc.missed
            if c ≠ d then reject "file contract revision changes missed payout sum" else pure ()

/-- body of the revision loop -/
def rev1Step (ms : Mid) (t : Txn1) (r : Rev1) : VM Unit :=
    if r.timelock > ms.base.child then reject "file contract revision has timelocked parent"
    else if r.fc.windowStart < ms.base.child then reject "file contract revision has window that starts in the past"
    else if r.fc.windowEnd ≤ r.fc.windowStart then reject "file contract revision has window that ends before it begins"
    else if ms.isSpent r.parent then reject "file contract revision conflicts with previous proof or revision"
    else match ms.fc1Element t.supp r.parent with
      | none => reject "file contract revision revises nonexistent file contract"
      | some p => rev1ParentCheck ms r p

/-- body of the storage proof loop -/
def proof1Step (ms : Mid) (t : Txn1) (parentBlockId : Id) (sp : Proof1) : VM Unit :=
      if ms.isSpent sp.parent then reject "storage proof conflicts with previous proof"
      else match ms.fc1Element t.supp sp.parent with
        | none => reject "storage proof references nonexistent file contract"
        | some _ =>
          match ms.windowId t.supp sp.parent parentBlockId with
          | none => reject "storage proof cannot be submitted until after window start"
          | some _ => if sp.proofOk then pure () else reject "storage proof has root that does not match contract Merkle root"

def yieldU : PUnit → VM (ForInStep PUnit) := fun _ => pure (ForInStep.yield PUnit.unit)

theorem validateFileContracts_eq (ms : Mid) (t : Txn1) (parentBlockId : Id) :
    validateFileContracts ms t parentBlockId = (do
      forIn t.fcs PUnit.unit (fun x _ => fc1FormStep ms x.2 >>= fun _ => pure (ForInStep.yield PUnit.unit))
      forIn t.revs PUnit.unit (fun r _ => rev1Step ms t r >>= fun _ => pure (ForInStep.yield PUnit.unit))
      if t.proofs.length > 0 ∧ (t.scOuts.length > 0 ∨ t.sfOuts.length > 0 ∨ t.fcs.length > 0 ∨ t.revs.length > 0) then
        reject "transaction contains both a storage proof and other outputs"
      else if ¬ (t.proofs.map (·.parent)).Nodup then reject "storage proof resolves contract already resolved"
      else do
        forIn t.proofs PUnit.unit (fun sp _ => proof1Step ms t parentBlockId sp >>= fun _ => pure (ForInStep.yield PUnit.unit))
        pure ()) := by
  unfold validateFileContracts
  congr 1
  · congr 1; funext x _
    unfold fc1FormStep
    simp only [ite_bind', reject_bind, bind_assoc, pure_bind]
  · funext _
    congr 1
    · congr 1; funext r _
      unfold rev1Step rev1ParentCheck
      cases ms.fc1Element t.supp r.parent with
      | none => simp only [ite_bind', reject_bind]
      | some p => simp only [ite_bind', reject_bind, bind_assoc, pure_bind]
    · funext _
      congr 1; congr 1; congr 1; congr 1; funext sp _
      unfold proof1Step
      cases ms.fc1Element t.supp sp.parent with
      | none => simp only [ite_bind', reject_bind]
      | some p =>
        cases ms.windowId t.supp sp.parent parentBlockId with
        | none => simp only [ite_bind', reject_bind]
        | some w => simp only [ite_bind', reject_bind, pure_bind]

/-- rules of a v1 revision `r` of the contract `p` (the contract as it currently stands) -/
structure Rev1Rules (ms : Mid) (r : Rev1) (p : Fc1Elem) : Prop where
  timelock : r.timelock ≤ ms.base.child
  windowStart : ms.base.child ≤ r.fc.windowStart
  windowEnd : r.fc.windowStart < r.fc.windowEnd
  notSpent : ms.isSpent r.parent = false
  parentWindow : ms.base.child ≤ p.fc.windowStart
  revNum : p.fc.revNum < r.fc.revNum
  addr : r.ucAddr = p.fc.unlockHash
  validSum : ∃ a, sumOuts r.fc.valid = .ok a ∧ sumOuts p.fc.valid = .ok a
  missedSum : ∃ c, sumOuts r.fc.missed = .ok c ∧ sumOuts p.fc.missed = .ok c

theorem rev1ParentCheck_ok_iff (ms : Mid) (r : Rev1) (p : Fc1Elem) :
    rev1ParentCheck ms r p = .ok () ↔
      (ms.base.child ≤ p.fc.windowStart ∧ p.fc.revNum < r.fc.revNum ∧ r.ucAddr = p.fc.unlockHash ∧
        (∃ a, sumOuts r.fc.valid = .ok a ∧ sumOuts p.fc.valid = .ok a) ∧
        (∃ c, sumOuts r.fc.missed = .ok c ∧ sumOuts p.fc.missed = .ok c)) := by
  unfold rev1ParentCheck
  simp only [ite_reject_ok_iff, bind_ok_iff, Nat.not_lt, Nat.not_le, Decidable.not_not, pure_eq_ok, and_true]
  constructor
  · rintro ⟨h1, h2, h3, a, ha, b, hb, hab, c, hc, d, hd, hcd⟩
    subst hab; subst hcd
    exact ⟨h1, h2, h3, ⟨a, ha, hb⟩, ⟨c, hc, hd⟩⟩
  · rintro ⟨h1, h2, h3, ⟨a, ha, hb⟩, ⟨c, hc, hd⟩⟩
    exact ⟨h1, h2, h3, a, ha, a, hb, rfl, c, hc, c, hd, rfl⟩

theorem rev1Step_ok_iff (ms : Mid) (t : Txn1) (r : Rev1) :
    rev1Step ms t r = .ok () ↔ ∃ p, ms.fc1Element t.supp r.parent = some p ∧ Rev1Rules ms r p := by
  unfold rev1Step
  simp only [ite_reject_ok_iff, Nat.not_lt, Nat.not_le, Bool.not_eq_true]
  cases h : ms.fc1Element t.supp r.parent with
  | none => simp
  | some p =>
    simp only [rev1ParentCheck_ok_iff, Option.some.injEq, exists_eq_left']
    constructor
    · rintro ⟨h1, h2, h3, h4, h5, h6, h7, h8, h9⟩
      exact ⟨h1, h2, h3, h4, h5, h6, h7, h8, h9⟩
    · rintro ⟨h1, h2, h3, h4, h5, h6, h7, h8, h9⟩
      exact ⟨h1, h2, h3, h4, h5, h6, h7, h8, h9⟩

/-- rules of a v1 storage proof -/
structure Proof1Rules (ms : Mid) (t : Txn1) (parentBlockId : Id) (sp : Proof1) : Prop where
  notSpent : ms.isSpent sp.parent = false
  contract : ∃ e, ms.fc1Element t.supp sp.parent = some e
  window : ∃ w, ms.windowId t.supp sp.parent parentBlockId = some w
  proofOk : sp.proofOk = true

theorem proof1Step_ok_iff (ms : Mid) (t : Txn1) (pid : Id) (sp : Proof1) :
    proof1Step ms t pid sp = .ok () ↔ Proof1Rules ms t pid sp := by
  unfold proof1Step
  constructor
  · intro h
    split at h
    · exact absurd h (reject_ne_ok _ _)
    split at h
    · exact absurd h (reject_ne_ok _ _)
    split at h
    · exact absurd h (reject_ne_ok _ _)
    split at h
    · exact ⟨by simp_all, ⟨_, by assumption⟩, ⟨_, by assumption⟩, by assumption⟩
    · exact absurd h (reject_ne_ok _ _)
  · rintro ⟨h1, ⟨e, h2⟩, ⟨w, h3⟩, h4⟩
    rw [if_neg (by simp [h1]), h2, h3]
    simp only [h4, if_true]
    rfl

/-- `validateFileContracts` accepts iff every formation, revision and storage proof passes its
checks, storage proofs are not mixed with outputs, and no contract is proven twice. -/
theorem validateFileContracts_ok_iff (ms : Mid) (t : Txn1) (pid : Id) :
    validateFileContracts ms t pid = .ok () ↔
      ((∀ x ∈ t.fcs, fc1FormStep ms x.2 = .ok ()) ∧
       (∀ r ∈ t.revs, ∃ p, ms.fc1Element t.supp r.parent = some p ∧ Rev1Rules ms r p) ∧
       ¬ (t.proofs.length > 0 ∧ (t.scOuts.length > 0 ∨ t.sfOuts.length > 0 ∨ t.fcs.length > 0 ∨ t.revs.length > 0)) ∧
       (t.proofs.map (·.parent)).Nodup ∧
       (∀ sp ∈ t.proofs, Proof1Rules ms t pid sp)) := by
  rw [validateFileContracts_eq, bind_unit_ok_iff, forIn_step_ok_iff, bind_unit_ok_iff, forIn_step_ok_iff,
    ite_reject_ok_iff, ite_reject_ok_iff, bind_unit_ok_iff, forIn_step_ok_iff]
  simp only [rev1Step_ok_iff, proof1Step_ok_iff, Decidable.not_not, pure_eq_ok, and_true]

-- ================================================================= signatures, whole transaction

theorem validateSignatures_ok_iff (t : Txn1) :
    validateSignatures t = .ok () ↔
      ((t.scIns.map (·.parent) ++ t.sfIns.map (·.parent) ++ t.revs.map (·.parent)).Nodup ∧ t.sigsOk = true) := by
  unfold validateSignatures
  simp only [ite_reject_ok_iff, Decidable.not_not]
  constructor
  · rintro ⟨h1, h2⟩
    refine ⟨h1, ?_⟩
    split at h2
    · assumption
    · exact absurd h2 (reject_ne_ok _ _)
  · rintro ⟨h1, h2⟩
    exact ⟨h1, by rw [if_pos h2]; rfl⟩

/-- `validateTransaction` without the join points of the `do` elaboration -/
def v1TxnChecks (ms : Mid) (t : Txn1) (parentBlockId : Id) (maxWeight : Nat) : VM Unit :=
  if ms.base.child ≥ ms.base.P.v2Require then reject "v1 transactions are not allowed after v2 hardfork is complete"
  else do
    validateCurrencyOverflow t
    validateTaxPool ms t
    if t.weight > maxWeight then reject "transaction exceeds maximum block weight"
    else do
      validateMinimumValues t
      validateSiacoins ms t
      validateSiafunds ms t
      validateFileContracts ms t parentBlockId
      validateArbitraryData ms t
      validateSignatures t

theorem validateTransaction_eq (ms : Mid) (t : Txn1) (pid : Id) (maxWeight : Nat) :
    validateTransaction ms t pid maxWeight = v1TxnChecks ms t pid maxWeight := by
  unfold validateTransaction v1TxnChecks
  simp only [reject_bind]

theorem validateTransaction_ok_iff (ms : Mid) (t : Txn1) (pid : Id) (maxWeight : Nat) :
    validateTransaction ms t pid maxWeight = .ok () ↔
      (ms.base.child < ms.base.P.v2Require ∧ (validateCurrencyOverflow t = .ok () ∧ validateTaxPool ms t = .ok ()) ∧ t.weight ≤ maxWeight ∧
       validateMinimumValues t = .ok () ∧ validateSiacoins ms t = .ok () ∧ validateSiafunds ms t = .ok () ∧
       validateFileContracts ms t pid = .ok () ∧ validateArbitraryData ms t = .ok () ∧
       validateSignatures t = .ok ()) := by
  rw [validateTransaction_eq]
  unfold v1TxnChecks
  simp only [ite_reject_ok_iff, seq_unit_ok_iff, Nat.not_lt, Nat.not_le, ge_iff_le, gt_iff_lt, and_assoc]

end Sia.Ledger
