/-
  SiaProofs.Lemmas.AddLeaves — the loop invariants of `addLeaves`
  (consensus/merkle.go:253) against the naive forest.
-/
import SiaProofs.Lemmas.Forest
set_option linter.unusedSectionVars false
namespace Sia.ElemAcc

/-- `(Ht,S)` is the tree of a forest of `m` leaves that contains position `p` -/
def TreeAt (m p Ht S : Nat) : Prop :=
  m.testBit Ht = true ∧ S = treeStart m Ht ∧ S ≤ p ∧ p < S + 2 ^ Ht

/-- `(Ht,S)` is a tree of the intermediate forest while leaf number `m` is being merged
    at height `ht` (the pending right-hand tree, or an untouched tree of `m` of height
    `≥ ht`), and it contains position `p` -/
def Cov (m ht p Ht S : Nat) : Prop :=
  (Ht = ht ∧ S + 2 ^ ht = m + 1 ∧ S ≤ p ∧ p ≤ m) ∨
  (ht ≤ Ht ∧ TreeAt m p Ht S)

theorem cov_step {m ht p Ht S : Nat} (low : LowOnes m ht) (hb : m.testBit ht = true)
    (hc : Cov m (ht + 1) p Ht S) :
    (Ht = ht + 1 ∧ S = treeStart m ht ∧ m < p + 2 ^ ht ∧ S + 2 ^ ht ≤ p ∧ Cov m ht p ht (S + 2 ^ ht)) ∨
    (Ht = ht + 1 ∧ S = treeStart m ht ∧ p + 2 ^ ht ≤ m ∧ m < p + 2 ^ (ht + 1) ∧ p < S + 2 ^ ht ∧ Cov m ht p ht S) ∨
    (p + 2 ^ (ht + 1) ≤ m ∧ Cov m ht p Ht S) := by
  obtain ⟨_, hst⟩ := lowOnes_step low hb
  have hp := pow_succ2 ht
  have hpos := Nat.two_pow_pos ht
  rcases hc with ⟨rfl, hS, h1, h2⟩ | ⟨hle, hbit, hS, h1, h2⟩
  · have hS' : S = treeStart m ht := by omega
    by_cases hr : S + 2 ^ ht ≤ p
    · left
      exact ⟨rfl, hS', by omega, hr, Or.inl ⟨rfl, by omega, hr, h2⟩⟩
    · right; left
      exact ⟨rfl, hS', by omega, by omega, by omega, Or.inr ⟨Nat.le_refl _, hb, hS', h1, by omega⟩⟩
  · right; right
    have := tree_order (m := m) (h1 := ht) (h2 := Ht) (by omega) hbit
    refine ⟨by omega, Or.inr ⟨by omega, hbit, hS, h1, h2⟩⟩

theorem treeAt_succ_cov {m ht p Ht S : Nat} (low : LowOnes m ht) (hb : m.testBit ht = false)
    (h : TreeAt (m + 1) p Ht S) : Cov m ht p Ht S := by
  obtain ⟨⟨_, hnew⟩, habove, hbelow⟩ := lowOnes_stop low hb
  obtain ⟨hbit, hS, h1, h2⟩ := h
  rcases Nat.lt_trichotomy Ht ht with hlt | rfl | hgt
  · rw [hbelow Ht hlt] at hbit; cases hbit
  · left; exact ⟨rfl, by omega, h1, by omega⟩
  · right
    obtain ⟨e1, e2⟩ := habove Ht hgt
    exact ⟨by omega, by rw [← e1]; exact hbit, by rw [← e2]; exact hS, h1, h2⟩

section
variable {H : Type} [Hasher H] [Inhabited H]

theorem getD_append_left' (L : List H) (x : H) {q : Nat} (hq : q < L.length) :
    (L ++ [x]).getD q default = L.getD q default := by
  simp [List.getD, List.getElem?_append_left hq]

theorem getD_append_last (L : List H) (x : H) : (L ++ [x]).getD L.length default = x := by
  simp [List.getD]

/-- the invariant of the outer loop of `addLeaves` after `i` leaves: `L` = all leaf hashes so far -/
structure OuterInv (new0 : List (Leaf H)) (L : List H) (n i : Nat) (st : AddState H) : Prop where
  len : L.length = n + i
  num : st.numLeaves = n + i
  trees : ∀ h, (n + i).testBit h = true → st.trees h = subRoot L h (treeStart (n + i) h)
  llen : st.leaves.length = i
  fields : ∀ j l, st.leaves[j]? = some l →
    l.index = n + j ∧ ∃ l0, new0[j]? = some l0 ∧ l.elem = l0.elem ∧ l.spent = l0.spent
  proofs : ∀ j l, st.leaves[j]? = some l → ∀ Ht S, TreeAt (n + i) (n + j) Ht S →
    l.proof = subPath L 0 (n + j) Ht S
  growth : ∀ b, b < 64 → n.testBit b = true → ∀ Ht S, TreeAt (n + i) (treeStart n b) Ht S →
    b ≤ Ht ∧ st.growth b = subPath L b (treeStart n b) Ht S

/-- the invariant of the inner loop (`for height := range &acc.Trees`) for batch leaf `i` -/
structure LoopInv (new0 : List (Leaf H)) (L' : List H) (n i ht : Nat) (hcur : H) (st : AddState H) : Prop where
  len : L'.length = n + i + 1
  low : LowOnes (n + i) ht
  num : st.numLeaves = n + i
  trees : ∀ h, ht ≤ h → (n + i).testBit h = true → st.trees h = subRoot L' h (treeStart (n + i) h)
  cur : ∀ S, S + 2 ^ ht = n + i + 1 → hcur = subRoot L' ht S
  llen : st.leaves.length = i + 1
  fields : ∀ j l, st.leaves[j]? = some l →
    l.index = n + j ∧ ∃ l0, new0[j]? = some l0 ∧ l.elem = l0.elem ∧ l.spent = l0.spent
  proofs : ∀ j l, st.leaves[j]? = some l → ∀ Ht S, Cov (n + i) ht (n + j) Ht S →
    l.proof = subPath L' 0 (n + j) Ht S
  growth : ∀ b, b < 64 → n.testBit b = true → ∀ Ht S, Cov (n + i) ht (treeStart n b) Ht S →
    b ≤ Ht ∧ st.growth b = subPath L' b (treeStart n b) Ht S

theorem appendSiblings_get {leaves : List (Leaf H)} {i ht : Nat} {o h : H} {j : Nat} {l' : Leaf H}
    (hg : (appendSiblings leaves i ht o h)[j]? = some l') :
    ∃ l, leaves[j]? = some l ∧ l'.elem = l.elem ∧ l'.spent = l.spent ∧ l'.index = l.index ∧
      l'.proof = (if i < j + 2 ^ ht then l.proof ++ [o]
                  else if i < j + 2 ^ (ht + 1) then l.proof ++ [h] else l.proof) := by
  unfold appendSiblings at hg
  rw [List.getElem?_mapIdx] at hg
  cases hl : leaves[j]? with
  | none => rw [hl] at hg; simp at hg
  | some l =>
    rw [hl] at hg
    simp only [Option.map_some, Option.some.injEq] at hg
    refine ⟨l, rfl, ?_⟩
    subst hg
    split
    · exact ⟨rfl, rfl, rfl, rfl⟩
    · split <;> exact ⟨rfl, rfl, rfl, rfl⟩

/-- one merge step of the inner loop preserves the invariant -/
theorem loopInv_step {new0 : List (Leaf H)} {L' : List H} {n i ht : Nat} {hcur : H} {st : AddState H}
    (inv : LoopInv new0 L' n i ht hcur st) (hb : (n + i).testBit ht = true) :
    LoopInv new0 L' n i (ht + 1) (node (st.trees ht) hcur)
      { st with
        leaves := appendSiblings st.leaves i ht (st.trees ht) hcur
        growth := growStep n st.numLeaves ht (st.trees ht) hcur st.growth } := by
  obtain ⟨hlow', hst⟩ := lowOnes_step inv.low hb
  have hp := pow_succ2 ht
  have hpos := Nat.two_pow_pos ht
  have hold : st.trees ht = subRoot L' ht (treeStart (n + i) ht) := inv.trees ht (Nat.le_refl _) hb
  have hcur' : hcur = subRoot L' ht (treeStart (n + i) ht + 2 ^ ht) := inv.cur _ (by omega)
  refine ⟨inv.len, hlow', inv.num, fun h hh hbit => inv.trees h (by omega) hbit, ?_, ?_, ?_, ?_, ?_⟩
  · intro S hS
    have : S = treeStart (n + i) ht := by omega
    subst this
    simp only [subRoot]
    rw [← hold, ← hcur']
  · simp [appendSiblings, inv.llen]
  · intro j l' hg
    obtain ⟨l, hl, e1, e2, e3, _⟩ := appendSiblings_get hg
    rw [e1, e2, e3]; exact inv.fields j l hl
  · intro j l' hg Ht S hc
    obtain ⟨l, hl, _, _, _, e4⟩ := appendSiblings_get hg
    rw [e4]
    rcases cov_step inv.low hb hc with ⟨rfl, hS, c1, c2, hc'⟩ | ⟨rfl, hS, c1, c2, c3, hc'⟩ | ⟨c1, hc'⟩
    · rw [if_pos (by omega), inv.proofs j l hl _ _ hc', subPath_right L' (Nat.zero_le _) c2, hold, hS]
    · rw [if_neg (by omega), if_pos (by omega), inv.proofs j l hl _ _ hc', subPath_left L' (Nat.zero_le _) c3,
        hcur', hS]
    · rw [if_neg (by omega), if_neg (by omega)]; exact inv.proofs j l hl _ _ hc'
  · intro b hb64 hnb Ht S hc
    have h2le := lowOnes_le hlow'
    have hle := lowOnes_le inv.low
    simp only [growStep, inv.num, clearBits_eq_treeStart]
    rw [if_pos ⟨hb64, hnb⟩]
    rcases cov_step inv.low hb hc with ⟨rfl, hS, c1, c2, hc'⟩ | ⟨rfl, hS, c1, c2, c3, hc'⟩ | ⟨c1, hc'⟩
    · obtain ⟨g1, g2⟩ := inv.growth b hb64 hnb _ _ hc'
      refine ⟨by omega, ?_⟩
      rw [if_pos (by omega), g2, subPath_right L' g1 c2, hold, hS]
    · obtain ⟨g1, g2⟩ := inv.growth b hb64 hnb _ _ hc'
      refine ⟨by omega, ?_⟩
      rw [if_neg (by omega), if_pos (by omega), g2, subPath_left L' g1 c3, hcur', hS]
    · obtain ⟨g1, g2⟩ := inv.growth b hb64 hnb _ _ hc'
      refine ⟨g1, ?_⟩
      rw [if_neg (by omega), if_neg (by omega)]; exact g2

/-- leaving the inner loop (no tree at height `ht`): the outer invariant for `i+1` -/
theorem loopInv_exit {new0 : List (Leaf H)} {L' : List H} {n i ht : Nat} {hcur : H} {st : AddState H}
    (inv : LoopInv new0 L' n i ht hcur st) (hb : (n + i).testBit ht = false) :
    OuterInv new0 L' n (i + 1)
      { st with trees := setFn st.trees ht hcur, numLeaves := st.numLeaves + 1 } := by
  obtain ⟨⟨_, hnew⟩, habove, hbelow⟩ := lowOnes_stop inv.low hb
  refine ⟨inv.len, by simp [inv.num]; omega, ?_, inv.llen, inv.fields, ?_, ?_⟩
  · intro h hbit
    have hbit' : (n + i + 1).testBit h = true := hbit
    show setFn st.trees ht hcur h = subRoot L' h (treeStart (n + i + 1) h)
    rcases Nat.lt_trichotomy h ht with hlt | rfl | hgt
    · rw [hbelow h hlt] at hbit'; cases hbit'
    · simp only [setFn, if_true]
      exact inv.cur _ hnew
    · obtain ⟨e1, e2⟩ := habove h hgt
      have : h ≠ ht := by omega
      simp only [setFn, this, if_false]
      rw [e2]; exact inv.trees h (by omega) (by rw [← e1]; exact hbit')
  · intro j l hl Ht S ht'
    exact inv.proofs j l hl Ht S (treeAt_succ_cov inv.low hb ht')
  · intro b hb64 hnb Ht S ht'
    exact inv.growth b hb64 hnb Ht S (treeAt_succ_cov inv.low hb ht')

/-- the inner loop establishes the outer invariant for the next leaf -/
theorem addLeafLoop_spec {new0 : List (Leaf H)} {L' : List H} {n i : Nat} (hlt : n + i + 1 < 2 ^ 64) :
    ∀ (fuel ht : Nat) (hcur : H) (st : AddState H), ht + fuel = 64 → LoopInv new0 L' n i ht hcur st →
      OuterInv new0 L' n (i + 1) (addLeafLoop n i fuel ht hcur st) := by
  intro fuel
  induction fuel with
  | zero =>
    intro ht hcur st hf inv
    have := lowOnes_le inv.low
    have : ht = 64 := by omega
    subst this
    omega
  | succ fuel ih =>
    intro ht hcur st hf inv
    unfold addLeafLoop
    by_cases hb : (n + i).testBit ht = true
    · have : (!hasTree st.numLeaves ht) = false := by simp [hasTree, inv.num, hb]
      rw [this]
      simp only [Bool.false_eq_true, if_false]
      exact ih (ht + 1) _ _ (by omega) (loopInv_step inv hb)
    · have hb' : (n + i).testBit ht = false := by simpa using hb
      have : (!hasTree st.numLeaves ht) = true := by simp [hasTree, inv.num, hb']
      rw [this]
      simp only [if_true]
      exact loopInv_exit inv hb'

/-- entering the inner loop for batch leaf `i` -/
theorem outerInv_enter {new0 : List (Leaf H)} {L : List H} {n i : Nat} {st : AddState H}
    (inv : OuterInv new0 L n i st) (el : Leaf H) (hel : new0[i]? = some el) (hproof : el.proof = []) :
    LoopInv new0 (L ++ [Hasher.leaf el.elem (n + i) el.spent]) n i 0 (Hasher.leaf el.elem (n + i) el.spent)
      { st with leaves := st.leaves ++ [{ el with index := st.numLeaves }] } := by
  have hext : ∀ q, q < n + i → (L ++ [Hasher.leaf el.elem (n + i) el.spent]).getD q default = L.getD q default :=
    fun q hq => getD_append_left' L _ (by rw [inv.len]; exact hq)
  have hget : ∀ j l, (st.leaves ++ [{ el with index := st.numLeaves }])[j]? = some l →
      (j < i ∧ st.leaves[j]? = some l) ∨ (j = i ∧ l = { el with index := st.numLeaves }) := by
    intro j l hl
    rcases Nat.lt_or_ge j i with hj | hj
    · left; rw [List.getElem?_append_left (by rw [inv.llen]; exact hj)] at hl; exact ⟨hj, hl⟩
    · right
      rw [List.getElem?_append_right (by rw [inv.llen]; exact hj), inv.llen] at hl
      have : j - i = 0 := by
        rcases Nat.eq_zero_or_pos (j - i) with h0 | h0
        · exact h0
        · rw [List.getElem?_eq_none (by simp; omega)] at hl; cases hl
      rw [this] at hl
      simp at hl
      exact ⟨by omega, hl.symm⟩
  refine ⟨by simp [inv.len], lowOnes_zero _, inv.num, ?_, ?_, by simp [inv.llen], ?_, ?_, ?_⟩
  · intro h _ hbit
    rw [inv.trees h hbit]
    have := tree_end_le hbit
    exact (subRoot_ext h _ (fun q _ h2 => hext q (by omega))).symm
  · intro S hS
    have : S = n + i := by simp at hS; omega
    subst this
    simp only [subRoot]
    rw [← inv.len, getD_append_last]
  · intro j l hl
    rcases hget j l hl with ⟨_, hl'⟩ | ⟨rfl, rfl⟩
    · exact inv.fields j l hl'
    · exact ⟨inv.num, el, hel, rfl, rfl⟩
  · intro j l hl Ht S hc
    rcases hget j l hl with ⟨hj, hl'⟩ | ⟨rfl, rfl⟩
    · rcases hc with ⟨_, h1, h2, h3⟩ | ⟨_, ht'⟩
      · simp at h1; omega
      · rw [inv.proofs j l hl' Ht S ht']
        have := tree_end_le ht'.1
        obtain ⟨_, hS, _, _⟩ := ht'
        exact (subPath_ext 0 _ Ht S (fun q _ h2 => hext q (by omega))).symm
    · rcases hc with ⟨rfl, _, _, _⟩ | ⟨_, hbit, hS, h1, h2⟩
      · simp [subPath, hproof]
      · have := tree_end_le hbit; omega
  · intro b hb64 hnb Ht S hc
    have hend := tree_end_le hnb
    rcases hc with ⟨_, h1, h2, h3⟩ | ⟨_, ht'⟩
    · simp at h1
      have := Nat.two_pow_pos b
      omega
    · obtain ⟨g1, g2⟩ := inv.growth b hb64 hnb Ht S ht'
      refine ⟨g1, ?_⟩
      rw [g2]
      have := tree_end_le ht'.1
      obtain ⟨_, hS, _, _⟩ := ht'
      exact (subPath_ext b _ Ht S (fun q _ h2 => hext q (by omega))).symm

/-- leaf hashes of a batch whose first leaf gets index `start` -/
def hashesFrom : Nat → List (Leaf H) → List H
  | _, [] => []
  | start, el :: rest => Hasher.leaf el.elem start el.spent :: hashesFrom (start + 1) rest

theorem hashesFrom_length (start : Nat) (new : List (Leaf H)) : (hashesFrom start new).length = new.length := by
  induction new generalizing start with
  | nil => rfl
  | cons el rest ih => simp [hashesFrom, ih]

/-- the outer loop -/
theorem addLeavesGo_spec {new0 : List (Leaf H)} {n : Nat} (hnp : ∀ l ∈ new0, l.proof = []) :
    ∀ (rest : List (Leaf H)) (L : List H) (i : Nat) (st : AddState H),
      new0.drop i = rest → n + i + rest.length < 2 ^ 64 → OuterInv new0 L n i st →
      OuterInv new0 (L ++ hashesFrom (n + i) rest) n (i + rest.length) (addLeavesGo n rest st) := by
  intro rest
  induction rest with
  | nil => intro L i st _ _ inv; simpa [hashesFrom, addLeavesGo] using inv
  | cons el rest ih =>
    intro L i st hdrop hlt inv
    have hel : new0[i]? = some el := by
      have := congrArg List.head? hdrop
      simpa [List.head?_drop] using this
    have hmem : el ∈ new0 := List.mem_of_getElem? hel
    have hdrop' : new0.drop (i + 1) = rest := by
      have := congrArg List.tail hdrop
      simpa [List.tail_drop] using this
    simp only [List.length_cons] at hlt
    have h1 := outerInv_enter inv el hel (hnp el hmem)
    have h2 := addLeafLoop_spec (by omega) 64 0 _ _ (by omega) h1
    have h3 := ih _ (i + 1) _ hdrop' (by omega) h2
    simp only [addLeavesGo, addOne, hashesFrom]
    rw [inv.llen, inv.num]
    have e1 : L ++ Hasher.leaf el.elem (n + i) el.spent :: hashesFrom (n + i + 1) rest =
        L ++ [Hasher.leaf el.elem (n + i) el.spent] ++ hashesFrom (n + (i + 1)) rest := by simp [Nat.add_assoc]
    have e2 : i + (el :: rest).length = i + 1 + rest.length := by simp; omega
    rw [e1, e2]
    rw [inv.num] at h3
    exact h3

theorem treeAt_unique {m p Ht S Ht' S' : Nat} (h : TreeAt m p Ht S) (h' : TreeAt m p Ht' S') : Ht = Ht' ∧ S = S' := by
  obtain ⟨a1, a2, a3, a4⟩ := h
  obtain ⟨b1, b2, b3, b4⟩ := h'
  have e1 := treeHeight_unique (n := m) (h := Ht) (i := p) ⟨a1, by omega, by omega⟩
  have e2 := treeHeight_unique (n := m) (h := Ht') (i := p) ⟨b1, by omega, by omega⟩
  have : Ht = Ht' := by omega
  subst this
  exact ⟨rfl, by omega⟩

/-- the invariant holds before the first leaf -/
theorem outerInv_init {new0 : List (Leaf H)} (acc : Acc H) (ls : List H)
    (hn : acc.numLeaves = ls.length)
    (ht : ∀ h, ls.length.testBit h = true → acc.trees h = subRoot ls h (treeStart ls.length h)) :
    OuterInv new0 ls ls.length 0
      { trees := acc.trees, numLeaves := acc.numLeaves, leaves := [], growth := fun _ => [] } := by
  refine ⟨rfl, hn, ht, rfl, ?_, ?_, ?_⟩
  · intro j l hl; simp at hl
  · intro j l hl; simp at hl
  · intro b _ hnb Ht S hta
    have hself : TreeAt ls.length (treeStart ls.length b) b (treeStart ls.length b) :=
      ⟨hnb, rfl, Nat.le_refl _, by have := Nat.two_pow_pos b; omega⟩
    obtain ⟨rfl, rfl⟩ := treeAt_unique hta hself
    exact ⟨Nat.le_refl _, by simp [subPath_self]⟩

theorem treeAt_of_lt {m p : Nat} (hp : p < m) : TreeAt m p (treeHeight m p) (treeStart m (treeHeight m p)) := by
  obtain ⟨a, b, c⟩ := treeHeight_spec hp
  exact ⟨a, rfl, b, c⟩

theorem testBit_lt_64 {n b : Nat} (hn : n < 2 ^ 64) (hb : n.testBit b = true) : b < 64 := by
  rcases Nat.lt_or_ge b 64 with h | h
  · exact h
  · have : n.testBit b = false :=
      Nat.testBit_lt_two_pow (Nat.lt_of_lt_of_le hn (Nat.pow_le_pow_right (by omega) h))
    rw [this] at hb; cases hb

/-- `addLeaves` as a whole: the final state satisfies the outer invariant for all leaves -/
theorem addLeaves_outer (acc : Acc H) (ls : List H) (hacc : acc.toForest = forestOf ls)
    (new : List (Leaf H)) (hnp : ∀ l ∈ new, l.proof = []) (hsz : ls.length + new.length < 2 ^ 64) :
    OuterInv new (ls ++ hashesFrom ls.length new) ls.length new.length
      (addLeavesGo acc.numLeaves new
        { trees := acc.trees, numLeaves := acc.numLeaves, leaves := [], growth := fun _ => [] }) := by
  obtain ⟨hn, ht⟩ := (toForest_eq_iff acc ls).1 hacc
  have h0 := outerInv_init (new0 := new) acc ls hn ht
  have := addLeavesGo_spec (n := ls.length) hnp new ls 0 _ (by simp) (by simpa using hsz) h0
  simpa [hn] using this

/-- an old leaf's path in the grown forest is its old path followed by `treeGrowth` of its tree -/
theorem path_grow {new0 : List (Leaf H)} {ls ext : List H} {st : AddState H} {k : Nat}
    (inv : OuterInv new0 (ls ++ ext) ls.length k st) (hn : ls.length < 2 ^ 64) {j : Nat} (hj : j < ls.length) :
    treeHeight ls.length j ≤ treeHeight (ls.length + k) j ∧
    path (ls ++ ext) j = path ls j ++ st.growth (path ls j).length := by
  obtain ⟨hb, hlo, hhi⟩ := treeHeight_spec hj
  have hlen : (path ls j).length = treeHeight ls.length j := path_length ls j
  generalize hbdef : treeHeight ls.length j = b at *
  have hsb : treeStart ls.length b < ls.length + k := by have := tree_end_le hb; have := Nat.two_pow_pos b; omega
  have hta := treeAt_of_lt hsb
  obtain ⟨g1, g2⟩ := inv.growth b (testBit_lt_64 hn hb) hb _ _ hta
  generalize treeHeight (ls.length + k) (treeStart ls.length b) = Ht at *
  generalize hSdef : treeStart (ls.length + k) Ht = S at *
  obtain ⟨t1, _, t3, t4⟩ := hta
  have hS : 2 ^ Ht ∣ S := by rw [← hSdef]; exact dvd_of_dvd_succ (treeStart_dvd _ _)
  have hsb2 : 2 ^ b ∣ treeStart ls.length b := dvd_of_dvd_succ (treeStart_dvd _ _)
  have hcont : treeStart ls.length b + 2 ^ b ≤ S + 2 ^ Ht :=
    mul_succ_le_of_lt hsb2 ((Nat.dvd_add_right (Nat.dvd_trans (Nat.pow_dvd_pow 2 g1) hS)).2 (Nat.pow_dvd_pow 2 g1)) t4
  have hjt : InTree (ls.length + k) Ht j := ⟨t1, by omega, by omega⟩
  have hth := treeHeight_unique hjt
  refine ⟨by omega, ?_⟩
  have hlen' : (ls ++ ext).length = ls.length + k := inv.len
  rw [hlen, g2, path_eq, path_eq, hlen', hth, hSdef, hbdef]
  rw [subPath_comp (ls ++ ext) hsb2 hlo hhi Ht S g1 hS t3 t4]
  congr 1
  have := tree_end_le hb
  apply subPath_ext
  intro q _ hq2
  simp [List.getD, List.getElem?_append_left (show q < ls.length by omega)]

end
end Sia.ElemAcc
