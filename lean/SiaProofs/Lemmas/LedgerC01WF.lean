import SiaProofs.Lemmas.LedgerC01Block
/-!
# C01 helper lemmas, part 15: committing a mid-state keeps the ledger well-formed
-/
namespace Sia.Ledger

theorem Struct.nodup_ids {T} {ms : Mid} (h : Struct T ms) (k : Kind) : (ms.idsOf k).Nodup := by
  rw [List.Nodup, List.pairwise_iff_getElem]
  intro i j hi hj hij heq
  have h1 := h.idx k i _ (List.getElem?_eq_getElem hi)
  have h2 := h.idx k j _ (List.getElem?_eq_getElem hj)
  rw [heq] at h1
  rw [h1] at h2
  have : i = j := Option.some.inj h2
  omega

/-- ids of one kind after a commit: distinct, and each is a base id or a diff id -/
theorem commit_ids_kind {E D : Type} (base : List E) (eid : E → Id) (diffs : List D) (did : D → Id)
    (live : D → Bool) (cur : D → E) (hcur : ∀ d, eid (cur d) = did d)
    (hb : (base.map eid).Nodup) (hd : (diffs.map did).Nodup) :
    ((untouched base eid (diffs.map did) ++ (diffs.filter live).map cur).map eid).Nodup ∧
    ∀ x ∈ (untouched base eid (diffs.map did) ++ (diffs.filter live).map cur).map eid,
      x ∈ base.map eid ∨ x ∈ diffs.map did := by
  have e2 : ((diffs.filter live).map cur).map eid = (diffs.filter live).map did := by
    rw [List.map_map]; apply List.map_congr_left; intro d _; exact hcur d
  rw [List.map_append, e2]
  have s1 : ((untouched base eid (diffs.map did)).map eid).Sublist (base.map eid) :=
    (List.filter_sublist (l := base)).map eid
  have s2 : ((diffs.filter live).map did).Sublist (diffs.map did) :=
    (List.filter_sublist (l := diffs)).map did
  constructor
  · rw [List.nodup_append]
    refine ⟨s1.nodup hb, s2.nodup hd, ?_⟩
    intro a ha b hb' hab
    subst hab
    obtain ⟨e, he, rfl⟩ := List.mem_map.mp ha
    unfold untouched at he
    have := (List.mem_filter.mp he).2
    have hnc : (diffs.map did).contains (eid e) = false := by simpa using this
    have hc : (diffs.map did).contains (eid e) = true := List.contains_iff_mem.mpr (s2.subset hb')
    rw [hnc] at hc; cases hc
  · intro x hx
    rcases List.mem_append.mp hx with h | h
    · exact Or.inl (s1.subset h)
    · exact Or.inr (s2.subset h)

theorem nodup_four {T : Kind → Id → Prop} (hd : TDisj T) (l1 l2 l3 l4 : List Id)
    (n1 : l1.Nodup) (n2 : l2.Nodup) (n3 : l3.Nodup) (n4 : l4.Nodup)
    (t1 : ∀ x ∈ l1, T Kind.sc x) (t2 : ∀ x ∈ l2, T Kind.sf x) (t3 : ∀ x ∈ l3, T Kind.fc1 x) (t4 : ∀ x ∈ l4, T Kind.fc2 x) :
    (l1 ++ l2 ++ l3 ++ l4).Nodup := by
  have ne : ∀ {k k' : Kind} {a b : Id}, T k a → T k' b → k ≠ k' → a ≠ b := by
    intro k k' a b ha hb hk hab
    subst hab; exact hk (hd _ _ _ ha hb)
  rw [List.nodup_append]
  refine ⟨?_, n4, ?_⟩
  · rw [List.nodup_append]
    refine ⟨?_, n3, ?_⟩
    · rw [List.nodup_append]
      exact ⟨n1, n2, fun a ha b hb => ne (t1 a ha) (t2 b hb) (by decide)⟩
    · intro a ha b hb
      rcases List.mem_append.mp ha with h | h
      · exact ne (t1 a h) (t3 b hb) (by decide)
      · exact ne (t2 a h) (t3 b hb) (by decide)
  · intro a ha b hb
    rcases List.mem_append.mp ha with h | h
    · rcases List.mem_append.mp h with h | h
      · exact ne (t1 a h) (t4 b hb) (by decide)
      · exact ne (t2 a h) (t4 b hb) (by decide)
    · exact ne (t3 a h) (t4 b hb) (by decide)

theorem commit_sc (ms : Mid) (bid : Id) :
    (ms.commit bid).sc = untouched ms.base.sc (·.id) (ms.sces.map (·.e.id)) ++ (ms.sces.filter (fun d => ¬ d.spent)).map (·.e) := by
  unfold Mid.commit; simp only []; rw [filter_any_eq ms.base.sc (·.id) ms.sces (·.e.id)]
theorem commit_sf (ms : Mid) (bid : Id) :
    (ms.commit bid).sf = untouched ms.base.sf (·.id) (ms.sfes.map (·.e.id)) ++ (ms.sfes.filter (fun d => ¬ d.spent)).map (·.e) := by
  unfold Mid.commit; simp only []; rw [filter_any_eq ms.base.sf (·.id) ms.sfes (·.e.id)]
theorem commit_fc1 (ms : Mid) (bid : Id) :
    (ms.commit bid).fc1 = untouched ms.base.fc1 (·.id) (ms.fces.map (·.e.id)) ++ (ms.fces.filter (fun d => ¬ d.resolved)).map (·.current) := by
  unfold Mid.commit; simp only []; rw [filter_any_eq ms.base.fc1 (·.id) ms.fces (·.e.id)]
theorem commit_fc2 (ms : Mid) (bid : Id) :
    (ms.commit bid).fc2 = untouched ms.base.fc2 (·.id) (ms.v2fces.map (·.e.id)) ++
      (ms.v2fces.filter (fun d => d.resolution.isNone)).map (·.current) := by
  unfold Mid.commit; simp only []; rw [filter_any_eq ms.base.fc2 (·.id) ms.v2fces (·.e.id)]
  congr 1

theorem Fc1Diff.current_id_c1 (d : Fc1Diff) : d.current.id = d.e.id := by
  unfold Fc1Diff.current; split <;> rfl
theorem Fc2Diff.current_id (d : Fc2Diff) : d.current.id = d.e.id := by
  unfold Fc2Diff.current; split <;> rfl

theorem wf_commit {T} {ms : Mid} (hc : Ctx T ms.base) (hw : WF ms.base) (hI : Inv T ms)
    (hsf : sfTot ms = SFtot ms.base) (bid : Id) : WF (ms.commit bid) := by
  have k1 := commit_ids_kind ms.base.sc (·.id) ms.sces (·.e.id) (fun d => ¬ d.spent) (·.e) (fun _ => rfl)
    (hc.nodup Kind.sc) (hI.struct.nodup_ids Kind.sc)
  have k2 := commit_ids_kind ms.base.sf (·.id) ms.sfes (·.e.id) (fun d => ¬ d.spent) (·.e) (fun _ => rfl)
    (hc.nodup Kind.sf) (hI.struct.nodup_ids Kind.sf)
  have k3 := commit_ids_kind ms.base.fc1 (·.id) ms.fces (·.e.id) (fun d => ¬ d.resolved) (·.current) Fc1Diff.current_id_c1
    (hc.nodup Kind.fc1) (hI.struct.nodup_ids Kind.fc1)
  have k4 := commit_ids_kind ms.base.fc2 (·.id) ms.v2fces (·.e.id) (fun d => d.resolution.isNone) (·.current) Fc2Diff.current_id
    (hc.nodup Kind.fc2) (hI.struct.nodup_ids Kind.fc2)
  constructor
  · unfold baseIds; simp only []
    rw [commit_sc, commit_sf, commit_fc1, commit_fc2]
    apply nodup_four hc.disj _ _ _ _ k1.1 k2.1 k3.1 k4.1
    · intro x hx; rcases k1.2 x hx with h | h
      · exact hc.base Kind.sc x h
      · exact hI.struct.typed Kind.sc x h
    · intro x hx; rcases k2.2 x hx with h | h
      · exact hc.base Kind.sf x h
      · exact hI.struct.typed Kind.sf x h
    · intro x hx; rcases k3.2 x hx with h | h
      · exact hc.base Kind.fc1 x h
      · exact hI.struct.typed Kind.fc1 x h
    · intro x hx; rcases k4.2 x hx with h | h
      · exact hc.base Kind.fc2 x h
      · exact hI.struct.typed Kind.fc2 x h
  · intro e he
    rw [commit_fc1] at he
    rcases List.mem_append.mp he with h | h
    · unfold untouched at h; exact hc.fc1_bal e (List.mem_filter.mp h).1
    · obtain ⟨d, hd, rfl⟩ := List.mem_map.mp h
      obtain ⟨hm, hl⟩ := List.mem_filter.mp hd
      have hnr : d.resolved = false := by simpa using hl
      exact ((hI.fc1 d hm).2.2.2 hnr).2
  · intro e he
    rw [commit_fc2] at he
    rcases List.mem_append.mp he with h | h
    · unfold untouched at h; exact hw.fc2_missed e (List.mem_filter.mp h).1
    · obtain ⟨d, hd, rfl⟩ := List.mem_map.mp h
      exact (hI.fc2 d (List.mem_filter.mp hd).1).2.2.2.2
  · rw [SF_commit, hsf]; exact hw.sf_bound
  · exact hw.params

end Sia.Ledger
