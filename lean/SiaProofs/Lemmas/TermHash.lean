/-
  SiaProofs.Lemmas.TermHash — the free term algebra as a hash type: a model in which
  node and leaf hashes are injective (and disjoint), used to show that the hypotheses
  of the C04/C05 theorems are satisfiable, and to run the model inside the kernel.
-/
import SiaModel.Merkle.Accumulator
namespace Sia.ElemAcc

/-- hash terms: uninterpreted atoms (element hashes), leaves and nodes -/
inductive T where
  | atom (n : Nat)
  | leaf (e : T) (i : Nat) (s : Bool)
  | node (l r : T)
  deriving DecidableEq, Inhabited

instance : Hasher T := ⟨T.node, T.leaf⟩

theorem T.node_inj (a b c d : T) (h : (node a b : T) = node c d) : a = c ∧ b = d := by
  cases h; exact ⟨rfl, rfl⟩

theorem T.leaf_inj (e e' : T) (i i' : Nat) (s s' : Bool) (h : (Hasher.leaf e i s : T) = Hasher.leaf e' i' s') :
    e = e' ∧ i = i' ∧ s = s' := by
  cases h; exact ⟨rfl, rfl, rfl⟩

theorem T.leaf_ne_node (e : T) (i : Nat) (s : Bool) (a b : T) : (Hasher.leaf e i s : T) ≠ node a b := by
  intro h; cases h

/-- the empty accumulator -/
def emptyAcc : Acc T := { trees := fun _ => default, numLeaves := 0 }

/-- a fresh unspent/spent leaf with element hash `atom k`, as handed to `addLeaves` -/
def freshLeaf (k : Nat) (spent : Bool := false) : Leaf T :=
  { elem := .atom k, spent := spent, index := unassignedLeafIndex, proof := [] }

end Sia.ElemAcc
