import SiaProofs.Lemmas.LedgerC01Prim
/-!
# C01 helper lemmas, part 7b: weighted sums over live siafund elements (pool solvency)

`sfW w ms` sums a weight `w` over the siafund elements the mid-state commits to.
`sfTot` is the instance `w = value`; `Psi` (claimable amount, times 10000) is the
instance `w o = o.value * (pool − o.claimStart)`; `CsOk` (every live element has
`claimStart ≤ pool`) is the vanishing of an indicator weight.
-/
namespace Sia.Ledger

def sfDvW (w : SfElem → Nat) (d : SfDiff) : Nat := if d.spent then 0 else w d.e

def sfW (w : SfElem → Nat) (ms : Mid) : Nat :=
  ((untouched ms.base.sf (·.id) ms.sfIds).map w).sum + (ms.sfes.map (sfDvW w)).sum

theorem sfTot_eq_sfW (ms : Mid) : sfTot ms = sfW (·.value) ms := by
  unfold sfTot sfW
  congr 2

theorem sfW_congr {ms ms' : Mid} (w : SfElem → Nat) (hb : ms'.base = ms.base) (hs : ms'.sfes = ms.sfes) :
    sfW w ms' = sfW w ms := by
  unfold sfW Mid.sfIds; rw [hb, hs]

/-- claimable amount (times 10000) of one live element when the pool stands at `pool` -/
def psiW (pool : Cur) : SfElem → Nat := fun o => o.value * (pool - o.claimStart)

/-- 1 iff the element's claim start lies above `pool` (a later `claimPortion` would underflow) -/
def csBad (pool : Cur) : SfElem → Nat := fun o => if o.claimStart ≤ pool then 0 else 1

def Psi (ms : Mid) : Nat := sfW (psiW ms.pool) ms
def CsOk (ms : Mid) : Prop := sfW (csBad ms.pool) ms = 0

-- ------------------------------------------------------------------ list algebra

theorem sum_rel {α : Type} (l : List α) (bad f g h : α → Nat) (D : Nat)
    (hz : (l.map bad).sum = 0) (hr : ∀ x, bad x = 0 → f x = g x + D * h x) :
    (l.map f).sum = (l.map g).sum + D * (l.map h).sum := by
  induction l with
  | nil => simp
  | cons a l ih =>
    simp only [List.map_cons, List.sum_cons] at hz ⊢
    have h1 : bad a = 0 := by omega
    have h2 : (l.map bad).sum = 0 := by omega
    rw [ih h2, hr a h1, Nat.mul_add]; omega

theorem sum_zero_mono {α : Type} (l : List α) (bad bad' : α → Nat)
    (hz : (l.map bad).sum = 0) (hr : ∀ x, bad x = 0 → bad' x = 0) : (l.map bad').sum = 0 := by
  induction l with
  | nil => simp
  | cons a l ih =>
    simp only [List.map_cons, List.sum_cons] at hz ⊢
    have h1 : bad a = 0 := by omega
    have h2 : (l.map bad).sum = 0 := by omega
    rw [ih h2, hr a h1]

/-- raising the pool by `D` raises the claimable total by `D` times the live supply -/
theorem sfW_pool_shift (ms : Mid) (p D : Nat) (hz : sfW (csBad p) ms = 0) :
    sfW (psiW (p + D)) ms = sfW (psiW p) ms + D * sfW (·.value) ms ∧ sfW (csBad (p + D)) ms = 0 := by
  unfold sfW at *
  have hz1 : ((untouched ms.base.sf (·.id) ms.sfIds).map (csBad p)).sum = 0 := by omega
  have hz2 : (ms.sfes.map (sfDvW (csBad p))).sum = 0 := by omega
  have key : ∀ o : SfElem, csBad p o = 0 → psiW (p + D) o = psiW p o + D * o.value := by
    intro o ho
    unfold csBad at ho; unfold psiW
    have hle : o.claimStart ≤ p := by
      by_cases h : o.claimStart ≤ p
      · exact h
      · rw [if_neg h] at ho; cases ho
    have : p + D - o.claimStart = (p - o.claimStart) + D := by unfold Cur at *; omega
    rw [this, Nat.mul_add, Nat.mul_comm o.value D]
  have key2 : ∀ o : SfElem, csBad p o = 0 → csBad (p + D) o = 0 := by
    intro o ho
    unfold csBad at ho ⊢
    by_cases h : o.claimStart ≤ p
    · have : o.claimStart ≤ p + D := by unfold Cur at *; omega
      rw [if_pos this]
    · rw [if_neg h] at ho; cases ho
  constructor
  · rw [sum_rel _ (csBad p) (psiW (p + D)) (psiW p) (·.value) D hz1 key,
      sum_rel _ (sfDvW (csBad p)) (sfDvW (psiW (p + D))) (sfDvW (psiW p)) (sfDvW (·.value)) D hz2 (by
        intro d hd
        unfold sfDvW at hd ⊢
        cases hs : d.spent with
        | true => simp
        | false => rw [hs] at hd; simp only [Bool.false_eq_true, if_false] at hd ⊢; exact key d.e hd)]
    rw [Nat.mul_add]; omega
  · rw [sum_zero_mono _ (csBad p) (csBad (p + D)) hz1 key2,
      sum_zero_mono _ (sfDvW (csBad p)) (sfDvW (csBad (p + D))) hz2 (by
        intro d hd
        unfold sfDvW at hd ⊢
        cases hs : d.spent with
        | true => simp
        | false => rw [hs] at hd; simp only [Bool.false_eq_true, if_false] at hd ⊢; exact key2 d.e hd)]

-- ------------------------------------------------------------------ effect of `putSf` on a weighted sum

theorem putSf_w_found {T} {ms : Mid} (w : SfElem → Nat) (hS : Struct T ms) (hd : TDisj T) {id : Id} (hT : T .sf id)
    (f : SfDiff → SfDiff) (hf : (sfNew ms id f).e.id = id) {d : SfDiff} (hv : ms.sfDiff? id = some d) :
    sfW w (ms.putSf id f) + sfDvW w d = sfW w ms + sfDvW w (sfNew ms id f) := by
  rcases putSf_cases hS hd hT f with ⟨i, d', hl, hi, hid, hv', he⟩ | ⟨hl, hv', he⟩
  · rw [hv] at hv'; cases hv'
    unfold sfNew at hf ⊢; rw [hv] at hf ⊢; simp only [Option.getD_some] at hf ⊢
    rw [he]; unfold sfW Mid.sfIds; simp only []
    rw [map_set_same _ _ _ _ _ hi (by rw [hf, hid])]
    have := sum_map_set ms.sfes (sfDvW w) i (f d) d hi
    omega
  · rw [hv] at hv'; cases hv'

theorem putSf_w_fresh {T} {ms : Mid} (w : SfElem → Nat) (hS : Struct T ms) (hd : TDisj T) {id : Id} (hT : T .sf id)
    (f : SfDiff → SfDiff) (hf : (sfNew ms id f).e.id = id) (hv : ms.sfDiff? id = none) (hb : id ∉ ms.base.sf.map (·.id)) :
    sfW w (ms.putSf id f) = sfW w ms + sfDvW w (sfNew ms id f) := by
  rcases putSf_cases hS hd hT f with ⟨i, d', hl, hi, hid, hv', he⟩ | ⟨hl, hv', he⟩
  · rw [hv] at hv'; cases hv'
  · unfold sfNew at hf ⊢; rw [hv] at hf ⊢; simp only [Option.getD_none] at hf ⊢
    rw [he]; unfold sfW Mid.sfIds; simp only [List.map_append, List.map_cons, List.map_nil, List.sum_append, List.sum_cons, List.sum_nil]
    rw [hf, untouched_append_notin _ _ _ _ hb]
    omega

theorem putSf_w_base {T} {ms : Mid} (w : SfElem → Nat) (hS : Struct T ms) (hd : TDisj T) {id : Id} (hT : T .sf id)
    (f : SfDiff → SfDiff) (hf : (sfNew ms id f).e.id = id) (hv : ms.sfDiff? id = none) {e : SfElem}
    (he : e ∈ ms.base.sf) (heid : e.id = id) (hn : (ms.base.sf.map (·.id)).Nodup) :
    sfW w (ms.putSf id f) + w e = sfW w ms + sfDvW w (sfNew ms id f) := by
  rcases putSf_cases hS hd hT f with ⟨i, d', hl, hi, hid, hv', he'⟩ | ⟨hl, hv', he'⟩
  · rw [hv] at hv'; cases hv'
  · unfold sfNew at hf ⊢; rw [hv] at hf ⊢; simp only [Option.getD_none] at hf ⊢
    rw [he']; unfold sfW Mid.sfIds; simp only [List.map_append, List.map_cons, List.map_nil, List.sum_append, List.sum_cons, List.sum_nil]
    have hni : e.id ∉ ms.sfes.map (·.e.id) := by
      have := hS.not_mem_of_lookup_none (k := .sf) hl
      rw [heid]; exact this
    have := untouched_append_in ms.base.sf (·.id) w (ms.sfes.map (·.e.id)) e hn he hni
    rw [hf, ← heid]
    omega

/-- spending a live siafund element removes exactly its weight -/
theorem spendSf_w {T} {ms : Mid} (w : SfElem → Nat) (hc : Ctx T ms.base) (hI : Inv T ms) {e : SfElem}
    (hs : SpendableSf T ms e) : sfW w (ms.spendSf e) + w e = sfW w ms := by
  obtain ⟨hT, hm⟩ := hs
  unfold Mid.spendSf
  generalize hf : (fun d : SfDiff => ({ d with e := e, spent := true } : SfDiff)) = f
  have hnew : sfNew ms e.id f = { ((ms.sfDiff? e.id).getD default) with e := e, spent := true } := by
    unfold sfNew; rw [← hf]
  have hfid : (sfNew ms e.id f).e.id = e.id := by rw [hnew]
  have e1 : sfW w { ms.putSf e.id f with spends := e.id :: (ms.putSf e.id f).spends } = sfW w (ms.putSf e.id f) :=
    sfW_congr w rfl rfl
  rw [e1]
  have hdv : sfDvW w (sfNew ms e.id f) = 0 := by rw [hnew]; rfl
  cases hv : ms.sfDiff? e.id with
  | none =>
    rw [hv] at hm
    have := putSf_w_base w hI.struct hc.disj hT f hfid hv hm rfl (hc.nodup Kind.sf)
    omega
  | some d =>
    rw [hv] at hm
    have := putSf_w_found w hI.struct hc.disj hT f hfid hv
    have hd : sfDvW w d = w e := by unfold sfDvW; rw [hm.1, hm.2]; rfl
    omega

/-- a new siafund element adds its weight -/
theorem createSf_w {T} {ms : Mid} (w : SfElem → Nat) (hc : Ctx T ms.base) (hI : Inv T ms) {id : Id}
    {R : List (Kind × Id)} (hF : Fresh T ms ((Kind.sf, id) :: R)) (v : Nat) (a : Addr) :
    sfW w (ms.createSf id v a) = sfW w ms + w ⟨id, v, a, ms.pool, none⟩ := by
  obtain ⟨hT, hl, hb⟩ := hF.2 (Kind.sf, id) (List.mem_cons_self)
  simp only [] at hT hl hb
  have hv : ms.sfDiff? id = none := sfDiff?_none_of_lookup hl
  unfold Mid.createSf
  generalize hf : (fun d : SfDiff => ({ d with e := { id := id, value := v, addr := a, claimStart := ms.pool, leaf := none }, created := true } : SfDiff)) = f
  have hnew : sfNew ms id f = ⟨⟨id, v, a, ms.pool, none⟩, true, false⟩ := by
    unfold sfNew; rw [hv, ← hf]; rfl
  have hfid : (sfNew ms id f).e.id = id := by rw [hnew]
  rw [putSf_w_fresh w hI.struct hc.disj hT f hfid hv (hb Kind.sf), hnew]
  rfl

end Sia.Ledger
