import SiaProofs.Lemmas.LedgerC01WF
/-!
# C01 helper lemmas, part 16: leaf indices do not matter

`Mid.commit` leaves the accumulator leaf index of new elements unassigned (the accumulator
assigns it; C04/C05).  Between two blocks of a chain the ledger may therefore be replaced
by one that differs only in `leaf` fields.  Nothing C01 talks about depends on them.
-/
namespace Sia.Ledger

def Ledger.eraseLeaves (L : Ledger) : Ledger :=
  { L with sc := L.sc.map (fun e => { e with leaf := none }), sf := L.sf.map (fun e => { e with leaf := none }),
           fc1 := L.fc1.map (fun e => { e with leaf := none }), fc2 := L.fc2.map (fun e => { e with leaf := none }) }

/-- the two ledgers differ at most in accumulator leaf indices -/
def LeafEq (L L' : Ledger) : Prop := L.eraseLeaves = L'.eraseLeaves

theorem LeafEq.refl (L : Ledger) : LeafEq L L := rfl

theorem V_eraseLeaves (L : Ledger) : V L.eraseLeaves = V L := by
  unfold V Ledger.eraseLeaves; simp only [List.map_map]; rfl

theorem SFtot_eraseLeaves (L : Ledger) : SFtot L.eraseLeaves = SFtot L := by
  unfold SFtot Ledger.eraseLeaves; simp only [List.map_map]; rfl

theorem baseIds_eraseLeaves (L : Ledger) (k : Kind) : baseIds L.eraseLeaves k = baseIds L k := by
  cases k <;> (unfold baseIds Ledger.eraseLeaves; simp only [List.map_map]) <;> rfl

theorem LeafEq.V {L L' : Ledger} (h : LeafEq L L') : V L' = V L := by
  rw [← V_eraseLeaves L', ← V_eraseLeaves L, h]
theorem LeafEq.SFtot {L L' : Ledger} (h : LeafEq L L') : SFtot L' = SFtot L := by
  rw [← SFtot_eraseLeaves L', ← SFtot_eraseLeaves L, h]
theorem LeafEq.child {L L' : Ledger} (h : LeafEq L L') : L'.child = L.child := by
  have := congrArg Ledger.child h; exact this.symm
theorem LeafEq.P {L L' : Ledger} (h : LeafEq L L') : L'.P = L.P := by
  have := congrArg Ledger.P h; exact this.symm

theorem LeafEq.wf {L L' : Ledger} (h : LeafEq L L') (hw : WF L) : WF L' := by
  have hids : ∀ k, baseIds L' k = baseIds L k := fun k => by
    rw [← baseIds_eraseLeaves L' k, ← baseIds_eraseLeaves L k, h]
  constructor
  · simp only [hids]; exact hw.nodup
  · intro e he
    have h1 : ({ e with leaf := none } : Fc1Elem) ∈ L'.eraseLeaves.fc1 := List.mem_map_of_mem (f := fun e => ({ e with leaf := none } : Fc1Elem)) he
    rw [← h] at h1
    obtain ⟨e0, he0, heq⟩ := List.mem_map.mp h1
    have hfc : e0.fc = e.fc := by injection heq
    rw [← hfc]; exact hw.fc1_bal e0 he0
  · intro e he
    have h1 : ({ e with leaf := none } : Fc2Elem) ∈ L'.eraseLeaves.fc2 := List.mem_map_of_mem (f := fun e => ({ e with leaf := none } : Fc2Elem)) he
    rw [← h] at h1
    obtain ⟨e0, he0, heq⟩ := List.mem_map.mp h1
    have hfc : e0.fc = e.fc := by injection heq
    rw [← hfc]; exact hw.fc2_missed e0 he0
  · rw [h.SFtot]; exact hw.sf_bound
  · rw [h.P]; exact hw.params

end Sia.Ledger
