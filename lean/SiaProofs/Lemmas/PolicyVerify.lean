import SiaProofs.Lemmas.PolicyUC
/-! The verifier computes the meaning (C14): the two mutual inductions. -/
namespace Sia.Policy

/-- every timestamp involved is in the range where `time.Time` does not wrap -/
def SaneTimes (E : Env) (ls : List Policy) : Prop :=
  InRange E.median ∧ ∀ t, Policy.after t ∈ ls → InRange t

theorem SaneTimes.left {E : Env} {a b : List Policy} (h : SaneTimes E (a ++ b)) : SaneTimes E a :=
  ⟨h.1, fun t ht => h.2 t (List.mem_append_left _ ht)⟩
theorem SaneTimes.right {E : Env} {a b : List Policy} (h : SaneTimes E (a ++ b)) : SaneTimes E b :=
  ⟨h.1, fun t ht => h.2 t (List.mem_append_right _ ht)⟩

theorem St.eq_iff (a b : St) : a = b ↔ a.sigs = b.sigs ∧ a.pres = b.pres ∧ a.total = b.total := by
  cases a; cases b; simp

mutual
theorem verifyP_iff (E : Env) (p : Policy) (st st' : St)
    (hT : SaneTimes E p.leaves) (hb : p.breadthLe maxChildren = true)
    (hn : st.total + p.subCount ≤ maxPolicies) :
    verifyP E p st = .ok st' ↔
      (Sat E p st.sigs st.pres st'.sigs st'.pres ∧ st'.total = st.total + p.subCount) := by
  match p with
  | .above h =>
    obtain ⟨s, pr, tot⟩ := st
    obtain ⟨s', pr', tot'⟩ := st'
    simp only [verifyP, Sat, Policy.subCount, ge_iff_le, Nat.add_zero]
    split
    · rename_i hh
      simp only [Except.ok.injEq, St.eq_iff, hh, true_and]
      constructor
      · rintro ⟨rfl, rfl, rfl⟩; simp
      · rintro ⟨⟨rfl, rfl⟩, rfl⟩; simp
    · rename_i hh; simp [hh]
  | .after t =>
    have hcmp := timeAfter_iff hT.1 (hT.2 t (by simp [Policy.leaves]))
    obtain ⟨s, pr, tot⟩ := st
    obtain ⟨s', pr', tot'⟩ := st'
    simp only [verifyP, Sat, Policy.subCount, Nat.add_zero]
    split
    · rename_i hh
      simp only [Except.ok.injEq, St.eq_iff, hcmp.1 hh, true_and]
      constructor
      · rintro ⟨rfl, rfl, rfl⟩; simp
      · rintro ⟨⟨rfl, rfl⟩, rfl⟩; simp
    · rename_i hh
      have : ¬ t < E.median := fun h => hh (hcmp.2 h)
      simp [this]
  | .pk k =>
    obtain ⟨s, pr, tot⟩ := st
    obtain ⟨s', pr', tot'⟩ := st'
    simp only [verifyP, Sat, Policy.subCount, Nat.add_zero]
    cases s with
    | nil => simp
    | cons x xs =>
      simp only
      split
      · rename_i hv
        simp only [Except.ok.injEq, St.eq_iff]
        constructor
        · rintro ⟨rfl, rfl, rfl⟩; exact ⟨⟨x, rfl, hv, rfl⟩, rfl⟩
        · rintro ⟨⟨y, hy, _, rfl⟩, rfl⟩
          simp only [List.cons.injEq] at hy
          exact ⟨hy.2, rfl, rfl⟩
      · rename_i hv
        simp only [reduceCtorEq, false_iff, not_and]
        rintro ⟨y, hy, hy2, _⟩
        simp only [List.cons.injEq] at hy
        rw [← hy.1] at hy2; exact absurd hy2 hv
  | .hash h =>
    obtain ⟨s, pr, tot⟩ := st
    obtain ⟨s', pr', tot'⟩ := st'
    simp only [verifyP, Sat, Policy.subCount, Nat.add_zero]
    cases pr with
    | nil => simp
    | cons x xs =>
      simp only
      split
      · rename_i hv
        simp only [Except.ok.injEq, St.eq_iff]
        constructor
        · rintro ⟨rfl, rfl, rfl⟩; exact ⟨⟨x, rfl, hv, rfl⟩, rfl⟩
        · rintro ⟨⟨y, hy, _, rfl⟩, rfl⟩
          simp only [List.cons.injEq] at hy
          exact ⟨rfl, hy.2, rfl⟩
      · rename_i hv
        simp only [reduceCtorEq, false_iff, not_and]
        rintro ⟨y, hy, hy2, _⟩
        simp only [List.cons.injEq] at hy
        rw [← hy.1] at hy2; exact absurd hy2 hv
  | .opaque a => simp [verifyP, Sat]
  | .uc c =>
    obtain ⟨s, pr, tot⟩ := st
    obtain ⟨s', pr', tot'⟩ := st'
    simp only [verifyP, Sat, Policy.subCount, ge_iff_le]
    by_cases hh : c.timelock ≤ E.height
    · simp only [hh, if_true, true_and]
      rw [← ucLoop_ok_iff]
      cases hl : ucLoop E c.publicKeys c.signaturesRequired s with
      | error e => simp
      | ok r =>
        obtain ⟨req, sg⟩ := r
        simp only
        by_cases hr : req = 0
        · subst hr; simp [St.eq_iff]
          constructor
          · rintro ⟨rfl, rfl, rfl⟩; simp
          · rintro ⟨⟨rfl, rfl⟩, rfl⟩; simp
        · simp [hr]
    · simp [hh]
  | .thresh n subs =>
    simp only [Policy.leaves] at hT
    simp only [Policy.breadthLe, Bool.and_eq_true, decide_eq_true_eq] at hb
    simp only [Policy.subCount] at hn ⊢
    simp only [verifyP, Sat]
    have hc : ¬ (st.total + subs.length > maxPolicies ∨ subs.length > maxChildren) := by omega
    simp only [hc, if_false]
    rw [verifySubs_iff E n subs 0 _ st' hT hb.2 (by simp; omega)]
    simp; omega
theorem verifySubs_iff (E : Env) (n : Nat) (subs : List Policy) (sat : Nat) (st st' : St)
    (hT : SaneTimes E (leavesList subs)) (hb : breadthLeList maxChildren subs = true)
    (hn : st.total + subCountList subs ≤ maxPolicies) :
    verifySubs E n subs sat st = .ok st' ↔
      (sat ≤ n ∧ SatSubs E subs (n - sat) st.sigs st.pres st'.sigs st'.pres
        ∧ st'.total = st.total + subCountList subs) := by
  match subs with
  | [] =>
    obtain ⟨s, pr, tot⟩ := st
    obtain ⟨s', pr', tot'⟩ := st'
    simp only [verifySubs, SatSubs, subCountList, Nat.add_zero]
    split
    · rename_i hh
      subst hh
      simp only [Except.ok.injEq, St.eq_iff, Nat.le_refl, Nat.sub_self, true_and]
      constructor
      · rintro ⟨rfl, rfl, rfl⟩; simp
      · rintro ⟨⟨rfl, rfl⟩, rfl⟩; simp
    · rename_i hh
      simp only [reduceCtorEq, false_iff, not_and]
      intro h1 h2; omega
  | c :: rest =>
    simp only [leavesList] at hT
    simp only [breadthLeList, Bool.and_eq_true] at hb
    simp only [subCountList] at hn ⊢
    simp only [verifySubs, SatSubs]
    by_cases huc : c.isUC = true
    · have : c.isOpaque = false := by cases c <;> simp_all [Policy.isUC, Policy.isOpaque]
      simp [huc, this]
    · simp only [huc, Bool.false_eq_true, if_false]
      by_cases hop : c.isOpaque = true
      · have h0 : c.subCount = 0 := by cases c <;> simp_all [Policy.isOpaque, Policy.subCount]
        simp only [hop, if_true]
        rw [verifySubs_iff E n rest sat st st' hT.right hb.2 (by omega)]
        simp [h0]
      · simp only [hop, Bool.false_eq_true, if_false]
        by_cases hs : sat = n
        · subst hs; simp
        · simp only [hs, if_false]
          have hP := fun st1 => verifyP_iff E c st st1 hT.left hb.1 (by omega)
          cases hv : verifyP E c st with
          | error e =>
            simp only
            constructor
            · intro h; cases h
            · rintro ⟨_, ⟨m, s1, p1, _, hsat, _⟩, _⟩
              have := (hP ⟨s1, p1, st.total + c.subCount⟩).2 ⟨hsat, rfl⟩
              rw [hv] at this; cases this
          | ok st1 =>
            simp only
            have h1 := (hP st1).1 hv
            rw [verifySubs_iff E n rest (sat + 1) st1 st' hT.right hb.2 (by omega)]
            constructor
            · rintro ⟨hle, hS, ht⟩
              refine ⟨by omega, ⟨n - (sat + 1), st1.sigs, st1.pres, by omega, h1.1, hS⟩, by omega⟩
            · rintro ⟨hle, ⟨m, s1, p1, hm, hsat, hS⟩, ht⟩
              have h2 := (hP ⟨s1, p1, st.total + c.subCount⟩).2 ⟨hsat, rfl⟩
              rw [hv] at h2
              cases h2
              have : n - (sat + 1) = m := by omega
              rw [this]
              exact ⟨by omega, hS, by simp at ht ⊢; omega⟩
end

end Sia.Policy
