import SiaModel.Codec.Schema
/-! Lemmas about the wire primitives of `SiaModel.Codec.Schema` (helpers for C11 / C10-decode). -/
namespace Sia.Codec

theorem leBytes_length (k n : Nat) : (leBytes k n).length = k := by
  induction k generalizing n with
  | zero => rfl
  | succ k ih => simp [leBytes, ih]

theorem leVal_lt (b : Bytes) : leVal b < 256 ^ b.length := by
  induction b with
  | nil => simp [leVal]
  | cons x xs ih =>
    have hx : x.toNat < 256 := x.toNat_lt
    simp only [leVal, List.length_cons, Nat.pow_succ]
    omega

theorem leVal_leBytes (k n : Nat) : leVal (leBytes k n) = n % 256 ^ k := by
  induction k generalizing n with
  | zero => simp [leBytes, leVal, Nat.mod_one]
  | succ k ih =>
    simp only [leBytes, leVal, ih]
    have h0 : (UInt8.ofNat (n % 256)).toNat = n % 256 := by
      rw [UInt8.toNat_ofNat']; exact Nat.mod_mod _ _
    rw [h0, Nat.pow_succ, Nat.mul_comm (256 ^ k) 256, Nat.mod_mul]

theorem leBytes_leVal (b : Bytes) : leBytes b.length (leVal b) = b := by
  induction b with
  | nil => rfl
  | cons x xs ih =>
    have hx : x.toNat < 256 := x.toNat_lt
    simp only [List.length_cons, leBytes, leVal]
    have h1 : (x.toNat + 256 * leVal xs) % 256 = x.toNat := by omega
    have h2 : (x.toNat + 256 * leVal xs) / 256 = leVal xs := by omega
    rw [h1, h2, ih]
    simp


theorem u64le_length (n : Nat) : (u64le n).length = 8 := leBytes_length 8 n

theorem leVal_u64le {n : Nat} (h : n < W64) : leVal (u64le n) = n := by
  unfold u64le; rw [leVal_leBytes]; exact Nat.mod_eq_of_lt h

/-! ### takeN -/

theorem takeN_append (a r : Bytes) : takeN a.length (a ++ r) = .ok (a, r) := by
  simp [takeN]

theorem takeN_append' {n : Nat} (a r : Bytes) (h : a.length = n) : takeN n (a ++ r) = .ok (a, r) := by
  subst h; exact takeN_append a r

theorem takeN_ok {n : Nat} {bs a r : Bytes} (h : takeN n bs = .ok (a, r)) :
    bs = a ++ r ∧ a.length = n := by
  unfold takeN at h
  split at h
  · injection h with h; injection h with h1 h2
    subst h1; subst h2
    refine ⟨(List.take_append_drop n bs).symm, ?_⟩
    simp; omega
  · cases h

theorem takeN_short {n : Nat} {bs : Bytes} (h : bs.length < n) : takeN n bs = .error .short := by
  unfold takeN; rw [if_neg]; omega

theorem takeN_error {n : Nat} {bs : Bytes} {e : DecErr} (h : takeN n bs = .error e) : e = .short ∧ bs.length < n := by
  unfold takeN at h
  split at h
  · cases h
  · injection h with h; exact ⟨h.symm, by omega⟩

/-! ### readU64 -/

theorem readU64_append {n : Nat} (h : n < W64) (r : Bytes) : readU64 (u64le n ++ r) = .ok (n, r) := by
  unfold readU64
  rw [takeN_append' _ _ (u64le_length n)]
  simp [leVal_u64le h]

theorem readU64_ok {bs r : Bytes} {n : Nat} (h : readU64 bs = .ok (n, r)) :
    bs = u64le n ++ r ∧ n < W64 := by
  unfold readU64 at h
  split at h
  · rename_i a r' h'
    injection h with h; injection h with h1 h2
    obtain ⟨hb, hl⟩ := takeN_ok h'
    subst h1; subst h2
    constructor
    · rw [hb]; congr 1; unfold u64le; rw [← hl, leBytes_leVal]
    · have := leVal_lt a; rw [hl] at this; exact this
  · cases h

theorem readU64_short {bs : Bytes} (h : bs.length < 8) : readU64 bs = .error .short := by
  unfold readU64; rw [takeN_short h]

theorem readU64_error {bs : Bytes} {e : DecErr} (h : readU64 bs = .error e) : e = .short ∧ bs.length < 8 := by
  unfold readU64 at h
  split at h
  · cases h
  · rename_i e' h'; injection h with h; subst h; exact takeN_error h'

/-- a proper prefix of `x ++ y` is a proper prefix of `x`, or `x` followed by a proper prefix of `y` -/
theorem prefix_split {p q x y : Bytes} (h : p ++ q = x ++ y) :
    (∃ q', p ++ q' = x ∧ q' ≠ []) ∨ (∃ p', p = x ++ p' ∧ p' ++ q = y) := by
  rcases List.append_eq_append_iff.mp h with ⟨a, h1, h2⟩ | ⟨c, h1, h2⟩
  · -- x = p ++ a, q = a ++ y
    by_cases ha : a = []
    · subst ha; right; exact ⟨[], by simpa using h1.symm, by simpa using h2⟩
    · left; exact ⟨a, h1.symm, ha⟩
  · right; exact ⟨c, h1, h2.symm⟩


/-! ### V1 currency -/

theorem leVal_append (a b : Bytes) : leVal (a ++ b) = leVal a + 256 ^ a.length * leVal b := by
  induction a with
  | nil => simp [leVal]
  | cons x xs ih =>
    simp only [List.cons_append, leVal, ih, List.length_cons, Nat.pow_succ]
    rw [Nat.mul_add, ← Nat.mul_assoc, Nat.mul_comm 256 (256 ^ xs.length)]
    omega

theorem leVal_zeros (m : Nat) : leVal (zeros m) = 0 := by
  induction m with
  | zero => rfl
  | succ m ih => simp [zeros, List.replicate_succ, leVal] at *; omega

theorem leBytes_zero (m : Nat) : leBytes m 0 = zeros m := by
  induction m with
  | zero => rfl
  | succ m ih => simp [leBytes, zeros, List.replicate_succ] at *; exact ih

theorem leBytes_leVal_pad (l : Bytes) (m : Nat) : leBytes (l.length + m) (leVal l) = l ++ zeros m := by
  induction l with
  | nil => simp [leVal, leBytes_zero]
  | cons x xs ih =>
    have hx : x.toNat < 256 := x.toNat_lt
    have e : (x :: xs).length + m = (xs.length + m) + 1 := by simp; omega
    rw [e]
    simp only [leBytes, leVal]
    have h1 : (x.toNat + 256 * leVal xs) % 256 = x.toNat := by omega
    have h2 : (x.toNat + 256 * leVal xs) / 256 = leVal xs := by omega
    rw [h1, h2, ih]
    simp

theorem beVal_lt (a : Bytes) : beVal a < 256 ^ a.length := by
  have := leVal_lt a.reverse; simpa [beVal] using this

theorem beVal_be16 {n : Nat} (h : n < W128) : beVal (be16 n) = n := by
  simp only [beVal, be16, List.reverse_reverse, leVal_leBytes]
  exact Nat.mod_eq_of_lt h

theorem beVal_zero_cons (bs : Bytes) : beVal (0 :: bs) = beVal bs := by
  simp [beVal, leVal_append, leVal]

theorem beVal_trimZeros (bs : Bytes) : beVal (trimZeros bs) = beVal bs := by
  induction bs with
  | nil => rfl
  | cons x xs ih =>
    unfold trimZeros at *
    by_cases hx : x = 0
    · subst hx; simp only [List.dropWhile_cons, beq_self_eq_true, ↓reduceIte]; rw [ih, beVal_zero_cons]
    · have : (x == 0) = false := by simpa using hx
      simp [this]

theorem trimZeros_length_le (bs : Bytes) : (trimZeros bs).length ≤ bs.length := by
  unfold trimZeros
  induction bs with
  | nil => simp
  | cons x xs ih => simp only [List.dropWhile_cons]; split <;> simp <;> omega

theorem trimZeros_head (bs : Bytes) : (trimZeros bs).head? ≠ some 0 := by
  unfold trimZeros
  induction bs with
  | nil => simp
  | cons x xs ih =>
    simp only [List.dropWhile_cons]
    split
    · exact ih
    · rename_i h; simp at h; simpa using h

theorem trimZeros_zeros_append (m : Nat) (a : Bytes) : trimZeros (zeros m ++ a) = trimZeros a := by
  induction m with
  | zero => rfl
  | succ m ih => simp [zeros, List.replicate_succ, trimZeros] at *

theorem trimZeros_id {a : Bytes} (h : a.head? ≠ some 0) : trimZeros a = a := by
  cases a with
  | nil => rfl
  | cons x xs =>
    have : (x == 0) = false := by simpa using h
    simp [trimZeros, this]

theorem be16_length (n : Nat) : (be16 n).length = 16 := by simp [be16, leBytes_length]

theorem be16_beVal {a : Bytes} (h : a.length ≤ 16) : be16 (beVal a) = zeros (16 - a.length) ++ a := by
  unfold be16 beVal
  have e : 16 = a.reverse.length + (16 - a.length) := by simp; omega
  conv => lhs; rw [e, leBytes_leVal_pad]
  simp [zeros]

theorem encCur1_length_ge (n : Nat) : 8 ≤ (encCur1 n).length := by
  simp [encCur1, u64le_length]

theorem readCur1_append (st : Bool) {n : Nat} (h : n < W128) (r : Bytes) :
    readCur1 st (encCur1 n ++ r) = .ok (n, r) := by
  have hl : (trimZeros (be16 n)).length ≤ 16 := by
    have := trimZeros_length_le (be16 n); rw [be16_length] at this; exact this
  have hl2 : (trimZeros (be16 n)).length < W64 := by unfold W64; omega
  unfold readCur1 encCur1
  simp only [List.append_assoc]
  rw [readU64_append hl2]
  simp only
  rw [if_neg (by omega), takeN_append]
  simp only
  have hh := trimZeros_head (be16 n)
  have : ((trimZeros (be16 n)).head? == some 0) = false := by simpa using hh
  rw [this, Bool.and_false]
  simp [beVal_trimZeros, beVal_be16 h]

theorem readCur1_ok {st : Bool} {bs r : Bytes} {n : Nat} (h : readCur1 st bs = .ok (n, r)) :
    n < W128 ∧ ∃ a, bs = u64le a.length ++ a ++ r ∧ a.length ≤ 16 ∧ n = beVal a ∧
      (st = true → a.head? ≠ some 0) := by
  unfold readCur1 at h
  split at h
  · rename_i m r1 h1
    obtain ⟨hb, hm⟩ := readU64_ok h1
    split at h
    · cases h
    · rename_i hm16
      split at h
      · rename_i a r2 h2
        obtain ⟨hb2, hl⟩ := takeN_ok h2
        split at h
        · cases h
        · rename_i hs
          injection h with h; injection h with e1 e2
          subst e2
          have hl16 : a.length ≤ 16 := by omega
          refine ⟨?_, a, ?_, hl16, e1.symm, ?_⟩
          · rw [← e1]
            have := beVal_lt a
            have h2 : 256 ^ a.length ≤ 256 ^ 16 := Nat.pow_le_pow_right (by omega) hl16
            unfold W128; omega
          · rw [hb, hb2, hl]; simp
          · intro hst; subst hst; simpa using hs
      · cases h
  · cases h

theorem readCur1_strict_enc {bs r : Bytes} {n : Nat} (h : readCur1 true bs = .ok (n, r)) :
    encCur1 n ++ r = bs := by
  obtain ⟨_, a, hb, hl, hn, hh⟩ := readCur1_ok h
  subst hn
  unfold encCur1
  rw [be16_beVal hl, trimZeros_zeros_append, trimZeros_id (hh rfl), hb]

theorem readCur1_strict_lax {bs : Bytes} {x : Nat × Bytes} (h : readCur1 true bs = .ok x) :
    readCur1 false bs = .ok x := by
  unfold readCur1 at *
  split at h
  · split at h
    · cases h
    · split at h
      · split at h
        · cases h
        · simp_all
      · cases h
  · cases h

end Sia.Codec
