import SiaModel.Text.Policy
import SiaProofs.Lemmas.TextQuote
/-! Helper lemmas for C20: the tokenizer and parser of ParseSpendPolicy on printed policies. -/
namespace Sia.Text

/-! ## trimming -/

/-- the text does not end in (ASCII) white space -/
def EndsOK (s : Txt) : Prop := s = [] ∨ ∃ init c, s = init ++ [c] ∧ isSpace c = false

theorem EndsOK.suffix {a b : Txt} (h : EndsOK (a ++ b)) : EndsOK b := by
  by_cases hb : b = []
  · left; exact hb
  · right
    rcases h with h | ⟨init, c, h, hc⟩
    · simp at h; exact absurd h.2 hb
    · obtain ⟨b', l, rfl⟩ : ∃ b' l, b = b' ++ [l] := ⟨b.dropLast, b.getLast hb, (List.dropLast_concat_getLast hb).symm⟩
      rw [← List.append_assoc] at h
      have := List.append_inj' h rfl
      simp at this
      exact ⟨b', l, rfl, by rw [this.2]; exact hc⟩

theorem EndsOK.tail {c : UInt8} {s : Txt} (h : EndsOK (c :: s)) : EndsOK s :=
  EndsOK.suffix (a := [c]) (by simpa using h)

theorem EndsOK.snoc (init : Txt) (c : UInt8) (hc : isSpace c = false) : EndsOK (init ++ [c]) :=
  Or.inr ⟨init, c, rfl, hc⟩

theorem EndsOK.append_left (a : Txt) {b : Txt} (h : EndsOK b) (hb : b ≠ []) : EndsOK (a ++ b) := by
  rcases h with h | ⟨init, c, rfl, hc⟩
  · exact absurd h hb
  · exact Or.inr ⟨a ++ init, c, by simp, hc⟩

theorem trimLeft_id (c : UInt8) (s : Txt) (h : isSpace c = false) : trimLeft (c :: s) = c :: s := by
  simp [trimLeft, h]

theorem trimRight_id {s : Txt} (h : EndsOK s) : trimRight s = s := by
  rcases h with rfl | ⟨init, c, rfl, hc⟩
  · rfl
  · simp [trimRight, trimLeft, hc]

/-- a text that starts with a non-blank and does not end in a blank is its own TrimSpace -/
theorem trimSpace_id (c : UInt8) (s : Txt) (hc : isSpace c = false) (h : EndsOK (c :: s)) :
    trimSpace (c :: s) = c :: s := by
  unfold trimSpace
  rw [trimLeft_id c s hc, trimRight_id h]

theorem trimSpace_nil : trimSpace [] = [] := rfl

/-! ## delimiters -/

def stdDelims : List UInt8 := [40, 41, 44, 91, 93]

def isDelim (c : UInt8) : Bool := stdDelims.contains c

theorem splitAny_tok (tok : Txt) (d : UInt8) (r : Txt) (ht : ∀ c ∈ tok, isDelim c = false) (hd : isDelim d = true) :
    splitAny stdDelims (tok ++ d :: r) = some (tok, d :: r) := by
  induction tok with
  | nil =>
    have hd' : stdDelims.contains d = true := hd
    simp only [List.nil_append, splitAny, hd', if_true]
  | cons c cs ih =>
    have hc : stdDelims.contains c = false := ht c (by simp)
    have := ih (fun x hx => ht x (by simp [hx]))
    simp only [List.cons_append, splitAny, hc, this]
    simp

theorem isDelim_not_space {d : UInt8} (h : isDelim d = true) : isSpace d = false := by
  unfold isDelim stdDelims at h
  simp at h
  rcases h with rfl | rfl | rfl | rfl | rfl <;> decide

/-- a token: free of delimiters, and trimming leaves it alone -/
structure TokOK (tok : Txt) : Prop where
  nodelim : ∀ c ∈ tok, isDelim c = false
  tight : trimSpace tok = tok
  start : ∀ c rest, tok = c :: rest → isSpace c = false

theorem tokOK_of_nospace (tok : Txt) (h1 : ∀ c ∈ tok, isDelim c = false) (h2 : ∀ c ∈ tok, isSpace c = false) : TokOK tok := by
  refine ⟨h1, ?_, fun c rest e => h2 c (by simp [e])⟩
  match tok, h2 with
  | [], _ => rfl
  | c :: cs, h2 =>
    apply trimSpace_id c cs (h2 c (by simp))
    have hne : (c :: cs) ≠ [] := by simp
    exact Or.inr ⟨(c :: cs).dropLast, (c :: cs).getLast hne, (List.dropLast_concat_getLast hne).symm,
      h2 _ (List.getLast_mem hne)⟩

variable {cfg : Cfg}

theorem nextToken_tok (hcfg : cfg.delims = stdDelims) (tok : Txt) (d : UInt8) (r : Txt) (ht : TokOK tok)
    (hd : isDelim d = true) (he : EndsOK (d :: r)) :
    nextToken cfg ⟨tok ++ d :: r, false⟩ = (tok, ⟨d :: r, false⟩) := by
  have htrim : trimSpace (tok ++ d :: r) = tok ++ d :: r := by
    match tok, ht with
    | [], _ => exact trimSpace_id d r (isDelim_not_space hd) he
    | c :: cs, ht =>
      exact trimSpace_id c (cs ++ d :: r) (ht.start c cs rfl) (EndsOK.append_left (c :: cs) he (by simp))
  simp only [nextToken, htrim, hcfg, splitAny_tok tok d r ht.nodelim hd, ht.tight]
  simp

theorem consume_ok (d : UInt8) (r : Txt) (hd : isSpace d = false) (he : EndsOK (d :: r)) :
    consume d ⟨d :: r, false⟩ = ⟨r, false⟩ := by
  simp [consume, trimSpace_id d r hd he]

theorem peek_ok (d : UInt8) (r : Txt) (hd : isSpace d = false) (he : EndsOK (d :: r)) :
    peek ⟨d :: r, false⟩ = (d, ⟨d :: r, false⟩) := by
  simp [peek, trimSpace_id d r hd he]

/-! ## the kinds of token SpendPolicy.String writes -/

theorem byte_plain {c : UInt8} (h : (48 ≤ c.toNat ∧ c.toNat ≤ 57) ∨ (65 ≤ c.toNat ∧ c.toNat ≤ 90) ∨ (97 ≤ c.toNat ∧ c.toNat ≤ 122) ∨ c.toNat = 45 ∨ c.toNat = 58 ∨ c.toNat = 34) :
    isDelim c = false ∧ isSpace c = false := by
  have hb := c.toNat_lt
  constructor
  · unfold isDelim stdDelims
    simp
    refine ⟨?_, ?_, ?_, ?_, ?_⟩ <;> apply ne_of_toNat_ne <;> simp <;> omega
  · simp [isSpace]
    constructor
    · apply ne_of_toNat_ne; simp; omega
    · omega

theorem tokOK_natToDec (n : Nat) : TokOK (natToDec n) := by
  apply tokOK_of_nospace
  · intro c hc; have := isDigit_range (natToDec_digits n c hc); exact (byte_plain (Or.inl this)).1
  · intro c hc; have := isDigit_range (natToDec_digits n c hc); exact (byte_plain (Or.inl this)).2

theorem tokOK_intToDec (t : Int) : TokOK (intToDec t) := by
  unfold intToDec
  split
  · apply tokOK_of_nospace
    · intro c hc
      simp at hc
      rcases hc with rfl | hc
      · decide
      · have := isDigit_range (natToDec_digits _ c hc); exact (byte_plain (Or.inl this)).1
    · intro c hc
      simp at hc
      rcases hc with rfl | hc
      · decide
      · have := isDigit_range (natToDec_digits _ c hc); exact (byte_plain (Or.inl this)).2
  · exact tokOK_natToDec _

theorem hex_plain {c : UInt8} (h : isHex c = true) : isDelim c = false ∧ isSpace c = false := by
  rcases isHex_range h with h | h | h
  · exact byte_plain (Or.inl h)
  · exact byte_plain (Or.inr (Or.inr (Or.inl (by omega))))
  · exact byte_plain (Or.inr (Or.inl (by omega)))

theorem tokOK_hex0x (k : List UInt8) : TokOK (hex0x k) := by
  unfold hex0x
  apply tokOK_of_nospace
  · intro c hc
    simp at hc
    rcases hc with rfl | rfl | hc
    · decide
    · decide
    · exact (hex_plain (hexEnc_isHex k c hc)).1
  · intro c hc
    simp at hc
    rcases hc with rfl | rfl | hc
    · decide
    · decide
    · exact (hex_plain (hexEnc_isHex k c hc)).2

theorem tokOK_kw : TokOK kwAbove ∧ TokOK kwAfter ∧ TokOK kwPk ∧ TokOK kwH ∧ TokOK kwThresh ∧ TokOK kwOpaque ∧ TokOK kwUc :=
  ⟨tokOK_of_nospace _ (by decide) (by decide), tokOK_of_nospace _ (by decide) (by decide),
   tokOK_of_nospace _ (by decide) (by decide), tokOK_of_nospace _ (by decide) (by decide),
   tokOK_of_nospace _ (by decide) (by decide), tokOK_of_nospace _ (by decide) (by decide),
   tokOK_of_nospace _ (by decide) (by decide)⟩

/-- the first byte of a specifier's text is alphanumeric or the opening quote -/
theorem specString_head (hi : Nat → Bool) (s : List UInt8) (c : UInt8) (rest : Txt)
    (h : specString hi s = c :: rest) : isSpace c = false := by
  unfold specString at h
  simp only at h
  split at h
  · rename_i hal
    have : isAlnum c = true := by
      rw [h] at hal; simp at hal; exact hal.1
    simp [isAlnum] at this
    exact (byte_plain (by omega)).2
  · unfold quote at h
    simp at h
    rw [← h.1]; decide

/-- an unlock key's text is a token as soon as it contains no delimiter -/
theorem tokOK_ukText (hi : Nat → Bool) (uk : UnlockKey) (h : ∀ c ∈ ukText hi uk, isDelim c = false) :
    TokOK (ukText hi uk) := by
  have hstart : ∀ c rest, ukText hi uk = c :: rest → isSpace c = false := by
    intro c rest e
    unfold ukText at e
    match hq : specString hi uk.alg with
    | [] => rw [hq] at e; simp at e; rw [← e.1]; decide
    | x :: xs =>
      rw [hq] at e; simp at e
      rw [← e.1]; exact specString_head hi uk.alg x xs hq
  have hend : EndsOK (ukText hi uk) := by
    unfold ukText
    by_cases hk : hexEnc uk.key = []
    · rw [hk]; exact EndsOK.snoc _ 58 (by decide)
    · have hl := List.getLast_mem hk
      have := (hex_plain (hexEnc_isHex uk.key _ hl)).2
      have e : specString hi uk.alg ++ 58 :: hexEnc uk.key
          = (specString hi uk.alg ++ 58 :: (hexEnc uk.key).dropLast) ++ [(hexEnc uk.key).getLast hk] := by
        simp [List.dropLast_concat_getLast hk]
      rw [e]; exact EndsOK.snoc _ _ this
  refine ⟨h, ?_, hstart⟩
  match hq : ukText hi uk with
  | [] => rfl
  | c :: cs =>
    rw [hq] at hend
    exact trimSpace_id c cs (hstart c cs hq) hend

/-- a key whose algorithm specifier is alphanumeric (so printed unquoted) is always a safe token -/
theorem ukText_safe_of_alnum (hi : Nat → Bool) (k : UnlockKey) (h : (trimZeros k.alg).all isAlnum = true) :
    ∀ c ∈ ukText hi k, isDelim c = false := by
  intro c hc
  unfold ukText specString at hc
  simp only [h, if_true] at hc
  simp at hc
  rcases hc with hc | rfl | hc
  · have : isAlnum c = true := by
      have := List.all_eq_true.mp h c hc
      exact this
    simp [isAlnum] at this
    exact (byte_plain (by omega)).1
  · decide
  · exact (hex_plain (hexEnc_isHex k.key c hc)).1


/-! ## the parser's leaf readers on printed tokens -/

section
variable (hcfg : cfg.delims = stdDelims)
include hcfg

theorem parseIntTok_ok (bits n : Nat) (hn : n < 2 ^ bits) (d : UInt8) (r : Txt) (hd : isDelim d = true)
    (he : EndsOK (d :: r)) :
    parseIntTok cfg bits ⟨natToDec n ++ d :: r, false⟩ = (n, ⟨d :: r, false⟩) := by
  simp [parseIntTok, nextToken_tok hcfg _ d r (tokOK_natToDec n) hd he, parseUint_natToDec bits n hn]

theorem parseTimeTok_ok (t : Int) (h1 : -(2 ^ 63 : Int) ≤ t) (h2 : t < 2 ^ 63) (d : UInt8) (r : Txt)
    (hd : isDelim d = true) (he : EndsOK (d :: r)) :
    parseTimeTok cfg ⟨intToDec t ++ d :: r, false⟩ = (t, ⟨d :: r, false⟩) := by
  simp [parseTimeTok, nextToken_tok hcfg _ d r (tokOK_intToDec t) hd he, parseInt64_intToDec t h1 h2]

theorem parseHexTok_ok (k : List UInt8) (hk : k.length = 32) (d : UInt8) (r : Txt)
    (hd : isDelim d = true) (he : EndsOK (d :: r)) :
    parseHexTok cfg ⟨hex0x k ++ d :: r, false⟩ = (k, ⟨d :: r, false⟩) := by
  simp only [parseHexTok, nextToken_tok hcfg _ d r (tokOK_hex0x k) hd he]
  simp [hex0x, hexDec_hexEnc, hexEnc_length, hk]

omit hcfg in
theorem quotedPrefix_quote (hi : Nat → Bool) (b tail : Txt) :
    quotedPrefix (quote hi b ++ tail) = some (quote hi b, tail) := by
  have e : quote hi b ++ tail = 34 :: (quoteBody hi b.length b ++ 34 :: tail) := by simp [quote]
  rw [e]
  simp only [quotedPrefix]
  rw [unquoteLoop_quoteBody hi b.length b (Nat.le_refl _) tail [] _ (by simp)]
  simp only [Option.some.injEq, Prod.mk.injEq, and_true]
  rw [← e]
  have : (quote hi b ++ tail).length - tail.length = (quote hi b).length := by simp
  rw [this, List.take_left']
  rfl

omit hcfg in
theorem quotedPrefix_none (c : UInt8) (t : Txt) (h : c ≠ 34) : quotedPrefix (c :: t) = none := by
  unfold quotedPrefix
  split
  · rename_i rest heq
    simp at heq
    exact absurd heq.1 h
  · rfl

/-- the unlock-key reader on a printed key.  With the quoted-prefix step the printed key
    is always read back; without it the key text must be free of delimiters. -/
theorem parseKeyTok_ok (hi : Nat → Bool) (uk : UnlockKey) (hlen : uk.alg.length = cfg.specLen)
    (hq : cfg.quotedKeys = true ∨ ∀ c ∈ ukText hi uk, isDelim c = false) (d : UInt8) (r : Txt)
    (hd : isDelim d = true) (he : EndsOK (d :: r)) :
    parseKeyTok cfg ⟨ukText hi uk ++ d :: r, false⟩ = (uk, ⟨d :: r, false⟩) := by
  have old : (∀ c ∈ ukText hi uk, isDelim c = false) →
      (match nextToken cfg ⟨ukText hi uk ++ d :: r, false⟩ with
        | (t, st) => if st.err = true then ((⟨[], []⟩ : UnlockKey), st)
          else match parseUk cfg.specLen ([] ++ t) with
            | some uk => (uk, st)
            | none => (⟨[], []⟩, { st with err := true })) = (uk, ⟨d :: r, false⟩) := by
    intro hsafe
    simp [nextToken_tok hcfg _ d r (tokOK_ukText hi uk hsafe) hd he, parseUk_ukText hi _ uk hlen]
  by_cases hflag : cfg.quotedKeys = true
  · have hE : EndsOK (ukText hi uk ++ d :: r) := EndsOK.append_left _ he (by simp)
    by_cases hal : (trimZeros uk.alg).all isAlnum = true
    · -- unquoted specifier: no quoted prefix, and the token is delimiter-free by itself
      have hsafe := ukText_safe_of_alnum hi uk hal
      obtain ⟨c, cs, hc⟩ : ∃ c cs, ukText hi uk = c :: cs := by
        cases h : ukText hi uk with
        | nil => simp [ukText] at h
        | cons c cs => exact ⟨c, cs, rfl⟩
      have hsp := (tokOK_ukText hi uk hsafe).start c cs hc
      have hne : c ≠ 34 := by
        intro e
        have hc' := hc
        unfold ukText specString at hc'
        simp only [hal, if_true] at hc'
        cases hb : trimZeros uk.alg with
        | nil => rw [hb] at hc'; simp at hc'; rw [e] at hc'; exact absurd hc'.1 (by decide)
        | cons x xs =>
          rw [hb] at hc' hal; simp at hc' hal
          have := isAlnum_ne_quote hal.1
          rw [hc'.1, e] at this; exact this rfl
      have htrim : trimSpace (ukText hi uk ++ d :: r) = ukText hi uk ++ d :: r := by
        rw [hc] at hE ⊢; exact trimSpace_id c _ hsp hE
      have hnone : quotedPrefix (ukText hi uk ++ d :: r) = none := by
        rw [hc]; exact quotedPrefix_none c _ hne
      simp only [parseKeyTok, hflag, if_true, htrim, Bool.false_eq_true, if_false, hnone]
      exact old hsafe
    · -- quoted specifier: the quoted prefix is lifted off, the rest is ":<hex>"
      have hspec : specString hi uk.alg = quote hi (trimZeros uk.alg) := by
        unfold specString; simp only [hal]; rfl
      have e : ukText hi uk ++ d :: r = quote hi (trimZeros uk.alg) ++ ((58 :: hexEnc uk.key) ++ d :: r) := by
        simp [ukText, hspec]
      have htrim : trimSpace (ukText hi uk ++ d :: r) = ukText hi uk ++ d :: r := by
        have hcs : ukText hi uk ++ d :: r
            = 34 :: (quoteBody hi (trimZeros uk.alg).length (trimZeros uk.alg) ++ 34 :: (58 :: hexEnc uk.key ++ d :: r)) := by
          rw [e]; simp [quote]
        rw [hcs] at hE ⊢; exact trimSpace_id 34 _ (by decide) hE
      have htok : TokOK (58 :: hexEnc uk.key) := by
        apply tokOK_of_nospace
        · intro c hc; simp at hc
          rcases hc with rfl | hc
          · decide
          · exact (hex_plain (hexEnc_isHex _ c hc)).1
        · intro c hc; simp at hc
          rcases hc with rfl | hc
          · decide
          · exact (hex_plain (hexEnc_isHex _ c hc)).2
      have hfin : quote hi (trimZeros uk.alg) ++ 58 :: hexEnc uk.key = ukText hi uk := by simp [ukText, hspec]
      simp only [parseKeyTok, hflag, if_true, htrim, Bool.false_eq_true, if_false]
      rw [e, quotedPrefix_quote]
      simp only [nextToken_tok hcfg _ d r htok hd he, Bool.false_eq_true, if_false, hfin,
        parseUk_ukText hi _ uk hlen]
  · have hsafe : ∀ c ∈ ukText hi uk, isDelim c = false := by
      rcases hq with h | h
      · exact absurd h hflag
      · exact h
    simp only [parseKeyTok, hflag, Bool.false_eq_true, if_false]
    exact old hsafe

end

/-! ## well-formedness of policy values, and the two exclusions -/

mutual
  /-- every field fits its Go type (uint64 heights/timelocks/counts, uint8 threshold,
      int64 Unix seconds, 32-byte keys/hashes/addresses, 16-byte specifiers) -/
  def Policy.WF : Policy → Prop
    | .above h => h < 2 ^ 64
    | .after t => -(2 ^ 63 : Int) ≤ t ∧ t < 2 ^ 63
    | .pk k => k.length = 32
    | .hash h => h.length = 32
    | .thresh n ps => n < 2 ^ 8 ∧ PolicyList.WF ps
    | .opaque a => a.length = 32
    | .uc tl ks sg => tl < 2 ^ 64 ∧ sg < 2 ^ 64 ∧ ∀ k ∈ ks, k.alg.length = 16
  def PolicyList.WF : PolicyList → Prop
    | .nil => True
    | .cons p ps => Policy.WF p ∧ PolicyList.WF ps
end

mutual
  /-- exclusion F2: every `uc` signature count fits the bit size the parser uses -/
  def Policy.SigFits (bits : Nat) : Policy → Prop
    | .thresh _ ps => PolicyList.SigFits bits ps
    | .uc _ _ sg => sg < 2 ^ bits
    | _ => True
  def PolicyList.SigFits (bits : Nat) : PolicyList → Prop
    | .nil => True
    | .cons p ps => Policy.SigFits bits p ∧ PolicyList.SigFits bits ps
end

mutual
  /-- exclusion F3: no `uc` key text contains one of the tokenizer's delimiters
      (hex and alphanumeric specifiers never do; a quoted specifier may) -/
  def Policy.KeysSafe (hi : Nat → Bool) : Policy → Prop
    | .thresh _ ps => PolicyList.KeysSafe hi ps
    | .uc _ ks _ => ∀ k ∈ ks, ∀ c ∈ ukText hi k, isDelim c = false
    | _ => True
  def PolicyList.KeysSafe (hi : Nat → Bool) : PolicyList → Prop
    | .nil => True
    | .cons p ps => Policy.KeysSafe hi p ∧ PolicyList.KeysSafe hi ps
end

mutual
  def Policy.size : Policy → Nat
    | .thresh _ ps => 1 + PolicyList.size ps
    | _ => 1
  def PolicyList.size : PolicyList → Nat
    | .nil => 1
    | .cons p ps => 1 + Policy.size p + PolicyList.size ps
end

/-- the parser configuration the proofs are written for (shown of `goCfg` by `tie_policy_cfg`) -/
structure CfgStd (cfg : Cfg) : Prop where
  delims : cfg.delims = stdDelims
  above : cfg.aboveBits = 64
  thresh : cfg.threshBits = 8
  timelock : cfg.ucTimelockBits = 64
  spec : cfg.specLen = 16

/-! ## the key list of a `uc` policy -/

theorem ukText_ne_nil (hi : Nat → Bool) (k : UnlockKey) : ukText hi k ≠ [] := by
  unfold ukText; simp

theorem ukText_head_not_close (hi : Nat → Bool) (k : UnlockKey) :
    ∃ c cs, ukText hi k = c :: cs ∧ c ≠ 93 ∧ isSpace c = false := by
  by_cases hal : (trimZeros k.alg).all isAlnum = true
  · have h := ukText_safe_of_alnum hi k hal
    match hq : ukText hi k with
    | [] => exact absurd hq (ukText_ne_nil hi k)
    | c :: cs =>
      refine ⟨c, cs, rfl, ?_, (tokOK_ukText hi k h).start c cs hq⟩
      intro e
      have := h c (by rw [hq]; simp)
      rw [e] at this
      exact absurd this (by decide)
  · refine ⟨34, quoteBody hi (trimZeros k.alg).length (trimZeros k.alg) ++ 34 :: 58 :: hexEnc k.key, ?_, by decide, by decide⟩
    unfold ukText specString
    simp only [hal]
    simp [quote]


theorem parseKeys_ok (hcfg : cfg.delims = stdDelims) (hi : Nat → Bool) :
    ∀ (ks : List UnlockKey) (fuel : Nat) (r : Txt), ks.length + 1 ≤ fuel →
    (∀ k ∈ ks, k.alg.length = cfg.specLen) →
    (cfg.quotedKeys = true ∨ ∀ k ∈ ks, ∀ c ∈ ukText hi k, isDelim c = false) →
    EndsOK (93 :: r) →
    parseKeys cfg fuel ⟨joinKeys hi ks ++ 93 :: r, false⟩ = (ks, ⟨93 :: r, false⟩) := by
  intro ks
  induction ks with
  | nil =>
    intro fuel r hf _ _ he
    obtain ⟨f, rfl⟩ : ∃ f, fuel = f + 1 := ⟨fuel - 1, by omega⟩
    simp [parseKeys, joinKeys, peek_ok 93 r (by decide) he]
  | cons k ks ih =>
    intro fuel r hf hlen hsafe he
    obtain ⟨f, rfl⟩ : ∃ f, fuel = f + 1 := ⟨fuel - 1, by omega⟩
    obtain ⟨c, cs, hc, hne, hsp⟩ := ukText_head_not_close hi k
    have hk1 := hlen k (by simp)
    have hk2 : cfg.quotedKeys = true ∨ ∀ c ∈ ukText hi k, isDelim c = false :=
      hsafe.imp id (fun h => h k (by simp))
    match ks, ih with
    | [], ih =>
      have e0 : joinKeys hi [k] ++ 93 :: r = ukText hi k ++ 93 :: r := rfl
      have hE : EndsOK (ukText hi k ++ 93 :: r) := EndsOK.append_left _ he (by simp)
      have hp : peek ⟨ukText hi k ++ 93 :: r, false⟩ = (c, ⟨ukText hi k ++ 93 :: r, false⟩) := by
        rw [hc] at hE ⊢; exact peek_ok c _ hsp hE
      have hnil := ih f r (by simp at hf ⊢; omega) (by simp) (Or.inr (by simp)) he
      simp only [joinKeys, List.nil_append] at hnil
      rw [e0]
      simp only [parseKeys, Bool.false_eq_true, if_false, hp, hne,
        parseKeyTok_ok hcfg hi k hk1 hk2 93 r (by decide) he, peek_ok 93 r (by decide) he]
      simp [hnil]
    | k' :: ks', ih =>
      have e0 : joinKeys hi (k :: k' :: ks') ++ 93 :: r = ukText hi k ++ 44 :: (joinKeys hi (k' :: ks') ++ 93 :: r) := by
        simp [joinKeys]
      have he2 : EndsOK (44 :: (joinKeys hi (k' :: ks') ++ 93 :: r)) := by
        have : 44 :: (joinKeys hi (k' :: ks') ++ 93 :: r) = (44 :: joinKeys hi (k' :: ks')) ++ 93 :: r := by simp
        rw [this]; exact EndsOK.append_left _ he (by simp)
      have hE : EndsOK (ukText hi k ++ 44 :: (joinKeys hi (k' :: ks') ++ 93 :: r)) := EndsOK.append_left _ he2 (by simp)
      have hp : peek ⟨ukText hi k ++ 44 :: (joinKeys hi (k' :: ks') ++ 93 :: r), false⟩
          = (c, ⟨ukText hi k ++ 44 :: (joinKeys hi (k' :: ks') ++ 93 :: r), false⟩) := by
        rw [hc] at hE ⊢; exact peek_ok c _ hsp hE
      have hrec := ih f r (by simp at hf ⊢; omega) (fun x hx => hlen x (by simp [hx])) (hsafe.imp id (fun h x hx => h x (by simp [hx]))) he
      rw [e0]
      simp only [parseKeys, Bool.false_eq_true, if_false, hp, hne,
        parseKeyTok_ok hcfg hi k hk1 hk2 44 _ (by decide) he2, peek_ok 44 _ (by decide) he2,
        consume_ok 44 _ (by decide) he2]
      simp [hrec]

/-! ## the recursive-descent parser on a printed policy -/

theorem EndsOK.cons (d : UInt8) {t : Txt} (hd : isSpace d = false) (h : EndsOK t) : EndsOK (d :: t) := by
  by_cases ht : t = []
  · subst ht; exact EndsOK.snoc [] d hd
  · exact EndsOK.append_left [d] h ht

theorem kw_ne : kwAfter ≠ kwAbove ∧ kwPk ≠ kwAbove ∧ kwPk ≠ kwAfter ∧ kwH ≠ kwAbove ∧ kwH ≠ kwAfter ∧ kwH ≠ kwPk
    ∧ kwThresh ≠ kwAbove ∧ kwThresh ≠ kwAfter ∧ kwThresh ≠ kwPk ∧ kwThresh ≠ kwH
    ∧ kwOpaque ≠ kwAbove ∧ kwOpaque ≠ kwAfter ∧ kwOpaque ≠ kwPk ∧ kwOpaque ≠ kwH ∧ kwOpaque ≠ kwThresh
    ∧ kwUc ≠ kwAbove ∧ kwUc ≠ kwAfter ∧ kwUc ≠ kwPk ∧ kwUc ≠ kwH ∧ kwUc ≠ kwThresh ∧ kwUc ≠ kwOpaque := by decide

theorem joinKeys_length (hi : Nat → Bool) (ks : List UnlockKey) : ks.length ≤ (joinKeys hi ks).length := by
  induction ks with
  | nil => simp [joinKeys]
  | cons k ks ih =>
    have : 1 ≤ (ukText hi k).length := by
      have := ukText_ne_nil hi k
      cases h : ukText hi k with
      | nil => exact absurd h this
      | cons _ _ => simp
    cases ks with
    | nil => simpa [joinKeys] using this
    | cons k' ks' => simp [joinKeys] at ih ⊢; omega

/-- the first byte of a printed policy is a lower-case letter -/
theorem str_head (hi : Nat → Bool) (p : Policy) :
    ∃ c cs, Policy.str hi p = c :: cs ∧ c ≠ 93 ∧ isSpace c = false := by
  cases p <;> simp only [Policy.str, kwAbove, kwAfter, kwPk, kwH, kwThresh, kwOpaque, kwUc, List.cons_append] <;>
    exact ⟨_, _, rfl, by decide, by decide⟩

section
set_option linter.unusedSectionVars false
variable (hc : CfgStd cfg) (hi : Nat → Bool)
include hc

mutual
  theorem parseSP_str : ∀ (p : Policy) (f : Nat) (rest : Txt), p.WF → p.SigFits cfg.ucSigBits →
      (cfg.quotedKeys = true ∨ p.KeysSafe hi) →
      p.size ≤ f → EndsOK rest →
      parseSP cfg f ⟨Policy.str hi p ++ rest, false⟩ = (p, ⟨rest, false⟩)
    | .above h, f, rest, hwf, _, _, hf, he => by
      obtain ⟨f', rfl⟩ : ∃ k, f = k + 1 := ⟨f - 1, by simp [Policy.size] at hf; omega⟩
      have e41 := EndsOK.cons 41 (by decide) he
      have e : Policy.str hi (.above h) ++ rest = kwAbove ++ 40 :: (natToDec h ++ 41 :: rest) := by simp [Policy.str]
      have e40 : EndsOK (40 :: (natToDec h ++ 41 :: rest)) := EndsOK.cons 40 (by decide) (EndsOK.append_left _ e41 (by simp))
      rw [e]
      simp only [parseSP, nextToken_tok hc.delims _ 40 _ tokOK_kw.1 (by decide) e40, consume_ok 40 _ (by decide) e40,
        if_true, hc.above, parseIntTok_ok hc.delims 64 h hwf 41 rest (by decide) e41, consume_ok 41 rest (by decide) e41]
    | .after t, f, rest, hwf, _, _, hf, he => by
      obtain ⟨f', rfl⟩ : ∃ k, f = k + 1 := ⟨f - 1, by simp [Policy.size] at hf; omega⟩
      have e41 := EndsOK.cons 41 (by decide) he
      have e : Policy.str hi (.after t) ++ rest = kwAfter ++ 40 :: (intToDec t ++ 41 :: rest) := by simp [Policy.str]
      have e40 : EndsOK (40 :: (intToDec t ++ 41 :: rest)) := EndsOK.cons 40 (by decide) (EndsOK.append_left _ e41 (by simp))
      rw [e]
      simp only [parseSP, nextToken_tok hc.delims _ 40 _ tokOK_kw.2.1 (by decide) e40, consume_ok 40 _ (by decide) e40,
        kw_ne.1, if_false, if_true, parseTimeTok_ok hc.delims t hwf.1 hwf.2 41 rest (by decide) e41,
        consume_ok 41 rest (by decide) e41]
    | .pk k, f, rest, hwf, _, _, hf, he => by
      obtain ⟨f', rfl⟩ : ∃ k, f = k + 1 := ⟨f - 1, by simp [Policy.size] at hf; omega⟩
      have e41 := EndsOK.cons 41 (by decide) he
      have e : Policy.str hi (.pk k) ++ rest = kwPk ++ 40 :: (hex0x k ++ 41 :: rest) := by simp [Policy.str]
      have e40 : EndsOK (40 :: (hex0x k ++ 41 :: rest)) := EndsOK.cons 40 (by decide) (EndsOK.append_left _ e41 (by simp))
      rw [e]
      simp only [parseSP, nextToken_tok hc.delims _ 40 _ tokOK_kw.2.2.1 (by decide) e40, consume_ok 40 _ (by decide) e40,
        kw_ne.2.1, kw_ne.2.2.1, if_false, if_true, parseHexTok_ok hc.delims k hwf 41 rest (by decide) e41,
        consume_ok 41 rest (by decide) e41]
    | .hash k, f, rest, hwf, _, _, hf, he => by
      obtain ⟨f', rfl⟩ : ∃ k, f = k + 1 := ⟨f - 1, by simp [Policy.size] at hf; omega⟩
      have e41 := EndsOK.cons 41 (by decide) he
      have e : Policy.str hi (.hash k) ++ rest = kwH ++ 40 :: (hex0x k ++ 41 :: rest) := by simp [Policy.str]
      have e40 : EndsOK (40 :: (hex0x k ++ 41 :: rest)) := EndsOK.cons 40 (by decide) (EndsOK.append_left _ e41 (by simp))
      rw [e]
      simp only [parseSP, nextToken_tok hc.delims _ 40 _ tokOK_kw.2.2.2.1 (by decide) e40, consume_ok 40 _ (by decide) e40,
        kw_ne.2.2.2.1, kw_ne.2.2.2.2.1, kw_ne.2.2.2.2.2.1, if_false, if_true,
        parseHexTok_ok hc.delims k hwf 41 rest (by decide) e41, consume_ok 41 rest (by decide) e41]
    | .opaque k, f, rest, hwf, _, _, hf, he => by
      obtain ⟨f', rfl⟩ : ∃ k, f = k + 1 := ⟨f - 1, by simp [Policy.size] at hf; omega⟩
      have e41 := EndsOK.cons 41 (by decide) he
      have e : Policy.str hi (.opaque k) ++ rest = kwOpaque ++ 40 :: (hex0x k ++ 41 :: rest) := by simp [Policy.str]
      have e40 : EndsOK (40 :: (hex0x k ++ 41 :: rest)) := EndsOK.cons 40 (by decide) (EndsOK.append_left _ e41 (by simp))
      have n := kw_ne.2.2.2.2.2.2.2.2.2.2
      rw [e]
      simp only [parseSP, nextToken_tok hc.delims _ 40 _ tokOK_kw.2.2.2.2.2.1 (by decide) e40, consume_ok 40 _ (by decide) e40,
        n.1, n.2.1, n.2.2.1, n.2.2.2.1, n.2.2.2.2.1, if_false, if_true,
        parseHexTok_ok hc.delims k hwf 41 rest (by decide) e41, consume_ok 41 rest (by decide) e41]
    | .uc tl ks sg, f, rest, hwf, hsig, hkeys, hf, he => by
      obtain ⟨f', rfl⟩ : ∃ k, f = k + 1 := ⟨f - 1, by simp [Policy.size] at hf; omega⟩
      have e41 := EndsOK.cons 41 (by decide) he
      -- uc( tl ,[ keys ], sg )
      let t5 := natToDec sg ++ 41 :: rest
      have e5 : EndsOK (44 :: t5) := EndsOK.cons 44 (by decide) (EndsOK.append_left _ e41 (by simp))
      have e4 : EndsOK (93 :: 44 :: t5) := EndsOK.cons 93 (by decide) e5
      have e3 : EndsOK (91 :: (joinKeys hi ks ++ 93 :: 44 :: t5)) := EndsOK.cons 91 (by decide) (EndsOK.append_left _ e4 (by simp))
      have e2 : EndsOK (44 :: 91 :: (joinKeys hi ks ++ 93 :: 44 :: t5)) := EndsOK.cons 44 (by decide) e3
      have e1 : EndsOK (40 :: (natToDec tl ++ 44 :: 91 :: (joinKeys hi ks ++ 93 :: 44 :: t5))) :=
        EndsOK.cons 40 (by decide) (EndsOK.append_left _ e2 (by simp))
      have e : Policy.str hi (.uc tl ks sg) ++ rest
          = kwUc ++ 40 :: (natToDec tl ++ 44 :: 91 :: (joinKeys hi ks ++ 93 :: 44 :: t5)) := by simp [Policy.str, t5]
      have n := kw_ne.2.2.2.2.2.2.2.2.2.2.2.2.2.2.2
      have hkeysOK := parseKeys_ok hc.delims hi ks ((joinKeys hi ks ++ 93 :: 44 :: t5).length + 1) (44 :: t5)
        (by have := joinKeys_length hi ks; simp; omega)
        (fun k hk => by rw [hc.spec]; exact hwf.2.2 k hk) hkeys e4
      rw [e]
      simp only [parseSP, nextToken_tok hc.delims _ 40 _ tokOK_kw.2.2.2.2.2.2 (by decide) e1, consume_ok 40 _ (by decide) e1,
        n.1, n.2.1, n.2.2.1, n.2.2.2.1, n.2.2.2.2.1, n.2.2.2.2.2, if_false, if_true, hc.timelock,
        parseIntTok_ok hc.delims 64 tl hwf.1 44 _ (by decide) e2, consume_ok 44 _ (by decide) e2,
        consume_ok 91 _ (by decide) e3, hkeysOK, consume_ok 93 _ (by decide) e4, consume_ok 44 _ (by decide) e5,
        parseIntTok_ok hc.delims cfg.ucSigBits sg hsig 41 rest (by decide) e41, consume_ok 41 rest (by decide) e41, t5]
    | .thresh n ps, f, rest, hwf, hsig, hkeys, hf, he => by
      obtain ⟨f', rfl⟩ : ∃ k, f = k + 1 := ⟨f - 1, by simp [Policy.size] at hf; omega⟩
      have e41 := EndsOK.cons 41 (by decide) he
      have e4 : EndsOK (93 :: 41 :: rest) := EndsOK.cons 93 (by decide) e41
      have e3 : EndsOK (91 :: (PolicyList.str hi ps ++ 93 :: 41 :: rest)) := EndsOK.cons 91 (by decide) (EndsOK.append_left _ e4 (by simp))
      have e2 : EndsOK (44 :: 91 :: (PolicyList.str hi ps ++ 93 :: 41 :: rest)) := EndsOK.cons 44 (by decide) e3
      have e1 : EndsOK (40 :: (natToDec n ++ 44 :: 91 :: (PolicyList.str hi ps ++ 93 :: 41 :: rest))) :=
        EndsOK.cons 40 (by decide) (EndsOK.append_left _ e2 (by simp))
      have e : Policy.str hi (.thresh n ps) ++ rest
          = kwThresh ++ 40 :: (natToDec n ++ 44 :: 91 :: (PolicyList.str hi ps ++ 93 :: 41 :: rest)) := by simp [Policy.str]
      have hn := kw_ne.2.2.2.2.2.2
      have hlist := parseSPList_str ps f' (41 :: rest) hwf.2 hsig hkeys (by simp [Policy.size] at hf; omega) e4
      rw [e]
      simp only [parseSP, nextToken_tok hc.delims _ 40 _ tokOK_kw.2.2.2.2.1 (by decide) e1, consume_ok 40 _ (by decide) e1,
        hn.1, hn.2.1, hn.2.2.1, hn.2.2.2.1, if_false, if_true, hc.thresh,
        parseIntTok_ok hc.delims 8 n hwf.1 44 _ (by decide) e2, consume_ok 44 _ (by decide) e2,
        consume_ok 91 _ (by decide) e3, hlist, consume_ok 93 _ (by decide) e4, consume_ok 41 rest (by decide) e41]
  theorem parseSPList_str : ∀ (ps : PolicyList) (f : Nat) (r : Txt), ps.WF → ps.SigFits cfg.ucSigBits →
      (cfg.quotedKeys = true ∨ ps.KeysSafe hi) →
      ps.size ≤ f → EndsOK (93 :: r) →
      parseSPList cfg f ⟨PolicyList.str hi ps ++ 93 :: r, false⟩ = (ps, ⟨93 :: r, false⟩)
    | .nil, f, r, _, _, _, hf, he => by
      obtain ⟨f', rfl⟩ : ∃ k, f = k + 1 := ⟨f - 1, by simp [PolicyList.size] at hf; omega⟩
      simp [parseSPList, PolicyList.str, peek_ok 93 r (by decide) he]
    | .cons p .nil, f, r, hwf, hsig, hkeys, hf, he => by
      obtain ⟨f', rfl⟩ : ∃ k, f = k + 1 := ⟨f - 1, by simp [PolicyList.size] at hf; omega⟩
      obtain ⟨c, cs, hcs, hne, hsp⟩ := str_head hi p
      have hE : EndsOK (Policy.str hi p ++ 93 :: r) := EndsOK.append_left _ he (by simp)
      have hp : peek ⟨Policy.str hi p ++ 93 :: r, false⟩ = (c, ⟨Policy.str hi p ++ 93 :: r, false⟩) := by
        rw [hcs] at hE ⊢; exact peek_ok c _ hsp hE
      have h1 := parseSP_str p f' (93 :: r) hwf.1 hsig.1 (hkeys.imp id (·.1)) (by simp [PolicyList.size] at hf; omega) he
      have h2 := parseSPList_str .nil f' r trivial trivial (Or.inr trivial) (by simp [PolicyList.size] at hf ⊢; omega) he
      simp only [PolicyList.str, List.nil_append] at h2
      have e : PolicyList.str hi (.cons p .nil) ++ 93 :: r = Policy.str hi p ++ 93 :: r := by simp [PolicyList.str]
      rw [e]
      simp only [parseSPList, Bool.false_eq_true, if_false, hp, hne, h1, peek_ok 93 r (by decide) he]
      simp [h2]
    | .cons p (.cons p' ps'), f, r, hwf, hsig, hkeys, hf, he => by
      obtain ⟨f', rfl⟩ : ∃ k, f = k + 1 := ⟨f - 1, by simp [PolicyList.size] at hf; omega⟩
      obtain ⟨c, cs, hcs, hne, hsp⟩ := str_head hi p
      have he2 : EndsOK (44 :: (PolicyList.str hi (.cons p' ps') ++ 93 :: r)) :=
        EndsOK.cons 44 (by decide) (EndsOK.append_left _ he (by simp))
      have hE : EndsOK (Policy.str hi p ++ 44 :: (PolicyList.str hi (.cons p' ps') ++ 93 :: r)) := EndsOK.append_left _ he2 (by simp)
      have hp : peek ⟨Policy.str hi p ++ 44 :: (PolicyList.str hi (.cons p' ps') ++ 93 :: r), false⟩
          = (c, ⟨Policy.str hi p ++ 44 :: (PolicyList.str hi (.cons p' ps') ++ 93 :: r), false⟩) := by
        rw [hcs] at hE ⊢; exact peek_ok c _ hsp hE
      have h1 := parseSP_str p f' (44 :: (PolicyList.str hi (.cons p' ps') ++ 93 :: r)) hwf.1 hsig.1 (hkeys.imp id (·.1))
        (by simp [PolicyList.size] at hf; omega) he2
      have h2 := parseSPList_str (.cons p' ps') f' r hwf.2 hsig.2 (hkeys.imp id (·.2)) (by simp [PolicyList.size] at hf ⊢; omega) he
      have e : PolicyList.str hi (.cons p (.cons p' ps')) ++ 93 :: r
          = Policy.str hi p ++ 44 :: (PolicyList.str hi (.cons p' ps') ++ 93 :: r) := by simp [PolicyList.str]
      rw [e]
      simp only [parseSPList, Bool.false_eq_true, if_false, hp, hne, h1, peek_ok 44 _ (by decide) he2,
        consume_ok 44 _ (by decide) he2]
      simp [h2]
end

end

/-! ## fuel: the length of the printed text bounds the recursion -/

theorem natToDec_length_pos (n : Nat) : 1 ≤ (natToDec n).length := by
  have := natToDec_ne_nil n
  cases h : natToDec n with
  | nil => exact absurd h this
  | cons _ _ => simp

mutual
  theorem size_le_str (hi : Nat → Bool) : ∀ p : Policy, p.size + 2 ≤ (Policy.str hi p).length
    | .above h => by simp [Policy.size, Policy.str, kwAbove]
    | .after t => by simp [Policy.size, Policy.str, kwAfter]
    | .pk k => by simp [Policy.size, Policy.str, kwPk, hex0x]
    | .hash k => by simp [Policy.size, Policy.str, kwH, hex0x]
    | .opaque k => by simp [Policy.size, Policy.str, kwOpaque, hex0x]
    | .uc tl ks sg => by simp [Policy.size, Policy.str, kwUc]
    | .thresh n ps => by
      have := sizeL_le_str hi ps
      simp [Policy.size, Policy.str, kwThresh]; omega
  theorem sizeL_le_str (hi : Nat → Bool) : ∀ ps : PolicyList, ps.size ≤ (PolicyList.str hi ps).length + 1
    | .nil => by simp [PolicyList.size, PolicyList.str]
    | .cons p .nil => by
      have := size_le_str hi p
      simp [PolicyList.size, PolicyList.str]; omega
    | .cons p (.cons p' ps') => by
      have h1 := size_le_str hi p
      have h2 := sizeL_le_str hi (.cons p' ps')
      simp [PolicyList.size, PolicyList.str] at h2 ⊢; omega
end

/-- `ParseSpendPolicy(p.String()) = p` under the stated side conditions -/
theorem parsePolicy_str (hc : CfgStd cfg) (hi : Nat → Bool) (p : Policy) (hwf : p.WF)
    (hsig : p.SigFits cfg.ucSigBits) (hkeys : cfg.quotedKeys = true ∨ p.KeysSafe hi) :
    parsePolicy cfg (Policy.str hi p) = some p := by
  have hsz := size_le_str hi p
  have := parseSP_str hc hi p ((Policy.str hi p).length + 1) [] hwf hsig hkeys (by omega) (Or.inl rfl)
  rw [List.append_nil] at this
  simp [parsePolicy, this]

mutual
  theorem sigFits_of_wf : ∀ p : Policy, p.WF → p.SigFits 64
    | .above _, _ => trivial
    | .after _, _ => trivial
    | .pk _, _ => trivial
    | .hash _, _ => trivial
    | .opaque _, _ => trivial
    | .uc _ _ _, h => h.2.1
    | .thresh _ ps, h => sigFitsL_of_wf ps h.2
  theorem sigFitsL_of_wf : ∀ ps : PolicyList, ps.WF → ps.SigFits 64
    | .nil, _ => trivial
    | .cons p ps, h => ⟨sigFits_of_wf p h.1, sigFitsL_of_wf ps h.2⟩
end

end Sia.Text
