import SiaProofs.Lemmas.MerkleRhpDiff
/-!
  Helper lemmas for C16, part 13: the compressed bookkeeping of `VerifyDiffProof`
  (`sectorsChanged`, `modifyLeaves`, `modifyProofRanges`) against the full-list meaning of the
  actions (`applyActions`), for action lists of the shape  swaps ++ [trim k].
-/
set_option linter.unusedVariables false
set_option linter.unusedSectionVars false
namespace Sia.Rhp
open HashOps

variable {H : Type} [HashOps H]

/-! ### sort + dedup -/

abbrev Sorted (l : List Nat) : Prop := List.Pairwise (· < ·) l

theorem mem_insertSorted (x a : Nat) : ∀ (l : List Nat), x ∈ insertSorted a l ↔ x = a ∨ x ∈ l := by
  intro l
  induction l with
  | nil => simp [insertSorted]
  | cons y ys ih =>
    simp only [insertSorted]
    by_cases h1 : a < y
    · simp [h1]
    · by_cases h2 : a = y
      · subst h2; simp
      · simp only [h1, h2, if_false, List.mem_cons, ih]
        constructor
        · rintro (h | h | h) <;> simp [h]
        · rintro (h | h | h) <;> simp [h]

theorem sorted_insertSorted (a : Nat) : ∀ (l : List Nat), Sorted l → Sorted (insertSorted a l) := by
  intro l
  induction l with
  | nil => intro _; simp [insertSorted]
  | cons y ys ih =>
    intro hs
    unfold Sorted at hs ih ⊢
    rw [List.pairwise_cons] at hs
    simp only [insertSorted]
    by_cases h1 : a < y
    · simp only [h1, if_true]
      rw [List.pairwise_cons]
      refine ⟨?_, List.pairwise_cons.2 hs⟩
      intro z hz
      cases hz with
      | head => exact h1
      | tail _ hz => have := hs.1 z hz; omega
    · by_cases h2 : a = y
      · subst h2
        have : ¬ (a < a) := by omega
        simp only [this, if_false, if_true]; exact List.pairwise_cons.2 hs
      · simp only [h1, h2, if_false]
        rw [List.pairwise_cons]
        refine ⟨?_, ih hs.2⟩
        intro z hz
        rw [mem_insertSorted] at hz
        cases hz with
        | inl h => omega
        | inr h => exact hs.1 z h

theorem sorted_sortDedup (l : List Nat) : Sorted (sortDedup l) := by
  unfold sortDedup
  induction l with
  | nil => simp
  | cons a l ih => simp only [List.foldr_cons]; exact sorted_insertSorted a _ ih

theorem mem_sortDedup (x : Nat) (l : List Nat) : x ∈ sortDedup l ↔ x ∈ l := by
  unfold sortDedup
  induction l with
  | nil => simp
  | cons a l ih => simp only [List.foldr_cons, mem_insertSorted, ih, List.mem_cons]

theorem Sorted.getElem_inj {S : List Nat} (hS : Sorted S) {p q : Nat} (hp : p < S.length) (hq : q < S.length)
    (h : S[p] = S[q]) : p = q := by
  unfold Sorted at hS
  rw [List.pairwise_iff_getElem] at hS
  by_cases h1 : p < q
  · have := hS p q hp hq h1; omega
  · by_cases h2 : q < p
    · have := hS q p hq hp h2; omega
    · omega

theorem indexOf_getElem : ∀ (S : List Nat) (k p : Nat) (hp : p < S.length), Sorted S →
    indexOf S[p] S k = k + p := by
  intro S
  induction S with
  | nil => intro k p hp; simp at hp
  | cons y ys ih =>
    intro k p hp hS
    unfold Sorted at hS ih
    rw [List.pairwise_cons] at hS
    cases p with
    | zero => simp [indexOf]
    | succ p =>
      simp only [List.getElem_cons_succ, indexOf]
      have hp' : p < ys.length := by simpa using hp
      have : ys[p] ≠ y := by
        have := hS.1 ys[p] (List.getElem_mem hp'); omega
      simp only [this, if_false]
      rw [ih (k + 1) p hp' hS.2]; omega

/-- IdxOK from sortedness and bounds -/
theorem IdxOK_of_sorted : ∀ (S : List Nat) (start n : Nat), Sorted S → (∀ x ∈ S, start ≤ x ∧ x < n) → start ≤ n →
    IdxOK start S n := by
  intro S
  induction S with
  | nil => intro start n _ _ h; exact h
  | cons e es ih =>
    intro start n hS hb hle
    unfold Sorted at hS ih
    rw [List.pairwise_cons] at hS
    have he := hb e List.mem_cons_self
    refine ⟨he.1, he.2, ih (e + 1) n hS.2 ?_ (by omega)⟩
    intro x hx
    have := hS.1 x hx
    have := hb x (List.mem_cons_of_mem _ hx)
    omega

/-! ### one swap, full list vs compressed list -/

theorem map_set_sorted {β : Type} (S : List Nat) (hS : Sorted S) (f : Nat → β) (p : Nat) (hp : p < S.length) (v : β) :
    (S.map f).set p v = S.map (fun x => if x = S[p] then v else f x) := by
  apply List.ext_getElem (by simp)
  intro q h1 h2
  have hq : q < S.length := by simpa using h2
  rw [List.getElem_set, List.getElem_map, List.getElem_map]
  by_cases hpq : p = q
  · subst hpq; simp
  · have : S[q] ≠ S[p] := fun h => hpq (hS.getElem_inj hq hp h).symm
    simp [hpq, this]

/-- swapping two listed positions commutes with compression to the listed positions -/
theorem swap_compress (S : List Nat) (hS : Sorted S) (l : List H) (hb : ∀ x ∈ S, x < l.length)
    (a b : Nat) (ha : a ∈ S) (hbm : b ∈ S) :
    ∃ l', swapList l a b = .ok l' ∧ l'.length = l.length ∧
      (∀ j, j ∉ S → l'[j]? = l[j]?) ∧
      swapList (S.map (fun j => l.getD j zero)) (indexOf a S 0) (indexOf b S 0)
        = .ok (S.map (fun j => l'.getD j zero)) := by
  have hal := hb a ha
  have hbl := hb b hbm
  obtain ⟨pa, hpa, ea⟩ := List.mem_iff_getElem.1 ha
  obtain ⟨pb, hpb, eb⟩ := List.mem_iff_getElem.1 hbm
  have ia : indexOf a S 0 = pa := by rw [← ea, indexOf_getElem S 0 pa hpa hS]; omega
  have ib : indexOf b S 0 = pb := by rw [← eb, indexOf_getElem S 0 pb hpb hS]; omega
  refine ⟨(l.set a l[b]).set b l[a], ?_, by simp, ?_, ?_⟩
  · unfold swapList
    simp [List.getElem?_eq_getElem hal, List.getElem?_eq_getElem hbl]
  · intro j hj
    have h1 : a ≠ j := fun h => hj (h ▸ ha)
    have h2 : b ≠ j := fun h => hj (h ▸ hbm)
    rw [List.getElem?_set, List.getElem?_set]
    simp [h1, h2]
  · rw [ia, ib]
    unfold swapList
    have g1 : (S.map (fun j => l.getD j zero))[pa]? = some l[a] := by
      rw [List.getElem?_eq_getElem (by simpa using hpa)]; simp [ea, List.getD, List.getElem?_eq_getElem hal]
    have g2 : (S.map (fun j => l.getD j zero))[pb]? = some l[b] := by
      rw [List.getElem?_eq_getElem (by simpa using hpb)]; simp [eb, List.getD, List.getElem?_eq_getElem hbl]
    simp only [g1, g2]
    congr 1
    rw [map_set_sorted S hS _ pa hpa, map_set_sorted S hS _ pb hpb]
    apply List.map_congr_left
    intro x hx
    have hxl := hb x hx
    rw [ea, eb]
    simp only [List.getD_eq_getElem?_getD, List.getElem?_set]
    by_cases hxb : x = b
    · subst hxb; simp [hbl]
    · by_cases hxa : x = a
      · subst hxa
        have : ¬ (b = x) := fun h => hxb h.symm
        simp [hxb, this, hal, List.getElem?_eq_getElem hbl]
      · have h1 : ¬ (b = x) := fun h => hxb h.symm
        have h2 : ¬ (a = x) := fun h => hxa h.symm
        simp [hxb, hxa, h1, h2]


/-! ### a run of swaps -/

def swapActs (sw : List (Nat × Nat)) : List (Action H) := sw.map (fun p => Action.swap p.1 p.2)

theorem swaps_compress (S : List Nat) (hS : Sorted S) (n : Nat) (hb : ∀ x ∈ S, x < n) :
    ∀ (sw : List (Nat × Nat)) (l : List H) (rest : List (Action H)),
      (∀ p ∈ sw, p.1 ∈ S ∧ p.2 ∈ S) → l.length = n →
      ∃ l', applyActions l (swapActs sw ++ rest) = applyActions l' rest ∧ l'.length = n ∧
        (∀ j, j ∉ S → l'[j]? = l[j]?) ∧
        applyLeafActions S (S.map (fun j => l.getD j zero)) (swapActs sw ++ rest)
          = applyLeafActions S (S.map (fun j => l'.getD j zero)) rest := by
  intro sw
  induction sw with
  | nil => intro l rest _ hl; exact ⟨l, rfl, hl, fun _ _ => rfl, rfl⟩
  | cons p sw ih =>
    intro l rest hmem hl
    have hp := hmem p List.mem_cons_self
    obtain ⟨l1, e1, len1, ag1, c1⟩ := swap_compress S hS l (fun x hx => by rw [hl]; exact hb x hx) p.1 p.2 hp.1 hp.2
    obtain ⟨l2, e2, len2, ag2, c2⟩ := ih l1 rest (fun q hq => hmem q (List.mem_cons_of_mem _ hq)) (by rw [len1, hl])
    refine ⟨l2, ?_, len2, fun j hj => by rw [ag2 j hj, ag1 j hj], ?_⟩
    · simp only [swapActs, List.map_cons, List.cons_append, applyActions, e1, bind, Except.bind]
      exact e2
    · simp only [swapActs, List.map_cons, List.cons_append, applyLeafActions, c1, bind, Except.bind]
      exact c2

/-! ### the changed indices of  swaps ++ [trim k] -/

theorem wrapDec_pos {n : Nat} (h0 : 0 < n) (hn : n < 18446744073709551616) : wrapDec n = n - 1 := by
  unfold wrapDec; omega

theorem trimIndices_spec : ∀ (k n : Nat), k ≤ n → n < 18446744073709551616 →
    (trimIndices k n).1 = n - k ∧ (∀ x, x ∈ (trimIndices k n).2 ↔ n - k ≤ x ∧ x < n) := by
  intro k
  induction k with
  | zero =>
    intro n _ _
    refine ⟨rfl, ?_⟩
    intro x
    simp only [trimIndices, List.not_mem_nil, false_iff]
    omega
  | succ k ih =>
    intro n hk hn
    have hw : wrapDec n = n - 1 := wrapDec_pos (by omega) hn
    have hn' : n - 1 < 18446744073709551616 := Nat.lt_of_le_of_lt (Nat.sub_le _ _) hn
    obtain ⟨h1, h2⟩ := ih (n - 1) (by omega) hn'
    clear hn hn' ih
    simp only [trimIndices, hw]
    refine ⟨by rw [h1]; omega, ?_⟩
    intro x
    simp only [List.mem_cons, h2]
    omega

def swapIdx (sw : List (Nat × Nat)) : List Nat := sw.flatMap (fun p => [p.1, p.2])

theorem actionIndices_swaps (sw : List (Nat × Nat)) (rest : List (Action H)) (n : Nat) :
    actionIndices (swapActs sw ++ rest) n = (actionIndices rest n).map (fun r => swapIdx sw ++ r) := by
  induction sw with
  | nil => simp [swapActs, swapIdx]; cases actionIndices rest n <;> rfl
  | cons p sw ih =>
    simp only [swapActs, List.map_cons, List.cons_append, actionIndices] at ih ⊢
    rw [ih]
    cases actionIndices rest n <;> simp [Except.map, bind, Except.bind, pure, Except.pure, swapIdx]

theorem actionIndices_trim (k n : Nat) :
    actionIndices ([Action.trim k] : List (Action H)) n = .ok (trimIndices k n).2 := by
  simp [actionIndices, bind, Except.bind, pure, Except.pure]

/-- the raw index list of  swaps ++ [trim k] -/
def rawIdx (sw : List (Nat × Nat)) (k n : Nat) : List Nat := swapIdx sw ++ (trimIndices k n).2

theorem actionIndices_shape (sw : List (Nat × Nat)) (k n : Nat) :
    actionIndices (swapActs sw ++ [Action.trim k] : List (Action H)) n = .ok (rawIdx sw k n) := by
  rw [actionIndices_swaps, actionIndices_trim]; rfl

theorem mem_swapIdx (sw : List (Nat × Nat)) (x : Nat) : x ∈ swapIdx sw ↔ ∃ p ∈ sw, x = p.1 ∨ x = p.2 := by
  simp [swapIdx, List.mem_flatMap]

/-- the sorted changed indices -/
def chIdx (sw : List (Nat × Nat)) (k n : Nat) : List Nat := sortDedup (rawIdx sw k n)

theorem chIdx_lt (sw : List (Nat × Nat)) (k n : Nat) (hk : k ≤ n) (hn : n < 18446744073709551616)
    (hsw : ∀ p ∈ sw, p.1 < n ∧ p.2 < n) : ∀ x ∈ chIdx sw k n, x < n := by
  intro x hx
  rw [chIdx, mem_sortDedup, rawIdx, List.mem_append] at hx
  cases hx with
  | inl h =>
    obtain ⟨p, hp, h'⟩ := (mem_swapIdx sw x).1 h
    have := hsw p hp
    cases h' with
    | inl h' => omega
    | inr h' => omega
  | inr h => exact ((trimIndices_spec k n hk hn).2 x).1 h |>.2

theorem chIdx_tail (sw : List (Nat × Nat)) (k n : Nat) (hk : k ≤ n) (hn : n < 18446744073709551616) :
    ∀ j, n - k ≤ j → j < n → j ∈ chIdx sw k n := by
  intro j h1 h2
  rw [chIdx, mem_sortDedup, rawIdx, List.mem_append]
  exact Or.inr (((trimIndices_spec k n hk hn).2 j).2 ⟨h1, h2⟩)

theorem chIdx_swaps (sw : List (Nat × Nat)) (k n : Nat) : ∀ p ∈ sw, p.1 ∈ chIdx sw k n ∧ p.2 ∈ chIdx sw k n := by
  intro p hp
  simp only [chIdx, mem_sortDedup, rawIdx, List.mem_append, mem_swapIdx]
  exact ⟨Or.inl ⟨p, hp, Or.inl rfl⟩, Or.inl ⟨p, hp, Or.inr rfl⟩⟩

theorem sectorsChanged_shape (sw : List (Nat × Nat)) (k n : Nat) (hk : k ≤ n) (hn : n < 18446744073709551616)
    (hsw : ∀ p ∈ sw, p.1 < n ∧ p.2 < n) :
    sectorsChanged (swapActs sw ++ [Action.trim k] : List (Action H)) n = .ok (chIdx sw k n) := by
  unfold sectorsChanged
  rw [actionIndices_shape]
  simp only [bind, Except.bind, pure, Except.pure]
  congr 1
  apply List.filter_eq_self.2
  intro x hx
  have := chIdx_lt sw k n hk hn hsw x hx
  simpa using this

/-! ### a sorted list bounded by `n` that contains `[n-k, n)` ends with it -/

theorem sorted_max_last (P : List Nat) (hP : Sorted P) (m : Nat) (hle : ∀ x ∈ P, x ≤ m) (hm : m ∈ P) :
    ∃ P', P = P' ++ [m] ∧ ∀ x ∈ P', x < m := by
  have hne : P ≠ [] := by intro h; rw [h] at hm; simp at hm
  have hd := List.dropLast_concat_getLast hne
  have hP' := hP
  unfold Sorted at hP'
  rw [← hd, List.pairwise_append] at hP'
  obtain ⟨_, _, hlt⟩ := hP'
  have hlast_le := hle (P.getLast hne) (List.getLast_mem hne)
  have hlast : P.getLast hne = m := by
    rw [← hd, List.mem_append] at hm
    cases hm with
    | inl h => have := hlt m h (P.getLast hne) (by simp); omega
    | inr h => exact (List.mem_singleton.1 h).symm
  refine ⟨P.dropLast, by rw [← hlast]; exact hd.symm, ?_⟩
  intro x hx
  have := hlt x hx (P.getLast hne) (by simp)
  omega

theorem sorted_suffix (S : List Nat) (hS : Sorted S) (n : Nat) (hb : ∀ x ∈ S, x < n) :
    ∀ (k : Nat), k ≤ n → (∀ j, n - k ≤ j → j < n → j ∈ S) →
      ∃ P, S = P ++ List.range' (n - k) k ∧ (∀ x ∈ P, x < n - k) := by
  intro k
  induction k with
  | zero => intro _ _; exact ⟨S, by simp, fun x hx => by have := hb x hx; omega⟩
  | succ k ih =>
    intro hk hall
    obtain ⟨P, hSP, hPlt⟩ := ih (by omega) (fun j h1 h2 => hall j (by omega) h2)
    have hmem : n - (k + 1) ∈ S := hall _ (Nat.le_refl _) (by omega)
    have hmemP : n - (k + 1) ∈ P := by
      rw [hSP, List.mem_append] at hmem
      cases hmem with
      | inl h => exact h
      | inr h => rw [List.mem_range'] at h; obtain ⟨i, _, hi⟩ := h; omega
    have hPs : Sorted P := by
      have := hS
      unfold Sorted at this ⊢
      rw [hSP, List.pairwise_append] at this
      exact this.1
    obtain ⟨P', hP', hlt'⟩ := sorted_max_last P hPs (n - (k + 1)) (fun x hx => by have := hPlt x hx; omega) hmemP
    refine ⟨P', ?_, hlt'⟩
    rw [hSP, hP', List.append_assoc]
    congr 1
    have : n - k = n - (k + 1) + 1 := by omega
    rw [this]
    simp [List.range'_succ]

theorem sorted_prefix_length {P : List Nat} {m k : Nat} : (P ++ List.range' m k).length - k = P.length := by
  simp

/-! ### the tree hashes are shared by the two passes -/

theorem gapHashes_range (ls : List H) : ∀ (k m start : Nat), start ≤ m →
    gapHashes ls (List.range' m k) start (m + k) = buildRange ls start m := by
  intro k
  induction k with
  | zero => intro m start _; simp [gapHashes]
  | succ k ih =>
    intro m start hle
    simp only [List.range'_succ, gapHashes]
    have e : m + (k + 1) = (m + 1) + k := by omega
    rw [e, ih (m + 1) (m + 1) (Nat.le_refl _), buildRange_done ls (m + 1) (m + 1) (by omega)]
    simp

theorem gapHashes_append_range (ls : List H) (m k : Nat) : ∀ (P : List Nat) (start : Nat),
    IdxOK start P m →
    gapHashes ls (P ++ List.range' m k) start (m + k) = gapHashes ls P start m := by
  intro P
  induction P with
  | nil =>
    intro start hok
    simp only [List.nil_append, gapHashes]
    exact gapHashes_range ls k m start hok
  | cons e es ih =>
    intro start hok
    obtain ⟨h1, h2, h3⟩ := hok
    simp only [List.cons_append, gapHashes]
    rw [ih (e + 1) h3]

/-! ### patching with the values of a list that agrees elsewhere -/

theorem seg_eq_of_agree (l l' : List H) (a b : Nat) (hb : b ≤ l.length) (hb' : b ≤ l'.length)
    (hag : ∀ j, a ≤ j → j < b → l'[j]? = l[j]?) :
    (l.drop a).take (b - a) = (l'.drop a).take (b - a) := by
  apply List.ext_getElem?
  intro i
  simp only [List.getElem?_take, List.getElem?_drop]
  by_cases hi : i < b - a
  · simp only [hi, if_true]
    exact (hag (a + i) (by omega) (by omega)).symm
  · simp [hi]

theorem patchFrom_agree (ls l' : List H) (m : Nat) (hm : m ≤ ls.length) (hm' : m ≤ l'.length) :
    ∀ (P : List Nat) (start : Nat), IdxOK start P m →
      (∀ j, start ≤ j → j < m → j ∉ P → l'[j]? = ls[j]?) →
      patchFrom ls P (P.map (fun j => l'.getD j zero)) start m = (l'.drop start).take (m - start) := by
  intro P
  induction P with
  | nil =>
    intro start hok hag
    simp only [patchFrom, List.map_nil]
    exact seg_eq_of_agree ls l' start m hm hm' (fun j h1 h2 => hag j h1 h2 (by simp))
  | cons e es ih =>
    intro start hok hag
    obtain ⟨h1, h2, h3⟩ := hok
    simp only [patchFrom, List.map_cons]
    have hsorted_gt : ∀ x ∈ es, e < x := by
      intro x hx
      -- from IdxOK (e+1) es m every element is ≥ e+1
      have : ∀ (es : List Nat) (s : Nat), IdxOK s es m → ∀ x ∈ es, s ≤ x := by
        intro es
        induction es with
        | nil => intro s _ x hx; simp at hx
        | cons y ys ihy =>
          intro s hok x hx
          obtain ⟨a1, a2, a3⟩ := hok
          cases hx with
          | head => exact a1
          | tail _ hx => have := ihy (y + 1) a3 x hx; omega
      have := this es (e + 1) h3 x hx
      omega
    rw [ih (e + 1) h3 (fun j a1 a2 a3 => hag j (by omega) a2 (by
      intro hmem
      cases hmem with
      | head => omega
      | tail _ hm => exact a3 hm))]
    rw [seg_eq_of_agree ls l' start e (by omega) (by omega) (fun j a1 a2 => hag j a1 (by omega) (by
      intro hmem
      cases hmem with
      | head => omega
      | tail _ hm => have := hsorted_gt j hm; omega))]
    have hel : e < l'.length := by omega
    have e1 : l'.getD e zero = l'[e] := by simp [List.getD, List.getElem?_eq_getElem hel]
    rw [e1]
    have e2 : (l'.drop (e + 1)).take (m - (e + 1)) = ((l'.drop e).drop 1).take (m - (e + 1)) := by
      rw [List.drop_drop]
    have e3 : (l'.drop start).take (m - start)
        = (l'.drop start).take (e - start) ++ ((l'.drop start).drop (e - start)).take (m - e) := by
      have : m - start = (e - start) + (m - e) := by omega
      rw [this, List.take_add]
    rw [e3, List.drop_drop]
    have e4 : start + (e - start) = e := by omega
    rw [e4, List.drop_eq_getElem_cons hel]
    have e5 : m - e = (m - (e + 1)) + 1 := by omega
    rw [e5, List.take_succ_cons]


/-! ### the bookkeeping of  swaps ++ [trim k]  -/

theorem modifyProofRanges_swaps (sw : List (Nat × Nat)) (rest : List (Action H)) :
    ∀ (idx : List Nat) (n : Nat), modifyProofRanges idx (swapActs sw ++ rest) n = modifyProofRanges idx rest n := by
  induction sw with
  | nil => intro idx n; rfl
  | cons p sw ih =>
    intro idx n
    simp only [swapActs, List.map_cons, List.cons_append, modifyProofRanges] at ih ⊢
    exact ih idx n

theorem modifyProofRanges_shape (sw : List (Nat × Nat)) (k n : Nat) (idx : List Nat) (hk : k ≤ idx.length) :
    modifyProofRanges idx (swapActs sw ++ [Action.trim k] : List (Action H)) n = .ok (idx.take (idx.length - k)) := by
  rw [modifyProofRanges_swaps]
  have : ¬ (k > idx.length) := by omega
  simp [modifyProofRanges, this]

/-- everything the verifier derives from the actions, in terms of the full list -/
theorem diff_shape (ls : List H) (sw : List (Nat × Nat)) (k : Nat)
    (hn : ls.length < 18446744073709551616) (hk : k ≤ ls.length)
    (hsw : ∀ p ∈ sw, p.1 < ls.length ∧ p.2 < ls.length) :
    ∃ (P : List Nat) (l' : List H),
      chIdx sw k ls.length = P ++ List.range' (ls.length - k) k ∧
      IdxOK 0 (chIdx sw k ls.length) ls.length ∧
      IdxOK 0 P (ls.length - k) ∧
      l'.length = ls.length ∧
      applyActions ls (swapActs sw ++ [Action.trim k]) = .ok (l'.take (ls.length - k)) ∧
      (∀ j, j < ls.length - k → j ∉ P → l'[j]? = ls[j]?) ∧
      modifyLeaves ((chIdx sw k ls.length).map (fun j => ls.getD j zero)) (swapActs sw ++ [Action.trim k]) ls.length
        = .ok (P.map (fun j => l'.getD j zero)) ∧
      modifyProofRanges (chIdx sw k ls.length) (swapActs sw ++ [Action.trim k] : List (Action H)) ls.length = .ok P := by
  have hS := sorted_sortDedup (rawIdx sw k ls.length)
  have hlt := chIdx_lt sw k ls.length hk hn hsw
  obtain ⟨P, hSP, hPlt⟩ := sorted_suffix (chIdx sw k ls.length) hS ls.length hlt k hk
    (chIdx_tail sw k ls.length hk hn)
  have hPs : Sorted P := by
    have := hS
    unfold Sorted at this ⊢
    rw [show sortDedup (rawIdx sw k ls.length) = chIdx sw k ls.length from rfl, hSP, List.pairwise_append] at this
    exact this.1
  obtain ⟨l', ea, hl', hag, ec⟩ := swaps_compress (chIdx sw k ls.length) hS ls.length hlt sw ls
    [Action.trim k] (chIdx_swaps sw k ls.length) rfl
  have hlenS : (chIdx sw k ls.length).length = P.length + k := by rw [hSP]; simp
  refine ⟨P, l', hSP, ?_, ?_, hl', ?_, ?_, ?_, ?_⟩
  · exact IdxOK_of_sorted _ 0 _ hS (fun x hx => ⟨Nat.zero_le _, hlt x hx⟩) (Nat.zero_le _)
  · exact IdxOK_of_sorted P 0 _ hPs (fun x hx => ⟨Nat.zero_le _, hPlt x hx⟩) (Nat.zero_le _)
  · rw [ea]
    have h2 : ¬ (k > ls.length) := by omega
    simp [applyActions, hl', h2]
  · intro j hj hjP
    apply hag
    intro hmem
    rw [hSP, List.mem_append] at hmem
    cases hmem with
    | inl h => exact hjP h
    | inr h => rw [List.mem_range'] at h; obtain ⟨i, _, hi⟩ := h; omega
  · unfold modifyLeaves
    rw [actionIndices_shape]
    simp only [bind, Except.bind]
    show applyLeafActions (chIdx sw k ls.length) _ _ = _
    rw [ec]
    simp only [applyLeafActions, List.length_map, hlenS]
    have h3 : ¬ (k > P.length + k) := by omega
    simp only [h3, if_false]
    congr 1
    rw [← List.map_take]
    congr 1
    rw [hSP]
    have : P.length + k - k = P.length := by omega
    rw [this, List.take_left' rfl]
  · rw [modifyProofRanges_shape sw k ls.length _ (by omega), hlenS]
    congr 1
    rw [hSP]
    have : P.length + k - k = P.length := by omega
    rw [this, List.take_left' rfl]


/-! ### rhp/v4 free = swaps with the tail, then trim -/

/-- the swaps `convertFreeActions` issues: freed[i] with n-1-i -/
def freeSwaps (freed : List Nat) (n : Nat) : List (Nat × Nat) :=
  freed.zipIdx.map (fun x => (x.1, n - x.2 - 1))

theorem convertFreeActions_eq (freed : List Nat) (n : Nat) (hk : freed.length ≤ n)
    (hn : n < 18446744073709551616) :
    (convertFreeActions freed n : List (Action H)) = swapActs (freeSwaps freed n) ++ [Action.trim freed.length] := by
  unfold convertFreeActions swapActs freeSwaps
  rw [List.map_map]
  congr 1
  apply List.map_congr_left
  intro x hx
  obtain ⟨_, h2, _⟩ := List.mem_zipIdx (x := x.1) (i := x.2) hx
  simp only [Function.comp]
  have : (n + 18446744073709551616 - x.2 - 1) % 18446744073709551616 = n - x.2 - 1 := by omega
  rw [this]

theorem freeSwaps_lt (freed : List Nat) (n : Nat) (hk : freed.length ≤ n) (hf : ∀ x ∈ freed, x < n) :
    ∀ p ∈ freeSwaps freed n, p.1 < n ∧ p.2 < n := by
  intro p hp
  unfold freeSwaps at hp
  rw [List.mem_map] at hp
  obtain ⟨x, hx, rfl⟩ := hp
  obtain ⟨_, h2, h3⟩ := List.mem_zipIdx (x := x.1) (i := x.2) hx
  refine ⟨?_, by simp only; omega⟩
  simp only
  rw [h3]
  exact hf _ (List.getElem_mem _)

theorem swapList_length (l l' : List H) (a b : Nat) (h : swapList l a b = .ok l') : l'.length = l.length := by
  unfold swapList at h
  cases ha : l[a]? <;> cases hb : l[b]? <;> simp [ha, hb] at h
  rw [← h]; simp

theorem applyActions_swaps (sw : List (Nat × Nat)) (rest : List (Action H)) : ∀ (l : List H),
    applyActions l (swapActs sw ++ rest)
      = (sw.foldlM (fun (l : List H) (p : Nat × Nat) => swapList l p.1 p.2) l) >>= (fun l' => applyActions l' rest) := by
  induction sw with
  | nil => intro l; simp [swapActs, pure, Except.pure, bind, Except.bind]
  | cons p sw ih =>
    intro l
    simp only [swapActs, List.map_cons, List.cons_append, applyActions, List.foldlM_cons] at ih ⊢
    cases h : swapList l p.1 p.2 with
    | error e => simp [bind, Except.bind]
    | ok l1 => simp only [bind, Except.bind] at ih ⊢; exact ih l1

theorem foldlM_swap_length (sw : List (Nat × Nat)) : ∀ (l l' : List H),
    sw.foldlM (fun (l : List H) (p : Nat × Nat) => swapList l p.1 p.2) l = .ok l' → l'.length = l.length := by
  induction sw with
  | nil => intro l l' h; simp [pure, Except.pure] at h; rw [h]
  | cons p sw ih =>
    intro l l' h
    simp only [List.foldlM_cons] at h
    cases h1 : swapList l p.1 p.2 with
    | error e => rw [h1] at h; simp [bind, Except.bind] at h
    | ok l1 =>
      rw [h1] at h
      simp only [bind, Except.bind] at h
      rw [ih l1 l' h, swapList_length l l1 _ _ h1]

/-- `applyFree` is what the converted actions denote -/
theorem applyFree_eq (ls : List H) (freed : List Nat) (hk : freed.length ≤ ls.length)
    (hn : ls.length < 18446744073709551616) :
    applyFree ls freed = applyActions ls (convertFreeActions freed ls.length) := by
  rw [convertFreeActions_eq freed ls.length hk hn, applyActions_swaps]
  unfold applyFree freeSwaps
  rw [List.foldlM_map]
  cases h : freed.zipIdx.foldlM (fun (l : List H) (x : Nat × Nat) => swapList l x.1 (ls.length - x.2 - 1)) ls with
  | error e => simp [bind, Except.bind]
  | ok l' =>
    have hl : l'.length = ls.length := by
      have := foldlM_swap_length (freeSwaps freed ls.length) ls l' (by
        unfold freeSwaps; rw [List.foldlM_map]; exact h)
      exact this
    have h2 : ¬ (freed.length > ls.length) := by omega
    simp [bind, Except.bind, pure, Except.pure, applyActions, hl, h2]

end Sia.Rhp
