import SiaProofs.Lemmas.LedgerC02Idx
import SiaProofs.Lemmas.LedgerC02Commit
/-!
# A client store driven by the element diffs of a block (spec for C06)

Written from the doc comments of `ApplyUpdate` / `RevertUpdate` and the `*ElementDiff` types
(`consensus/state.go`, `consensus/update.go`) — the same reading as
`harness/internal/chain/store.go`: the store holds every live element, keyed by id.
A map is a function `Id → Option α`, so that "same store" is plain equality.
-/
namespace Sia.Ledger

abbrev Map (α : Type) := Id → Option α

def Map.insert {α} (m : Map α) (k : Id) (v : α) : Map α := fun i => if i = k then some v else m i
def Map.erase {α} (m : Map α) (k : Id) : Map α := fun i => if i = k then none else m i
/-- the map holding the elements of a list (first match wins) -/
def Map.ofList {α} (key : α → Id) (l : List α) : Map α := fun i => l.find? (fun e => key e = i)

/-- what one diff does to the entry of its id -/
inductive Act (α : Type) where
  | keep | del | put (v : α)

def Act.run {α} (a : Act α) (m : Map α) (k : Id) : Map α :=
  match a with
  | .keep => m
  | .del => m.erase k
  | .put v => m.insert k v

def Act.at {α} (a : Act α) (old : Option α) : Option α :=
  match a with
  | .keep => old
  | .del => none
  | .put v => some v

theorem Act.run_same {α} (a : Act α) (m : Map α) (k : Id) : a.run m k k = a.at (m k) := by
  cases a <;> simp [Act.run, Act.at, Map.erase, Map.insert]

theorem Act.run_other {α} (a : Act α) (m : Map α) (k i : Id) (h : i ≠ k) : a.run m k i = m i := by
  cases a <;> simp [Act.run, Map.erase, Map.insert, h]

/-- folding diff actions over a list that has no diff for key `i` leaves entry `i` alone -/
theorem foldl_act_not_mem {δ α} (key : δ → Id) (act : δ → Act α) (l : List δ) (m : Map α) (i : Id)
    (h : ∀ d ∈ l, key d ≠ i) : (l.foldl (fun m d => (act d).run m (key d)) m) i = m i := by
  induction l generalizing m with
  | nil => rfl
  | cons d l ih =>
    rw [List.foldl_cons, ih _ (fun x hx => h x (List.mem_cons_of_mem _ hx))]
    exact Act.run_other _ _ _ _ (fun hh => h d List.mem_cons_self hh.symm)

/-- … and with pairwise distinct keys, entry `key d` ends as the action of `d` on the old entry -/
theorem foldl_act_mem {δ α} (key : δ → Id) (act : δ → Act α) (l : List δ) (hnd : (l.map key).Nodup)
    (m : Map α) (d : δ) (hd : d ∈ l) :
    (l.foldl (fun m d => (act d).run m (key d)) m) (key d) = (act d).at (m (key d)) := by
  induction l generalizing m with
  | nil => cases hd
  | cons x l ih =>
    rw [List.map_cons, List.nodup_cons] at hnd
    rw [List.foldl_cons]
    rcases List.mem_cons.1 hd with rfl | hd'
    · rw [foldl_act_not_mem]
      · exact Act.run_same _ _ _
      · intro y hy heq
        exact hnd.1 (List.mem_map.2 ⟨y, hy, heq⟩)
    · rw [ih hnd.2 _ hd']
      rw [Act.run_other]
      intro heq
      exact hnd.1 (List.mem_map.2 ⟨d, hd', heq⟩)

theorem ofList_mem {α} (key : α → Id) (l : List α) (hnd : (l.map key).Nodup) (e : α) (he : e ∈ l) :
    Map.ofList key l (key e) = some e := by
  unfold Map.ofList
  induction l with
  | nil => cases he
  | cons x l ih =>
    rw [List.map_cons, List.nodup_cons] at hnd
    rw [List.find?_cons]
    rcases List.mem_cons.1 he with rfl | he'
    · simp
    · have : key x ≠ key e := fun heq => hnd.1 (List.mem_map.2 ⟨e, he', heq.symm⟩)
      simp only [this, decide_false]
      exact ih hnd.2 he'

theorem ofList_not_mem {α} (key : α → Id) (l : List α) (i : Id) (h : ∀ e ∈ l, key e ≠ i) :
    Map.ofList key l i = none := by
  unfold Map.ofList
  rw [List.find?_eq_none]
  intro e he
  simpa using h e he

/-- revert after apply restores the map, if it does so entry-wise for every diff -/
theorem inverse_generic {δ α} (dkey : δ → Id) (aAct rAct : δ → Act α) (m : Map α) (ds : List δ)
    (hds : (ds.map dkey).Nodup)
    (h : ∀ d ∈ ds, (rAct d).at ((aAct d).at (m (dkey d))) = m (dkey d)) :
    ds.reverse.foldl (fun m d => (rAct d).run m (dkey d)) (ds.foldl (fun m d => (aAct d).run m (dkey d)) m) = m := by
  funext i
  have hrev : (ds.reverse.map dkey).Nodup := by
    rw [List.map_reverse, List.Nodup, List.pairwise_reverse]
    exact List.Pairwise.imp Ne.symm hds
  by_cases hex : ∃ d ∈ ds, dkey d = i
  · obtain ⟨d, hd, rfl⟩ := hex
    rw [foldl_act_mem dkey rAct _ hrev _ d (List.mem_reverse.2 hd), foldl_act_mem dkey aAct _ hds _ d hd]
    exact h d hd
  · have hno : ∀ d ∈ ds, dkey d ≠ i := fun d hd heq => hex ⟨d, hd, heq⟩
    rw [foldl_act_not_mem dkey rAct _ _ _ (fun d hd => hno d (List.mem_reverse.1 hd)),
      foldl_act_not_mem dkey aAct _ _ _ hno]

theorem find?_filter_of_imp {α} (p q : α → Bool) (l : List α) (h : ∀ e ∈ l, q e = true → p e = true) :
    (l.filter p).find? q = l.find? q := by
  induction l with
  | nil => rfl
  | cons x l ih =>
    have ih' := ih (fun e he => h e (List.mem_cons_of_mem _ he))
    by_cases hp : p x = true
    · rw [List.filter_cons_of_pos hp, List.find?_cons, List.find?_cons, ih']
    · have hq : q x = false := by
        cases hqx : q x with
        | false => rfl
        | true => exact absurd (h x List.mem_cons_self hqx) hp
      rw [List.filter_cons_of_neg hp, List.find?_cons, hq, ih']

/-- folding the apply actions over the store of a ledger gives the store of the committed ledger -/
theorem tracks_generic {α δ} (key : α → Id) (dkey : δ → Id) (act : δ → Act α) (keep : δ → Bool) (out : δ → α)
    (p : α → Bool) (l : List α) (ds : List δ) (hds : (ds.map dkey).Nodup)
    (hp : ∀ e, p e = true ↔ ∀ d ∈ ds, dkey d ≠ key e)
    (hout : ∀ d ∈ ds, key (out d) = dkey d)
    (hact : ∀ d ∈ ds, (act d).at (Map.ofList key l (dkey d)) = if keep d = true then some (out d) else none) :
    ds.foldl (fun m d => (act d).run m (dkey d)) (Map.ofList key l) =
      Map.ofList key (l.filter p ++ (ds.filter keep).map out) := by
  funext i
  have hkeys : ((ds.filter keep).map out).map key = (ds.filter keep).map dkey := by
    rw [List.map_map]
    apply List.map_congr_left
    intro d hd
    exact hout d (List.mem_filter.1 hd).1
  have hnd2 : (((ds.filter keep).map out).map key).Nodup := by
    rw [hkeys]
    exact (List.Sublist.map dkey List.filter_sublist).nodup hds
  show _ = (l.filter p ++ (ds.filter keep).map out).find? (fun e => key e = i)
  rw [List.find?_append]
  by_cases hex : ∃ d ∈ ds, dkey d = i
  · obtain ⟨d, hd, rfl⟩ := hex
    rw [foldl_act_mem dkey act _ hds _ d hd, hact d hd]
    have h1 : (l.filter p).find? (fun e => decide (key e = dkey d)) = none := by
      rw [List.find?_eq_none]
      intro e he
      have := (hp e).1 (List.mem_filter.1 he).2 d hd
      simpa using fun h => this h.symm
    rw [h1, Option.none_or]
    by_cases hk : keep d = true
    · rw [if_pos hk]
      have := ofList_mem key _ hnd2 (out d) (List.mem_map.2 ⟨d, List.mem_filter.2 ⟨hd, hk⟩, rfl⟩)
      rw [hout d hd] at this
      exact this.symm
    · rw [if_neg hk]
      symm
      rw [List.find?_eq_none]
      intro e he
      obtain ⟨d', hd', rfl⟩ := List.mem_map.1 he
      have hd'' := List.mem_filter.1 hd'
      simp only [decide_eq_true_eq]
      intro heq
      rw [hout d' hd''.1] at heq
      have := eq_of_nodup_map dkey hds hd''.1 hd heq
      subst this
      exact hk hd''.2
  · have hno : ∀ d ∈ ds, dkey d ≠ i := fun d hd heq => hex ⟨d, hd, heq⟩
    rw [foldl_act_not_mem dkey act _ _ _ hno]
    have h2 : ((ds.filter keep).map out).find? (fun e => decide (key e = i)) = none := by
      rw [List.find?_eq_none]
      intro e he
      obtain ⟨d', hd', rfl⟩ := List.mem_map.1 he
      have hd'' := List.mem_filter.1 hd'
      simp only [decide_eq_true_eq]
      rw [hout d' hd''.1]
      exact hno d' hd''.1
    rw [h2, Option.or_none, find?_filter_of_imp]
    · rfl
    · intro e _ hq
      rw [hp]
      intro d hd heq
      simp only [decide_eq_true_eq] at hq
      exact hno d hd (heq.trans hq)

-- ------------------------------------------------------------------ the store and its two updates

structure Store where
  sc : Map ScElem
  sf : Map SfElem
  fc1 : Map Fc1Elem
  fc2 : Map Fc2Elem

/-- the store of a full node that is in sync with ledger `L` -/
def Store.ofLedger (L : Ledger) : Store :=
  { sc := Map.ofList (·.id) L.sc, sf := Map.ofList (·.id) L.sf,
    fc1 := Map.ofList (·.id) L.fc1, fc2 := Map.ofList (·.id) L.fc2 }

/-- apply: a spent element is deleted, else a created one is inserted -/
def ScDiff.applyAct (d : ScDiff) : Act ScElem := if d.spent then .del else if d.created then .put d.e else .keep
/-- revert: a created element is deleted, else a spent one is restored -/
def ScDiff.revertAct (d : ScDiff) : Act ScElem := if d.created then .del else if d.spent then .put d.e else .keep
def SfDiff.applyAct (d : SfDiff) : Act SfElem := if d.spent then .del else if d.created then .put d.e else .keep
def SfDiff.revertAct (d : SfDiff) : Act SfElem := if d.created then .del else if d.spent then .put d.e else .keep
/-- apply: resolved ⇒ delete; revised ⇒ store the revision; created ⇒ insert -/
def Fc1Diff.applyAct (d : Fc1Diff) : Act Fc1Elem :=
  if d.resolved then .del
  else match d.revision with
    | some r => .put { d.e with fc := r }
    | none => if d.created then .put d.e else .keep
/-- revert: created ⇒ delete; otherwise back to the element as it was before the block -/
def Fc1Diff.revertAct (d : Fc1Diff) : Act Fc1Elem := if d.created then .del else .put d.e
def Fc2Diff.applyAct (d : Fc2Diff) : Act Fc2Elem :=
  if d.resolution.isSome then .del
  else match d.revision with
    | some r => .put { d.e with fc := r }
    | none => if d.created then .put d.e else .keep
def Fc2Diff.revertAct (d : Fc2Diff) : Act Fc2Elem := if d.created then .del else .put d.e

/-- `Store.Apply` with the four diff lists of an apply update -/
def applyStore (S : Store) (ms : Mid) : Store :=
  { sc := ms.sces.foldl (fun m d => d.applyAct.run m d.e.id) S.sc,
    sf := ms.sfes.foldl (fun m d => d.applyAct.run m d.e.id) S.sf,
    fc1 := ms.fces.foldl (fun m d => d.applyAct.run m d.e.id) S.fc1,
    fc2 := ms.v2fces.foldl (fun m d => d.applyAct.run m d.e.id) S.fc2 }

/-- `Store.Revert` with the four diff lists of a revert update (each the apply list reversed, see
`C06.revertDiffs`) -/
def revertStore (S : Store) (sces : List ScDiff) (sfes : List SfDiff) (fces : List Fc1Diff) (v2fces : List Fc2Diff) : Store :=
  { sc := sces.foldl (fun m d => d.revertAct.run m d.e.id) S.sc,
    sf := sfes.foldl (fun m d => d.revertAct.run m d.e.id) S.sf,
    fc1 := fces.foldl (fun m d => d.revertAct.run m d.e.id) S.fc1,
    fc2 := v2fces.foldl (fun m d => d.revertAct.run m d.e.id) S.fc2 }

-- ------------------------------------------------------------------ hypotheses on ledger and block

/-- element ids are unique within each kind of the ledger -/
structure LedgerIds (L : Ledger) : Prop where
  sc : (L.sc.map (·.id)).Nodup
  sf : (L.sf.map (·.id)).Nodup
  fc1 : (L.fc1.map (·.id)).Nodup
  fc2 : (L.fc2.map (·.id)).Nodup

/-- every diff that was not created in the block carries an element of the ledger the block was
applied to (true for validated blocks: `LedgerC06Genuine.lean`) -/
structure Genuine (L : Ledger) (ms : Mid) : Prop where
  sc : ∀ d ∈ ms.sces, d.created = false → d.e ∈ L.sc
  sf : ∀ d ∈ ms.sfes, d.created = false → d.e ∈ L.sf
  fc1 : ∀ d ∈ ms.fces, d.created = false → d.e ∈ L.fc1
  fc2 : ∀ d ∈ ms.v2fces, d.created = false → d.e ∈ L.fc2

/-- ids created by the block are not ids of live elements (ids are hashes of fresh content) -/
structure FreshCreated (L : Ledger) (ms : Mid) : Prop where
  sc : ∀ d ∈ ms.sces, d.created = true → ∀ e ∈ L.sc, e.id ≠ d.e.id
  sf : ∀ d ∈ ms.sfes, d.created = true → ∀ e ∈ L.sf, e.id ≠ d.e.id
  fc1 : ∀ d ∈ ms.fces, d.created = true → ∀ e ∈ L.fc1, e.id ≠ d.e.id
  fc2 : ∀ d ∈ ms.v2fces, d.created = true → ∀ e ∈ L.fc2, e.id ≠ d.e.id

end Sia.Ledger
