import SiaModel.Ledger.Model
/-!
# C01 helper lemmas, part 1: the `VM` monad, checked arithmetic, loops

Inversion lemmas for `Except Fail`, the currency helpers, checked sums, and the
conversion of `for … in … do` loops (`forIn`) into `List.foldlM`.
-/
namespace Sia.Ledger

/-- `omega` does not look through the abbreviation `Cur`; unfold it first -/
macro "c1_omega" : tactic => `(tactic| ((try unfold Cur at *); omega))

theorem bind_eq_ok {α β : Type} {x : VM α} {f : α → VM β} {b : β} :
    (x >>= f) = .ok b ↔ ∃ a, x = .ok a ∧ f a = .ok b := by
  cases x with
  | error e => constructor
               · intro h; cases h
               · rintro ⟨a, h, _⟩; cases h
  | ok a => constructor
            · intro h; exact ⟨a, rfl, h⟩
            · rintro ⟨a', h, h'⟩; cases h; exact h'

theorem pure_eq_ok_c1 {α : Type} {a b : α} : (pure a : VM α) = .ok b ↔ a = b := by
  constructor
  · intro h; cases h; rfl
  · intro h; rw [h]; rfl

@[simp] theorem reject_ne_ok_c1 {α : Type} {m : String} {a : α} : (reject m : VM α) ≠ .ok a := by
  intro h; cases h
@[simp] theorem gopanic_ne_ok_c1 {α : Type} {m : String} {a : α} : (gopanic m : VM α) ≠ .ok a := by
  intro h; cases h

theorem addC_ok {a b c : Cur} : addC a b = .ok c ↔ (a + b < curLimit ∧ c = a + b) := by
  unfold addC
  split
  · rename_i h; constructor
    · intro e; cases e; exact ⟨h, rfl⟩
    · rintro ⟨_, e⟩; rw [e]; rfl
  · rename_i h; constructor
    · intro e; cases e
    · rintro ⟨h', _⟩; exact absurd h' h

theorem subC_ok {a b c : Cur} : subC a b = .ok c ↔ (b ≤ a ∧ c = a - b) := by
  unfold subC
  split
  · rename_i h; constructor
    · intro e; cases e; exact ⟨h, rfl⟩
    · rintro ⟨_, e⟩; rw [e]; rfl
  · rename_i h; constructor
    · intro e; cases e
    · rintro ⟨h', _⟩; exact absurd h' h

theorem mul64C_ok {a n c : Nat} : mul64C a n = .ok c ↔ (a * n < curLimit ∧ c = a * n) := by
  unfold mul64C
  split
  · rename_i h; constructor
    · intro e; cases e; exact ⟨h, rfl⟩
    · rintro ⟨_, e⟩; rw [e]; rfl
  · rename_i h; constructor
    · intro e; cases e
    · rintro ⟨h', _⟩; exact absurd h' h

/-- a `foldlM` of unchecked additions that returns has computed the exact sum -/
theorem foldlM_addC {α : Type} (g : α → Cur) (l : List α) (s0 r : Cur)
    (h : l.foldlM (fun s x => addC s (g x)) s0 = .ok r) : r = s0 + (l.map g).sum := by
  induction l generalizing s0 with
  | nil => simp only [List.foldlM_nil] at h; cases h; simp
  | cons a l ih =>
    rw [List.foldlM_cons, bind_eq_ok] at h
    obtain ⟨s1, h1, h2⟩ := h
    rw [addC_ok] at h1
    rw [ih s1 h2, h1.2]; simp [Nat.add_assoc]

theorem sumOuts_ok {l : List ScOut} {r : Cur} (h : sumOuts l = .ok r) : r = (l.map (·.value)).sum := by
  have := foldlM_addC (fun o : ScOut => o.value) l 0 r h
  simpa using this

theorem sumChecked_aux (l : List Cur) (s0 : Option Cur) (s : Cur)
    (h : l.foldl (fun s v => match s with
      | some s => if s + v < curLimit then some (s + v) else none
      | none => none) s0 = some s) : ∃ a, s0 = some a ∧ s = a + l.sum := by
  induction l generalizing s0 with
  | nil => simp only [List.foldl_nil] at h; exact ⟨s, h, by simp⟩
  | cons v l ih =>
    rw [List.foldl_cons] at h
    obtain ⟨a, ha, hs⟩ := ih _ h
    cases s0 with
    | none => simp at ha
    | some a0 =>
      refine ⟨a0, rfl, ?_⟩
      simp only at ha
      split at ha
      · cases ha; rw [hs]; simp [Nat.add_assoc]
      · cases ha

/-- `sumChecked` is exact: when it returns, it returns the true (mathematical) sum -/
theorem sumChecked_some {l : List Cur} {s : Cur} (h : sumChecked l = some s) : s = l.sum := by
  obtain ⟨a, ha, hs⟩ := sumChecked_aux l (some 0) s h
  cases ha; simpa using hs

/-- a `for` loop whose body always yields is a `foldlM` -/
theorem forIn_eq_foldlM_c1 {α β : Type} (l : List α) (init : β) (body : α → β → VM (ForInStep β))
    (f : β → α → VM β) (h : ∀ a b, body a b = (f b a >>= fun r => pure (ForInStep.yield r))) :
    forIn l init body = l.foldlM f init := by
  induction l generalizing init with
  | nil => rfl
  | cons a l ih =>
    rw [List.forIn_cons, List.foldlM_cons, h]
    cases hf : f init a with
    | error e => rfl
    | ok b => exact ih b

/-- invariant rule for `foldlM` in `VM`; the invariant may mention the remaining input -/
theorem foldlM_inv_c1 {α β : Type} (f : β → α → VM β) (I : β → List α → Prop)
    (step : ∀ b a rest b', I b (a :: rest) → f b a = .ok b' → I b' rest) :
    ∀ (l : List α) (b b' : β), I b l → l.foldlM f b = .ok b' → I b' [] := by
  intro l
  induction l with
  | nil => intro b b' hI h; simp only [List.foldlM_nil] at h; cases h; exact hI
  | cons a l ih =>
    intro b b' hI h
    rw [List.foldlM_cons, bind_eq_ok] at h
    obtain ⟨b1, h1, h2⟩ := h
    exact ih b1 b' (step b a l b1 hI h1) h2

end Sia.Ledger
