/-
  SiaProofs.Lemmas.Outline — OutlineBlock / Complete / Missing (gateway/outline.go).
-/
import SiaModel.Gateway.Outline
namespace Sia.Outline

section
variable {Tx1 Tx2 H Addr : Type} [DecidableEq H] (env : Env Tx1 Tx2 H Addr)

/-- collision freedom of the transaction leaf hashes, in symbolic form (a hypothesis):
    `hashAll(leafHashPrefix, txn)` is injective on v1 and on v2 transactions and never
    coincides across the two kinds -/
structure EnvOK : Prop where
  inj1 : ∀ a b : Tx1, env.leaf1 a = env.leaf1 b → a = b
  inj2 : ∀ a b : Tx2, env.leaf2 a = env.leaf2 b → a = b
  disj : ∀ (a : Tx1) (b : Tx2), env.leaf1 a ≠ env.leaf2 b

theorem lookupLast_some {T : Type} (hashOf : T → H) (pool : List T) (h : H) (t : T)
    (hl : lookupLast hashOf pool h = some t) : hashOf t = h ∧ t ∈ pool := by
  unfold lookupLast at hl
  have h1 := List.find?_some hl
  have h2 := List.mem_of_find?_eq_some hl
  exact ⟨by simpa using h1, by simpa using h2⟩

theorem lookupLast_none {T : Type} (hashOf : T → H) (pool : List T) (h : H)
    (hn : ∀ t ∈ pool, hashOf t ≠ h) : lookupLast hashOf pool h = none := by
  unfold lookupLast
  rw [List.find?_eq_none]
  intro t ht
  simpa using hn t (by simpa using ht)

theorem lookupLast_mem {T : Type} (hashOf : T → H) (pool : List T) (h : H)
    (hm : h ∈ pool.map hashOf) : ∃ t, lookupLast hashOf pool h = some t := by
  obtain ⟨t0, ht0, rfl⟩ := List.mem_map.1 hm
  cases hl : lookupLast hashOf pool (hashOf t0) with
  | some t => exact ⟨t, rfl⟩
  | none =>
    unfold lookupLast at hl
    have := List.find?_eq_none.1 hl t0 (by simpa using ht0)
    simp at this

theorem filterMap_ite {α : Type} (p : α → Bool) (l : List α) :
    l.filterMap (fun a => if p a then some a else none) = l.filter p := by
  induction l with
  | nil => rfl
  | cons a t ih => by_cases h : p a = true <;> simp [List.filterMap_cons, List.filter_cons, h, ih]

/-- a v1 transaction of the block is available after completion: it was not omitted, or
    the pool has it -/
def present1 (om1 : List Tx1) (om2 : List Tx2) (pool1 : List Tx1) (t : Tx1) : Bool :=
  !(decide (env.leaf1 t ∈ om1.map env.leaf1 ++ om2.map env.leaf2)) || decide (env.leaf1 t ∈ pool1.map env.leaf1)

def present2 (om1 : List Tx1) (om2 : List Tx2) (pool2 : List Tx2) (t : Tx2) : Bool :=
  !(decide (env.leaf2 t ∈ om1.map env.leaf1 ++ om2.map env.leaf2)) || decide (env.leaf2 t ∈ pool2.map env.leaf2)

/-- the outline entry of a block transaction after OutlineBlock and the fill step of Complete -/
def entry1 (om1 : List Tx1) (om2 : List Tx2) (pool1 : List Tx1) (pool2 : List Tx2) (t : Tx1) : OTx Tx1 Tx2 H :=
  fillOne env pool1 pool2
    (if env.leaf1 t ∈ om1.map env.leaf1 ++ om2.map env.leaf2 then ⟨env.leaf1 t, none, none⟩ else ⟨env.leaf1 t, some t, none⟩)

def entry2 (om1 : List Tx1) (om2 : List Tx2) (pool1 : List Tx1) (pool2 : List Tx2) (t : Tx2) : OTx Tx1 Tx2 H :=
  fillOne env pool1 pool2
    (if env.leaf2 t ∈ om1.map env.leaf1 ++ om2.map env.leaf2 then ⟨env.leaf2 t, none, none⟩ else ⟨env.leaf2 t, none, some t⟩)

theorem entry1_spec (ok : EnvOK env) (om1 : List Tx1) (om2 : List Tx2) (pool1 : List Tx1) (pool2 : List Tx2) (t : Tx1) :
    entry1 env om1 om2 pool1 pool2 t =
      ⟨env.leaf1 t, if present1 env om1 om2 pool1 t then some t else none, none⟩ := by
  unfold entry1 present1
  have hno2 : lookupLast env.leaf2 pool2 (env.leaf1 t) = none :=
    lookupLast_none _ _ _ (fun t' _ e => ok.disj t t' e.symm)
  by_cases hr : env.leaf1 t ∈ om1.map env.leaf1 ++ om2.map env.leaf2
  · simp only [hr, if_true, fillOne, Option.isNone_none, Bool.and_self, hno2, decide_true, Bool.not_true, Bool.false_or]
    by_cases hp : env.leaf1 t ∈ pool1.map env.leaf1
    · obtain ⟨t', ht'⟩ := lookupLast_mem env.leaf1 pool1 _ hp
      have := ok.inj1 _ _ (lookupLast_some _ _ _ _ ht').1
      subst this
      simp [ht', hp]
    · have : lookupLast env.leaf1 pool1 (env.leaf1 t) = none :=
        lookupLast_none _ _ _ (fun t' ht' e => hp (List.mem_map.2 ⟨t', ht', e⟩))
      simp [this, hp]
  · simp [hr, fillOne]

theorem entry2_spec (ok : EnvOK env) (om1 : List Tx1) (om2 : List Tx2) (pool1 : List Tx1) (pool2 : List Tx2) (t : Tx2) :
    entry2 env om1 om2 pool1 pool2 t =
      ⟨env.leaf2 t, none, if present2 env om1 om2 pool2 t then some t else none⟩ := by
  unfold entry2 present2
  have hno1 : lookupLast env.leaf1 pool1 (env.leaf2 t) = none :=
    lookupLast_none _ _ _ (fun t' _ e => ok.disj t' t e)
  by_cases hr : env.leaf2 t ∈ om1.map env.leaf1 ++ om2.map env.leaf2
  · simp only [hr, if_true, fillOne, Option.isNone_none, Bool.and_self, hno1, decide_true, Bool.not_true, Bool.false_or]
    by_cases hp : env.leaf2 t ∈ pool2.map env.leaf2
    · obtain ⟨t', ht'⟩ := lookupLast_mem env.leaf2 pool2 _ hp
      have := ok.inj2 _ _ (lookupLast_some _ _ _ _ ht').1
      subst this
      simp [ht', hp]
    · have : lookupLast env.leaf2 pool2 (env.leaf2 t) = none :=
        lookupLast_none _ _ _ (fun t' ht' e => hp (List.mem_map.2 ⟨t', ht', e⟩))
      simp [this, hp]
  · simp [hr, fillOne]

/-- the filled transaction list of `Complete` applied to a fresh outline -/
theorem filled_eq (b : Block Tx1 Tx2 H Addr) (om1 : List Tx1) (om2 : List Tx2) (pool1 : List Tx1) (pool2 : List Tx2) :
    (outlineBlock env b om1 om2).transactions.map (fillOne env pool1 pool2) =
      b.txns.map (entry1 env om1 om2 pool1 pool2) ++ b.v2txns.map (entry2 env om1 om2 pool1 pool2) := by
  simp only [outlineBlock, BlockOutline.removeTransactions, List.map_append, List.map_map]
  congr 1 <;> (apply List.map_congr_left; intro t _; simp only [Function.comp, entry1, entry2]; split <;> rfl)

theorem filterMap_none {α β : Type} (f : α → Option β) (l : List α) (h : ∀ a ∈ l, f a = none) : l.filterMap f = [] := by
  induction l with
  | nil => rfl
  | cons a t ih => simp [List.filterMap_cons, h a (by simp), ih (fun x hx => h x (List.mem_cons_of_mem _ hx))]

/-- **What Complete returns on a fresh outline**: the block's transactions that were not
    omitted or are in the pool, in block order; and as missing exactly the hashes of the
    others, in block order. -/
theorem complete_spec (ok : EnvOK env) (b : Block Tx1 Tx2 H Addr) (om1 : List Tx1) (om2 : List Tx2)
    (pool1 : List Tx1) (pool2 : List Tx2) :
    ((outlineBlock env b om1 om2).complete env pool1 pool2).1.txns = b.txns.filter (present1 env om1 om2 pool1) ∧
    ((outlineBlock env b om1 om2).complete env pool1 pool2).1.v2txns = b.v2txns.filter (present2 env om1 om2 pool2) ∧
    ((outlineBlock env b om1 om2).complete env pool1 pool2).2.1 =
      (b.txns.filter (fun t => !present1 env om1 om2 pool1 t)).map env.leaf1 ++
      (b.v2txns.filter (fun t => !present2 env om1 om2 pool2 t)).map env.leaf2 := by
  have hf := filled_eq env b om1 om2 pool1 pool2
  have e1 : b.txns.map (entry1 env om1 om2 pool1 pool2) =
      b.txns.map (fun t => (⟨env.leaf1 t, if present1 env om1 om2 pool1 t then some t else none, none⟩ : OTx Tx1 Tx2 H)) :=
    List.map_congr_left (fun t _ => entry1_spec env ok om1 om2 pool1 pool2 t)
  have e2 : b.v2txns.map (entry2 env om1 om2 pool1 pool2) =
      b.v2txns.map (fun t => (⟨env.leaf2 t, none, if present2 env om1 om2 pool2 t then some t else none⟩ : OTx Tx1 Tx2 H)) :=
    List.map_congr_left (fun t _ => entry2_spec env ok om1 om2 pool1 pool2 t)
  rw [e1, e2] at hf
  simp only [BlockOutline.complete, BlockOutline.missing, hf]
  refine ⟨?_, ?_, ?_⟩
  · rw [List.filterMap_append, List.filterMap_map, List.filterMap_map]
    rw [filterMap_none (_ ∘ _) b.v2txns (fun t _ => rfl), List.append_nil]
    exact filterMap_ite _ _
  · rw [List.filterMap_append, List.filterMap_map, List.filterMap_map]
    rw [filterMap_none (_ ∘ _) b.txns (fun t _ => by
      simp only [Function.comp]; cases present1 env om1 om2 pool1 t <;> simp), List.nil_append]
    have : ((fun t : OTx Tx1 Tx2 H => if t.txn.isNone = true then t.v2txn else none) ∘
        fun t => (⟨env.leaf2 t, none, if present2 env om1 om2 pool2 t then some t else none⟩ : OTx Tx1 Tx2 H)) =
        fun t => if present2 env om1 om2 pool2 t then some t else none := by
      funext t; simp [Function.comp]
    rw [this]
    exact filterMap_ite _ _
  · rw [List.filter_append, List.map_append, List.filter_map, List.filter_map, List.map_map, List.map_map]
    congr 1
    · have : ((fun t : OTx Tx1 Tx2 H => t.txn.isNone && t.v2txn.isNone) ∘
          fun t => (⟨env.leaf1 t, if present1 env om1 om2 pool1 t then some t else none, none⟩ : OTx Tx1 Tx2 H)) =
          fun t => !present1 env om1 om2 pool1 t := by
        funext t; simp only [Function.comp]; cases present1 env om1 om2 pool1 t <;> simp
      rw [this]; rfl
    · have : ((fun t : OTx Tx1 Tx2 H => t.txn.isNone && t.v2txn.isNone) ∘
          fun t => (⟨env.leaf2 t, none, if present2 env om1 om2 pool2 t then some t else none⟩ : OTx Tx1 Tx2 H)) =
          fun t => !present2 env om1 om2 pool2 t := by
        funext t; simp only [Function.comp]; cases present2 env om1 om2 pool2 t <;> simp
      rw [this]; rfl

theorem outline_hashes (b : Block Tx1 Tx2 H Addr) (om1 : List Tx1) (om2 : List Tx2) :
    (outlineBlock env b om1 om2).transactions.map (·.hash) = b.txns.map env.leaf1 ++ b.v2txns.map env.leaf2 := by
  simp only [outlineBlock, BlockOutline.removeTransactions, List.map_append, List.map_map]
  congr 1 <;> (apply List.map_congr_left; intro t _; simp only [Function.comp]; split <;> rfl)

end
end Sia.Outline
