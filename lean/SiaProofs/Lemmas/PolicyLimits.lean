import SiaProofs.Lemmas.PolicyVerify
/-! Hypothesis-free facts about accepted runs of the verifier (C14): counters, limits,
    revealed-children count, unlock conditions as sub-policies. -/
namespace Sia.Policy

mutual
theorem verifyP_limits (E : Env) (p : Policy) (st st' : St) (h0 : st.total ≤ maxPolicies)
    (h : verifyP E p st = .ok st') :
    st'.total = st.total + p.subCount ∧ st'.total ≤ maxPolicies ∧ p.breadthLe maxChildren = true := by
  match p with
  | .above x =>
    simp only [verifyP] at h; split at h <;> simp at h; subst h; simp [Policy.subCount, Policy.breadthLe, h0]
  | .after x =>
    simp only [verifyP] at h; split at h <;> simp at h; subst h; simp [Policy.subCount, Policy.breadthLe, h0]
  | .pk k =>
    simp only [verifyP] at h
    split at h
    · split at h <;> simp at h; subst h; simp [Policy.subCount, Policy.breadthLe, h0]
    · simp at h
  | .hash k =>
    simp only [verifyP] at h
    split at h
    · split at h <;> simp at h; subst h; simp [Policy.subCount, Policy.breadthLe, h0]
    · simp at h
  | .opaque a => simp [verifyP] at h
  | .uc c =>
    simp only [verifyP] at h
    split at h
    · split at h
      · simp at h
      · split at h <;> simp at h; subst h; simp [Policy.subCount, Policy.breadthLe, h0]
    · simp at h
  | .thresh n subs =>
    simp only [verifyP] at h
    split at h
    · simp at h
    · rename_i hc
      have hc : st.total + subs.length ≤ maxPolicies ∧ subs.length ≤ maxChildren := by
        simp only [not_or] at hc; omega
      obtain ⟨t1, t2, t3⟩ := verifySubs_limits E n subs 0 _ st' (by simpa using hc.1) h
      simp only [Policy.subCount, Policy.breadthLe, Bool.and_eq_true, decide_eq_true_eq]
      simp only at t1
      exact ⟨by omega, t2, hc.2, t3⟩
theorem verifySubs_limits (E : Env) (n : Nat) (subs : List Policy) (sat : Nat) (st st' : St)
    (h0 : st.total ≤ maxPolicies) (h : verifySubs E n subs sat st = .ok st') :
    st'.total = st.total + subCountList subs ∧ st'.total ≤ maxPolicies
      ∧ breadthLeList maxChildren subs = true := by
  match subs with
  | [] =>
    simp only [verifySubs] at h; split at h <;> simp at h; subst h; simp [subCountList, breadthLeList, h0]
  | c :: rest =>
    simp only [verifySubs] at h
    split at h
    · simp at h
    · split at h
      · rename_i hop
        obtain ⟨t1, t2, t3⟩ := verifySubs_limits E n rest sat st st' h0 h
        have h1 : c.subCount = 0 := by cases c <;> simp_all [Policy.isOpaque, Policy.subCount]
        have h2 : c.breadthLe maxChildren = true := by cases c <;> simp_all [Policy.isOpaque, Policy.breadthLe]
        simp only [subCountList, breadthLeList, Bool.and_eq_true]
        exact ⟨by omega, t2, h2, t3⟩
      · split at h
        · simp at h
        · split at h
          · simp at h
          · rename_i st1 hv
            obtain ⟨a1, a2, a3⟩ := verifyP_limits E c st st1 h0 hv
            obtain ⟨b1, b2, b3⟩ := verifySubs_limits E n rest (sat + 1) st1 st' a2 h
            simp only [subCountList, breadthLeList, Bool.and_eq_true]
            exact ⟨by omega, b2, a3, b3⟩
end

/-- number of revealed (non-opaque) children -/
def revealed (subs : List Policy) : Nat := (subs.filter (fun c => !c.isOpaque)).length

/-- the `satisfied` counter ends at `n` exactly when the number of revealed children is `n` -/
theorem verifySubs_revealed (E : Env) (n : Nat) (subs : List Policy) (sat : Nat) (st st' : St)
    (h : verifySubs E n subs sat st = .ok st') : sat + revealed subs = n := by
  induction subs generalizing sat st with
  | nil => simp only [verifySubs] at h; split at h <;> simp_all [revealed]
  | cons c rest ih =>
    simp only [verifySubs] at h
    split at h
    · simp at h
    · split at h
      · rename_i hop; have := ih _ _ h; simp_all [revealed]
      · rename_i hop
        split at h
        · simp at h
        · split at h
          · simp at h
          · have := ih _ _ h; simp_all [revealed]; omega

/-- an unlock-conditions child makes the threshold loop fail whatever else happens -/
theorem verifySubs_uc_child (E : Env) (n : Nat) (subs : List Policy) (sat : Nat) (st st' : St)
    (c : UnlockConditions) (hc : Policy.uc c ∈ subs) : verifySubs E n subs sat st ≠ .ok st' := by
  induction subs generalizing sat st with
  | nil => simp at hc
  | cons x rest ih =>
    simp only [verifySubs]
    rcases List.mem_cons.1 hc with rfl | hc
    · simp [Policy.isUC]
    · split
      · simp
      · split
        · exact ih _ _ hc
        · split
          · simp
          · split
            · simp
            · exact ih _ _ hc

end Sia.Policy
