import SiaProofs.Lemmas.MerkleRhpRange
/-!
  Helper lemmas for C16, part 4: counting the hashes of a range proof
  (`RangeProofSize` = popcount(start) + zero bits of `end-1` below the top differing bit).
-/
set_option linter.unusedVariables false
set_option linter.unusedSectionVars false
namespace Sia.Rhp
open HashOps

variable {H : Type} [HashOps H]

/-! ### popcount -/

theorem popcount_unfold (x : Nat) : popcount x = x % 2 + popcount (x / 2) := by
  by_cases h : x = 0
  · subst h; rw [popcount]; simp
  · rw [popcount]; simp [h]

theorem popcount_zero : popcount 0 = 0 := by rw [popcount]; simp

theorem popcount_pow_add : ∀ (k m : Nat), m < 2 ^ k → popcount (2 ^ k + m) = 1 + popcount m := by
  intro k
  induction k with
  | zero =>
    intro m hm
    have : m = 0 := by simpa using hm
    subst this
    rw [popcount_unfold]
  | succ k ih =>
    intro m hm
    rw [two_pow_succ'] at hm
    rw [popcount_unfold (2 ^ (k + 1) + m), popcount_unfold m, two_pow_succ']
    have e1 : (2 * 2 ^ k + m) % 2 = m % 2 := by omega
    have e2 : (2 * 2 ^ k + m) / 2 = 2 ^ k + m / 2 := by omega
    rw [e1, e2, ih (m / 2) (by omega)]
    omega

theorem popcount_high {r : Nat} (hr : r ≠ 0) : popcount r = 1 + popcount (r - 2 ^ r.log2) := by
  have h1 := Nat.log2_self_le hr
  have h2 := @Nat.lt_log2_self r
  rw [two_pow_succ'] at h2
  have := popcount_pow_add r.log2 (r - 2 ^ r.log2) (by omega)
  rw [← this]
  congr 1; omega

/-! ### left of the range: `popcount start` hashes -/

theorem diffRangeCount_unfold (i j : Nat) :
    diffRangeCount i j = if i < j then 1 + diffRangeCount (i + nextSubtreeSize i j) j else 0 := by
  rw [diffRangeCount]
  by_cases h : i < j <;> simp [h]

theorem buildRange_length_inner (ls : List H) (j : Nat) (hj : j ≤ ls.length) :
    ∀ (d i : Nat), j - i = d → (buildRange ls i j).length = diffRangeCount i j := by
  intro d
  induction d using Nat.strongRecOn with
  | _ d ih =>
    intro i hd
    rw [diffRangeCount_unfold]
    by_cases hlt : i < j
    · obtain ⟨k, hk, hdvd, hle⟩ := nss_spec hlt
      have hp := Nat.two_pow_pos k
      have hnc : ¬ (i + nextSubtreeSize i j > ls.length) := by rw [hk]; omega
      rw [buildRange_step ls i j ⟨hlt, by omega⟩]
      simp only [hnc, if_false, hlt, if_true, List.length_cons]
      rw [ih (j - (i + nextSubtreeSize i j)) (by rw [hk]; omega) _ rfl]
      omega
    · rw [buildRange_done ls i j (by omega)]
      simp [hlt]

theorem diffRangeCount_popcount :
    ∀ (r i j : Nat), j - i = r → i ≤ j → (i = 0 ∨ r < 2 ^ tz i) → diffRangeCount i j = popcount r := by
  intro r
  induction r using Nat.strongRecOn with
  | _ r ih =>
    intro i j hr hij hal
    rw [diffRangeCount_unfold]
    by_cases hlt : i < j
    · have hr0 : r ≠ 0 := by omega
      have hl1 := Nat.log2_self_le hr0
      have hl2 := @Nat.lt_log2_self r
      rw [two_pow_succ'] at hl2
      have hp := Nat.two_pow_pos r.log2
      -- the next subtree is the top bit of the remainder
      have hn : nextSubtreeSize i j = 2 ^ r.log2 := by
        unfold nextSubtreeSize
        simp only [hr]
        cases hal with
        | inl h0 => simp [h0]
        | inr h1 =>
          have : r.log2 < tz i := (Nat.log2_lt hr0).2 h1
          simp [this]
      simp only [hlt, if_true, hn]
      -- alignment of the new position
      have hdvd1 : 2 ^ (r.log2 + 1) ∣ i := by
        cases hal with
        | inl h0 => rw [h0]; exact Nat.dvd_zero _
        | inr h1 =>
          have hi : i ≠ 0 := by
            intro h; subst h; simp [tz] at h1; omega
          have : r.log2 < tz i := (Nat.log2_lt hr0).2 h1
          exact (pow_dvd_iff_le_tz _ i hi).2 (by omega)
      have hdvd0 : 2 ^ r.log2 ∣ i := Nat.dvd_trans (Nat.pow_dvd_pow 2 (by omega)) hdvd1
      have htz : tz (i + 2 ^ r.log2) = r.log2 := by
        apply tz_unique (by omega) (Nat.dvd_add hdvd0 (Nat.dvd_refl _))
        intro h
        have h' : 2 ^ (r.log2 + 1) ∣ 2 ^ r.log2 := (Nat.dvd_add_right hdvd1).1 h
        have := Nat.le_of_dvd hp h'
        rw [two_pow_succ'] at this; omega
      rw [ih (r - 2 ^ r.log2) (by omega) (i + 2 ^ r.log2) j (by omega) (by omega)
        (Or.inr (by rw [htz]; omega))]
      rw [popcount_high hr0]
    · have : r = 0 := by omega
      subst this
      simp [hlt, popcount_zero]

theorem buildRange_length_left (ls : List H) (s : Nat) (hs : s ≤ ls.length) :
    (buildRange ls 0 s).length = popcount s := by
  rw [buildRange_length_inner ls s hs s 0 rfl]
  exact diffRangeCount_popcount s 0 s rfl (Nat.zero_le _) (Or.inl rfl)

/-! ### right of the range -/

/-- steps `x ↦ x + 2^tz(x+1)` (set the lowest zero bit) until `x ≥ m` -/
def rcount (x m : Nat) : Nat :=
  if h : x < m then 1 + rcount (x + 2 ^ tz (x + 1)) m else 0
termination_by m - x
decreasing_by
  have := Nat.two_pow_pos (tz (x + 1))
  omega

theorem rcount_unfold (x m : Nat) :
    rcount x m = if x < m then 1 + rcount (x + 2 ^ tz (x + 1)) m else 0 := by
  rw [rcount]
  by_cases h : x < m <;> simp [h]

theorem rcount_odd : ∀ (d x m : Nat), m - x = d → x % 2 = 1 → rcount x m = rcount (x / 2) (m / 2) := by
  intro d
  induction d using Nat.strongRecOn with
  | _ d ih =>
    intro x m hd hodd
    rw [rcount_unfold x m, rcount_unfold (x / 2) (m / 2)]
    by_cases hlt : x < m
    · have hlt2 : x / 2 < m / 2 := by omega
      simp only [hlt, hlt2, if_true]
      have e1 : tz (x + 1) = 1 + tz (x / 2 + 1) := by
        rw [tz_even (by omega) (by omega)]
        congr 2; omega
      have hp := Nat.two_pow_pos (tz (x / 2 + 1))
      have e2 : (2:Nat) ^ (1 + tz (x / 2 + 1)) = 2 * 2 ^ tz (x / 2 + 1) := by
        rw [Nat.add_comm, two_pow_succ']
      rw [e1, e2]
      rw [ih (m - (x + 2 * 2 ^ tz (x / 2 + 1))) (by omega) _ m rfl (by omega)]
      congr 2; omega
    · have hlt2 : ¬ (x / 2 < m / 2) := by omega
      simp [hlt, hlt2]

theorem diffLen_self (x : Nat) : diffLen x x = 0 := by rw [diffLen]; simp

theorem diffLen_ne {x m : Nat} (h : x ≠ m) : diffLen x m = diffLen (x / 2) (m / 2) + 1 := by
  rw [diffLen]; simp [h]; omega

theorem rcount_eq : ∀ (L x m : Nat), x ≤ m → m < 2 ^ L → rcount x m = zerosBelow x (diffLen x m) := by
  intro L
  induction L with
  | zero =>
    intro x m hxm hm
    have : m = 0 := by simpa using hm
    subst this
    have : x = 0 := by omega
    subst this
    rw [rcount_unfold, diffLen_self]; simp [zerosBelow]
  | succ L ih =>
    intro x m hxm hm
    rw [two_pow_succ'] at hm
    by_cases heq : x = m
    · subst heq
      rw [rcount_unfold, diffLen_self]; simp [zerosBelow]
    · have hlt : x < m := by omega
      rw [diffLen_ne heq]
      simp only [zerosBelow]
      rw [← ih (x / 2) (m / 2) (by omega) (by omega)]
      by_cases hodd : x % 2 = 1
      · rw [rcount_odd (m - x) x m rfl hodd]; omega
      · rw [rcount_unfold]
        simp only [hlt, if_true]
        have e1 : tz (x + 1) = 0 := tz_odd (by omega)
        rw [e1]
        simp only [Nat.pow_zero]
        rw [rcount_odd (m - (x + 1)) (x + 1) m rfl (by omega)]
        have e2 : (x + 1) / 2 = x / 2 := by omega
        rw [e2]; omega

theorem buildRange_length_right (ls : List H) (J : Nat) (hJ : 2 * (ls.length - 1) ≤ J) :
    ∀ (d i : Nat), ls.length - i = d → 0 < i → i ≤ ls.length →
      (buildRange ls i J).length = rcount (i - 1) (ls.length - 1) := by
  intro d
  induction d using Nat.strongRecOn with
  | _ d ih =>
    intro i hd hi0 hin
    rw [rcount_unfold]
    by_cases hlt : i < ls.length
    · have hk : nextSubtreeSize i J = 2 ^ tz i := nss_big hi0 (by omega)
      have hp := Nat.two_pow_pos (tz i)
      have hx : i - 1 < ls.length - 1 := by omega
      have e0 : i - 1 + 1 = i := by omega
      rw [buildRange_step ls i J ⟨by omega, hlt⟩, hk]
      simp only [hx, if_true, List.length_cons, e0]
      by_cases hc : i + 2 ^ tz i > ls.length
      · simp only [hc, if_true]
        have e1 : i + (ls.length - i) = ls.length := by omega
        rw [e1, buildRange_done ls ls.length J (by omega)]
        rw [rcount_unfold]
        have : ¬ (i - 1 + 2 ^ tz i < ls.length - 1) := by omega
        simp [this]
      · simp only [hc, if_false]
        rw [ih (ls.length - (i + 2 ^ tz i)) (by omega) _ rfl (by omega) (by omega)]
        have : i + 2 ^ tz i - 1 = i - 1 + 2 ^ tz i := by omega
        rw [this]; omega
    · have : i = ls.length := by omega
      subst this
      rw [buildRange_done ls _ J (by omega)]
      simp

theorem rangeProofSize_eq (n s e : Nat) :
    rangeProofSize n s e = popcount s + zerosBelow (e - 1) (diffLen (e - 1) (n - 1)) := rfl

/-- the proof `BuildSectorRangeProof` emits has `RangeProofSize` hashes -/
theorem buildRange_total_length (ls : List H) (s e J : Nat) (hse : s < e) (hen : e ≤ ls.length)
    (hJ : 2 * (ls.length - 1) ≤ J) :
    (buildRange ls 0 s ++ buildRange ls e J).length = rangeProofSize ls.length s e := by
  rw [List.length_append, buildRange_length_left ls s (by omega),
    buildRange_length_right ls J hJ (ls.length - e) e rfl (by omega) hen,
    rangeProofSize_eq]
  congr 1
  have h2 : ls.length < 2 ^ ls.length := Nat.lt_two_pow_self
  exact rcount_eq (ls.length) (e - 1) (ls.length - 1) (by omega) (by omega)

end Sia.Rhp
