import SiaProofs.Lemmas.CodecSize
import SiaProofs.Lemmas.CodecComb
import SiaModel.Rhp4.Framing
/-! Bounded reads: generic lemmas over leaf codecs (C19). -/
namespace Sia.Framing
open Sia.Codec

theorem take_append_le {a r : Bytes} {N : Nat} (h : a.length ≤ N) :
    (a ++ r).take N = a ++ r.take (N - a.length) := by
  rw [List.take_append, List.take_of_length_le h]

theorem take_append_lt {a r : Bytes} {N : Nat} (h : N ≤ a.length) :
    (a ++ r).take N = a.take N := by
  rw [List.take_append, show N - a.length = 0 by omega]; simp

/-- a message that fits the limit is read back exactly, pulling exactly its own bytes -/
theorem readLimitedC_roundtrip {c : Codec} (ok : CodecOK c) (N : Nat) (v : Val) (rest : Bytes)
    (hc : c.canon v = true) (hfit : (c.enc v).length ≤ N) :
    readLimitedC c N (c.enc v ++ rest) = .ok (v, (c.enc v).length) := by
  unfold readLimitedC
  rw [take_append_le hfit, ok.roundtrip false _ v _ hc]
  simp

/-- a bounded read pulls at most `N` bytes, and no more than the stream holds -/
theorem readLimitedC_bounded {c : Codec} (N : Nat) (stream : Bytes) (v : Val) (n : Nat)
    (h : readLimitedC c N stream = .ok (v, n)) : n ≤ N ∧ n ≤ stream.length := by
  unfold readLimitedC at h
  split at h
  · injection h with h; injection h with _ h
    have : (stream.take N).length ≤ N := by simp; omega
    have : (stream.take N).length ≤ stream.length := by simp; omega
    omega
  · cases h

/-- nothing beyond the first `N` bytes of the stream can influence the result -/
theorem readLimitedC_prefix_only (c : Codec) (N : Nat) (a x y : Bytes) (h : N ≤ a.length) :
    readLimitedC c N (a ++ x) = readLimitedC c N (a ++ y) := by
  unfold readLimitedC
  rw [take_append_lt h, take_append_lt h]

/-- a message longer than the limit is refused (an error, never a partial object) -/
theorem readLimitedC_overlimit {c : Codec} (ok : CodecOK c) (N : Nat) (v : Val) (rest : Bytes)
    (hc : c.canon v = true) (hbig : N < (c.enc v).length) :
    ∃ e, readLimitedC c N (c.enc v ++ rest) = .error e := by
  unfold readLimitedC
  rw [take_append_lt (Nat.le_of_lt hbig)]
  have hq : (c.enc v).drop N ≠ [] := by
    intro h
    have := congrArg List.length h
    simp at this; omega
  obtain ⟨e, he⟩ := ok.trunc false (N - ((c.enc v).take N).length) v ((c.enc v).take N) ((c.enc v).drop N) hc
    (List.take_append_drop _ _) hq
  rw [he]; exact ⟨_, rfl⟩

end Sia.Framing
