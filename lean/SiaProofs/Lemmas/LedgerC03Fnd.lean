import SiaProofs.Lemmas.LedgerC02Payout
/-!
# The Foundation addresses of the mid-state only move in the trailing step of a transaction
(`a1Final` / `a2Final`); every other step of `applyTransaction` / `applyV2Transaction` keeps them.
-/
namespace Sia.Ledger

/-- (FoundationSubsidyAddress, FoundationManagementAddress) of the mid-state -/
def Mid.fnd (s : Mid) : Addr × Addr := (s.fPrimary, s.fFailsafe)

@[simp] theorem putSc_fnd (ms : Mid) (id : Id) (f : ScDiff → ScDiff) : (ms.putSc id f).fnd = ms.fnd := by
  unfold Mid.putSc; split <;> rfl
@[simp] theorem putSf_fnd (ms : Mid) (id : Id) (f : SfDiff → SfDiff) : (ms.putSf id f).fnd = ms.fnd := by
  unfold Mid.putSf; split <;> rfl
@[simp] theorem putFc1_fnd (ms : Mid) (id : Id) (f : Fc1Diff → Fc1Diff) : (ms.putFc1 id f).fnd = ms.fnd := by
  unfold Mid.putFc1; split <;> rfl
@[simp] theorem putFc2_fnd (ms : Mid) (id : Id) (f : Fc2Diff → Fc2Diff) : (ms.putFc2 id f).fnd = ms.fnd := by
  unfold Mid.putFc2; split <;> rfl
@[simp] theorem createSc_fnd (ms : Mid) (id : Id) (o : ScOut) (m : Nat) : (ms.createSc id o m).fnd = ms.fnd := by
  simp [Mid.createSc]
@[simp] theorem createImmatureSc_fnd (ms : Mid) (id : Id) (o : ScOut) : (ms.createImmatureSc id o).fnd = ms.fnd := by
  simp [Mid.createImmatureSc]
@[simp] theorem createSf_fnd (ms : Mid) (id : Id) (v : Nat) (a : Addr) : (ms.createSf id v a).fnd = ms.fnd := by
  simp [Mid.createSf]
@[simp] theorem spendSc_fnd (ms : Mid) (e : ScElem) : (ms.spendSc e).fnd = ms.fnd := by
  have : (ms.spendSc e).fnd = (ms.putSc e.id fun d => { d with e := e, spent := true }).fnd := rfl
  rw [this, putSc_fnd]
@[simp] theorem spendSf_fnd (ms : Mid) (e : SfElem) : (ms.spendSf e).fnd = ms.fnd := by
  have : (ms.spendSf e).fnd = (ms.putSf e.id fun d => { d with e := e, spent := true }).fnd := rfl
  rw [this, putSf_fnd]
@[simp] theorem reviseFc1_fnd (ms : Mid) (e : Fc1Elem) (r : Fc1) : (ms.reviseFc1 e r).fnd = ms.fnd := by
  simp [Mid.reviseFc1]
@[simp] theorem reviseFc2_fnd (ms : Mid) (e : Fc2Elem) (r : Fc2) : (ms.reviseFc2 e r).fnd = ms.fnd := by
  simp [Mid.reviseFc2]
@[simp] theorem resolveFc1_fnd (ms : Mid) (e : Fc1Elem) (v : Bool) : (ms.resolveFc1 e v).fnd = ms.fnd := by
  have : (ms.resolveFc1 e v).fnd = (ms.putFc1 e.id fun d =>
    if d.revision.isSome then { d with resolved := true, valid := v } else { d with e := e, resolved := true, valid := v }).fnd := rfl
  rw [this, putFc1_fnd]

theorem createFc1_fnd {ms ms' : Mid} {id : Id} {fc : Fc1} (h : ms.createFc1 id fc = .ok ms') : ms'.fnd = ms.fnd := by
  unfold Mid.createFc1 at h
  obtain ⟨p, _, h⟩ := bind_ok_iff.1 h
  simp at h; subst h
  exact putFc1_fnd _ _ _

theorem createFc2_fnd {ms ms' : Mid} {id : Id} {fc : Fc2} (h : ms.createFc2 id fc = .ok ms') : ms'.fnd = ms.fnd := by
  unfold Mid.createFc2 at h
  obtain ⟨tax, _, h⟩ := bind_ok_iff.1 h
  obtain ⟨p, _, h⟩ := bind_ok_iff.1 h
  simp at h; subst h
  exact putFc2_fnd _ _ _

theorem resolveFc2_fnd {ms ms' : Mid} {e : Fc2Elem} {k : ResKind} (h : ms.resolveFc2 e k = .ok ms') : ms'.fnd = ms.fnd := by
  unfold Mid.resolveFc2 at h
  split at h
  · split at h
    · cases h
    · simp at h; subst h; exact putFc2_fnd _ _ _
  · simp at h; subst h; exact putFc2_fnd _ _ _

theorem foldlM_fnd {α} {f : Mid → α → VM Mid} (hstep : ∀ s x s', f s x = .ok s' → s'.fnd = s.fnd)
    (l : List α) (s s' : Mid) (h : l.foldlM f s = .ok s') : s'.fnd = s.fnd :=
  foldlM_inv (fun x => x.fnd = s.fnd) (fun a x b ha hf => by rw [hstep a x b hf, ha]) l s s' rfl h

/-- `applyV2Transaction`: the Foundation addresses afterwards are those of the trailing step -/
theorem applyV2Transaction_fnd {ms ms' : Mid} {t : Txn2} (h : applyV2Transaction ms t = .ok ms') :
    ∃ s : Mid, s.fnd = ms.fnd ∧ s.base = ms.base ∧ ms' = a2Final s t := by
  have hbase := applyV2Transaction_base h
  rw [applyV2Transaction_eq] at h
  obtain ⟨s1, h1, h⟩ := bind_ok_iff.1 h
  obtain ⟨s2, h2, h⟩ := bind_ok_iff.1 h
  obtain ⟨s3, h3, h⟩ := bind_ok_iff.1 h
  obtain ⟨s4, h4, h⟩ := bind_ok_iff.1 h
  obtain ⟨s5, h5, h⟩ := bind_ok_iff.1 h
  obtain ⟨s6, h6, h⟩ := bind_ok_iff.1 h
  obtain ⟨s7, h7, h⟩ := bind_ok_iff.1 h
  simp at h; subst h
  have e1 := foldlM_fnd (fun s x s' hs => by simp [a2ScIn] at hs; subst hs; simp) _ _ _ h1
  have e2 := foldlM_fnd (fun s x s' hs => by simp [a2ScOut] at hs; subst hs; simp) _ _ _ h2
  have e3 := foldlM_fnd (fun s x s' hs => by
      unfold a2SfIn at hs
      obtain ⟨c, _, hs⟩ := bind_ok_iff.1 hs
      simp at hs; subst hs; simp) _ _ _ h3
  have e4 := foldlM_fnd (fun s x s' hs => by simp [a2SfOut] at hs; subst hs; simp) _ _ _ h4
  have e5 := foldlM_fnd (fun s x s' hs => createFc2_fnd hs) _ _ _ h5
  have e6 := foldlM_fnd (fun s x s' hs => by simp [a2Rev] at hs; subst hs; simp) _ _ _ h6
  have e7 := foldlM_fnd (fun s x s' hs => by
      unfold a2Res at hs
      obtain ⟨r1, hr1, hs⟩ := bind_ok_iff.1 hs
      obtain ⟨r2, hr2, hs⟩ := bind_ok_iff.1 hs
      simp at hs; subst hs
      have : r2.fnd = r1.fnd := by
        unfold a2ResNew at hr2
        split at hr2
        · exact createFc2_fnd hr2
        · simp at hr2; rw [hr2]
      simp [this, resolveFc2_fnd hr1]) _ _ _ h7
  refine ⟨s7, by rw [e7, e6, e5, e4, e3, e2, e1], ?_, rfl⟩
  rw [a2Final_base] at hbase
  exact hbase

/-- `applyTransaction`: the Foundation addresses afterwards are those of the trailing step -/
theorem applyTransaction_fnd {ms ms' : Mid} {t : Txn1} (h : applyTransaction ms t = .ok ms') :
    ∃ s : Mid, s.fnd = ms.fnd ∧ s.base = ms.base ∧ ms' = a1Final s t := by
  have hbase := applyTransaction_base h
  rw [applyTransaction_eq] at h
  obtain ⟨s1, h1, h⟩ := bind_ok_iff.1 h
  obtain ⟨s2, h2, h⟩ := bind_ok_iff.1 h
  obtain ⟨s3, h3, h⟩ := bind_ok_iff.1 h
  obtain ⟨s4, h4, h⟩ := bind_ok_iff.1 h
  obtain ⟨s5, h5, h⟩ := bind_ok_iff.1 h
  obtain ⟨s6, h6, h⟩ := bind_ok_iff.1 h
  obtain ⟨s7, h7, h⟩ := bind_ok_iff.1 h
  simp at h; subst h
  have e1 := foldlM_fnd (fun s x s' hs => by
      unfold a1ScIn at hs
      split at hs
      · cases hs
      · simp at hs; subst hs; simp) _ _ _ h1
  have e2 := foldlM_fnd (fun s x s' hs => by simp [a1ScOut] at hs; subst hs; simp) _ _ _ h2
  have e3 := foldlM_fnd (fun s x s' hs => by
      unfold a1SfIn at hs
      split at hs
      · cases hs
      · obtain ⟨c, _, hs⟩ := bind_ok_iff.1 hs
        simp at hs; subst hs; simp) _ _ _ h3
  have e4 := foldlM_fnd (fun s x s' hs => by simp [a1SfOut] at hs; subst hs; simp) _ _ _ h4
  have e5 := foldlM_fnd (fun s x s' hs => createFc1_fnd hs) _ _ _ h5
  have e6 := foldlM_fnd (fun s x s' hs => by
      unfold a1Rev at hs
      split at hs
      · cases hs
      · simp at hs; subst hs; simp) _ _ _ h6
  have e7 := foldlM_fnd (fun s x s' hs => by
      unfold a1Proof at hs
      split at hs
      · cases hs
      · have := foldlM_fnd (fun s x s' hs => by simp [a1Payout] at hs; subst hs; simp) _ _ _ hs
        rw [this]; simp) _ _ _ h7
  refine ⟨s7, by rw [e7, e6, e5, e4, e3, e2, e1], ?_, rfl⟩
  rw [a1Final_base] at hbase
  exact hbase

/-- a successful fold whose steps either keep the Foundation addresses or satisfy `P` -/
theorem foldlM_fnd_or {α} {f : Mid → α → VM Mid} (P : α → Prop)
    (hstep : ∀ s x s', f s x = .ok s' → s'.fnd = s.fnd ∨ P x)
    (l : List α) (s s' : Mid) (h : l.foldlM f s = .ok s') : s'.fnd = s.fnd ∨ ∃ x ∈ l, P x := by
  induction l generalizing s with
  | nil => simp at h; subst h; exact Or.inl rfl
  | cons a l ih =>
    rw [List.foldlM_cons] at h
    obtain ⟨s1, h1, h2⟩ := bind_ok_iff.1 h
    rcases ih s1 h2 with hk | ⟨x, hx, hp⟩
    · rcases hstep s a s1 h1 with hs | hp
      · exact Or.inl (by rw [hk, hs])
      · exact Or.inr ⟨a, List.mem_cons_self, hp⟩
    · exact Or.inr ⟨x, List.mem_cons_of_mem _ hx, hp⟩

end Sia.Ledger
