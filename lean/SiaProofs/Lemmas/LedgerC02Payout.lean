import SiaProofs.Lemmas.LedgerC02Block
/-!
# Lemmas for the ledger part of C07: sums of outputs, what `createImmatureSc` records,
`midApplyBlock` as a fold
-/
namespace Sia.Ledger

/-- plain sum of the values of a list of outputs -/
def outsTotal (l : List ScOut) : Nat := (l.map (·.value)).sum

theorem outsTotal_cons (o : ScOut) (l : List ScOut) : outsTotal (o :: l) = o.value + outsTotal l := by
  simp [outsTotal]

theorem sumOuts_fold_ok_iff (l : List ScOut) (s a : Cur) (hs : s < curLimit) :
    l.foldlM (fun s o => addC s o.value) s = .ok a ↔ (a = s + outsTotal l ∧ s + outsTotal l < curLimit) := by
  induction l generalizing s with
  | nil => simpa [outsTotal] using fun _ => hs
  | cons o l ih =>
    rw [List.foldlM_cons, bind_ok_iff, outsTotal_cons]
    constructor
    · rintro ⟨s1, h1, h2⟩
      obtain ⟨rfl, h1'⟩ := (addC_ok_iff _ _ _).1 h1
      obtain ⟨rfl, h2⟩ := (ih _ h1').1 h2
      exact ⟨by cur_omega, by cur_omega⟩
    · rintro ⟨rfl, h⟩
      have h1 : s + o.value < curLimit := by cur_omega
      exact ⟨s + o.value, addC_eq_ok h1, (ih _ h1).2 ⟨by cur_omega, by cur_omega⟩⟩

/-- `sumOuts` (unchecked additions) succeeds iff the plain sum stays below 2^128, and then equals it -/
theorem sumOuts_ok_iff (l : List ScOut) (a : Cur) : sumOuts l = .ok a ↔ (a = outsTotal l ∧ outsTotal l < curLimit) := by
  unfold sumOuts
  rw [sumOuts_fold_ok_iff _ _ _ (by decide)]
  simp

-- ------------------------------------------------------------------ what creating an output records

/-- the diff recorded for an output created in the block -/
def createdDiff (id : Id) (o : ScOut) (maturity : Nat) : ScDiff :=
  { e := { id := id, value := o.value, addr := o.addr, maturity := maturity, leaf := none }, created := true, spent := false }

theorem createSc_fresh (ms : Mid) (id : Id) (o : ScOut) (m : Nat) (h : ms.lookup id = none) :
    ms.createSc id o m =
      { ms with sces := ms.sces ++ [createdDiff id o m], elements := ms.elements ++ [(id, ms.sces.length)] } := by
  unfold Mid.createSc Mid.putSc
  rw [h]
  rfl

theorem createImmatureSc_fresh (ms : Mid) (id : Id) (o : ScOut) (h : ms.lookup id = none) :
    ms.createImmatureSc id o =
      { ms with sces := ms.sces ++ [createdDiff id o (maturityHeight ms.base)],
                elements := ms.elements ++ [(id, ms.sces.length)] } := by
  unfold Mid.createImmatureSc
  exact createSc_fresh ms id o _ h

theorem lookup_append_ne {l : List (Id × Nat)} {id id' : Id} {n : Nat} (hne : id' ≠ id)
    (h : l.lookup id' = none) : (l ++ [(id, n)]).lookup id' = none := by
  induction l with
  | nil =>
    simp only [List.nil_append, List.lookup]
    have : (id' == id) = false := by simpa using hne
    rw [this]
  | cons a l ih =>
    obtain ⟨k, v⟩ := a
    simp only [List.cons_append, List.lookup] at h ⊢
    split
    · rename_i heq; rw [heq] at h; cases h
    · rename_i heq; rw [heq] at h; exact ih h

/-- two fresh, distinct output ids: exactly two created diffs are appended, both maturing at
`maturityHeight` -/
theorem createImmatureSc_two_fresh (ms : Mid) (id1 id2 : Id) (o1 o2 : ScOut)
    (h1 : ms.lookup id1 = none) (h2 : ms.lookup id2 = none) (hne : id2 ≠ id1) :
    ((ms.createImmatureSc id1 o1).createImmatureSc id2 o2).sces =
      ms.sces ++ [createdDiff id1 o1 (maturityHeight ms.base), createdDiff id2 o2 (maturityHeight ms.base)] := by
  rw [createImmatureSc_fresh ms id1 o1 h1]
  rw [createImmatureSc_fresh _ id2 o2 (by
    show List.lookup id2 (ms.elements ++ [(id1, ms.sces.length)]) = none
    exact lookup_append_ne hne h2)]
  simp

-- ------------------------------------------------------------------ contract operations leave `sces` and `base` alone

@[simp] theorem putFc2_sces (ms : Mid) (id : Id) (f : Fc2Diff → Fc2Diff) : (ms.putFc2 id f).sces = ms.sces := by
  unfold Mid.putFc2; split <;> rfl
@[simp] theorem putFc2_base (ms : Mid) (id : Id) (f : Fc2Diff → Fc2Diff) : (ms.putFc2 id f).base = ms.base := by
  unfold Mid.putFc2; split <;> rfl
@[simp] theorem putFc1_sces (ms : Mid) (id : Id) (f : Fc1Diff → Fc1Diff) : (ms.putFc1 id f).sces = ms.sces := by
  unfold Mid.putFc1; split <;> rfl
@[simp] theorem putFc1_base (ms : Mid) (id : Id) (f : Fc1Diff → Fc1Diff) : (ms.putFc1 id f).base = ms.base := by
  unfold Mid.putFc1; split <;> rfl

theorem resolveFc2_sces_base {ms ms' : Mid} {e : Fc2Elem} {k : ResKind} (h : ms.resolveFc2 e k = .ok ms') :
    ms'.sces = ms.sces ∧ ms'.base = ms.base := by
  unfold Mid.resolveFc2 at h
  split at h
  · split at h
    · cases h
    · simp at h; subst h; simp
  · simp at h; subst h; simp

theorem createFc2_sces_base {ms ms' : Mid} {id : Id} {fc : Fc2} (h : ms.createFc2 id fc = .ok ms') :
    ms'.sces = ms.sces ∧ ms'.base = ms.base := by
  unfold Mid.createFc2 at h
  obtain ⟨tax, _, h⟩ := bind_ok_iff.1 h
  obtain ⟨p, _, h⟩ := bind_ok_iff.1 h
  simp at h; subst h; simp

theorem a2ResNew_sces_base {s1 s2 : Mid} {r : Resolution2} (h : a2ResNew s1 r = .ok s2) :
    s2.sces = s1.sces ∧ s2.base = s1.base := by
  unfold a2ResNew at h
  split at h
  · exact createFc2_sces_base h
  · simp at h; subst h; exact ⟨rfl, rfl⟩

@[simp] theorem resolveFc1_sces (ms : Mid) (e : Fc1Elem) (v : Bool) : (ms.resolveFc1 e v).sces = ms.sces := by
  simp [Mid.resolveFc1]
@[simp] theorem resolveFc1_base (ms : Mid) (e : Fc1Elem) (v : Bool) : (ms.resolveFc1 e v).base = ms.base := by
  simp [Mid.resolveFc1]

-- ------------------------------------------------------------------ `midApplyBlock` as a fold

/-- one iteration of the expiry loop of `midApplyBlock` -/
def mbExpire (s : Mid) (x : Fc1Elem × List Id) : VM Mid :=
  if s.isSpent x.1.id then pure s
  else (x.1.fc.missed.zip x.2).foldlM a1Payout (s.resolveFc1 x.1 false)

def mbPayout (s : Mid) (x : Id × ScOut) : VM Mid := pure (s.createImmatureSc x.1 x.2)

theorem midApplyBlock_eq (ms : Mid) (b : Block) :
    midApplyBlock ms b = (do
      if ms.base.child ≥ ms.base.P.v2Require ∧ (b.txns1.length ≠ 0 ∨ b.expiring.length ≠ 0) then
        gopanic "consensus: block supplement must be empty after v2 hardfork"
      else do
        let s ← b.txns1.foldlM applyTransaction ms
        let s ← b.txns2.foldlM applyV2Transaction s
        let s ← b.payouts.foldlM mbPayout s
        let sub ← foundationSubsidy s.base
        b.expiring.foldlM mbExpire (match sub with | some o => s.createImmatureSc b.foundationOutId o | none => s)) := by
  unfold midApplyBlock Block.txns2
  simp only [← forIn_eq_foldlM, gopanic_bind]
  split
  · rfl
  refine bind_congr' ?_ (fun s => ?_)
  · first | rfl | (congr 1; funext t s; simp only [bind_pure_comp, map_eq_pure_bind])
  have hexp : ∀ s0 : Mid,
      (forIn b.expiring s0 fun x __s =>
          if __s.isSpent x.fst.id = true then pure (ForInStep.yield __s)
          else do
            let ms ← forIn (x.fst.fc.missed.zip x.snd) (__s.resolveFc1 x.fst false) fun x __s =>
                pure (ForInStep.yield (__s.createImmatureSc x.snd x.fst))
            pure (ForInStep.yield ms)) =
      forIn b.expiring s0 fun x s => mbExpire s x >>= fun s' => pure (ForInStep.yield s') := by
    intro s0
    congr 1; funext x s
    unfold mbExpire
    split
    · simp only [pure_bind]
    · rw [← forIn_eq_foldlM]
      rfl
  rcases hb : b.v2 with _ | ⟨h, c, txns⟩
  · simp only [List.forIn_nil, pure_bind]
    refine bind_congr' ?_ (fun s => ?_)
    · first | rfl | (congr 1; funext x s; simp only [mbPayout, pure_bind])
    refine bind_congr' rfl (fun sub => ?_)
    cases sub <;> simp only [hexp, bind_pure]
  · simp only []
    refine bind_congr' ?_ (fun s => ?_)
    · first | rfl | (congr 1; funext t s; simp only [bind_pure_comp, map_eq_pure_bind])
    refine bind_congr' ?_ (fun s => ?_)
    · first | rfl | (congr 1; funext x s; simp only [mbPayout, pure_bind])
    refine bind_congr' rfl (fun sub => ?_)
    cases sub <;> simp only [hexp, bind_pure]

end Sia.Ledger
