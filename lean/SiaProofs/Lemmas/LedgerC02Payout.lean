import SiaProofs.Lemmas.LedgerC02Block
/-!
# Lemmas for the ledger part of C07: sums of outputs, what `createImmatureSc` records,
`midApplyBlock` as a fold
-/
namespace Sia.Ledger

/-- plain sum of the values of a list of outputs -/
def outsTotal (l : List ScOut) : Nat := (l.map (·.value)).sum

theorem outsTotal_cons (o : ScOut) (l : List ScOut) : outsTotal (o :: l) = o.value + outsTotal l := by
  simp [outsTotal]

theorem sumOuts_fold_ok_iff (l : List ScOut) (s a : Cur) (hs : s < curLimit) :
    l.foldlM (fun s o => addC s o.value) s = .ok a ↔ (a = s + outsTotal l ∧ s + outsTotal l < curLimit) := by
  induction l generalizing s with
  | nil => simpa [outsTotal] using fun _ => hs
  | cons o l ih =>
    rw [List.foldlM_cons, bind_ok_iff, outsTotal_cons]
    constructor
    · rintro ⟨s1, h1, h2⟩
      obtain ⟨rfl, h1'⟩ := (addC_ok_iff _ _ _).1 h1
      obtain ⟨rfl, h2⟩ := (ih _ h1').1 h2
      exact ⟨by cur_omega, by cur_omega⟩
    · rintro ⟨rfl, h⟩
      have h1 : s + o.value < curLimit := by cur_omega
      exact ⟨s + o.value, addC_eq_ok h1, (ih _ h1).2 ⟨by cur_omega, by cur_omega⟩⟩

/-- `sumOuts` (unchecked additions) succeeds iff the plain sum stays below 2^128, and then equals it -/
theorem sumOuts_ok_iff (l : List ScOut) (a : Cur) : sumOuts l = .ok a ↔ (a = outsTotal l ∧ outsTotal l < curLimit) := by
  unfold sumOuts
  rw [sumOuts_fold_ok_iff _ _ _ (by decide)]
  simp

-- ------------------------------------------------------------------ what creating an output records

/-- the diff recorded for an output created in the block -/
def createdDiff (id : Id) (o : ScOut) (maturity : Nat) : ScDiff :=
  { e := { id := id, value := o.value, addr := o.addr, maturity := maturity, leaf := none }, created := true, spent := false }

theorem createSc_fresh (ms : Mid) (id : Id) (o : ScOut) (m : Nat) (h : ms.lookup id = none) :
    ms.createSc id o m =
      { ms with sces := ms.sces ++ [createdDiff id o m], elements := ms.elements ++ [(id, ms.sces.length)] } := by
  unfold Mid.createSc Mid.putSc
  rw [h]
  rfl

theorem createImmatureSc_fresh (ms : Mid) (id : Id) (o : ScOut) (h : ms.lookup id = none) :
    ms.createImmatureSc id o =
      { ms with sces := ms.sces ++ [createdDiff id o (maturityHeight ms.base)],
                elements := ms.elements ++ [(id, ms.sces.length)] } := by
  unfold Mid.createImmatureSc
  exact createSc_fresh ms id o _ h

theorem lookup_append_ne {l : List (Id × Nat)} {id id' : Id} {n : Nat} (hne : id' ≠ id)
    (h : l.lookup id' = none) : (l ++ [(id, n)]).lookup id' = none := by
  induction l with
  | nil =>
    simp only [List.nil_append, List.lookup]
    have : (id' == id) = false := by simpa using hne
    rw [this]
  | cons a l ih =>
    obtain ⟨k, v⟩ := a
    simp only [List.cons_append, List.lookup] at h ⊢
    split
    · rename_i heq; rw [heq] at h; cases h
    · rename_i heq; rw [heq] at h; exact ih h

/-- two fresh, distinct output ids: exactly two created diffs are appended, both maturing at
`maturityHeight` -/
theorem createImmatureSc_two_fresh (ms : Mid) (id1 id2 : Id) (o1 o2 : ScOut)
    (h1 : ms.lookup id1 = none) (h2 : ms.lookup id2 = none) (hne : id2 ≠ id1) :
    ((ms.createImmatureSc id1 o1).createImmatureSc id2 o2).sces =
      ms.sces ++ [createdDiff id1 o1 (maturityHeight ms.base), createdDiff id2 o2 (maturityHeight ms.base)] := by
  rw [createImmatureSc_fresh ms id1 o1 h1]
  rw [createImmatureSc_fresh _ id2 o2 (by
    show List.lookup id2 (ms.elements ++ [(id1, ms.sces.length)]) = none
    exact lookup_append_ne hne h2)]
  simp

-- ------------------------------------------------------------------ contract operations leave `sces` and `base` alone

@[simp] theorem putFc2_sces (ms : Mid) (id : Id) (f : Fc2Diff → Fc2Diff) : (ms.putFc2 id f).sces = ms.sces := by
  unfold Mid.putFc2; split <;> rfl
@[simp] theorem putFc2_base (ms : Mid) (id : Id) (f : Fc2Diff → Fc2Diff) : (ms.putFc2 id f).base = ms.base := by
  unfold Mid.putFc2; split <;> rfl
@[simp] theorem putFc1_sces (ms : Mid) (id : Id) (f : Fc1Diff → Fc1Diff) : (ms.putFc1 id f).sces = ms.sces := by
  unfold Mid.putFc1; split <;> rfl
@[simp] theorem putFc1_base (ms : Mid) (id : Id) (f : Fc1Diff → Fc1Diff) : (ms.putFc1 id f).base = ms.base := by
  unfold Mid.putFc1; split <;> rfl

theorem resolveFc2_sces_base {ms ms' : Mid} {e : Fc2Elem} {k : ResKind} (h : ms.resolveFc2 e k = .ok ms') :
    ms'.sces = ms.sces ∧ ms'.base = ms.base := by
  unfold Mid.resolveFc2 at h
  split at h
  · split at h
    · cases h
    · simp at h; subst h; simp
  · simp at h; subst h; simp

theorem createFc2_sces_base {ms ms' : Mid} {id : Id} {fc : Fc2} (h : ms.createFc2 id fc = .ok ms') :
    ms'.sces = ms.sces ∧ ms'.base = ms.base := by
  unfold Mid.createFc2 at h
  obtain ⟨tax, _, h⟩ := bind_ok_iff.1 h
  obtain ⟨p, _, h⟩ := bind_ok_iff.1 h
  simp at h; subst h; simp

theorem a2ResNew_sces_base {s1 s2 : Mid} {r : Resolution2} (h : a2ResNew s1 r = .ok s2) :
    s2.sces = s1.sces ∧ s2.base = s1.base := by
  unfold a2ResNew at h
  split at h
  · exact createFc2_sces_base h
  · simp at h; subst h; exact ⟨rfl, rfl⟩

@[simp] theorem resolveFc1_sces (ms : Mid) (e : Fc1Elem) (v : Bool) : (ms.resolveFc1 e v).sces = ms.sces := by
  simp [Mid.resolveFc1]
@[simp] theorem resolveFc1_base (ms : Mid) (e : Fc1Elem) (v : Bool) : (ms.resolveFc1 e v).base = ms.base := by
  simp [Mid.resolveFc1]

-- ------------------------------------------------------------------ `midApplyBlock` as a fold

/-- one iteration of the expiry loop of `midApplyBlock` -/
def mbExpire (s : Mid) (x : Fc1Elem × List Id) : VM Mid :=
  if s.isSpent x.1.id then pure s
  else (x.1.fc.missed.zip x.2).foldlM a1Payout (s.resolveFc1 x.1 false)

def mbPayout (s : Mid) (x : Id × ScOut) : VM Mid := pure (s.createImmatureSc x.1 x.2)

theorem midApplyBlock_eq (ms : Mid) (b : Block) :
    midApplyBlock ms b = (do
      if ms.base.child ≥ ms.base.P.v2Require ∧ (b.txns1.length ≠ 0 ∨ b.expiring.length ≠ 0) then
        gopanic "consensus: block supplement must be empty after v2 hardfork"
      else do
        let s ← b.txns1.foldlM applyTransaction ms
        let s ← b.txns2.foldlM applyV2Transaction s
        let s ← b.payouts.foldlM mbPayout s
        let sub ← foundationSubsidy s.base
        b.expiring.foldlM mbExpire (match sub with | some o => s.createImmatureSc b.foundationOutId o | none => s)) := by
  unfold midApplyBlock Block.txns2
  simp only [← forIn_eq_foldlM, gopanic_bind]
  split
  · rfl
  refine bind_congr' ?_ (fun s => ?_)
  · first | rfl | (congr 1; funext t s; simp only [bind_pure_comp, map_eq_pure_bind])
  have hexp : ∀ s0 : Mid,
      (forIn b.expiring s0 fun x __s =>
          if __s.isSpent x.fst.id = true then pure (ForInStep.yield __s)
          else do
            let ms ← forIn (x.fst.fc.missed.zip x.snd) (__s.resolveFc1 x.fst false) fun x __s =>
                pure (ForInStep.yield (__s.createImmatureSc x.snd x.fst))
            pure (ForInStep.yield ms)) =
      forIn b.expiring s0 fun x s => mbExpire s x >>= fun s' => pure (ForInStep.yield s') := by
    intro s0
    congr 1; funext x s
    unfold mbExpire
    split
    · simp only [pure_bind]
    · rw [← forIn_eq_foldlM]
      rfl
  rcases hb : b.v2 with _ | ⟨h, c, txns⟩
  · simp only [List.forIn_nil, pure_bind]
    refine bind_congr' ?_ (fun s => ?_)
    · first | rfl | (congr 1; funext x s; simp only [mbPayout, pure_bind])
    refine bind_congr' rfl (fun sub => ?_)
    cases sub <;> simp only [hexp, bind_pure]
  · simp only []
    refine bind_congr' ?_ (fun s => ?_)
    · first | rfl | (congr 1; funext t s; simp only [bind_pure_comp, map_eq_pure_bind])
    refine bind_congr' ?_ (fun s => ?_)
    · first | rfl | (congr 1; funext x s; simp only [mbPayout, pure_bind])
    refine bind_congr' rfl (fun sub => ?_)
    cases sub <;> simp only [hexp, bind_pure]

-- ------------------------------------------------------------------ `base` is constant throughout a block

@[simp] theorem putSc_base (ms : Mid) (id : Id) (f : ScDiff → ScDiff) : (ms.putSc id f).base = ms.base := by
  unfold Mid.putSc; split <;> rfl
@[simp] theorem putSf_base (ms : Mid) (id : Id) (f : SfDiff → SfDiff) : (ms.putSf id f).base = ms.base := by
  unfold Mid.putSf; split <;> rfl
@[simp] theorem createSc_base (ms : Mid) (id : Id) (o : ScOut) (m : Nat) : (ms.createSc id o m).base = ms.base := by
  simp [Mid.createSc]
@[simp] theorem createImmatureSc_base (ms : Mid) (id : Id) (o : ScOut) : (ms.createImmatureSc id o).base = ms.base := by
  simp [Mid.createImmatureSc]
@[simp] theorem createSf_base (ms : Mid) (id : Id) (v : Nat) (a : Addr) : (ms.createSf id v a).base = ms.base := by
  simp [Mid.createSf]
@[simp] theorem spendSc_base (ms : Mid) (e : ScElem) : (ms.spendSc e).base = ms.base := by
  simp [Mid.spendSc]
@[simp] theorem spendSf_base (ms : Mid) (e : SfElem) : (ms.spendSf e).base = ms.base := by
  simp [Mid.spendSf]
@[simp] theorem reviseFc1_base (ms : Mid) (e : Fc1Elem) (r : Fc1) : (ms.reviseFc1 e r).base = ms.base := by
  simp [Mid.reviseFc1]
@[simp] theorem reviseFc2_base (ms : Mid) (e : Fc2Elem) (r : Fc2) : (ms.reviseFc2 e r).base = ms.base := by
  simp [Mid.reviseFc2]

theorem createFc1_base {ms ms' : Mid} {id : Id} {fc : Fc1} (h : ms.createFc1 id fc = .ok ms') : ms'.base = ms.base := by
  unfold Mid.createFc1 at h
  obtain ⟨p, _, h⟩ := bind_ok_iff.1 h
  simp at h; subst h; simp

theorem foldlM_base {α} {f : Mid → α → VM Mid} (hstep : ∀ s x s', f s x = .ok s' → s'.base = s.base)
    (l : List α) (s s' : Mid) (h : l.foldlM f s = .ok s') : s'.base = s.base :=
  foldlM_inv (fun x => x.base = s.base) (fun a x b ha hf => by rw [hstep a x b hf, ha]) l s s' rfl h

theorem a2Final_base (s : Mid) (t : Txn2) : (a2Final s t).base = s.base := by
  unfold a2Final; simp only []; split
  · split <;> rfl
  · rfl

theorem a1Final_base (s : Mid) (t : Txn1) : (a1Final s t).base = s.base := by
  unfold a1Final; split
  · split <;> rfl
  · rfl

theorem applyV2Transaction_base {ms ms' : Mid} {t : Txn2} (h : applyV2Transaction ms t = .ok ms') :
    ms'.base = ms.base := by
  rw [applyV2Transaction_eq] at h
  obtain ⟨s1, h1, h⟩ := bind_ok_iff.1 h
  obtain ⟨s2, h2, h⟩ := bind_ok_iff.1 h
  obtain ⟨s3, h3, h⟩ := bind_ok_iff.1 h
  obtain ⟨s4, h4, h⟩ := bind_ok_iff.1 h
  obtain ⟨s5, h5, h⟩ := bind_ok_iff.1 h
  obtain ⟨s6, h6, h⟩ := bind_ok_iff.1 h
  obtain ⟨s7, h7, h⟩ := bind_ok_iff.1 h
  simp at h; subst h
  rw [a2Final_base]
  have e1 := foldlM_base (fun s x s' hs => by simp [a2ScIn] at hs; subst hs; simp) _ _ _ h1
  have e2 := foldlM_base (fun s x s' hs => by simp [a2ScOut] at hs; subst hs; simp) _ _ _ h2
  have e3 := foldlM_base (fun s x s' hs => by
      unfold a2SfIn at hs
      obtain ⟨c, _, hs⟩ := bind_ok_iff.1 hs
      simp at hs; subst hs; simp) _ _ _ h3
  have e4 := foldlM_base (fun s x s' hs => by simp [a2SfOut] at hs; subst hs; simp) _ _ _ h4
  have e5 := foldlM_base (fun s x s' hs => (createFc2_sces_base hs).2) _ _ _ h5
  have e6 := foldlM_base (fun s x s' hs => by simp [a2Rev] at hs; subst hs; simp) _ _ _ h6
  have e7 := foldlM_base (fun s x s' hs => by
      unfold a2Res at hs
      obtain ⟨r1, hr1, hs⟩ := bind_ok_iff.1 hs
      obtain ⟨r2, hr2, hs⟩ := bind_ok_iff.1 hs
      simp at hs; subst hs
      simp [(a2ResNew_sces_base hr2).2, (resolveFc2_sces_base hr1).2]) _ _ _ h7
  rw [e7, e6, e5, e4, e3, e2, e1]

theorem applyTransaction_base {ms ms' : Mid} {t : Txn1} (h : applyTransaction ms t = .ok ms') :
    ms'.base = ms.base := by
  rw [applyTransaction_eq] at h
  obtain ⟨s1, h1, h⟩ := bind_ok_iff.1 h
  obtain ⟨s2, h2, h⟩ := bind_ok_iff.1 h
  obtain ⟨s3, h3, h⟩ := bind_ok_iff.1 h
  obtain ⟨s4, h4, h⟩ := bind_ok_iff.1 h
  obtain ⟨s5, h5, h⟩ := bind_ok_iff.1 h
  obtain ⟨s6, h6, h⟩ := bind_ok_iff.1 h
  obtain ⟨s7, h7, h⟩ := bind_ok_iff.1 h
  simp at h; subst h
  rw [a1Final_base]
  have e1 := foldlM_base (fun s x s' hs => by
      unfold a1ScIn at hs
      split at hs
      · cases hs
      · simp at hs; subst hs; simp) _ _ _ h1
  have e2 := foldlM_base (fun s x s' hs => by simp [a1ScOut] at hs; subst hs; simp) _ _ _ h2
  have e3 := foldlM_base (fun s x s' hs => by
      unfold a1SfIn at hs
      split at hs
      · cases hs
      · obtain ⟨c, _, hs⟩ := bind_ok_iff.1 hs
        simp at hs; subst hs; simp) _ _ _ h3
  have e4 := foldlM_base (fun s x s' hs => by simp [a1SfOut] at hs; subst hs; simp) _ _ _ h4
  have e5 := foldlM_base (fun s x s' hs => createFc1_base hs) _ _ _ h5
  have e6 := foldlM_base (fun s x s' hs => by
      unfold a1Rev at hs
      split at hs
      · cases hs
      · simp at hs; subst hs; simp) _ _ _ h6
  have e7 := foldlM_base (fun s x s' hs => by
      unfold a1Proof at hs
      split at hs
      · cases hs
      · have := foldlM_base (fun s x s' hs => by simp [a1Payout] at hs; subst hs; simp) _ _ _ hs
        rw [this]; simp) _ _ _ h7
  rw [e7, e6, e5, e4, e3, e2, e1]

/-- Every transaction of an accepted block was accepted by its validator at a mid-state over the
block's ledger (`s.base = L`): the one reached by validating and applying the transactions before it. -/
theorem validateBlock_ok_txns {L : Ledger} {b : Block} {pid : Id} {ms : Mid} (h : validateBlock L b pid = .ok ms) :
    (∀ pre t post, b.txns1 = pre ++ t :: post → ∃ s, pre.foldlM (vb1Step pid b.maxWeight) (newMid L) = .ok s ∧
      s.base = L ∧ validateTransaction s t pid b.maxWeight = .ok ()) ∧
    (∀ pre t post, b.txns2 = pre ++ t :: post → ∃ s0 s, b.txns1.foldlM (vb1Step pid b.maxWeight) (newMid L) = .ok s0 ∧
      pre.foldlM (vb2Step b.maxWeight) s0 = .ok s ∧ s.base = L ∧ validateV2Transaction s t b.maxWeight = .ok ()) := by
  rw [validateBlock_eq] at h
  obtain ⟨_, _, h⟩ := bind_ok_iff.1 h
  obtain ⟨_, _, h⟩ := bind_ok_iff.1 h
  split at h
  · exact absurd h (reject_ne_ok _ _)
  obtain ⟨s0, h1, h2⟩ := bind_ok_iff.1 h
  have b1 : ∀ (l : List Txn1) (s s' : Mid), l.foldlM (vb1Step pid b.maxWeight) s = .ok s' → s'.base = s.base :=
    fun l s s' => foldlM_base (fun s x s' hs => by
      obtain ⟨_, _, ha⟩ := bind_ok_iff.1 hs
      exact applyTransaction_base ha) l s s'
  have b2 : ∀ (l : List Txn2) (s s' : Mid), l.foldlM (vb2Step b.maxWeight) s = .ok s' → s'.base = s.base :=
    fun l s s' => foldlM_base (fun s x s' hs => by
      obtain ⟨_, _, ha⟩ := bind_ok_iff.1 hs
      exact applyV2Transaction_base ha) l s s'
  constructor
  · intro pre t post hsplit
    rw [hsplit, List.foldlM_append] at h1
    obtain ⟨s, hs, h1⟩ := bind_ok_iff.1 h1
    rw [List.foldlM_cons] at h1
    obtain ⟨s', hs', _⟩ := bind_ok_iff.1 h1
    obtain ⟨_, hv, _⟩ := bind_ok_iff.1 hs'
    exact ⟨s, hs, by rw [b1 _ _ _ hs]; rfl, hv⟩
  · intro pre t post hsplit
    rw [hsplit, List.foldlM_append] at h2
    obtain ⟨s, hs, h2⟩ := bind_ok_iff.1 h2
    rw [List.foldlM_cons] at h2
    obtain ⟨s', hs', _⟩ := bind_ok_iff.1 h2
    obtain ⟨_, hv, _⟩ := bind_ok_iff.1 hs'
    exact ⟨s0, s, h1, hs, by rw [b2 _ _ _ hs, b1 _ _ _ h1]; rfl, hv⟩

end Sia.Ledger
