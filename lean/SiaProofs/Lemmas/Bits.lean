/-
  SiaProofs.Lemmas.Bits — bit-level facts behind the element accumulator:
  `mergeHeight`, `treeHeight`, `treeStart`, which trees merge when a leaf is added.
-/
import SiaModel.Merkle.Accumulator
import Mathlib.Tactic.Ring
namespace Sia.ElemAcc

theorem two_pow_pos' (k : Nat) : 0 < 2 ^ k := Nat.pos_of_ne_zero (by exact Nat.ne_of_gt (Nat.two_pow_pos k))

theorem bitLen_le_iff (x k : Nat) : bitLen x ≤ k ↔ x < 2 ^ k := by
  unfold bitLen
  by_cases h : x = 0
  · simp [h, Nat.two_pow_pos]
  · simp only [h, if_false]
    rw [← Nat.log2_lt h]; omega

theorem xor_eq_zero_iff' (a b : Nat) : a ^^^ b = 0 ↔ a = b := by
  constructor
  · intro h
    apply Nat.eq_of_testBit_eq
    intro i
    have := congrArg (fun x => x.testBit i) h
    simp at this
    exact this
  · intro h; subst h; simp

/-- `mergeHeight x y ≤ k` iff `x` and `y` agree above bit `k`. -/
theorem mergeHeight_le_iff (x y k : Nat) : mergeHeight x y ≤ k ↔ x / 2 ^ k = y / 2 ^ k := by
  unfold mergeHeight
  rw [bitLen_le_iff, ← xor_eq_zero_iff', ← Nat.xor_div_two_pow]
  constructor
  · intro h; exact Nat.div_eq_of_lt h
  · intro h
    rcases Nat.lt_or_ge (x ^^^ y) (2 ^ k) with h1 | h1
    · exact h1
    · have := Nat.div_pos h1 (Nat.two_pow_pos k); omega

theorem testBit_iff (n h : Nat) : n.testBit h = true ↔ n / 2 ^ h % 2 = 1 := by
  rw [Nat.testBit_eq_decide_div_mod_eq]; simp

end Sia.ElemAcc

namespace Sia.ElemAcc

theorem pow_succ2 (h : Nat) : 2 ^ (h + 1) = 2 * 2 ^ h := by rw [Nat.pow_succ, Nat.mul_comm]

/-- Binary digits of `n` around position `h`: `n = c·2^(h+1) + b·2^h + r`. -/
theorem digits (n h : Nat) :
    ∃ c r, r < 2 ^ h ∧
      ((n.testBit h = true ∧ n = 2 * (c * 2 ^ h) + 2 ^ h + r) ∨
       (n.testBit h = false ∧ n = 2 * (c * 2 ^ h) + r)) ∧
      n / 2 ^ (h + 1) = c ∧ n % 2 ^ h = r := by
  refine ⟨n / 2 ^ (h + 1), n % 2 ^ h, Nat.mod_lt _ (Nat.two_pow_pos h), ?_, rfl, rfl⟩
  have h1 := Nat.div_add_mod n (2 ^ h)
  have h2 : n / 2 ^ (h + 1) = n / 2 ^ h / 2 := by rw [pow_succ2, Nat.mul_comm, Nat.div_div_eq_div_mul]
  rw [h2]
  have ht := testBit_iff n h
  generalize n / 2 ^ h = a at *
  generalize hc : a / 2 = c at *
  rcases Nat.mod_two_eq_zero_or_one a with hb | hb
  · right
    have ha : a = 2 * c := by omega
    have hm : 2 ^ h * a = 2 * (c * 2 ^ h) := by rw [ha]; ring
    refine ⟨?_, by omega⟩
    have : ¬ (n.testBit h = true) := by rw [ht]; omega
    simpa using this
  · left
    have ha : a = 2 * c + 1 := by omega
    have hm : 2 ^ h * a = 2 * (c * 2 ^ h) + 2 ^ h := by rw [ha]; ring
    exact ⟨ht.2 hb, by omega⟩

/-- converse: a decomposition determines the digits -/
theorem digits_set {n h c r : Nat} (hr : r < 2 ^ h) (hn : n = 2 * (c * 2 ^ h) + 2 ^ h + r) :
    n.testBit h = true ∧ n / 2 ^ (h + 1) = c ∧ n / 2 ^ h = 2 * c + 1 ∧ n % 2 ^ h = r := by
  have hp := Nat.two_pow_pos h
  have e1 : n / 2 ^ h = 2 * c + 1 := by
    apply Nat.div_eq_of_lt_le
    · have : (2 * c + 1) * 2 ^ h = 2 * (c * 2 ^ h) + 2 ^ h := by ring
      omega
    · have : (2 * c + 1 + 1) * 2 ^ h = 2 * (c * 2 ^ h) + 2 ^ h + 2 ^ h := by ring
      omega
  have e2 : n / 2 ^ (h + 1) = c := by
    rw [pow_succ2, Nat.mul_comm, ← Nat.div_div_eq_div_mul, e1]; omega
  refine ⟨?_, e2, e1, ?_⟩
  · rw [testBit_iff, e1]; omega
  · have := Nat.div_add_mod n (2 ^ h)
    have h3 : 2 ^ h * (2 * c + 1) = 2 * (c * 2 ^ h) + 2 ^ h := by ring
    rw [e1, h3] at this
    omega

theorem digits_clear {n h c r : Nat} (hr : r < 2 ^ h) (hn : n = 2 * (c * 2 ^ h) + r) :
    n.testBit h = false ∧ n / 2 ^ (h + 1) = c ∧ n / 2 ^ h = 2 * c ∧ n % 2 ^ h = r := by
  have hp := Nat.two_pow_pos h
  have e1 : n / 2 ^ h = 2 * c := by
    apply Nat.div_eq_of_lt_le
    · have : (2 * c) * 2 ^ h = 2 * (c * 2 ^ h) := by ring
      omega
    · have : (2 * c + 1) * 2 ^ h = 2 * (c * 2 ^ h) + 2 ^ h := by ring
      omega
  have e2 : n / 2 ^ (h + 1) = c := by
    rw [pow_succ2, Nat.mul_comm, ← Nat.div_div_eq_div_mul, e1]; omega
  refine ⟨?_, e2, e1, ?_⟩
  · have : ¬ (n.testBit h = true) := by rw [testBit_iff, e1]; omega
    simpa using this
  · have := Nat.div_add_mod n (2 ^ h)
    have h3 : 2 ^ h * (2 * c) = 2 * (c * 2 ^ h) := by ring
    rw [e1, h3] at this
    omega

theorem treeStart_eq (n h : Nat) : treeStart n h = 2 * (n / 2 ^ (h + 1) * 2 ^ h) := by
  unfold treeStart; rw [pow_succ2]; ring

end Sia.ElemAcc

namespace Sia.ElemAcc

/-- leaf `i` lies in the tree of height `h` of a forest of `n` leaves -/
def InTree (n h i : Nat) : Prop :=
  n.testBit h = true ∧ treeStart n h ≤ i ∧ i < treeStart n h + 2 ^ h

theorem tree_end_le {n h : Nat} (hb : n.testBit h = true) : treeStart n h + 2 ^ h ≤ n := by
  obtain ⟨c, r, hr, hd, hc, _⟩ := digits n h
  rw [treeStart_eq, hc]
  rcases hd with ⟨_, hn⟩ | ⟨hf, _⟩
  · omega
  · rw [hb] at hf; cases hf

theorem treeStart_dvd (n h : Nat) : 2 ^ (h + 1) ∣ treeStart n h := Nat.dvd_mul_left _ _

theorem mergeHeight_pos {n i : Nat} (hi : i ≠ n) : 0 < mergeHeight n i := by
  rcases Nat.eq_zero_or_pos (mergeHeight n i) with h | h
  · have : mergeHeight n i ≤ 0 := by omega
    rw [mergeHeight_le_iff] at this
    simp at this; omega
  · exact h

/-- `treeHeight n i` is the height of the tree that contains leaf `i`. -/
theorem treeHeight_spec {n i : Nat} (hi : i < n) : InTree n (treeHeight n i) i := by
  have hpos := mergeHeight_pos (n := n) (i := i) (by omega)
  have hth : treeHeight n i = mergeHeight n i - 1 := rfl
  generalize treeHeight n i = h at *
  have hle : mergeHeight n i ≤ h + 1 := by omega
  have hnle : ¬ mergeHeight n i ≤ h := by omega
  rw [mergeHeight_le_iff] at hle hnle
  obtain ⟨c, r, hr, hd, hc, _⟩ := digits n h
  obtain ⟨c', r', hr', hd', hc', _⟩ := digits i h
  have hcc : c = c' := by rw [← hc, ← hc', hle]
  subst hcc
  unfold InTree
  rw [treeStart_eq, hc]
  rcases hd with ⟨hb, hn⟩ | ⟨hb, hn⟩ <;> rcases hd' with ⟨hb', hi'⟩ | ⟨hb', hi'⟩
  · have := (digits_set hr hn).2.2.1
    have := (digits_set hr' hi').2.2.1
    omega
  · exact ⟨hb, by omega, by omega⟩
  · omega
  · have := (digits_clear hr hn).2.2.1
    have := (digits_clear hr' hi').2.2.1
    omega

theorem treeHeight_unique {n h i : Nat} (ht : InTree n h i) : treeHeight n i = h := by
  obtain ⟨hb, hlo, hhi⟩ := ht
  obtain ⟨c, r, hr, hd, hc, _⟩ := digits n h
  rw [treeStart_eq, hc] at hlo hhi
  rcases hd with ⟨_, hn⟩ | ⟨hf, _⟩
  · have hi' : i = 2 * (c * 2 ^ h) + (i - 2 * (c * 2 ^ h)) := by omega
    have hr' : i - 2 * (c * 2 ^ h) < 2 ^ h := by omega
    have d1 := digits_set hr hn
    have d2 := digits_clear hr' hi'
    have hle : mergeHeight n i ≤ h + 1 := by rw [mergeHeight_le_iff, d1.2.1, d2.2.1]
    have hnle : ¬ mergeHeight n i ≤ h := by rw [mergeHeight_le_iff, d1.2.2.1, d2.2.2.1]; omega
    unfold treeHeight; unfold mergeHeight at hle hnle; omega
  · rw [hb] at hf; cases hf

theorem mergeHeight_eq {n i : Nat} (hi : i < n) : mergeHeight n i = treeHeight n i + 1 := by
  have := mergeHeight_pos (n := n) (i := i) (by omega)
  unfold treeHeight; unfold mergeHeight at *; omega

theorem inTree_lt {n h i : Nat} (ht : InTree n h i) : i < n := by
  have := tree_end_le ht.1; have := ht.2.2; omega

end Sia.ElemAcc

namespace Sia.ElemAcc

theorem mod_succ_testBit (idx k : Nat) :
    idx % 2 ^ (k + 1) = idx % 2 ^ k + (if idx.testBit k then 2 ^ k else 0) := by
  obtain ⟨c, r, hr, hd, hc, hm⟩ := digits idx k
  have hp := pow_succ2 k
  have := Nat.div_add_mod idx (2 ^ (k + 1))
  rw [hc, hm] at *
  have e : 2 ^ (k + 1) * c = 2 * (c * 2 ^ k) := by rw [hp]; ring
  rw [e] at this
  rcases hd with ⟨hb, hn⟩ | ⟨hb, hn⟩ <;> rw [hb] <;> simp <;> omega

/-- the low `k` bits of `m` are all set -/
def LowOnes (m k : Nat) : Prop := m % 2 ^ k = 2 ^ k - 1

theorem lowOnes_zero (m : Nat) : LowOnes m 0 := by simp [LowOnes, Nat.mod_one]

theorem lowOnes_le {m k : Nat} (h : LowOnes m k) : 2 ^ k ≤ m + 1 := by
  unfold LowOnes at h
  have := Nat.mod_le m (2 ^ k)
  have := Nat.two_pow_pos k
  omega

/-- merging step of the binary counter: bit `k` set above `k` low ones -/
theorem lowOnes_step {m k : Nat} (h : LowOnes m k) (hb : m.testBit k = true) :
    LowOnes m (k + 1) ∧ treeStart m k + 2 ^ (k + 1) = m + 1 := by
  unfold LowOnes at *
  have hp := pow_succ2 k
  have hpos := Nat.two_pow_pos k
  have hm := mod_succ_testBit m k
  rw [hb, if_pos rfl] at hm
  obtain ⟨c, r, hr, hd, hc, hmod⟩ := digits m k
  rw [treeStart_eq, hc]
  rcases hd with ⟨_, hn⟩ | ⟨hf, _⟩
  · exact ⟨by omega, by omega⟩
  · rw [hb] at hf; cases hf

theorem succ_div_pow_of_lt {m k h : Nat} (hl : LowOnes m k) (hb : m.testBit k = false) (hk : k < h) :
    (m + 1) / 2 ^ h = m / 2 ^ h := by
  rw [Nat.succ_div]
  have : ¬ (2 ^ h ∣ m + 1) := by
    intro hd
    have hd' : 2 ^ (k + 1) ∣ m + 1 := Nat.dvd_trans (Nat.pow_dvd_pow 2 (by omega)) hd
    have h0 := Nat.mod_eq_zero_of_dvd hd'
    unfold LowOnes at hl
    obtain ⟨c, r, hr, hdd, hc, hmod⟩ := digits m k
    have hpos := Nat.two_pow_pos k
    rcases hdd with ⟨ht, _⟩ | ⟨_, hn⟩
    · rw [hb] at ht; cases ht
    · have d := digits_set (n := m + 1) (h := k) (c := c) (r := 0) hpos (by omega)
      have hm := mod_succ_testBit (m + 1) k
      rw [d.1, if_pos rfl, d.2.2.2] at hm
      omega
  simp [this]

/-- final step of the binary counter: bit `k` clear above `k` low ones -/
theorem lowOnes_stop {m k : Nat} (h : LowOnes m k) (hb : m.testBit k = false) :
    ((m + 1).testBit k = true ∧ treeStart (m + 1) k + 2 ^ k = m + 1) ∧
    (∀ j, k < j → (m + 1).testBit j = m.testBit j ∧ treeStart (m + 1) j = treeStart m j) ∧
    (∀ j, j < k → (m + 1).testBit j = false) := by
  have hpos := Nat.two_pow_pos k
  obtain ⟨c, r, hr, hd, hc, hmod⟩ := digits m k
  have hl := h
  unfold LowOnes at h
  rcases hd with ⟨ht, _⟩ | ⟨_, hn⟩
  · rw [hb] at ht; cases ht
  · have d := digits_set (n := m + 1) (h := k) (c := c) (r := 0) hpos (by omega)
    refine ⟨⟨d.1, ?_⟩, ?_, ?_⟩
    · rw [treeStart_eq, d.2.1]; omega
    · intro j hj
      constructor
      · rw [Nat.testBit_eq_decide_div_mod_eq, Nat.testBit_eq_decide_div_mod_eq, succ_div_pow_of_lt hl hb hj]
      · unfold treeStart
        rw [succ_div_pow_of_lt hl hb (by omega : k < j + 1)]
    · intro j hj
      have e : m + 1 = 2 ^ k * (2 * c + 1) := by
        have : 2 ^ k * (2 * c + 1) = 2 * (c * 2 ^ k) + 2 ^ k := by ring
        omega
      rw [e, Nat.testBit_two_pow_mul]
      have : ¬ (j ≥ k) := by omega
      simp [this]

theorem mod_pow_mono (m : Nat) {a b : Nat} (hab : a ≤ b) : m % 2 ^ a ≤ m % 2 ^ b := by
  have : m % 2 ^ a = (m % 2 ^ b) % 2 ^ a := (Nat.mod_mod_of_dvd m (Nat.pow_dvd_pow 2 hab)).symm
  rw [this]; exact Nat.mod_le _ _

theorem clearBits_eq_treeStart (n b : Nat) : clearBits n (b + 1) = treeStart n b := by
  unfold clearBits treeStart
  have := Nat.div_add_mod n (2 ^ (b + 1))
  rw [Nat.mul_comm] at this
  omega

/-- a higher tree lies entirely to the left of a lower one -/
theorem tree_order {m h1 h2 : Nat} (hlt : h1 < h2) (hb : m.testBit h2 = true) :
    treeStart m h2 + 2 ^ h2 ≤ treeStart m h1 := by
  rw [← clearBits_eq_treeStart, ← clearBits_eq_treeStart]
  unfold clearBits
  have hm := mod_succ_testBit m h2
  rw [hb, if_pos rfl] at hm
  have := mod_pow_mono m (show h1 + 1 ≤ h2 by omega)
  have := Nat.mod_le m (2 ^ (h2 + 1))
  omega

end Sia.ElemAcc
