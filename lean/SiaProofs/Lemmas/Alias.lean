import SiaModel.Ledger.Alias
/-! Helper lemmas for C09 (aliasing model): the freshness invariant of the application pipeline. -/
namespace Sia.Alias

/-- relative to the heap a call started from (`base` = its bump pointer): nothing below
    `base` has changed, and every logged write is old or went to an address ≥ `base` -/
def Good (base : Addr) (s0 s : St) : Prop :=
  base ≤ s.heap.next ∧ (∀ a, a < base → s.heap.cells a = s0.heap.cells a) ∧
  (∀ a, a ∈ s.written → a ∈ s0.written ∨ base ≤ a)

theorem Good.refl {base : Addr} {s0 : St} (h : base ≤ s0.heap.next) : Good base s0 s0 :=
  ⟨h, fun _ _ => rfl, fun _ h => Or.inl h⟩

theorem Good.alloc {base : Addr} {s0 s : St} (h : Good base s0 s) (buf : List Word) :
    Good base s0 (s.alloc buf).2 ∧ base ≤ (s.alloc buf).1 := by
  obtain ⟨h1, h2, h3⟩ := h
  refine ⟨⟨?_, ?_, h3⟩, h1⟩
  · show base ≤ s.heap.next + 1; omega
  · intro a ha
    show (if a = s.heap.next then some buf else s.heap.cells a) = s0.heap.cells a
    rw [if_neg (by omega)]; exact h2 a ha

theorem Good.write {base : Addr} {s0 s : St} (h : Good base s0 s) {a : Addr} (ha : base ≤ a) (buf : List Word) :
    Good base s0 (s.write a buf) := by
  obtain ⟨h1, h2, h3⟩ := h
  refine ⟨h1, ?_, ?_⟩
  · intro x hx
    show (if x = a then some buf else s.heap.cells x) = s0.heap.cells x
    rw [if_neg (by omega)]; exact h2 x hx
  · intro x hx
    show x ∈ s0.written ∨ base ≤ x
    have : x = a ∨ x ∈ s.written := by simpa [St.write] using hx
    cases this with
    | inl e => subst e; exact Or.inr ha
    | inr e => exact h3 x e

/-- an element that is not shared and whose proof (if any) was allocated after `base` -/
def Fresh (base : Addr) (e : StateElement) : Prop :=
  e.shared = false ∧ ∀ a, e.proof = some a → base ≤ a

def MidFresh (base : Addr) (ms : List Diff) : Prop := ∀ d ∈ ms, Fresh base d.elem

theorem copy_fresh {base : Addr} {s0 s : St} (h : Good base s0 s) (e : StateElement) :
    Good base s0 (e.copy s).2 ∧ Fresh base (e.copy s).1 := by
  unfold StateElement.copy
  cases hp : e.proof with
  | none => exact ⟨h, rfl, fun a ha => by simp at ha⟩
  | some a =>
    obtain ⟨g, hb⟩ := h.alloc (s.read a)
    refine ⟨g, rfl, fun x hx => ?_⟩
    have : x = (s.alloc (s.read a)).1 := by simpa using hx.symm
    rw [this]; exact hb

theorem fresh_literal (base : Addr) : Fresh base { leafIndex := none, proof := none, shared := false } :=
  ⟨rfl, fun _ h => by simp at h⟩

theorem put_fresh {base : Addr} {ms : Mid} (hm : MidFresh base ms) (k : Kind) (id : Nat) (f : Diff → Diff)
    (hf : ∀ d, Fresh base d.elem → Fresh base (f d).elem) : MidFresh base (ms.put k id f) := by
  unfold Mid.put
  split
  · intro d hd
    obtain ⟨d0, h0, rfl⟩ := List.mem_map.1 hd
    split
    · exact hf d0 (hm d0 h0)
    · exact hm d0 h0
  · intro d hd
    rcases List.mem_append.1 hd with h | h
    · exact hm d h
    · have : d = f (emptyDiff k id) := by simpa using h
      subst this
      exact hf _ (fresh_literal base)

theorem find?_mem {ms : Mid} {k : Kind} {id : Nat} {d : Diff} (h : ms.find? k id = some d) : d ∈ ms :=
  List.mem_of_find?_eq_some h

/-- one hand-off keeps the invariant: the record gets a copy or a literal, never the caller's buffer -/
theorem applyOp_inv {base : Addr} {s0 s s' : St} {ms ms' : Mid} {op : Op}
    (hg : Good base s0 s) (hm : MidFresh base ms) (h : applyOp ms s op = .ok (ms', s')) :
    Good base s0 s' ∧ MidFresh base ms' := by
  cases op with
  | spend k id src =>
    simp only [applyOp, bind, Except.bind, pure, Except.pure] at h
    split at h
    · cases h
    · rename_i e _
      simp only [Except.ok.injEq, Prod.mk.injEq] at h
      obtain ⟨rfl, rfl⟩ := h
      obtain ⟨g, f⟩ := copy_fresh hg e.share
      exact ⟨g, put_fresh hm _ _ _ (fun _ _ => f)⟩
  | create k id =>
    simp only [applyOp, pure, Except.pure, Except.ok.injEq, Prod.mk.injEq] at h
    obtain ⟨rfl, rfl⟩ := h
    exact ⟨hg, put_fresh hm _ _ _ (fun _ _ => fresh_literal base)⟩
  | revise k id src =>
    simp only [applyOp, bind, Except.bind, pure, Except.pure] at h
    split at h
    · cases h
    · rename_i e _
      split at h
      · split at h
        · simp only [Except.ok.injEq, Prod.mk.injEq] at h
          obtain ⟨rfl, rfl⟩ := h
          exact ⟨hg, hm⟩
        · simp only [Except.ok.injEq, Prod.mk.injEq] at h
          obtain ⟨rfl, rfl⟩ := h
          obtain ⟨g, f⟩ := copy_fresh hg e.share
          exact ⟨g, put_fresh hm _ _ _ (fun _ _ => f)⟩
      · simp only [Except.ok.injEq, Prod.mk.injEq] at h
        obtain ⟨rfl, rfl⟩ := h
        obtain ⟨g, f⟩ := copy_fresh hg e.share
        exact ⟨g, put_fresh hm _ _ _ (fun _ _ => f)⟩
  | resolveV1 id src =>
    simp only [applyOp, bind, Except.bind, pure, Except.pure] at h
    split at h
    · cases h
    · rename_i e _
      split at h
      · split at h
        · simp only [Except.ok.injEq, Prod.mk.injEq] at h
          obtain ⟨rfl, rfl⟩ := h
          exact ⟨hg, put_fresh hm _ _ _ (fun _ hd => hd)⟩
        · simp only [Except.ok.injEq, Prod.mk.injEq] at h
          obtain ⟨rfl, rfl⟩ := h
          obtain ⟨g, f⟩ := copy_fresh hg e.share
          exact ⟨g, put_fresh hm _ _ _ (fun _ _ => f)⟩
      · simp only [Except.ok.injEq, Prod.mk.injEq] at h
        obtain ⟨rfl, rfl⟩ := h
        obtain ⟨g, f⟩ := copy_fresh hg e.share
        exact ⟨g, put_fresh hm _ _ _ (fun _ _ => f)⟩
  | resolveV2 id src =>
    simp only [applyOp, bind, Except.bind, pure, Except.pure] at h
    split at h
    · cases h
    · rename_i e _
      split at h
      · cases h
      · simp only [Except.ok.injEq, Prod.mk.injEq] at h
        obtain ⟨rfl, rfl⟩ := h
        obtain ⟨g, f⟩ := copy_fresh hg e.share
        exact ⟨g, put_fresh hm _ _ _ (fun _ _ => f)⟩

theorem applyOps_inv {base : Addr} {s0 : St} (ops : List Op) :
    ∀ {s s' : St} {ms ms' : Mid}, Good base s0 s → MidFresh base ms →
      applyOps ms s ops = .ok (ms', s') → Good base s0 s' ∧ MidFresh base ms' := by
  induction ops with
  | nil =>
    intro s s' ms ms' hg hm h
    simp only [applyOps, Except.ok.injEq, Prod.mk.injEq] at h
    obtain ⟨rfl, rfl⟩ := h
    exact ⟨hg, hm⟩
  | cons op rest ih =>
    intro s s' ms ms' hg hm h
    simp only [applyOps, bind, Except.bind] at h
    split at h
    · cases h
    · rename_i r hr
      obtain ⟨ms1, s1⟩ := r
      obtain ⟨g1, m1⟩ := applyOp_inv hg hm hr
      exact ih g1 m1 h

end Sia.Alias
