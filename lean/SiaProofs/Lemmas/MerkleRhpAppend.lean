import SiaProofs.Lemmas.MerkleRhpSound
/-!
  Helper lemmas for C16, part 6: append proofs (`fillTrees`/`collectTrees`).
-/
set_option linter.unusedVariables false
set_option linter.unusedSectionVars false
namespace Sia.Rhp
open HashOps

variable {H : Type} [HashOps H]

theorem fillTrees_zero (t : Nat → H) (i : Nat) (hs : List H) : fillTrees t 0 i hs = t := by
  rw [fillTrees.eq_def]; simp

theorem fillTrees_odd_cons (t : Nat → H) (m i : Nat) (x : H) (hs : List H) (h : m % 2 = 1) :
    fillTrees t m i (x :: hs) = fillTrees (setTree t i x) (m / 2) (i + 1) hs := by
  rw [fillTrees]
  have : m ≠ 0 := by omega
  simp [this, h]

theorem fillTrees_odd_nil (t : Nat → H) (m i : Nat) (h : m % 2 = 1) :
    fillTrees t m i [] = fillTrees t (m / 2) (i + 1) [] := by
  rw [fillTrees]
  have : m ≠ 0 := by omega
  simp [this, h]

theorem fillTrees_even (t : Nat → H) (m i : Nat) (hs : List H) (h0 : m ≠ 0) (h : m % 2 = 0) :
    fillTrees t m i hs = fillTrees t (m / 2) (i + 1) hs := by
  rw [fillTrees.eq_def]
  have : ¬ (m % 2 = 1) := by omega
  simp [h0, this]

theorem fillTrees_frame (m : Nat) : ∀ (t : Nat → H) (i : Nat) (hs : List H) (j : Nat), j < i →
    fillTrees t m i hs j = t j := by
  induction m using Nat.strongRecOn with
  | _ m ih =>
    intro t i hs j hj
    by_cases h0 : m = 0
    · subst h0; rw [fillTrees_zero]
    · by_cases h1 : m % 2 = 1
      · cases hs with
        | nil => rw [fillTrees_odd_nil t m i h1]; exact ih (m / 2) (by omega) t (i + 1) [] j (by omega)
        | cons x xs =>
          rw [fillTrees_odd_cons t m i x xs h1, ih (m / 2) (by omega) _ (i + 1) xs j (by omega)]
          simp [setTree]; intro h; omega
      · rw [fillTrees_even t m i hs h0 (by omega)]
        exact ih (m / 2) (by omega) t (i + 1) hs j (by omega)

theorem collectTrees_zero (t : Nat → H) (i : Nat) : collectTrees t 0 i = [] := by
  rw [collectTrees]; simp

theorem collectTrees_odd (t : Nat → H) (m i : Nat) (h : m % 2 = 1) :
    collectTrees t m i = t i :: collectTrees t (m / 2) (i + 1) := by
  rw [collectTrees]
  have : m ≠ 0 := by omega
  simp [this, h]

theorem collectTrees_even (t : Nat → H) (m i : Nat) (h0 : m ≠ 0) (h : m % 2 = 0) :
    collectTrees t m i = collectTrees t (m / 2) (i + 1) := by
  rw [collectTrees]
  have : ¬ (m % 2 = 1) := by omega
  simp [h0, this]

/-- refilling an accumulator from its own subtree roots (possibly followed by extra hashes)
reproduces its stack -/
theorem toStack_fill_collect (t : Nat → H) (m : Nat) : ∀ (t0 : Nat → H) (i : Nat) (extra : List H),
    toStack (fillTrees t0 m i (collectTrees t m i ++ extra)) m i = toStack t m i := by
  induction m using Nat.strongRecOn with
  | _ m ih =>
    intro t0 i extra
    by_cases h0 : m = 0
    · subst h0; simp [toStack_zero]
    · by_cases h1 : m % 2 = 1
      · rw [collectTrees_odd t m i h1, List.cons_append, fillTrees_odd_cons _ m i _ _ h1]
        rw [toStack_odd _ m i h1, toStack_odd t m i h1]
        rw [ih (m / 2) (by omega) _ (i + 1) extra]
        rw [fillTrees_frame (m / 2) _ (i + 1) _ i (by omega)]
        simp [setTree]
      · rw [collectTrees_even t m i h0 (by omega), fillTrees_even _ m i _ h0 (by omega)]
        rw [toStack_even _ m i (by omega), toStack_even t m i (by omega)]
        exact ih (m / 2) (by omega) t0 (i + 1) extra

/-- `Inv` only looks at the stack view and the count -/
theorem Inv.of_stack {a b : Acc H} {ls : List H} (hi : Inv a ls) (hs : b.stack = a.stack) (hn : b.n = a.n) :
    Inv b ls := ⟨by rw [hs]; exact hi.1, by rw [hn]; exact hi.2⟩

end Sia.Rhp
