import SiaProofs.Lemmas.LedgerC01Basic
/-!
# C01 helper lemmas, part 2: the transaction / block functions as explicit folds

`applyTransaction`, `applyV2Transaction`, `validateBlock`, `midApplyBlock` are written
with `for … in … do` and `let mut`.  Here each loop body becomes a named step function
and each function is proved equal to a composition of `List.foldlM`s over those steps.
-/
namespace Sia.Ledger

-- ------------------------------------------------------------------ v1 steps

def stepScIn1 (supp : Supp1) (ms : Mid) (sci : ScIn1) : VM Mid :=
  match ms.scElement supp sci.parent with
  | none => gopanic "missing SiacoinElement"
  | some e => pure (ms.spendSc e)

def stepScOut (ms : Mid) (x : Id × ScOut) : VM Mid := pure (ms.createSc x.1 x.2)

def stepSfIn1 (supp : Supp1) (ms : Mid) (sfi : SfIn1) : VM Mid :=
  match ms.sfElement supp sfi.parent with
  | none => gopanic "missing SiafundElement"
  | some e => do
    let c ← claimPortion ms.pool e.claimStart e.value
    pure ((ms.spendSf e).createImmatureSc sfi.claimId { value := c, addr := sfi.claimAddr })

def stepSfOut (ms : Mid) (x : Id × Nat × Addr) : VM Mid := pure (ms.createSf x.1 x.2.1 x.2.2)

def stepFc1 (ms : Mid) (x : Id × Fc1) : VM Mid := ms.createFc1 x.1 x.2

def stepRev1 (supp : Supp1) (ms : Mid) (r : Rev1) : VM Mid :=
  match ms.fc1Element supp r.parent with
  | none => gopanic "missing FileContractElement"
  | some e => pure (ms.reviseFc1 e r.fc)

/-- create one immature output per (output, id) pair -/
def payOuts (ms : Mid) (l : List (ScOut × Id)) : Mid :=
  l.foldl (fun ms x => ms.createImmatureSc x.2 x.1) ms

def stepProof1 (supp : Supp1) (ms : Mid) (sp : Proof1) : VM Mid :=
  match ms.fc1Element supp sp.parent with
  | none => gopanic "missing V1StorageProofSupplement"
  | some e => pure (payOuts (ms.resolveFc1 e true) (e.fc.valid.zip sp.outIds))

def foundation1 (ms : Mid) (t : Txn1) : Mid :=
  if ms.base.child ≥ ms.base.P.hfFoundation + 1 then
    match t.foundation with
    | some (some (p, f), _) => { ms with fPrimary := p, fFailsafe := f }
    | some (none, _) => { ms with fPrimary := 0, fFailsafe := 0 }
    | none => ms
  else ms

theorem payOuts_forIn (ms : Mid) (l : List (ScOut × Id)) :
    (forIn l ms fun x s => match x with
      | (o, id) => (pure (ForInStep.yield (s.createImmatureSc id o)) : VM (ForInStep Mid))) = pure (payOuts ms l) := by
  have := List.forIn_pure_yield_eq_foldl (m := VM) (l := l) (fun (x : ScOut × Id) (s : Mid) => s.createImmatureSc x.2 x.1) ms
  exact this

theorem applyTransaction_eq_c1 (ms : Mid) (t : Txn1) :
    applyTransaction ms t = (do
      let ms ← t.scIns.foldlM (stepScIn1 t.supp) ms
      let ms ← t.scOuts.foldlM stepScOut ms
      let ms ← t.sfIns.foldlM (stepSfIn1 t.supp) ms
      let ms ← t.sfOuts.foldlM stepSfOut ms
      let ms ← t.fcs.foldlM stepFc1 ms
      let ms ← t.revs.foldlM (stepRev1 t.supp) ms
      let ms ← t.proofs.foldlM (stepProof1 t.supp) ms
      pure (foundation1 ms t)) := by
  unfold applyTransaction
  simp only []
  rw [forIn_eq_foldlM_c1 t.scIns ms _ (stepScIn1 t.supp)]
  · congr 1; funext ms
    rw [forIn_eq_foldlM_c1 t.scOuts ms _ stepScOut]
    · congr 1; funext ms
      rw [forIn_eq_foldlM_c1 t.sfIns ms _ (stepSfIn1 t.supp)]
      · congr 1; funext ms
        rw [forIn_eq_foldlM_c1 t.sfOuts ms _ stepSfOut]
        · congr 1; funext ms
          rw [forIn_eq_foldlM_c1 t.fcs ms _ stepFc1]
          · congr 1; funext ms
            rw [forIn_eq_foldlM_c1 t.revs ms _ (stepRev1 t.supp)]
            · congr 1; funext ms
              rw [forIn_eq_foldlM_c1 t.proofs ms _ (stepProof1 t.supp)]
              · congr 1; funext ms
                unfold foundation1
                split
                · rcases t.foundation with _ | ⟨_ | ⟨p, f⟩, sg⟩ <;> rfl
                · rfl
              · intro sp s; unfold stepProof1
                cases s.fc1Element t.supp sp.parent with
                | none => rfl
                | some e => simp only []; rw [payOuts_forIn]
            · intro r s; unfold stepRev1; cases s.fc1Element t.supp r.parent <;> rfl
          · intro x s; obtain ⟨id, fc⟩ := x; rfl
        · intro x s; obtain ⟨id, v, a⟩ := x; rfl
      · intro sfi s; unfold stepSfIn1
        cases s.sfElement t.supp sfi.parent with
        | none => rfl
        | some e => simp only []; cases claimPortion s.pool e.claimStart e.value <;> rfl
    · intro x s; obtain ⟨id, o⟩ := x; rfl
  · intro sci s; unfold stepScIn1; cases s.scElement t.supp sci.parent <;> rfl

-- ------------------------------------------------------------------ v2 steps

def stepScIn2 (ms : Mid) (sci : ScIn2) : VM Mid := pure (ms.spendSc sci.parent)

def stepSfIn2 (ms : Mid) (sfi : SfIn2) : VM Mid := do
  let c ← claimPortion (ms.spendSf sfi.parent).pool sfi.parent.claimStart sfi.parent.value
  pure ((ms.spendSf sfi.parent).createImmatureSc sfi.claimId { value := c, addr := sfi.claimAddr })

def stepFc2 (ms : Mid) (x : Id × Fc2 × Bool) : VM Mid := ms.createFc2 x.1 x.2.1

def stepRev2 (ms : Mid) (r : Rev2) : VM Mid := pure (ms.reviseFc2 r.parent r.rev)

def stepRes2 (ms : Mid) (r : Resolution2) : VM Mid :=
  match r.res with
  | .renewal rn => do
    let ms ← ms.resolveFc2 r.parent .renewal
    let ms ← ms.createFc2 rn.newId rn.newContract
    pure ((ms.createImmatureSc r.renterOutId rn.finalRenter).createImmatureSc r.hostOutId rn.finalHost)
  | .proof _ _ _ _ => do
    let ms ← ms.resolveFc2 r.parent .proof
    pure ((ms.createImmatureSc r.renterOutId r.parent.fc.renter).createImmatureSc r.hostOutId r.parent.fc.host)
  | .expiration => do
    let ms ← ms.resolveFc2 r.parent .expiration
    pure ((ms.createImmatureSc r.renterOutId r.parent.fc.renter).createImmatureSc r.hostOutId
      { value := r.parent.fc.missedHost, addr := r.parent.fc.host.addr })

def finish2 (ms : Mid) (t : Txn2) : Mid :=
  match t.newFoundation with
  | some a =>
    if a ≠ ms.base.P.voidAddr then { ms with natts := ms.natts + t.natts, fPrimary := a, fFailsafe := a }
    else { ms with natts := ms.natts + t.natts, fPrimary := a }
  | none => { ms with natts := ms.natts + t.natts }

theorem applyV2Transaction_eq_c1 (ms : Mid) (t : Txn2) :
    applyV2Transaction ms t = (do
      let ms ← t.scIns.foldlM stepScIn2 ms
      let ms ← t.scOuts.foldlM stepScOut ms
      let ms ← t.sfIns.foldlM stepSfIn2 ms
      let ms ← t.sfOuts.foldlM stepSfOut ms
      let ms ← t.fcs.foldlM stepFc2 ms
      let ms ← t.revs.foldlM stepRev2 ms
      let ms ← t.ress.foldlM stepRes2 ms
      pure (finish2 ms t)) := by
  unfold applyV2Transaction
  simp only []
  rw [forIn_eq_foldlM_c1 t.scIns ms _ stepScIn2]
  · congr 1; funext ms
    rw [forIn_eq_foldlM_c1 t.scOuts ms _ stepScOut]
    · congr 1; funext ms
      rw [forIn_eq_foldlM_c1 t.sfIns ms _ stepSfIn2]
      · congr 1; funext ms
        rw [forIn_eq_foldlM_c1 t.sfOuts ms _ stepSfOut]
        · congr 1; funext ms
          rw [forIn_eq_foldlM_c1 t.fcs ms _ stepFc2]
          · congr 1; funext ms
            rw [forIn_eq_foldlM_c1 t.revs ms _ stepRev2]
            · congr 1; funext ms
              rw [forIn_eq_foldlM_c1 t.ress ms _ stepRes2]
              · congr 1; funext ms
                unfold finish2
                cases t.newFoundation with
                | none => rfl
                | some a => simp only []; split <;> rfl
              · intro r s; unfold stepRes2
                cases r.res with
                | renewal rn =>
                  simp only []
                  cases s.resolveFc2 r.parent ResKind.renewal with
                  | error e => rfl
                  | ok s1 => cases h : s1.createFc2 rn.newId rn.newContract <;> simp only [bind, Except.bind, h] <;> rfl
                | proof a b c d =>
                  simp only []
                  cases s.resolveFc2 r.parent ResKind.proof <;> rfl
                | expiration =>
                  simp only []
                  cases s.resolveFc2 r.parent ResKind.expiration <;> rfl
            · intro r s; rfl
          · intro x s; obtain ⟨id, fc, sg⟩ := x; unfold stepFc2; cases s.createFc2 id fc <;> rfl
        · intro x s; obtain ⟨id, v, a⟩ := x; rfl
      · intro sfi s; unfold stepSfIn2
        cases claimPortion (s.spendSf sfi.parent).pool sfi.parent.claimStart sfi.parent.value <;> rfl
    · intro x s; obtain ⟨id, o⟩ := x; rfl
  · intro sci s; rfl

-- ------------------------------------------------------------------ blocks

def Block.fees1 (b : Block) : List Cur := (b.txns1.map (·.fees)).flatten
def Block.v2txns (b : Block) : List Txn2 := match b.v2 with | some (_, _, ts) => ts | none => []
def Block.fees2 (b : Block) : List Cur := b.v2txns.map (·.fee)

def stepV1 (pid : Id) (mw : Nat) (ms : Mid) (t : Txn1) : VM Mid := do
  validateTransaction ms t pid mw
  applyTransaction ms t

def stepV2 (mw : Nat) (ms : Mid) (t : Txn2) : VM Mid := do
  validateV2Transaction ms t mw
  applyV2Transaction ms t

def stepPayout (ms : Mid) (x : Id × ScOut) : VM Mid := pure (ms.createImmatureSc x.1 x.2)

def stepExpire (ms : Mid) (x : Fc1Elem × List Id) : VM Mid :=
  pure (if ms.isSpent x.1.id then ms else payOuts (ms.resolveFc1 x.1 false) (x.1.fc.missed.zip x.2))

def applySubsidy (ms : Mid) (b : Block) (o : Option ScOut) : Mid :=
  match o with
  | some o => ms.createImmatureSc b.foundationOutId o
  | none => ms

theorem validateBlock_ok {L : Ledger} {b : Block} {pid : Id} {ms : Mid}
    (h : validateBlock L b pid = .ok ms) :
    validateOrphan L b = .ok () ∧ validateSupplement L b = .ok () ∧
    ∃ ms1, b.txns1.foldlM (stepV1 pid b.maxWeight) (newMid L) = .ok ms1 ∧
           b.v2txns.foldlM (stepV2 b.maxWeight) ms1 = .ok ms := by
  unfold validateBlock at h
  rw [bind_eq_ok] at h; obtain ⟨u1, h1, h⟩ := h
  rw [bind_eq_ok] at h; obtain ⟨u2, h2, h⟩ := h
  refine ⟨h1, h2, ?_⟩
  have e1 : ∀ ms0, (forIn b.txns1 ms0 fun t __s => (do
          validateTransaction __s t pid b.maxWeight
          let ms ← applyTransaction __s t
          pure (ForInStep.yield ms) : VM (ForInStep Mid))) = b.txns1.foldlM (stepV1 pid b.maxWeight) ms0 := by
    intro ms0
    apply forIn_eq_foldlM_c1
    intro t s; unfold stepV1
    cases validateTransaction s t pid b.maxWeight with
    | error e => rfl
    | ok u => cases applyTransaction s t <;> rfl
  have e2 : ∀ (txns : List Txn2) ms0, (forIn txns ms0 fun t __s => (do
          validateV2Transaction __s t b.maxWeight
          let ms ← applyV2Transaction __s t
          pure (ForInStep.yield ms) : VM (ForInStep Mid))) = txns.foldlM (stepV2 b.maxWeight) ms0 := by
    intro txns ms0
    apply forIn_eq_foldlM_c1
    intro t s; unfold stepV2
    cases validateV2Transaction s t b.maxWeight with
    | error e => rfl
    | ok u => cases applyV2Transaction s t <;> rfl
  simp only [e1, e2] at h
  unfold Block.v2txns
  generalize b.v2 = v at h ⊢
  rcases v with _ | ⟨a, c, txns⟩
  · simp only [] at h
    rw [bind_eq_ok] at h; obtain ⟨ms1, hk1, hk2⟩ := h
    exact ⟨ms1, hk1, by simpa using hk2⟩
  · simp only [] at h
    split at h
    · rw [bind_eq_ok] at h; obtain ⟨_, hr, _⟩ := h; cases hr
    · rw [bind_eq_ok] at h; obtain ⟨ms1, hk1, hk2⟩ := h
      refine ⟨ms1, hk1, ?_⟩
      rw [bind_eq_ok] at hk2; obtain ⟨ms2, hk3, hk4⟩ := hk2
      cases hk4; exact hk3

theorem midApplyBlock_eq_c1 (ms : Mid) (b : Block) :
    midApplyBlock ms b =
      (if ms.base.child ≥ ms.base.P.v2Require ∧ (b.txns1.length ≠ 0 ∨ b.expiring.length ≠ 0) then
        gopanic "consensus: block supplement must be empty after v2 hardfork"
      else do
        let ms ← b.txns1.foldlM applyTransaction ms
        let ms ← b.v2txns.foldlM applyV2Transaction ms
        let ms ← b.payouts.foldlM stepPayout ms
        let sub ← foundationSubsidy ms.base
        b.expiring.foldlM stepExpire (applySubsidy ms b sub)) := by
  unfold midApplyBlock
  have e1 : ∀ ms0, (forIn b.txns1 ms0 fun t __s => (do
          let ms ← applyTransaction __s t
          pure (ForInStep.yield ms) : VM (ForInStep Mid))) = b.txns1.foldlM applyTransaction ms0 := by
    intro ms0; apply forIn_eq_foldlM_c1; intro t s; rfl
  have e2 : ∀ (txns : List Txn2) ms0, (forIn txns ms0 fun t __s => (do
          let ms ← applyV2Transaction __s t
          pure (ForInStep.yield ms) : VM (ForInStep Mid))) = txns.foldlM applyV2Transaction ms0 := by
    intro txns ms0; apply forIn_eq_foldlM_c1; intro t s; rfl
  have e3 : ∀ ms0, (forIn b.payouts ms0 fun x __s => match x with
          | (id, o) => (pure (ForInStep.yield (__s.createImmatureSc id o)) : VM (ForInStep Mid))) =
        b.payouts.foldlM stepPayout ms0 := by
    intro ms0; apply forIn_eq_foldlM_c1; intro x s; obtain ⟨id, o⟩ := x; rfl
  have e4 : ∀ ms0, (forIn b.expiring ms0 fun x __s => match x with
          | (e, ids) =>
            if __s.isSpent e.id = true then (pure (ForInStep.yield __s) : VM (ForInStep Mid))
            else do
              let __s ← forIn (e.fc.missed.zip ids) (__s.resolveFc1 e false) fun x __s => match x with
                | (o, id) => (pure (ForInStep.yield (__s.createImmatureSc id o)) : VM (ForInStep Mid))
              pure (ForInStep.yield __s)) = b.expiring.foldlM stepExpire ms0 := by
    intro ms0; apply forIn_eq_foldlM_c1; intro x s; obtain ⟨e, ids⟩ := x
    unfold stepExpire; simp only []
    split
    · rfl
    · rw [payOuts_forIn]
  simp only [e1, e2, e3, e4]
  split
  · rfl
  · unfold Block.v2txns
    congr 1; funext ms1
    generalize b.v2 = v
    have tail : ∀ ms2 : Mid, (do
        let __s ← b.payouts.foldlM stepPayout ms2
        let __do_lift ← foundationSubsidy __s.base
        match __do_lift with
          | some o => b.expiring.foldlM stepExpire (__s.createImmatureSc b.foundationOutId o)
          | none => b.expiring.foldlM stepExpire __s) = (do
        let ms ← b.payouts.foldlM stepPayout ms2
        let sub ← foundationSubsidy ms.base
        b.expiring.foldlM stepExpire (applySubsidy ms b sub)) := by
      intro ms2; congr 1; funext ms3; congr 1; funext sub
      cases sub <;> rfl
    rcases v with _ | ⟨a, c, txns⟩
    · simp only [List.foldlM_nil, pure_bind, bind_pure]; exact tail ms1
    · simp only [bind_pure]; congr 1; funext ms2; exact tail ms2

end Sia.Ledger
