import SiaProofs.Lemmas.StorageProofTree
/-!
  Helper lemmas for C07 (storage proofs), part 3: soundness. Leaf/node domain separation makes
  the depth of the proven leaf rigid; the direction rule then pins the leaf to index `i`.
-/
set_option linter.unusedVariables false
set_option linter.unusedSectionVars false
namespace Sia.SP
open Sia.Rhp Sia.Rhp.HashOps

variable {H : Type} [HashOps H]

theorem snoc_cases (ps : List H) : ps = [] ∨ ∃ ps' p, ps = ps' ++ [p] := by
  rcases List.eq_nil_or_concat ps with h | ⟨l, b, h⟩
  · exact Or.inl h
  · exact Or.inr ⟨l, b, by rw [h, List.concat_eq_append]⟩

/-- the top of a non-trivial tree over leaf hashes -/
theorem metaRoot_leaves_split (cs : List ByteArray) (h : 2 ≤ cs.length) :
    metaRoot (cs.map (leaf : ByteArray → H)) =
      node (metaRoot ((cs.take (splitPoint cs.length)).map leaf)) (metaRoot ((cs.drop (splitPoint cs.length)).map leaf)) := by
  have := metaRoot_split (cs.map (leaf : ByteArray → H)) (by simpa using h)
  simpa [List.map_take, List.map_drop] using this

/-- unwinding one step of an accepted chain over a tree with at least two leaves -/
theorem chain_top (hinj : HashInj H) (dirs : Nat → Bool) (j : Nat) (d : ByteArray) (ps : List H)
    (cs : List ByteArray) (h2 : 2 ≤ cs.length)
    (heq : chainD dirs j (leaf d) ps = metaRoot (cs.map (leaf : ByteArray → H))) :
    ∃ ps' p, ps = ps' ++ [p] ∧
      ((dirs (j + ps'.length) = true ∧ p = metaRoot ((cs.take (splitPoint cs.length)).map leaf) ∧
          chainD dirs j (leaf d) ps' = metaRoot ((cs.drop (splitPoint cs.length)).map leaf)) ∨
       (dirs (j + ps'.length) = false ∧ p = metaRoot ((cs.drop (splitPoint cs.length)).map leaf) ∧
          chainD dirs j (leaf d) ps' = metaRoot ((cs.take (splitPoint cs.length)).map leaf))) := by
  rw [metaRoot_leaves_split cs h2] at heq
  rcases snoc_cases ps with rfl | ⟨ps', p, rfl⟩
  · simp only [chainD] at heq
    exact absurd heq (hinj.leaf_ne_node _ _ _)
  · refine ⟨ps', p, rfl, ?_⟩
    rw [chainD_snoc] at heq
    cases hd : dirs (j + ps'.length) with
    | true =>
      rw [hd] at heq
      simp only [if_true] at heq
      obtain ⟨h1, h2'⟩ := hinj.node_inj _ _ _ _ heq
      exact Or.inl ⟨rfl, h1, h2'⟩
    | false =>
      rw [hd] at heq
      simp only [Bool.false_eq_true, if_false] at heq
      obtain ⟨h1, h2'⟩ := hinj.node_inj _ _ _ _ heq
      exact Or.inr ⟨rfl, h2', h1⟩

theorem chain_single (hinj : HashInj H) (dirs : Nat → Bool) (j : Nat) (d c : ByteArray) (ps : List H)
    (heq : chainD dirs j (leaf d) ps = (leaf c : H)) : ps = [] ∧ d = c := by
  rcases snoc_cases ps with rfl | ⟨ps', p, rfl⟩
  · simp only [chainD] at heq
    exact ⟨rfl, hinj.leaf_inj _ _ heq⟩
  · rw [chainD_snoc] at heq
    cases hd : dirs (j + ps'.length) <;> rw [hd] at heq <;> simp only [if_true, Bool.false_eq_true, if_false] at heq
    · exact absurd heq.symm (hinj.leaf_ne_node _ _ _)
    · exact absurd heq.symm (hinj.leaf_ne_node _ _ _)

/-- R2: a leaf of a tree with at most `2^t` leaves is at depth at most `t` -/
theorem chain_depth_le (hinj : HashInj H) (dirs : Nat → Bool) (j : Nat) (d : ByteArray) :
    ∀ (t : Nat) (cs : List ByteArray) (ps : List H), 1 ≤ cs.length → cs.length ≤ 2 ^ t →
      chainD dirs j (leaf d) ps = metaRoot (cs.map (leaf : ByteArray → H)) → ps.length ≤ t := by
  intro t
  induction t with
  | zero =>
    intro cs ps h1 h2 heq
    obtain ⟨c, rfl⟩ := List.length_eq_one_iff.1 (by simp at h2; omega : cs.length = 1)
    simp only [List.map_cons, List.map_nil, metaRoot_singleton] at heq
    rw [(chain_single hinj dirs j d c ps heq).1]; simp
  | succ t ih =>
    intro cs ps h1 h2 heq
    by_cases hs : cs.length < 2
    · obtain ⟨c, rfl⟩ := List.length_eq_one_iff.1 (by omega : cs.length = 1)
      simp only [List.map_cons, List.map_nil, metaRoot_singleton] at heq
      rw [(chain_single hinj dirs j d c ps heq).1]; simp
    · obtain ⟨hk, hlo, hhi⟩ := split_facts (n := cs.length) (by omega)
      have hp := Nat.two_pow_pos (cs.length - 1).log2
      rw [two_pow_succ'] at h2 hhi
      have hTt : (cs.length - 1).log2 ≤ t := by
        have : cs.length - 1 < 2 ^ (t + 1) := by rw [two_pow_succ']; omega
        have := (Nat.log2_lt (by omega)).2 this
        omega
      have hkt : 2 ^ (cs.length - 1).log2 ≤ 2 ^ t := Nat.pow_le_pow_right (by omega) hTt
      obtain ⟨ps', p, rfl, hc⟩ := chain_top hinj dirs j d ps cs (by omega) heq
      simp only [List.length_append, List.length_cons, List.length_nil]
      rcases hc with ⟨_, _, h3⟩ | ⟨_, _, h3⟩
      · have := ih (cs.drop (splitPoint cs.length)) ps' (by simp [List.length_drop, hk]; omega)
          (by simp [List.length_drop, hk]; omega) h3
        omega
      · have := ih (cs.take (splitPoint cs.length)) ps' (by simp [List.length_take, hk]; omega)
          (by simp [List.length_take, hk]; omega) h3
        omega

/-- R1': every leaf of a perfect tree with `2^t` leaves is at depth at least `t` -/
theorem chain_depth_ge (hinj : HashInj H) (dirs : Nat → Bool) (j : Nat) (d : ByteArray) :
    ∀ (t : Nat) (cs : List ByteArray) (ps : List H), cs.length = 2 ^ t →
      chainD dirs j (leaf d) ps = metaRoot (cs.map (leaf : ByteArray → H)) → t ≤ ps.length := by
  intro t
  induction t with
  | zero => intro cs ps _ _; omega
  | succ t ih =>
    intro cs ps h heq
    have hp := Nat.two_pow_pos t
    have h2 : 2 ≤ cs.length := by rw [h, two_pow_succ']; omega
    have hk : splitPoint cs.length = 2 ^ t :=
      splitPoint_eq (by rw [h, two_pow_succ']; omega) (by rw [h]; exact Nat.le_refl _)
    obtain ⟨ps', p, rfl, hc⟩ := chain_top hinj dirs j d ps cs h2 heq
    simp only [List.length_append, List.length_cons, List.length_nil]
    rw [hk] at hc
    rcases hc with ⟨_, _, h3⟩ | ⟨_, _, h3⟩
    · have := ih (cs.drop (2 ^ t)) ps' (by simp [List.length_drop, h, two_pow_succ']; omega) h3
      omega
    · have := ih (cs.take (2 ^ t)) ps' (by simp [List.length_take, h, two_pow_succ']; omega) h3
      omega

/-- Soundness of the fold with the verifier's direction rule, given the "too few proof hashes"
guard: the accepted leaf data are the data of leaf `i`. -/
theorem chainD_sound (hinj : HashInj H) : ∀ (n : Nat) (cs : List ByteArray) (i : Nat) (dirs : Nat → Bool)
    (d : ByteArray) (ps : List H), cs.length = n → i < n →
    (∀ j, j < ps.length → dirs j = dirOf i (bitLen (i ^^^ (n - 1))) j) →
    bitLen (i ^^^ (n - 1)) ≤ ps.length →
    chainD dirs 0 (leaf d) ps = metaRoot (cs.map (leaf : ByteArray → H)) →
    cs[i]? = some d := by
  intro n
  induction n using Nat.strongRecOn with
  | _ n ih =>
    intro cs i dirs d ps hn hi hd hguard heq
    by_cases hs : cs.length < 2
    · have h1 : n = 1 := by omega
      subst h1
      have hi0 : i = 0 := by omega
      subst hi0
      obtain ⟨c, rfl⟩ := List.length_eq_one_iff.1 hn
      simp only [List.map_cons, List.map_nil, metaRoot_singleton] at heq
      rw [(chain_single hinj dirs 0 d c ps heq).2]; rfl
    · obtain ⟨hk, hlo, hhi⟩ := split_facts (n := cs.length) (by omega)
      have hp := Nat.two_pow_pos (cs.length - 1).log2
      have hhi' := hhi
      rw [two_pow_succ'] at hhi'
      generalize hT : (cs.length - 1).log2 = T at *
      obtain ⟨ps', p, rfl, hc⟩ := chain_top hinj dirs 0 d ps cs (by omega) heq
      rw [hk, Nat.zero_add] at hc
      simp only [List.length_append, List.length_cons, List.length_nil] at hd hguard
      have hlenL : (cs.take (2 ^ T)).length = 2 ^ T := by simp [List.length_take]; omega
      have hlenR : (cs.drop (2 ^ T)).length = n - 2 ^ T := by simp [List.length_drop]; omega
      have hdtop := hd ps'.length (by omega)
      by_cases hik : i < 2 ^ T
      · -- i is in the left (perfect) half: the merge height is T+1
        have hsh : bitLen (i ^^^ (n - 1)) = T + 1 := by rw [← hn]; exact bitLen_xor_top hik hlo hhi
        rw [hsh] at hd hguard hdtop
        rcases hc with ⟨hdir, _, h3⟩ | ⟨hdir, _, h3⟩
        · -- the verifier went right: then the chain is too long for the right half
          have hdep := chain_depth_le hinj dirs 0 d T (cs.drop (2 ^ T)) ps' (by omega) (by omega) h3
          rw [hdtop] at hdir
          simp only [dirOf, Bool.or_eq_true, decide_eq_true_eq] at hdir
          have hps : ps'.length = T := by omega
          rw [hps, Nat.testBit_lt_two_pow hik] at hdir
          simp at hdir
          omega
        · have hge := chain_depth_ge hinj dirs 0 d T (cs.take (2 ^ T)) ps' hlenL h3
          have hle := chain_depth_le hinj dirs 0 d T (cs.take (2 ^ T)) ps' (by omega) (by omega) h3
          have hps : ps'.length = T := by omega
          have := ih (2 ^ T) (by omega) (cs.take (2 ^ T)) i dirs d ps' hlenL hik (by
            intro j hj
            rw [hd j (by omega)]
            simp only [dirOf]
            have h1 : ¬ (j ≥ T + 1) := by omega
            by_cases h2 : j ≥ bitLen (i ^^^ (2 ^ T - 1))
            · have := bit_above_merge hik (by omega) h2
              simp [this]
            · simp [h1, h2]) (by
            rw [hps, bitLen_le_iff]
            exact Nat.xor_lt_two_pow hik (by omega)) h3
          rw [List.getElem?_take] at this
          simpa [hik] using this
      · -- i is in the right half
        have hxor : i ^^^ (n - 1) = (i - 2 ^ T) ^^^ (n - 2 ^ T - 1) := by
          have := xor_sub_pow (a := i) (b := n - 1) (t := T) (by omega) (by omega) (by omega) (by omega)
          rw [this]; congr 1; omega
        have hshT : bitLen (i ^^^ (n - 1)) ≤ T := by
          rw [hxor, bitLen_le_iff]
          exact Nat.xor_lt_two_pow (by omega) (by omega)
        rcases hc with ⟨hdir, _, h3⟩ | ⟨hdir, _, h3⟩
        · -- went right: recurse, provided the guard still holds
          by_cases hg : bitLen (i ^^^ (n - 1)) ≤ ps'.length
          · have hdep := chain_depth_le hinj dirs 0 d T (cs.drop (2 ^ T)) ps' (by omega) (by omega) h3
            have := ih (n - 2 ^ T) (by omega) (cs.drop (2 ^ T)) (i - 2 ^ T) dirs d ps' hlenR (by omega) (by
              intro j hj
              rw [hd j (by omega), hxor]
              simp only [dirOf]
              rw [testBit_sub_pow (by omega) (by omega)]) (by rw [← hxor]; exact hg) h3
            rw [List.getElem?_drop] at this
            have e : 2 ^ T + (i - 2 ^ T) = i := by omega
            rwa [e] at this
          · -- ps'.length = sh - 1: the index bit there is zero, so the verifier cannot have gone right
            have hps : ps'.length = bitLen (i ^^^ (n - 1)) - 1 := by omega
            have hlt : i < n - 1 := by
              by_cases h : i = n - 1
              · rw [h, bitLen_xor_self] at hg; omega
              · omega
            have hz := testBit_merge_zero' hlt
            rw [hdtop] at hdir
            simp only [dirOf, Bool.or_eq_true, decide_eq_true_eq] at hdir
            rw [hps, hz] at hdir
            simp at hdir
            omega
        · -- went left into the perfect half although i is on the right: depth contradiction or wrong direction
          have hge := chain_depth_ge hinj dirs 0 d T (cs.take (2 ^ T)) ps' hlenL h3
          rw [hdtop] at hdir
          simp only [dirOf, Bool.or_eq_false_iff, decide_eq_false_iff_not] at hdir
          omega

end Sia.SP
