/-
  SiaProofs.Lemmas.Multiproof — multiproofSize / computeMultiproof / expandMultiproof
  (types/multiproof.go) against the naive forest: inside one block `(height, i)` of a
  tree all three follow the same recursion, described by `specStream`.
-/
import SiaModel.Merkle.Multiproof
import SiaProofs.Lemmas.UpdateLeaves
import SiaProofs.Lemmas.MultiproofBits
set_option linter.unusedSectionVars false
namespace Sia.Multiproof
open Sia.ElemAcc

section
variable {H : Type} [Hasher H] [Inhabited H]

theorem dropWhile_sorted_le {α : Type} (key : α → Nat) (mid : Nat) :
    ∀ (l : List α), l.Pairwise (fun a b => key a ≤ key b) →
      ∀ x ∈ l.dropWhile (fun a => decide (key a < mid)), mid ≤ key x := by
  intro l
  induction l with
  | nil => intro _ x hx; simp at hx
  | cons a l ih =>
    intro hp x hx
    rw [List.pairwise_cons] at hp
    by_cases ha : key a < mid
    · rw [List.dropWhile_cons_of_pos (by simpa using ha)] at hx
      exact ih hp.2 x hx
    · rw [List.dropWhile_cons_of_neg (by simpa using ha)] at hx
      rcases List.mem_cons.1 hx with rfl | hx'
      · omega
      · have := hp.1 x hx'; omega

/-- the multiproof of the block `(height, i)` for the (sorted) leaf positions `idxs`, read
    off the naive forest: a subtree without leaves contributes its root, a subtree with
    leaves is descended into -/
def specStream (ls : List H) : Nat → Nat → List Nat → List H
  | 0, _, _ => []
  | height + 1, i, idxs =>
    let mid := i + 2 ^ height
    let left := idxs.takeWhile (fun x => x < mid)
    let right := idxs.dropWhile (fun x => x < mid)
    (if left.isEmpty then [subRoot ls height i] else specStream ls height i left) ++
    (if right.isEmpty then [subRoot ls height mid] else specStream ls height mid right)

/-- the proof rewrite `expandMultiproof` performs on a leaf of the block `(height, i)` -/
def fixPathM (ls : List H) (height i : Nat) (l : MLeaf H) : MLeaf H :=
  { l with proof := subPath ls 0 l.index height i ++ l.proof.drop height }

theorem takeWhile_index (leaves : List (MLeaf H)) (mid : Nat) :
    (leaves.map (·.index)).takeWhile (fun x => decide (x < mid)) =
      (leaves.takeWhile (fun l => decide (l.index < mid))).map (·.index) := by
  rw [List.takeWhile_map]; rfl

theorem dropWhile_index (leaves : List (MLeaf H)) (mid : Nat) :
    (leaves.map (·.index)).dropWhile (fun x => decide (x < mid)) =
      (leaves.dropWhile (fun l => decide (l.index < mid))).map (·.index) := by
  rw [List.dropWhile_map]; rfl

theorem proofSize_nil (height i : Nat) : proofSize height i ([] : List (MLeaf H)) = 1 := by
  cases height <;> simp [proofSize]

theorem isEmpty_false_of_ne {α : Type} {l : List α} (h : l ≠ []) : l.isEmpty = false := by
  cases l <;> simp_all

/-- `multiproofSize`'s recursion counts the hashes of `specStream` -/
theorem proofSize_spec (ls : List H) : ∀ (height i : Nat) (leaves : List (MLeaf H)), leaves ≠ [] →
    proofSize height i leaves = (specStream ls height i (leaves.map (·.index))).length := by
  intro height
  induction height with
  | zero => intro i leaves hne; cases leaves <;> simp_all [proofSize, specStream]
  | succ height ih =>
    intro i leaves hne
    simp only [proofSize, specStream, isEmpty_false_of_ne hne, takeWhile_index, dropWhile_index, List.length_append,
      List.isEmpty_map, Bool.false_eq_true, if_false]
    generalize leaves.takeWhile (fun l => decide (l.index < i + 2 ^ height)) = L
    generalize leaves.dropWhile (fun l => decide (l.index < i + 2 ^ height)) = R
    have hL : proofSize height i L = (if L.isEmpty then [subRoot ls height i] else specStream ls height i (L.map (·.index))).length := by
      by_cases h : L = []
      · subst h; simp [proofSize_nil]
      · rw [isEmpty_false_of_ne h]; simp only [Bool.false_eq_true, if_false]; exact ih i L h
    have hR : proofSize height (i + 2 ^ height) R = (if R.isEmpty then [subRoot ls height (i + 2 ^ height)] else specStream ls height (i + 2 ^ height) (R.map (·.index))).length := by
      by_cases h : R = []
      · subst h; simp [proofSize_nil]
      · rw [isEmpty_false_of_ne h]; simp only [Bool.false_eq_true, if_false]; exact ih _ R h
    rw [hL, hR]

/-- the facts about the two halves of a sorted block -/
theorem split_facts (leaves : List (MLeaf H)) (i height : Nat)
    (hsorted : leaves.Pairwise (fun a b => a.index ≤ b.index))
    (hrange : ∀ l ∈ leaves, i ≤ l.index ∧ l.index < i + 2 ^ (height + 1)) :
    let L := leaves.takeWhile (fun l => decide (l.index < i + 2 ^ height))
    let R := leaves.dropWhile (fun l => decide (l.index < i + 2 ^ height))
    L ++ R = leaves ∧
    L.Pairwise (fun a b => a.index ≤ b.index) ∧ R.Pairwise (fun a b => a.index ≤ b.index) ∧
    (∀ l ∈ L, l ∈ leaves ∧ i ≤ l.index ∧ l.index < i + 2 ^ height) ∧
    (∀ l ∈ R, l ∈ leaves ∧ i + 2 ^ height ≤ l.index ∧ l.index < i + 2 ^ height + 2 ^ height) := by
  intro L R
  have hp := pow_succ2 height
  have hlsub := List.takeWhile_sublist (l := leaves) (fun l => decide (l.index < i + 2 ^ height))
  have hrsub := List.dropWhile_sublist (l := leaves) (fun l => decide (l.index < i + 2 ^ height))
  refine ⟨List.takeWhile_append_dropWhile, hsorted.sublist hlsub, hsorted.sublist hrsub, ?_, ?_⟩
  · intro l hl
    have h1 : L.all (fun l => decide (l.index < i + 2 ^ height)) = true := List.all_takeWhile
    have h2 : l.index < i + 2 ^ height := by simpa using List.all_eq_true.1 h1 l hl
    exact ⟨hlsub.subset hl, (hrange l (hlsub.subset hl)).1, h2⟩
  · intro l hl
    have h2 := dropWhile_sorted_le (fun l : MLeaf H => l.index) (i + 2 ^ height) leaves hsorted l hl
    have := (hrange l (hrsub.subset hl)).2
    exact ⟨hrsub.subset hl, h2, by omega⟩

/-- `computeMultiproof`'s recursion emits `specStream` when the leaves carry naive paths -/
theorem computeVisit_spec (ls : List H) : ∀ (height i : Nat) (leaves : List (MLeaf H)), leaves ≠ [] →
    leaves.Pairwise (fun a b => a.index ≤ b.index) →
    (∀ l ∈ leaves, i ≤ l.index ∧ l.index < i + 2 ^ height) →
    (∀ l ∈ leaves, l.proof.take height = subPath ls 0 l.index height i) →
    computeVisit height i leaves = specStream ls height i (leaves.map (·.index)) := by
  intro height
  induction height with
  | zero => intro i leaves _ _ _ _; simp [computeVisit, specStream]
  | succ height ih =>
    intro i leaves hne hsorted hrange hold
    obtain ⟨hsplit, hLs, hRs, hL, hR⟩ := split_facts leaves i height hsorted hrange
    simp only [computeVisit, specStream, takeWhile_index, dropWhile_index, List.isEmpty_map]
    generalize leaves.takeWhile (fun l => decide (l.index < i + 2 ^ height)) = L at *
    generalize leaves.dropWhile (fun l => decide (l.index < i + 2 ^ height)) = R at *
    have holdL : ∀ l ∈ L, l.proof.take height = subPath ls 0 l.index height i ∧
        l.proof.getD height default = subRoot ls height (i + 2 ^ height) := by
      intro l hl
      have h1 := hold l (hL l hl).1
      rw [subPath_left ls (Nat.zero_le _) (hL l hl).2.2] at h1
      have := take_succ_split (by rw [subPath_length]; omega) h1
      exact ⟨this.1, this.2.1⟩
    have holdR : ∀ l ∈ R, l.proof.take height = subPath ls 0 l.index height (i + 2 ^ height) ∧
        l.proof.getD height default = subRoot ls height i := by
      intro l hl
      have h1 := hold l (hR l hl).1
      rw [subPath_right ls (Nat.zero_le _) (hR l hl).2.1] at h1
      have := take_succ_split (by rw [subPath_length]; omega) h1
      exact ⟨this.1, this.2.1⟩
    have ihL : L ≠ [] → computeVisit height i L = specStream ls height i (L.map (·.index)) := fun h =>
      ih i L h hLs (fun l hl => ⟨(hL l hl).2.1, (hL l hl).2.2⟩) (fun l hl => (holdL l hl).1)
    have ihR : R ≠ [] → computeVisit height (i + 2 ^ height) R = specStream ls height (i + 2 ^ height) (R.map (·.index)) := fun h =>
      ih _ R h hRs (fun l hl => ⟨(hR l hl).2.1, (hR l hl).2.2⟩) (fun l hl => (holdR l hl).1)
    match L, R, hsplit, holdL, holdR, ihL, ihR with
    | [], [], hsplit, _, _, _, _ => exfalso; simp at hsplit; exact hne hsplit
    | [], r0 :: rs, _, _, holdR, _, ihR =>
      simp only [List.isEmpty_nil, List.isEmpty_cons, if_true, Bool.false_eq_true, if_false]
      rw [(holdR r0 (by simp)).2, ihR (by simp)]
    | l0 :: lrest, [], _, holdL, _, ihL, _ =>
      simp only [List.isEmpty_nil, List.isEmpty_cons, if_true, Bool.false_eq_true, if_false]
      rw [(holdL l0 (by simp)).2, ihL (by simp)]
    | l0 :: lrest, r0 :: rs, _, _, _, ihL, ihR =>
      simp only [List.isEmpty_cons, Bool.false_eq_true, if_false]
      rw [ihL (by simp), ihR (by simp)]

theorem expandVisit_nil (height i : Nat) (x : H) (rest : List H) :
    expandVisit height i ([] : List (MLeaf H)) (x :: rest) = .ok (x, [], rest) := by
  cases height <;> simp [expandVisit]

/-- `expandMultiproof`'s recursion, fed `specStream`, returns the block's naive root and
    writes the naive paths (below the block height) into the leaves -/
theorem expandVisit_spec (ls : List H) : ∀ (height i : Nat) (leaves : List (MLeaf H)) (rest : List H), leaves ≠ [] →
    leaves.Pairwise (fun a b => a.index ≤ b.index) →
    (∀ l ∈ leaves, i ≤ l.index ∧ l.index < i + 2 ^ height) →
    (∀ l ∈ leaves, ls.getD l.index default = l.hash) →
    (∀ l ∈ leaves, height ≤ l.proof.length) →
    expandVisit height i leaves (specStream ls height i (leaves.map (·.index)) ++ rest) =
      .ok (subRoot ls height i, leaves.map (fixPathM ls height i), rest) := by
  intro height
  induction height with
  | zero =>
    intro i leaves rest hne _ hrange hhash _
    match leaves, hne with
    | l0 :: t, _ =>
      have h0 := hrange l0 (by simp)
      have e : l0.index = i := by simp at h0; omega
      simp only [expandVisit, specStream, List.nil_append, subRoot]
      rw [← e, hhash l0 (by simp)]
      have hid : ∀ l : MLeaf H, fixPathM ls 0 l0.index l = l := by intro l; simp [fixPathM, subPath]
      rw [List.map_id'' hid]
  | succ height ih =>
    intro i leaves rest hne hsorted hrange hhash hlen
    obtain ⟨hsplit, hLs, hRs, hL, hR⟩ := split_facts leaves i height hsorted hrange
    match leaves, hne with
    | a :: t, _ =>
      simp only [expandVisit, specStream, takeWhile_index, dropWhile_index, List.isEmpty_map]
      generalize (a :: t).takeWhile (fun l => decide (l.index < i + 2 ^ height)) = L at *
      generalize (a :: t).dropWhile (fun l => decide (l.index < i + 2 ^ height)) = R at *
      -- left call
      have callL : ∀ more, expandVisit height i L
          ((if L.isEmpty then [subRoot ls height i] else specStream ls height i (L.map (·.index))) ++ more) =
          .ok (subRoot ls height i, L.map (fixPathM ls height i), more) := by
        intro more
        by_cases h : L = []
        · subst h; simp [expandVisit_nil]
        · rw [isEmpty_false_of_ne h]
          simp only [Bool.false_eq_true, if_false]
          exact ih i L more h hLs (fun l hl => ⟨(hL l hl).2.1, (hL l hl).2.2⟩) (fun l hl => hhash l (hL l hl).1)
            (fun l hl => by have := hlen l (hL l hl).1; omega)
      have callR : ∀ more, expandVisit height (i + 2 ^ height) R
          ((if R.isEmpty then [subRoot ls height (i + 2 ^ height)] else specStream ls height (i + 2 ^ height) (R.map (·.index))) ++ more) =
          .ok (subRoot ls height (i + 2 ^ height), R.map (fixPathM ls height (i + 2 ^ height)), more) := by
        intro more
        by_cases h : R = []
        · subst h; simp [expandVisit_nil]
        · rw [isEmpty_false_of_ne h]
          simp only [Bool.false_eq_true, if_false]
          exact ih _ R more h hRs (fun l hl => ⟨(hR l hl).2.1, (hR l hl).2.2⟩) (fun l hl => hhash l (hR l hl).1)
            (fun l hl => by have := hlen l (hR l hl).1; omega)
      rw [List.append_assoc, callL, ]
      simp only [bind, Except.bind]
      rw [callR]
      simp only [pure, Except.pure, subRoot]
      rw [← hsplit, List.map_append, List.map_map, List.map_map]
      congr 3
      congr 1
      · apply List.map_congr_left
        intro l hl
        have hlt : height < l.proof.length := by have := hlen l (hL l hl).1; omega
        simp only [Function.comp, fixPathM, MLeaf.setProofAt]
        congr 1
        rw [subPath_left ls (Nat.zero_le _) (hL l hl).2.2, List.drop_eq_getElem_cons hlt]
        have := set_append_cons (subPath ls 0 l.index height i) (l.proof.drop (height + 1)) l.proof[height] (subRoot ls height (i + 2 ^ height))
        rw [subPath_length] at this
        simp only [Nat.sub_zero] at this
        rw [this]; simp
      · apply List.map_congr_left
        intro l hl
        have hlt : height < l.proof.length := by have := hlen l (hR l hl).1; omega
        simp only [Function.comp, fixPathM, MLeaf.setProofAt]
        congr 1
        rw [subPath_right ls (Nat.zero_le _) (hR l hl).2.1, List.drop_eq_getElem_cons hlt]
        have := set_append_cons (subPath ls 0 l.index height (i + 2 ^ height)) (l.proof.drop (height + 1)) l.proof[height] (subRoot ls height i)
        rw [subPath_length] at this
        simp only [Nat.sub_zero] at this
        rw [this]; simp

/-! ### whole transaction sets -/

/-- a leaf whose proof is the naive path of its position in the forest of `ls`
    (and whose hash is the leaf hash stored there) -/
structure Valid (ls : List H) (l : MLeaf H) : Prop where
  lt : l.index < ls.length
  proof : l.proof = path ls l.index
  hash : ls.getD l.index default = l.hash

/-- `g` replaces proofs by placeholders of the same length (stripping) -/
def Shape (g : MLeaf H → MLeaf H) : Prop :=
  ∀ l, (g l).tag = l.tag ∧ (g l).elem = l.elem ∧ (g l).index = l.index ∧ (g l).proof.length = l.proof.length

theorem treeGroup_map (g : MLeaf H → MLeaf H) (hg : Shape g) (leaves : List (MLeaf H)) (h : Nat) :
    treeGroup (leaves.map g) h = (treeGroup leaves h).map g := by
  unfold treeGroup
  rw [List.filter_map]
  have : ((fun l : MLeaf H => l.proof.length == h) ∘ g) = (fun l : MLeaf H => l.proof.length == h) := by
    funext l; simp [Function.comp, (hg l).2.2.2]
  rw [this]
  symm
  apply List.map_mergeSort
  intro a _ b _
  simp [(hg a).2.2.1, (hg b).2.2.1]

theorem mem_treeGroup (leaves : List (MLeaf H)) (h : Nat) (l : MLeaf H) :
    l ∈ treeGroup leaves h ↔ l ∈ leaves ∧ l.proof.length = h := by
  unfold treeGroup
  rw [List.mem_mergeSort, List.mem_filter]; simp

theorem treeGroup_sorted (leaves : List (MLeaf H)) (h : Nat) :
    (treeGroup leaves h).Pairwise (fun a b => a.index ≤ b.index) := by
  have := List.pairwise_mergeSort (le := fun a b : MLeaf H => decide (a.index ≤ b.index))
    (by intro a b c; simp; omega) (by intro a b; simp; omega)
    (leaves.filter (fun l => l.proof.length == h))
  unfold treeGroup
  exact this.imp (by intro a b hab; simpa using hab)

/-- everything the block lemmas need about one tree group of valid leaves -/
theorem group_facts (ls : List H) (leaves : List (MLeaf H)) (hv : ∀ l ∈ leaves, Valid ls l) (h : Nat)
    (hne : treeGroup leaves h ≠ []) :
    groupStart (treeGroup leaves h) h = treeStart ls.length h ∧
    ls.length.testBit h = true ∧
    (∀ l ∈ treeGroup leaves h, treeStart ls.length h ≤ l.index ∧ l.index < treeStart ls.length h + 2 ^ h) ∧
    (∀ l ∈ treeGroup leaves h, l.proof.take h = subPath ls 0 l.index h (treeStart ls.length h)) := by
  have hin : ∀ l ∈ treeGroup leaves h, InTree ls.length h l.index := by
    intro l hl
    obtain ⟨hl1, hl2⟩ := (mem_treeGroup leaves h l).1 hl
    have v := hv l hl1
    have := treeHeight_spec v.lt
    rw [v.proof, path_length] at hl2
    rw [hl2] at this; exact this
  cases hg : treeGroup leaves h with
  | nil => exact absurd hg hne
  | cons l0 rest =>
    have h0 := hin l0 (by rw [hg]; simp)
    refine ⟨?_, h0.1, ?_, ?_⟩
    · simp only [groupStart]
      rw [clearBits_eq_anc]
      have hp := pow_succ2 h
      exact anc_eq (treeStart_dvd _ _) h0.2.1 (by have := h0.2.2; omega)
    · intro l hl; rw [← hg] at hl; exact ⟨(hin l hl).2.1, (hin l hl).2.2⟩
    · intro l hl
      rw [← hg] at hl
      obtain ⟨hl1, hl2⟩ := (mem_treeGroup leaves h l).1 hl
      have v := hv l hl1
      rw [List.take_of_length_le (by omega), v.proof, path_eq, treeHeight_unique (hin l hl)]

/-- the multiproof hashes of tree `h` according to the naive forest -/
def treeStream (ls : List H) (leaves : List (MLeaf H)) (h : Nat) : List H :=
  if (treeGroup leaves h).isEmpty then []
  else specStream ls h (treeStart ls.length h) ((treeGroup leaves h).map (·.index))

theorem foldl_append_if {α β : Type} (c : α → Bool) (f : α → List β) (hs : List α) (init : List β) :
    hs.foldl (fun acc h => if c h then acc else acc ++ f h) init = init ++ hs.flatMap (fun h => if c h then [] else f h) := by
  induction hs generalizing init with
  | nil => simp
  | cons a t ih =>
    simp only [List.foldl_cons, List.flatMap_cons]
    rw [ih]
    by_cases h : c a = true <;> simp [h]

theorem foldl_add_if {α : Type} (c : α → Bool) (f : α → Nat) (hs : List α) (init : Nat) :
    hs.foldl (fun acc h => if c h then acc else acc + f h) init = init + (hs.map (fun h => if c h then 0 else f h)).sum := by
  induction hs generalizing init with
  | nil => simp
  | cons a t ih =>
    simp only [List.foldl_cons, List.map_cons, List.sum_cons]
    rw [ih]
    by_cases h : c a = true <;> simp [h] <;> omega

theorem flatMap_congr' {α β : Type} {f g : α → List β} : ∀ (l : List α), (∀ a ∈ l, f a = g a) → l.flatMap f = l.flatMap g := by
  intro l
  induction l with
  | nil => intro _; rfl
  | cons a t ih =>
    intro h
    simp only [List.flatMap_cons]
    rw [h a (by simp), ih (fun x hx => h x (List.mem_cons_of_mem _ hx))]

theorem computeMultiproof_spec (ls : List H) (leaves : List (MLeaf H)) (hv : ∀ l ∈ leaves, Valid ls l) :
    computeMultiproof leaves = (List.range 64).flatMap (treeStream ls leaves) := by
  unfold computeMultiproof
  have := foldl_append_if (fun h => (treeGroup leaves h).isEmpty)
    (fun h => computeVisit h (groupStart (treeGroup leaves h) h) (treeGroup leaves h)) (List.range 64) ([] : List H)
  simp only [List.nil_append] at this
  rw [this]
  apply flatMap_congr'
  intro h _
  unfold treeStream
  by_cases he : (treeGroup leaves h).isEmpty = true
  · simp [he]
  · have hne : treeGroup leaves h ≠ [] := by intro e; rw [e] at he; simp at he
    obtain ⟨g1, _, g3, g4⟩ := group_facts ls leaves hv h hne
    simp only [he, if_false]
    rw [g1]
    exact computeVisit_spec ls h _ _ hne (treeGroup_sorted leaves h) g3 g4

theorem multiproofSize_spec (ls : List H) (leaves : List (MLeaf H)) (hv : ∀ l ∈ leaves, Valid ls l)
    (g : MLeaf H → MLeaf H) (hg : Shape g) :
    multiproofSize (leaves.map g) = ((List.range 64).flatMap (treeStream ls leaves)).length := by
  unfold multiproofSize
  have := foldl_add_if (fun h => (treeGroup (leaves.map g) h).isEmpty)
    (fun h => proofSize h (groupStart (treeGroup (leaves.map g) h) h) (treeGroup (leaves.map g) h)) (List.range 64) 0
  simp only [Nat.zero_add] at this
  rw [this, List.length_flatMap]
  congr 1
  apply List.map_congr_left
  intro h _
  unfold treeStream
  rw [treeGroup_map g hg, List.isEmpty_map]
  by_cases he : (treeGroup leaves h).isEmpty = true
  · simp [he]
  · have hne : treeGroup leaves h ≠ [] := by intro e; rw [e] at he; simp at he
    simp only [he, if_false]
    have hne' : (treeGroup leaves h).map g ≠ [] := by simpa using hne
    obtain ⟨g1, _, _, _⟩ := group_facts ls leaves hv h hne
    have hstart : groupStart ((treeGroup leaves h).map g) h = treeStart ls.length h := by
      rw [← g1]
      cases hgr : treeGroup leaves h with
      | nil => exact absurd hgr hne
      | cons l0 rest => simp [groupStart, (hg l0).2.2.1]
    rw [hstart, proofSize_spec ls h _ _ hne', List.map_map]
    simp only [Bool.false_eq_true, if_false]
    congr 2
    apply List.map_congr_left
    intro l _; exact (hg l).2.2.1

theorem expandTrees_spec (ls : List H) (leaves : List (MLeaf H)) (hv : ∀ l ∈ leaves, Valid ls l)
    (g : MLeaf H → MLeaf H) (hg : Shape g) : ∀ (hs : List Nat) (rest : List H),
    expandTrees (leaves.map g) hs (hs.flatMap (treeStream ls leaves) ++ rest) = .ok (hs.flatMap (treeGroup leaves)) := by
  intro hs
  induction hs with
  | nil => intro rest; simp [expandTrees]
  | cons h t ih =>
    intro rest
    simp only [expandTrees, List.flatMap_cons, treeGroup_map g hg, List.isEmpty_map]
    by_cases he : (treeGroup leaves h).isEmpty = true
    · have hnil : treeGroup leaves h = [] := by simpa using he
      simp only [he, if_true, treeStream, List.nil_append, hnil]
      exact ih rest
    · have hne : treeGroup leaves h ≠ [] := by intro e; rw [e] at he; simp at he
      simp only [he, if_false, Bool.false_eq_true]
      have hne' : (treeGroup leaves h).map g ≠ [] := by simpa using hne
      obtain ⟨g1, _, g3, g4⟩ := group_facts ls leaves hv h hne
      have hstart : groupStart ((treeGroup leaves h).map g) h = treeStart ls.length h := by
        rw [← g1]
        cases hgr : treeGroup leaves h with
        | nil => exact absurd hgr hne
        | cons l0 rest => simp [groupStart, (hg l0).2.2.1]
      have hidx : ((treeGroup leaves h).map g).map (·.index) = (treeGroup leaves h).map (·.index) := by
        rw [List.map_map]; apply List.map_congr_left; intro l _; exact (hg l).2.2.1
      have hsorted : ((treeGroup leaves h).map g).Pairwise (fun a b => a.index ≤ b.index) := by
        rw [List.pairwise_map]
        exact (treeGroup_sorted leaves h).imp (by intro a b hab; rw [(hg a).2.2.1, (hg b).2.2.1]; exact hab)
      have hexp := expandVisit_spec ls h (treeStart ls.length h) ((treeGroup leaves h).map g)
        (t.flatMap (treeStream ls leaves) ++ rest) hne' hsorted
        (by
          intro l hl
          obtain ⟨l1, hl1, rfl⟩ := List.mem_map.1 hl
          rw [(hg l1).2.2.1]; exact g3 l1 hl1)
        (by
          intro l hl
          obtain ⟨l1, hl1, rfl⟩ := List.mem_map.1 hl
          have v := hv l1 ((mem_treeGroup leaves h l1).1 hl1).1
          simp only [MLeaf.hash, (hg l1).2.1, (hg l1).2.2.1]
          exact v.hash)
        (by
          intro l hl
          obtain ⟨l1, hl1, rfl⟩ := List.mem_map.1 hl
          rw [(hg l1).2.2.2, ((mem_treeGroup leaves h l1).1 hl1).2])
      rw [hidx] at hexp
      have hts : treeStream ls leaves h = specStream ls h (treeStart ls.length h) ((treeGroup leaves h).map (·.index)) := by
        simp [treeStream, he]
      rw [hstart, hts, List.append_assoc, hexp]
      simp only [bind, Except.bind, ih rest, pure, Except.pure]
      congr 2
      rw [List.map_map]
      -- fixPathM ∘ g restores the original leaf
      have hfix : (treeGroup leaves h).map (fixPathM ls h (treeStart ls.length h) ∘ g) = (treeGroup leaves h).map id := by
        apply List.map_congr_left
        intro l hl
        have hlen := ((mem_treeGroup leaves h l).1 hl).2
        have hp := g4 l hl
        rw [List.take_of_length_le (by omega)] at hp
        have hgl := hg l
        rcases hgv : g l with ⟨t', e', i', p'⟩
        rw [hgv] at hgl
        simp only at hgl
        obtain ⟨rfl, rfl, rfl, hpl⟩ := hgl
        simp only [Function.comp, hgv, fixPathM, id]
        rw [List.drop_of_length_le (by omega), List.append_nil, ← hp]
      rw [hfix, List.map_id]

theorem valid_len_lt (ls : List H) (hn : ls.length < 2 ^ 64) {l : MLeaf H} (v : Valid ls l) : l.proof.length < 64 := by
  have := treeHeight_spec v.lt
  rw [v.proof, path_length]
  rcases Nat.lt_or_ge (treeHeight ls.length l.index) 64 with h | h
  · exact h
  · have hf : ls.length.testBit (treeHeight ls.length l.index) = false :=
      Nat.testBit_lt_two_pow (Nat.lt_of_lt_of_le hn (Nat.pow_le_pow_right (by omega) h))
    rw [this.1] at hf; cases hf

/-- **expand ∘ compute = id.** If every leaf carries the naive path of its position in one
    forest (duplicates allowed; tags = identities of the StateElements), then expanding the
    stripped leaves with the computed multiproof restores every leaf, proof for proof, and
    the multiproof has `multiproofSize` hashes. -/
theorem expand_compute (ls : List H) (leaves : List (MLeaf H)) (hv : ∀ l ∈ leaves, Valid ls l)
    (htag : ∀ a ∈ leaves, ∀ b ∈ leaves, a.tag = b.tag → a = b) (hn : ls.length < 2 ^ 64)
    (g : MLeaf H → MLeaf H) (hg : Shape g) :
    expandMultiproof (leaves.map g) (computeMultiproof leaves) = .ok leaves ∧
    (computeMultiproof leaves).length = multiproofSize (leaves.map g) := by
  refine ⟨?_, by rw [computeMultiproof_spec ls leaves hv, multiproofSize_spec ls leaves hv g hg]⟩
  unfold expandMultiproof
  have hexp := expandTrees_spec ls leaves hv g hg (List.range 64) []
  rw [List.append_nil] at hexp
  rw [computeMultiproof_spec ls leaves hv, hexp]
  simp only [bind, Except.bind, pure, Except.pure]
  congr 1
  rw [List.map_map]
  conv => rhs; rw [← List.map_id leaves]
  apply List.map_congr_left
  intro l hl
  have hmem : l ∈ (List.range 64).flatMap (treeGroup leaves) := by
    rw [List.mem_flatMap]
    exact ⟨l.proof.length, by simpa using valid_len_lt ls hn (hv l hl), (mem_treeGroup leaves _ l).2 ⟨hl, rfl⟩⟩
  simp only [Function.comp, (hg l).1, id]
  cases hf : ((List.range 64).flatMap (treeGroup leaves)).find? (fun w => w.tag == l.tag) with
  | none =>
    have := List.find?_eq_none.1 hf l hmem
    simp at this
  | some w =>
    have hp := List.find?_some hf
    have hw := List.mem_of_find?_eq_some hf
    rw [List.mem_flatMap] at hw
    obtain ⟨h, _, hwg⟩ := hw
    have hwl := ((mem_treeGroup leaves h w).1 hwg).1
    exact htag w hwl l hl (by simpa using hp)

theorem decodeMP_eq (proofless : List (MLeaf H)) (N : Nat) (stream : List H)
    (h1 : ∀ l ∈ proofless, l.index < N) (h2 : multiproofSize (sizeProofs proofless N) ≤ stream.length) :
    decodeMP proofless N stream =
      (expandMultiproof (sizeProofs proofless N) (stream.take (multiproofSize (sizeProofs proofless N)))).map
        (fun out => (out, stream.drop (multiproofSize (sizeProofs proofless N)))) := by
  unfold decodeMP
  split
  · rename_i h
    rw [List.any_eq_true] at h
    obtain ⟨l, hl, hd⟩ := h
    have := h1 l hl
    simp at hd; omega
  · simp only []
    split
    · omega
    · cases expandMultiproof (sizeProofs proofless N) (stream.take (multiproofSize (sizeProofs proofless N))) <;> rfl

/-- stripping as the decoder does it: zero placeholders of the original length -/
def zeroProof (l : MLeaf H) : MLeaf H := { l with proof := List.replicate l.proof.length default }

theorem zeroProof_shape : Shape (zeroProof (H := H)) := by
  intro l; simp [zeroProof]

/-- **The multiproof codec round-trips** (at the level of element leaves and the hash
    stream): what `EncodeTo` writes — proofless leaves, the inferred `numLeaves`, the
    multiproof — is decoded by `DecodeFrom` to exactly the original leaves. -/
theorem codec_roundtrip (ls : List H) (leaves : List (MLeaf H)) (hv : ∀ l ∈ leaves, Valid ls l)
    (htag : ∀ a ∈ leaves, ∀ b ∈ leaves, a.tag = b.tag → a = b) (hn : ls.length < 2 ^ 64) (tail : List H) :
    decodeMP (encodeMP leaves).1 (encodeMP leaves).2.1 ((encodeMP leaves).2.2 ++ tail) = .ok (leaves, tail) := by
  have hin : ∀ l ∈ leaves, InTree ls.length l.proof.length l.index := by
    intro l hl
    have v := hv l hl
    have := treeHeight_spec v.lt
    rw [v.proof, path_length]; exact this
  have hrec := numLeaves_recovers ls.length (fun l : MLeaf H => l.index) (fun l => l.proof.length) leaves hin
  simp only at hrec
  have hN : inferNumLeaves leaves =
      leaves.foldl (fun acc l => acc ||| (clearBits l.index l.proof.length ||| 2 ^ l.proof.length)) 0 := rfl
  rw [← hN] at hrec
  have hsized : sizeProofs (encodeMP leaves).1 (inferNumLeaves leaves) = leaves.map zeroProof := by
    simp only [encodeMP, sizeProofs]
    rw [List.map_map]
    apply List.map_congr_left
    intro l hl
    simp only [Function.comp, zeroProof]
    rw [(hrec l hl).2]
  obtain ⟨e1, e2⟩ := expand_compute ls leaves hv htag hn zeroProof zeroProof_shape
  have hN2 : (encodeMP leaves).2.1 = inferNumLeaves leaves := rfl
  have hmp : (encodeMP leaves).2.2 = computeMultiproof leaves := rfl
  rw [hN2, hmp, decodeMP_eq _ _ _
    (by
      intro l hl
      simp only [encodeMP] at hl
      obtain ⟨l1, hl1, rfl⟩ := List.mem_map.1 hl
      exact (hrec l1 hl1).1)
    (by rw [hsized, ← e2, List.length_append]; omega)]
  rw [hsized, ← e2, List.take_append_of_le_length (Nat.le_refl _), List.take_length, e1,
    List.drop_append_of_le_length (Nat.le_refl _), List.drop_length]
  rfl

end
end Sia.Multiproof
