/-
  SiaProofs.Lemmas.ApplyBlock — `applyBlock` (consensus/merkle.go:384) = updateLeaves,
  root replacement, addLeaves, treeGrowth extension, against the naive forest.
-/
import SiaProofs.Lemmas.UpdateLeaves
import SiaProofs.Lemmas.AddLeaves
import SiaProofs.Lemmas.UpdateProof
set_option linter.unusedSectionVars false
namespace Sia.ElemAcc
section
variable {H : Type} [Hasher H] [Inhabited H]

/-- what `updateLeaves` returns, as characterised by `updateLeaves_spec` -/
def UpdSpec (ls : List H) (updated : List (Leaf H)) (upd : Nat → List (Leaf H)) : Prop :=
  ∀ h l', l' ∈ upd h ↔ ∃ l ∈ updated, l.proof.length = h ∧ l' = withPath (writeLeaves ls updated) l

theorem withPath_proofRoot (ls ls1 : List H) (updated : List (Leaf H)) (ok : UpdOK ls updated)
    (h1 : ls1 = writeLeaves ls updated) (l : Leaf H) (hl : l ∈ updated) :
    (withPath ls1 l).proofRoot = subRoot ls1 l.proof.length (treeStart ls.length l.proof.length) := by
  have hlen : ls1.length = ls.length := by rw [h1]; exact writeLeaves_length _ _
  have hlt := ok.lt l hl
  have hin := treeHeight_spec hlt
  have hpl : l.proof.length = treeHeight ls.length l.index := by rw [ok.proof l hl, path_length]
  have hget : ls1.getD l.index default = l.hash := by
    rw [h1]; exact writeLeaves_get_mem updated ls ok.nodup l hl hlt
  rw [hpl]
  simp only [Leaf.proofRoot, withPath]
  show proofRoot l.hash l.index (path ls1 l.index) = _
  rw [← hget, path_eq, hlen]
  exact proofRoot_path_block ls1 (dvd_of_dvd_succ (treeStart_dvd _ _)) hin.2.1 hin.2.2

/-- after `updateLeaves` and the root replacement the accumulator is the naive forest of
    the rewritten leaf list -/
theorem withUpdatedRoots_forest (acc : Acc H) (ls : List H) (hacc : acc.toForest = forestOf ls)
    (updated : List (Leaf H)) (ok : UpdOK ls updated) (hn : ls.length < 2 ^ 64)
    (upd : Nat → List (Leaf H)) (hupd : UpdSpec ls updated upd) :
    (acc.withUpdatedRoots upd).toForest = forestOf (writeLeaves ls updated) := by
  obtain ⟨hnum, htrees⟩ := (toForest_eq_iff acc ls).1 hacc
  have hlen : (writeLeaves ls updated).length = ls.length := writeLeaves_length _ _
  rw [toForest_eq_iff]
  refine ⟨by simp [Acc.withUpdatedRoots, hnum, hlen], ?_⟩
  intro h hbit
  rw [hlen] at hbit ⊢
  have h64 := testBit_lt_64 hn hbit
  simp only [Acc.withUpdatedRoots]
  cases hu : upd h with
  | nil =>
    simp only []
    rw [htrees h hbit]
    apply subRoot_ext
    intro q h1 h2
    symm
    apply writeLeaves_get_other
    intro u hu' hq
    have hin : InTree ls.length h q := ⟨hbit, h1, h2⟩
    have : u.proof.length = h := by rw [ok.proof u hu', path_length, hq]; exact treeHeight_unique hin
    have : withPath (writeLeaves ls updated) u ∈ upd h := (hupd h _).2 ⟨u, hu', this, rfl⟩
    rw [hu] at this; simp at this
  | cons l0 rest =>
    simp only [h64, if_true]
    obtain ⟨l, hl, hlh, rfl⟩ := (hupd h l0).1 (by rw [hu]; simp)
    rw [withPath_proofRoot ls _ updated ok rfl l hl, hlh]

theorem Acc.applyBlock_eq (acc : Acc H) (updated added : List (Leaf H)) (upd : Nat → List (Leaf H))
    (h : updateLeaves updated = .ok upd) :
    acc.applyBlock updated added = .ok
      (((acc.withUpdatedRoots upd).addLeaves added).1,
       { updated := extendUpdated upd ((acc.withUpdatedRoots upd).addLeaves added).2.2
         growth := ((acc.withUpdatedRoots upd).addLeaves added).2.2
         oldNumLeaves := acc.numLeaves
         numLeaves := ((acc.withUpdatedRoots upd).addLeaves added).1.numLeaves },
       ((acc.withUpdatedRoots upd).addLeaves added).2.1) := by
  simp only [Acc.applyBlock, h, bind, Except.bind, pure, Except.pure]


/-- **applyBlock against the naive forest**: accumulator, added leaves, updated leaves and
    every holder's proof. `ls1` is the leaf list with the block's rewrites, `ls2` the
    final one. -/
theorem applyBlock_spec (acc : Acc H) (ls : List H) (hacc : acc.toForest = forestOf ls)
    (updated : List (Leaf H)) (ok : UpdOK ls updated)
    (added : List (Leaf H)) (hnp : ∀ l ∈ added, l.proof = [])
    (hsz : ls.length + added.length ≤ unassignedLeafIndex) :
    let ls2 := writeLeaves ls updated ++ hashesFrom ls.length added
    ∃ acc' u added', acc.applyBlock updated added = .ok (acc', u, added') ∧
      acc'.toForest = forestOf ls2 ∧
      u.oldNumLeaves = ls.length ∧ u.numLeaves = ls.length + added.length ∧
      added'.length = added.length ∧
      (∀ j l, added'[j]? = some l → l.index = ls.length + j ∧ l.proof = path ls2 (ls.length + j) ∧
        ∃ l0, added[j]? = some l0 ∧ l.elem = l0.elem ∧ l.spent = l0.spent) ∧
      (∀ h l', l' ∈ u.updated h ↔ ∃ l ∈ updated, l.proof.length = h ∧ l' = withPath ls2 l) ∧
      (∀ j, j < ls.length → u.updateElementProof j (path ls j) = .ok (path ls2 j)) := by
  intro ls2
  have hult : unassignedLeafIndex < 2 ^ 64 := by unfold unassignedLeafIndex; omega
  have hn : ls.length < 2 ^ 64 := by omega
  obtain ⟨upd, hupd, hspec⟩ := updateLeaves_spec ls updated ok hn
  have hlen1 : (writeLeaves ls updated).length = ls.length := writeLeaves_length _ _
  have hacc1 := withUpdatedRoots_forest acc ls hacc updated ok hn upd hspec
  have hnum := ((toForest_eq_iff acc ls).1 hacc).1
  have houter := addLeaves_outer (acc.withUpdatedRoots upd) (writeLeaves ls updated) hacc1 added hnp (by rw [hlen1]; omega)
  rw [hlen1] at houter
  have hls2len : ls2.length = ls.length + added.length := houter.len
  generalize hr : (acc.withUpdatedRoots upd).addLeaves added = r at *
  have hr1 : r.1.numLeaves = ls.length + added.length := by rw [← hr]; exact houter.num
  have hr2 : r.2.1.length = added.length := by rw [← hr]; exact houter.llen
  -- growth: paths of old leaves
  have hgrow : ∀ j, j < ls.length →
      treeHeight ls.length j ≤ treeHeight (ls.length + added.length) j ∧
      path ls2 j = path (writeLeaves ls updated) j ++ r.2.2 (path (writeLeaves ls updated) j).length := by
    intro j hj
    have hpg := path_grow (ls := writeLeaves ls updated) (ext := hashesFrom ls.length added) (k := added.length)
      (by rw [hlen1]; exact houter) (by rw [hlen1]; exact hn) (j := j) (by rw [hlen1]; exact hj)
    rw [hlen1] at hpg
    rw [← hr]; exact hpg
  have hmemU : ∀ h l', l' ∈ extendUpdated upd r.2.2 h ↔ ∃ l ∈ updated, l.proof.length = h ∧ l' = withPath ls2 l := by
    intro h l'
    simp only [extendUpdated, List.mem_map]
    constructor
    · rintro ⟨l1, hl1, rfl⟩
      obtain ⟨l, hl, hlh, rfl⟩ := (hspec h l1).1 hl1
      refine ⟨l, hl, hlh, ?_⟩
      simp only [withPath]
      congr 1
      exact ((hgrow l.index (ok.lt l hl)).2).symm
    · rintro ⟨l, hl, hlh, rfl⟩
      refine ⟨withPath (writeLeaves ls updated) l, (hspec h _).2 ⟨l, hl, hlh, rfl⟩, ?_⟩
      simp only [withPath]
      congr 1
      exact ((hgrow l.index (ok.lt l hl)).2).symm
  refine ⟨r.1, _, r.2.1, by rw [Acc.applyBlock_eq acc updated added upd hupd, hr], ?_, hnum, hr1, hr2, ?_, hmemU, ?_⟩
  · rw [toForest_eq_iff]
    refine ⟨by rw [hr1, hls2len], ?_⟩
    intro h hb
    rw [hls2len] at hb ⊢
    rw [← hr]; exact houter.trees h hb
  · intro j l hl
    have hl' : (addLeavesGo (acc.withUpdatedRoots upd).numLeaves added
        { trees := (acc.withUpdatedRoots upd).trees, numLeaves := (acc.withUpdatedRoots upd).numLeaves, leaves := [], growth := fun _ => [] }).leaves[j]? = some l := by
      rw [← hr] at hl; exact hl
    have hj : j < added.length := by
      have := (List.getElem?_eq_some_iff.1 hl).1
      rw [← hr2]; exact this
    obtain ⟨f1, l0, f2, f3, f4⟩ := houter.fields j l hl'
    refine ⟨f1, ?_, l0, f2, f3, f4⟩
    rw [path_eq, hls2len]
    exact houter.proofs j l hl' _ _ (treeAt_of_lt (by omega))
  · intro j hj
    have hin := treeHeight_spec hj
    generalize hb : treeHeight ls.length j = b at hin
    obtain ⟨hbit, hlo, hhi⟩ := hin
    have hgok : GroupOK ls (writeLeaves ls updated) b (treeStart ls.length b) (extendUpdated upd r.2.2 b) := by
      refine ⟨dvd_of_dvd_succ (treeStart_dvd _ _), ?_, ?_, ?_, ?_⟩
      · intro u hu
        obtain ⟨l, hl, hlh, rfl⟩ := (hmemU b u).1 hu
        have := treeHeight_spec (ok.lt l hl)
        rw [ok.proof l hl, path_length] at hlh
        rw [hlh] at this
        exact ⟨this.2.1, this.2.2⟩
      · intro u hu
        obtain ⟨l, hl, hlh, rfl⟩ := (hmemU b u).1 hu
        rw [ok.proof l hl, path_length] at hlh
        have e : path (writeLeaves ls updated) l.index =
            subPath (writeLeaves ls updated) 0 l.index b (treeStart ls.length b) := by rw [path_eq, hlen1, hlh]
        refine ⟨r.2.2 (path (writeLeaves ls updated) l.index).length, ?_⟩
        show path ls2 l.index = _
        rw [(hgrow l.index (ok.lt l hl)).2, e]
        rfl
      · intro u hu
        obtain ⟨l, hl, hlh, rfl⟩ := (hmemU b u).1 hu
        exact writeLeaves_get_mem updated ls ok.nodup l hl (ok.lt l hl)
      · intro q h1 h2 h3
        apply writeLeaves_get_other
        intro u hu hq
        have hinq : InTree ls.length b q := ⟨hbit, h1, h2⟩
        have hlh : u.proof.length = b := by rw [ok.proof u hu, path_length, hq]; exact treeHeight_unique hinq
        exact h3 (withPath ls2 u) ((hmemU b _).2 ⟨u, hu, hlh, rfl⟩) hq
    have hup := updateProof_spec ls (writeLeaves ls updated) b (treeStart ls.length b) _ hgok
      (extendUpdated upd r.2.2) rfl j hlo hhi
    have hpj : path ls j = subPath ls 0 j b (treeStart ls.length b) := by rw [path_eq, hb]
    have hpj1 : path (writeLeaves ls updated) j = subPath (writeLeaves ls updated) 0 j b (treeStart ls.length b) := by
      rw [path_eq, hlen1, hb]
    obtain ⟨g1, g2⟩ := hgrow j hj
    have hmh := mergeHeight_eq (n := ls.length + added.length) (i := j) (by omega)
    simp only [ApplyUpdate.updateElementProof, hnum]
    rw [if_neg (by omega), if_neg (by omega), hpj, hup]
    simp only [bind, Except.bind, pure, Except.pure]
    rw [hr1, hmh, ← hpj1, path_length, hlen1, hb, if_pos (by omega), g2, path_length, hlen1, hb]

end
end Sia.ElemAcc
