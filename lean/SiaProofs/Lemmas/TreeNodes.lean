/-
  SiaProofs.Lemmas.TreeNodes — `ForEachTreeNode` against the naive forest.
-/
import SiaModel.Merkle.TreeNodes
import SiaProofs.Lemmas.UpdateProof
set_option linter.unusedSectionVars false
namespace Sia.ElemAcc

section
variable {H : Type} [Hasher H] [Inhabited H]

/-- the naive forest's node at `(row, col)`: the root of the subtree of height `row` over the
    leaves `col·2^row … (col+1)·2^row − 1` -/
def nodeAt (ls : List H) (row col : Nat) : H := subRoot ls row (col * 2 ^ row)

/-- one step up a naive path: the first remaining sibling combines the current subtree root
    into the next one -/
theorem subPath_step (ls : List H) (p row : Nat) : ∀ (Ht S : Nat), 2 ^ Ht ∣ S → S ≤ p → p < S + 2 ^ Ht → row < Ht →
    ∃ sib, subPath ls row p Ht S = sib :: subPath ls (row + 1) p Ht S ∧
      (if p.testBit row then node sib (subRoot ls row (p / 2 ^ row * 2 ^ row))
        else node (subRoot ls row (p / 2 ^ row * 2 ^ row)) sib) = subRoot ls (row + 1) (p / 2 ^ (row + 1) * 2 ^ (row + 1)) := by
  intro Ht
  induction Ht with
  | zero => intro S _ _ _ h; omega
  | succ Ht ih =>
    intro S hS h1 h2 hr
    have hp := pow_succ2 Ht
    by_cases he : row = Ht
    · subst he
      have hbit := testBit_aligned hS h1 h2
      have hanc1 : p / 2 ^ (row + 1) * 2 ^ (row + 1) = S := anc_eq hS h1 h2
      by_cases hl : p < S + 2 ^ row
      · refine ⟨subRoot ls row (S + 2 ^ row), ?_, ?_⟩
        · rw [subPath_left ls (Nat.le_refl _) hl, subPath_self, subPath_self]; rfl
        · have hanc0 : p / 2 ^ row * 2 ^ row = S := anc_eq (dvd_of_dvd_succ hS) h1 hl
          have : ¬ (S + 2 ^ row ≤ p) := by omega
          rw [hbit, hanc0, hanc1]
          simp [this, subRoot]
      · have hl' : S + 2 ^ row ≤ p := by omega
        refine ⟨subRoot ls row S, ?_, ?_⟩
        · rw [subPath_right ls (Nat.le_refl _) hl', subPath_self, subPath_self]; rfl
        · have hanc0 : p / 2 ^ row * 2 ^ row = S + 2 ^ row := anc_eq (dvd_add_pow hS) hl' (by omega)
          rw [hbit, hanc0, hanc1]
          simp [hl', subRoot]
    · have hr' : row < Ht := by omega
      by_cases hl : p < S + 2 ^ Ht
      · obtain ⟨sib, e1, e2⟩ := ih S (dvd_of_dvd_succ hS) h1 hl hr'
        refine ⟨sib, ?_, e2⟩
        rw [subPath_left ls (by omega) hl, subPath_left ls (by omega) hl, e1]; rfl
      · have hl' : S + 2 ^ Ht ≤ p := by omega
        obtain ⟨sib, e1, e2⟩ := ih (S + 2 ^ Ht) (dvd_add_pow hS) hl' (by omega) hr'
        refine ⟨sib, ?_, e2⟩
        rw [subPath_right ls (by omega) hl', subPath_right ls (by omega) hl', e1]; rfl

theorem div_succ_pow (p row : Nat) : p / 2 ^ row / 2 = p / 2 ^ (row + 1) := by
  rw [Nat.div_div_eq_div_mul, ← Nat.pow_succ]

/-- **soundness of one walk**: from a correct node on the path of leaf `p`, every node the walk
    reports is the naive forest's node at that coordinate, on the path of `p` -/
theorem walkUp_sound (ls : List H) (p Ht S : Nat) (hS : 2 ^ Ht ∣ S) (h1 : S ≤ p) (h2 : p < S + 2 ^ Ht) :
    ∀ (rest : List H) (row : Nat) (h : H) (seen : List (Nat × Nat)),
      row ≤ Ht → rest = subPath ls row p Ht S → h = subRoot ls row (p / 2 ^ row * 2 ^ row) →
      ∀ x ∈ (walkUp p row (p / 2 ^ row) h rest seen).1,
        row < x.1 ∧ x.1 ≤ Ht ∧ x.2.1 = p / 2 ^ x.1 ∧ x.2.2 = nodeAt ls x.1 x.2.1 := by
  intro rest
  induction rest with
  | nil => intro row h seen _ _ _ x hx; simp [walkUp] at hx
  | cons sib rest ih =>
    intro row h seen hr hrest hh x hx
    have hlt : row < Ht := by
      rcases Nat.lt_or_ge row Ht with hl | hl
      · exact hl
      · have : row = Ht := by omega
        subst this
        rw [subPath_self] at hrest; cases hrest
    obtain ⟨sib', e1, e2⟩ := subPath_step ls p row Ht S hS h1 h2 hlt
    rw [e1] at hrest
    injection hrest with hsib hrest'
    subst hsib
    simp only [walkUp] at hx
    split at hx
    · simp at hx
    · simp only [List.mem_cons] at hx
      rw [div_succ_pow] at hx
      rcases hx with rfl | hx
      · refine ⟨by simp, by simp; omega, rfl, ?_⟩
        simp only [nodeAt]
        rw [hh, e2]
      · have := ih (row + 1) _ _ (by omega) hrest' (by rw [hh, e2]) x hx
        exact ⟨by omega, this.2.1, this.2.2.1, this.2.2.2⟩

/-- an element of the update as `ForEachTreeNode` must find it: a leaf of the forest `ls`
    carrying the naive path of its position (the proof it has AFTER the block) -/
structure ElemValid (ls : List H) (l : Leaf H) : Prop where
  lt : l.index < ls.length
  proof : l.proof = path ls l.index
  hash : ls.getD l.index default = l.hash

/-- a coordinate on the path of leaf `p` in its tree -/
def OnPath (n p : Nat) (x : Nat × Nat) : Prop := x.1 ≤ treeHeight n p ∧ x.2 = p / 2 ^ x.1

theorem nodesOfLeaf_sound (ls : List H) (l : Leaf H) (v : ElemValid ls l) (seen : List (Nat × Nat)) :
    ∀ x ∈ (nodesOfLeaf l seen).1, OnPath ls.length l.index (x.1, x.2.1) ∧ x.2.2 = nodeAt ls x.1 x.2.1 := by
  obtain ⟨hbit, hlo, hhi⟩ := treeHeight_spec v.lt
  have hS : 2 ^ treeHeight ls.length l.index ∣ treeStart ls.length (treeHeight ls.length l.index) :=
    dvd_of_dvd_succ (treeStart_dvd _ _)
  intro x hx
  simp only [nodesOfLeaf, List.mem_cons] at hx
  rcases hx with rfl | hx
  · refine ⟨⟨Nat.zero_le _, by simp⟩, ?_⟩
    simp only [nodeAt, subRoot, Nat.pow_zero, Nat.mul_one]
    exact v.hash.symm
  · have e : l.index / 2 ^ 0 = l.index := by simp
    have := walkUp_sound ls l.index _ _ hS hlo hhi l.proof 0 l.hash ((0, l.index) :: seen) (Nat.zero_le _)
      (by rw [v.proof, path_eq]) (by rw [e]; simp only [subRoot, Nat.pow_zero, Nat.mul_one]; exact v.hash.symm) x
      (by rw [e]; exact hx)
    exact ⟨⟨this.2.1, this.2.2.1⟩, this.2.2.2⟩

theorem nodesFrom_sound (ls : List H) : ∀ (els : List (Leaf H)) (seen : List (Nat × Nat)),
    (∀ l ∈ els, ElemValid ls l) →
    ∀ x ∈ nodesFrom els seen, (∃ l ∈ els, OnPath ls.length l.index (x.1, x.2.1)) ∧ x.2.2 = nodeAt ls x.1 x.2.1 := by
  intro els
  induction els with
  | nil => intro seen _ x hx; simp [nodesFrom] at hx
  | cons l els ih =>
    intro seen hv x hx
    simp only [nodesFrom, List.mem_append] at hx
    rcases hx with hx | hx
    · obtain ⟨a, b⟩ := nodesOfLeaf_sound ls l (hv l (by simp)) seen x hx
      exact ⟨⟨l, by simp, a⟩, b⟩
    · obtain ⟨⟨l', hl', a⟩, b⟩ := ih _ (fun y hy => hv y (List.mem_cons_of_mem _ hy)) x hx
      exact ⟨⟨l', List.mem_cons_of_mem _ hl', a⟩, b⟩

/-! ### completeness -/

/-- the coordinate `x` and everything above it on a path is in `seen` -/
def Closed (n : Nat) (seen : List (Nat × Nat)) (x : Nat × Nat) : Prop :=
  ∃ q, q < n ∧ OnPath n q x ∧ ∀ r, x.1 ≤ r → r ≤ treeHeight n q → (r, q / 2 ^ r) ∈ seen

theorem Closed.mono {n : Nat} {seen seen' : List (Nat × Nat)} {x : Nat × Nat} (h : Closed n seen x)
    (hs : ∀ y ∈ seen, y ∈ seen') : Closed n seen' x := by
  obtain ⟨q, h1, h2, h3⟩ := h
  exact ⟨q, h1, h2, fun r a b => hs _ (h3 r a b)⟩

theorem div_pow_of_div_pow {p q k r : Nat} (h : q / 2 ^ k = p / 2 ^ k) (hr : k ≤ r) : q / 2 ^ r = p / 2 ^ r := by
  obtain ⟨d, rfl⟩ : ∃ d, r = k + d := ⟨r - k, by omega⟩
  rw [Nat.pow_add, ← Nat.div_div_eq_div_mul, ← Nat.div_div_eq_div_mul, h]

/-- two positions with a common ancestor inside a tree are in the same tree -/
theorem same_tree {n p q k : Nat} (hp : p < n) (hk : k ≤ treeHeight n p) (h : q / 2 ^ k = p / 2 ^ k) :
    treeHeight n q = treeHeight n p := by
  obtain ⟨hbit, hlo, hhi⟩ := treeHeight_spec hp
  generalize treeHeight n p = Ht at *
  have hS : 2 ^ Ht ∣ treeStart n Ht := dvd_of_dvd_succ (treeStart_dvd _ _)
  have hSk : 2 ^ k ∣ treeStart n Ht := Nat.dvd_trans (Nat.pow_dvd_pow 2 hk) hS
  have hSk2 : 2 ^ k ∣ treeStart n Ht + 2 ^ Ht := (Nat.dvd_add_right hSk).2 (Nat.pow_dvd_pow 2 hk)
  obtain ⟨b1, b2⟩ := block_bounds p k
  obtain ⟨c1, c2⟩ := block_bounds q k
  rw [h] at c1 c2
  have hanc : 2 ^ k ∣ p / 2 ^ k * 2 ^ k := Nat.dvd_mul_left _ _
  have hge : treeStart n Ht ≤ p / 2 ^ k * 2 ^ k := by
    rcases Nat.lt_or_ge (p / 2 ^ k * 2 ^ k) (treeStart n Ht) with hl | hg
    · have := mul_succ_le_of_lt hanc hSk hl; omega
    · exact hg
  have hle : p / 2 ^ k * 2 ^ k + 2 ^ k ≤ treeStart n Ht + 2 ^ Ht := mul_succ_le_of_lt hanc hSk2 (by omega)
  exact treeHeight_unique ⟨hbit, by omega, by omega⟩

theorem walkUp_complete (n p : Nat) (hp : p < n) :
    ∀ (rest : List H) (row : Nat) (h : H) (seen : List (Nat × Nat)),
      rest.length + row = treeHeight n p →
      (∀ x ∈ seen, Closed n seen x ∨ (x.1 ≤ row ∧ x.2 = p / 2 ^ x.1)) →
      (∀ r, r ≤ row → (r, p / 2 ^ r) ∈ seen) →
      (∀ x ∈ (walkUp p row (p / 2 ^ row) h rest seen).2, Closed n (walkUp p row (p / 2 ^ row) h rest seen).2 x) ∧
      (∀ r, r ≤ treeHeight n p → (r, p / 2 ^ r) ∈ (walkUp p row (p / 2 ^ row) h rest seen).2) ∧
      (∀ y, y ∈ (walkUp p row (p / 2 ^ row) h rest seen).2 ↔
        y ∈ (walkUp p row (p / 2 ^ row) h rest seen).1.map (fun x => (x.1, x.2.1)) ∨ y ∈ seen) := by
  intro rest
  induction rest with
  | nil =>
    intro row h seen hlen hpre hlow
    simp only [List.length_nil, Nat.zero_add] at hlen
    simp only [walkUp, List.map_nil, List.not_mem_nil, false_or, implies_true, and_true]
    have hall : ∀ r, r ≤ treeHeight n p → (r, p / 2 ^ r) ∈ seen := fun r hr => hlow r (by omega)
    refine ⟨?_, hall⟩
    intro x hx
    rcases hpre x hx with hc | ⟨h1, h2⟩
    · exact hc
    · exact ⟨p, hp, ⟨by omega, h2⟩, fun r _ hr => hall r hr⟩
  | cons sib rest ih =>
    intro row h seen hlen hpre hlow
    simp only [List.length_cons] at hlen
    simp only [walkUp, div_succ_pow]
    by_cases hs : (row + 1, p / 2 ^ (row + 1)) ∈ seen
    · rw [if_pos hs]
      simp only [List.map_nil, List.not_mem_nil, false_or, implies_true, and_true]
      -- the coordinate above is already seen: so is everything above it
      have habove : ∀ r, row + 1 ≤ r → r ≤ treeHeight n p → (r, p / 2 ^ r) ∈ seen := by
        rcases hpre _ hs with ⟨q, hq, ⟨hq1, hq2⟩, hq3⟩ | ⟨h1, _⟩
        · simp only at hq1 hq2 hq3
          have hth := same_tree hp (by omega : row + 1 ≤ treeHeight n p) hq2.symm
          intro r h1 h2
          have := hq3 r h1 (by omega)
          rwa [div_pow_of_div_pow hq2.symm h1] at this
        · simp only at h1; omega
      have hall : ∀ r, r ≤ treeHeight n p → (r, p / 2 ^ r) ∈ seen := by
        intro r hr
        rcases Nat.lt_or_ge row r with hl | hl
        · exact habove r hl hr
        · exact hlow r hl
      refine ⟨?_, hall⟩
      intro x hx
      rcases hpre x hx with hc | ⟨h1, h2⟩
      · exact hc
      · exact ⟨p, hp, ⟨by omega, h2⟩, fun r _ hr => hall r hr⟩
    · rw [if_neg hs]
      have hpre' : ∀ x ∈ (row + 1, p / 2 ^ (row + 1)) :: seen,
          Closed n ((row + 1, p / 2 ^ (row + 1)) :: seen) x ∨ (x.1 ≤ row + 1 ∧ x.2 = p / 2 ^ x.1) := by
        intro x hx
        rcases List.mem_cons.1 hx with rfl | hx'
        · right; exact ⟨Nat.le_refl _, rfl⟩
        · rcases hpre x hx' with hc | ⟨h1, h2⟩
          · left; exact hc.mono (fun y hy => List.mem_cons_of_mem _ hy)
          · right; exact ⟨by omega, h2⟩
      have hlow' : ∀ r, r ≤ row + 1 → (r, p / 2 ^ r) ∈ (row + 1, p / 2 ^ (row + 1)) :: seen := by
        intro r hr
        rcases Nat.lt_or_ge r (row + 1) with hl | hl
        · exact List.mem_cons_of_mem _ (hlow r (by omega))
        · have : r = row + 1 := by omega
          subst this; exact List.mem_cons_self
      obtain ⟨i1, i2, i3⟩ := ih (row + 1) (if p.testBit row then node sib h else node h sib)
        ((row + 1, p / 2 ^ (row + 1)) :: seen) (by omega) hpre' hlow'
      refine ⟨i1, i2, ?_⟩
      intro y
      rw [i3 y]
      simp only [List.map_cons, List.mem_cons]
      tauto

/-- the coordinates of a node stream -/
def coords (out : List (Nat × Nat × H)) : List (Nat × Nat) := out.map (fun x => (x.1, x.2.1))

theorem nodesOfLeaf_complete (ls : List H) (l : Leaf H) (v : ElemValid ls l) (seen : List (Nat × Nat))
    (hpre : ∀ x ∈ seen, Closed ls.length seen x) :
    (∀ x ∈ (nodesOfLeaf l seen).2, Closed ls.length (nodesOfLeaf l seen).2 x) ∧
    (∀ r, r ≤ treeHeight ls.length l.index → (r, l.index / 2 ^ r) ∈ (nodesOfLeaf l seen).2) ∧
    (∀ y, y ∈ (nodesOfLeaf l seen).2 ↔ y ∈ coords (nodesOfLeaf l seen).1 ∨ y ∈ seen) := by
  have e : l.index / 2 ^ 0 = l.index := by simp
  have hw := walkUp_complete ls.length l.index v.lt l.proof 0 l.hash ((0, l.index) :: seen)
    (by rw [v.proof, path_length]; omega)
    (by
      intro x hx
      rcases List.mem_cons.1 hx with rfl | hx'
      · right; exact ⟨Nat.le_refl _, by simp⟩
      · left; exact (hpre x hx').mono (fun y hy => List.mem_cons_of_mem _ hy))
    (by
      intro r hr
      have : r = 0 := by omega
      subst this
      simp)
  rw [e] at hw
  obtain ⟨w1, w2, w3⟩ := hw
  refine ⟨w1, w2, ?_⟩
  intro y
  simp only [nodesOfLeaf] at w3 ⊢
  rw [w3 y]
  simp only [coords, List.map_cons, List.mem_cons]
  tauto

theorem nodesFrom_complete (ls : List H) : ∀ (els : List (Leaf H)) (seen : List (Nat × Nat)),
    (∀ l ∈ els, ElemValid ls l) → (∀ x ∈ seen, Closed ls.length seen x) →
    ∀ l ∈ els, ∀ r, r ≤ treeHeight ls.length l.index →
      (r, l.index / 2 ^ r) ∈ coords (nodesFrom els seen) ∨ (r, l.index / 2 ^ r) ∈ seen := by
  intro els
  induction els with
  | nil => intro seen _ _ l hl; simp at hl
  | cons a els ih =>
    intro seen hv hpre l hl r hr
    obtain ⟨c1, c2, c3⟩ := nodesOfLeaf_complete ls a (hv a (by simp)) seen hpre
    simp only [nodesFrom, coords, List.map_append, List.mem_append]
    rcases List.mem_cons.1 hl with rfl | hl'
    · rcases (c3 _).1 (c2 r hr) with h | h
      · left; left; exact h
      · right; exact h
    · rcases ih _ (fun y hy => hv y (List.mem_cons_of_mem _ hy)) c1 l hl' r hr with h | h
      · left; right; exact h
      · rcases (c3 _).1 h with h' | h'
        · left; left; exact h'
        · right; exact h'

end
end Sia.ElemAcc
