/-
  Meaning of the Go primitives that generated (T-code) definitions refer to.
  `uint64` values are modelled as `Nat` (< 2^64 by well-formedness); the
  documented behaviour of `math/bits` is written out here and is part of the
  trusted base ("modelled, not verified").
-/
namespace Go

/-- 2^64 -/
abbrev W64 : Nat := 18446744073709551616

def zeros (n : Nat) : ByteArray := ⟨Array.replicate n 0⟩

/-- bits.Add64: sum, carryOut -/
def bits_Add64 (x y carry : Nat) : Nat × Nat :=
  ((x + y + carry) % 18446744073709551616, (x + y + carry) / 18446744073709551616)

/-- bits.Sub64: diff, borrowOut -/
def bits_Sub64 (x y borrow : Nat) : Nat × Nat :=
  ((x + 18446744073709551616 + 18446744073709551616 - y - borrow) % 18446744073709551616,
   if x < y + borrow then 1 else 0)

/-- bits.Mul64: hi, lo -/
def bits_Mul64 (x y : Nat) : Nat × Nat :=
  ((x * y) / 18446744073709551616, (x * y) % 18446744073709551616)

/-- bits.Div64: quo, rem; panics for y == 0 (division by zero) or y <= hi (quotient overflow). -/
def bits_Div64 (hi lo y : Nat) : Except String (Nat × Nat) :=
  if y = 0 then .error "integer divide by zero"
  else if y ≤ hi then .error "integer overflow"
  else .ok ((hi * 18446744073709551616 + lo) / y, (hi * 18446744073709551616 + lo) % y)

/-- bits.Len64: minimum number of bits to represent x; 0 for x == 0 -/
def bits_Len64 (x : Nat) : Int := if x = 0 then 0 else Int.ofNat (Nat.log2 x + 1)

/-- bits.LeadingZeros64 -/
def bits_LeadingZeros64 (x : Nat) : Int := 64 - bits_Len64 x

def trailingZerosAux : Nat → Nat → Nat
  | 0, _ => 0
  | fuel+1, x => if x % 2 = 1 then 0 else 1 + trailingZerosAux fuel (x / 2)

/-- bits.TrailingZeros64: 64 for x == 0 -/
def bits_TrailingZeros64 (x : Nat) : Int := if x = 0 then 64 else Int.ofNat (trailingZerosAux 64 x)

def popAux : Nat → Nat → Nat
  | 0, _ => 0
  | fuel+1, x => x % 2 + popAux fuel (x / 2)

def bits_OnesCount64 (x : Nat) : Int := Int.ofNat (popAux 64 x)

/-- x &^ y on `bits`-bit unsigned values -/
def andNot (bits : Nat) (x y : Nat) : Nat := x &&& (2 ^ bits - 1 - y % 2 ^ bits)

def natDiv (x y : Nat) : Except String Nat :=
  if y = 0 then .error "integer divide by zero" else .ok (x / y)

def natMod (x y : Nat) : Except String Nat :=
  if y = 0 then .error "integer divide by zero" else .ok (x % y)

/-- Go's `/` on signed integers truncates toward zero. -/
def intDiv (x y : Int) : Except String Int :=
  if y = 0 then .error "integer divide by zero" else .ok (Int.tdiv x y)

def intMod (x y : Int) : Except String Int :=
  if y = 0 then .error "integer divide by zero" else .ok (Int.tmod x y)

/-- dereference of a pointer FIELD (modelled as `Option`): nil panics -/
def deref {α : Type} (p : Option α) : Except String α :=
  match p with
  | some v => .ok v
  | none => .error "invalid memory address or nil pointer dereference"

/-- `for i, x := range xs { body }`: `body` returns `(some r, st)` for an early `return r`, `(none, st)` to go on;
the loop state `st` carries the outer variables the body assigns. -/
def forRangeFrom {α σ ρ : Type} (f : Int → α → σ → Except String (Option ρ × σ)) :
    List α → Int → σ → Except String (Option ρ × σ)
  | [], _, st => .ok (none, st)
  | x :: xs, i, st =>
    match f i x st with
    | .error e => .error e
    | .ok (some r, st') => .ok (some r, st')
    | .ok (none, st') => forRangeFrom f xs (i + 1) st'

def forRange {α σ ρ : Type} (xs : List α) (st : σ) (f : Int → α → σ → Except String (Option ρ × σ)) :
    Except String (Option ρ × σ) :=
  forRangeFrom f xs 0 st

/-- `v, ok := m[k]` on a map modelled as an association list (first binding wins; `z` is the zero value) -/
def mapGet {κ ν : Type} [DecidableEq κ] (m : List (κ × ν)) (k : κ) (z : ν) : ν × Bool :=
  match m.find? (fun p => decide (p.1 = k)) with
  | some p => (p.2, true)
  | none => (z, false)

/-- `xs[i]`: index out of range panics -/
def sliceGet {α : Type} (xs : List α) (i : Int) : Except String α :=
  if i < 0 then .error "index out of range"
  else match xs[i.toNat]? with
    | some v => .ok v
    | none => .error "index out of range"

end Go
