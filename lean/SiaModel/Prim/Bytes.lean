/-
  SiaModel.Prim.Bytes — core-only byte-array helpers (hex, endian codecs, slicing).
  No Mathlib, no `partial`, no `unsafe`.
-/

namespace Sia

abbrev Bytes := ByteArray

/-- Lowercase hex digit for the low nibble of `n`. -/
@[inline] def hexDigit (n : UInt8) : Char :=
  let d := n &&& 0x0f
  if d < 10 then Char.ofNat (48 + d.toNat) else Char.ofNat (87 + d.toNat)

/-- Lowercase hex encoding. -/
def hexEncode (b : ByteArray) : String := Id.run do
  let mut s : String := ""
  for x in b do
    s := (s.push (hexDigit (x >>> 4))).push (hexDigit x)
  return s

/-- Value of a hex digit (either case), or `none`. -/
def hexVal? (c : Char) : Option UInt8 :=
  let n := c.toNat
  if 48 ≤ n ∧ n ≤ 57 then some (UInt8.ofNat (n - 48))
  else if 97 ≤ n ∧ n ≤ 102 then some (UInt8.ofNat (n - 87))
  else if 65 ≤ n ∧ n ≤ 70 then some (UInt8.ofNat (n - 55))
  else none

/-- Decode a list of hex characters, two at a time. -/
def hexDecodeChars : List Char → ByteArray → Option ByteArray
  | [], acc => some acc
  | [_], _ => none
  | hi :: lo :: rest, acc =>
    match hexVal? hi, hexVal? lo with
    | some h, some l => hexDecodeChars rest (acc.push ((h <<< 4) ||| l))
    | _, _ => none

/-- Hex decoding. Accepts upper/lower case; odd length or non-hex characters give `none`. -/
def hexDecode (s : String) : Option ByteArray :=
  hexDecodeChars s.toList (ByteArray.emptyWithCapacity (s.length / 2))

/-- 8-byte little-endian encoding of `n mod 2^64`. -/
def le64 (n : Nat) : ByteArray :=
  let v : UInt64 := UInt64.ofNat n
  (ByteArray.emptyWithCapacity 8)
    |>.push v.toUInt8
    |>.push (v >>> 8).toUInt8
    |>.push (v >>> 16).toUInt8
    |>.push (v >>> 24).toUInt8
    |>.push (v >>> 32).toUInt8
    |>.push (v >>> 40).toUInt8
    |>.push (v >>> 48).toUInt8
    |>.push (v >>> 56).toUInt8

/-- 8-byte big-endian encoding of `n mod 2^64`. -/
def be64 (n : Nat) : ByteArray :=
  let v : UInt64 := UInt64.ofNat n
  (ByteArray.emptyWithCapacity 8)
    |>.push (v >>> 56).toUInt8
    |>.push (v >>> 48).toUInt8
    |>.push (v >>> 40).toUInt8
    |>.push (v >>> 32).toUInt8
    |>.push (v >>> 24).toUInt8
    |>.push (v >>> 16).toUInt8
    |>.push (v >>> 8).toUInt8
    |>.push v.toUInt8

/-- Byte at index `i`, or 0 when out of range (never panics). -/
@[inline] def Bytes.at (b : ByteArray) (i : Nat) : UInt8 :=
  if h : i < b.size then b[i] else 0

/-- Little-endian `UInt64` at byte offset `off`; out-of-range bytes read as 0. -/
@[inline] def readLe64U (b : ByteArray) (off : Nat) : UInt64 :=
  (Bytes.at b off).toUInt64
    ||| ((Bytes.at b (off + 1)).toUInt64 <<< 8)
    ||| ((Bytes.at b (off + 2)).toUInt64 <<< 16)
    ||| ((Bytes.at b (off + 3)).toUInt64 <<< 24)
    ||| ((Bytes.at b (off + 4)).toUInt64 <<< 32)
    ||| ((Bytes.at b (off + 5)).toUInt64 <<< 40)
    ||| ((Bytes.at b (off + 6)).toUInt64 <<< 48)
    ||| ((Bytes.at b (off + 7)).toUInt64 <<< 56)

/-- Little-endian 64-bit read at byte offset `off`; out-of-range bytes read as 0. -/
def readLe64 (b : ByteArray) (off : Nat) : Nat :=
  (readLe64U b off).toNat

/-- Big-endian 64-bit read at byte offset `off`; out-of-range bytes read as 0. -/
def readBe64 (b : ByteArray) (off : Nat) : Nat :=
  (((Bytes.at b off).toUInt64 <<< 56)
    ||| ((Bytes.at b (off + 1)).toUInt64 <<< 48)
    ||| ((Bytes.at b (off + 2)).toUInt64 <<< 40)
    ||| ((Bytes.at b (off + 3)).toUInt64 <<< 32)
    ||| ((Bytes.at b (off + 4)).toUInt64 <<< 24)
    ||| ((Bytes.at b (off + 5)).toUInt64 <<< 16)
    ||| ((Bytes.at b (off + 6)).toUInt64 <<< 8)
    ||| (Bytes.at b (off + 7)).toUInt64).toNat

def Bytes.ofList (l : List UInt8) : ByteArray :=
  ⟨l.toArray⟩

/-- Byte-wise equality. -/
def bytesEq (a b : ByteArray) : Bool :=
  a.data == b.data

/-- `len` bytes starting at `off` (clamped to the array bounds). -/
def Bytes.slice (b : ByteArray) (off len : Nat) : ByteArray :=
  b.extract off (off + len)

def Bytes.concat (l : List ByteArray) : ByteArray :=
  l.foldl (· ++ ·) ByteArray.empty

def Bytes.zeros (n : Nat) : ByteArray :=
  ⟨Array.replicate n 0⟩

/-- UTF-8 bytes of a string (convenience for tests). -/
def Bytes.ofString (s : String) : ByteArray :=
  s.toUTF8

end Sia
