/-
  SiaModel.Prim.Blake2b — unkeyed BLAKE2b with a 32-byte digest (RFC 7693).

  Core-only, total, no `partial`/`unsafe`. All hot-path arithmetic is `UInt64`;
  the working vector lives in monomorphic structures so that the compiled code
  keeps the words unboxed.
-/
import SiaModel.Prim.Bytes

namespace Sia
namespace Blake2b

/-- Chaining value `h[0..7]`. -/
structure H where
  h0 : UInt64
  h1 : UInt64
  h2 : UInt64
  h3 : UInt64
  h4 : UInt64
  h5 : UInt64
  h6 : UInt64
  h7 : UInt64

/-- Working vector `v[0..15]`. -/
structure V where
  v0 : UInt64
  v1 : UInt64
  v2 : UInt64
  v3 : UInt64
  v4 : UInt64
  v5 : UInt64
  v6 : UInt64
  v7 : UInt64
  v8 : UInt64
  v9 : UInt64
  v10 : UInt64
  v11 : UInt64
  v12 : UInt64
  v13 : UInt64
  v14 : UInt64
  v15 : UInt64

/-- Four words returned by the mixing function. -/
structure Q where
  a : UInt64
  b : UInt64
  c : UInt64
  d : UInt64

def iv0 : UInt64 := 0x6a09e667f3bcc908
def iv1 : UInt64 := 0xbb67ae8584caa73b
def iv2 : UInt64 := 0x3c6ef372fe94f82b
def iv3 : UInt64 := 0xa54ff53a5f1d36f1
def iv4 : UInt64 := 0x510e527fade682d1
def iv5 : UInt64 := 0x9b05688c2b3e6c1f
def iv6 : UInt64 := 0x1f83d9abfb41bd6b
def iv7 : UInt64 := 0x5be0cd19137e2179

/-- Right rotation by `n` bits, `0 < n < 64`. -/
@[inline] def rotr (x n : UInt64) : UInt64 :=
  (x >>> n) ||| (x <<< (64 - n))

/-- The BLAKE2b mixing function `G` (RFC 7693 §3.1), rotations 32/24/16/63. -/
@[inline] def G (a b c d x y : UInt64) : Q :=
  let a := a + b + x
  let d := rotr (d ^^^ a) 32
  let c := c + d
  let b := rotr (b ^^^ c) 24
  let a := a + b + y
  let d := rotr (d ^^^ a) 16
  let c := c + d
  let b := rotr (b ^^^ c) 63
  ⟨a, b, c, d⟩

/-- One round: column step then diagonal step. The sixteen message words are
    passed already permuted by `SIGMA[r]`. -/
def round (v : V)
    (s0 s1 s2 s3 s4 s5 s6 s7 s8 s9 s10 s11 s12 s13 s14 s15 : UInt64) : V :=
  let q0 := G v.v0 v.v4 v.v8 v.v12 s0 s1
  let q1 := G v.v1 v.v5 v.v9 v.v13 s2 s3
  let q2 := G v.v2 v.v6 v.v10 v.v14 s4 s5
  let q3 := G v.v3 v.v7 v.v11 v.v15 s6 s7
  -- after columns: v0=q0.a v4=q0.b v8=q0.c v12=q0.d, v1=q1.a v5=q1.b v9=q1.c v13=q1.d, ...
  let r0 := G q0.a q1.b q2.c q3.d s8 s9      -- v0 v5 v10 v15
  let r1 := G q1.a q2.b q3.c q0.d s10 s11    -- v1 v6 v11 v12
  let r2 := G q2.a q3.b q0.c q1.d s12 s13    -- v2 v7 v8  v13
  let r3 := G q3.a q0.b q1.c q2.d s14 s15    -- v3 v4 v9  v14
  { v0 := r0.a, v1 := r1.a, v2 := r2.a, v3 := r3.a
    v4 := r3.b, v5 := r0.b, v6 := r1.b, v7 := r2.b
    v8 := r2.c, v9 := r3.c, v10 := r0.c, v11 := r1.c
    v12 := r1.d, v13 := r2.d, v14 := r3.d, v15 := r0.d }

/-- Compression function `F` (RFC 7693 §3.2) on message words `m0..m15`,
    with low counter word `t` (the high word is always 0 for inputs < 2^64 bytes)
    and final-block flag `last`. -/
def compress (h : H)
    (m0 m1 m2 m3 m4 m5 m6 m7 m8 m9 m10 m11 m12 m13 m14 m15 : UInt64)
    (t : UInt64) (last : Bool) : H :=
  let v : V :=
    { v0 := h.h0, v1 := h.h1, v2 := h.h2, v3 := h.h3
      v4 := h.h4, v5 := h.h5, v6 := h.h6, v7 := h.h7
      v8 := iv0, v9 := iv1, v10 := iv2, v11 := iv3
      v12 := iv4 ^^^ t, v13 := iv5
      v14 := if last then ~~~ iv6 else iv6
      v15 := iv7 }
  let v := round v m0 m1 m2 m3 m4 m5 m6 m7 m8 m9 m10 m11 m12 m13 m14 m15
  let v := round v m14 m10 m4 m8 m9 m15 m13 m6 m1 m12 m0 m2 m11 m7 m5 m3
  let v := round v m11 m8 m12 m0 m5 m2 m15 m13 m10 m14 m3 m6 m7 m1 m9 m4
  let v := round v m7 m9 m3 m1 m13 m12 m11 m14 m2 m6 m5 m10 m4 m0 m15 m8
  let v := round v m9 m0 m5 m7 m2 m4 m10 m15 m14 m1 m11 m12 m6 m8 m3 m13
  let v := round v m2 m12 m6 m10 m0 m11 m8 m3 m4 m13 m7 m5 m15 m14 m1 m9
  let v := round v m12 m5 m1 m15 m14 m13 m4 m10 m0 m7 m6 m3 m9 m2 m8 m11
  let v := round v m13 m11 m7 m14 m12 m1 m3 m9 m5 m0 m15 m4 m8 m6 m2 m10
  let v := round v m6 m15 m14 m9 m11 m3 m0 m8 m12 m2 m13 m7 m1 m4 m10 m5
  let v := round v m10 m2 m8 m4 m7 m6 m1 m5 m15 m11 m9 m14 m3 m12 m13 m0
  let v := round v m0 m1 m2 m3 m4 m5 m6 m7 m8 m9 m10 m11 m12 m13 m14 m15
  let v := round v m14 m10 m4 m8 m9 m15 m13 m6 m1 m12 m0 m2 m11 m7 m5 m3
  { h0 := h.h0 ^^^ v.v0 ^^^ v.v8
    h1 := h.h1 ^^^ v.v1 ^^^ v.v9
    h2 := h.h2 ^^^ v.v2 ^^^ v.v10
    h3 := h.h3 ^^^ v.v3 ^^^ v.v11
    h4 := h.h4 ^^^ v.v4 ^^^ v.v12
    h5 := h.h5 ^^^ v.v5 ^^^ v.v13
    h6 := h.h6 ^^^ v.v6 ^^^ v.v14
    h7 := h.h7 ^^^ v.v7 ^^^ v.v15 }

/-- Compress the 128-byte block of `data` starting at `off`. Bytes past the end
    of `data` read as zero, which is exactly the RFC's zero padding of the final block. -/
def compressBlock (h : H) (data : ByteArray) (off : Nat) (t : UInt64) (last : Bool) : H :=
  compress h
    (readLe64U data off) (readLe64U data (off + 8))
    (readLe64U data (off + 16)) (readLe64U data (off + 24))
    (readLe64U data (off + 32)) (readLe64U data (off + 40))
    (readLe64U data (off + 48)) (readLe64U data (off + 56))
    (readLe64U data (off + 64)) (readLe64U data (off + 72))
    (readLe64U data (off + 80)) (readLe64U data (off + 88))
    (readLe64U data (off + 96)) (readLe64U data (off + 104))
    (readLe64U data (off + 112)) (readLe64U data (off + 120))
    t last

/-- Initial chaining value for an unkeyed hash with `outLen`-byte digest:
    `h0 = IV0 xor 0x0101_0000 xor outLen` (fanout = depth = 1, key length 0). -/
def initH (outLen : UInt64) : H :=
  { h0 := iv0 ^^^ 0x01010000 ^^^ outLen
    h1 := iv1, h2 := iv2, h3 := iv3, h4 := iv4, h5 := iv5, h6 := iv6, h7 := iv7 }

/-- Append the 8 little-endian bytes of `w`. -/
@[inline] def pushLe64 (out : ByteArray) (w : UInt64) : ByteArray :=
  out.push w.toUInt8
    |>.push (w >>> 8).toUInt8
    |>.push (w >>> 16).toUInt8
    |>.push (w >>> 24).toUInt8
    |>.push (w >>> 32).toUInt8
    |>.push (w >>> 40).toUInt8
    |>.push (w >>> 48).toUInt8
    |>.push (w >>> 56).toUInt8

/-- Absorb all of `data` (unkeyed) and return the final chaining value. -/
def absorb (h : H) (data : ByteArray) : H :=
  let n := data.size
  -- The final block is never empty unless the whole message is empty.
  let nblocks := if n = 0 then 1 else (n + 127) / 128
  let h := Nat.fold (nblocks - 1)
    (fun i _ h => compressBlock h data (i * 128) (UInt64.ofNat ((i + 1) * 128)) false) h
  compressBlock h data ((nblocks - 1) * 128) (UInt64.ofNat n) true

end Blake2b

/-- Unkeyed BLAKE2b-256 (RFC 7693, 32-byte digest). -/
def blake2b256 (data : ByteArray) : ByteArray :=
  let h := Blake2b.absorb (Blake2b.initH 32) data
  ByteArray.emptyWithCapacity 32
    |> (Blake2b.pushLe64 · h.h0)
    |> (Blake2b.pushLe64 · h.h1)
    |> (Blake2b.pushLe64 · h.h2)
    |> (Blake2b.pushLe64 · h.h3)

end Sia
