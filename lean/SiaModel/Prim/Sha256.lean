/-
  SiaModel.Prim.Sha256 — SHA-256 (FIPS 180-4) over `UInt32`.
  Core-only, total, no `partial`/`unsafe`.
-/
import SiaModel.Prim.Bytes

namespace Sia
namespace Sha256

/-- Round constants `K[0..63]` (FIPS 180-4 §4.2.2). -/
def K : Array UInt32 := #[
  0x428a2f98, 0x71374491, 0xb5c0fbcf, 0xe9b5dba5, 0x3956c25b, 0x59f111f1, 0x923f82a4, 0xab1c5ed5,
  0xd807aa98, 0x12835b01, 0x243185be, 0x550c7dc3, 0x72be5d74, 0x80deb1fe, 0x9bdc06a7, 0xc19bf174,
  0xe49b69c1, 0xefbe4786, 0x0fc19dc6, 0x240ca1cc, 0x2de92c6f, 0x4a7484aa, 0x5cb0a9dc, 0x76f988da,
  0x983e5152, 0xa831c66d, 0xb00327c8, 0xbf597fc7, 0xc6e00bf3, 0xd5a79147, 0x06ca6351, 0x14292967,
  0x27b70a85, 0x2e1b2138, 0x4d2c6dfc, 0x53380d13, 0x650a7354, 0x766a0abb, 0x81c2c92e, 0x92722c85,
  0xa2bfe8a1, 0xa81a664b, 0xc24b8b70, 0xc76c51a3, 0xd192e819, 0xd6990624, 0xf40e3585, 0x106aa070,
  0x19a4c116, 0x1e376c08, 0x2748774c, 0x34b0bcb5, 0x391c0cb3, 0x4ed8aa4a, 0x5b9cca4f, 0x682e6ff3,
  0x748f82ee, 0x78a5636f, 0x84c87814, 0x8cc70208, 0x90befffa, 0xa4506ceb, 0xbef9a3f7, 0xc67178f2]

/-- Working variables / chaining value. -/
structure S where
  a : UInt32
  b : UInt32
  c : UInt32
  d : UInt32
  e : UInt32
  f : UInt32
  g : UInt32
  h : UInt32

/-- Initial hash value `H(0)` (FIPS 180-4 §5.3.3). -/
def init : S :=
  { a := 0x6a09e667, b := 0xbb67ae85, c := 0x3c6ef372, d := 0xa54ff53a
    e := 0x510e527f, f := 0x9b05688c, g := 0x1f83d9ab, h := 0x5be0cd19 }

/-- Right rotation by `n` bits, `0 < n < 32`. -/
@[inline] def rotr (x n : UInt32) : UInt32 :=
  (x >>> n) ||| (x <<< (32 - n))

/-- Big-endian `UInt32` at byte offset `off`; out-of-range bytes read as 0. -/
@[inline] def readBe32 (b : ByteArray) (off : Nat) : UInt32 :=
  ((Bytes.at b off).toUInt32 <<< 24)
    ||| ((Bytes.at b (off + 1)).toUInt32 <<< 16)
    ||| ((Bytes.at b (off + 2)).toUInt32 <<< 8)
    ||| (Bytes.at b (off + 3)).toUInt32

/-- Message schedule `W[0..63]` for the 64-byte block of `data` at `off`. -/
def schedule (data : ByteArray) (off : Nat) : Array UInt32 := Id.run do
  let mut w : Array UInt32 := Array.emptyWithCapacity 64
  for i in [0:16] do
    w := w.push (readBe32 data (off + 4 * i))
  for i in [16:64] do
    let w15 := w.getD (i - 15) 0
    let w2 := w.getD (i - 2) 0
    let s0 := rotr w15 7 ^^^ rotr w15 18 ^^^ (w15 >>> 3)
    let s1 := rotr w2 17 ^^^ rotr w2 19 ^^^ (w2 >>> 10)
    w := w.push (w.getD (i - 16) 0 + s0 + w.getD (i - 7) 0 + s1)
  return w

/-- One round of the compression function with constant `k` and schedule word `w`. -/
@[inline] def step (s : S) (k w : UInt32) : S :=
  let s1 := rotr s.e 6 ^^^ rotr s.e 11 ^^^ rotr s.e 25
  let ch := (s.e &&& s.f) ^^^ (~~~ s.e &&& s.g)
  let t1 := s.h + s1 + ch + k + w
  let s0 := rotr s.a 2 ^^^ rotr s.a 13 ^^^ rotr s.a 22
  let maj := (s.a &&& s.b) ^^^ (s.a &&& s.c) ^^^ (s.b &&& s.c)
  let t2 := s0 + maj
  { a := t1 + t2, b := s.a, c := s.b, d := s.c, e := s.d + t1, f := s.e, g := s.f, h := s.g }

/-- Process the 64-byte block of `data` at `off`. -/
def compressBlock (s : S) (data : ByteArray) (off : Nat) : S :=
  let w := schedule data off
  let r := Nat.fold 64 (fun i _ acc => step acc (K.getD i 0) (w.getD i 0)) s
  { a := s.a + r.a, b := s.b + r.b, c := s.c + r.c, d := s.d + r.d
    e := s.e + r.e, f := s.f + r.f, g := s.g + r.g, h := s.h + r.h }

/-- `data ‖ 0x80 ‖ 0…0 ‖ be64(8·|data|)`, padded to a multiple of 64 bytes (FIPS 180-4 §5.1.1). -/
def pad (data : ByteArray) : ByteArray :=
  let n := data.size
  -- zero bytes so that n + 1 + z + 8 ≡ 0 (mod 64)
  let z := (64 - (n + 9) % 64) % 64
  (data.push 0x80) ++ Bytes.zeros z ++ be64 (8 * n)

/-- Append the 4 big-endian bytes of `w`. -/
@[inline] def pushBe32 (out : ByteArray) (w : UInt32) : ByteArray :=
  out.push (w >>> 24).toUInt8
    |>.push (w >>> 16).toUInt8
    |>.push (w >>> 8).toUInt8
    |>.push w.toUInt8

end Sha256

/-- SHA-256 (FIPS 180-4). -/
def sha256 (data : ByteArray) : ByteArray :=
  let p := Sha256.pad data
  let s := Nat.fold (p.size / 64) (fun i _ s => Sha256.compressBlock s p (i * 64)) Sha256.init
  ByteArray.emptyWithCapacity 32
    |> (Sha256.pushBe32 · s.a)
    |> (Sha256.pushBe32 · s.b)
    |> (Sha256.pushBe32 · s.c)
    |> (Sha256.pushBe32 · s.d)
    |> (Sha256.pushBe32 · s.e)
    |> (Sha256.pushBe32 · s.f)
    |> (Sha256.pushBe32 · s.g)
    |> (Sha256.pushBe32 · s.h)

end Sia
