/-
  SiaModel.Gateway.OutlineBytes — `(*V2BlockOutline).encodeTo / decodeFrom`
  (gateway/encoding.go) on BYTES.

  Wire form: Height (u64), ParentID (32), Nonce (u64), Timestamp (u64 seconds),
  MinerAddress (32); then `EncodeSlice(txns)` — the v1 transactions present —,
  `V2TransactionsMultiproof(v2txns).EncodeTo` — the v2 transactions present, as ONE
  multiproof set —, `EncodeSlice(hashes)` — the hashes of the missing ones —, and one
  kind byte per outline transaction (0 = v1, 1 = v2, 2 = hash), without a length prefix.

  The three payload codecs are parameters (`BCodec`); transactions are arbitrary types.
  Core Lean only.
-/
import SiaModel.Gateway.Outline
import SiaModel.Merkle.MultiproofBytes
namespace Sia.Outline
open Sia.Codec Sia.Multiproof

/-- a byte codec for values of type `α` -/
structure BCodec (α : Type) where
  enc : α → Bytes
  dec : Bytes → Except DecErr (α × Bytes)

section
variable {Tx1 Tx2 : Type}

/-- the payload codecs of an outline -/
structure OutlineCodecs (Tx1 Tx2 : Type) where
  v1 : BCodec (List Tx1)       -- EncodeSlice / DecodeSlice of []types.Transaction
  v2 : BCodec (List Tx2)       -- V2TransactionsMultiproof
  hs : BCodec (List Hash32)    -- EncodeSlice / DecodeSlice of []types.Hash256

abbrev BOutline (Tx1 Tx2 : Type) := BlockOutline Tx1 Tx2 Hash32 Hash32

def readHash (bs : Bytes) : Except DecErr (Hash32 × Bytes) :=
  match readHashes 1 bs with
  | .ok ([h], r) => .ok (h, r)
  | .ok _ => .error .short
  | .error e => .error e

/-- `for i := range kinds { kinds[i] = d.ReadUint8(); if kinds[i] > 2 { error } }` -/
def readKinds : Nat → Bytes → Except DecErr (List Nat × Bytes)
  | 0, bs => .ok ([], bs)
  | n + 1, bs =>
    match bs with
    | [] => .error .short
    | b :: r =>
      if b.toNat > 2 then .error .invalid
      else match readKinds n r with
        | .ok (ks, r') => .ok (b.toNat :: ks, r')
        | .error e => .error e

/-- `encodeTo` -/
def encodeOutline (C : OutlineCodecs Tx1 Tx2) (bo : BOutline Tx1 Tx2) : Bytes :=
  let sh := encodeShape bo
  u64le bo.height ++ (bo.parentID.val ++ (u64le bo.nonce ++ (u64le bo.timestamp ++ (bo.minerAddress.val ++
    (C.v1.enc sh.1 ++ (C.v2.enc sh.2.1 ++ (C.hs.enc sh.2.2.1 ++ sh.2.2.2.map UInt8.ofNat)))))))

/-- `decodeFrom`; `env` supplies the transaction hashes the decoder recomputes -/
def decodeOutline (env : Env Tx1 Tx2 Hash32 Hash32) (C : OutlineCodecs Tx1 Tx2) (bs : Bytes) :
    Except DecErr (BOutline Tx1 Tx2 × Bytes) :=
  match readU64 bs with
  | .error e => .error e
  | .ok (height, r1) =>
  match readHash r1 with
  | .error e => .error e
  | .ok (parentID, r2) =>
  match readU64 r2 with
  | .error e => .error e
  | .ok (nonce, r3) =>
  match readU64 r3 with
  | .error e => .error e
  | .ok (timestamp, r4) =>
  match readHash r4 with
  | .error e => .error e
  | .ok (minerAddress, r5) =>
  match C.v1.dec r5 with
  | .error e => .error e
  | .ok (txns, r6) =>
  match C.v2.dec r6 with
  | .error e => .error e
  | .ok (v2txns, r7) =>
  match C.hs.dec r7 with
  | .error e => .error e
  | .ok (hashes, r8) =>
  match readKinds (txns.length + v2txns.length + hashes.length) r8 with
  | .error e => .error e
  | .ok (kinds, r9) =>
    -- the `counts` comparison and the reassembly loop
    match decodeShape env txns v2txns hashes kinds with
    | none => .error .invalid
    | some otxns =>
      .ok ({ height := height, parentID := parentID, nonce := nonce, timestamp := timestamp,
             minerAddress := minerAddress, transactions := otxns }, r9)

end
end Sia.Outline
