/-
  SiaModel.Gateway.Outline — model of `gateway/outline.go`: OutlineBlock,
  RemoveTransactions, commitment, ID, Missing, Complete, and the shape of the outline
  codec (`gateway/encoding.go`: transactions / multiproof transactions / hashes / kinds).

  Transactions are abstract (`Tx1`, `Tx2`); the model is parametrised by what the Go code
  uses of them: their Merkle leaf hash (`(*Transaction).MerkleLeafHash`,
  `(*V2Transaction).MerkleLeafHash`), their fees, the commitment root
  (`blake2b.Accumulator` over the state/miner leaf and the transaction hashes), the header
  ID and the block reward. Go maps keyed by hash become "last entry with that hash wins"
  list lookups. Core Lean only.
-/
namespace Sia.Outline

/-- what `outline.go` uses of its environment -/
structure Env (Tx1 Tx2 H Addr : Type) where
  leaf1 : Tx1 → H                 -- (*types.Transaction).MerkleLeafHash
  leaf2 : Tx2 → H                 -- (*types.V2Transaction).MerkleLeafHash
  fee1 : Tx1 → Nat                -- TotalFees
  fee2 : Tx2 → Nat                -- MinerFee
  commit : Addr → List H → H      -- accumulator root of cs.MerkleLeafHash(addr) :: hashes
  headerID : H → Nat → Nat → H → H -- BlockHeader{ParentID, Nonce, Timestamp, Commitment}.ID()
  reward : Nat                    -- cs.BlockReward()

/-- `types.Block` (v2), as far as the outline code reads or builds it -/
structure Block (Tx1 Tx2 H Addr : Type) where
  parentID : H
  nonce : Nat
  timestamp : Nat
  minerAddress : Addr
  minerValue : Nat
  height : Nat
  commitment : H
  txns : List Tx1
  v2txns : List Tx2

/-- `OutlineTransaction` -/
structure OTx (Tx1 Tx2 H : Type) where
  hash : H
  txn : Option Tx1
  v2txn : Option Tx2

/-- `V2BlockOutline` -/
structure BlockOutline (Tx1 Tx2 H Addr : Type) where
  height : Nat
  parentID : H
  nonce : Nat
  timestamp : Nat
  minerAddress : Addr
  transactions : List (OTx Tx1 Tx2 H)

section
variable {Tx1 Tx2 H Addr : Type} [DecidableEq H] (env : Env Tx1 Tx2 H Addr)

/-- `Block.ID` for a v2 block -/
def Block.id (b : Block Tx1 Tx2 H Addr) : H := env.headerID b.parentID b.nonce b.timestamp b.commitment

/-- `V2BlockOutline.commitment` -/
def BlockOutline.commitment (bo : BlockOutline Tx1 Tx2 H Addr) : H :=
  env.commit bo.minerAddress (bo.transactions.map (·.hash))

/-- `V2BlockOutline.ID` -/
def BlockOutline.id (bo : BlockOutline Tx1 Tx2 H Addr) : H :=
  env.headerID bo.parentID bo.nonce bo.timestamp (bo.commitment env)

/-- `V2BlockOutline.Missing` -/
def BlockOutline.missing (bo : BlockOutline Tx1 Tx2 H Addr) : List H :=
  (bo.transactions.filter fun t => t.txn.isNone && t.v2txn.isNone).map (·.hash)

/-- `RemoveTransactions` -/
def BlockOutline.removeTransactions (bo : BlockOutline Tx1 Tx2 H Addr) (txns : List Tx1) (v2txns : List Tx2) :
    BlockOutline Tx1 Tx2 H Addr :=
  let remove := txns.map env.leaf1 ++ v2txns.map env.leaf2
  { bo with transactions := bo.transactions.map fun t =>
      if t.hash ∈ remove then { t with txn := none, v2txn := none } else t }

/-- `OutlineBlock` -/
def outlineBlock (b : Block Tx1 Tx2 H Addr) (txns : List Tx1) (v2txns : List Tx2) : BlockOutline Tx1 Tx2 H Addr :=
  let otxns := b.txns.map (fun t => ({ hash := env.leaf1 t, txn := some t, v2txn := none } : OTx Tx1 Tx2 H)) ++
    b.v2txns.map (fun t => ({ hash := env.leaf2 t, txn := none, v2txn := some t } : OTx Tx1 Tx2 H))
  BlockOutline.removeTransactions env
    { height := b.height, parentID := b.parentID, nonce := b.nonce, timestamp := b.timestamp,
      minerAddress := b.minerAddress, transactions := otxns } txns v2txns

/-- Go map lookup after `for i := range txns { m[hash(txns[i])] = &txns[i] }`: the last
    entry with that hash -/
def lookupLast {T : Type} (hashOf : T → H) (pool : List T) (h : H) : Option T :=
  pool.reverse.find? (fun t => hashOf t = h)

/-- the pool-filling step of `Complete` for one outline transaction -/
def fillOne (txns : List Tx1) (v2txns : List Tx2) (t : OTx Tx1 Tx2 H) : OTx Tx1 Tx2 H :=
  if t.txn.isNone && t.v2txn.isNone then
    { t with txn := lookupLast env.leaf1 txns t.hash, v2txn := lookupLast env.leaf2 v2txns t.hash }
  else t

/-- `Complete`: the (possibly partial) block, the hashes still missing, and the outline
    as mutated in place -/
def BlockOutline.complete (bo : BlockOutline Tx1 Tx2 H Addr) (txns : List Tx1) (v2txns : List Tx2) :
    Block Tx1 Tx2 H Addr × List H × BlockOutline Tx1 Tx2 H Addr :=
  let filled := bo.transactions.map (fillOne env txns v2txns)
  -- `if ptxn.Transaction != nil {…} else if ptxn.V2Transaction != nil {…}`
  let v1 := filled.filterMap fun t => t.txn
  let v2 := filled.filterMap fun t => if t.txn.isNone then t.v2txn else none
  let bo' := { bo with transactions := filled }
  ({ parentID := bo.parentID, nonce := bo.nonce, timestamp := bo.timestamp,
     minerAddress := bo.minerAddress,
     minerValue := env.reward + (v1.map env.fee1).sum + (v2.map env.fee2).sum,
     height := bo.height, commitment := bo.commitment env, txns := v1, v2txns := v2 },
   bo'.missing, bo')

/-! ### the outline codec's shape -/

/-- what `encodeTo` writes after the header fields: present v1 transactions, present v2
    transactions (as one multiproof set), missing hashes, and the kinds vector -/
def encodeShape (bo : BlockOutline Tx1 Tx2 H Addr) : List Tx1 × List Tx2 × List H × List Nat :=
  let kindOf := fun (t : OTx Tx1 Tx2 H) => if t.txn.isSome then 0 else if t.v2txn.isSome then 1 else 2
  (bo.transactions.filterMap (·.txn),
   bo.transactions.filterMap (fun t => if t.txn.isNone then t.v2txn else none),
   (bo.transactions.filter fun t => t.txn.isNone && t.v2txn.isNone).map (·.hash),
   bo.transactions.map kindOf)

/-- `decodeFrom`'s reassembly loop; `none` = decoder error (bad kind or count mismatch) -/
def decodeShape : List Tx1 → List Tx2 → List H → List Nat → Option (List (OTx Tx1 Tx2 H))
  | ts, v2, hs, [] => if ts.isEmpty && v2.isEmpty && hs.isEmpty then some [] else none
  | ts, v2, hs, 0 :: ks =>
    match ts with
    | t :: ts' => (decodeShape ts' v2 hs ks).map (⟨env.leaf1 t, some t, none⟩ :: ·)
    | [] => none
  | ts, v2, hs, 1 :: ks =>
    match v2 with
    | t :: v2' => (decodeShape ts v2' hs ks).map (⟨env.leaf2 t, none, some t⟩ :: ·)
    | [] => none
  | ts, v2, hs, 2 :: ks =>
    match hs with
    | h :: hs' => (decodeShape ts v2 hs' ks).map (⟨h, none, none⟩ :: ·)
    | [] => none
  | _, _, _, _ :: _ => none

end
end Sia.Outline
