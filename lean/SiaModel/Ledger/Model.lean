/-!
# Ledger model

Hand-written executable model of `consensus/validation.go` (`ValidateBlock` and
everything below it) and `consensus/application.go` (`MidState.Apply*`), function by
function and check by check, **in the same order**, with

* hashes replaced by identities: element ids, addresses, keys, Merkle roots are
  opaque numbers supplied by the harness (which interns the real 32-byte values);
* authorisation replaced by its verdict: each input / revision / contract carries
  `addrOk` (revealed conditions hash to the parent's address) and `authOk`
  (signatures / policy satisfied), each storage proof carries `proofOk`;
* accumulator membership replaced by ledger membership (C04/C05 are the link);
* currency arithmetic on `Nat` with Go's behaviour made explicit: `addC`/`subC`
  panic exactly where unchecked `Add`/`Sub` would.

It is tied to the Go code by the `ledger-block` correspondence op.
-/
namespace Sia.Ledger

abbrev Id := Nat
abbrev Addr := Nat
abbrev Cur := Nat

/-- 2^128 -/
def curLimit : Nat := 340282366920938463463374607431768211456
/-- 2^64 -/
def u64Limit : Nat := 18446744073709551616

inductive Fail where
  | reject (msg : String)
  | panic (msg : String)
deriving Repr, DecidableEq

abbrev VM := Except Fail

def reject {α} (msg : String) : VM α := .error (.reject msg)
def gopanic {α} (msg : String) : VM α := .error (.panic msg)

/-- unchecked `Currency.Add` -/
def addC (a b : Cur) : VM Cur := if a + b < curLimit then pure (a + b) else gopanic "overflow"
/-- unchecked `Currency.Sub` -/
def subC (a b : Cur) : VM Cur := if b ≤ a then pure (a - b) else gopanic "underflow"
/-- unchecked `Currency.Mul64` -/
def mul64C (a : Cur) (n : Nat) : VM Cur := if a * n < curLimit then pure (a * n) else gopanic "overflow"

structure Params where
  initialCoinbase : Cur
  minimumCoinbase : Cur
  maturityDelay : Nat
  blocksPerYear : Nat          -- uint64(365*24h / BlockInterval)
  hfDevAddr : Nat
  devOldAddr : Addr
  devNewAddr : Addr
  hfTax : Nat
  hfStorageProof : Nat
  hfFoundation : Nat
  v2Allow : Nat
  v2Require : Nat
  ephemeralFix : Nat           -- HardforkV2.EphemeralOutputHeight
  voidAddr : Addr
deriving Repr, DecidableEq, Inhabited

structure ScOut where
  value : Cur
  addr : Addr
deriving Repr, DecidableEq, Inhabited

structure ScElem where
  id : Id
  value : Cur
  addr : Addr
  maturity : Nat
  leaf : Option Nat := none    -- none = UnassignedLeafIndex (ephemeral)
deriving Repr, DecidableEq, Inhabited

structure SfElem where
  id : Id
  value : Nat
  addr : Addr
  claimStart : Cur
  leaf : Option Nat := none
deriving Repr, DecidableEq, Inhabited

structure Fc1 where
  filesize : Nat
  root : Nat
  windowStart : Nat
  windowEnd : Nat
  payout : Cur
  valid : List ScOut
  missed : List ScOut
  unlockHash : Addr
  revNum : Nat
deriving Repr, DecidableEq, Inhabited

structure Fc1Elem where
  id : Id
  fc : Fc1
  leaf : Option Nat := none
deriving Repr, DecidableEq, Inhabited

structure Fc2 where
  capacity : Nat
  filesize : Nat
  root : Nat
  proofHeight : Nat
  expHeight : Nat
  renter : ScOut
  host : ScOut
  missedHost : Cur
  totalCollateral : Cur
  renterKey : Nat
  hostKey : Nat
  revNum : Nat
deriving Repr, DecidableEq, Inhabited

structure Fc2Elem where
  id : Id
  fc : Fc2
  leaf : Option Nat := none
deriving Repr, DecidableEq, Inhabited

/-- The consensus state as far as value, contracts and heights are concerned. -/
structure Ledger where
  P : Params
  child : Nat                      -- childHeight() of the state
  sc : List ScElem                 -- unspent siacoin elements
  sf : List SfElem
  fc1 : List Fc1Elem               -- unresolved v1 contracts
  fc2 : List Fc2Elem
  pool : Cur                       -- SiafundTaxRevenue
  fPrimary : Addr                  -- FoundationSubsidyAddress
  fFailsafe : Addr                 -- FoundationManagementAddress
  chain : List (Nat × Id)          -- (height, block id) of every ancestor (chain index elements)
deriving Repr, DecidableEq, Inhabited

-- ---------------------------------------------------------------- state.go helpers

def siacoins (n : Nat) : Cur := 1000000000000000000000000 * n

/-- `State.BlockReward` -/
def blockReward (L : Ledger) : Cur :=
  let sub := siacoins (L.child % 4294967296)
  if L.P.initialCoinbase < sub then L.P.minimumCoinbase
  else if L.P.initialCoinbase - sub < L.P.minimumCoinbase then L.P.minimumCoinbase
  else L.P.initialCoinbase - sub

def maturityHeight (L : Ledger) : Nat := L.child + L.P.maturityDelay

/-- `State.FoundationSubsidy`; the `/`/`%` by zero would be a Go panic. -/
def foundationSubsidy (L : Ledger) : VM (Option ScOut) :=
  if L.fPrimary = L.P.voidAddr then pure none
  else
    let perBlock := siacoins 30000
    let bpy := L.P.blocksPerYear
    let bpm := bpy / 12
    if bpm = 0 then
      -- `x % 0` panics in Go unless short-circuited by `childHeight < hardforkHeight`
      if L.child < L.P.hfFoundation then pure none else gopanic "integer divide by zero"
    else if L.child < L.P.hfFoundation ∨ (L.child - L.P.hfFoundation) % bpm ≠ 0 then pure none
    else if L.child = L.P.hfFoundation then do
      let v ← mul64C perBlock bpy
      pure (some { value := v, addr := L.fPrimary })
    else do
      let v ← mul64C perBlock bpm
      pure (some { value := v, addr := L.fPrimary })

/-- numerator of float64(0.039) over 2^58: 0.039 = 0x3FA3F7CED916872B -/
def taxNum : Nat := 5620492334958379
def taxDen : Nat := 144115188075855872

/-- `State.FileContractTax` -/
def fileContractTax (L : Ledger) (payout : Cur) : Cur :=
  let i := if L.child < L.P.hfTax then payout * taxNum / taxDen else payout * 39 / 1000
  (i - i % 10000) % curLimit

/-- `State.V2FileContractTax` (unchecked Add, Div64 25) -/
def v2Tax (fc : Fc2) : VM Cur := do
  let s ← addC fc.renter.value fc.host.value
  pure (s / 25)

def siafundCount : Nat := 10000

-- ---------------------------------------------------------------- MidState

structure ScDiff where
  e : ScElem
  created : Bool := false
  spent : Bool := false
deriving Repr, DecidableEq, Inhabited

structure SfDiff where
  e : SfElem
  created : Bool := false
  spent : Bool := false
deriving Repr, DecidableEq, Inhabited

structure Fc1Diff where
  e : Fc1Elem
  created : Bool := false
  revision : Option Fc1 := none
  resolved : Bool := false
  valid : Bool := false
deriving Repr, DecidableEq, Inhabited

inductive ResKind where
  | renewal | proof | expiration
deriving Repr, DecidableEq, Inhabited

structure Fc2Diff where
  e : Fc2Elem
  created : Bool := false
  revision : Option Fc2 := none
  resolution : Option ResKind := none
deriving Repr, DecidableEq, Inhabited

/-- which slice an id's diff lives in (Go keeps one `elements` map for all kinds) -/
inductive Kind where
  | sc | sf | fc1 | fc2 | att
deriving Repr, DecidableEq, Inhabited

structure Mid where
  base : Ledger
  elements : List (Id × Nat)       -- id ↦ index into the slice of its kind (first match wins, as a map)
  spends : List Id
  pool : Cur
  fPrimary : Addr
  fFailsafe : Addr
  sces : List ScDiff
  sfes : List SfDiff
  fces : List Fc1Diff
  v2fces : List Fc2Diff
  natts : Nat
deriving Repr, DecidableEq, Inhabited

def newMid (L : Ledger) : Mid :=
  { base := L, elements := [], spends := [], pool := L.pool, fPrimary := L.fPrimary, fFailsafe := L.fFailsafe,
    sces := [], sfes := [], fces := [], v2fces := [], natts := 0 }

def Mid.lookup (ms : Mid) (id : Id) : Option Nat := ms.elements.lookup id
def Mid.isSpent (ms : Mid) (id : Id) : Bool := ms.spends.contains id

def listSet {α} (l : List α) (i : Nat) (x : α) : List α := l.set i x

/-- `recordSiacoinElement` followed by a write of the whole diff -/
def Mid.putSc (ms : Mid) (id : Id) (f : ScDiff → ScDiff) : Mid :=
  match ms.lookup id with
  | some i => { ms with sces := listSet ms.sces i (f (ms.sces.getD i default)) }
  | none => { ms with sces := ms.sces ++ [f default], elements := ms.elements ++ [(id, ms.sces.length)] }

def Mid.putSf (ms : Mid) (id : Id) (f : SfDiff → SfDiff) : Mid :=
  match ms.lookup id with
  | some i => { ms with sfes := listSet ms.sfes i (f (ms.sfes.getD i default)) }
  | none => { ms with sfes := ms.sfes ++ [f default], elements := ms.elements ++ [(id, ms.sfes.length)] }

def Mid.putFc1 (ms : Mid) (id : Id) (f : Fc1Diff → Fc1Diff) : Mid :=
  match ms.lookup id with
  | some i => { ms with fces := listSet ms.fces i (f (ms.fces.getD i default)) }
  | none => { ms with fces := ms.fces ++ [f default], elements := ms.elements ++ [(id, ms.fces.length)] }

def Mid.putFc2 (ms : Mid) (id : Id) (f : Fc2Diff → Fc2Diff) : Mid :=
  match ms.lookup id with
  | some i => { ms with v2fces := listSet ms.v2fces i (f (ms.v2fces.getD i default)) }
  | none => { ms with v2fces := ms.v2fces ++ [f default], elements := ms.elements ++ [(id, ms.v2fces.length)] }

def Mid.createSc (ms : Mid) (id : Id) (o : ScOut) (maturity : Nat := 0) : Mid :=
  ms.putSc id fun d => { d with e := { id := id, value := o.value, addr := o.addr, maturity := maturity, leaf := none }, created := true }

def Mid.createImmatureSc (ms : Mid) (id : Id) (o : ScOut) : Mid :=
  ms.createSc id o (maturityHeight ms.base)

def Mid.spendSc (ms : Mid) (e : ScElem) : Mid :=
  let ms := ms.putSc e.id fun d => { d with e := e, spent := true }
  { ms with spends := e.id :: ms.spends }

def Mid.createSf (ms : Mid) (id : Id) (value : Nat) (addr : Addr) : Mid :=
  ms.putSf id fun d => { d with e := { id := id, value := value, addr := addr, claimStart := ms.pool, leaf := none }, created := true }

def Mid.spendSf (ms : Mid) (e : SfElem) : Mid :=
  let ms := ms.putSf e.id fun d => { d with e := e, spent := true }
  { ms with spends := e.id :: ms.spends }

def Mid.createFc1 (ms : Mid) (id : Id) (fc : Fc1) : VM Mid := do
  let ms := ms.putFc1 id fun d => { d with e := { id := id, fc := fc, leaf := none }, created := true }
  let pool ← addC ms.pool (fileContractTax ms.base fc.payout)
  pure { ms with pool := pool }

def Mid.reviseFc1 (ms : Mid) (e : Fc1Elem) (rev : Fc1) : Mid :=
  let rev := { rev with payout := e.fc.payout }
  ms.putFc1 e.id fun d =>
    if d.created then { d with e := { d.e with fc := rev } }
    else if d.revision.isSome then { d with revision := some rev }
    else { d with e := e, revision := some rev }

def Mid.resolveFc1 (ms : Mid) (e : Fc1Elem) (valid : Bool) : Mid :=
  let ms := ms.putFc1 e.id fun d =>
    -- a contract revised earlier in the block keeps its pre-block element
    if d.revision.isSome then { d with resolved := true, valid := valid }
    else { d with e := e, resolved := true, valid := valid }
  { ms with spends := e.id :: ms.spends }

def Mid.createFc2 (ms : Mid) (id : Id) (fc : Fc2) : VM Mid := do
  let ms := ms.putFc2 id fun d => { d with e := { id := id, fc := fc, leaf := none }, created := true }
  let tax ← v2Tax fc
  let pool ← addC ms.pool tax
  pure { ms with pool := pool }

def Mid.reviseFc2 (ms : Mid) (e : Fc2Elem) (rev : Fc2) : Mid :=
  ms.putFc2 e.id fun d =>
    if d.created then { d with e := { d.e with fc := rev } }
    else if d.revision.isSome then { d with revision := some rev }
    else { d with e := e, revision := some rev }

def Mid.resolveFc2 (ms : Mid) (e : Fc2Elem) (k : ResKind) : VM Mid :=
  match ms.lookup e.id with
  | some i =>
    if (ms.v2fces.getD i default).created then gopanic "consensus: resolved a newly-created v2 contract"
    else
      let ms := ms.putFc2 e.id fun d => { d with e := e, resolution := some k }
      pure { ms with spends := e.id :: ms.spends }
  | none =>
    let ms := ms.putFc2 e.id fun d => { d with e := e, resolution := some k }
    pure { ms with spends := e.id :: ms.spends }

-- ---------------------------------------------------------------- transactions (abstracted)

structure ScIn1 where
  parent : Id
  timelock : Nat       -- UnlockConditions.Timelock
  ucAddr : Addr        -- UnlockConditions.UnlockHash()
deriving Repr, DecidableEq, Inhabited

structure SfIn1 where
  parent : Id
  timelock : Nat
  ucAddr : Addr
  claimAddr : Addr
  claimId : Id         -- ParentID.ClaimOutputID()
deriving Repr, DecidableEq, Inhabited

structure Rev1 where
  parent : Id
  timelock : Nat
  ucAddr : Addr
  fc : Fc1
deriving Repr, DecidableEq, Inhabited

structure Proof1 where
  parent : Id
  proofOk : Bool       -- storageProofRoot(...) == FileMerkleRoot for the era's leaf (or leaf == nil)
  outIds : List Id     -- ParentID.ValidOutputID(i)
deriving Repr, DecidableEq, Inhabited

structure Supp1 where
  scIns : List ScElem
  sfIns : List SfElem
  revised : List Fc1Elem
  proofs : List (Fc1Elem × Id)    -- contract, window id
deriving Repr, DecidableEq, Inhabited

structure Txn1 where
  scIns : List ScIn1
  scOuts : List (Id × ScOut)
  fcs : List (Id × Fc1)
  revs : List Rev1
  proofs : List Proof1
  sfIns : List SfIn1
  sfOuts : List (Id × Nat × Addr)
  fees : List Cur
  foundation : Option (Option (Addr × Addr) × Bool)  -- arbitrary data with the foundation prefix: decoded update (none = undecodable), signed-by-current-key verdict
  sigsOk : Bool        -- validateSignatures verdict with duplicate-parent detection excluded
  weight : Nat
  supp : Supp1
deriving Repr, DecidableEq, Inhabited

structure ScIn2 where
  parent : ScElem
  addrOk : Bool        -- Policy.Address() == parent address
  authOk : Bool        -- Policy.Verify(...) == nil
deriving Repr, DecidableEq, Inhabited

structure SfIn2 where
  parent : SfElem
  claimAddr : Addr
  claimId : Id
  addrOk : Bool
  authOk : Bool
deriving Repr, DecidableEq, Inhabited

structure Rev2 where
  parent : Fc2Elem
  rev : Fc2
  sigCurOk : Bool      -- signatures of the revision verify under the keys of the contract as it currently stands
deriving Repr, DecidableEq, Inhabited

structure Renewal where
  finalRenter : ScOut
  finalHost : ScOut
  renterRollover : Cur
  hostRollover : Cur
  newContract : Fc2
  newId : Id
  newSigOk : Bool
  sigOk : Bool
deriving Repr, DecidableEq, Inhabited

inductive Res2 where
  | renewal (r : Renewal)
  | proof (indexHeight : Nat) (indexId : Id) (indexLeafOk : Bool) (proofOk : Bool)
  | expiration
deriving Repr, DecidableEq, Inhabited

structure Resolution2 where
  parent : Fc2Elem
  res : Res2
  renterOutId : Id
  hostOutId : Id
deriving Repr, DecidableEq, Inhabited

structure Txn2 where
  scIns : List ScIn2
  scOuts : List (Id × ScOut)
  sfIns : List SfIn2
  sfOuts : List (Id × Nat × Addr)
  fcs : List (Id × Fc2 × Bool)       -- contract, signatures ok
  revs : List Rev2
  ress : List Resolution2
  natts : Nat
  attsOk : Bool
  newFoundation : Option Addr
  fee : Cur
  weight : Nat
deriving Repr, DecidableEq, Inhabited

structure Block where
  txns1 : List Txn1
  v2 : Option (Nat × Bool × List Txn2)     -- height, commitment ok, transactions
  payouts : List (Id × ScOut)
  foundationOutId : Id
  expiring : List (Fc1Elem × List Id)      -- supplement ExpiringFileContracts with their MissedOutputID(i)
  headerOk : Bool                           -- ValidateHeader verdict (C13)
  blockId : Id
  maxWeight : Nat
  suppLenOk : Bool := true                  -- len(bs.Transactions) == len(b.Transactions)
deriving Repr, DecidableEq, Inhabited

-- ---------------------------------------------------------------- element lookups (state.go)

/-- the in-block diff of kind siacoin recorded under `id`, if any: `ms.elements` is shared by all
kinds, so the index is used only when it is in range and the diff found there carries `id` -/
def Mid.scDiff? (ms : Mid) (id : Id) : Option ScDiff :=
  match ms.lookup id with
  | some i => if i < ms.sces.length ∧ (ms.sces.getD i default).e.id = id then some (ms.sces.getD i default) else none
  | none => none

def Mid.sfDiff? (ms : Mid) (id : Id) : Option SfDiff :=
  match ms.lookup id with
  | some i => if i < ms.sfes.length ∧ (ms.sfes.getD i default).e.id = id then some (ms.sfes.getD i default) else none
  | none => none

def Mid.fc1Diff? (ms : Mid) (id : Id) : Option Fc1Diff :=
  match ms.lookup id with
  | some i => if i < ms.fces.length ∧ (ms.fces.getD i default).e.id = id then some (ms.fces.getD i default) else none
  | none => none

def Mid.scElement (ms : Mid) (ts : Supp1) (id : Id) : Option ScElem :=
  match ms.scDiff? id with
  | some d => some d.e
  | none => ts.scIns.find? (·.id = id)

def Mid.sfElement (ms : Mid) (ts : Supp1) (id : Id) : Option SfElem :=
  match ms.sfDiff? id with
  | some d => some d.e
  | none => ts.sfIns.find? (·.id = id)

def Fc1Diff.current (d : Fc1Diff) : Fc1Elem :=
  match d.revision with
  | some r => { d.e with fc := r }
  | none => d.e

def Mid.fc1Element (ms : Mid) (ts : Supp1) (id : Id) : Option Fc1Elem :=
  match ms.fc1Diff? id with
  | some d => some d.current
  | none =>
    match ts.revised.find? (·.id = id) with
    | some e => some e
    | none => (ts.proofs.find? (·.1.id = id)).map (·.1)

def Mid.windowId (ms : Mid) (ts : Supp1) (id : Id) (parentBlockId : Id) : Option Id :=
  match ms.fc1Diff? id with
  | some d =>
    if d.e.fc.windowStart = ms.base.child then some parentBlockId
    else (ts.proofs.find? (·.1.id = id)).map (·.2)
  | none => (ts.proofs.find? (·.1.id = id)).map (·.2)

-- ---------------------------------------------------------------- v1 validation

def sumOuts (l : List ScOut) : VM Cur := l.foldlM (fun s o => addC s o.value) 0

/-- checked running sum as in `validateCurrencyOverflow` -/
def sumChecked (vals : List Cur) : Option Cur :=
  vals.foldl (fun s v => match s with
    | some s => if s + v < curLimit then some (s + v) else none
    | none => none) (some 0)

def Txn1.currencyValues (t : Txn1) : List Cur :=
  t.scOuts.map (·.2.value) ++
  (t.fcs.map fun (_, fc) => [fc.payout] ++ fc.valid.map (·.value) ++ fc.missed.map (·.value)).flatten ++
  (t.revs.map fun r => r.fc.valid.map (·.value) ++ r.fc.missed.map (·.value)).flatten

def validateCurrencyOverflow (t : Txn1) : VM Unit :=
  if (sumChecked t.currencyValues).isNone ∨ t.sfOuts.any (fun (_, v, _) => v > 10000) then
    reject "transaction outputs exceed inputs"
  else pure ()

/-- the siafund-pool half of `validateCurrencyOverflow` (fix "contract tax overflows the siafund pool"):
the taxes of the transaction's new contracts, added one by one to the running pool, stay below 2^128 -/
def validateTaxPool (ms : Mid) (t : Txn1) : VM Unit :=
  if (sumChecked (ms.pool :: t.fcs.map (fun f => fileContractTax ms.base f.2.payout))).isNone then
    reject "transaction contract tax overflows the siafund pool"
  else pure ()

def validateMinimumValues (t : Txn1) : VM Unit :=
  if t.scOuts.any (·.2.value = 0) ∨ t.fcs.any (·.2.payout = 0) ∨ t.sfOuts.any (fun (_, v, _) => v = 0) ∨ t.fees.any (· = 0) then
    reject "transaction creates a zero-valued output"
  else pure ()

def validateSiacoins (ms : Mid) (t : Txn1) : VM Unit := do
  let inputSum ← t.scIns.foldlM (fun (sum : Cur) sci => do
    if sci.timelock > ms.base.child then reject "siacoin input has timelocked parent"
    else if ms.isSpent sci.parent then reject "siacoin input double-spends parent output"
    else match ms.scElement t.supp sci.parent with
      | none => reject "siacoin input spends nonexistent siacoin output"
      | some p =>
        if sci.ucAddr ≠ p.addr then reject "siacoin input claims incorrect unlock conditions"
        else if p.maturity > ms.base.child then reject "siacoin input has immature parent"
        -- checked: a parent listed twice is only detected later, by `validateSignatures`
        else if sum + p.value < curLimit then pure (sum + p.value) else reject "siacoin inputs overflow") 0
  let o1 ← t.scOuts.foldlM (fun s o => addC s o.2.value) 0
  let o2 ← t.fcs.foldlM (fun s f => addC s f.2.payout) o1
  -- miner fees are not covered by `validateCurrencyOverflow`: checked addition, overflow rejects
  let outputSum ← t.fees.foldlM (fun (s : Cur) f => if s + f < curLimit then pure (s + f) else reject "transaction outputs exceed inputs") o2
  if inputSum ≠ outputSum then reject "siacoin inputs do not equal outputs" else pure ()

def validateSiafunds (ms : Mid) (t : Txn1) : VM Unit := do
  let inputSum ← t.sfIns.foldlM (fun (sum : Nat) sfi => do
    if sfi.timelock > ms.base.child then reject "siafund input has timelocked parent"
    else if ms.isSpent sfi.parent then reject "siafund input double-spends parent output"
    else match ms.sfElement t.supp sfi.parent with
      | none => reject "siafund input spends nonexistent siafund output"
      | some p =>
        if sfi.ucAddr ≠ p.addr ∧
            ¬ (ms.base.child ≥ ms.base.P.hfDevAddr ∧ p.addr = ms.base.P.devOldAddr ∧ sfi.ucAddr = ms.base.P.devNewAddr) then
          reject "siafund input claims incorrect unlock conditions"
        else pure ((sum + p.value) % u64Limit)) 0
  let outputSum := t.sfOuts.foldl (fun s (_, v, _) => (s + v) % u64Limit) 0
  if inputSum ≠ outputSum then reject "siafund inputs do not equal outputs" else pure ()

def validateFileContracts (ms : Mid) (t : Txn1) (parentBlockId : Id) : VM Unit := do
  for (_, fc) in t.fcs do
    if fc.windowStart < ms.base.child then reject "file contract has window that starts in the past"
    else if fc.windowEnd ≤ fc.windowStart then reject "file contract has window that ends before it begins"
    else
      let validSum ← sumOuts fc.valid
      let missedSum ← sumOuts fc.missed
      if validSum ≠ missedSum then reject "file contract has valid payout that does not equal missed payout"
      else
        let want ← addC validSum (fileContractTax ms.base fc.payout)
        if fc.payout ≠ want then reject "file contract has payout with incorrect tax" else pure ()
  for r in t.revs do
    if r.timelock > ms.base.child then reject "file contract revision has timelocked parent"
    else if r.fc.windowStart < ms.base.child then reject "file contract revision has window that starts in the past"
    else if r.fc.windowEnd ≤ r.fc.windowStart then reject "file contract revision has window that ends before it begins"
    else if ms.isSpent r.parent then reject "file contract revision conflicts with previous proof or revision"
    else match ms.fc1Element t.supp r.parent with
      | none => reject "file contract revision revises nonexistent file contract"
      | some p =>
        if p.fc.windowStart < ms.base.child then reject "file contract revision revises contract after its proof window has opened"
        else if r.fc.revNum ≤ p.fc.revNum then reject "file contract revision does not have a higher revision number than its parent"
        else if r.ucAddr ≠ p.fc.unlockHash then reject "file contract revision claims incorrect unlock conditions"
        else
          let a ← sumOuts r.fc.valid
          let b ← sumOuts p.fc.valid
          if a ≠ b then reject "file contract revision changes valid payout sum"
          else
            let c ← sumOuts r.fc.missed
            let d ← sumOuts p.fc.missed
            if c ≠ d then reject "file contract revision changes missed payout sum" else pure ()
  if t.proofs.length > 0 ∧ (t.scOuts.length > 0 ∨ t.sfOuts.length > 0 ∨ t.fcs.length > 0 ∨ t.revs.length > 0) then
    reject "transaction contains both a storage proof and other outputs"
  else if ¬ (t.proofs.map (·.parent)).Nodup then reject "storage proof resolves contract already resolved"
  else
    for sp in t.proofs do
      if ms.isSpent sp.parent then reject "storage proof conflicts with previous proof"
      else match ms.fc1Element t.supp sp.parent with
        | none => reject "storage proof references nonexistent file contract"
        | some _ =>
          match ms.windowId t.supp sp.parent parentBlockId with
          | none => reject "storage proof cannot be submitted until after window start"
          | some _ => if sp.proofOk then pure () else reject "storage proof has root that does not match contract Merkle root"

def validateArbitraryData (ms : Mid) (t : Txn1) : VM Unit :=
  if ms.base.child < ms.base.P.hfFoundation then pure ()
  else match t.foundation with
    | none => pure ()
    | some (none, _) => reject "improperly-encoded FoundationAddressUpdate"
    | some (some (p, f), signed) =>
      if p = ms.base.P.voidAddr ∨ f = ms.base.P.voidAddr then reject "uninitialized FoundationAddressUpdate"
      else if signed then pure () else reject "unsigned FoundationAddressUpdate"

/-- the duplicate-parent detection of `validateSignatures` (the rest is `sigsOk`) -/
def validateSignatures (t : Txn1) : VM Unit :=
  let ids := t.scIns.map (·.parent) ++ t.sfIns.map (·.parent) ++ t.revs.map (·.parent)
  if ¬ ids.Nodup then reject "transaction spends or revises a parent more than once"
  else if t.sigsOk then pure () else reject "invalid signatures"

def validateTransaction (ms : Mid) (t : Txn1) (parentBlockId : Id) (maxWeight : Nat) : VM Unit := do
  if ms.base.child ≥ ms.base.P.v2Require then reject "v1 transactions are not allowed after v2 hardfork is complete"
  validateCurrencyOverflow t
  validateTaxPool ms t
  if t.weight > maxWeight then reject "transaction exceeds maximum block weight"
  validateMinimumValues t
  validateSiacoins ms t
  validateSiafunds ms t
  validateFileContracts ms t parentBlockId
  validateArbitraryData ms t
  validateSignatures t

-- ---------------------------------------------------------------- v1 application

def claimPortion (pool claimStart : Cur) (value : Nat) : VM Cur := do
  let d ← subC pool claimStart
  mul64C (d / siafundCount) value

def applyTransaction (ms : Mid) (t : Txn1) : VM Mid := do
  let mut ms := ms
  for sci in t.scIns do
    match ms.scElement t.supp sci.parent with
    | none => gopanic "missing SiacoinElement"
    | some e => ms := ms.spendSc e
  for (id, o) in t.scOuts do
    ms := ms.createSc id o
  for sfi in t.sfIns do
    match ms.sfElement t.supp sfi.parent with
    | none => gopanic "missing SiafundElement"
    | some e =>
      let c ← claimPortion ms.pool e.claimStart e.value
      ms := ms.spendSf e
      ms := ms.createImmatureSc sfi.claimId { value := c, addr := sfi.claimAddr }
  for (id, v, a) in t.sfOuts do
    ms := ms.createSf id v a
  for (id, fc) in t.fcs do
    ms ← ms.createFc1 id fc
  for r in t.revs do
    match ms.fc1Element t.supp r.parent with
    | none => gopanic "missing FileContractElement"
    | some e => ms := ms.reviseFc1 e r.fc
  for sp in t.proofs do
    match ms.fc1Element t.supp sp.parent with
    | none => gopanic "missing V1StorageProofSupplement"
    | some e =>
      ms := ms.resolveFc1 e true
      for (o, id) in e.fc.valid.zip sp.outIds do
        ms := ms.createImmatureSc id o
  -- Foundation update (note: compares the *parent* height with the hardfork height)
  if ms.base.child ≥ ms.base.P.hfFoundation + 1 then
    match t.foundation with
    | some (some (p, f), _) => ms := { ms with fPrimary := p, fFailsafe := f }
    | some (none, _) => ms := { ms with fPrimary := 0, fFailsafe := 0 }   -- undecodable update decodes to zero addresses; never reached after validation
    | none => pure ()
  pure ms

-- ---------------------------------------------------------------- v2 validation

def Fc2.values (fc : Fc2) : List Cur := [fc.renter.value, fc.host.value, fc.missedHost, fc.totalCollateral]

/-- `validateV2CurrencyOverflow` -/
def validateV2CurrencyOverflow (t : Txn2) : VM Unit :=
  let contract (fc : Fc2) : Option (List Cur) :=
    if fc.renter.value + fc.host.value < curLimit then some (fc.values ++ [(fc.renter.value + fc.host.value) / 25]) else none
  let parts : List (Option (List Cur)) :=
    [some (t.scOuts.map (·.2.value))] ++ t.fcs.map (fun (_, fc, _) => contract fc) ++ t.revs.map (fun r => contract r.rev) ++
    (t.ress.map fun r => match r.res with
      | .renewal rn => (contract rn.newContract).map (· ++ [rn.finalRenter.value, rn.finalHost.value, rn.renterRollover, rn.hostRollover])
      | _ => some []) ++ [some [t.fee]]
  if parts.any (·.isNone) then reject "transaction outputs exceed inputs"
  else if (sumChecked (parts.filterMap id).flatten).isNone ∨ t.sfOuts.any (fun (_, v, _) => v > 10000) then
    reject "transaction outputs exceed inputs"
  else pure ()

/-- the siafund-pool half of `validateV2CurrencyOverflow`: taxes of new contracts and of renewals' new contracts
(each `renter + host < 2^128` has been established by `validateV2CurrencyOverflow` at this point) -/
def validateV2TaxPool (ms : Mid) (t : Txn2) : VM Unit :=
  let taxes : List Cur := t.fcs.map (fun (_, fc, _) => (fc.renter.value + fc.host.value) / 25) ++
    t.ress.filterMap (fun r => match r.res with
      | .renewal rn => some ((rn.newContract.renter.value + rn.newContract.host.value) / 25)
      | _ => none)
  if (sumChecked (ms.pool :: taxes)).isNone then reject "transaction contract tax overflows the siafund pool"
  else pure ()

def Ledger.hasSc (L : Ledger) (e : ScElem) : Bool := L.sc.contains e
def Ledger.hasSf (L : Ledger) (e : SfElem) : Bool := L.sf.contains e
def Ledger.hasFc1 (L : Ledger) (e : Fc1Elem) : Bool := L.fc1.contains e
def Ledger.hasFc2 (L : Ledger) (e : Fc2Elem) : Bool := L.fc2.contains e

def validateEphemeralSc (ms : Mid) (sci : ScIn2) : VM Unit :=
  match ms.lookup sci.parent.id with
  | none => reject "spends nonexistent ephemeral output"
  | some j =>
    if j ≥ ms.sces.length ∨ ¬ (ms.sces.getD j default).created then reject "spends nonexistent ephemeral output"
    else if ms.base.child < ms.base.P.ephemeralFix then pure ()
    else
      let e := (ms.sces.getD j default).e
      if sci.parent.id ≠ e.id then reject "spends nonexistent ephemeral output"
      else if sci.parent.value ≠ e.value ∨ sci.parent.addr ≠ e.addr then reject "claims incorrect value for ephemeral output"
      else if sci.parent.maturity ≠ e.maturity then reject "claims incorrect maturity height for ephemeral output"
      else pure ()

def validateV2Siacoins (ms : Mid) (t : Txn2) : VM Unit := do
  let _ ← t.scIns.foldlM (fun (seen : List Id) sci => do
    if ms.isSpent sci.parent.id then reject "siacoin input double-spends parent output"
    else if seen.contains sci.parent.id then reject "siacoin input double-spends parent output (previously spent by input)"
    else if sci.parent.maturity > ms.base.child then reject "siacoin input has immature parent"
    else
      (match sci.parent.leaf with
       | none => validateEphemeralSc ms sci
       | some _ => if ms.base.hasSc sci.parent then pure () else reject "siacoin input spends output not present in the accumulator")
      if ¬ sci.addrOk then reject "claims incorrect policy for parent address"
      else if ¬ sci.authOk then reject "failed to satisfy spend policy"
      else pure (sci.parent.id :: seen)) []
  -- checked: below the ephemeral fix height claimed ephemeral values are not bounded by the supply
  let inputSum0 ← t.scIns.foldlM (fun (s : Cur) sci => if s + sci.parent.value < curLimit then pure (s + sci.parent.value) else reject "siacoin inputs overflow") 0
  let outputSum0 ← t.scOuts.foldlM (fun (s : Cur) o => if o.2.value = 0 then reject "siacoin output has zero value" else addC s o.2.value) 0
  let outputSum1 ← t.fcs.foldlM (fun s (_, fc, _) => do
    let a ← addC s fc.renter.value
    let b ← addC a fc.host.value
    let tax ← v2Tax fc
    addC b tax) outputSum0
  let (inputSum, outputSum2) ← t.ress.foldlM (fun ((i, o) : Cur × Cur) r => match r.res with
    | .renewal rn => do
      -- checked: the rollovers are bounded by the overflow pre-check, their sum with the inputs is not
      let i1 ← if i + rn.renterRollover < curLimit then pure (i + rn.renterRollover) else reject "siacoin inputs overflow"
      let i2 ← if i1 + rn.hostRollover < curLimit then pure (i1 + rn.hostRollover) else reject "siacoin inputs overflow"
      let a ← addC o rn.newContract.renter.value
      let b ← addC a rn.newContract.host.value
      let tax ← v2Tax rn.newContract
      let c ← addC b tax
      pure (i2, c)
    | _ => pure (i, o)) (inputSum0, outputSum1)
  let outputSum ← addC outputSum2 t.fee
  if inputSum ≠ outputSum then reject "siacoin inputs do not equal outputs" else pure ()

def validateEphemeralSf (ms : Mid) (sfi : SfIn2) : VM Unit :=
  match ms.lookup sfi.parent.id with
  | none => reject "spends nonexistent ephemeral output"
  | some j =>
    if j ≥ ms.sfes.length ∨ ¬ (ms.sfes.getD j default).created then reject "spends nonexistent ephemeral output"
    else if ms.base.child ≥ ms.base.P.ephemeralFix then reject "spends ephemeral output"
    -- legacy window: the claimed record is unchecked, but its claim must be computable
    else if sfi.parent.claimStart > ms.pool then reject "claims invalid claim start for ephemeral output"
    else if (ms.pool - sfi.parent.claimStart) / siafundCount * sfi.parent.value ≥ curLimit then reject "claims invalid value for ephemeral output"
    else pure ()

def validateV2Siafunds (ms : Mid) (t : Txn2) : VM Unit := do
  let _ ← t.sfIns.foldlM (fun (seen : List Id) sfi => do
    if ms.isSpent sfi.parent.id then reject "siafund input double-spends parent output"
    else if seen.contains sfi.parent.id then reject "siafund input double-spends parent output (previously spent by input)"
    else
      (match sfi.parent.leaf with
       | none => validateEphemeralSf ms sfi
       | some _ => if ms.base.hasSf sfi.parent then pure () else reject "siafund input spends output not present in the accumulator")
      if ¬ sfi.addrOk then reject "claims incorrect policy for parent address"
      else if ¬ sfi.authOk then reject "failed to satisfy spend policy"
      else pure (sfi.parent.id :: seen)) []
  let inputSum := t.sfIns.foldl (fun s i => (s + i.parent.value) % u64Limit) 0
  let outputSum ← t.sfOuts.foldlM (fun (s : Nat) (_, v, _) => if v = 0 then reject "siafund output has zero value" else pure ((s + v) % u64Limit)) 0
  if inputSum ≠ outputSum then reject "siafund inputs do not equal outputs" else pure ()

def cmpGt (a b : Cur) : Bool := a > b

/-- `validateContract` closure, signatures as a verdict -/
def validateContract2 (ms : Mid) (fc : Fc2) (sigOk : Bool) : VM Unit :=
  if fc.filesize > fc.capacity then reject "has filesize exceeding capacity"
  else if fc.proofHeight < ms.base.child then reject "has proof height that has already passed"
  else if fc.expHeight ≤ fc.proofHeight then reject "leaves no time between proof height and expiration height"
  else if fc.renter.value = 0 ∧ fc.host.value = 0 then reject "has zero value"
  else if fc.missedHost > fc.host.value then reject "has missed host value exceeding valid host value"
  else if fc.totalCollateral > fc.host.value then reject "has total collateral exceeding valid host value"
  else if sigOk then pure () else reject "has invalid signature"

def validateParent2 (ms : Mid) (revised resolved : List Id) (e : Fc2Elem) : VM Unit :=
  if ms.isSpent e.id then reject "has already been resolved in transaction"
  else if revised.contains e.id then reject "has already been revised by contract revision"
  else if resolved.contains e.id then reject "has already been resolved by contract resolution"
  else if ¬ ms.base.hasFc2 e then reject "is not present in the accumulator"
  else pure ()

def validateRevision2 (ms : Mid) (e : Fc2Elem) (rev : Fc2) (sigCurOk : Bool) : VM Unit := do
  let cur := match ms.lookup e.id with
    | some i => match (ms.v2fces.getD i default).revision with
      | some r => r
      | none => e.fc
    | none => e.fc
  let curSum ← addC cur.renter.value cur.host.value
  let revSum ← addC rev.renter.value rev.host.value
  if rev.capacity < cur.capacity then reject "decreases capacity"
  else if rev.filesize > rev.capacity then reject "has filesize exceeding capacity"
  else if cur.proofHeight < ms.base.child then reject "revises contract after its proof window has opened"
  else if rev.revNum ≤ cur.revNum then reject "does not increase revision number"
  else if revSum ≠ curSum then reject "modifies output sum"
  else if rev.missedHost > cur.missedHost then reject "has missed host value exceeding old value"
  else if ms.base.child ≥ ms.base.P.ephemeralFix ∧ rev.missedHost > rev.host.value then reject "has missed host value exceeding valid host value"
  else if rev.totalCollateral ≠ cur.totalCollateral then reject "modifies total collateral"
  else if rev.proofHeight < ms.base.child then reject "has proof height that has already passed"
  else if rev.expHeight ≤ rev.proofHeight then reject "leaves no time between proof height and expiration height"
  else if sigCurOk then pure () else reject "has invalid signature"

def validateV2FileContracts (ms : Mid) (t : Txn2) : VM Unit := do
  for (_, fc, sigOk) in t.fcs do
    validateContract2 ms fc sigOk
  let revised ← t.revs.foldlM (fun (revised : List Id) r => do
    validateParent2 ms revised [] r.parent
    if r.parent.fc.proofHeight < ms.base.child then reject "file contract revision cannot be applied to contract after proof height"
    validateRevision2 ms r.parent r.rev r.sigCurOk
    pure (r.parent.id :: revised)) []
  let _ ← t.ress.foldlM (fun (resolved : List Id) r => do
    validateParent2 ms revised resolved r.parent
    let fc := r.parent.fc
    match r.res with
    | .renewal rn =>
      if fc.renterKey ≠ rn.newContract.renterKey then reject "file contract renewal changes renter public key"
      else if fc.hostKey ≠ rn.newContract.hostKey then reject "file contract renewal changes host public key"
      else
        let a ← addC rn.finalRenter.value rn.renterRollover
        let b ← addC a rn.finalHost.value
        let totalPayout ← addC b rn.hostRollover
        let existing ← addC fc.renter.value fc.host.value
        if totalPayout ≠ existing then reject "renewal payout does not match existing contract payout"
        else
          let c ← addC rn.newContract.renter.value rn.newContract.host.value
          let tax ← v2Tax rn.newContract
          let cost ← addC c tax
          let rollover ← addC rn.renterRollover rn.hostRollover
          if rollover > cost then reject "file contract renewal has rollover exceeding new contract cost"
          else
            validateContract2 ms rn.newContract rn.newSigOk
            if rn.sigOk then pure () else reject "file contract renewal has invalid signature"
    | .proof ih iid leafOk proofOk =>
      if ms.base.child < fc.proofHeight then reject "file contract storage proof cannot be submitted until after proof height"
      else if ih ≠ fc.proofHeight then reject "file contract storage proof has ProofIndex height that does not match contract ProofHeight"
      else if ¬ (leafOk ∧ ms.base.chain.contains (ih, iid)) then reject "file contract storage proof has invalid history proof"
      else if ¬ proofOk then reject "file contract storage proof has root that does not match contract Merkle root"
      else pure ()
    | .expiration =>
      if ms.base.child ≤ fc.expHeight then reject "file contract expiration cannot be submitted until after expiration height"
      else pure ()
    pure (r.parent.id :: resolved)) []
  pure ()

def validateFoundationUpdate (ms : Mid) (t : Txn2) : VM Unit :=
  match t.newFoundation with
  | none => pure ()
  | some _ =>
    if t.scIns.any (fun i => i.parent.addr = ms.base.fFailsafe) then pure ()
    else reject "transaction changes Foundation address, but does not spend an input controlled by current address"

def validateV2Transaction (ms : Mid) (t : Txn2) (maxWeight : Nat) : VM Unit := do
  if ms.base.child < ms.base.P.v2Allow then reject "v2 transactions are not allowed until v2 hardfork begins"
  validateV2CurrencyOverflow t
  validateV2TaxPool ms t
  if t.weight = 0 then reject "transactions cannot be empty"
  if t.weight > maxWeight then reject "transaction exceeds maximum block weight"
  validateV2Siacoins ms t
  validateV2Siafunds ms t
  validateV2FileContracts ms t
  if ¬ t.attsOk then reject "attestation invalid"
  validateFoundationUpdate ms t

-- ---------------------------------------------------------------- v2 application

def applyV2Transaction (ms : Mid) (t : Txn2) : VM Mid := do
  let mut ms := ms
  for sci in t.scIns do
    ms := ms.spendSc sci.parent
  for (id, o) in t.scOuts do
    ms := ms.createSc id o
  for sfi in t.sfIns do
    ms := ms.spendSf sfi.parent
    let c ← claimPortion ms.pool sfi.parent.claimStart sfi.parent.value
    ms := ms.createImmatureSc sfi.claimId { value := c, addr := sfi.claimAddr }
  for (id, v, a) in t.sfOuts do
    ms := ms.createSf id v a
  for (id, fc, _) in t.fcs do
    ms ← ms.createFc2 id fc
  for r in t.revs do
    ms := ms.reviseFc2 r.parent r.rev
  for r in t.ress do
    let fc := r.parent.fc
    match r.res with
    | .renewal rn =>
      ms ← ms.resolveFc2 r.parent .renewal
      ms ← ms.createFc2 rn.newId rn.newContract
      ms := ms.createImmatureSc r.renterOutId rn.finalRenter
      ms := ms.createImmatureSc r.hostOutId rn.finalHost
    | .proof _ _ _ _ =>
      ms ← ms.resolveFc2 r.parent .proof
      ms := ms.createImmatureSc r.renterOutId fc.renter
      ms := ms.createImmatureSc r.hostOutId fc.host
    | .expiration =>
      ms ← ms.resolveFc2 r.parent .expiration
      ms := ms.createImmatureSc r.renterOutId fc.renter
      ms := ms.createImmatureSc r.hostOutId { value := fc.missedHost, addr := fc.host.addr }
  ms := { ms with natts := ms.natts + t.natts }
  match t.newFoundation with
  | some a =>
    ms := { ms with fPrimary := a }
    if a ≠ ms.base.P.voidAddr then ms := { ms with fFailsafe := a }
  | none => pure ()
  pure ms

-- ---------------------------------------------------------------- blocks

def validateMinerPayouts (L : Ledger) (b : Block) : VM Unit := do
  let fees1 := (b.txns1.map (·.fees)).flatten
  if fees1.any (· = 0) then reject "transaction fee has zero value"
  let e1 ← match sumChecked (blockReward L :: fees1) with
    | some s => pure s
    | none => reject "transaction fees overflow"
  let expected ← match b.v2 with
    | some (_, _, txns) =>
      match sumChecked (e1 :: txns.map (·.fee)) with
      | some s => if b.payouts.length ≠ 1 then reject "block must have exactly one miner payout" else pure s
      | none => reject "v2 transaction fees overflow"
    | none => pure e1
  if b.payouts.any (·.2.value = 0) then reject "miner payout has zero value"
  match sumChecked (b.payouts.map (·.2.value)) with
  | none => reject "miner payouts overflow"
  | some sum => if sum ≠ expected then reject "miner payout sum does not match block reward + fees" else pure ()

def validateOrphan (L : Ledger) (b : Block) : VM Unit := do
  let w := (b.txns1.map (·.weight)).foldl (fun a x => (a + x) % u64Limit) 0
  let w := (match b.v2 with | some (_, _, ts) => ts.map Txn2.weight | none => []).foldl (fun a x => (a + x) % u64Limit) w
  if w > b.maxWeight then reject "block exceeds maximum weight"
  validateMinerPayouts L b
  if ¬ b.headerOk then reject "block has invalid header"
  match b.v2 with
  | some (h, _, _) => if h ≠ L.child then reject "block height does not increment parent height" else pure ()
  | none => pure ()

def validateSupplement (L : Ledger) (b : Block) : VM Unit := do
  if L.child ≥ L.P.v2Require ∧ (b.txns1.length ≠ 0 ∨ b.expiring.length ≠ 0) then
    reject "v1 block supplements are not allowed after v2 hardfork is complete"
  if ¬ b.suppLenOk then reject "incorrect number of transactions"
  for t in b.txns1 do
    if ¬ t.supp.scIns.all L.hasSc then reject "siacoin element is not present in the accumulator"
    if ¬ t.supp.sfIns.all L.hasSf then reject "siafund element is not present in the accumulator"
    if ¬ t.supp.revised.all L.hasFc1 then reject "revised file contract is not present in the accumulator"
    if ¬ t.supp.proofs.all (fun p => L.hasFc1 p.1) then reject "valid file contract is not present in the accumulator"
  if ¬ b.expiring.all (fun p => L.hasFc1 p.1) then reject "expiring file contract is not present in the accumulator"

/-- `ValidateBlock`: returns the mid-state reached after the last transaction. -/
def validateBlock (L : Ledger) (b : Block) (parentBlockId : Id) : VM Mid := do
  validateOrphan L b
  validateSupplement L b
  match b.v2 with
  | some (_, commitOk, _) => if ¬ commitOk then reject "commitment hash mismatch"
  | none => pure ()
  let mut ms := newMid L
  for t in b.txns1 do
    validateTransaction ms t parentBlockId b.maxWeight
    ms ← applyTransaction ms t
  match b.v2 with
  | some (_, _, txns) =>
    for t in txns do
      validateV2Transaction ms t b.maxWeight
      ms ← applyV2Transaction ms t
  | none => pure ()
  pure ms

/-- `MidState.ApplyBlock` -/
def midApplyBlock (ms : Mid) (b : Block) : VM Mid := do
  if ms.base.child ≥ ms.base.P.v2Require ∧ (b.txns1.length ≠ 0 ∨ b.expiring.length ≠ 0) then
    gopanic "consensus: block supplement must be empty after v2 hardfork"
  let mut ms := ms
  for t in b.txns1 do
    ms ← applyTransaction ms t
  match b.v2 with
  | some (_, _, txns) =>
    for t in txns do
      ms ← applyV2Transaction ms t
  | none => pure ()
  for (id, o) in b.payouts do
    ms := ms.createImmatureSc id o
  match ← foundationSubsidy ms.base with
  | some o => ms := ms.createImmatureSc b.foundationOutId o
  | none => pure ()
  for (e, ids) in b.expiring do
    if ms.isSpent e.id then pure ()
    else
      ms := ms.resolveFc1 e false
      for (o, id) in e.fc.missed.zip ids do
        ms := ms.createImmatureSc id o
  pure ms

/-- fold the diffs of a mid-state into the ledger (what a full node's store does with an ApplyUpdate;
leaf indices are assigned by the accumulator and supplied by the harness when it compares). -/
def Mid.commit (ms : Mid) (blockId : Id) : Ledger :=
  let L := ms.base
  let sc := L.sc.filter (fun e => ¬ ms.sces.any (fun d => d.e.id = e.id))
  let sc := sc ++ (ms.sces.filter (fun d => ¬ d.spent)).map (·.e)
  let sf := L.sf.filter (fun e => ¬ ms.sfes.any (fun d => d.e.id = e.id))
  let sf := sf ++ (ms.sfes.filter (fun d => ¬ d.spent)).map (·.e)
  let fc1 := L.fc1.filter (fun e => ¬ ms.fces.any (fun d => d.e.id = e.id))
  let fc1 := fc1 ++ (ms.fces.filter (fun d => ¬ d.resolved)).map (·.current)
  let fc2 := L.fc2.filter (fun e => ¬ ms.v2fces.any (fun d => d.e.id = e.id))
  let fc2 := fc2 ++ (ms.v2fces.filter (fun d => d.resolution.isNone)).map
    (fun d => match d.revision with | some r => { d.e with fc := r } | none => d.e)
  { L with child := L.child + 1, sc := sc, sf := sf, fc1 := fc1, fc2 := fc2, pool := ms.pool,
           fPrimary := ms.fPrimary, fFailsafe := ms.fFailsafe, chain := L.chain ++ [(L.child, blockId)] }

/-- `ApplyBlock` (ledger part) -/
def applyBlock (L : Ledger) (b : Block) : VM (Ledger × Mid) := do
  let ms ← midApplyBlock (newMid L) b
  pure (ms.commit b.blockId, ms)

end Sia.Ledger
