import SiaModel.Gen.CodeRhp4
/-!
  Hand-written model of the v2 file-contract rules of `consensus/validation.go`
  (`validateV2FileContracts`: the closures `validateContract`, `validateRevision`
  and the arithmetic part of the renewal branch), signatures excluded.  The Go
  closures cannot be translated mechanically; this model is tied to the code by the
  correspondence run (real `ValidateV2Transaction` vs these predicates).

  Currency arithmetic uses the generated (`Gen.Types.Currency.*`) definitions, so an
  unchecked `Add` that would panic in Go is an `Except.error` here.
-/
namespace Sia.Ledger
open Gen.Types

/-- `validateContract` without the signature check. `none` = accepted, `some msg` = rejected. -/
def validateContract (childHeight : Nat) (fc : V2FileContract) : Option String :=
  if fc.Filesize > fc.Capacity then some "filesize exceeding capacity"
  else if fc.ProofHeight < childHeight then some "proof height has already passed"
  else if fc.ExpirationHeight ≤ fc.ProofHeight then some "no time between proof and expiration height"
  else if fc.RenterOutput.Value.IsZero && fc.HostOutput.Value.IsZero then some "zero value"
  else if fc.MissedHostValue.Cmp fc.HostOutput.Value > 0 then some "missed host value exceeding valid host value"
  else if fc.TotalCollateral.Cmp fc.HostOutput.Value > 0 then some "total collateral exceeding valid host value"
  else none

/-- `validateRevision` without the signature check; `cur` is the contract as it currently stands. -/
def validateRevision (childHeight ephemeralOutputHeight : Nat) (cur rev : V2FileContract) : Except String (Option String) := do
  let curOutputSum ← cur.RenterOutput.Value.Add cur.HostOutput.Value
  let revOutputSum ← rev.RenterOutput.Value.Add rev.HostOutput.Value
  if rev.Capacity < cur.Capacity then pure (some "decreases capacity")
  else if rev.Filesize > rev.Capacity then pure (some "filesize exceeding capacity")
  else if cur.ProofHeight < childHeight then pure (some "revises contract after its proof window has opened")
  else if rev.RevisionNumber ≤ cur.RevisionNumber then pure (some "does not increase revision number")
  else if !(revOutputSum.Equals curOutputSum) then pure (some "modifies output sum")
  else if rev.MissedHostValue.Cmp cur.MissedHostValue > 0 then pure (some "missed host value exceeding old value")
  else if childHeight ≥ ephemeralOutputHeight && rev.MissedHostValue.Cmp rev.HostOutput.Value > 0 then
    pure (some "missed host value exceeding valid host value")
  else if rev.TotalCollateral ≠ cur.TotalCollateral then pure (some "modifies total collateral")
  else if rev.ProofHeight < childHeight then pure (some "proof height has already passed")
  else if rev.ExpirationHeight ≤ rev.ProofHeight then pure (some "no time between proof and expiration height")
  else pure none

/-- the renewal branch of `validateV2FileContracts` without signatures: `fc` is the parent contract. -/
def validateRenewal (childHeight : Nat) (fc : V2FileContract) (r : V2FileContractRenewal) : Except String (Option String) := do
  if fc.RenterPublicKey ≠ r.NewContract.RenterPublicKey then pure (some "changes renter public key")
  else if fc.HostPublicKey ≠ r.NewContract.HostPublicKey then pure (some "changes host public key")
  else
    let t1 ← r.FinalRenterOutput.Value.Add r.RenterRollover
    let t2 ← t1.Add r.FinalHostOutput.Value
    let totalPayout ← t2.Add r.HostRollover
    let existingPayout ← fc.RenterOutput.Value.Add fc.HostOutput.Value
    if totalPayout ≠ existingPayout then pure (some "renewal payout does not match existing contract payout")
    else
      let s ← r.NewContract.RenterOutput.Value.Add r.NewContract.HostOutput.Value
      let tax ← Gen.Consensus.State.V2FileContractTax {} r.NewContract
      let newContractCost ← s.Add tax
      let rollover ← r.RenterRollover.Add r.HostRollover
      if rollover.Cmp newContractCost > 0 then pure (some "rollover exceeding new contract cost")
      else match validateContract childHeight r.NewContract with
        | some e => pure (some ("initial revision " ++ e))
        | none => pure none

end Sia.Ledger
