/-!
# C09 — aliasing model: who points to which buffer, and who writes through it

An explicit heap of backing arrays. A Go slice or pointer is an `Option Addr`
(`none` = nil); `slices.Clone`, element `Copy`, `make`, `&copy` allocate a fresh
address from a bump allocator (`Heap.next`), so "allocated during the call" is the
arithmetic fact `base ≤ a` for the `next` of the heap the call started from.

Mirrors, at the granularity of addresses:

* `types.StateElement.{Share, Move, Copy}` (`types/types.go`);
* the element hand-offs of `consensus/application.go`:
  `ApplyTransaction`/`ApplyV2Transaction`/`MidState.ApplyBlock` pass elements with
  `.Share()` to `spend*/revise*/resolve*`, which store `.Copy()` in the diff records;
  `create*` stores a fresh literal (`LeafIndex: UnassignedLeafIndex`, nil proof);
* `forEachAppliedElement`/`forEachRevertedElement` (pointers into the records),
  `ElementAccumulator.applyBlock`/`revertBlock` (`Move()` guards, then `updateLeaves`
  and `addLeaves` writing the proofs IN PLACE through those pointers), the `Move()` in
  `RevertBlock`, and `ApplyUpdate/RevertUpdate.UpdateElementProof` (`consensus/merkle.go`);
* `V2Transaction.DeepCopy` and `V2TransactionsMultiproof.EncodeTo`'s copy-before-strip
  (`types/types.go`, `types/multiproof.go`) on a *footprint*: the list of slice/pointer
  locations of a transaction with their addresses and containers.

Hash values and Merkle arithmetic are irrelevant to aliasing: the new contents of a
written buffer come from an uninterpreted `Oracle`; every theorem holds for all oracles.
-/
namespace Sia.Alias

/-- addresses of backing arrays -/
scoped notation "Addr" => Nat
/-- a word of a backing array (a hash, a byte, a struct slot: the content is opaque) -/
scoped notation "Word" => Nat

/-- the heap: contents of every allocated backing array and the bump pointer -/
structure Heap where
  cells : Addr → Option (List Word)
  next : Addr

/-- machine state: the heap and the log of addresses written through an existing pointer
    (filling a fresh allocation is not logged: it cannot be observed by anyone else) -/
structure St where
  heap : Heap
  written : List Addr

def St.alloc (s : St) (buf : List Word) : Addr × St :=
  (s.heap.next,
   { s with heap := { cells := fun a => if a = s.heap.next then some buf else s.heap.cells a,
                      next := s.heap.next + 1 } })

def St.read (s : St) (a : Addr) : List Word := (s.heap.cells a).getD []

/-- write through an existing pointer: new contents for the whole array -/
def St.write (s : St) (a : Addr) (buf : List Word) : St :=
  { heap := { s.heap with cells := fun x => if x = a then some buf else s.heap.cells x },
    written := a :: s.written }

/-! ## `types.StateElement` -/

inductive Panic where
  | moveShared        -- "Move called on shared StateElement"
  | resolvedCreated   -- "consensus: resolved a newly-created v2 contract"
  | missing           -- "missing SiacoinElement" etc.
  | ephemeral         -- "cannot update an ephemeral element"
deriving DecidableEq, Repr

structure StateElement where
  leafIndex : Option Nat      -- `none` = `UnassignedLeafIndex`
  proof : Option Addr         -- `MerkleProof` (`none` = nil slice)
  shared : Bool
deriving DecidableEq, Repr

/-- `Share`: a shallow copy with the flag set -/
def StateElement.share (e : StateElement) : StateElement := { e with shared := true }

/-- `Move`: a shallow copy; panics on a shared element -/
def StateElement.move (e : StateElement) : Except Panic StateElement :=
  if e.shared then .error .moveShared else .ok e

/-- `Copy`: `slices.Clone(se.MerkleProof)`, flag cleared. Cloning nil gives nil. -/
def StateElement.copy (e : StateElement) (s : St) : StateElement × St :=
  match e.proof with
  | none => ({ e with shared := false }, s)
  | some a =>
    let (a', s') := s.alloc (s.read a)
    ({ e with proof := some a', shared := false }, s')

/-! ## diff records of the MidState -/

inductive Kind where
  | sc | sf | fc | v2fc | ae | cie
deriving DecidableEq, Repr

structure Diff where
  kind : Kind
  id : Nat
  elem : StateElement
  created : Bool := false
  spent : Bool := false
  hasRevision : Bool := false
  resolved : Bool := false
deriving Repr

abbrev Mid := List Diff

def emptyDiff (k : Kind) (id : Nat) : Diff :=
  { kind := k, id := id, elem := { leafIndex := none, proof := none, shared := false } }

def Mid.find? (ms : Mid) (k : Kind) (id : Nat) : Option Diff :=
  List.find? (fun d => d.kind = k ∧ d.id = id) ms

/-- `record*Element` followed by an update of the record: the existing record of
    `(k, id)`, or a new empty one appended, replaced by `f` of it -/
def Mid.put (ms : Mid) (k : Kind) (id : Nat) (f : Diff → Diff) : Mid :=
  if ms.any (fun d => d.kind = k ∧ d.id = id) then
    ms.map (fun d => if d.kind = k ∧ d.id = id then f d else d)
  else ms ++ [f (emptyDiff k id)]

/-- where the element handed to `spend*/revise*/resolve*` comes from -/
inductive Src where
  /-- v2: the parent carried by the transaction itself (`sci.Parent`, `fcr.Parent`) -/
  | given (e : StateElement)
  /-- v1: `ms.siacoinElement(ts, id)` etc.: the record of an earlier transaction of the
      block if there is one, else the supplement's element; absent → panic -/
  | lookup (supplement : Option StateElement)

/-- one element hand-off of `ApplyTransaction` / `ApplyV2Transaction` / `MidState.ApplyBlock` -/
inductive Op where
  | spend (k : Kind) (id : Nat) (src : Src)      -- spendSiacoinElement / spendSiafundElement
  | create (k : Kind) (id : Nat)                  -- create*Element (outputs, contracts, attestations, payouts)
  | revise (k : Kind) (id : Nat) (src : Src)     -- revise(V2)FileContractElement
  | resolveV1 (id : Nat) (src : Src)              -- resolveFileContractElement
  | resolveV2 (id : Nat) (src : Src)              -- resolveV2FileContractElement

def Mid.source (ms : Mid) (k : Kind) (id : Nat) : Src → Except Panic StateElement
  | .given e => .ok e
  | .lookup supp =>
    match ms.find? k id with
    | some d => .ok d.elem
    | none => match supp with
      | some e => .ok e
      | none => .error .missing

/-- the element is passed with `.Share()`; the callee stores `.Copy()` -/
def applyOp (ms : Mid) (s : St) : Op → Except Panic (Mid × St)
  | .spend k id src => do
    let e ← ms.source k id src
    let (c, s') := e.share.copy s
    pure (ms.put k id (fun d => { d with elem := c, spent := true }), s')
  | .create k id =>
    pure (ms.put k id (fun d => { d with elem := { leafIndex := none, proof := none, shared := false },
                                           created := true }), s)
  | .revise k id src => do
    let e ← ms.source k id src
    match ms.find? k id with
    | some d =>
      if d.created ∨ d.hasRevision then pure (ms, s)    -- only the contract value is overwritten
      else
        let (c, s') := e.share.copy s
        pure (ms.put k id (fun d => { d with elem := c, hasRevision := true }), s')
    | none =>
      let (c, s') := e.share.copy s
      pure (ms.put k id (fun d => { d with elem := c, hasRevision := true }), s')
  | .resolveV1 id src => do
    let e ← ms.source .fc id src
    match ms.find? .fc id with
    | some d =>
      if d.hasRevision then pure (ms.put .fc id (fun d => { d with resolved := true }), s)
      else
        let (c, s') := e.share.copy s
        pure (ms.put .fc id (fun d => { d with elem := c, resolved := true }), s')
    | none =>
      let (c, s') := e.share.copy s
      pure (ms.put .fc id (fun d => { d with elem := c, resolved := true }), s')
  | .resolveV2 id src => do
    let e ← ms.source .v2fc id src
    if (ms.find? .v2fc id).any (·.created) then throw .resolvedCreated
    else
      let (c, s') := e.share.copy s
      pure (ms.put .v2fc id (fun d => { d with elem := c, resolved := true }), s')

def applyOps (ms : Mid) (s : St) : List Op → Except Panic (Mid × St)
  | [] => .ok (ms, s)
  | op :: rest => do
    let (ms', s') ← applyOp ms s op
    applyOps ms' s' rest

/-! ## the accumulator writing through the recorded elements -/

/-- Uninterpreted results of the Merkle arithmetic: the new contents of an updated proof
    (same buffer, rewritten in place by `updateLeaves`/`updateProof`), the hashes appended
    by `addLeaves` / the tree growth, the leaf index assigned to an added element, and
    whether an `append` finds spare capacity (in place) or reallocates. -/
structure Oracle where
  rewrite : StateElement → List Word → List Word
  suffix : StateElement → List Word
  newIndex : Nat → Nat
  realloc : Addr → Bool

/-- `x.MerkleProof = append(x.MerkleProof, suffix...)` -/
def appendProof (o : Oracle) (e : StateElement) (s : St) : StateElement × St :=
  let suf := o.suffix e
  if suf = [] then (e, s)
  else match e.proof with
    | none => let (a, s') := s.alloc suf; ({ e with proof := some a }, s')
    | some a =>
      if o.realloc a then
        let (a', s') := s.alloc (s.read a ++ suf); ({ e with proof := some a' }, s')
      else (e, s.write a (s.read a ++ suf))

/-- the `_ = el.Move()` guards at the top of `applyBlock` / `revertBlock` -/
def moveGuards : List Diff → Except Panic Unit
  | [] => .ok ()
  | d :: rest => do
    let _ ← d.elem.move
    moveGuards rest

/-- `updateLeaves`: every updated leaf's proof is rewritten in place (`e.MerkleProof[h-1] = …`) -/
def updateLeavesStep (o : Oracle) (d : Diff) (s : St) : St :=
  match d.elem.leafIndex, d.elem.proof with
  | some _, some a => s.write a (o.rewrite d.elem (s.read a))
  | _, _ => s

/-- `addLeaves` (added leaves get their index and their proof appended) and the final
    `append(e.MerkleProof, treeGrowth…)` for updated leaves -/
def growStep (o : Oracle) (n : Nat) (d : Diff) (s : St) : Diff × St :=
  let e := match d.elem.leafIndex with
    | none => { d.elem with leafIndex := some (o.newIndex n) }
    | some _ => d.elem
  let (e', s') := appendProof o e s
  ({ d with elem := e' }, s')

def growAll (o : Oracle) : Nat → List Diff → St → List Diff × St
  | _, [], s => ([], s)
  | n, d :: rest, s =>
    let (d', s') := growStep o n d s
    let (rest', s'') := growAll o (n + 1) rest s'
    (d' :: rest', s'')

/-- the order of `forEachAppliedElement` -/
def appliedOrder (ms : Mid) : List Diff :=
  ms.filter (·.kind = .sc) ++ ms.filter (·.kind = .sf) ++ ms.filter (·.kind = .fc) ++
  ms.filter (·.kind = .v2fc) ++ ms.filter (·.kind = .ae) ++ ms.filter (·.kind = .cie)

/-- the order of `forEachRevertedElement` (no attestations, no chain index element) -/
def revertedOrder (ms : Mid) : List Diff :=
  ms.filter (·.kind = .sc) ++ ms.filter (·.kind = .sf) ++ ms.filter (·.kind = .fc) ++
  ms.filter (·.kind = .v2fc)

/-- `consensus.ApplyBlock`: run the block's hand-offs, record the chain index element,
    guard, update in place, add. Returns the element records of the `ApplyUpdate`. -/
def applyBlock (o : Oracle) (s : St) (ops : List Op) (blockId : Nat) : Except Panic (List Diff × St) := do
  let (ms, s) ← applyOps [] s (ops ++ [.create .cie blockId])
  let leaves := appliedOrder ms
  moveGuards leaves
  let s := leaves.foldl (fun s d => updateLeavesStep o d s) s
  pure (growAll o 0 leaves s)

/-- `consensus.RevertBlock`: same hand-offs, `revertBlock` (guards, `updateLeaves`, leaf
    indices of the added elements), then `se := elems[i].StateElement.Move()`. -/
def revertBlock (o : Oracle) (s : St) (ops : List Op) (blockId : Nat) : Except Panic (List Diff × St) := do
  let (ms, s) ← applyOps [] s (ops ++ [.create .cie blockId])
  let leaves := revertedOrder ms
  moveGuards leaves
  let s := leaves.foldl (fun s d => updateLeavesStep o d s) s
  moveGuards (leaves.filter (fun d => d.elem.leafIndex.isSome))
  pure (leaves, s)

/-- `ApplyUpdate.UpdateElementProof(e)` / `RevertUpdate.UpdateElementProof(e)`: guard, then
    the caller's own proof is rewritten in place and possibly extended. This is the one
    operation whose purpose is to modify the element passed in. -/
def updateElementProof (o : Oracle) (e : StateElement) (s : St) : Except Panic (StateElement × St) := do
  let _ ← e.move
  match e.leafIndex with
  | none => throw .ephemeral
  | some _ =>
    let s := match e.proof with
      | some a => s.write a (o.rewrite e (s.read a))
      | none => s
    pure (appendProof o e s)

/-! ## `V2Transaction.DeepCopy` and the multiproof codec, on a footprint -/

/-- One slice/pointer location of a transaction value: its generic path (as enumerated from
    go/types by the extractor, e.g. `SiacoinInputs/[]/Parent/StateElement/MerkleProof`), the
    address it currently holds, and the backing array in which the slice header / pointer
    itself is stored (`none` = directly in the transaction struct, which `c := *txn` copies). -/
structure Loc where
  path : String
  addr : Option Addr
  container : Option Addr
deriving DecidableEq, Repr

/-- the footprint of a transaction: its locations, containers before their contents -/
abbrev Footprint := List Loc

/-- the locations `V2Transaction.DeepCopy` (with `deepCopyPolicy` and the element `Copy`
    methods) replaces by fresh copies — tied to the extracted list by `tie_deepcopy_model_fields` -/
def deepCopyCloned : List String :=
  ["ArbitraryData", "Attestations", "Attestations/[]/Value", "FileContractResolutions",
   "FileContractResolutions/[]/Parent/StateElement/MerkleProof",
   "FileContractResolutions/[]/Resolution/(*V2FileContractExpiration)",
   "FileContractResolutions/[]/Resolution/(*V2FileContractRenewal)",
   "FileContractResolutions/[]/Resolution/(*V2StorageProof)",
   "FileContractResolutions/[]/Resolution/(*V2StorageProof)/*/Proof",
   "FileContractResolutions/[]/Resolution/(*V2StorageProof)/*/ProofIndex/StateElement/MerkleProof",
   "FileContractRevisions", "FileContractRevisions/[]/Parent/StateElement/MerkleProof",
   "FileContracts", "NewFoundationAddress", "SiacoinInputs",
   "SiacoinInputs/[]/Parent/StateElement/MerkleProof",
   "SiacoinInputs/[]/SatisfiedPolicy/Policy/Type/(PolicyTypeThreshold)/Of",
   "SiacoinInputs/[]/SatisfiedPolicy/Policy/Type/(PolicyTypeUnlockConditions)/PublicKeys",
   "SiacoinInputs/[]/SatisfiedPolicy/Policy/Type/(PolicyTypeUnlockConditions)/PublicKeys/[]/Key",
   "SiacoinInputs/[]/SatisfiedPolicy/Preimages", "SiacoinInputs/[]/SatisfiedPolicy/Signatures",
   "SiacoinOutputs", "SiafundInputs", "SiafundInputs/[]/Parent/StateElement/MerkleProof",
   "SiafundInputs/[]/SatisfiedPolicy/Policy/Type/(PolicyTypeThreshold)/Of",
   "SiafundInputs/[]/SatisfiedPolicy/Policy/Type/(PolicyTypeUnlockConditions)/PublicKeys",
   "SiafundInputs/[]/SatisfiedPolicy/Policy/Type/(PolicyTypeUnlockConditions)/PublicKeys/[]/Key",
   "SiafundInputs/[]/SatisfiedPolicy/Preimages", "SiafundInputs/[]/SatisfiedPolicy/Signatures",
   "SiafundOutputs"]

/-- locations that are reachable but deliberately shared: `PolicyTypeAfter` is a `time.Time`,
    whose `loc *time.Location` points to an immutable, process-wide value -/
def immutableShared : List String :=
  ["SiacoinInputs/[]/SatisfiedPolicy/Policy/Type/(PolicyTypeAfter)/loc",
   "SiafundInputs/[]/SatisfiedPolicy/Policy/Type/(PolicyTypeAfter)/loc"]

/-- the element proofs the multiproof codec strips (`forEachElementLeaf`) -/
def multiproofStripped : List String :=
  ["SiacoinInputs/[]/Parent/StateElement/MerkleProof",
   "SiafundInputs/[]/Parent/StateElement/MerkleProof",
   "FileContractRevisions/[]/Parent/StateElement/MerkleProof",
   "FileContractResolutions/[]/Parent/StateElement/MerkleProof",
   "FileContractResolutions/[]/Resolution/(*V2StorageProof)/*/ProofIndex/StateElement/MerkleProof"]

/-- where a backing array of the original ended up in the copy -/
def rename (ren : List (Addr × Addr)) (c : Option Addr) : Option Addr :=
  match c with
  | none => none
  | some a => match ren.lookup a with
    | some a' => some a'
    | none => some a

/-- store a (new) slice header / pointer into the array that contains it; a location held
    directly by the transaction struct (`none`) lives in the by-value copy `c := *txn` -/
def storeHeader (hdr : Loc → List Word → List Word) (l : Loc) (c : Option Addr) (s : St) : St :=
  match c with
  | some c => s.write c (hdr l (s.read c))
  | none => s

/-- `DeepCopy` over a footprint, parameterised by the set of cloned locations.
    A cloned location gets a fresh array with the same contents, and its new header is
    stored into its container *as found in the copy* — which is the original's array if the
    container itself was not cloned (that store is then a write into the original). -/
def deepCopyWith (cloned : List String) (hdr : Loc → List Word → List Word) :
    Footprint → List (Addr × Addr) → St → Footprint × St
  | [], _, s => ([], s)
  | l :: rest, ren, s =>
    let c' := rename ren l.container
    match l.addr, cloned.contains l.path with
    | some a, true =>
      let (a', s1) := s.alloc (s.read a)
      let s2 := storeHeader hdr l c' s1
      let (rest', s3) := deepCopyWith cloned hdr rest ((a, a') :: ren) s2
      ({ l with addr := some a', container := c' } :: rest', s3)
    | _, _ =>
      let (rest', s3) := deepCopyWith cloned hdr rest ren s
      ({ l with container := c' } :: rest', s3)

/-- `V2Transaction.DeepCopy` as the code stands -/
def deepCopy (hdr : Loc → List Word → List Word) (f : Footprint) (s : St) : Footprint × St :=
  deepCopyWith deepCopyCloned hdr f [] s

/-- `l.MerkleProof = nil` for every element leaf: a store into the container of the proof -/
def stripProofs (hdr : Loc → List Word → List Word) : Footprint → St → Footprint × St
  | [], s => ([], s)
  | l :: rest, s =>
    if multiproofStripped.contains l.path then
      let s1 := storeHeader hdr l l.container s
      let (rest', s2) := stripProofs hdr rest s1
      ({ l with addr := none } :: rest', s2)
    else
      let (rest', s2) := stripProofs hdr rest s
      (l :: rest', s2)

/-- `V2TransactionsMultiproof.EncodeTo`, memory effects only: deep copy, then strip the copy
    (the multiproof itself is computed by reading the original) -/
def multiproofEncode (hdr : Loc → List Word → List Word) (f : Footprint) (s : St) : Footprint × St :=
  let (c, s1) := deepCopy hdr f s
  stripProofs hdr c s1

/-- what `EncodeTo` would do without the copy (the data race the comment in the source warns of) -/
def multiproofEncodeNoCopy (hdr : Loc → List Word → List Word) (f : Footprint) (s : St) : Footprint × St :=
  stripProofs hdr f s

end Sia.Alias
