import SiaModel.Codec.Spec
/-!
# SiaModel.Ids.Types — v2 transactions as typed records (C12, C03)

The objects of `types/types.go` that the id and sighash derivations read, with Go's
fixed-size arrays as byte lists (their sizes are part of `WF`, stated where needed),
`uint64` and `Currency` as `Nat`.  `toVal`-style functions turn them into the value
trees of the schema codec (`SiaModel/Codec`), so that the encoder theory of C11
(round trip, injectivity, prefix-freeness) applies to every encoding used here.
-/
namespace Sia.Ids
open Sia.Codec

abbrev Bytes := List UInt8

/-- a record value: the fields in order (what `enc (Sch.seq …)` expects) -/
def rec : List Val → Val
  | [] => .unit
  | v :: vs => .pair v (rec vs)

/-- `V2Currency.EncodeTo`: low word, high word -/
def curVal (n : Nat) : Val := rec [.nat (n % W64), .nat (n / W64)]

structure SiacoinOutput where
  value : Nat
  address : Bytes
deriving DecidableEq, Repr, Inhabited

structure SiafundOutput where
  value : Nat
  address : Bytes
deriving DecidableEq, Repr, Inhabited

structure StateElement where
  leafIndex : Nat
  merkleProof : List Bytes
deriving DecidableEq, Repr, Inhabited

structure SiacoinElement where
  se : StateElement
  id : Bytes
  output : SiacoinOutput
  maturityHeight : Nat
deriving DecidableEq, Repr, Inhabited

structure SiafundElement where
  se : StateElement
  id : Bytes
  output : SiafundOutput
  claimStart : Nat
deriving DecidableEq, Repr, Inhabited

structure V2FileContract where
  capacity : Nat
  filesize : Nat
  fileMerkleRoot : Bytes
  proofHeight : Nat
  expirationHeight : Nat
  renterOutput : SiacoinOutput
  hostOutput : SiacoinOutput
  missedHostValue : Nat
  totalCollateral : Nat
  renterPublicKey : Bytes
  hostPublicKey : Bytes
  revisionNumber : Nat
  renterSignature : Bytes
  hostSignature : Bytes
deriving DecidableEq, Repr, Inhabited

structure V2FileContractElement where
  se : StateElement
  id : Bytes
  contract : V2FileContract
deriving DecidableEq, Repr, Inhabited

/-- the witness of a v2 input: the revealed policy (its encoding), signatures, preimages -/
structure SatisfiedPolicy where
  policy : Bytes
  signatures : List Bytes
  preimages : List Bytes
deriving DecidableEq, Repr, Inhabited

structure V2SiacoinInput where
  parent : SiacoinElement
  satisfied : SatisfiedPolicy
deriving DecidableEq, Repr, Inhabited

structure V2SiafundInput where
  parent : SiafundElement
  claimAddress : Bytes
  satisfied : SatisfiedPolicy
deriving DecidableEq, Repr, Inhabited

structure V2Revision where
  parent : V2FileContractElement
  revision : V2FileContract
deriving DecidableEq, Repr, Inhabited

structure ChainIndexElement where
  se : StateElement
  id : Bytes
  height : Nat
  blockId : Bytes
deriving DecidableEq, Repr, Inhabited

structure V2Renewal where
  finalRenterOutput : SiacoinOutput
  finalHostOutput : SiacoinOutput
  renterRollover : Nat
  hostRollover : Nat
  newContract : V2FileContract
  renterSignature : Bytes
  hostSignature : Bytes
deriving DecidableEq, Repr, Inhabited

structure V2StorageProof where
  proofIndex : ChainIndexElement
  leaf : Bytes
  proof : List Bytes
deriving DecidableEq, Repr, Inhabited

inductive ResKind where
  | renewal | storageProof | expiration
deriving DecidableEq, Repr, Inhabited

inductive V2ResolutionBody where
  | renewal (r : V2Renewal)
  | storageProof (p : V2StorageProof)
  | expiration
deriving DecidableEq, Repr, Inhabited

def V2ResolutionBody.kind : V2ResolutionBody → ResKind
  | .renewal _ => .renewal
  | .storageProof _ => .storageProof
  | .expiration => .expiration

structure V2Resolution where
  parent : V2FileContractElement
  body : V2ResolutionBody
deriving DecidableEq, Repr, Inhabited

structure Attestation where
  publicKey : Bytes
  key : Bytes
  value : Bytes
  signature : Bytes
deriving DecidableEq, Repr, Inhabited

structure V2Txn where
  siacoinInputs : List V2SiacoinInput
  siacoinOutputs : List SiacoinOutput
  siafundInputs : List V2SiafundInput
  siafundOutputs : List SiafundOutput
  fileContracts : List V2FileContract
  revisions : List V2Revision
  resolutions : List V2Resolution
  attestations : List Attestation
  arbitraryData : Bytes
  newFoundationAddress : Option Bytes
  minerFee : Nat
deriving DecidableEq, Repr, Inhabited

/-- the kinds of the resolutions, in order -/
def V2Txn.kinds (t : V2Txn) : List ResKind := t.resolutions.map (·.body.kind)

/-! ## value trees of the (full) encodings used inside derivations -/

def scoVal (o : SiacoinOutput) : Val := rec [curVal o.value, .bytes o.address]
def sfoVal (o : SiafundOutput) : Val := rec [.nat o.value, .bytes o.address]

def seVal (s : StateElement) : Val := rec [.nat s.leafIndex, .list (s.merkleProof.map .bytes)]

/-- `V2FileContract.EncodeTo` (layout `Spec.v2FileContract`) -/
def fcVal (fc : V2FileContract) : Val := rec [
  .nat fc.capacity, .nat fc.filesize, .bytes fc.fileMerkleRoot, .nat fc.proofHeight, .nat fc.expirationHeight,
  scoVal fc.renterOutput, scoVal fc.hostOutput, curVal fc.missedHostValue, curVal fc.totalCollateral,
  .bytes fc.renterPublicKey, .bytes fc.hostPublicKey, .nat fc.revisionNumber,
  .bytes fc.renterSignature, .bytes fc.hostSignature]

/-- `V2FileContractRenewal.EncodeTo` (layout `Spec.v2FileContractRenewal`) -/
def renewalVal (r : V2Renewal) : Val := rec [
  scoVal r.finalRenterOutput, scoVal r.finalHostOutput, curVal r.renterRollover, curVal r.hostRollover,
  fcVal r.newContract, .bytes r.renterSignature, .bytes r.hostSignature]

/-- `ChainIndexElement.EncodeTo` (layout `Spec.chainIndexElement`) -/
def cieVal (e : ChainIndexElement) : Val := rec [seVal e.se, .bytes e.id, rec [.nat e.height, .bytes e.blockId]]

/-- `V2StorageProof.EncodeTo` (layout `Spec.v2StorageProof`) -/
def spVal (p : V2StorageProof) : Val := rec [cieVal p.proofIndex, .bytes p.leaf, .list (p.proof.map .bytes)]

/-- `Attestation.EncodeTo` (layout `Spec.attestation`) -/
def attVal (a : Attestation) : Val := rec [.bytes a.publicKey, .bytes a.key, .bytes a.value, .bytes a.signature]

/-- `Signature{}` -/
def zeroSig : Bytes := zeros 64

/-- `nilSigs(&fc.RenterSignature, &fc.HostSignature)` -/
def V2FileContract.nilSigs (fc : V2FileContract) : V2FileContract :=
  { fc with renterSignature := zeroSig, hostSignature := zeroSig }

/-- `nilSigs(&r.NewContract.RenterSignature, &r.NewContract.HostSignature, &r.RenterSignature, &r.HostSignature)` -/
def V2Renewal.nilSigs (r : V2Renewal) : V2Renewal :=
  { r with newContract := r.newContract.nilSigs, renterSignature := zeroSig, hostSignature := zeroSig }

/-- `nilSigs(&a.Signature)` -/
def Attestation.nilSig (a : Attestation) : Attestation := { a with signature := zeroSig }

/-- `sp.ProofIndex.StateElement.MerkleProof = nil` -/
def V2StorageProof.dropIndexProof (p : V2StorageProof) : V2StorageProof :=
  { p with proofIndex := { p.proofIndex with se := { p.proofIndex.se with merkleProof := [] } } }

end Sia.Ids
