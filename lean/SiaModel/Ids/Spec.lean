import SiaModel.Ids.Sem
/-!
# SiaModel.Ids.Spec — the committed reading of the id / sighash / authorisation code

What the hand-written model (`SiaModel/Ids`, the ledger model's `sigCurOk`/`sigOk` bits)
assumes about `types/types.go`, `consensus/state.go`, `consensus/validation.go`, in the
syntactic form the extractor prints (`Gen.FactsIds`). `C12.tie_*` / `C03.tie_*` prove the
generated facts equal these terms, so a derivation that gains, loses or reorders an
argument, a distinguisher that changes, a replay prefix, or the keys handed to signature
verification changing break a tie.

NEVER regenerate this file from the code. Change it only together with the model.
-/
namespace Sia.Ids.Spec

/-- every `hashAll` call of packages types and consensus: (function, distinguisher, arguments as
(source text, how hashAll writes it)).  The id and sighash derivations of the model
(`SiaModel/Ids/Derive.lean`) are the entries whose function is an `…ID`/`…SigHash` method; the
others are element leaves (C04/C05), Merkle leaves of the block commitment, full hashes and the
storage-proof seed. -/
def hashAllCalls : List (String × String × List (String × String)) := [
  ("consensus.chainIndexLeaf", "leaf/chainindex", [("leaf/chainindex", "dist"), ("e.ID", "enc:types.BlockID"), ("e.ChainIndex", "enc:types.ChainIndex")]),
  ("consensus.siacoinLeaf", "leaf/siacoin", [("leaf/siacoin", "dist"), ("e.ID", "enc:types.SiacoinOutputID"), ("types.V2SiacoinOutput(e.SiacoinOutput)", "enc:types.V2SiacoinOutput"), ("e.MaturityHeight", "u64")]),
  ("consensus.siafundLeaf", "leaf/siafund", [("leaf/siafund", "dist"), ("e.ID", "enc:types.SiafundOutputID"), ("types.V2SiafundOutput(e.SiafundOutput)", "enc:types.V2SiafundOutput"), ("types.V2Currency(e.ClaimStart)", "enc:types.V2Currency")]),
  ("consensus.fileContractLeaf", "leaf/filecontract", [("leaf/filecontract", "dist"), ("e.ID", "enc:types.FileContractID"), ("fc", "enc:types.FileContract")]),
  ("consensus.v2FileContractLeaf", "leaf/v2filecontract", [("leaf/v2filecontract", "dist"), ("e.ID", "enc:types.FileContractID"), ("fc", "enc:types.V2FileContract")]),
  ("consensus.attestationLeaf", "leaf/attestation", [("leaf/attestation", "dist"), ("e.ID", "enc:types.AttestationID"), ("e.Attestation", "enc:types.Attestation")]),
  ("consensus.State.StorageProofLeafIndex", "", [("windowID", "enc:types.BlockID"), ("fcid", "enc:types.FileContractID")]),
  ("consensus.State.InputSigHash", "sig/input", [("sig/input", "dist"), ("s.v2ReplayPrefix()", "u8"), ("types.V2TransactionSemantics(txn)", "enc:types.V2TransactionSemantics")]),
  ("consensus.State.ContractSigHash", "sig/filecontract", [("sig/filecontract", "dist"), ("s.v2ReplayPrefix()", "u8"), ("fc", "enc:types.V2FileContract")]),
  ("consensus.State.RenewalSigHash", "sig/filecontractrenewal", [("sig/filecontractrenewal", "dist"), ("s.v2ReplayPrefix()", "u8"), ("fcr", "enc:types.V2FileContractRenewal")]),
  ("consensus.State.AttestationSigHash", "sig/attestation", [("sig/attestation", "dist"), ("s.v2ReplayPrefix()", "u8"), ("a", "enc:types.Attestation")]),
  ("types.Transaction.MerkleLeafHash", "", [("leafHashPrefix", "u8"), ("txn", "enc:*types.Transaction")]),
  ("types.V2Transaction.MerkleLeafHash", "", [("leafHashPrefix", "u8"), ("txn", "enc:*types.V2Transaction")]),
  ("types.chainIndexLeaf", "leaf/chainindex", [("leaf/chainindex", "dist"), ("e.ID", "enc:types.BlockID"), ("e.ChainIndex", "enc:types.ChainIndex")]),
  ("types.siacoinLeaf", "leaf/siacoin", [("leaf/siacoin", "dist"), ("e.ID", "enc:types.SiacoinOutputID"), ("V2SiacoinOutput(e.SiacoinOutput)", "enc:types.V2SiacoinOutput"), ("e.MaturityHeight", "u64")]),
  ("types.siafundLeaf", "leaf/siafund", [("leaf/siafund", "dist"), ("e.ID", "enc:types.SiafundOutputID"), ("V2SiafundOutput(e.SiafundOutput)", "enc:types.V2SiafundOutput"), ("V2Currency(e.ClaimStart)", "enc:types.V2Currency")]),
  ("types.v2FileContractLeaf", "leaf/v2filecontract", [("leaf/v2filecontract", "dist"), ("e.ID", "enc:types.FileContractID"), ("e.V2FileContract", "enc:types.V2FileContract")]),
  ("types.BlockID.MinerOutputID", "", [("bid", "enc:types.BlockID"), ("i", "u64")]),
  ("types.BlockID.FoundationOutputID", "", [("bid", "enc:types.BlockID"), ("SpecifierFoundation", "enc:types.Specifier")]),
  ("types.SiafundOutputID.ClaimOutputID", "", [("sfoid", "enc:types.SiafundOutputID")]),
  ("types.SiafundOutputID.V2ClaimOutputID", "id/v2siacoinclaimoutput", [("id/v2siacoinclaimoutput", "dist"), ("sfoid", "enc:types.SiafundOutputID")]),
  ("types.FileContractID.ValidOutputID", "", [("SpecifierStorageProof", "enc:types.Specifier"), ("fcid", "enc:types.FileContractID"), ("true", "bool"), ("i", "u64")]),
  ("types.FileContractID.MissedOutputID", "", [("SpecifierStorageProof", "enc:types.Specifier"), ("fcid", "enc:types.FileContractID"), ("false", "bool"), ("i", "u64")]),
  ("types.FileContractID.V2RenterOutputID", "id/v2filecontractoutput", [("id/v2filecontractoutput", "dist"), ("fcid", "enc:types.FileContractID"), ("0", "u64")]),
  ("types.FileContractID.V2HostOutputID", "id/v2filecontractoutput", [("id/v2filecontractoutput", "dist"), ("fcid", "enc:types.FileContractID"), ("1", "u64")]),
  ("types.FileContractID.V2RenewalID", "id/v2filecontractrenewal", [("id/v2filecontractrenewal", "dist"), ("fcid", "enc:types.FileContractID")]),
  ("types.Transaction.ID", "", [("(*txnSansSigs)(txn)", "enc:*types.txnSansSigs")]),
  ("types.Transaction.FullHash", "", [("txn", "enc:*types.Transaction")]),
  ("types.Transaction.SiacoinOutputID", "", [("SpecifierSiacoinOutput", "enc:types.Specifier"), ("(*txnSansSigs)(txn)", "enc:*types.txnSansSigs"), ("i", "u64")]),
  ("types.Transaction.SiafundOutputID", "", [("SpecifierSiafundOutput", "enc:types.Specifier"), ("(*txnSansSigs)(txn)", "enc:*types.txnSansSigs"), ("i", "u64")]),
  ("types.Transaction.SiafundClaimOutputID", "", [("txn.SiafundOutputID(i)", "enc:types.SiafundOutputID")]),
  ("types.Transaction.FileContractID", "", [("SpecifierFileContract", "enc:types.Specifier"), ("(*txnSansSigs)(txn)", "enc:*types.txnSansSigs"), ("i", "u64")]),
  ("types.V2Transaction.ID", "id/transaction", [("id/transaction", "dist"), ("(*V2TransactionSemantics)(txn)", "enc:*types.V2TransactionSemantics")]),
  ("types.V2Transaction.FullHash", "", [("txn", "enc:*types.V2Transaction")]),
  ("types.V2Transaction.SiacoinOutputID", "id/siacoinoutput", [("id/siacoinoutput", "dist"), ("txid", "enc:types.TransactionID"), ("i", "u64")]),
  ("types.V2Transaction.SiafundOutputID", "id/siafundoutput", [("id/siafundoutput", "dist"), ("txid", "enc:types.TransactionID"), ("i", "u64")]),
  ("types.V2Transaction.V2FileContractID", "id/filecontract", [("id/filecontract", "dist"), ("txid", "enc:types.TransactionID"), ("i", "u64")]),
  ("types.V2Transaction.AttestationID", "id/attestation", [("id/attestation", "dist"), ("txid", "enc:types.TransactionID"), ("i", "u64")])
]

def distinguishers : List String := ["address", "commitment", "id/attestation", "id/filecontract", "id/siacoinoutput", "id/siafundoutput", "id/transaction", "id/v2filecontractoutput", "id/v2filecontractrenewal", "id/v2siacoinclaimoutput", "leaf/attestation", "leaf/chainindex", "leaf/filecontract", "leaf/siacoin", "leaf/siafund", "leaf/v2filecontract", "sig/attestation", "sig/filecontract", "sig/filecontractrenewal", "sig/input"]

def specifiers : List (String × String) := [("SpecifierFileContract", "file contract"), ("SpecifierFoundation", "foundation"), ("SpecifierSiacoinOutput", "siacoin output"), ("SpecifierSiafundOutput", "siafund output"), ("SpecifierStorageProof", "storage proof")]

def replayPrefixTable : List (String × List Nat) := [("s.Index.Height >= s.Network.HardforkV2.AllowHeight", [2]), ("s.Index.Height >= s.Network.HardforkFoundation.Height", [1]), ("s.Index.Height >= s.Network.HardforkASIC.Height", [0]), ("default", [])]

def wholeSigHashBody : List String := [
  "h := hasherPool.Get().(*types.Hasher)",
  "defer hasherPool.Put(h)",
  "h.Reset()",
  "h.E.WriteUint64(uint64(len((txn.SiacoinInputs))))",
  "for i := range txn.SiacoinInputs { h.E.Write(s.replayPrefix()); txn.SiacoinInputs[i].EncodeTo(h.E) }",
  "h.E.WriteUint64(uint64(len((txn.SiacoinOutputs))))",
  "for i := range txn.SiacoinOutputs { types.V1SiacoinOutput(txn.SiacoinOutputs[i]).EncodeTo(h.E) }",
  "h.E.WriteUint64(uint64(len((txn.FileContracts))))",
  "for i := range txn.FileContracts { txn.FileContracts[i].EncodeTo(h.E) }",
  "h.E.WriteUint64(uint64(len((txn.FileContractRevisions))))",
  "for i := range txn.FileContractRevisions { txn.FileContractRevisions[i].EncodeTo(h.E) }",
  "h.E.WriteUint64(uint64(len((txn.StorageProofs))))",
  "for i := range txn.StorageProofs { txn.StorageProofs[i].EncodeTo(h.E) }",
  "h.E.WriteUint64(uint64(len((txn.SiafundInputs))))",
  "for i := range txn.SiafundInputs { h.E.Write(s.replayPrefix()); txn.SiafundInputs[i].EncodeTo(h.E) }",
  "h.E.WriteUint64(uint64(len((txn.SiafundOutputs))))",
  "for i := range txn.SiafundOutputs { types.V1SiafundOutput(txn.SiafundOutputs[i]).EncodeTo(h.E) }",
  "h.E.WriteUint64(uint64(len((txn.MinerFees))))",
  "for i := range txn.MinerFees { types.V1Currency(txn.MinerFees[i]).EncodeTo(h.E) }",
  "h.E.WriteUint64(uint64(len((txn.ArbitraryData))))",
  "for i := range txn.ArbitraryData { h.E.WriteBytes(txn.ArbitraryData[i]) }",
  "parentID.EncodeTo(h.E)",
  "h.E.WriteUint64(pubkeyIndex)",
  "h.E.WriteUint64(timelock)",
  "for _, i := range coveredSigs { txn.Signatures[i].EncodeTo(h.E) }",
  "return h.Sum()"
]

def partialSigHashBody : List String := [
  "h := hasherPool.Get().(*types.Hasher)",
  "defer hasherPool.Put(h)",
  "h.Reset()",
  "for _, i := range cf.SiacoinInputs { h.E.Write(s.replayPrefix()); txn.SiacoinInputs[i].EncodeTo(h.E) }",
  "for _, i := range cf.SiacoinOutputs { types.V1SiacoinOutput(txn.SiacoinOutputs[i]).EncodeTo(h.E) }",
  "for _, i := range cf.FileContracts { txn.FileContracts[i].EncodeTo(h.E) }",
  "for _, i := range cf.FileContractRevisions { txn.FileContractRevisions[i].EncodeTo(h.E) }",
  "for _, i := range cf.StorageProofs { txn.StorageProofs[i].EncodeTo(h.E) }",
  "for _, i := range cf.SiafundInputs { h.E.Write(s.replayPrefix()); txn.SiafundInputs[i].EncodeTo(h.E) }",
  "for _, i := range cf.SiafundOutputs { types.V1SiafundOutput(txn.SiafundOutputs[i]).EncodeTo(h.E) }",
  "for _, i := range cf.MinerFees { types.V1Currency(txn.MinerFees[i]).EncodeTo(h.E) }",
  "for _, i := range cf.ArbitraryData { h.E.WriteBytes(txn.ArbitraryData[i]) }",
  "for _, i := range cf.Signatures { txn.Signatures[i].EncodeTo(h.E) }",
  "return h.Sum()"
]

def stateMerkleLeafHashBody : List String := [
  "h := hasherPool.Get().(*types.Hasher)",
  "defer hasherPool.Put(h)",
  "h.Reset()",
  "s.EncodeTo(h.E)",
  "stateHash := h.Sum()",
  "h.Reset()",
  "h.E.WriteUint8(leafHashPrefix)",
  "h.WriteDistinguisher(commitmentDistinguisher)",
  "h.E.WriteUint8(s.v2ReplayPrefix())",
  "stateHash.EncodeTo(h.E)",
  "minerAddr.EncodeTo(h.E)",
  "return h.Sum()"
]

def commitmentBody : List String := [
  "var acc blake2b.Accumulator",
  "acc.AddLeaf(s.MerkleLeafHash(minerAddr))",
  "for _, txn := range txns { acc.AddLeaf(txn.MerkleLeafHash()) }",
  "for _, txn := range v2txns { acc.AddLeaf(txn.MerkleLeafHash()) }",
  "return acc.Root()"
]

def blockHeaderIDBody : List String := [
  "buf := make([]byte, 32+8+8+32)",
  "copy(buf[:32], bh.ParentID[:])",
  "binary.LittleEndian.PutUint64(buf[32:], bh.Nonce)",
  "binary.LittleEndian.PutUint64(buf[40:], uint64(bh.Timestamp.Unix()))",
  "copy(buf[48:], bh.Commitment[:])",
  "return BlockID(HashBytes(buf))"
]

def blockHeaderBody : List String := [
  "var commitment Hash256",
  "if b.V2 == nil { commitment = blockMerkleRoot(b.MinerPayouts, b.Transactions) } else { commitment = b.V2.Commitment }",
  "return BlockHeader{ ParentID: b.ParentID, Nonce: b.Nonce, Timestamp: b.Timestamp, Commitment: commitment, }"
]

def blockMerkleRootBody : List String := [
  "h := hasherPool.Get().(*Hasher)",
  "defer hasherPool.Put(h)",
  "var acc blake2b.Accumulator",
  "for _, mp := range minerPayouts { h.Reset(); h.E.WriteUint8(leafHashPrefix); V1SiacoinOutput(mp).EncodeTo(h.E); acc.AddLeaf(h.Sum()) }",
  "for _, txn := range txns { h.Reset(); h.E.WriteUint8(leafHashPrefix); txn.EncodeTo(h.E); acc.AddLeaf(h.Sum()) }",
  "return acc.Root()"
]

def txnSansSigsBody : List String := [
  "EncodeSlice(e, txn.SiacoinInputs)",
  "EncodeSliceCast[V1SiacoinOutput](e, txn.SiacoinOutputs)",
  "EncodeSlice(e, txn.FileContracts)",
  "EncodeSlice(e, txn.FileContractRevisions)",
  "EncodeSlice(e, txn.StorageProofs)",
  "EncodeSlice(e, txn.SiafundInputs)",
  "EncodeSliceCast[V1SiafundOutput](e, txn.SiafundOutputs)",
  "EncodeSliceCast[V1Currency](e, txn.MinerFees)",
  "EncodeSliceFn(e, txn.ArbitraryData, (*Encoder).WriteBytes)"
]

def transactionEncodeBody : List String := [
  "txnSansSigs(txn).EncodeTo(e)",
  "EncodeSlice(e, txn.Signatures)"
]

def contractSigHashBody : List String := [
  "nilSigs(&fc.RenterSignature, &fc.HostSignature)",
  "return hashAll(\"sig/filecontract\", s.v2ReplayPrefix(), fc)"
]

def renewalSigHashBody : List String := [
  "nilSigs( &fcr.NewContract.RenterSignature, &fcr.NewContract.HostSignature, &fcr.RenterSignature, &fcr.HostSignature, )",
  "return hashAll(\"sig/filecontractrenewal\", s.v2ReplayPrefix(), fcr)"
]

def attestationSigHashBody : List String := [
  "nilSigs(&a.Signature)",
  "return hashAll(\"sig/attestation\", s.v2ReplayPrefix(), a)"
]

/-! ### the Merkle accumulator under the block commitments (package blake2b), block weight -/

/-- `AddLeaf`: merge with the trees of equal height, lowest first (mirrored by `Sia.Policy.accAddG`) -/
def accumulatorAddLeafBody : List String := [
  "i := 0",
  "for ; acc.hasTreeAtHeight(i); i++ { h = SumPair(acc.Trees[i], h) }",
  "acc.Trees[i] = h",
  "acc.NumLeaves++"
]

/-- `Root`: start from the lowest tree, fold the higher ones on the left (mirrored by `Sia.Policy.accRootG`) -/
def accumulatorRootBody : List String := [
  "i := bits.TrailingZeros64(acc.NumLeaves)",
  "if i == 64 { return [32]byte{} }",
  "root := acc.Trees[i]",
  "for i++; i < 64; i++ { if acc.hasTreeAtHeight(i) { root = SumPair(acc.Trees[i], root) } }",
  "return root"
]

def accumulatorHasTreeBody : List String := [
  "return acc.NumLeaves&(1<<height) != 0"
]

/-- a node is the hash of the 65 bytes `nodeHashPrefix ‖ left ‖ right` -/
def sumPairBody : List String := [
  "return hashBlock((*[64]byte)(unsafe.Pointer(&[2][32]byte{left, right})), nodeHashPrefix)"
]
def hashBlockGenericBody : List String := [
  "var buf [65]byte",
  "buf[0] = byte(prefix)",
  "copy(buf[1:], msg[:])",
  "return blake2b.Sum256(buf[:])"
]

def maxBlockWeightBody : List String := [
  "return 2_000_000"
]
/-- the weight of a v1 transaction is the length of its encoding -/
def transactionWeightBody : List String := [
  "var wc writeCounter",
  "e := types.NewEncoder(&wc)",
  "txn.EncodeTo(e)",
  "e.Flush()",
  "return uint64(wc.n)"
]

/-! ### authorisation call shapes (C03) -/

def contractSigCheckParams : List String := ["fc", "renter", "host"]
def contractSigCheckBody : List String := ["contractHash := ms.base.ContractSigHash(fc)", "if !renter.VerifyHash(contractHash, fc.RenterSignature) { return errors.New(\"has invalid renter signature\") } else if !host.VerifyHash(contractHash, fc.HostSignature) { return errors.New(\"has invalid host signature\") }", "return nil"]
/-- a formation is verified under the contract's own keys -/
def formationSigArgs : List (List String) := [["fc", "fc.RenterPublicKey", "fc.HostPublicKey"]]
/-- a revision is verified under the keys of `cur`, the contract as it currently stands -/
def revisionSigArgs : List (List String) := [["rev", "cur.RenterPublicKey", "cur.HostPublicKey"]]
/-- `cur` is the parent element's contract unless an earlier revision in this block exists -/
def revisionCurDefs : List String := ["cur := fce.V2FileContract", "if i, ok := ms.elements[fce.ID]; ok && ms.v2fces[i].Revision != nil", "cur = *ms.v2fces[i].Revision"]
/-- a renewal is verified under the keys of `fc` … -/
def renewalVerifyCalls : List (List String) := [["fc.RenterPublicKey", "renewalHash", "renewal.RenterSignature"], ["fc.HostPublicKey", "renewalHash", "renewal.HostSignature"]]
def renewalContractCalls : List (List String) := [["renewal.NewContract"]]
def renewalDefs : List String := ["renewal := *r", "renewalHash := ms.base.RenewalSigHash(renewal)"]
/-- … and `fc` is the parent element's contract (pre-block; DESIGN F8) -/
def resolutionFcDefs : List String := ["fc := fcr.Parent.V2FileContract"]
def validateAttestationsBody : List String := [
  "for i, a := range txn.Attestations { switch { case len(a.Key) == 0: return fmt.Errorf(\"attestation %v has empty key\", i) | case !a.PublicKey.VerifyHash(ms.base.AttestationSigHash(a), a.Signature): return fmt.Errorf(\"attestation %v has invalid signature\", i) } }",
  "return nil"
]
def validateFoundationUpdateBody : List String := [
  "if txn.NewFoundationAddress == nil { return nil }",
  "for _, in := range txn.SiacoinInputs { if in.Parent.SiacoinOutput.Address == ms.base.FoundationManagementAddress { return nil } }",
  "return errors.New(\"transaction changes Foundation address, but does not spend an input controlled by current address\")"
]
def validateV2SpendPolicyBody : List String := [
  "if sp.Policy.Address() != parentAddress { return errors.New(\"claims incorrect policy for parent address\") } else if err := sp.Policy.Verify(ms.base.Index.Height, ms.base.medianTimestamp(), sigHash, sp.Signatures, sp.Preimages); err != nil { return fmt.Errorf(\"(id: %v) failed to satisfy spend policy (height: %v, signatures: %v, preimages: %v): %w\", parentID, ms.base.Index.Height, len(sp.Signatures), len(sp.Preimages), err) }",
  "return nil"
]
def foundationSignedCheck : List String := ["if uh := sci.UnlockConditions.UnlockHash(); uh != ms.base.FoundationSubsidyAddress && uh != ms.base.FoundationManagementAddress", "signed = signed || (sig.ParentID == types.Hash256(sci.ParentID) && sig.CoveredFields.WholeTransaction)", "if !signed"]
def v1SigVerify : List String := ["sigHash = ms.base.WholeSigHash(txn, sig.ParentID, sig.PublicKeyIndex, sig.Timelock, sig.CoveredFields.Signatures)", "sigHash = ms.base.PartialSigHash(txn, sig.CoveredFields)", "epk.VerifyHash(sigHash, esig)"]
def validateV2SiacoinsAuth : List String := ["sigHash := ms.base.InputSigHash(txn)", "validateV2SpendPolicy(ms, sigHash, sci.SatisfiedPolicy, sci.Parent.SiacoinOutput.Address, types.Hash256(sci.Parent.ID))"]
def validateV2SiafundsAuth : List String := ["sigHash := ms.base.InputSigHash(txn)", "validateV2SpendPolicy(ms, sigHash, sfi.SatisfiedPolicy, sfi.Parent.SiafundOutput.Address, types.Hash256(sfi.Parent.ID))"]

end Sia.Ids.Spec
