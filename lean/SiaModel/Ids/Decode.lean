import SiaModel.Ids.Derive
import SiaModel.Codec.Irregular
import SiaModel.Policy.Codec
/-!
# SiaModel.Ids.Decode — from the binary encoding to the typed model (driver only)

A transaction arrives as core's own binary encoding; it is decoded with the schema codec
of C11 (the generated decoder schemas; the v2 transaction bitmap codec; the spend policy is
skipped with the policy decoder of C14 and kept as raw bytes) and the resulting value tree
is converted to the typed records of `SiaModel/Ids/Types.lean`.
-/
namespace Sia.Ids
open Sia.Codec

/-- `SpendPolicy.DecodeFrom` as a leaf codec that keeps the consumed bytes -/
def policyCodec : Codec :=
  { enc := fun v => match v with | .bytes b => b | _ => []
    dec := fun _ _ bs =>
      let b : ByteArray := ⟨bs.toArray⟩
      match Sia.Policy.readU8 b 0 with
      | some (v, off) =>
        if v ≠ Sia.Policy.policyVersion then .error .invalid
        else match Sia.Policy.decodeP b 0 off with
          | some (_, off') => .ok (.bytes (bs.take off'), bs.drop off')
          | none => .error .invalid
      | none => .error .short
    alloc := fun _ _ => 0
    canon := fun _ => false
    minLen := 2, depth := 0, guarded := true }

/-- decoding environment: resolutions, policies -/
def decEnv : Env := Irregular.env2.with "Types.SpendPolicy" policyCodec

def fields : Val → List Val
  | .pair a r => a :: fields r
  | _ => []

def asNat : Val → Option Nat
  | .nat n => some n
  | _ => none

def asBytes : Val → Option Bytes
  | .bytes b => some b
  | _ => none

def asList : Val → Option (List Val)
  | .list vs => some vs
  | _ => none

def asBytesList (v : Val) : Option (List Bytes) := do
  let vs ← asList v
  vs.mapM asBytes

def asCur (v : Val) : Option Nat :=
  match fields v with
  | [.nat lo, .nat hi] => some (lo + W64 * hi)
  | _ => none

def asSco (v : Val) : Option SiacoinOutput :=
  match fields v with
  | [c, .bytes a] => do pure { value := ← asCur c, address := a }
  | _ => none

def asSfo (v : Val) : Option SiafundOutput :=
  match fields v with
  | [.nat n, .bytes a] => some { value := n, address := a }
  | _ => none

def asSe (v : Val) : Option StateElement :=
  match fields v with
  | [.nat i, p] => do pure { leafIndex := i, merkleProof := ← asBytesList p }
  | _ => none

def asScElem (v : Val) : Option SiacoinElement :=
  match fields v with
  | [se, .bytes id, o, .nat m] => do pure { se := ← asSe se, id := id, output := ← asSco o, maturityHeight := m }
  | _ => none

def asSfElem (v : Val) : Option SiafundElement :=
  match fields v with
  | [se, .bytes id, o, c] => do pure { se := ← asSe se, id := id, output := ← asSfo o, claimStart := ← asCur c }
  | _ => none

def asFc (v : Val) : Option V2FileContract :=
  match fields v with
  | [.nat cap, .nat fsz, .bytes root, .nat ph, .nat eh, ro, ho, mhv, tc, .bytes rpk, .bytes hpk, .nat rev, .bytes rs, .bytes hs] => do
    pure { capacity := cap, filesize := fsz, fileMerkleRoot := root, proofHeight := ph, expirationHeight := eh,
           renterOutput := ← asSco ro, hostOutput := ← asSco ho, missedHostValue := ← asCur mhv, totalCollateral := ← asCur tc,
           renterPublicKey := rpk, hostPublicKey := hpk, revisionNumber := rev, renterSignature := rs, hostSignature := hs }
  | _ => none

def asFcElem (v : Val) : Option V2FileContractElement :=
  match fields v with
  | [se, .bytes id, fc] => do pure { se := ← asSe se, id := id, contract := ← asFc fc }
  | _ => none

def asSp (v : Val) : Option SatisfiedPolicy :=
  match fields v with
  | [.bytes p, s, pre] => do pure { policy := p, signatures := ← asBytesList s, preimages := ← asBytesList pre }
  | _ => none

def asScIn (v : Val) : Option V2SiacoinInput :=
  match fields v with
  | [p, sp] => do pure { parent := ← asScElem p, satisfied := ← asSp sp }
  | _ => none

def asSfIn (v : Val) : Option V2SiafundInput :=
  match fields v with
  | [p, .bytes c, sp] => do pure { parent := ← asSfElem p, claimAddress := c, satisfied := ← asSp sp }
  | _ => none

def asRev (v : Val) : Option V2Revision :=
  match fields v with
  | [p, fc] => do pure { parent := ← asFcElem p, revision := ← asFc fc }
  | _ => none

def asRenewal (v : Val) : Option V2Renewal :=
  match fields v with
  | [fr, fh, rr, hr, nc, .bytes rs, .bytes hs] => do
    pure { finalRenterOutput := ← asSco fr, finalHostOutput := ← asSco fh, renterRollover := ← asCur rr, hostRollover := ← asCur hr,
           newContract := ← asFc nc, renterSignature := rs, hostSignature := hs }
  | _ => none

def asCie (v : Val) : Option ChainIndexElement :=
  match fields v with
  | [se, .bytes id, ci] =>
    match fields ci with
    | [.nat h, .bytes bid] => do pure { se := ← asSe se, id := id, height := h, blockId := bid }
    | _ => none
  | _ => none

def asStorageProof (v : Val) : Option V2StorageProof :=
  match fields v with
  | [ci, .bytes leaf, p] => do pure { proofIndex := ← asCie ci, leaf := leaf, proof := ← asBytesList p }
  | _ => none

def asResolution (v : Val) : Option V2Resolution :=
  match fields v with
  | [p, .pair (.nat tag) payload] => do
    let parent ← asFcElem p
    if tag = 0 then pure { parent := parent, body := .renewal (← asRenewal payload) }
    else if tag = 1 then pure { parent := parent, body := .storageProof (← asStorageProof payload) }
    else if tag = 2 then pure { parent := parent, body := .expiration }
    else none
  | _ => none

def asAtt (v : Val) : Option Attestation :=
  match fields v with
  | [.bytes pk, .bytes k, .bytes val, .bytes s] => some { publicKey := pk, key := k, value := val, signature := s }
  | _ => none

def optList {α} (f : Val → Option α) : Val → Option (List α)
  | .none => some []
  | .some (.list vs) => vs.mapM f
  | _ => none

/-- the value of the bitmap codec (one entry per field, `none` = empty) → the typed transaction -/
def asV2Txn (v : Val) : Option V2Txn :=
  match v with
  | .list [sci, sco, sfi, sfo, fcs, revs, ress, atts, arb, nfa, fee] => do
    pure { siacoinInputs := ← optList asScIn sci, siacoinOutputs := ← optList asSco sco,
           siafundInputs := ← optList asSfIn sfi, siafundOutputs := ← optList asSfo sfo,
           fileContracts := ← optList asFc fcs, revisions := ← optList asRev revs,
           resolutions := ← optList asResolution ress, attestations := ← optList asAtt atts,
           arbitraryData := ← (match arb with | .none => some [] | .some (.bytes b) => some b | _ => none),
           newFoundationAddress := ← (match nfa with | .none => some none | .some (.bytes b) => some (some b) | _ => none),
           minerFee := ← (match fee with | .none => some 0 | .some c => asCur c | _ => none) }
  | _ => none

/-- decode core's binary encoding of a `V2Transaction` -/
def decodeV2Txn (bs : Bytes) : Option V2Txn :=
  match (Irregular.v2TxnCodec decEnv).dec false 0 bs with
  | .ok (v, []) => asV2Txn v
  | _ => none

/-- decode core's binary encoding of a v1 `Transaction` -/
def decodeV1Txn (bs : Bytes) : Option V1Txn :=
  match dec Env.default 0 v1BodySch bs with
  | .ok (body, rest) =>
    match dec Env.default 0 v1SigsSch rest with
    | .ok (sigs, []) => some { body := body, signatures := sigs }
    | _ => none
  | _ => none

end Sia.Ids
