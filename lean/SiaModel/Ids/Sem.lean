import SiaModel.Ids.Types
/-!
# SiaModel.Ids.Sem — the semantic encoding of a v2 transaction, and its specification

`semEncode` mirrors `V2TransactionSemantics.EncodeTo` (types/encoding.go) statement by
statement: what is written is `enc (semSch …) (semVal … t)`, where the schema lists the
wire form of every statement and `semVal` the value handed to it (parent **ids only**,
signatures zeroed, the chain-index proof dropped, the resolution payload WITHOUT its type
tag).  The generated fact `Gen.FactsIds.semanticsSchema` is tied to `codeSemantics`.

`strip` is NOT read off the code: it is the specification of "effect-bearing content"
written from the property text (C12): everything except v2 input witnesses, contract and
renewal signatures, parent element contents other than their ids, and Merkle proofs of
state elements.

`bindsClaim` — whether the code writes `in.ClaimAddress` of a siafund input.  The code at
the pinned commit does not (`codeBindsClaimAddress = false`, a finding of C12/C03: the
claim address is effect-bearing but bound neither by the transaction id nor by the input
sighash).  When that is repaired the tie `C12.tie_semantics_schema` breaks until the flag
is flipped; every theorem is proved for both values.
-/
namespace Sia.Ids
open Sia.Codec

/-- does `V2TransactionSemantics.EncodeTo` write the claim address of siafund inputs? -/
def codeBindsClaimAddress : Bool := false

/-! ## the committed reading of the code (tied to the generated fact) -/

/-- `V2TransactionSemantics.EncodeTo` as the extractor renders it -/
def codeSemantics (bindsClaim : Bool) : List (String × List String) := [
  ("SiacoinInputs", ["len:u64", "enc(.Parent.ID)"]),
  ("SiacoinOutputs", ["len:u64", "enc(. as V2SiacoinOutput)"]),
  ("SiafundInputs", if bindsClaim then ["len:u64", "enc(.Parent.ID)", "enc(.ClaimAddress)"] else ["len:u64", "enc(.Parent.ID)"]),
  ("SiafundOutputs", ["len:u64", "enc(. as V2SiafundOutput)"]),
  ("FileContracts", ["len:u64", "zero(.RenterSignature,.HostSignature)", "enc(.)"]),
  ("FileContractRevisions", ["len:u64", "enc(.Parent.ID)", "zero(.Revision.RenterSignature,.Revision.HostSignature)", "enc(.Revision)"]),
  ("FileContractResolutions", ["len:u64", "enc(.Parent.ID)", "switch .Resolution",
    "case *V2FileContractRenewal: zero(.NewContract.RenterSignature,.NewContract.HostSignature,.RenterSignature,.HostSignature)",
    "case *V2StorageProof: drop(.ProofIndex.StateElement.MerkleProof)", "enc-dynamic(.Resolution)"]),
  ("Attestations", ["len:u64", "enc(.)"]),
  ("ArbitraryData", ["bytes"]),
  ("NewFoundationAddress", ["ptr"]),
  ("MinerFee", ["enc(. as V2Currency)"])]

/-! ## schema of the semantic encoding -/

/-- payload written for a resolution of kind `k` (no tag precedes it) -/
def payloadSch : ResKind → Sch
  | .renewal => Spec.v2FileContractRenewal
  | .storageProof => Spec.v2StorageProof
  | .expiration => Spec.v2FileContractExpiration

/-- the resolutions: for each one the parent id and the payload of its kind, back to back -/
def resSch : List ResKind → Sch
  | [] => .nil
  | k :: ks => .cons "Parent.ID" Spec.hash32 (.cons "Resolution" (payloadSch k) (resSch ks))

def sfInSch (bindsClaim : Bool) : Sch :=
  if bindsClaim then Sch.seq [("Parent.ID", Spec.hash32), ("ClaimAddress", Spec.hash32)] else Spec.hash32

/-- the wire form of `V2TransactionSemantics.EncodeTo` for a transaction whose resolutions
have kinds `ks` -/
def semSch (bindsClaim : Bool) (ks : List ResKind) : Sch := Sch.seq [
  ("SiacoinInputs", .slice Spec.hash32),
  ("SiacoinOutputs", .slice Spec.v2SiacoinOutput),
  ("SiafundInputs", .slice (sfInSch bindsClaim)),
  ("SiafundOutputs", .slice Spec.v2SiafundOutput),
  ("FileContracts", .slice Spec.v2FileContract),
  ("FileContractRevisions", .slice (Sch.seq [("Parent.ID", Spec.hash32), ("Revision", Spec.v2FileContract)])),
  ("len(FileContractResolutions)", .u64),
  ("FileContractResolutions", resSch ks),
  ("Attestations", .slice Spec.attestation),
  ("ArbitraryData", .bytes),
  ("NewFoundationAddress", .opt Spec.hash32),
  ("MinerFee", Spec.v2Currency)]

/-! ## the value written -/

def payloadVal : V2ResolutionBody → Val
  | .renewal r => renewalVal r.nilSigs
  | .storageProof p => spVal p.dropIndexProof
  | .expiration => .unit

def resVals : List V2Resolution → Val
  | [] => .unit
  | r :: rs => .pair (.bytes r.parent.id) (.pair (payloadVal r.body) (resVals rs))

def sfInVal (bindsClaim : Bool) (i : V2SiafundInput) : Val :=
  if bindsClaim then rec [.bytes i.parent.id, .bytes i.claimAddress] else .bytes i.parent.id

def optBytes : Option Bytes → Val
  | none => .none
  | some b => .some (.bytes b)

def semVal (bindsClaim : Bool) (t : V2Txn) : Val := rec [
  .list (t.siacoinInputs.map fun i => .bytes i.parent.id),
  .list (t.siacoinOutputs.map scoVal),
  .list (t.siafundInputs.map (sfInVal bindsClaim)),
  .list (t.siafundOutputs.map sfoVal),
  .list (t.fileContracts.map fun fc => fcVal fc.nilSigs),
  .list (t.revisions.map fun r => rec [.bytes r.parent.id, fcVal r.revision.nilSigs]),
  .nat t.resolutions.length,
  resVals t.resolutions,
  .list (t.attestations.map attVal),
  .bytes t.arbitraryData,
  optBytes t.newFoundationAddress,
  curVal t.minerFee]

/-- the bytes `V2TransactionSemantics.EncodeTo` writes (general in the claim-address flag) -/
def semEncodeG (bindsClaim : Bool) (t : V2Txn) : Bytes :=
  enc Env.default (semSch bindsClaim t.kinds) (semVal bindsClaim t)

/-- the bytes `V2TransactionSemantics.EncodeTo` writes at the pinned commit -/
def semEncode (t : V2Txn) : Bytes := semEncodeG codeBindsClaimAddress t

/-- well-formed (as far as the semantic encoding reads it): ids, addresses, keys, roots have
32 bytes, signatures and leaves 64, numbers are in range, list lengths fit 64 bits -/
def WFG (bindsClaim : Bool) (t : V2Txn) : Prop := Canon Env.default (semSch bindsClaim t.kinds) (semVal bindsClaim t)

instance (b : Bool) (t : V2Txn) : Decidable (WFG b t) := by unfold WFG Canon; infer_instance

/-! ## the specification of effect-bearing content (from the property text) -/

/-- a parent element contributes its id only -/
def idOnlySc (e : SiacoinElement) : SiacoinElement := { (default : SiacoinElement) with id := e.id }
def idOnlySf (e : SiafundElement) : SiafundElement := { (default : SiafundElement) with id := e.id }
def idOnlyFc (e : V2FileContractElement) : V2FileContractElement := { (default : V2FileContractElement) with id := e.id }

def stripBody : V2ResolutionBody → V2ResolutionBody
  | .renewal r => .renewal r.nilSigs
  | .storageProof p => .storageProof p.dropIndexProof
  | .expiration => .expiration

/-- **the effect-bearing content of a v2 transaction**: drop the input witnesses, zero contract
and renewal signatures, reduce parent elements to their ids, drop state-element Merkle proofs -/
def strip (t : V2Txn) : V2Txn := {
  siacoinInputs := t.siacoinInputs.map fun i => { parent := idOnlySc i.parent, satisfied := default }
  siacoinOutputs := t.siacoinOutputs
  siafundInputs := t.siafundInputs.map fun i => { parent := idOnlySf i.parent, claimAddress := i.claimAddress, satisfied := default }
  siafundOutputs := t.siafundOutputs
  fileContracts := t.fileContracts.map (·.nilSigs)
  revisions := t.revisions.map fun r => { parent := idOnlyFc r.parent, revision := r.revision.nilSigs }
  resolutions := t.resolutions.map fun r => { parent := idOnlyFc r.parent, body := stripBody r.body }
  attestations := t.attestations
  arbitraryData := t.arbitraryData
  newFoundationAddress := t.newFoundationAddress
  minerFee := t.minerFee }

/-- what the code binds: `strip`, and additionally forgetting the claim addresses when the
code does not write them -/
def stripCode (bindsClaim : Bool) (t : V2Txn) : V2Txn :=
  if bindsClaim then strip t
  else { strip t with siafundInputs := (strip t).siafundInputs.map fun i => { i with claimAddress := [] } }

end Sia.Ids
