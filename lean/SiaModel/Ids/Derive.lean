import SiaModel.Ids.Sem
import SiaModel.Prim.Blake2b
import SiaModel.Policy.Address
/-!
# SiaModel.Ids.Derive — id and sighash derivations (types/types.go, consensus/state.go)

Every derivation is `H (preimage)`; the preimages are defined here, as the byte strings
`hashAll(...)` (or the explicit hasher code) feeds to BLAKE2b.  `H : Bytes → Bytes` is a
parameter: theorems assume `HashInj H` (a hypothesis, satisfiable by `H = id`), the driver
instantiates real BLAKE2b-256 (`blake`).
-/
namespace Sia.Ids
open Sia.Codec

/-- symbolic collision freedom of the id hash: always a hypothesis, never an axiom -/
def HashInj (H : Bytes → Bytes) : Prop := ∀ a b, H a = H b → a = b

/-- real BLAKE2b-256 on byte lists (driver) -/
def blake (b : Bytes) : Bytes := (Sia.blake2b256 ⟨b.toArray⟩).data.toList

/-- `Hasher.WriteDistinguisher(p)`: `"sia/" + p + "|"` -/
def dist (p : String) : Bytes := ("sia/" ++ p ++ "|").toUTF8.data.toList

/-- `types.NewSpecifier(name)`: 16 bytes, zero padded -/
def specifier (name : String) : Bytes := copyInto 16 name.toUTF8.data.toList

/-- `State.v2ReplayPrefix()` -/
def v2ReplayPrefix : Nat := 2

/-! ## v2: transaction id, derived ids -/

/-- preimage of `V2Transaction.ID`: `hashAll("id/transaction", (*V2TransactionSemantics)(txn))` -/
def txidPreG (b : Bool) (t : V2Txn) : Bytes := dist "id/transaction" ++ semEncodeG b t
def txidPre (t : V2Txn) : Bytes := txidPreG codeBindsClaimAddress t
def txid (H : Bytes → Bytes) (t : V2Txn) : Bytes := H (txidPre t)

/-- the derivations of the form `hashAll("<distinguisher>", <32-byte id>[, <index>])` -/
inductive V2Kind where
  | siacoinOutput      -- V2Transaction.SiacoinOutputID(txid, i)
  | siafundOutput      -- V2Transaction.SiafundOutputID(txid, i)
  | fileContract       -- V2Transaction.V2FileContractID(txid, i)
  | attestation        -- V2Transaction.AttestationID(txid, i)
  | contractOutput     -- FileContractID.V2RenterOutputID() (index 0) / V2HostOutputID() (index 1)
  | claimOutput        -- SiafundOutputID.V2ClaimOutputID()            (no index)
  | renewal            -- FileContractID.V2RenewalID()                 (no index)
deriving DecidableEq, Repr, Inhabited

def V2Kind.distinguisher : V2Kind → String
  | .siacoinOutput => "id/siacoinoutput"
  | .siafundOutput => "id/siafundoutput"
  | .fileContract => "id/filecontract"
  | .attestation => "id/attestation"
  | .contractOutput => "id/v2filecontractoutput"
  | .claimOutput => "id/v2siacoinclaimoutput"
  | .renewal => "id/v2filecontractrenewal"

def V2Kind.indexed : V2Kind → Bool
  | .claimOutput | .renewal => false
  | _ => true

/-- preimage of a derived v2 id: distinguisher, parent id, index (if the kind has one) -/
def derivedPre (k : V2Kind) (parent : Bytes) (i : Nat) : Bytes :=
  dist k.distinguisher ++ parent ++ (if k.indexed then u64le i else [])

def derived (H : Bytes → Bytes) (k : V2Kind) (parent : Bytes) (i : Nat) : Bytes := H (derivedPre k parent i)

/-! ## v2 sighashes -/

/-- `InputSigHash`: `hashAll("sig/input", s.v2ReplayPrefix(), V2TransactionSemantics(txn))` -/
def inputSigPreG (b : Bool) (t : V2Txn) : Bytes := dist "sig/input" ++ [UInt8.ofNat v2ReplayPrefix] ++ semEncodeG b t
def inputSigPre (t : V2Txn) : Bytes := inputSigPreG codeBindsClaimAddress t

/-- `ContractSigHash`: signatures zeroed, then `hashAll("sig/filecontract", prefix, fc)` -/
def contractSigPre (fc : V2FileContract) : Bytes :=
  dist "sig/filecontract" ++ [UInt8.ofNat v2ReplayPrefix] ++ enc Env.default Spec.v2FileContract (fcVal fc.nilSigs)

/-- `RenewalSigHash`: four signatures zeroed, then `hashAll("sig/filecontractrenewal", prefix, fcr)` -/
def renewalSigPre (r : V2Renewal) : Bytes :=
  dist "sig/filecontractrenewal" ++ [UInt8.ofNat v2ReplayPrefix] ++ enc Env.default Spec.v2FileContractRenewal (renewalVal r.nilSigs)

/-- `AttestationSigHash`: signature zeroed, then `hashAll("sig/attestation", prefix, a)` -/
def attestationSigPre (a : Attestation) : Bytes :=
  dist "sig/attestation" ++ [UInt8.ofNat v2ReplayPrefix] ++ enc Env.default Spec.attestation (attVal a.nilSig)

/-! ## v1 transactions -/

/-- the nine fields `txnSansSigs.EncodeTo` writes (= `Spec.transaction` without `Signatures`) -/
def v1BodySch : Sch := Sch.seq [
  ("SiacoinInputs", .slice Spec.siacoinInput), ("SiacoinOutputs", .slice Spec.v1SiacoinOutput),
  ("FileContracts", .slice Spec.fileContract), ("FileContractRevisions", .slice Spec.fileContractRevision),
  ("StorageProofs", .slice Spec.storageProof),
  ("SiafundInputs", .slice Spec.siafundInput), ("SiafundOutputs", .slice Spec.v1SiafundOutput),
  ("MinerFees", .slice .cur1), ("ArbitraryData", .slice .bytes)]

def v1SigsSch : Sch := .slice Spec.transactionSignature

/-- a v1 transaction: the value of its nine effect-bearing fields (a value of `v1BodySch`)
and of its signatures (a value of `v1SigsSch`) -/
structure V1Txn where
  body : Val
  signatures : Val
deriving Repr, Inhabited

/-- the specification of effect-bearing content of a v1 transaction: all but the signatures -/
def V1Txn.strip (t : V1Txn) : V1Txn := { t with signatures := .list [] }

def V1Txn.WF (t : V1Txn) : Prop := Canon Env.default v1BodySch t.body

def v1BodyEnc (t : V1Txn) : Bytes := enc Env.default v1BodySch t.body

/-- `Transaction.ID`: `hashAll((*txnSansSigs)(txn))` — no distinguisher -/
def v1TxidPre (t : V1Txn) : Bytes := v1BodyEnc t
def v1Txid (H : Bytes → Bytes) (t : V1Txn) : Bytes := H (v1TxidPre t)

/-- the specifier-based derivations `hashAll(Specifier…, (*txnSansSigs)(txn), i)` -/
inductive V1Kind where
  | siacoinOutput | siafundOutput | fileContract
deriving DecidableEq, Repr, Inhabited

def V1Kind.spec : V1Kind → String
  | .siacoinOutput => "siacoin output"
  | .siafundOutput => "siafund output"
  | .fileContract => "file contract"

def v1DerivedPre (k : V1Kind) (t : V1Txn) (i : Nat) : Bytes := specifier k.spec ++ v1BodyEnc t ++ u64le i
def v1Derived (H : Bytes → Bytes) (k : V1Kind) (t : V1Txn) (i : Nat) : Bytes := H (v1DerivedPre k t i)

/-- `SiafundOutputID.ClaimOutputID` / `Transaction.SiafundClaimOutputID`: `hashAll(sfoid)` -/
def v1ClaimPre (sfoid : Bytes) : Bytes := sfoid

/-- `FileContractID.ValidOutputID(i)` / `MissedOutputID(i)`: `hashAll(SpecifierStorageProof, fcid, valid, i)` -/
def v1ProofOutputPre (fcid : Bytes) (valid : Bool) (i : Nat) : Bytes :=
  specifier "storage proof" ++ fcid ++ [if valid then 1 else 0] ++ u64le i

/-- `BlockID.MinerOutputID(i)`: `hashAll(bid, i)` -/
def minerOutputPre (bid : Bytes) (i : Nat) : Bytes := bid ++ u64le i
/-- `BlockID.FoundationOutputID()`: `hashAll(bid, SpecifierFoundation)` -/
def foundationOutputPre (bid : Bytes) : Bytes := bid ++ specifier "foundation"

/-! ## v1 sighashes (`WholeSigHash`, `PartialSigHash`): `none` where the Go code panics
(an index beyond the slice) -/

def listOf : Val → List Val
  | .list vs => vs
  | _ => []

/-- the fields of a v1 body, in order -/
def bodyFields : Val → List (List Val)
  | .pair a r => listOf a :: bodyFields r
  | _ => []

def v1FieldSchs : List Sch := [Spec.siacoinInput, Spec.v1SiacoinOutput, Spec.fileContract, Spec.fileContractRevision,
  Spec.storageProof, Spec.siafundInput, Spec.v1SiafundOutput, .cur1, .bytes]

/-- does field `k` carry the replay prefix before each element? (siacoin and siafund inputs) -/
def prefixed (k : Nat) : Bool := k == 0 || k == 5

def encElem (p : Bytes) (k : Nat) (v : Val) : Bytes :=
  (if prefixed k then p else []) ++ enc Env.default (v1FieldSchs.getD k .nil) v

/-- the replay prefix table of `State.replayPrefix` (first match wins), as (name of the
hardfork height that must have been reached, prefix) -/
def replayPrefixes : List (String × Bytes) := [("V2.AllowHeight", [2]), ("Foundation.Height", [1]), ("ASIC.Height", [0]), ("default", [])]

/-- `State.replayPrefix()` for parent height `h` -/
def replayPrefix (v2Allow foundation asic h : Nat) : Bytes :=
  if h ≥ v2Allow then [2] else if h ≥ foundation then [1] else if h ≥ asic then [0] else []

def allSome {α} : List (Option α) → Option (List α)
  | [] => some []
  | none :: _ => none
  | some a :: r => (allSome r).map (a :: ·)

/-- `WholeSigHash(txn, parentID, pubkeyIndex, timelock, coveredSigs)` preimage -/
def wholeSigPre (p : Bytes) (t : V1Txn) (parentID : Bytes) (pubkeyIndex timelock : Nat) (coveredSigs : List Nat) : Option Bytes :=
  let fs := bodyFields t.body
  let body := (List.range 9).map fun k =>
    let vs := fs.getD k []
    u64le vs.length ++ encList (encElem p k) vs
  let sigs := listOf t.signatures
  match allSome (coveredSigs.map fun i => sigs[i]?) with
  | none => none
  | some cs =>
    some (body.flatten ++ parentID ++ u64le pubkeyIndex ++ u64le timelock ++
      encList (enc Env.default Spec.transactionSignature) cs)

/-- `PartialSigHash(txn, cf)` preimage; `cf` = the ten index lists of `CoveredFields` in
declaration order (nine body fields, then signatures) -/
def partialSigPre (p : Bytes) (t : V1Txn) (cf : List (List Nat)) : Option Bytes :=
  let fs := bodyFields t.body
  let parts := (List.range 9).map fun k =>
    let vs := fs.getD k []
    (allSome ((cf.getD k []).map fun i => vs[i]?)).map fun sel => encList (encElem p k) sel
  let sigs := listOf t.signatures
  let sigPart := (allSome ((cf.getD 9 []).map fun i => sigs[i]?)).map fun sel =>
    encList (enc Env.default Spec.transactionSignature) sel
  match allSome (parts ++ [sigPart]) with
  | none => none
  | some ps => some ps.flatten

/-! ## blocks -/

/-- `BlockHeader.ID`: `HashBytes(parentID ‖ nonce ‖ timestamp ‖ commitment)` -/
def blockIdPre (parentID : Bytes) (nonce timestamp : Nat) (commitment : Bytes) : Bytes :=
  parentID ++ u64le nonce ++ u64le timestamp ++ commitment

/-- leaf of the v1 block Merkle tree for a miner payout / a transaction: `0x00 ‖ encoding` -/
def v1LeafPre (encoding : Bytes) : Bytes := 0 :: encoding

/-- the data of the first leaf of the v2 commitment tree (`State.MerkleLeafHash(minerAddr)` without
the leaf prefix): `"sia/commitment|" ‖ prefix ‖ H(state) ‖ minerAddr` -/
def commitmentLeafData (stateHash minerAddr : Bytes) : Bytes :=
  dist "commitment" ++ [UInt8.ofNat v2ReplayPrefix] ++ stateHash ++ minerAddr

/-- `State.MerkleLeafHash(minerAddr)` preimage: `0x00 ‖` the leaf data -/
def commitmentLeafPre (stateHash minerAddr : Bytes) : Bytes := 0 :: commitmentLeafData stateHash minerAddr

/-! ### the Merkle trees under the block id (`blake2b.Accumulator`)

Over an abstract hash algebra: `lf d` = BLAKE2b(0x00 ‖ d) (`hashAll(leafHashPrefix, …)`), `nd l r` =
BLAKE2b(0x01 ‖ l ‖ r) (`blake2b.SumPair`), `zero` the root of the empty accumulator.  The accumulator
itself is `Sia.Policy.merkleRootG` (`AddLeaf` / `Root`, shared with C14's unlock-conditions root). -/

def toBA (b : Bytes) : ByteArray := ⟨b.toArray⟩

section trees
variable {D : Type} (lf : ByteArray → D) (nd : D → D → D) (zero : D)

/-- `State.Commitment(minerAddr, txns, v2txns)`: the state/miner leaf, then a leaf for every v1 and
every v2 transaction encoding -/
def commitmentG (stateHash minerAddr : Bytes) (v1Encs v2Encs : List Bytes) : D :=
  Sia.Policy.merkleRootG nd zero ((commitmentLeafData stateHash minerAddr :: (v1Encs ++ v2Encs)).map (fun d => lf (toBA d)))

/-- `blockMerkleRoot(minerPayouts, txns)`: a leaf for every miner payout, then for every transaction -/
def blockMerkleRootG (payoutEncs txnEncs : List Bytes) : D :=
  Sia.Policy.merkleRootG nd zero ((payoutEncs ++ txnEncs).map (fun d => lf (toBA d)))
end trees

/-- real BLAKE2b instances (driver) -/
def commitmentB (stateEnc minerAddr : Bytes) (v1Encs v2Encs : List Bytes) : ByteArray :=
  commitmentG (Sia.Policy.leafHash Sia.blake2b256) (Sia.Policy.nodeHash Sia.blake2b256) (Sia.Bytes.zeros 32)
    (blake stateEnc) minerAddr v1Encs v2Encs
def blockMerkleRootB (payoutEncs txnEncs : List Bytes) : ByteArray :=
  blockMerkleRootG (Sia.Policy.leafHash Sia.blake2b256) (Sia.Policy.nodeHash Sia.blake2b256) (Sia.Bytes.zeros 32) payoutEncs txnEncs

end Sia.Ids
