import SiaModel.Codec.Comb
import SiaModel.Codec.Irregular
import SiaModel.Codec.Size
import SiaModel.Gen.FactsFraming
/-!
# SiaModel.Rhp4.Framing — message framing of rhp/v4, the gateway, rhp/v2 and rhp/v3 (C19)

A receiver never hands the raw stream to a decoder: it wraps it in an
`io.LimitedReader{N: limit}`. `readLimited` is that: the decoder sees `stream.take N`
and the reader's remaining allowance beyond the bytes present is the decoder's `slack`.

* rhp/v4 (`rhp/v4/transport.go`): `ReadRequest` limit `o.maxLen()`; `WriteResponse` =
  error flag (`1` iff the object is an `*RPCError`) + object; `ReadResponse` limit
  `RPCError.maxLen() + o.maxLen()`, an error flag `1` makes the call return that error.
* gateway (`gateway/transport.go`, `encoding.go`): v2 streams like rhp/v4 without flag,
  a zero limit means "nothing is read"; the handshake uses the v1 framing (8-byte length
  prefix that the reader ignores, limit `8 + maxLen`) and `validateHeader`.
* rhp/v2 (`rhp/v2/transport.go`): `writeMessage`/`readMessage` frames
  `len ‖ nonce ‖ AEAD(nonce, payload ‖ padding)` with a **symbolic AEAD**, padding to
  `minMessageSize`, sticky error after an authentication failure.
* rhp/v3 (`rhp/v3/transport.go`): `writeObject`/`readObject` length prefix and limit.
-/
namespace Sia.Framing
open Sia.Codec

/-- what a bounded read returns: the value and the number of bytes pulled from the stream -/
abbrev ReadRes := Except DecErr (Val × Nat)

/-- read one message of leaf codec `c` through `io.LimitedReader{N}` -/
def readLimitedC (c : Codec) (N : Nat) (stream : Bytes) : ReadRes :=
  match c.dec false (N - (stream.take N).length) (stream.take N) with
  | .ok (v, rest) => .ok (v, (stream.take N).length - rest.length)
  | .error e => .error e

/-- read one message of schema `s` through `io.LimitedReader{N}` -/
def readLimited (E : Env) (N : Nat) (s : Sch) (stream : Bytes) : ReadRes :=
  readLimitedC (Codec.ofSch E s) N stream

/-! ## rhp/v4 -/

/-- `RPCError` (code, description) as generated from `(*RPCError).encodeTo` -/
def rhp4ErrSch : Sch := Gen.encSchema_Rhp4_RPCError

/-- `WriteRequest(w, id, o)`: the 16-byte RPC id, then the object -/
def rhp4WriteRequest (E : Env) (id : Bytes) (s : Sch) (v : Val) : Bytes := id ++ enc E s v

/-- `ReadRequest(r, o)`: limit `o.maxLen()` -/
def rhp4ReadRequest (E : Env) (s : Sch) (maxLen : Nat) (stream : Bytes) : ReadRes :=
  readLimited E maxLen s stream

/-- a response on the wire: flag byte 0 + object, or flag byte 1 + `RPCError`.
Values: `pair (nat 0) obj` / `pair (nat 1) err`. -/
def rhp4RespCodec (E : Env) (s : Sch) : Codec :=
  Codec.tagged [(0, Codec.ofSch E s), (1, Codec.ofSch E rhp4ErrSch)]

def respObj (v : Val) : Val := .pair (.nat 0) v
def respErr (e : Val) : Val := .pair (.nat 1) e

/-- `WriteResponse(w, o)` -/
def rhp4WriteResponse (E : Env) (s : Sch) (r : Val) : Bytes := (rhp4RespCodec E s).enc r

/-- the limit `ReadResponse` applies: `(*RPCError)(nil).maxLen() + o.maxLen()` -/
def rhp4RespLimit (maxLen : Nat) : Nat := Gen.Framing.rhp4_maxLen_RPCError + maxLen

/-- `ReadResponse(r, o)`: the result `pair (nat 1) e` is "the call returns the error `e`" -/
def rhp4ReadResponse (E : Env) (s : Sch) (maxLen : Nat) (stream : Bytes) : ReadRes :=
  readLimitedC (rhp4RespCodec E s) (rhp4RespLimit maxLen) stream

/-- `RPCError` value -/
def rpcError (code : Nat) (desc : Bytes) : Val := .pair (.nat code) (.pair (.bytes desc) .unit)

/-! ## gateway -/

/-- v2 stream: `ReadRequest`/`ReadResponse` read nothing when the limit is 0 -/
def gwRead (E : Env) (s : Sch) (maxLen : Nat) (stream : Bytes) : ReadRes :=
  if maxLen = 0 then .ok (.unit, 0) else readLimited E maxLen s stream

/-- v1 framing (`withV1Encoder`): an 8-byte length prefix, then the payload -/
def gwV1Write (payload : Bytes) : Bytes := u64le payload.length ++ payload

/-- v1 framing (`withV1Decoder(r, maxLen, fn)`): limit `8 + maxLen`, the prefix is read and ignored -/
def gwV1Read (E : Env) (s : Sch) (maxLen : Nat) (stream : Bytes) : ReadRes :=
  readLimited E (8 + maxLen) (.cons "prefix" .u64 (.cons "payload" s .nil)) stream

structure Header where
  genesis : Bytes   -- 32 bytes
  unique : Bytes    -- 8 bytes
  addr : Bytes
  deriving DecidableEq, Repr

inductive Verdict where
  | accept
  | reject (msg : String)
  deriving DecidableEq, Repr

/-- `validateHeader(ours, theirs)` -/
def validateHeader (ours theirs : Header) : Verdict :=
  if theirs.genesis ≠ ours.genesis then .reject "peer has different genesis block"
  else if theirs.unique = ours.unique then .reject "peer has same unique ID as us"
  else .accept

/-- the header exchange of `Dial` (sends its header first) against `Accept`: the acceptor
validates the dialer's header and answers "accept" or the rejection message; only after
"accept" does it send its own header, which the dialer validates the same way.
Result: (dialer's outcome, acceptor's outcome). -/
def handshake (dialer acceptor : Header) : Verdict × Verdict :=
  match validateHeader acceptor dialer with
  | .reject m => (.reject ("peer rejected our header: " ++ m), .reject m)
  | .accept =>
    match validateHeader dialer acceptor with
    | .reject m => (.reject m, .reject ("peer rejected our header: " ++ m))
    | .accept => (.accept, .accept)

/-! ## rhp/v2 encrypted frames, symbolic AEAD -/

/-- an AEAD with 12-byte nonces and 16-byte tags, symbolically -/
structure AEAD where
  sealF : Bytes → Bytes → Bytes            -- nonce → plaintext → ciphertext ‖ tag
  openF : Bytes → Bytes → Option Bytes   -- nonce → ciphertext ‖ tag → plaintext

def nonceSize : Nat := 12
def tagSize : Nat := 16

/-- `writeMessage`: `len ‖ nonce ‖ seal(nonce, payload ‖ padding)`; `padding` is whatever the
buffer holds up to `minMessageSize` (its length is fixed by the code, its content is not) -/
def rhp2PadLen (payloadLen : Nat) : Nat :=
  Gen.Framing.rhp2_minMessageSize - min Gen.Framing.rhp2_minMessageSize (8 + nonceSize + payloadLen + tagSize)

def rhp2Frame (A : AEAD) (nonce payload padding : Bytes) : Bytes :=
  let body := nonce ++ A.sealF nonce (payload ++ padding)
  u64le body.length ++ body

/-- receiver state: the sticky error (`t.err`) -/
abbrev Rhp2State := Option DecErr

inductive Rhp2Out where
  | msg (plaintext : Bytes) (rest : Bytes)   -- authenticated plaintext (payload ‖ padding), remaining stream
  | fail (fatal : Bool)                      -- fatal = the sticky error was set (`setErr`)
  deriving Repr

/-- `readMessage` up to the point where the plaintext is handed to the object decoder -/
def rhp2ReadFrame (A : AEAD) (st : Rhp2State) (maxLen : Nat) (stream : Bytes) : Rhp2Out × Rhp2State :=
  match st with
  | some _ => (.fail false, st)
  | none =>
    let maxLen := max maxLen Gen.Framing.rhp2_minMessageSize
    match readU64 stream with
    | .error _ => (.fail false, st)
    | .ok (n, r) =>
      if maxLen < n then (.fail false, st)
      else if n < nonceSize + tagSize then (.fail false, st)
      else match takeN n r with
        | .error _ => (.fail false, st)
        | .ok (body, rest) =>
          match A.openF (body.take nonceSize) (body.drop nonceSize) with
          | none => (.fail true, some .invalid)
          | some pt => (.msg pt rest, st)

/-- `readMessage`: the object is decoded from the plaintext with `NewBufDecoder` (padding ignored) -/
def rhp2ReadMessage (A : AEAD) (E : Env) (s : Sch) (st : Rhp2State) (maxLen : Nat) (stream : Bytes) :
    Except DecErr (Val × Bytes) × Rhp2State :=
  match rhp2ReadFrame A st maxLen stream with
  | (.msg pt rest, st') =>
    (match dec E 0 s pt with
     | .ok (v, _) => (.ok (v, rest), st')
     | .error e => (.error e, st'))
  | (.fail _, st') => (.error .invalid, st')

/-! ## rhp/v3 objects -/

/-- `writeObject`: 8-byte length, then flag + object; `tail` = the part of the object sent
outside the announced length (`ProgramData` / `Output` of ExecuteProgram, else 0) -/
def rhp3WriteObject (E : Env) (s : Sch) (r : Val) (tail : Nat) : Bytes :=
  let b := (rhp4RespCodec E s).enc r
  u64le (b.length - tail) ++ b

/-- the limit `readObject` applies: `maxLen + minMessageSize` -/
def rhp3Limit (maxLen : Nat) : Nat := maxLen + Gen.Framing.rhp3_minMessageSize

/-- `readObject`: limited reader of `maxLen + minMessageSize`; the announced length must not
exceed that limit (it is not otherwise used); then flag + object (or error) are decoded -/
def rhp3ReadObject (E : Env) (s : Sch) (maxLen : Nat) (stream : Bytes) : ReadRes :=
  let seen := stream.take (rhp3Limit maxLen)
  match readU64 seen with
  | .ok (l, r) =>
    if rhp3Limit maxLen < l then .error .invalid
    else match (rhp4RespCodec E s).dec false (rhp3Limit maxLen - seen.length) r with
      | .ok (v, rest) => .ok (v, seen.length - rest.length)
      | .error e => .error e
  | .error e => .error e

/-! ### rhp/v3 RPCs on one stream: the per-RPC subscription frame

`(*Stream).WriteRequest` writes, for EVERY RPC, a subscription frame (`len ‖ "host"` as a
length-prefixed string), then the id object, then the request object; `(*Stream).ReadID` reads a
subscription frame (through a reader limited to `minMessageSize`), answers it, then reads the id.
The mux below is symbolic: an ordered, lossless byte stream (concatenation). -/

/-- the subscriber name every RPC announces -/
def rhp3Subscriber : Bytes := [104, 111, 115, 116]  -- "host"

/-- subscription frame: `e.WriteUint64(8 + len("host")); e.WriteString("host")` -/
def rhp3SubFrame : Bytes := u64le (8 + rhp3Subscriber.length) ++ (u64le rhp3Subscriber.length ++ rhp3Subscriber)

def rhp3SubSch : Sch := .cons "length" .u64 (.cons "subscriber" .str .nil)

/-- the 16-byte RPC id, sent as an object -/
def rhp3IdSch : Sch := .fixed 16

/-- `WriteRequest(id, req)`: subscription, id object, request object -/
def rhp3WriteRPC (E : Env) (s : Sch) (id req : Val) : Bytes :=
  rhp3SubFrame ++ (rhp3WriteObject E rhp3IdSch (respObj id) 0 ++ rhp3WriteObject E s (respObj req) 0)

/-- the host's `ReadID` + `ReadRequest`: the (id, request) read and the rest of the stream -/
def rhp3HostReadRPC (E : Env) (s : Sch) (maxLen : Nat) (stream : Bytes) : Except DecErr ((Val × Val) × Bytes) :=
  match readLimited E Gen.Framing.rhp3_minMessageSize rhp3SubSch stream with
  | .ok (.pair _ (.pair (.bytes name) .unit), c1) =>
    if name ≠ rhp3Subscriber then .error .invalid else
    match rhp3ReadObject E rhp3IdSch 16 (stream.drop c1) with
    | .ok (.pair (.nat 0) id, c2) =>
      (match rhp3ReadObject E s maxLen ((stream.drop c1).drop c2) with
       | .ok (.pair (.nat 0) req, c3) => .ok ((id, req), ((stream.drop c1).drop c2).drop c3)
       | .ok _ => .error .invalid
       | .error e => .error e)
    | .ok _ => .error .invalid
    | .error e => .error e
  | .ok _ => .error .invalid
  | .error e => .error e

/-- `k` RPCs written one after the other on the stream -/
def rhp3WriteSeq (E : Env) (s : Sch) : List (Val × Val) → Bytes
  | [] => []
  | (id, req) :: rest => rhp3WriteRPC E s id req ++ rhp3WriteSeq E s rest

/-- the host reading `n` RPCs from the stream -/
def rhp3HostReadSeq (E : Env) (s : Sch) (maxLen : Nat) : Nat → Bytes → Except DecErr (List (Val × Val) × Bytes)
  | 0, stream => .ok ([], stream)
  | n + 1, stream =>
    match rhp3HostReadRPC E s maxLen stream with
    | .ok (r, rest) =>
      (match rhp3HostReadSeq E s maxLen n rest with
       | .ok (rs, rest') => .ok (r :: rs, rest')
       | .error e => .error e)
    | .error e => .error e

end Sia.Framing
