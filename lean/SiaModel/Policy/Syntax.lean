import SiaModel.Prim.Bytes
/-!
  SiaModel.Policy.Syntax — spend policies as a tree (types/policy.go).

  Public keys, hashes, addresses, signatures and preimages are byte strings
  (32/32/32/64/32 bytes in well-formed objects; the model never depends on the
  lengths). `UnlockKey.algorithm` is the 16-byte specifier.
-/
namespace Sia.Policy

/-- types.UnlockKey -/
structure UnlockKey where
  algorithm : ByteArray
  key : ByteArray

/-- types.UnlockConditions -/
structure UnlockConditions where
  timelock : Nat
  publicKeys : List UnlockKey
  signaturesRequired : Nat

/-- types.SpendPolicy. `after` holds Unix seconds as a signed 64-bit value
    (the wire format is second-resolution). `thresh n subs`: `n` is a uint8 in Go. -/
inductive Policy where
  | above (h : Nat)
  | after (t : Int)
  | pk (key : ByteArray)
  | hash (h : ByteArray)
  | thresh (n : Nat) (subs : List Policy)
  | opaque (addr : ByteArray)
  | uc (c : UnlockConditions)

instance : Inhabited Policy := ⟨.thresh 0 []⟩

/-- 16-byte specifier of a short ASCII name (types.NewSpecifier). -/
def specifier (name : String) : ByteArray :=
  let b := name.toUTF8
  b ++ Bytes.zeros (16 - b.size)

def specEd25519 : ByteArray := specifier "ed25519"
def specEntropy : ByteArray := specifier "entropy"

def Policy.isOpaque : Policy → Bool
  | .opaque _ => true
  | _ => false

def Policy.isUC : Policy → Bool
  | .uc _ => true
  | _ => false

mutual
/-- number of nodes of the tree (every leaf and every threshold counts 1) -/
def Policy.nodes : Policy → Nat
  | .thresh _ subs => 1 + nodesList subs
  | _ => 1
def nodesList : List Policy → Nat
  | [] => 0
  | p :: ps => p.nodes + nodesList ps
end

mutual
/-- number of sub-policies: what `totalPolicies` counts when every threshold is visited
    (the sum of `len(p.Of)` over all thresholds) -/
def Policy.subCount : Policy → Nat
  | .thresh _ subs => subs.length + subCountList subs
  | _ => 0
def subCountList : List Policy → Nat
  | [] => 0
  | p :: ps => p.subCount + subCountList ps
end

mutual
/-- all non-threshold nodes, left to right -/
def Policy.leaves : Policy → List Policy
  | .thresh _ subs => leavesList subs
  | p => [p]
def leavesList : List Policy → List Policy
  | [] => []
  | p :: ps => p.leaves ++ leavesList ps
end

mutual
/-- nesting depth: leaves are 0 -/
def Policy.depth : Policy → Nat
  | .thresh _ subs => 1 + depthList subs
  | _ => 0
def depthList : List Policy → Nat
  | [] => 0
  | p :: ps => max p.depth (depthList ps)
end

mutual
/-- every threshold has at most `b` children -/
def Policy.breadthLe (b : Nat) : Policy → Bool
  | .thresh _ subs => decide (subs.length ≤ b) && breadthLeList b subs
  | _ => true
def breadthLeList (b : Nat) : List Policy → Bool
  | [] => true
  | p :: ps => p.breadthLe b && breadthLeList b ps
end

end Sia.Policy
