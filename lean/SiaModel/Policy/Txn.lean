import SiaModel.Policy.Verify
import SiaModel.Policy.Address
/-!
  SiaModel.Policy.Txn — the policy part of `validateV2Siacoins` / `validateV2Siafunds`
  (consensus/validation.go): for EVERY input, in order, `validateV2SpendPolicy`:
    `sp.Policy.Address() != parentAddress`  → "claims incorrect policy for parent address"
    `sp.Policy.Verify(ms.base.Index.Height, ms.base.medianTimestamp(), sigHash, sigs, preimages)`
  The environment is the same for all inputs of a transaction: the height of the PARENT
  state (`ms.base.Index.Height`, not the child height), its median timestamp, and the one
  input signature hash of the transaction. The first failing input decides the error.
-/
namespace Sia.Policy

/-- what the policy check sees of one `V2SiacoinInput` / `V2SiafundInput` -/
structure TxInput where
  policy : Policy
  sigs : List ByteArray
  pres : List ByteArray
  /-- `Parent.SiacoinOutput.Address` / `Parent.SiafundOutput.Address` -/
  parentAddress : ByteArray

inductive TxErr where
  | wrongPolicy (input : Nat)            -- "claims incorrect policy for parent address"
  | unsatisfied (input : Nat) (e : VErr)  -- "failed to satisfy spend policy … %w"

/-- `validateV2SpendPolicy` -/
def validateSpendPolicy (H : ByteArray → ByteArray) (E : Env) (idx : Nat) (i : TxInput) : Except TxErr Unit :=
  if addressWith H i.policy ≠ i.parentAddress then .error (.wrongPolicy idx)
  else match verify E i.policy i.sigs i.pres with
    | .error e => .error (.unsatisfied idx e)
    | .ok () => .ok ()

/-- the `for i, sci := range txn.SiacoinInputs` loop (policy part) -/
def validateInputsFrom (H : ByteArray → ByteArray) (E : Env) : Nat → List TxInput → Except TxErr Unit
  | _, [] => .ok ()
  | idx, i :: rest =>
    match validateSpendPolicy H E idx i with
    | .error e => .error e
    | .ok () => validateInputsFrom H E (idx + 1) rest

def validateInputs (H : ByteArray → ByteArray) (E : Env) (ins : List TxInput) : Except TxErr Unit :=
  validateInputsFrom H E 0 ins

end Sia.Policy
