import SiaModel.Policy.Syntax
import SiaModel.Prim.Blake2b
/-!
  SiaModel.Policy.Address — binary encoding of policies (types/encoding.go
  `encodePolicy`, `SpendPolicy.EncodeTo`, `UnlockConditions.EncodeTo`),
  `SpendPolicy.Address`, `PolicyOpaque`, `unlockConditionsRoot`, and the two
  hand-unrolled fast paths `StandardAddress` / `StandardUnlockHash` (types/hash.go).

  Everything is parametrised by the 256-bit hash `H` (BLAKE2b-256 in the driver,
  arbitrary in theorems).
-/
namespace Sia.Policy

def byte (n : Nat) : ByteArray := ByteArray.empty.push (UInt8.ofNat n)

/-- opcodes of `encodePolicy` -/
def opAbove : Nat := 1
def opAfter : Nat := 2
def opPublicKey : Nat := 3
def opHash : Nat := 4
def opThreshold : Nat := 5
def opOpaque : Nat := 6
def opUnlockConditions : Nat := 7
/-- `const version = 1` of `SpendPolicy.EncodeTo` -/
def policyVersion : Nat := 1

/-- `UnlockKey.EncodeTo`: specifier, then length-prefixed key -/
def encUnlockKey (k : UnlockKey) : ByteArray :=
  k.algorithm ++ le64 k.key.size ++ k.key

/-- `UnlockConditions.EncodeTo` -/
def encUC (c : UnlockConditions) : ByteArray :=
  le64 c.timelock ++ le64 c.publicKeys.length
    ++ Bytes.concat (c.publicKeys.map encUnlockKey) ++ le64 c.signaturesRequired

/-- `uint64(t.Unix())` -/
def timeU64 (t : Int) : Nat := (t % 18446744073709551616).toNat

mutual
/-- `SpendPolicy.encodePolicy` (note `uint8(len(p.Of))` truncates) -/
def encPolicy : Policy → ByteArray
  | .above h => byte opAbove ++ le64 h
  | .after t => byte opAfter ++ le64 (timeU64 t)
  | .pk k => byte opPublicKey ++ k
  | .hash h => byte opHash ++ h
  | .thresh n subs => byte opThreshold ++ byte n ++ byte subs.length ++ encPolicies subs
  | .opaque a => byte opOpaque ++ a
  | .uc c => byte opUnlockConditions ++ encUC c
def encPolicies : List Policy → ByteArray
  | [] => ByteArray.empty
  | p :: ps => encPolicy p ++ encPolicies ps
end

/-- `SpendPolicy.EncodeTo` -/
def encode (p : Policy) : ByteArray := byte policyVersion ++ encPolicy p

/-- `"sia/address|"` (Hasher.WriteDistinguisher) -/
def addressPrefix : ByteArray := "sia/address|".toUTF8

/-! ### blake2b.Accumulator restricted to what `unlockConditionsRoot` uses -/

def leafHash (H : ByteArray → ByteArray) (data : ByteArray) : ByteArray := H (byte 0 ++ data)
def nodeHash (H : ByteArray → ByteArray) (l r : ByteArray) : ByteArray := H (byte 1 ++ l ++ r)

/-- `Accumulator.AddLeaf`, over any node-combining function: the stack holds `(height, root)`
    of the complete subtrees, smallest first; equal heights merge
    (`for ; acc.hasTreeAtHeight(i); i++`). -/
def accAddG {D : Type} (node : D → D → D) : List (Nat × D) → Nat → D → List (Nat × D)
  | [], i, h => [(i, h)]
  | (ht, t) :: rest, i, h =>
    if ht = i then accAddG node rest (i + 1) (node t h) else (i, h) :: (ht, t) :: rest

/-- `Accumulator.Root`: start from the smallest tree, fold the larger ones on the left. -/
def accRootG {D : Type} (node : D → D → D) (zero : D) : List (Nat × D) → D
  | [] => zero
  | (_, t) :: rest => rest.foldl (fun root x => node x.2 root) t

def merkleRootG {D : Type} (node : D → D → D) (zero : D) (leaves : List D) : D :=
  accRootG node zero (leaves.foldl (fun acc l => accAddG node acc 0 l) [])

/-- `unlockConditionsRoot`, over an abstract hash algebra (`leaf` = BLAKE2b(0x00 ‖ ·),
    `node` = BLAKE2b(0x01 ‖ · ‖ ·)): the Merkle root of
    timelock | key₀ … keyₙ₋₁ | signaturesRequired -/
def ucRootG {D : Type} (leaf : ByteArray → D) (node : D → D → D) (zero : D) (c : UnlockConditions) : D :=
  merkleRootG node zero
    ([leaf (le64 c.timelock)]
      ++ c.publicKeys.map (fun k => leaf (encUnlockKey k))
      ++ [leaf (le64 c.signaturesRequired)])

def accAdd (H : ByteArray → ByteArray) := accAddG (nodeHash H)
def accRoot (H : ByteArray → ByteArray) := accRootG (nodeHash H) (Bytes.zeros 32)
def merkleRoot (H : ByteArray → ByteArray) (leaves : List ByteArray) : ByteArray :=
  merkleRootG (nodeHash H) (Bytes.zeros 32) leaves

/-- `unlockConditionsRoot` -/
def ucRoot (H : ByteArray → ByteArray) (c : UnlockConditions) : ByteArray :=
  ucRootG (leafHash H) (nodeHash H) (Bytes.zeros 32) c

mutual
/-- `SpendPolicy.Address` -/
def addressWith (H : ByteArray → ByteArray) : Policy → ByteArray
  | .uc c => ucRoot H c
  | .thresh n subs => H (addressPrefix ++ encode (.thresh n (opaqueList H subs)))
  | .above h => H (addressPrefix ++ encode (.above h))
  | .after t => H (addressPrefix ++ encode (.after t))
  | .pk k => H (addressPrefix ++ encode (.pk k))
  | .hash h => H (addressPrefix ++ encode (.hash h))
  | .opaque a => H (addressPrefix ++ encode (.opaque a))
/-- `for i := range pt.Of { pt.Of[i] = PolicyOpaque(pt.Of[i]) }` -/
def opaqueList (H : ByteArray → ByteArray) : List Policy → List Policy
  | [] => []
  | c :: cs =>
    (match c with
      | .opaque a => .opaque a
      | .above h => .opaque (addressWith H (.above h))
      | .after t => .opaque (addressWith H (.after t))
      | .pk k => .opaque (addressWith H (.pk k))
      | .hash h => .opaque (addressWith H (.hash h))
      | .thresh n s => .opaque (addressWith H (.thresh n s))
      | .uc u => .opaque (addressWith H (.uc u))) :: opaqueList H cs
end

/-- `PolicyOpaque` -/
def policyOpaque (H : ByteArray → ByteArray) : Policy → Policy
  | .opaque a => .opaque a
  | p => .opaque (addressWith H p)

mutual
/-- `Opq H p q`: `q` is `p` with some set of SUB-policies, at any depth, replaced by
    their opaque form (`PolicyOpaque`); the root itself is never replaced. -/
inductive Opq (H : ByteArray → ByteArray) : Policy → Policy → Prop where
  | keep (p : Policy) : Opq H p p
  | inside {n : Nat} {subs subs' : List Policy} : OpqL H subs subs' → Opq H (.thresh n subs) (.thresh n subs')
/-- child by child: keep it (possibly with replacements inside) or hide it -/
inductive OpqL (H : ByteArray → ByteArray) : List Policy → List Policy → Prop where
  | nil : OpqL H [] []
  | same {c c' : Policy} {cs cs' : List Policy} : Opq H c c' → OpqL H cs cs' → OpqL H (c :: cs) (c' :: cs')
  | hide {c c' : Policy} {cs cs' : List Policy} : Opq H c c' → OpqL H cs cs' → OpqL H (c :: cs) (policyOpaque H c' :: cs')
end

/-- `StandardAddress` (hash.go), hand-unrolled -/
def standardAddress (H : ByteArray → ByteArray) (pk : ByteArray) : ByteArray :=
  H (addressPrefix ++ byte 1 ++ byte 3 ++ pk)

/-- `StandardUnlockHash` (hash.go), with its two precomputed leaf hashes as parameters -/
def standardUnlockHash (H : ByteArray → ByteArray) (timelockHash sigsrequiredHash pk : ByteArray) : ByteArray :=
  let pubkeyHash := H (byte 0 ++ specEd25519 ++ le64 32 ++ pk)
  nodeHash H (nodeHash H timelockHash pubkeyHash) sigsrequiredHash

/-- the condition of the "standard" fast path of `UnlockConditions.UnlockHash` (types.go):
    `uc.Timelock == 0 && len(uc.PublicKeys) == 1 && uc.PublicKeys[0].Algorithm == SpecifierEd25519
     && len(uc.PublicKeys[0].Key) == len(PublicKey{}) && uc.SignaturesRequired == 1` -/
def fastPathCond (c : UnlockConditions) : Bool :=
  match c.publicKeys with
  | [k] => c.timelock == 0 && decide (k.algorithm = specEd25519) && k.key.size == 32 && c.signaturesRequired == 1
  | _ => false

/-- `UnlockConditions.UnlockHash` (types.go): the fast path, else `unlockConditionsRoot`.
    (`SpendPolicy.Address` of a `uc` policy calls `unlockConditionsRoot` directly.) -/
def unlockHash (H : ByteArray → ByteArray) (timelockHash sigsrequiredHash : ByteArray) (c : UnlockConditions) : ByteArray :=
  if fastPathCond c then
    match c.publicKeys with
    | k :: _ => standardUnlockHash H timelockHash sigsrequiredHash k.key
    | [] => ucRoot H c
  else ucRoot H c

/-- the executable instance: real BLAKE2b-256 -/
def address (p : Policy) : ByteArray := addressWith blake2b256 p

end Sia.Policy
