import SiaModel.Policy.Address
/-!
  SiaModel.Policy.Codec — `SpendPolicy.DecodeFrom` (types/encoding.go), with its
  `maxPolicyDepth` nesting limit. The Go decoder has a sticky error and returns
  zeros after it; as every error makes the final `d.Err()` non-nil, a strict
  parser (`none` on the first error) has the same accept/reject behaviour and the
  same value on accept. Trailing bytes are not the policy decoder's concern.
-/
namespace Sia.Policy

/-- `const maxPolicyDepth = 32` (encoding.go) -/
def maxPolicyDepth : Nat := 32

def readU8 (b : ByteArray) (off : Nat) : Option (Nat × Nat) :=
  if h : off < b.size then some (b[off].toNat, off + 1) else none

def readU64 (b : ByteArray) (off : Nat) : Option (Nat × Nat) :=
  if off + 8 ≤ b.size then some (readLe64 b off, off + 8) else none

def readN (b : ByteArray) (n off : Nat) : Option (ByteArray × Nat) :=
  if off + n ≤ b.size then some (b.extract off (off + n), off + n) else none

/-- `int64(u)` -/
def toInt64 (u : Nat) : Int :=
  if u < 9223372036854775808 then (u : Int) else (u : Int) - 18446744073709551616

/-- `UnlockKey.DecodeFrom`: 16-byte specifier, `ReadBytes` (length prefix must not exceed what is left) -/
def decodeKey (b : ByteArray) (off : Nat) : Option (UnlockKey × Nat) := do
  let (alg, off) ← readN b 16 off
  let (n, off) ← readU64 b off
  if n > b.size - off then none
  let (key, off) ← readN b n off
  pure (⟨alg, key⟩, off)

def decodeKeys (b : ByteArray) : Nat → Nat → Option (List UnlockKey × Nat)
  | 0, off => some ([], off)
  | k + 1, off => do
    let (key, off) ← decodeKey b off
    let (ks, off) ← decodeKeys b k off
    pure (key :: ks, off)

/-- `UnlockConditions.DecodeFrom` (`DecodeSlice` rejects a count larger than the bytes left) -/
def decodeUC (b : ByteArray) (off : Nat) : Option (UnlockConditions × Nat) := do
  let (tl, off) ← readU64 b off
  let (n, off) ← readU64 b off
  if n > b.size - off then none
  let (ks, off) ← decodeKeys b n off
  let (req, off) ← readU64 b off
  pure (⟨tl, ks, req⟩, off)

mutual
/-- `readPolicy(depth)` -/
def decodeP (b : ByteArray) (depth off : Nat) : Option (Policy × Nat) :=
  if _hd : depth > maxPolicyDepth then none
  else
    match readU8 b off with
    | none => none
    | some (op, off) =>
      if op = opAbove then do
        let (h, off) ← readU64 b off
        pure (.above h, off)
      else if op = opAfter then do
        let (t, off) ← readU64 b off
        pure (.after (toInt64 t), off)
      else if op = opPublicKey then do
        let (k, off) ← readN b 32 off
        pure (.pk k, off)
      else if op = opHash then do
        let (k, off) ← readN b 32 off
        pure (.hash k, off)
      else if op = opThreshold then
        match readU8 b off with
        | none => none
        | some (n, off) =>
          match readU8 b off with
          | none => none
          | some (cnt, off) =>
            match decodeN b (depth + 1) cnt off with
            | none => none
            | some (subs, off) => some (.thresh n subs, off)
      else if op = opOpaque then do
        let (k, off) ← readN b 32 off
        pure (.opaque k, off)
      else if op = opUnlockConditions then do
        let (c, off) ← decodeUC b off
        pure (.uc c, off)
      else none
termination_by (maxPolicyDepth + 1 - depth, 0)
decreasing_by
  all_goals simp_wf
  all_goals (apply Prod.Lex.left; simp [maxPolicyDepth] at *; omega)
/-- `for i := range of { of[i], err = readPolicy(depth + 1) }` -/
def decodeN (b : ByteArray) (depth cnt off : Nat) : Option (List Policy × Nat) :=
  match cnt with
  | 0 => some ([], off)
  | k + 1 =>
    match decodeP b depth off with
    | none => none
    | some (p, off) =>
      match decodeN b depth k off with
      | none => none
      | some (ps, off) => some (p :: ps, off)
termination_by (maxPolicyDepth + 1 - depth, cnt + 1)
decreasing_by
  all_goals simp_wf
  · apply Prod.Lex.right; omega
  · apply Prod.Lex.right; omega
end

/-- `SpendPolicy.DecodeFrom`: version byte, then `readPolicy(0)` -/
def decode (b : ByteArray) : Option Policy :=
  match readU8 b 0 with
  | none => none
  | some (v, off) =>
    if v ≠ policyVersion then none
    else (decodeP b 0 off).map (·.1)

end Sia.Policy
