import SiaModel.Policy.Syntax
/-!
  SiaModel.Policy.Verify — `SpendPolicy.Verify` (types/policy.go:122-227), mirrored
  statement by statement as a state-passing function.

  State = the two witness cursors (`sigs`, `preimages` are consumed from the front by
  `nextSig` / `nextPreimage`) and the `totalPolicies` counter. The environment holds
  `height`, `medianTimestamp` (Unix seconds), `sigHash`, and the two primitives the
  verifier calls: `PublicKey.VerifyHash` (an oracle here: Ed25519 is not
  re-implemented) and `sha256.Sum256`.

  Faithfulness notes (all visible in the Go text):
  * `PolicyTypePublicKey` / `PolicyTypeHash`: Go pops the witness *before* checking it;
    as a failed check is fatal the popped-but-invalid state is unobservable.
  * `satisfied` is a `uint8`; it cannot wrap because `len(p.Of) ≤ 255` was checked.
  * The `uc` branch does not touch `totalPolicies`, reads `sigs` (the shared cursor)
    directly, and copies at most 32 bytes of an ed25519 key into a zeroed `PublicKey`.
  * `medianTimestamp.After(t)`: `time.Unix(s,0)` stores `s + 62135596800` in an int64
    (wrapping); `After` compares those internal seconds.
-/
namespace Sia.Policy

/-- error classes of `Verify`, one per `return err` site -/
inductive VErr where
  | height        -- "height (%v) not above %v"
  | time          -- "median timestamp (%v) not after %v"
  | sig           -- "invalid signature"
  | preimage      -- "invalid preimage"
  | complex       -- "policy is too complex"
  | ucSub         -- "unlock conditions cannot be sub-policies"
  | exceeded      -- "threshold exceeded"
  | notReached    -- "threshold not reached: satisfied %v, required %v"
  | opaque        -- "opaque policy"
  | entropy       -- "policy uses an entropy public key"
  | ucNotReached  -- "threshold not reached: remaining signatures %v"
  | superSig      -- "superfluous signature(s)"
  | superPre      -- "superfluous preimage(s)"
  deriving DecidableEq, Repr

def VErr.name : VErr → String
  | .height => "height" | .time => "time" | .sig => "sig" | .preimage => "preimage"
  | .complex => "complex" | .ucSub => "uc-sub" | .exceeded => "exceeded"
  | .notReached => "not-reached" | .opaque => "opaque" | .entropy => "entropy"
  | .ucNotReached => "uc-not-reached" | .superSig => "super-sig" | .superPre => "super-pre"

/-- `const maxPolicies = 1024` (policy.go) -/
def maxPolicies : Nat := 1024
/-- `len(p.Of) > 255` (policy.go) -/
def maxChildren : Nat := 255

structure Env where
  height : Nat
  /-- medianTimestamp, Unix seconds -/
  median : Int
  sigHash : ByteArray
  /-- `PublicKey(k).VerifyHash(sigHash, sig)` -/
  verifySig : ByteArray → ByteArray → ByteArray → Bool
  /-- `sha256.Sum256` -/
  sha : ByteArray → ByteArray

structure St where
  sigs : List ByteArray
  pres : List ByteArray
  total : Nat

/-- two's-complement wrap of an integer into int64 -/
def wrap64 (x : Int) : Int :=
  (x + 9223372036854775808) % 18446744073709551616 - 9223372036854775808

/-- internal seconds of `time.Unix(s, 0)`: `s + unixToInternal`, wrapping in int64 -/
def goTimeSec (s : Int) : Int := wrap64 (s + 62135596800)

/-- `time.Unix(a,0).After(time.Unix(b,0))` -/
def timeAfter (a b : Int) : Bool := decide (goTimeSec a > goTimeSec b)

/-- `copy(epk[:], pk.Key)` into a zeroed 32-byte array -/
def pad32 (k : ByteArray) : ByteArray :=
  let k' := k.extract 0 32
  k' ++ Bytes.zeros (32 - k'.size)

/-- The `for i, pk := range p.PublicKeys` loop of the `uc` branch. Returns the
    remaining `SignaturesRequired` and the remaining signatures. -/
def ucLoop (E : Env) : List UnlockKey → Nat → List ByteArray → Except VErr (Nat × List ByteArray)
  | [], req, sigs => .ok (req, sigs)
  | k :: ks, req, sigs =>
    if req = 0 ∨ req > (k :: ks).length ∨ req > sigs.length then .ok (req, sigs) -- break
    else
      match sigs with
      | [] => .ok (req, sigs) -- unreachable: 0 < req ≤ len(sigs)
      | s :: rest =>
        if k.algorithm = specEntropy then .error .entropy
        else if k.algorithm = specEd25519 then
          if E.verifySig (pad32 k.key) E.sigHash s then ucLoop E ks (req - 1) rest
          else ucLoop E ks req sigs
        else ucLoop E ks (req - 1) rest

mutual
/-- the inner recursive closure `verify` of `SpendPolicy.Verify` -/
def verifyP (E : Env) : Policy → St → Except VErr St
  | .above h, st => if E.height ≥ h then .ok st else .error .height
  | .after t, st => if timeAfter E.median t then .ok st else .error .time
  | .pk k, st =>
    match st.sigs with
    | s :: rest => if E.verifySig k E.sigHash s then .ok { st with sigs := rest } else .error .sig
    | [] => .error .sig
  | .hash h, st =>
    match st.pres with
    | x :: rest => if E.sha x = h then .ok { st with pres := rest } else .error .preimage
    | [] => .error .preimage
  | .thresh n subs, st =>
    let total := st.total + subs.length
    if total > maxPolicies ∨ subs.length > maxChildren then .error .complex
    else verifySubs E n subs 0 { st with total := total }
  | .opaque _, _ => .error .opaque
  | .uc c, st =>
    if E.height ≥ c.timelock then
      match ucLoop E c.publicKeys c.signaturesRequired st.sigs with
      | .error e => .error e
      | .ok (req, sigs) => if req = 0 then .ok { st with sigs := sigs } else .error .ucNotReached
    else .error .height
/-- the `for _, sp := range p.Of` loop with its `satisfied` counter -/
def verifySubs (E : Env) (n : Nat) : List Policy → Nat → St → Except VErr St
  | [], sat, st => if sat = n then .ok st else .error .notReached
  | sp :: rest, sat, st =>
    if sp.isUC then .error .ucSub
    else if sp.isOpaque then verifySubs E n rest sat st
    else if sat = n then .error .exceeded
    else
      match verifyP E sp st with
      | .error e => .error e
      | .ok st' => verifySubs E n rest (sat + 1) st'
end

/-- `SpendPolicy.Verify` -/
def verify (E : Env) (p : Policy) (sigs pres : List ByteArray) : Except VErr Unit :=
  match verifyP E p ⟨sigs, pres, 0⟩ with
  | .error e => .error e
  | .ok st =>
    if st.sigs ≠ [] then .error .superSig
    else if st.pres ≠ [] then .error .superPre
    else .ok ()

end Sia.Policy
