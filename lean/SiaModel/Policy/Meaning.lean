import SiaModel.Policy.Verify
/-!
  SiaModel.Policy.Meaning — what a spend policy MEANS, written from the property text
  (C14), not from the verifier:

  * `above h` holds when `h ≤ height`; `after t` holds when `t < median time`;
  * a public-key leaf consumes one signature, valid for that key over the signature hash;
    a hash leaf consumes one preimage whose SHA-256 is the leaf's hash — in order;
  * a threshold `n of subs` holds when exactly `n` sub-policies are revealed (not opaque),
    each of them holds, in order, and all others are opaque; legacy unlock conditions
    cannot be sub-policies;
  * an opaque policy never holds;
  * legacy unlock conditions hold at or above their timelock when the required count of
    signatures is supplied and they can be assigned, in order, to distinct listed keys:
    an ed25519 key accepts a signature valid under it, an unrecognised algorithm accepts
    any signature, an entropy key accepts nothing and may not be passed over.

  `Sat E p sigs pres sigs' pres'`: "p holds, consuming exactly the prefix of the witness
  lists that leaves `sigs'`, `pres'`". A policy is satisfied when `Sat E p sigs pres [] []`
  (no witness is left over).
-/
namespace Sia.Policy

/-- a listed key accepts a signature (recognised key type ⇒ the signature must verify) -/
def keyAccepts (E : Env) (k : UnlockKey) (s : ByteArray) : Prop :=
  k.algorithm = specEd25519 → E.verifySig (pad32 k.key) E.sigHash s = true

/-- entropy keys can never sign -/
def keyBlocked (k : UnlockKey) : Prop := k.algorithm = specEntropy

/-- the signatures, in order, are accepted by distinct listed keys in list order -/
inductive UCMatch (E : Env) : List UnlockKey → List ByteArray → Prop where
  | done (ks : List UnlockKey) : UCMatch E ks []
  | use {k ks s ss} : ¬ keyBlocked k → keyAccepts E k s → UCMatch E ks ss → UCMatch E (k :: ks) (s :: ss)
  | skip {k ks s ss} : ¬ keyBlocked k → UCMatch E ks (s :: ss) → UCMatch E (k :: ks) (s :: ss)

mutual
def Sat (E : Env) : Policy → List ByteArray → List ByteArray → List ByteArray → List ByteArray → Prop
  | .above h, s, p, s', p' => h ≤ E.height ∧ s' = s ∧ p' = p
  | .after t, s, p, s', p' => t < E.median ∧ s' = s ∧ p' = p
  | .pk k, s, p, s', p' => ∃ x, s = x :: s' ∧ E.verifySig k E.sigHash x = true ∧ p' = p
  | .hash h, s, p, s', p' => ∃ x, p = x :: p' ∧ E.sha x = h ∧ s' = s
  | .thresh n subs, s, p, s', p' => SatSubs E subs n s p s' p'
  | .opaque _, _, _, _, _ => False
  | .uc c, s, p, s', p' =>
    c.timelock ≤ E.height ∧ p' = p ∧
      ∃ used, s = used ++ s' ∧ used.length = c.signaturesRequired ∧ UCMatch E c.publicKeys used
/-- exactly `n` of `subs` are revealed and hold in order; all others are opaque -/
def SatSubs (E : Env) : List Policy → Nat → List ByteArray → List ByteArray → List ByteArray → List ByteArray → Prop
  | [], n, s, p, s', p' => n = 0 ∧ s' = s ∧ p' = p
  | c :: rest, n, s, p, s', p' =>
    if c.isOpaque then SatSubs E rest n s p s' p'
    else if c.isUC then False
    else ∃ m s1 p1, n = m + 1 ∧ Sat E c s p s1 p1 ∧ SatSubs E rest m s1 p1 s' p'
end

end Sia.Policy
