import SiaModel.Pow.Work
/-!
# C13 model, part 2: network parameters, PoW state, the retargeting functions

Mirrors `consensus/application.go` 180-367 (`updateTotalWork`, `updateOakTime`,
`updateOakTarget`, `updateOakWork`, `adjustTarget`, `adjustDifficultyV2`,
`adjustDifficultyFinalCut`, `adjustDifficulty`) statement by statement.

Conventions: heights are uint64 values as `Nat` (`Index.Height` raw, so the genesis
state has `2^64-1` and `childHeight` wraps to 0); `time.Time` values are Unix seconds
(`Int`); `time.Duration` values are int64 nanoseconds (`Int`, wrapped by `wrap64`).
-/
namespace Sia.Pow

/-- the fields of `consensus.Network` read by the PoW code -/
structure Network where
  blockInterval : Int      -- time.Duration (ns)
  initialTarget : Nat
  oakHeight : Nat
  oakFixHeight : Nat
  oakGenesisTs : Int       -- HardforkOak.GenesisTimestamp (Unix seconds)
  asicHeight : Nat
  asicOakTime : Int        -- time.Duration (ns)
  asicOakTarget : Nat
  asicNonceFactor : Nat
  v2AllowHeight : Nat
  v2FinalCutHeight : Nat
deriving Repr, DecidableEq

/-- exactly the `State` fields `ApplyHeader` reads or writes -/
structure PowState where
  height : Nat               -- Index.Height (uint64; 2^64-1 in the genesis state)
  id : Nat                   -- Index.ID as a big-endian number
  prevTimestamps : List Int  -- 11 entries, newest → oldest (Unix seconds)
  depth : Nat
  childTarget : Nat
  oakTime : Int
  oakTarget : Nat
  totalWork : Nat
  difficulty : Nat
  oakWork : Nat
deriving Repr, DecidableEq

/-- `time.Time{}.Unix()` -/
scoped notation "ZEROTIME" => (-62135596800 : Int)

/-- `s.childHeight()` = `s.Index.Height + 1` in uint64 -/
def PowState.childHeight (s : PowState) : Nat := (s.height + 1) % 18446744073709551616

/-- `h - 1` in uint64 -/
def pred64 (h : Nat) : Nat := (h + 18446744073709551615) % 18446744073709551616

/-- `Network.GenesisState()` restricted to the PoW fields -/
def genesisState (n : Network) : Except String PowState := do
  let tw ← invTarget (intToTarget (Int.ofNat MAXT))
  let d ← invTarget n.initialTarget
  pure { height := 18446744073709551615, id := 0,
         prevTimestamps := List.replicate 11 ZEROTIME,
         depth := intToTarget (Int.ofNat MAXT), childTarget := n.initialTarget,
         oakTime := 0, oakTarget := intToTarget (Int.ofNat MAXT),
         totalWork := tw, difficulty := d, oakWork := tw }

/-- `updateTotalWork`: (TotalWork, Depth) -/
def updateTotalWork (n : Network) (s : PowState) : Except String (Nat × Nat) :=
  if s.childHeight < n.v2AllowHeight then do
    let depth ← addTarget s.depth s.childTarget
    let w ← invTarget depth
    pure (w, depth)
  else do
    let tw ← wadd s.totalWork s.difficulty
    let d ← invTarget tw
    pure (tw, d)

/-- `updateOakTime` -/
def updateOakTime (n : Network) (s : PowState) (blockTs parentTs : Int) : Int :=
  if s.childHeight = pred64 n.asicHeight then n.asicOakTime
  else
    let prevTotalTime :=
      if s.childHeight = pred64 n.oakHeight then i64mul n.blockInterval (ofU64 s.childHeight)
      else s.oakTime
    let decayedTime := i64mul (i64div (i64mul (i64div prevTotalTime SECOND) 995) 1000) SECOND
    i64add decayedTime (timeSub blockTs parentTs)

/-- `updateOakTarget` -/
def updateOakTarget (n : Network) (s : PowState) : Except String Nat :=
  if s.childHeight = pred64 n.asicHeight then .ok n.asicOakTarget
  else do
    let t ← mulTargetFrac s.oakTarget 1000 995
    addTarget t s.childTarget

/-- `updateOakWork`: (OakWork, OakTarget) -/
def updateOakWork (n : Network) (s : PowState) : Except String (Nat × Nat) :=
  if s.childHeight < n.v2AllowHeight then do
    let target ← updateOakTarget n s
    let w ← invTarget target
    pure (w, target)
  else do
    let dec ← wdiv64 s.oakWork 200
    let a ← wsub s.oakWork dec
    let work ← wadd a s.difficulty
    let t ← invTarget work
    pure (work, t)

/-- The clamp decision of the pre-Oak algorithm:
    `r := float64(expected)/float64(elapsed); r > 25.0/10.0` resp. `r < 10.0/25.0`.
    ASSUMPTION (listed in props.d/C13.json): the float64 quotient is compared as the
    exact rational; IEEE special cases are followed: `x/0 = ±Inf` for `x ≠ 0`,
    `0/0 = NaN` (both comparisons false). -/
def ratioGt25 (expected elapsed : Int) : Bool :=
  if elapsed = 0 then expected > 0
  else if elapsed > 0 then 2 * expected > 5 * elapsed
  else 2 * expected < 5 * elapsed

def ratioLt04 (expected elapsed : Int) : Bool :=
  if elapsed = 0 then expected < 0
  else if elapsed > 0 then 5 * expected < 2 * elapsed
  else 5 * expected > 2 * elapsed

/-- `adjustTarget`, pre-Oak algorithm (`childHeight ≤ HardforkOak.Height`) -/
def preOakAdjust (n : Network) (s : PowState) (blockTs targetTs : Int) : Except String Nat :=
  let blockInterval := i64div n.blockInterval SECOND
  if s.childHeight % 500 ≠ 0 then .ok s.childTarget -- no change
  else
    let ancestorDepth := if 1000 > s.childHeight then s.childHeight else 1000
    let elapsed := i64div (timeSub blockTs targetTs) SECOND
    let expected := i64mul blockInterval (ofU64 ancestorDepth)
    -- clamp, then multiply
    if ratioGt25 expected elapsed then mulTargetFrac s.childTarget 10 25
    else if ratioLt04 expected elapsed then mulTargetFrac s.childTarget 25 10
    else mulTargetFrac s.childTarget elapsed expected

/-- `delta` of the Oak algorithm: expected minus actual chain time (seconds) -/
def oakDelta (n : Network) (s : PowState) : Int :=
  let blockInterval := i64div n.blockInterval SECOND
  let oakTotalTime := i64div s.oakTime SECOND
  if s.height < n.oakFixHeight then
    i64sub (i64mul blockInterval (ofU64 s.height)) oakTotalTime
  else
    i64sub (i64mul blockInterval (ofU64 s.height))
           (i64sub (s.prevTimestamps.headD ZEROTIME) n.oakGenesisTs)

/-- the clamped `targetBlockTime` of the Oak algorithm (seconds), after the `== 0` fix-up -/
def oakTargetBlockTime (n : Network) (s : PowState) : Int :=
  let blockInterval := i64div n.blockInterval SECOND
  let delta := oakDelta n s
  let shift := i64mul delta delta
  let shift := if delta < 0 then i64neg shift else shift
  let shift := i64mul shift 10
  let shift := i64div shift (10000 * 10000)
  let targetBlockTime := i64add blockInterval shift
  let minTime := i64div blockInterval 3
  let maxTime := i64mul blockInterval 3
  let targetBlockTime :=
    if targetBlockTime < minTime then minTime
    else if targetBlockTime > maxTime then maxTime else targetBlockTime
  if targetBlockTime = 0 then 1 else targetBlockTime

/-- `oakTotalTime` (seconds) after the `<= 0` fix-up -/
def oakTotalTimeSec (s : PowState) : Int :=
  let t := i64div s.oakTime SECOND
  if t ≤ 0 then 1 else t

/-- the unclamped new target of the Oak algorithm -/
def oakNewTarget (n : Network) (s : PowState) : Except String Nat :=
  if s.oakTarget = 0 then .error "division by zero" else
  let est : Int := Int.ofNat (MAXT / s.oakTarget)
  let est := Int.ediv est (oakTotalTimeSec s)
  let est := est * oakTargetBlockTime n s
  let est := if est = 0 then 1 else est
  .ok (intToTarget (Int.ediv (Int.ofNat MAXT) est))

/-- the 0.4% clamp of the Oak algorithm -/
def oakClamp (s : PowState) (newTarget : Nat) : Except String Nat := do
  let minTarget ← mulTargetFrac s.childTarget 1004 1000
  let maxTarget ← mulTargetFrac s.childTarget 1000 1004
  -- CmpWork reverses the byte comparison
  if minTarget < newTarget then pure minTarget
  else if maxTarget > newTarget then pure maxTarget
  else pure newTarget

/-- `adjustTarget` -/
def adjustTarget (n : Network) (s : PowState) (blockTs targetTs : Int) : Except String Nat :=
  if s.childHeight ≤ n.oakHeight then preOakAdjust n s blockTs targetTs
  else do
    let newTarget ← oakNewTarget n s
    if s.childHeight = n.asicHeight then pure newTarget
    else oakClamp s newTarget

/-- the shared "target block time" clamp of adjustDifficultyV2 -/
def v2TargetBlockTime (n : Network) (s : PowState) (blockTs : Int) : Int :=
  let expectedTime := i64mul n.blockInterval (ofU64 s.childHeight)
  let actualTime := timeSub blockTs n.oakGenesisTs
  let delta := i64sub expectedTime actualTime
  let q := i64div delta 10000
  let shift := i64mul (i64mul 10 q) q
  let shift := if delta < 0 then i64neg shift else shift
  let targetBlockTime := i64add n.blockInterval shift
  let minTime := i64div n.blockInterval 3
  let maxTime := i64mul n.blockInterval 3
  if targetBlockTime < minTime then minTime
  else if targetBlockTime > maxTime then maxTime else targetBlockTime

/-- `adjustDifficultyV2` -/
def adjustDifficultyV2 (n : Network) (s : PowState) (blockTs : Int) : Except String Nat := do
  let targetBlockTime := v2TargetBlockTime n s blockTs
  let oakTime := if s.oakTime ≤ SECOND then SECOND else s.oakTime
  let estimatedHashrate ← wdiv64 s.oakWork (toU64 (i64div oakTime SECOND))
  let newDifficulty ← wmul64 estimatedHashrate (toU64 (i64div targetBlockTime SECOND))
  let maxAdjust ← wdiv64 s.difficulty 250
  let minDifficulty ← wsub s.difficulty maxAdjust
  if newDifficulty < minDifficulty then pure minDifficulty
  else do
    let maxDifficulty ← wadd s.difficulty maxAdjust
    if newDifficulty > maxDifficulty then pure maxDifficulty else pure newDifficulty

/-- the target interval of adjustDifficultyFinalCut (nanoseconds) -/
def finalCutTargetInterval (n : Network) (s : PowState) (blockTs : Int) : Int :=
  let expectedDuration := i64mul n.blockInterval (ofU64 s.childHeight)
  let actualDuration := timeSub blockTs n.oakGenesisTs
  let shift := i64div (i64sub expectedDuration actualDuration) 1000
  let targetInterval := i64add n.blockInterval shift
  let targetInterval := min targetInterval (i64mul n.blockInterval 3)
  max targetInterval (i64div n.blockInterval 3)

/-- `adjustDifficultyFinalCut` -/
def adjustDifficultyFinalCut (n : Network) (s : PowState) (blockTs : Int) : Except String Nat := do
  let targetInterval := finalCutTargetInterval n s blockTs
  let a ← wmul64 s.oakWork (toU64 targetInterval)
  let h ← wmul64 1 (toU64 (i64div s.oakTime 2))
  let b ← wadd a h
  let newDifficulty ← wdiv64 b (toU64 (max s.oakTime 1))
  let q ← wdiv64 s.difficulty 250
  let maxAdjust := wmax q 1
  let hi ← wadd s.difficulty maxAdjust
  let newDifficulty := wmin newDifficulty hi
  let lo ← wsub s.difficulty maxAdjust
  let newDifficulty := wmax newDifficulty lo
  pure (wmax newDifficulty 1)

/-- `adjustDifficulty`: (Difficulty, ChildTarget) -/
def adjustDifficulty (n : Network) (s : PowState) (blockTs targetTs : Int) : Except String (Nat × Nat) :=
  if s.childHeight < n.v2AllowHeight then do
    let target ← adjustTarget n s blockTs targetTs
    let w ← invTarget target
    pure (w, target)
  else if s.childHeight < n.v2FinalCutHeight then do
    let d ← adjustDifficultyV2 n s blockTs
    let t ← invTarget d
    pure (d, t)
  else do
    let d ← adjustDifficultyFinalCut n s blockTs
    let t ← invTarget d
    pure (d, t)

end Sia.Pow
