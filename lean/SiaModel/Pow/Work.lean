import SiaModel.Prim.GoSem
/-!
# C13 model, part 1: `Work`, targets, int64/Duration arithmetic

Mirrors `consensus/application.go` lines 18-178 and the `big.Int` helpers.

* `Work` (a big-endian `[32]byte`) and targets (`types.BlockID` read as a big-endian
  number) are `Nat`; well-formedness is `< 2^256`.
* Every Go `panic` is an `Except.error`.
* The four limb loops (`add`, `sub`, `mul64`, `div64`) are mirrored literally on a
  4-limb representation (`Limbs`), and the `Nat`-level operations used by the rest of
  the model (`wadd`, …) are proved equal to them in `SiaProofs/Props/C13.lean`
  (`c13_work_ops_exact_*`).
* `time.Duration` and other `int64` values are `Int`s kept in `[-2^63, 2^63)` by
  `wrap64` after every `+ - *` exactly where Go wraps silently; `/` is Go's truncating
  division (`Int.tdiv`).
-/
namespace Sia.Pow

/-- 2^256 -/
scoped notation "W256" => (115792089237316195423570985008687907853269984665640564039457584007913129639936 : Nat)
/-- `maxTarget` = 2^256 - 1 -/
scoped notation "MAXT" => (115792089237316195423570985008687907853269984665640564039457584007913129639935 : Nat)
/-- 2^255 -/
scoped notation "W255" => (57896044618658097711785492504343953926634992332820282019728792003956564819968 : Nat)
/-- 2^64 -/
scoped notation "W64" => (18446744073709551616 : Nat)

/-! ## int64 -/

/-- two's-complement wrap of a mathematical integer into int64 -/
def wrap64 (x : Int) : Int := (x + 9223372036854775808) % 18446744073709551616 - 9223372036854775808

/-- `uint64(x)` for an int64 `x` -/
def toU64 (x : Int) : Nat := (x % 18446744073709551616).toNat

/-- `int64(h)` / `time.Duration(h)` for a uint64 `h` -/
def ofU64 (h : Nat) : Int := wrap64 (Int.ofNat h)

def i64add (a b : Int) : Int := wrap64 (a + b)
def i64sub (a b : Int) : Int := wrap64 (a - b)
def i64mul (a b : Int) : Int := wrap64 (a * b)
def i64neg (a : Int) : Int := wrap64 (-a)
/-- Go `/` on int64 by a positive constant (truncates toward zero; cannot overflow) -/
def i64div (a b : Int) : Int := Int.tdiv a b

/-- one second in nanoseconds -/
scoped notation "SECOND" => (1000000000 : Int)
scoped notation "MAXDUR" => (9223372036854775807 : Int)
scoped notation "MINDUR" => (-9223372036854775808 : Int)

/-- `t.Sub(u)` for second-resolution `time.Time` values given as Unix seconds:
    the exact difference in nanoseconds, saturated to the int64 range
    (time.Time.Sub documents and implements the saturation). -/
def timeSub (t u : Int) : Int :=
  let d := (t - u) * SECOND
  if d > MAXDUR then MAXDUR else if d < MINDUR then MINDUR else d

/-! ## Work on `Nat` (used by the model) -/

abbrev Work := Nat

def wadd (w v : Nat) : Except String Nat :=
  if w + v < W256 then .ok (w + v) else .error "Work.add: overflow"

def wsub (w v : Nat) : Except String Nat :=
  if v ≤ w then .ok (w - v) else .error "Work.sub: underflow"

def wmul64 (w v : Nat) : Except String Nat :=
  if w * v < W256 then .ok (w * v) else .error "Work.mul64: overflow"

def wdiv64 (w v : Nat) : Except String Nat :=
  if v = 0 then .error "Work.div64: division by zero" else .ok (w / v)

def wmin (w v : Nat) : Nat := if w < v then w else v
def wmax (w v : Nat) : Nat := if w > v then w else v

/-! ## Work on four big-endian uint64 limbs (literal mirror of the loops) -/

/-- big-endian limbs: `n[0:8], n[8:16], n[16:24], n[24:32]` -/
structure Limbs where
  l0 : Nat
  l1 : Nat
  l2 : Nat
  l3 : Nat
deriving Repr, DecidableEq

def Limbs.val (x : Limbs) : Nat :=
  x.l0 * 6277101735386680763835789423207666416102355444464034512896 +
  x.l1 * 340282366920938463463374607431768211456 + x.l2 * 18446744073709551616 + x.l3

def Limbs.WF (x : Limbs) : Prop := x.l0 < W64 ∧ x.l1 < W64 ∧ x.l2 < W64 ∧ x.l3 < W64

def Limbs.ofNat (n : Nat) : Limbs :=
  { l0 := n / 6277101735386680763835789423207666416102355444464034512896 % 18446744073709551616,
    l1 := n / 340282366920938463463374607431768211456 % 18446744073709551616,
    l2 := n / 18446744073709551616 % 18446744073709551616,
    l3 := n % 18446744073709551616 }

/-- the four iterations `i = 24, 16, 8, 0` of the `Work.add` loop: limbs and final carry -/
def Limbs.addCarry (w v : Limbs) : Limbs × Nat :=
  let (s3, c) := Go.bits_Add64 w.l3 v.l3 0
  let (s2, c) := Go.bits_Add64 w.l2 v.l2 c
  let (s1, c) := Go.bits_Add64 w.l1 v.l1 c
  let (s0, c) := Go.bits_Add64 w.l0 v.l0 c
  (⟨s0, s1, s2, s3⟩, c)

/-- `Work.add`: panic when the carry out of the most significant limb is set
    (`if c > 0 && i == 0`). -/
def Limbs.add (w v : Limbs) : Except String Limbs :=
  if (Limbs.addCarry w v).2 > 0 then .error "Work.add: overflow" else .ok (Limbs.addCarry w v).1

def Limbs.subBorrow (w v : Limbs) : Limbs × Nat :=
  let (s3, c) := Go.bits_Sub64 w.l3 v.l3 0
  let (s2, c) := Go.bits_Sub64 w.l2 v.l2 c
  let (s1, c) := Go.bits_Sub64 w.l1 v.l1 c
  let (s0, c) := Go.bits_Sub64 w.l0 v.l0 c
  (⟨s0, s1, s2, s3⟩, c)

def Limbs.sub (w v : Limbs) : Except String Limbs :=
  if (Limbs.subBorrow w v).2 > 0 then .error "Work.sub: underflow" else .ok (Limbs.subBorrow w v).1

/-- one iteration of the `mul64` loop: returns (limb, carry) -/
def mulStep (wi v c : Nat) : Nat × Nat :=
  let (hi, prod) := Go.bits_Mul64 wi v
  let (prod, cc) := Go.bits_Add64 prod c 0
  (prod, (hi + cc) % 18446744073709551616)

def Limbs.mulCarry (w : Limbs) (v : Nat) : Limbs × Nat :=
  let (p3, c) := mulStep w.l3 v 0
  let (p2, c) := mulStep w.l2 v c
  let (p1, c) := mulStep w.l1 v c
  let (p0, c) := mulStep w.l0 v c
  (⟨p0, p1, p2, p3⟩, c)

def Limbs.mul64 (w : Limbs) (v : Nat) : Except String Limbs :=
  if (Limbs.mulCarry w v).2 > 0 then .error "Work.mul64: overflow" else .ok (Limbs.mulCarry w v).1

/-- `Work.div64`: loop `i = 0, 8, 16, 24` with `bits.Div64(rem, wi, v)` (which itself
    panics when `v ≤ rem`; never the case here since `rem < v`). -/
def Limbs.div64 (w : Limbs) (v : Nat) : Except String Limbs :=
  if v = 0 then .error "Work.div64: division by zero" else do
  let (q0, r) ← Go.bits_Div64 0 w.l0 v
  let (q1, r) ← Go.bits_Div64 r w.l1 v
  let (q2, r) ← Go.bits_Div64 r w.l2 v
  let (q3, _) ← Go.bits_Div64 r w.l3 v
  pure ⟨q0, q1, q2, q3⟩

/-! ## Targets (`big.Int` code) -/

/-- `invTarget`: `maxTarget / n`; `big.Int.Div` panics on a zero divisor. -/
def invTarget (n : Nat) : Except String Nat :=
  if n = 0 then .error "division by zero" else .ok (MAXT / n)

/-- `intToTarget`: `if i.BitLen() >= 256 { i = maxTarget }`. `BitLen` (of the absolute
    value; `FillBytes` ignores the sign too) is ≥ 256 exactly when `|i| ≥ 2^255`, so
    every value from 2^255 upwards — not only those that do not fit — becomes
    `maxTarget` = 2^256-1. (Found by the correspondence run; mirrored as is.) -/
def intToTarget (i : Int) : Nat :=
  if i.natAbs ≥ W255 then MAXT else i.natAbs

/-- `addTarget`: `x*y/(x+y)` -/
def addTarget (x y : Nat) : Except String Nat :=
  if x + y = 0 then .error "division by zero" else .ok (intToTarget (Int.ofNat (x * y / (x + y))))

/-- `mulTargetFrac`: `x*n/d` with `big.Int.Div` (Euclidean division, panics for `d = 0`) -/
def mulTargetFrac (x : Nat) (n d : Int) : Except String Nat :=
  if d = 0 then .error "division by zero" else .ok (intToTarget (Int.ediv (Int.ofNat x * n) d))

end Sia.Pow
