import SiaModel.Pow.Adjust
/-!
# C13 model, part 3: `ApplyHeader`, `medianTimestamp`, `ValidateHeader`,
`SufficientlyHeavierThan`, `PoWTarget`, `NonceFactor`, and `NetworkWF`.
-/
namespace Sia.Pow

/-- the `types.BlockHeader` content the PoW code looks at; `id` is `bh.ID()`
    (the hash itself is outside this model: the harness supplies the real ID). -/
structure Header where
  parentID : Nat
  timestamp : Int
  nonce : Nat
  id : Nat
deriving Repr, DecidableEq

/-- `ApplyHeader`'s PoW state transition -/
def applyHeader (n : Network) (s : PowState) (h : Header) (targetTs : Int) : Except String PowState :=
  if s.height > 0 ∧ s.id ≠ h.parentID then .error "consensus: cannot apply non-child block"
  else do
    let next ←
      if h.parentID = 0 then do
        -- special handling for genesis block
        let oakTime := updateOakTime n s h.timestamp h.timestamp
        let (oakWork, oakTarget) ← updateOakWork n s
        pure { s with oakTime := oakTime, oakWork := oakWork, oakTarget := oakTarget,
                      height := 0, id := h.id }
      else do
        let (totalWork, depth) ← updateTotalWork n s
        let (difficulty, childTarget) ← adjustDifficulty n s h.timestamp targetTs
        let oakTime := updateOakTime n s h.timestamp (s.prevTimestamps.headD ZEROTIME)
        let (oakWork, oakTarget) ← updateOakWork n s
        pure { s with totalWork := totalWork, depth := depth, difficulty := difficulty,
                      childTarget := childTarget, oakTime := oakTime, oakWork := oakWork,
                      oakTarget := oakTarget,
                      height := (s.height + 1) % 18446744073709551616, id := h.id }
    let next := { next with prevTimestamps := h.timestamp :: s.prevTimestamps.take 10 }
    -- zero out deprecated fields
    if next.height ≥ n.v2FinalCutHeight then
      pure { next with depth := 0, childTarget := 0, oakTarget := 0 }
    else pure next

/-- The PoW projection of `ApplyBlock`: `ApplyBlock` assigns `SiafundTaxRevenue`,
    `Attestations`, the two Foundation addresses and `Elements`, none of which
    `ApplyHeader` reads (tie `tie_header_reads_only_pow`, regenerated from the source on
    every run), and then returns `ApplyHeader(s, b.Header(), targetTimestamp)`. -/
def applyBlockPow (n : Network) (s : PowState) (blockHeader : Header) (targetTs : Int) : Except String PowState :=
  applyHeader n s blockHeader targetTs

/-- `s.numTimestamps()` -/
def PowState.numTimestamps (s : PowState) : Nat :=
  if s.childHeight < 11 then s.childHeight else 11

/-- `s.medianTimestamp()` in **nanoseconds** since the epoch (the even case adds half
    of a nanosecond `Duration`, so the result can fall between two seconds).
    `sort.Slice` is modelled by `List.mergeSort` (any correct sort gives the same
    list of values). With no timestamps (genesis state) Go indexes `ts[-1]`: panic. -/
def medianTimestamp (s : PowState) : Except String Int :=
  let ts := (s.prevTimestamps.take s.numTimestamps).mergeSort (fun a b => decide (a ≤ b))
  let k := ts.length
  if k % 2 ≠ 0 then .ok (ts.getD (k / 2) 0 * SECOND)
  else if k = 0 then .error "index out of range [-1]"
  else
    let l := ts.getD (k / 2 - 1) 0
    let r := ts.getD (k / 2) 0
    .ok (l * SECOND + Int.tdiv (timeSub r l) 2)

/-- `s.NonceFactor()` -/
def nonceFactor (n : Network) (s : PowState) : Nat :=
  if s.childHeight < n.asicHeight then 1 else n.asicNonceFactor

/-- `s.PoWTarget()` -/
def powTarget (n : Network) (s : PowState) : Except String Nat :=
  if s.childHeight < n.v2FinalCutHeight then .ok s.childTarget else invTarget s.difficulty

/-- outcome of `ValidateHeader`: `none` = accepted, `some k` = rejected by the k-th check -/
def validateHeader (n : Network) (s : PowState) (h : Header) : Except String (Option Nat) :=
  if h.parentID ≠ s.id then .ok (some 1)
  else do
    let m ← medianTimestamp s
    if h.timestamp * SECOND < m then pure (some 2)
    else if nonceFactor n s = 0 then .error "integer divide by zero"
    else if h.nonce % nonceFactor n s ≠ 0 then pure (some 3)
    else do
      let t ← powTarget n s
      -- bh.ID().CmpWork(target) < 0  ⇔  target < id
      if t < h.id then pure (some 4) else pure none

/-- `s.SufficientlyHeavierThan(t)` -/
def sufficientlyHeavierThan (s t : PowState) : Except String Bool := do
  let q ← wdiv64 t.difficulty 5
  let x ← wadd t.totalWork q
  pure (decide (s.totalWork > x))

/-! ## Well-formed network parameters

The conditions under which the retargeting code is meant to run (everything the
code silently assumes about `consensus.Network`). All decidable. -/

def Network.WF (n : Network) : Prop :=
  -- the block interval is positive and at most 2^50 ns (≈ 13 days), so that `3 * interval`
  -- and `interval/Second * 1000` stay far inside int64
  1 ≤ n.blockInterval ∧ n.blockInterval ≤ 1125899906842624 ∧
  -- the pre-Oak retarget divides by `blockInterval/Second * depth`: needs whole seconds,
  -- unless the pre-Oak algorithm never reaches a retarget height (Oak at or before block 499)
  (SECOND ≤ n.blockInterval ∨ n.oakHeight < 500) ∧
  0 < n.initialTarget ∧ n.initialTarget < W256 ∧
  0 < n.asicOakTarget ∧ n.asicOakTarget < W256 ∧
  -- `bh.Nonce % s.NonceFactor()`
  0 < n.asicNonceFactor ∧
  -- a `time.Duration` (int64)
  -9223372036854775808 ≤ n.asicOakTime ∧ n.asicOakTime < 9223372036854775808 ∧
  -- the only ordering of fork heights the PoW code relies on: the deprecated target
  -- fields are zeroed at FinalCutHeight and must not be read afterwards
  n.v2AllowHeight ≤ n.v2FinalCutHeight ∧ n.v2FinalCutHeight < 9223372036854775808

instance (n : Network) : Decidable n.WF := by unfold Network.WF; infer_instance

/-- `consensus/validation_test.go: testnet()` -/
def testnet : Network :=
  { blockInterval := 10000000, initialTarget := 255 * 2 ^ 248,
    oakHeight := 4, oakFixHeight := 5, oakGenesisTs := 1618033988,
    asicHeight := 6, asicOakTime := 10000 * 1000000000, asicOakTarget := 255 * 2 ^ 248,
    asicNonceFactor := 1009, v2AllowHeight := 1000, v2FinalCutHeight := 3000 }

/-- a mainnet-like parameter set (values of the Sia main network as published in
    `coreutils/chain.Mainnet`; that package is not part of this repository) -/
def mainnetLike : Network :=
  { blockInterval := 600 * 1000000000, initialTarget := 32 * 2 ^ 216,
    oakHeight := 135000, oakFixHeight := 139000, oakGenesisTs := 1433600000,
    asicHeight := 179000, asicOakTime := 120000 * 1000000000, asicOakTarget := 32 * 2 ^ 184,
    asicNonceFactor := 1009, v2AllowHeight := 526000, v2FinalCutHeight := 555000 }

end Sia.Pow
