import SiaModel.Rhp.V1Payout
import SiaModel.Gen.CodeRhp2
/-!
  Hand model of the v1-era contract constructors of rhp/v2 and rhp/v3 that are outside
  the translator's T-code subset (slices, embedded fields, function literals, blank named
  results, hashing):

    rhp/v2  PrepareContractFormation, PrepareContractRenewal (around the GENERATED
            `Gen.Rhp2.CalculateHostPayouts`)
    rhp/v3  RenewalCosts, CalculateHostPayouts, PrepareContractRenewal, PayByContract

  Currency values are `Nat`; `none` = the Go code panics (unchecked `Add`/`Sub`/`Mul64`,
  index out of range); for functions that return an `error`/`bool` the inner `Option` is
  `none` when Go reports failure.  Only the numeric content of contracts is modelled
  (addresses, keys, Merkle roots and signatures are copied through by the Go code).
  Tied to the code by the correspondence ops `rhp1c …`.
-/
namespace Sia.Rhp.V1

def lim : Nat := 340282366920938463463374607431768211456
def w64 : Nat := 18446744073709551616

def add? (a b : Nat) : Option Nat := if a + b < lim then some (a + b) else none
def sub? (a b : Nat) : Option Nat := if b ≤ a then some (a - b) else none
def mul64? (a n : Nat) : Option Nat := if a * n < lim then some (a * n) else none

/-- numeric content of a `types.FileContract` -/
structure Contract where
  filesize : Nat := 0
  windowStart : Nat := 0
  windowEnd : Nat := 0
  payout : Nat := 0
  valid : List Nat := []
  missed : List Nat := []
  revNum : Nat := 0
deriving DecidableEq, Repr

/-- rhp/v2 `PrepareContractFormation` -/
def prepareFormation (renterPayout hostCollateral contractPrice endHeight windowSize : Nat) : Option Contract := do
  let hostPayout ← add? contractPrice hostCollateral
  let target ← add? renterPayout hostPayout
  let payout ← taxAdjustedPayout target
  pure { filesize := 0, windowStart := endHeight, windowEnd := (endHeight + windowSize) % w64, payout := payout,
         valid := [renterPayout, hostPayout], missed := [renterPayout, hostPayout, 0], revNum := 0 }

def cv (c : Gen.Types.Currency) : Nat := c.Hi * w64 + c.Lo

/-- rhp/v2 `PrepareContractRenewal`; the host payouts come from the generated
`CalculateHostPayouts`. Returns the new contract and the base price. -/
def prepareRenewalV2 (cur : Gen.Types.FileContract) (renterPayout : Nat) (newCollateral : Gen.Types.Currency)
    (host : Gen.Rhp2.HostSettings) (endHeight : Nat) : Option (Contract × Nat) :=
  match Gen.Rhp2.CalculateHostPayouts cur newCollateral host endHeight with
  | .error _ => none
  | .ok (hv, hm, vm, bp) => do
    let target ← add? renterPayout (cv hv)
    let payout ← taxAdjustedPayout target
    pure ({ filesize := cur.Filesize, windowStart := endHeight, windowEnd := (endHeight + host.WindowSize) % w64,
            payout := payout, valid := [renterPayout, cv hv], missed := [renterPayout, cv hm, cv vm], revNum := 0 }, cv bp)

/-- the fields of rhp/v3 `HostPriceTable` the renewal code reads -/
structure PriceTable where
  contractPrice : Nat := 0
  collateralCost : Nat := 0
  writeStoreCost : Nat := 0
  maxCollateral : Nat := 0
  renewContractCost : Nat := 0
  windowSize : Nat := 0
  hostBlockHeight : Nat := 0

/-- rhp/v3 `RenewalCosts`: (basePrice, baseCollateral, newCollateral) -/
def renewalCostsV3 (filesize windowEnd : Nat) (pt : PriceTable) (expectedNewStorage endHeight : Nat) :
    Option (Nat × Nat × Nat) := do
  let contractEnd := (endHeight + pt.windowSize) % w64
  let (basePrice, baseCollateral) ←
    if contractEnd > windowEnd then do
      let te := contractEnd - windowEnd
      let a ← mul64? pt.writeStoreCost filesize
      let a ← mul64? a te
      let bp ← add? pt.renewContractCost a
      let b ← mul64? pt.collateralCost filesize
      let b ← mul64? b te
      pure (bp, b)
    else pure (pt.renewContractCost, 0)
  let n ← mul64? pt.collateralCost expectedNewStorage
  let newCollateral ← mul64? n ((contractEnd + w64 - pt.hostBlockHeight) % w64)
  if baseCollateral > pt.maxCollateral then pure (basePrice, pt.maxCollateral, 0)
  else do
    let s ← add? baseCollateral newCollateral
    if s > pt.maxCollateral then do
      let d ← sub? pt.maxCollateral baseCollateral
      pure (basePrice, baseCollateral, d)
    else pure (basePrice, baseCollateral, newCollateral)

/-- rhp/v3 `CalculateHostPayouts`: outer `none` = panic, inner `none` = error returned -/
def hostPayoutsV3 (filesize windowStart windowEnd : Nat) (minNewCollateral : Nat) (pt : PriceTable)
    (expectedNewStorage endHeight : Nat) : Option (Option (Nat × Nat × Nat × Nat)) :=
  if endHeight < windowStart then some none
  else if endHeight < pt.hostBlockHeight then some none
  else do
    let (bp, bc, nc) ← renewalCostsV3 filesize windowEnd pt expectedNewStorage endHeight
    if nc < minNewCollateral then pure none
    else do
      let t ← add? pt.contractPrice bp
      let t ← add? t bc
      let hv ← add? t nc
      let vm ← add? bp bc
      if hv < vm then pure none
      else do
        let hm ← sub? hv vm
        pure (some (hv, hm, vm, bp))

/-- rhp/v3 `PrepareContractRenewal` -/
def prepareRenewalV3 (filesize windowStart windowEnd : Nat) (renterPayout minNewCollateral : Nat) (pt : PriceTable)
    (expectedNewStorage endHeight : Nat) : Option (Option (Contract × Nat)) :=
  match hostPayoutsV3 filesize windowStart windowEnd minNewCollateral pt expectedNewStorage endHeight with
  | none => none
  | some none => some none
  | some (some (hv, hm, vm, bp)) => do
    let target ← add? renterPayout hv
    let payout ← taxAdjustedPayout target
    pure (some ({ filesize := filesize, windowStart := endHeight, windowEnd := (endHeight + pt.windowSize) % w64,
                  payout := payout, valid := [renterPayout, hv], missed := [renterPayout, hm, vm], revNum := 0 }, bp))

/-- rhp/v3 `PayByContract` on the output values and revision number of a revision.
Outer `none` = panic (missing outputs, overflow), inner `none` = `false` (insufficient funds,
revision untouched). -/
def payByContract (valid missed : List Nat) (revNum amount : Nat) : Option (Option (List Nat × List Nat × Nat)) :=
  match valid with
  | [] => none
  | vr :: vrest =>
    if vr < amount then some none
    else match missed with
      | [] => none
      | mr :: mrest =>
        if mr < amount then some none
        else match vrest, mrest with
          | vh :: vt, mh :: mt => do
            let vh' ← add? vh amount
            let mh' ← add? mh amount
            pure (some ((vr - amount) :: vh' :: vt, (mr - amount) :: mh' :: mt, (revNum + 1) % w64))
          | _, _ => none

end Sia.Rhp.V1
