import SiaModel.Gen.CodeRhp4
/-!
  Hand model of the numeric part of the rhp/v4 request `Validate` methods
  (rhp/v4/validation.go) that guard the contract/revision constructors.  The methods use
  loops, maps, slices, wall-clock time and signatures, which are outside the T-code subset;
  their skeletons are pinned by T-facts (`SiaModel.Gen.FactsC17`, tie theorems in
  SiaProofs/Props/C17Validate.lean) and their behaviour by the `rhp4v` correspondence ops.

  Not modelled (supplied as true by the harness, which signs real prices/tokens):
  `HostPrices.Validate` / `AccountToken.Validate` (expiry and signature).  Byte-array
  emptiness tests (`ContractID == {}`, `Signature == {}`, `Account == {}`, `Basis == {}`)
  are Booleans.  `Except.error` = the Go code panics (unchecked Currency arithmetic inside
  Validate itself).
-/
namespace Sia.Rhp.V4
open Gen.Types Gen.Rhp4

def sectorSize : Nat := 4194304
def maxSectorBatch : Nat := 262144
def maxAccountBatch : Nat := 1000
def w64 : Nat := 18446744073709551616

/-- the loop of `RPCFreeSectorsRequest.Validate`: every index below the sector count, none seen before -/
def freeLoop (sectors : Nat) : List Nat → List Nat → Bool
  | [], _ => true
  | i :: rest, seen =>
    if i ≥ sectors then false
    else if seen.contains i then false
    else freeLoop sectors rest (i :: seen)

/-- `RPCFreeSectorsRequest.Validate` -/
def freeSectorsValidate (filesize : Nat) (indices : List Nat) : Bool :=
  if indices.length > maxSectorBatch then false
  else freeLoop (filesize / sectorSize) indices []

/-- `RPCAppendSectorsRequest.Validate` (n = len(req.Sectors)) -/
def appendSectorsValidate (n : Nat) : Bool :=
  if n = 0 then false else if n > maxSectorBatch then false else true

/-- `RPCSectorRootsRequest.Validate` -/
def sectorRootsValidate (filesize offset length : Nat) : Bool :=
  let contractSectors := filesize / sectorSize
  if length = 0 then false
  else if offset > contractSectors ∨ length > contractSectors - offset then false
  else if length > maxSectorBatch then false
  else true

/-- `RPCFundAccountsRequest.Validate`; a deposit is (account non-zero, amount) -/
def fundAccountsValidate (idSet sigSet : Bool) (deposits : List (Bool × Nat)) : Bool :=
  if !idSet then false else if !sigSet then false
  else if deposits.length = 0 then false
  else if deposits.length > maxAccountBatch then false
  else deposits.all fun (acct, amount) => acct && amount != 0

/-- `RPCReplenishAccountsRequest.Validate` -/
def replenishValidate (idSet sigSet : Bool) (accounts : List Bool) (target : Nat) : Bool :=
  if !idSet then false else if !sigSet then false
  else if accounts.length = 0 then false
  else if accounts.length > maxAccountBatch then false
  else if target = 0 then false
  else accounts.all id

/-- `RPCFormContractRequest.Validate` -/
def formContractValidate (tipHeight : Nat) (p : HostPrices) (feeZero basisZero : Bool) (nInputs : Nat)
    (allowance collateral : Currency) (proofHeight : Nat) (maxCollateral : Currency) (maxDuration : Nat) :
    Except String Bool := do
  let mph := minProofHeight { Height := tipHeight } p
  if feeZero then pure false
  else if basisZero then pure false
  else if nInputs = 0 then pure false
  else if proofHeight < mph then pure false
  else if proofHeight > w64 - 1 - 144 then pure false
  else if ((proofHeight + 144) % w64 + w64 - p.TipHeight) % w64 > maxDuration then pure false
  else
    let mra ← MinRenterAllowance p collateral
    if allowance.IsZero then pure false
    else if collateral.Cmp maxCollateral > 0 then pure false
    else if allowance.Cmp mra < 0 then pure false
    else pure true

/-- `RPCRenewContractRequest.Validate` -/
def renewContractValidate (tipHeight : Nat) (p : HostPrices) (feeZero basisZero : Bool)
    (allowance collateral : Currency) (proofHeight : Nat) (existingProofHeight existingFilesize : Nat)
    (maxCollateral : Currency) (maxDuration : Nat) : Except String Bool := do
  let mph := minProofHeight { Height := tipHeight } p
  if feeZero then pure false
  else if basisZero then pure false
  else if proofHeight ≤ existingProofHeight then pure false
  else if proofHeight < mph then pure false
  else if proofHeight > w64 - 1 - 144 then pure false
  else if ((proofHeight + 144) % w64 + w64 - p.TipHeight) % w64 > maxDuration then pure false
  else
    let duration := ((proofHeight + 144) % w64 + w64 - p.TipHeight) % w64
    let mra ← MinRenterAllowance p collateral
    let r1 ← p.Collateral.Mul64 existingFilesize
    let risked ← r1.Mul64 duration
    let total ← collateral.Add risked
    if allowance.IsZero then pure false
    else if total.Cmp maxCollateral > 0 then pure false
    else if allowance.Cmp mra < 0 then pure false
    else pure true

/-- `RPCRefreshContractRequest.Validate` -/
def refreshContractValidate (tipHeight : Nat) (p : HostPrices) (feeZero basisZero : Bool)
    (allowance collateral : Currency) (existing : V2FileContract) (maxCollateral : Currency) (partialRollover : Bool) :
    Except String Bool := do
  let mph := minProofHeight { Height := tipHeight } p
  if feeZero then pure false
  else if basisZero then pure false
  else if existing.ProofHeight ≤ mph then pure false
  else
    let mra ← MinRenterAllowance p collateral
    let total ← if partialRollover then do
        let rc ← existing.RiskedCollateral
        rc.Add collateral
      else existing.TotalCollateral.Add collateral
    if allowance.IsZero then pure false
    else if allowance.Cmp mra < 0 then pure false
    else if total.Cmp maxCollateral > 0 then pure false
    else pure true

/-- `RPCReadSectorRequest.Validate` (numeric part) -/
def readSectorValidate (offset length : Nat) : Bool :=
  if length = 0 then false
  else if offset > sectorSize ∨ length > sectorSize - offset then false
  else if ((offset + length) % w64) % 64 ≠ 0 then false
  else true

/-- `RPCWriteSectorRequest.Validate` (numeric part) -/
def writeSectorValidate (dataLength : Nat) : Bool :=
  if dataLength = 0 then false
  else if dataLength % 64 ≠ 0 then false
  else if dataLength > sectorSize then false
  else true

end Sia.Rhp.V4
