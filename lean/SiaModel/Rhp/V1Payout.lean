/-!
  Hand model of `taxAdjustedPayout` (identical bodies in rhp/v2/contracts.go and
  rhp/v3/contracts.go) and of the post-hardfork `consensus.State.FileContractTax`.

  The Go function uses a function literal (`mod64`), which is outside the T-code
  subset of the translator (`EXTRACT-ERROR … unsupported expression *ast.FuncLit`),
  so it is modelled by hand over `Nat` and tied by the correspondence run
  (op `rhp4c v1payout`, real code reached through `PrepareContractFormation`).
  `none` = the Go code panics (unchecked `Mul64`/`Sub`/`Add`).
-/
namespace Sia.Rhp.V1

/-- siafund count: the tax is rounded down to a multiple of it -/
def siafundCount : Nat := 10000

/-- `FileContractTax` for heights at or after the tax hardfork: 3.9% of the payout,
rounded down to a multiple of the siafund count. -/
def tax (payout : Nat) : Nat :=
  let t := payout * 39 / 1000
  t - t % siafundCount

def taxAdjustedPayout (target : Nat) : Option Nat :=
  if target * 1000 ≥ 340282366920938463463374607431768211456 then none   -- target.Mul64(1000)
  else
    let guess := target * 1000 / 961                                      -- .Div64(961)
    let tm := target % siafundCount
    let gm := guess % siafundCount
    if gm < tm then
      if guess < siafundCount then none                                   -- guess.Sub(sfc)
      else if guess - siafundCount + tm ≥ 340282366920938463463374607431768211456 then none
      else some (guess - siafundCount + tm - gm)                          -- gm ≤ guess - sfc + tm here
    else
      if guess + tm ≥ 340282366920938463463374607431768211456 then none   -- guess.Add(tm)
      else some (guess + tm - gm)                                         -- .Sub(gm), gm ≤ guess

end Sia.Rhp.V1
