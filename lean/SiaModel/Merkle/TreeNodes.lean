/-
  SiaModel.Merkle.TreeNodes — `ApplyUpdate.ForEachTreeNode` / `RevertUpdate.ForEachTreeNode`
  (consensus/application.go): the stream of accumulator nodes (row, column, hash) handed to
  clients that maintain a node store.

  For every element of the update, in diff order: the leaf `(0, LeafIndex, el.hash())`, then
  — hashing up along the element's proof — every ancestor `(row, LeafIndex >> row, h)`,
  stopping at the first coordinate already reported ("already seen everything above this").
  `seen` is the Go map, here the list of coordinates reported so far. Core Lean only.
-/
import SiaModel.Merkle.Accumulator
namespace Sia.ElemAcc

section
variable {H : Type} [Hasher H]

/-- the `for i, sibling := range el.MerkleProof` loop: current node `(row, col, h)`, remaining
    proof; returns the nodes reported and the updated `seen` -/
def walkUp (idx : Nat) : Nat → Nat → H → List H → List (Nat × Nat) → List (Nat × Nat × H) × List (Nat × Nat)
  | _, _, _, [], seen => ([], seen)
  | row, col, h, sibling :: rest, seen =>
    let h' := if idx.testBit row then node sibling h else node h sibling
    let col' := col / 2
    if (row + 1, col') ∈ seen then ([], seen)
    else
      let r := walkUp idx (row + 1) col' h' rest ((row + 1, col') :: seen)
      ((row + 1, col', h') :: r.1, r.2)

/-- one element: its leaf is reported unconditionally, then its ancestors -/
def nodesOfLeaf (l : Leaf H) (seen : List (Nat × Nat)) : List (Nat × Nat × H) × List (Nat × Nat) :=
  let r := walkUp l.index 0 l.index l.hash l.proof ((0, l.index) :: seen)
  ((0, l.index, l.hash) :: r.1, r.2)

def nodesFrom : List (Leaf H) → List (Nat × Nat) → List (Nat × Nat × H)
  | [], _ => []
  | l :: ls, seen =>
    let r := nodesOfLeaf l seen
    r.1 ++ nodesFrom ls r.2

/-- `ForEachTreeNode` over the elements of an update (with the proofs they carry after the
    block), in the order of the diffs -/
def forEachTreeNode (els : List (Leaf H)) : List (Nat × Nat × H) := nodesFrom els []

end
end Sia.ElemAcc
