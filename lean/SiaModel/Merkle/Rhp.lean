/-
  SiaModel.Merkle.Rhp — RHP Merkle roots and proofs (property C16).

  Specification: `metaRoot` (the plainly defined binary tree) and `sectorRoot`.
  Implementation models mirroring /repo/rhp/v2/merkle.go, /repo/rhp/v4/merkle.go
  and /repo/blake2b/blake2b.go: the binary-counter accumulators, `MetaRoot`,
  `nextSubtreeSize`/`RangeProofSize`, the range-proof builders and verifiers,
  append proofs, diff (swap/trim/append) proofs and `ConvertProofOrdering`.

  Everything is parametric in an abstract hash type (`HashOps`): theorems assume
  injectivity (`HashInj`) as a hypothesis, the driver instantiates real BLAKE2b.

  Modelling conventions (see props.d/C16.json "assumptions"):
  * `uint64` counters are `Nat`; leaf counts are assumed `< 2^63`, so the
    64-slot tree arrays of the Go accumulators are modelled as `Nat → H`
    (a slot index never reaches 64) and counter wrap-around is not modelled,
    except in `sectorsChanged` where Go's `newNumSectors--` may wrap.
  * Go panics are `Except.error`.

  Core Lean only (the driver links this natively).
-/
import SiaModel.Prim.Blake2b
import SiaModel.Gen.FactsRhp
set_option linter.unusedVariables false

namespace Sia.Rhp

/-- The hash operations the Merkle code distinguishes: the zero hash (root of the
empty tree), leaf hash (prefix 0x00) and node hash (prefix 0x01). -/
class HashOps (H : Type) where
  zero : H
  leaf : ByteArray → H
  node : H → H → H

open HashOps

/-- Symbolic collision freedom; always a hypothesis, never an axiom. -/
structure HashInj (H : Type) [HashOps H] : Prop where
  node_inj : ∀ a b c d : H, node a b = node c d → a = c ∧ b = d
  leaf_inj : ∀ x y : ByteArray, (leaf x : H) = leaf y → x = y
  leaf_ne_node : ∀ (x : ByteArray) (a b : H), (leaf x : H) ≠ node a b

/-! ## Specification: the plain binary Merkle tree -/

/-- Largest power of two strictly below `n` (for `n ≥ 2`);
Go: `1 << (bits.Len(uint(n-1)) - 1)`. -/
def splitPoint (n : Nat) : Nat := 2 ^ Nat.log2 (n - 1)

theorem splitPoint_pos (n : Nat) : 0 < splitPoint n := Nat.two_pow_pos _

theorem splitPoint_lt {n : Nat} (h : 2 ≤ n) : splitPoint n < n := by
  have := Nat.log2_self_le (n := n - 1) (by omega)
  unfold splitPoint; omega

/-- Root of the plainly defined binary Merkle tree over a list of node hashes:
empty ↦ zero hash, singleton ↦ the element, otherwise split at the largest power
of two strictly below the length. -/
def metaRoot {H : Type} [HashOps H] (ls : List H) : H :=
  match ls with
  | [] => zero
  | [x] => x
  | x :: y :: r =>
    let k := splitPoint (r.length + 2)
    node (metaRoot ((x :: y :: r).take k)) (metaRoot ((x :: y :: r).drop k))
termination_by ls.length
decreasing_by
  · have := splitPoint_lt (n := r.length + 2) (by omega)
    simp [List.length_take]; omega
  · have := splitPoint_pos (r.length + 2)
    simp [List.length_drop]; omega

/-- 64-byte leaves of a byte string (a trailing partial leaf is dropped: callers
only pass multiples of 64). -/
def leafChunks (data : ByteArray) : List ByteArray :=
  (List.range (data.size / 64)).map (fun i => data.extract (64 * i) (64 * i + 64))

/-- Leaf hashes of a byte string. -/
def leafHashes {H : Type} [HashOps H] (data : ByteArray) : List H :=
  (leafChunks data).map leaf

/-- Root of a sector (or any whole number of leaves): the plain tree over the leaf hashes. -/
def sectorRoot {H : Type} [HashOps H] (data : ByteArray) : H :=
  metaRoot (leafHashes data)

/-! ## Integer helpers (hand models; tied to the generated `Gen.Rhp2.*` in Props/C16) -/

/-- number of trailing zero bits (`0 ↦ 0`; Go's value 64 for zero is handled by callers) -/
def tz (x : Nat) : Nat :=
  if h : x = 0 then 0 else if x % 2 = 1 then 0 else 1 + tz (x / 2)
termination_by x
decreasing_by omega

/-- number of one bits -/
def popcount (x : Nat) : Nat :=
  if h : x = 0 then 0 else x % 2 + popcount (x / 2)
termination_by x
decreasing_by omega

/-- Go `nextSubtreeSize(start, end)`: the size of the largest aligned power-of-two
subtree that begins at `start` and does not overlap `end` (`start < end`). -/
def nextSubtreeSize (start end_ : Nat) : Nat :=
  let maxSize := Nat.log2 (end_ - start)
  if start = 0 ∨ tz start > maxSize then 2 ^ maxSize else 2 ^ tz start

theorem nextSubtreeSize_pos (i j : Nat) : 0 < nextSubtreeSize i j := by
  unfold nextSubtreeSize
  simp only
  split <;> exact Nat.two_pow_pos _

/-- number of zero bits of `x` at positions `< L` -/
def zerosBelow (x : Nat) : Nat → Nat
  | 0 => 0
  | L + 1 => (1 - x % 2) + zerosBelow (x / 2) L

/-- `bits.Len64(x ^ m)`: one more than the position of the highest bit where `x` and `m` differ -/
def diffLen (x m : Nat) : Nat :=
  if h : x = m then 0 else 1 + diffLen (x / 2) (m / 2)
termination_by x + m
decreasing_by omega

/-- Go `RangeProofSize(n, start, end)`: `popcount(start)` hashes on the left plus one
hash for every zero bit of `end-1` below the highest bit where `end-1` and `n-1` differ. -/
def rangeProofSize (n start end_ : Nat) : Nat :=
  popcount start + zerosBelow (end_ - 1) (diffLen (end_ - 1) (n - 1))

/-! ## Binary-counter accumulators (blake2b.Accumulator, rhp/v2 proofAccumulator) -/

/-- `trees [64]Hash256` + `numLeaves uint64` -/
structure Acc (H : Type) where
  trees : Nat → H
  n : Nat

def setTree {H : Type} (t : Nat → H) (i : Nat) (h : H) : Nat → H :=
  fun j => if j = i then h else t j

def Acc.empty {H : Type} [HashOps H] : Acc H := ⟨fun _ => zero, 0⟩

/-- The merge loop shared by `insertNode` and `AddLeaf`:
`for ; hasNodeAtHeight(i); i++ { h = SumPair(trees[i], h) }` with `m = numLeaves >> i`.
Returns the final slot and hash. -/
def carry {H : Type} [HashOps H] (t : Nat → H) (m i : Nat) (h : H) : Nat × H :=
  if m % 2 = 1 then carry t (m / 2) (i + 1) (node (t i) h) else (i, h)
termination_by m
decreasing_by omega

/-- `proofAccumulator.insertNode(h, height)` -/
def Acc.insertNode {H : Type} [HashOps H] (a : Acc H) (h : H) (height : Nat) : Acc H :=
  let r := carry a.trees (a.n / 2 ^ height) height h
  ⟨setTree a.trees r.1 r.2, a.n + 2 ^ height⟩

/-- `blake2b.Accumulator.AddLeaf(h)` -/
def Acc.addLeaf {H : Type} [HashOps H] (a : Acc H) (h : H) : Acc H :=
  let r := carry a.trees a.n 0 h
  ⟨setTree a.trees r.1 r.2, a.n + 1⟩

/-- The loop of `root()`/`Root()`: start at the lowest set bit, then fold every higher
set bit as `root = SumPair(trees[i], root)`; `m = numLeaves >> i`, `r = none` before
the lowest set bit has been seen. -/
def rootLoop {H : Type} [HashOps H] (t : Nat → H) (m i : Nat) (r : Option H) : Option H :=
  if h : m = 0 then r
  else rootLoop t (m / 2) (i + 1)
    (if m % 2 = 1 then some (match r with | none => t i | some x => node (t i) x) else r)
termination_by m
decreasing_by omega

/-- `proofAccumulator.root()` / `Accumulator.Root()` (zero hash when empty) -/
def Acc.root {H : Type} [HashOps H] (a : Acc H) : H :=
  (rootLoop a.trees a.n 0 none).getD zero

/-- `MetaRoot` above the sector-accumulator: Go recurses ("split at largest power of two")
while the list is longer than `limit = LeavesPerSector`, and hands shorter lists to the
4-lane `sectorAccumulator`, whose result is passed in as `base`. -/
def goMetaRoot {H : Type} [HashOps H] (limit : Nat) (base : List H → H) (ls : List H) : H :=
  if h : ls.length ≤ limit ∨ ls.length < 2 then base ls
  else
    let k := splitPoint ls.length
    node (goMetaRoot limit base (ls.take k)) (goMetaRoot limit base (ls.drop k))
termination_by ls.length
decreasing_by
  · have := splitPoint_lt (n := ls.length) (by omega)
    simp [List.length_take]; omega
  · have := splitPoint_pos ls.length
    simp [List.length_drop]; omega

/-! ## The 4-lane sector accumulator (rhp/v2 and rhp/v4 `sectorAccumulator`)

The algorithm of the SIMD code without its pointer casts: `trees[h]` holds FOUR subtree roots per
height and `SumNodes` merges two such quads into one (`blake2b.SumNodes` on 8 adjacent hashes);
`nodeBuf` collects up to four nodes before `mergeNodeBuf` pushes them down the carry chain.
Levels are counted from the bottom (`level = len(trees)-1-i` for Go's index `i`); Go's 15-level
bound (`numLeaves ≤ 2^16`) is not modelled. Intermediate results that Go leaves behind in slots it
marks as empty are not modelled (they are overwritten before they are read again). -/

/-- four hashes: one `[4][32]byte` row -/
structure Quad (H : Type) where
  a : H
  b : H
  c : H
  d : H

def Quad.set {H : Type} (q : Quad H) (i : Nat) (h : H) : Quad H :=
  match i with
  | 0 => { q with a := h }
  | 1 => { q with b := h }
  | 2 => { q with c := h }
  | _ => { q with d := h }

/-- `SumNodes(&trees[i], trees[i] ‖ next)`: four pair hashes over eight adjacent nodes -/
def mergeQuads {H : Type} [HashOps H] (x y : Quad H) : Quad H :=
  ⟨node x.a x.b, node x.c x.d, node y.a y.b, node y.c y.d⟩

/-- `root4`: the root of the four subtrees of one row (two rounds of `SumNodes`) -/
def root4 {H : Type} [HashOps H] (q : Quad H) : H := node (node q.a q.b) (node q.c q.d)

/-- the rows are merged exactly like single hashes in `proofAccumulator`; this instance lets the
carry loop `carry` be shared (only `node` is used) -/
instance quadOps {H : Type} [HashOps H] : HashOps (Quad H) where
  zero := ⟨zero, zero, zero, zero⟩
  leaf := fun b => ⟨leaf b, leaf b, leaf b, leaf b⟩
  node := mergeQuads

structure SecAcc (H : Type) where
  trees : Nat → Quad H
  nodeBuf : Quad H
  numLeaves : Nat

def SecAcc.empty {H : Type} [HashOps H] : SecAcc H := ⟨fun _ => zero, zero, 0⟩

/-- `mergeNodeBuf()`: merge `nodeBuf` into the rows while `hasNodeAtHeight`, store, `numLeaves += 4` -/
def SecAcc.mergeNodeBuf {H : Type} [HashOps H] (sa : SecAcc H) : SecAcc H :=
  let r := carry sa.trees (sa.numLeaves / 4) 0 sa.nodeBuf
  { sa with trees := setTree sa.trees r.1 r.2, numLeaves := sa.numLeaves + 4 }

/-- `appendNode(h)` -/
def SecAcc.appendNode {H : Type} [HashOps H] (sa : SecAcc H) (h : H) : SecAcc H :=
  let sa1 := { sa with nodeBuf := sa.nodeBuf.set (sa.numLeaves % 4) h, numLeaves := sa.numLeaves + 1 }
  if sa1.numLeaves % 4 = 0 then { sa1 with numLeaves := sa1.numLeaves - 4 }.mergeNodeBuf else sa1

/-- `appendLeaves(leaves)` over the leaf hashes: whole groups of four go through `SumLeaves`
straight into `nodeBuf` (overwriting it — Go relies on `numLeaves % 4 == 0` here), the rest
through `appendNode` -/
def SecAcc.appendLeafHashes {H : Type} [HashOps H] (sa : SecAcc H) : List H → SecAcc H
  | w :: x :: y :: z :: rest => ({ sa with nodeBuf := ⟨w, x, y, z⟩ }.mergeNodeBuf).appendLeafHashes rest
  | l => l.foldl SecAcc.appendNode sa

/-- `root()` -/
def SecAcc.root {H : Type} [HashOps H] (sa : SecAcc H) : H :=
  if sa.numLeaves = 0 then zero
  else
    let part : Option H :=
      match sa.numLeaves % 4 with
      | 0 => none
      | 1 => some sa.nodeBuf.a
      | 2 => some (node sa.nodeBuf.a sa.nodeBuf.b)
      | _ => some (node (node sa.nodeBuf.a sa.nodeBuf.b) sa.nodeBuf.c)
    (rootLoop (fun l => root4 (sa.trees l)) (sa.numLeaves / 4) 0 part).getD zero

/-- Go `MetaRoot(roots)`: the sector accumulator up to `LeavesPerSector` roots, the recursion above -/
def leavesPerSector : Nat := 65536
def goMetaRootSA {H : Type} [HashOps H] (ls : List H) : H :=
  goMetaRoot leavesPerSector (fun l => (l.foldl SecAcc.appendNode SecAcc.empty).root) ls

/-! ## Range proofs over a list of roots (rhp/v2 Build/VerifySectorRangeProof,
rhp/v4 Build/VerifySectorRootsProof, VerifyLeafProof) -/

def maxUint64 : Nat := 18446744073709551615
def maxInt32 : Nat := 2147483647

/-- `buildRange(i, j)` inside `BuildSectorRangeProof` -/
def buildRange {H : Type} [HashOps H] (ls : List H) (i j : Nat) : List H :=
  if h : i < j ∧ i < ls.length then
    let sz0 := nextSubtreeSize i j
    let sz := if i + sz0 > ls.length then ls.length - i else sz0
    metaRoot ((ls.drop i).take sz) :: buildRange ls (i + sz) j
  else []
termination_by ls.length - i
decreasing_by
  have := nextSubtreeSize_pos i j
  split <;> omega

/-- `BuildSectorRangeProof(sectorRoots, start, end)` -/
def buildSectorRangeProof {H : Type} [HashOps H] (ls : List H) (start end_ : Nat) : Except String (List H) :=
  if ls.length = 0 then .ok []
  else if end_ > ls.length ∨ start > end_ ∨ start = end_ then .error "BuildSectorRangeProof: illegal proof range"
  else .ok (buildRange ls 0 start ++ buildRange ls end_ maxInt32)

/-- `insertRange(i, j)` / `consume(&proof, i, j)` of the verifiers: while `i < j` and
proof hashes remain, insert the next hash at the height of the next subtree.
Returns the accumulator and the unconsumed hashes. -/
def insertRange {H : Type} [HashOps H] (acc : Acc H) : List H → Nat → Nat → Acc H × List H
  | [], _, _ => (acc, [])
  | p :: ps, i, j =>
    if i < j then
      let sz := nextSubtreeSize i j
      insertRange (acc.insertNode p (tz sz)) ps (i + sz) j
    else (acc, p :: ps)

/-- `VerifySectorRangeProof(proof, rangeRoots, start, end, numRoots, root)` -/
def verifySectorRangeProof {H : Type} [HashOps H] [DecidableEq H]
    (proof rangeRoots : List H) (start end_ numRoots : Nat) (root : H) : Except String Bool :=
  if numRoots = 0 then .ok (proof.length == 0)
  else if rangeRoots.length ≠ end_ - start then .error "VerifySectorRangeProof: number of roots does not match range"
  else if end_ > numRoots ∨ start > end_ ∨ start = end_ then .error "VerifySectorRangeProof: illegal proof range"
  else if proof.length ≠ rangeProofSize numRoots start end_ then .ok false
  else
    let s1 := insertRange Acc.empty proof 0 start
    let acc := rangeRoots.foldl (fun a h => a.insertNode h 0) s1.1
    let s2 := insertRange acc s1.2 end_ maxUint64
    .ok (decide (s2.1.root = root))

/-! ## Range proofs inside one sector (rhp/v2 BuildProof, RangeProofVerifier;
rhp/v4 BuildSectorProof) — stated for any power-of-two leaf count `n` -/

/-- The recursion `rec(i, j)` of `BuildProof` over leaf hashes `ls`. `fuel` bounds the
halving depth (`j - i = 2^fuel`). -/
def buildProofRec {H : Type} [HashOps H] (ls : List H) (start end_ : Nat) : Nat → Nat → Nat → List H
  | fuel, i, j =>
    if i ≥ start ∧ j ≤ end_ then []
    else if j ≤ start ∨ i ≥ end_ then [metaRoot ((ls.drop i).take (j - i))]
    else match fuel with
      | 0 => []
      | f + 1 =>
        let mid := (i + j) / 2
        buildProofRec ls start end_ f i mid ++ buildProofRec ls start end_ f mid j

/-- `BuildProof(sector, start, end, nil)` over the sector's leaf hashes (`ls.length = 2^k`). -/
def buildProof {H : Type} [HashOps H] (ls : List H) (start end_ : Nat) : Except String (List H) :=
  if end_ > ls.length ∨ start > end_ ∨ start = end_ then .error "BuildProof: illegal proof range"
  else .ok (buildProofRec ls start end_ (Nat.log2 ls.length) 0 ls.length)

/-- `RangeProofVerifier.ReadFrom`: the roots of the subtrees `nextSubtreeSize` cuts
`[start, end)` into (each computed by `ReaderRoot`, i.e. the plain root of that block).
`ls` are the leaf hashes of the data read, i.e. of leaves `start … end-1`. -/
def rangeSubtreeRoots {H : Type} [HashOps H] (ls : List H) (i j : Nat) : List H :=
  if h : i < j then
    let sz := nextSubtreeSize i j
    metaRoot (ls.take sz) :: rangeSubtreeRoots (ls.drop sz) (i + sz) j
  else []
termination_by j - i
decreasing_by
  have := nextSubtreeSize_pos i j
  omega

/-- `RangeProofVerifier.Verify(proof, root)` after `ReadFrom` ingested `leaves`
(`n = LeavesPerSector` in Go). -/
def rangeProofVerify {H : Type} [HashOps H] [DecidableEq H]
    (n : Nat) (proof leaves : List H) (start end_ : Nat) (root : H) : Bool :=
  if proof.length ≠ rangeProofSize n start end_ then false
  else
    let roots := rangeSubtreeRoots leaves start end_
    let s1 := insertRange Acc.empty proof 0 start
    let s2 := insertRange s1.1 roots start end_
    let s3 := insertRange s2.1 s1.2 end_ n
    decide (s3.1.root = root)

/-! ## Append proofs -/

/-- `for i := range acc.trees { if acc.hasNodeAtHeight(i) && len(treeHashes) > 0 {…} }`,
`m = numLeaves >> i` -/
def fillTrees {H : Type} (t : Nat → H) (m i : Nat) (hs : List H) : Nat → H :=
  if h : m = 0 then t
  else if m % 2 = 1 then
    match hs with
    | [] => fillTrees t (m / 2) (i + 1) []
    | x :: hs' => fillTrees (setTree t i x) (m / 2) (i + 1) hs'
  else fillTrees t (m / 2) (i + 1) hs
termination_by m
decreasing_by all_goals omega

/-- rhp/v2 `VerifyAppendProof(numLeaves, treeHashes, sectorRoot, oldRoot, newRoot)` -/
def verifyAppendProof {H : Type} [HashOps H] [DecidableEq H]
    (numLeaves : Nat) (treeHashes : List H) (sectorRoot oldRoot newRoot : H) : Bool :=
  let acc : Acc H := ⟨fillTrees (fun _ => zero) numLeaves 0 treeHashes, numLeaves⟩
  if acc.root ≠ oldRoot then false
  else decide ((acc.insertNode sectorRoot 0).root = newRoot)

/-- the subtree roots at the set bits of `m = numLeaves >> i`, lowest first -/
def collectTrees {H : Type} (t : Nat → H) (m i : Nat) : List H :=
  if h : m = 0 then []
  else if m % 2 = 1 then t i :: collectTrees t (m / 2) (i + 1)
  else collectTrees t (m / 2) (i + 1)
termination_by m
decreasing_by all_goals omega

/-- rhp/v4 `BuildAppendProof(sectorRoots, appended)` -/
def buildAppendProof {H : Type} [HashOps H] (sectorRoots appended : List H) : List H × H :=
  let acc := sectorRoots.foldl Acc.addLeaf Acc.empty
  (collectTrees acc.trees acc.n 0, (appended.foldl Acc.addLeaf acc).root)

/-- rhp/v4 `VerifyAppendSectorsProof(numSectors, subtreeRoots, appended, oldRoot, newRoot)` -/
def verifyAppendSectorsProof {H : Type} [HashOps H] [DecidableEq H]
    (numSectors : Nat) (subtreeRoots appended : List H) (oldRoot newRoot : H) : Bool :=
  let acc : Acc H := ⟨fillTrees (fun _ => zero) numSectors 0 subtreeRoots, numSectors⟩
  if acc.root ≠ oldRoot then false
  else decide ((appended.foldl Acc.addLeaf acc).root = newRoot)

/-! ## Diff proofs (rhp/v2 Build/VerifyDiffProof; rhp/v4 Build/VerifyFreeSectorsProof) -/

/-- `RPCWriteAction` restricted to what the diff proofs support; an append carries the
root of the appended sector (`appendRoots`). Anything else is `other` (Go panics). -/
inductive Action (H : Type) where
  | append (root : H)
  | trim (n : Nat)
  | swap (a b : Nat)
  | other

def wrapDec (x : Nat) : Nat := (x + 18446744073709551615) % 18446744073709551616

/-- the indices touched by `Trim(k)` starting from `numSectors` (Go: `newNumSectors--` k times, wrapping) -/
def trimIndices : Nat → Nat → Nat × List Nat
  | 0, n => (n, [])
  | k + 1, n => let n' := wrapDec n; let r := trimIndices k n'; (r.1, n' :: r.2)

/-- all indices named by the actions, in action order, with the final sector count -/
def actionIndices {H : Type} : List (Action H) → Nat → Except String (List Nat)
  | [], _ => .ok []
  | .append _ :: as, n => do let r ← actionIndices as (n + 1); pure (n :: r)
  | .trim k :: as, n => do
      let t := trimIndices k n
      let r ← actionIndices as t.1
      pure (t.2 ++ r)
  | .swap a b :: as, n => do let r ← actionIndices as n; pure (a :: b :: r)
  | .other :: _, _ => .error "unknown or unsupported action type"

def insertSorted (x : Nat) : List Nat → List Nat
  | [] => [x]
  | y :: ys => if x < y then x :: y :: ys else if x = y then y :: ys else y :: insertSorted x ys

/-- sort + remove duplicates -/
def sortDedup (l : List Nat) : List Nat := l.foldr insertSorted []

/-- `sectorsChanged(actions, numSectors)` -/
def sectorsChanged {H : Type} (actions : List (Action H)) (numSectors : Nat) : Except String (List Nat) := do
  let idx ← actionIndices actions numSectors
  pure ((sortDedup idx).filter (· < numSectors))

/-- `buildRange(i, j)` inside `BuildDiffProof` (no clipping; Go panics on a slice beyond the list) -/
def diffBuildRange {H : Type} [HashOps H] (ls : List H) (i j : Nat) : Except String (List H) :=
  if h : i < j then
    let sz := nextSubtreeSize i j
    if i + sz > ls.length then .error "slice bounds out of range"
    else do
      let r ← diffBuildRange ls (i + sz) j
      pure (metaRoot ((ls.drop i).take sz) :: r)
  else .ok []
termination_by j - i
decreasing_by
  have := nextSubtreeSize_pos i j
  omega

/-- the tree hashes between the changed indices -/
def diffTreeHashes {H : Type} [HashOps H] (ls : List H) : List Nat → Nat → Except String (List H)
  | [], start => diffBuildRange ls start ls.length
  | e :: es, start => do
      let a ← diffBuildRange ls start e
      let b ← diffTreeHashes ls es (e + 1)
      pure (a ++ b)

/-- `BuildDiffProof(actions, sectorRoots)` -/
def buildDiffProof {H : Type} [HashOps H] (actions : List (Action H)) (ls : List H) :
    Except String (List H × List H) := do
  let indices ← sectorsChanged actions ls.length
  let leafs := indices.map (fun j => ls.getD j zero)
  let th ← diffTreeHashes ls indices 0
  pure (th, leafs)

/-- number of `buildRange` iterations -/
def diffRangeCount (i j : Nat) : Nat :=
  if h : i < j then 1 + diffRangeCount (i + nextSubtreeSize i j) j else 0
termination_by j - i
decreasing_by
  have := nextSubtreeSize_pos i j
  omega

def diffTreeCount : List Nat → Nat → Nat → Nat
  | [], start, n => diffRangeCount start n
  | e :: es, start, n => diffRangeCount start e + diffTreeCount es (e + 1) n

/-- `DiffProofSize(actions, numLeaves)` -/
def diffProofSize {H : Type} (actions : List (Action H)) (numLeaves : Nat) : Except String Nat := do
  let indices ← sectorsChanged actions numLeaves
  pure (indices.length + diffTreeCount indices 0 numLeaves)

/-- the inner loop of `verifyMulti` -/
def verifyMultiLoop {H : Type} [HashOps H] (acc : Acc H) (treeHashes : List H) :
    List Nat → List H → Nat → Nat → Except String (Acc H × List H)
  | [], _, start, numLeaves => .ok (insertRange acc treeHashes start numLeaves)
  | e :: es, leafs, start, numLeaves =>
    let s := insertRange acc treeHashes start e
    match leafs with
    | [] => .error "index out of range"
    | l :: leafs' => verifyMultiLoop (s.1.insertNode l 0) s.2 es leafs' (e + 1) numLeaves

/-- Does `verifyMulti` also require its accumulator to end with exactly `numLeaves` leaves
(Go: `&& acc.numLeaves == numLeaves`)? READ FROM THE CODE: the T-fact generator
`extract/facts_rhp.go` inspects the `return` of the `verifyMulti` closure on every run. The
pinned commit lacked the check (finding C16 "freed-index", `C16.c16_diff_forged_accepted`); it was
added by the fix 9e80790. Every theorem is stated for an explicit value of the flag, and
`C16.tie_verifyMulti_checks_leaf_count` pins the value the soundness theorems need. -/
def codeChecksLeafCount : Bool := Gen.FactsRhp.verifyMultiChecksLeafCount

/-- `verifyMulti(proofIndices, treeHashes, leafHashes, numLeaves, root)`; `checkCount` selects the
variant with the leaf-count check (see `codeChecksLeafCount`) -/
def verifyMultiG {H : Type} [HashOps H] [DecidableEq H] (checkCount : Bool)
    (proofIndices : List Nat) (treeHashes leafHashes : List H) (numLeaves : Nat) (root : H) : Except String Bool := do
  let s ← verifyMultiLoop Acc.empty treeHashes proofIndices leafHashes 0 numLeaves
  pure (decide (s.1.root = root) && s.2.length == 0 && (!checkCount || s.1.n == numLeaves))

/-- `modifyProofRanges` -/
def modifyProofRanges {H : Type} : List Nat → List (Action H) → Nat → Except String (List Nat)
  | idx, [], _ => .ok idx
  | idx, .append _ :: as, n => modifyProofRanges (idx ++ [n]) as (n + 1)
  | idx, .trim k :: as, n =>
      if k > idx.length then .error "slice bounds out of range"
      else modifyProofRanges (idx.take (idx.length - k)) as (n - k)
  | idx, .swap _ _ :: as, n => modifyProofRanges idx as n
  | _, .other :: _, _ => .error "unknown or unsupported action type"

/-- position of `x` in a sorted duplicate-free list (Go's `indexMap`; a missing key reads as 0) -/
def indexOf (x : Nat) : List Nat → Nat → Nat
  | [], _ => 0
  | y :: ys, k => if x = y then k else indexOf x ys (k + 1)

def swapList {H : Type} (l : List H) (i j : Nat) : Except String (List H) :=
  match l[i]?, l[j]? with
  | some a, some b => .ok ((l.set i b).set j a)
  | _, _ => .error "index out of range"

def applyLeafActions {H : Type} (sorted : List Nat) : List H → List (Action H) → Except String (List H)
  | leafs, [] => .ok leafs
  | leafs, .append r :: as => applyLeafActions sorted (leafs ++ [r]) as
  | leafs, .trim k :: as =>
      if k > leafs.length then .error "slice bounds out of range"
      else applyLeafActions sorted (leafs.take (leafs.length - k)) as
  | leafs, .swap a b :: as => do
      let l ← swapList leafs (indexOf a sorted 0) (indexOf b sorted 0)
      applyLeafActions sorted l as
  | _, .other :: _ => .error "unknown or unsupported action type"

/-- `modifyLeaves(leafHashes, actions, numSectors, appendRoots)` -/
def modifyLeaves {H : Type} (leafHashes : List H) (actions : List (Action H)) (numSectors : Nat) :
    Except String (List H) := do
  let idx ← actionIndices actions numSectors
  applyLeafActions (sortDedup idx) leafHashes actions

/-- `VerifyDiffProof(actions, numLeaves, treeHashes, leafHashes, oldRoot, newRoot, appendRoots)` -/
def verifyDiffProofG {H : Type} [HashOps H] [DecidableEq H] (checkCount : Bool)
    (actions : List (Action H)) (numLeaves : Nat) (treeHashes leafHashes : List H)
    (oldRoot newRoot : H) : Except String Bool :=
  match sectorsChanged actions numLeaves with
  | .error e => .error e
  | .ok proofIndices =>
    if proofIndices.length ≠ leafHashes.length then .ok false
    else
      -- first use the original proof to construct oldRoot
      match verifyMultiG checkCount proofIndices treeHashes leafHashes numLeaves oldRoot with
      | .error e => .error e
      | .ok false => .ok false
      | .ok true =>
        -- then modify the proof according to actions and construct the newRoot
        match modifyLeaves leafHashes actions numLeaves with
        | .error e => .error e
        | .ok newLeafHashes =>
          match modifyProofRanges proofIndices actions numLeaves with
          | .error e => .error e
          | .ok newProofIndices =>
            verifyMultiG checkCount newProofIndices treeHashes newLeafHashes
              (numLeaves + newLeafHashes.length - leafHashes.length) newRoot

/-- SPECIFICATION: the list of sector roots after performing the actions one after the other
(`Append` adds the root at the end, `Trim k` drops the last `k`, `Swap a b` exchanges two entries) -/
def applyActions {H : Type} : List H → List (Action H) → Except String (List H)
  | l, [] => .ok l
  | l, .append r :: as => applyActions (l ++ [r]) as
  | l, .trim k :: as =>
      if k > l.length then .error "slice bounds out of range" else applyActions (l.take (l.length - k)) as
  | l, .swap a b :: as => do
      let l' ← swapList l a b
      applyActions l' as
  | _, .other :: _ => .error "unknown or unsupported action type"

/-- rhp/v4 `convertFreeActions(freed, numSectors)` -/
def convertFreeActions {H : Type} (freed : List Nat) (numSectors : Nat) : List (Action H) :=
  (freed.zipIdx.map (fun (x : Nat × Nat) => Action.swap x.1 ((numSectors + 18446744073709551616 - x.2 - 1) % 18446744073709551616)))
    ++ [Action.trim freed.length]

/-- rhp/v4 `BuildFreeSectorsProof(sectorRoots, freed)` -/
def buildFreeSectorsProof {H : Type} [HashOps H] (ls : List H) (freed : List Nat) :=
  buildDiffProof (convertFreeActions freed ls.length) ls

/-- rhp/v4 `VerifyFreeSectorsProof(treeHashes, leafHashes, freed, numSectors, oldRoot, newRoot)` -/
def verifyFreeSectorsProofG {H : Type} [HashOps H] [DecidableEq H] (checkCount : Bool)
    (treeHashes leafHashes : List H) (freed : List Nat) (numSectors : Nat) (oldRoot newRoot : H) :=
  verifyDiffProofG checkCount (convertFreeActions freed numSectors) numSectors treeHashes leafHashes oldRoot newRoot

/-- the verifiers as the code has them now -/
def verifyDiffProof {H : Type} [HashOps H] [DecidableEq H] (actions : List (Action H)) (numLeaves : Nat)
    (treeHashes leafHashes : List H) (oldRoot newRoot : H) : Except String Bool :=
  verifyDiffProofG codeChecksLeafCount actions numLeaves treeHashes leafHashes oldRoot newRoot

def verifyFreeSectorsProof {H : Type} [HashOps H] [DecidableEq H]
    (treeHashes leafHashes : List H) (freed : List Nat) (numSectors : Nat) (oldRoot newRoot : H) :=
  verifyFreeSectorsProofG codeChecksLeafCount treeHashes leafHashes freed numSectors oldRoot newRoot

/-- the sector roots after freeing: swap each freed index with the current last, then trim -/
def applyFree {H : Type} (ls : List H) (freed : List Nat) : Except String (List H) := do
  let swapped ← (freed.zipIdx).foldlM
    (fun (l : List H) (x : Nat × Nat) => swapList l x.1 (ls.length - x.2 - 1)) ls
  pure (swapped.take (ls.length - freed.length))

/-! ## ConvertProofOrdering and the consensus-style leaf-to-root verification -/

/-- the loop of `ConvertProofOrdering`; `idx = index >> i`. `fuel` bounds the number of
bit positions visited (Go loops until all hashes are placed). -/
def convertLoop {H : Type} : Nat → Nat → List H → List H → Except String (List H)
  | 0, _, _, _ => .ok []
  | fuel + 1, idx, lefts, rights =>
    if lefts.length + rights.length = 0 then .ok []
    else if idx % 2 = 1 then
      match lefts.getLast? with
      | none => .error "index out of range"
      | some x => do
        let r ← convertLoop fuel (idx / 2) lefts.dropLast rights
        pure (x :: r)
    else match rights with
      | [] => convertLoop fuel (idx / 2) lefts rights
      | x :: rs => do
        let r ← convertLoop fuel (idx / 2) lefts rs
        pure (x :: r)

/-- `ConvertProofOrdering(proof, index)` (panics when the proof has fewer than
`popcount index` hashes) -/
def convertProofOrdering {H : Type} (proof : List H) (index : Nat) : Except String (List H) :=
  let k := popcount index
  if k > proof.length then .error "slice bounds out of range"
  else convertLoop (proof.length + 64) index (proof.take k) (proof.drop k)

/-- leaf-to-root evaluation of a single-leaf proof in a balanced `2^k`-leaf tree, as
consensus does it for storage proofs: the sibling is on the left when the index bit is 1. -/
def leafToRoot {H : Type} [HashOps H] (h : H) (index : Nat) : List H → H
  | [] => h
  | p :: ps => leafToRoot (if index % 2 = 1 then node p h else node h p) (index / 2) ps

end Sia.Rhp
