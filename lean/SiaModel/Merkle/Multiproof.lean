/-
  SiaModel.Merkle.Multiproof — executable model of `types/multiproof.go`:
  forEachElementLeaf (as the list of visited leaves), forEachTree, multiproofSize,
  computeMultiproof, expandMultiproof and the numLeaves inference / proof-length
  recovery of V2TransactionsMultiproof.EncodeTo/DecodeFrom.

  The transactions are abstracted to the list of their non-ephemeral element leaves in
  the order `forEachElementLeaf` visits them (ephemeral parents, LeafIndex ==
  UnassignedLeafIndex, are skipped by the Go code and never touched). A leaf is a
  pointer to a StateElement in Go; here it carries a `tag` (its position in that order)
  so that in-place writes through the pointer can be put back in the original order.
  Leaf hashes are `Hasher.leaf elem index false` (the spent flag is always clear in
  types/multiproof.go); leaves index into the forest model of C05 (`Merkle/Forest`).

  Standing assumption: indices < 2^64, proofs shorter than 64. Core Lean only.
-/
import SiaModel.Merkle.Accumulator
namespace Sia.Multiproof
open Sia.ElemAcc

/-- `elementLeaf` of types/multiproof.go -/
structure MLeaf (H : Type) where
  tag : Nat
  elem : H
  index : Nat
  proof : List H

section
variable {H : Type} [Hasher H] [Inhabited H]

/-- `elementLeaf.hash` (spent = false) -/
def MLeaf.hash (l : MLeaf H) : H := Hasher.leaf l.elem l.index false

/-- `l.MerkleProof[k] = x` -/
def MLeaf.setProofAt (l : MLeaf H) (k : Nat) (x : H) : MLeaf H := { l with proof := l.proof.set k x }

/-- `proofSize(i, j, leaves)` with `j = i + 2^height` -/
def proofSize : Nat → Nat → List (MLeaf H) → Nat
  | 0, _, leaves => if leaves.isEmpty then 1 else 0
  | height + 1, i, leaves =>
    if leaves.isEmpty then 1
    else
      let mid := i + 2 ^ height
      proofSize height i (leaves.takeWhile (fun l => l.index < mid)) +
        proofSize height mid (leaves.dropWhile (fun l => l.index < mid))

/-- `visit(i, j, leaves)` of `computeMultiproof`; returns the hashes it appends -/
def computeVisit : Nat → Nat → List (MLeaf H) → List H
  | 0, _, _ => []
  | height + 1, i, leaves =>
    let mid := i + 2 ^ height
    let left := leaves.takeWhile (fun l => l.index < mid)
    let right := leaves.dropWhile (fun l => l.index < mid)
    (match left, right with
      | [], r0 :: _ => [r0.proof.getD height default]
      | [], [] => [default]  -- Go: right[0] panics; never reached (leaves is non-empty)
      | _ :: _, _ => computeVisit height i left) ++
    (match right, left with
      | [], l0 :: _ => [l0.proof.getD height default]
      | [], [] => [default]
      | _ :: _, _ => computeVisit height mid right)

/-- `visit(i, j, leaves)` of `expandMultiproof`; threads the remaining multiproof and
    returns the subtree root and the leaves with rewritten proofs -/
def expandVisit : Nat → Nat → List (MLeaf H) → List H → Except String (H × List (MLeaf H) × List H)
  | 0, _, leaves, proof =>
    match leaves with
    | [] => match proof with
      | p :: rest => .ok (p, [], rest)
      | [] => .error "index out of range"
    | l0 :: _ => .ok (l0.hash, leaves, proof)
  | height + 1, i, leaves, proof =>
    match leaves with
    | [] => match proof with
      | p :: rest => .ok (p, [], rest)
      | [] => .error "index out of range"
    | _ :: _ => do
      let mid := i + 2 ^ height
      let left := leaves.takeWhile (fun l => l.index < mid)
      let right := leaves.dropWhile (fun l => l.index < mid)
      let (leftRoot, left', proof1) ← expandVisit height i left proof
      let (rightRoot, right', proof2) ← expandVisit height mid right proof1
      pure (node leftRoot rightRoot,
        left'.map (·.setProofAt height rightRoot) ++ right'.map (·.setProofAt height leftRoot), proof2)

/-- the leaves of one tree as `forEachTree` hands them over: proof length `height`,
    sorted by leaf index -/
def treeGroup (leaves : List (MLeaf H)) (height : Nat) : List (MLeaf H) :=
  (leaves.filter (fun l => l.proof.length == height)).mergeSort (fun a b => a.index ≤ b.index)

/-- `start := clearBits(leaves[0].LeafIndex, height+1)` -/
def groupStart (grp : List (MLeaf H)) (height : Nat) : Nat :=
  match grp with
  | l0 :: _ => clearBits l0.index (height + 1)
  | [] => 0

/-- `multiproofSize` -/
def multiproofSize (leaves : List (MLeaf H)) : Nat :=
  (List.range 64).foldl (fun size height =>
    let grp := treeGroup leaves height
    if grp.isEmpty then size else size + proofSize height (groupStart grp height) grp) 0

/-- `computeMultiproof` -/
def computeMultiproof (leaves : List (MLeaf H)) : List H :=
  (List.range 64).foldl (fun proof height =>
    let grp := treeGroup leaves height
    if grp.isEmpty then proof else proof ++ computeVisit height (groupStart grp height) grp) []

/-- the `forEachTree` loop of `expandMultiproof`: remaining multiproof and the rewritten groups -/
def expandTrees (leaves : List (MLeaf H)) : List Nat → List H → Except String (List (MLeaf H))
  | [], _ => .ok []
  | height :: hs, proof =>
    let grp := treeGroup leaves height
    if grp.isEmpty then expandTrees leaves hs proof
    else do
      let (_, grp', proof') ← expandVisit height (groupStart grp height) grp proof
      let rest ← expandTrees leaves hs proof'
      pure (grp' ++ rest)

/-- `expandMultiproof`: the leaves, in their original order, with the proofs written
    through their pointers -/
def expandMultiproof (leaves : List (MLeaf H)) (proof : List H) : Except String (List (MLeaf H)) := do
  let written ← expandTrees leaves (List.range 64) proof
  pure (leaves.map fun l => match written.find? (fun w => w.tag == l.tag) with
    | some w => w
    | none => l)

/-! ### V2TransactionsMultiproof.EncodeTo / DecodeFrom, at the level of leaves -/

/-- `numLeaves |= l.LeafIndex&^(n-1) | n` with `n = 1 << len(l.MerkleProof)` -/
def inferNumLeaves (leaves : List (MLeaf H)) : Nat :=
  leaves.foldl (fun acc l => acc ||| (clearBits l.index l.proof.length ||| 2 ^ l.proof.length)) 0

/-- what the encoder writes: the proofless leaves, `numLeaves`, the multiproof -/
def encodeMP (leaves : List (MLeaf H)) : List (MLeaf H) × Nat × List H :=
  (leaves.map fun l => { l with proof := [] }, inferNumLeaves leaves, computeMultiproof leaves)

/-- `l.MerkleProof = make([]Hash256, bits.Len64(l.LeafIndex^numLeaves)-1)` -/
def sizeProofs (proofless : List (MLeaf H)) (numLeaves : Nat) : List (MLeaf H) :=
  proofless.map fun l => { l with proof := List.replicate (bitLen (l.index ^^^ numLeaves) - 1) default }

/-- the decoder: proof lengths from `numLeaves`, `multiproofSize` hashes read from the
    stream, `expandMultiproof`; returns the leaves and the unread rest of the stream -/
def decodeMP (proofless : List (MLeaf H)) (numLeaves : Nat) (stream : List H) :
    Except String (List (MLeaf H) × List H) :=
  if proofless.any (fun l => l.index ≥ numLeaves) then .error "invalid leaf index"
  else
    let sized := sizeProofs proofless numLeaves
    let n := multiproofSize sized
    if stream.length < n then .error "unexpected EOF"
    else do
      let out ← expandMultiproof sized (stream.take n)
      pure (out, stream.drop n)

end
end Sia.Multiproof
