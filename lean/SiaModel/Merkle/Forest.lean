/-
  SiaModel.Merkle.Forest — the SPECIFICATION: the naive Merkle forest of a list of
  leaf hashes (C04, C05; reused by C06, C18).

  For `n = ls.length` leaves the forest has one perfect tree per set bit of `n`,
  the highest tree first (leftmost).  Everything is written structurally over an
  abstract hash type `H` with a binary node function; nothing here is derived from
  `consensus/merkle.go`.

  * `subRoot ls h s`    root of the perfect tree of height `h` over `ls[s .. s+2^h)`
  * `perfectRoot h l`   the same for a list that is exactly one tree
  * `treeStart n h`     first leaf index of the tree of height `h` (bit `h` of `n` set)
  * `subPath ls h p H S` sibling hashes, bottom-up, from the height-`h` subtree that
                        contains leaf `p` up to the root of the subtree `(H,S)`
  * `path ls i`         the Merkle proof of leaf `i`: siblings from the leaf to the
                        root of the tree that contains it
  * `forestOf ls`       `(numLeaves, trees : height → Option H)`

  Core Lean only (linked into the driver).
-/
namespace Sia.ElemAcc

/-- The hash interface the accumulator code uses: `node l r` is
    `blake2b(0x01 ‖ l ‖ r)` (`blake2b.SumPair`), `leaf e i s` is
    `elementLeaf.hash`: `blake2b(0x00 ‖ elementHash ‖ le64 leafIndex ‖ spentByte)`. -/
class Hasher (H : Type) where
  node : H → H → H
  leaf : H → Nat → Bool → H

export Hasher (node)

section
variable {H : Type} [Hasher H] [Inhabited H]

/-- Root of the perfect subtree of height `h` whose first leaf is `ls[s]`. -/
def subRoot (ls : List H) : Nat → Nat → H
  | 0, s => ls.getD s default
  | h + 1, s => node (subRoot ls h s) (subRoot ls h (s + 2 ^ h))

/-- Root of a list that forms exactly one perfect tree of height `h`. -/
def perfectRoot (h : Nat) (l : List H) : H := subRoot l h 0

/-- The same root written by halving the list (no index arithmetic): the root of the
    perfect tree over the first `2^h` elements of `l`. `Lemmas/Forest: subRoot_eq_halving`
    proves `subRoot ls h s = halvingRoot h (ls.drop s)`. -/
def halvingRoot : Nat → List H → H
  | 0, l => l.headD default
  | h + 1, l => node (halvingRoot h (l.take (2 ^ h))) (halvingRoot h (l.drop (2 ^ h)))

/-- First leaf of the tree of height `h` in a forest of `n` leaves: the sum of the
    sizes of all higher trees, i.e. `n` with its low `h+1` bits cleared. -/
def treeStart (n h : Nat) : Nat := n / 2 ^ (h + 1) * 2 ^ (h + 1)

/-- Is there a tree of height `h` in a forest of `n` leaves? -/
def hasTree (n h : Nat) : Bool := n.testBit h

/-- Number of bits needed to write `x` (Go `bits.Len64`). -/
def bitLen (x : Nat) : Nat := if x = 0 then 0 else Nat.log2 x + 1

/-- Height of the tree containing leaf `i < n`: the highest bit in which `n` and `i`
    differ (`Lemmas/Bits: treeHeight_spec` shows that this is the unique `h` with bit
    `h` of `n` set and `treeStart n h ≤ i < treeStart n h + 2^h`). -/
def treeHeight (n i : Nat) : Nat := bitLen (n ^^^ i) - 1

/-- Sibling hashes, bottom-up, on the way from the height-`h` subtree containing leaf
    `p` up to the root of the subtree of height `Ht` starting at `S`.
    Written by descent from the root: at every level the sibling is the root of the
    half that does not contain `p`. -/
def subPath (ls : List H) (h p : Nat) : Nat → Nat → List H
  | 0, _ => []
  | Ht + 1, S =>
    if Ht + 1 ≤ h then []
    else if p < S + 2 ^ Ht then subPath ls h p Ht S ++ [subRoot ls Ht (S + 2 ^ Ht)]
    else subPath ls h p Ht (S + 2 ^ Ht) ++ [subRoot ls Ht S]

/-- The Merkle proof of leaf `i` in the naive forest of `ls`. -/
def path (ls : List H) (i : Nat) : List H :=
  let h := treeHeight ls.length i
  subPath ls 0 i h (treeStart ls.length h)

/-- The naive forest. -/
structure Forest (H : Type) where
  numLeaves : Nat
  trees : Nat → Option H

def forestOf (ls : List H) : Forest H where
  numLeaves := ls.length
  trees := fun h => if hasTree ls.length h then some (subRoot ls h (treeStart ls.length h)) else none

/-- Replace leaf `i` (specification of an in-place leaf update). -/
def setLeaf (ls : List H) (i : Nat) (x : H) : List H := ls.set i x

end
end Sia.ElemAcc
