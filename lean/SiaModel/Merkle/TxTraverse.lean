/-
  SiaModel.Merkle.TxTraverse — `forEachElementLeaf` (types/multiproof.go) on the VALUE
  TREE of a slice of v2 transactions (the `Val` of the schema `.slice (.ext
  "Types.V2Transaction")` of the codec model): which sub-values are the parent elements
  the multiproof code visits, in which order, and how proofs are written back.

  A traversal (`Trav`) lists sub-values of a value (`get`) and replaces them from a supply
  (`put`, returning the unused rest); it is total on all values (a value of unexpected
  shape has no targets). Core Lean only.
-/
import SiaModel.Codec.Schema
import SiaModel.Merkle.MultiproofBytes
namespace Sia.Multiproof
open Sia.Codec

structure Trav where
  get : Val → List Val
  put : Val → List Val → Val × List Val

namespace Trav

/-- the value itself -/
def here : Trav where
  get := fun v => [v]
  put := fun v l => match l with
    | x :: r => (x, r)
    | [] => (v, [])

/-- nothing -/
def none : Trav where
  get := fun _ => []
  put := fun v l => (v, l)

/-- both components of a pair, left first -/
def pair (t1 t2 : Trav) : Trav where
  get := fun v => match v with
    | .pair a b => t1.get a ++ t2.get b
    | _ => []
  put := fun v l => match v with
    | .pair a b =>
      let r1 := t1.put a l
      let r2 := t2.put b r1.2
      (.pair r1.1 r2.1, r2.2)
    | _ => (v, l)

def putList (t : Trav) : List Val → List Val → List Val × List Val
  | [], l => ([], l)
  | v :: vs, l =>
    let r1 := t.put v l
    let r2 := putList t vs r1.2
    (r1.1 :: r2.1, r2.2)

/-- every element of a list, in order -/
def list (t : Trav) : Trav where
  get := fun v => match v with
    | .list vs => vs.flatMap t.get
    | _ => []
  put := fun v l => match v with
    | .list vs => let r := putList t vs l; (.list r.1, r.2)
    | _ => (v, l)

/-- inside an optional value -/
def some (t : Trav) : Trav where
  get := fun v => match v with
    | .some x => t.get x
    | _ => []
  put := fun v l => match v with
    | .some x => let r := t.put x l; (.some r.1, r.2)
    | _ => (v, l)

def getFields : List Trav → List Val → List Val
  | t :: ts, v :: vs => t.get v ++ getFields ts vs
  | _, _ => []

def putFields : List Trav → List Val → List Val → List Val × List Val
  | t :: ts, v :: vs, l =>
    let r1 := t.put v l
    let r2 := putFields ts vs r1.2
    (r1.1 :: r2.1, r2.2)
  | _, vs, l => (vs, l)

/-- the i-th traversal on the i-th entry of a list (a record stored as a list) -/
def fields (ts : List Trav) : Trav where
  get := fun v => match v with
    | .list vs => getFields ts vs
    | _ => []
  put := fun v l => match v with
    | .list vs => let r := putFields ts vs l; (.list r.1, r.2)
    | _ => (v, l)

/-- the payload of a tagged union, when the tag is `tag` -/
def tagged (tag : Nat) (t : Trav) : Trav where
  get := fun v => match v with
    | .pair (.nat k) x => if k = tag then t.get x else []
    | _ => []
  put := fun v l => match v with
    | .pair (.nat k) x => if k = tag then (let r := t.put x l; (.pair (.nat k) r.1, r.2)) else (v, l)
    | _ => (v, l)

end Trav

/-! ### the parent elements of a v2 transaction set -/

/-- `x.Parent` is the first field of inputs, revisions and resolutions -/
def parentOf : Trav := Trav.pair Trav.here Trav.none

/-- a resolution: `Parent`, then — for a storage proof (tag 1) — `ProofIndex`, the first
    field of the payload -/
def resolutionParents : Trav :=
  Trav.pair Trav.here (Trav.pair (Trav.tagged 1 (Trav.pair Trav.here Trav.none)) Trav.none)

/-- one transaction (a record of 11 optional fields): SiacoinInputs (0), SiafundInputs (2),
    FileContractRevisions (5), FileContractResolutions (6) -/
def txnParents : Trav := Trav.fields [
  Trav.some (Trav.list parentOf), Trav.none, Trav.some (Trav.list parentOf), Trav.none, Trav.none,
  Trav.some (Trav.list parentOf), Trav.some (Trav.list resolutionParents)]

/-- `forEachElementLeaf` before the `LeafIndex != UnassignedLeafIndex` filter -/
def txnsParents : Trav := Trav.list txnParents

/-! ### elements -/

/-- `e.StateElement.LeafIndex` of an element value `(StateElement, …)` -/
def idxOf : Val → Nat
  | .pair (.pair (.nat i) _) _ => i
  | _ => ElemAcc.unassignedLeafIndex

def hash32Of : Val → Option Hash32
  | .bytes b => if h : b.length = 32 then Option.some ⟨b, h⟩ else Option.none
  | _ => Option.none

/-- `e.StateElement.MerkleProof` -/
def proofOf : Val → List Hash32
  | .pair (.pair _ (.pair (.list pv) _)) _ => pv.filterMap hash32Of
  | _ => []

/-- `e.StateElement.MerkleProof = p` -/
def setProof (el : Val) (p : List Hash32) : Val :=
  match el with
  | .pair (.pair i (.pair (.list _) u)) rest => .pair (.pair i (.pair (.list (p.map fun h => .bytes h.val)) u)) rest
  | _ => el

/-- a parent the multiproof code visits (not ephemeral) -/
def visited (el : Val) : Bool := idxOf el != ElemAcc.unassignedLeafIndex

/-- write proofs into the visited elements, in order; ephemeral ones are left alone -/
def setProofsEls : List Val → List (List Hash32) → List Val
  | [], _ => []
  | el :: els, ps =>
    if visited el then
      match ps with
      | p :: ps' => setProof el p :: setProofsEls els ps'
      | [] => el :: setProofsEls els []
    else el :: setProofsEls els ps

/-- the leaves of the visited elements, numbered from `k`; `eh k el` is the element hash of
    the `k`-th parent -/
def leavesFrom (eh : Nat → Val → Hash32) : Nat → List Val → List (MLeaf Hash32)
  | _, [] => []
  | k, el :: els =>
    if visited el then
      { tag := k, elem := eh k el, index := idxOf el, proof := proofOf el } :: leavesFrom eh (k + 1) els
    else leavesFrom eh (k + 1) els

def leavesOfEls (eh : Nat → Val → Hash32) (els : List Val) : List (MLeaf Hash32) := leavesFrom eh 0 els

/-! ### which `*Leaf` constructor hashes each parent

`forEachElementLeaf` calls `siacoinLeaf` on the parents of siacoin inputs, `siafundLeaf` on
those of siafund inputs, `v2FileContractLeaf` on the parents of revisions and resolutions and
`chainIndexLeaf` on the proof index of a storage proof. -/

/-- the constructor used for the parents of one resolution -/
def resolutionKinds : Val → List String
  | .pair _ (.pair (.pair (.nat 1) (.pair _ _)) _) => ["v2FileContractLeaf", "chainIndexLeaf"]
  | .pair _ _ => ["v2FileContractLeaf"]
  | _ => []

def fieldKinds (name : String) : Val → List String
  | .some (.list vs) => vs.flatMap fun v => match v with | .pair _ _ => [name] | _ => []
  | _ => []

def txnKinds : Val → List String
  | .list (f0 :: _ :: f2 :: _ :: _ :: f5 :: f6 :: _) =>
    fieldKinds "siacoinLeaf" f0 ++ fieldKinds "siafundLeaf" f2 ++ fieldKinds "v2FileContractLeaf" f5 ++
      (match f6 with | .some (.list rs) => rs.flatMap resolutionKinds | _ => [])
  | _ => []

/-- the constructor names of the parents `txnsParents` visits, in order -/
def txnsKinds : Val → List String
  | .list txs => txs.flatMap txnKinds
  | _ => []

/-- what the constructor hashes of an element value: everything after the StateElement -/
def contentOf : Val → Val
  | .pair _ rest => rest
  | v => v

/-- the transaction-set operations of the multiproof codec on the value tree of
    `.slice v2txn`, for a payload codec `(encP, decP)` and element hashes `eh` -/
def valOps (eh : Nat → Val → Hash32) (encP : Val → Bytes) (decP : Bytes → Except DecErr (Val × Bytes)) : TxSetOps Val where
  leaves := fun t => leavesOfEls eh (txnsParents.get t)
  setProofs := fun t ps => (txnsParents.put t (setProofsEls (txnsParents.get t) ps)).1
  encP := encP
  decP := decP

end Sia.Multiproof
