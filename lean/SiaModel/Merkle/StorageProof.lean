/-
  SiaModel.Merkle.StorageProof — consensus storage-proof verification (property C07, proof part).

  Mirrors /repo/consensus/merkle.go (`proofRoot`, `storageProofRoot`, used for v2 contracts) and
  the closures `lastLeafIndex`, `storageProofLeaf`, `storageProofRoot` inside
  `validateFileContracts` (/repo/consensus/validation.go, v1 contracts, three leaf eras).
  The specification root of a file is `Sia.Rhp.metaRoot` over the leaf hashes of its 64-byte
  segments (the last one zero-padded); `spPath` is the honest leaf-to-root proof.

  `uint64` values are `Nat < 2^64`; the only wrap-around that is reachable
  (`lastLeafIndex` of an empty file: `0 - 1`) is modelled. Core Lean only.
-/
import SiaModel.Merkle.Rhp
import SiaModel.Prim.GoSem
set_option linter.unusedVariables false

namespace Sia.SP
open Sia.Rhp Sia.Rhp.HashOps

/-- `bits.Len64` -/
def bitLen (x : Nat) : Nat := if x = 0 then 0 else Nat.log2 x + 1

/-- `proofRoot(leafHash, leafIndex, proof)`: bit `i` of the index clear ⇒ sibling on the right -/
def proofRoot {H : Type} [HashOps H] (leafHash : H) (leafIndex : Nat) (proof : List H) : H :=
  leafToRoot leafHash leafIndex proof

/-- `lastLeafIndex` as computed in `storageProofRoot` (consensus/merkle.go): `filesize/64`, minus one
(wrapping) when `filesize` is a multiple of 64 -/
def lastLeafIndex (filesize : Nat) : Nat :=
  if filesize % 64 = 0 then (filesize / 64 + 18446744073709551615) % 18446744073709551616 else filesize / 64

/-- consensus/merkle.go `storageProofSubtreeHeight(leafIndex, filesize)`: the height at which the path
of the leaf merges with the path of the last leaf -/
def storageProofSubtreeHeight (leafIndex filesize : Nat) : Nat :=
  bitLen (leafIndex ^^^ lastLeafIndex filesize)

/-- consensus/merkle.go `storageProofRoot(leafHash, leafIndex, filesize, proof)` (v2 contracts) -/
def storageProofRoot {H : Type} [HashOps H] (leafHash : H) (leafIndex filesize : Nat) (proof : List H) : H :=
  let subtreeHeight := storageProofSubtreeHeight leafIndex filesize
  if proof.length < subtreeHeight then zero
  else (proof.drop subtreeHeight).foldl (fun root h => node h root)
    (proofRoot leafHash leafIndex (proof.take subtreeHeight))

/-- the loop of the v1 closure `storageProofRoot` in `validateFileContracts`:
`if leafIndex&(1<<i) != 0 || i >= subtreeHeight { root = SumPair(h, root) } else { root = SumPair(root, h) }` -/
def spLoop {H : Type} [HashOps H] (leafIndex subtreeHeight : Nat) : Nat → H → List H → H
  | _, root, [] => root
  | i, root, h :: rest =>
    spLoop leafIndex subtreeHeight (i + 1)
      (if leafIndex / 2 ^ i % 2 = 1 ∨ i ≥ subtreeHeight then node h root else node root h) rest

/-- zero-extend to one 64-byte leaf (`buf := make([]byte, 1+leafSize); copy(buf[1:], leaf)`) -/
def padLeaf (b : ByteArray) : ByteArray := b ++ Bytes.zeros (64 - b.size)

/-- the v1 closure `storageProofRoot(leafIndex, filesize, leaf, proof)` -/
def storageProofRootV1 {H : Type} [HashOps H] (leafIndex filesize : Nat) (leafBytes : ByteArray) (proof : List H) : H :=
  spLoop leafIndex (bitLen (leafIndex ^^^ lastLeafIndex filesize)) 0 (leaf (padLeaf leafBytes)) proof

/-- the three leaf eras of v1 storage proofs -/
inductive Era where
  | preTax          -- childHeight < HardforkTax.Height
  | preStorageProof -- < HardforkStorageProof.Height
  | current

/-- the v1 closure `storageProofLeaf(leafIndex, filesize, leaf)`; `none` is Go's `nil` (no check) -/
def storageProofLeaf (era : Era) (leafIndex filesize : Nat) (leaf64 : ByteArray) : Option ByteArray :=
  match era with
  | .preTax => some leaf64
  | .preStorageProof =>
    if leafIndex = lastLeafIndex filesize then some (leaf64.extract 0 (filesize % 64)) else some leaf64
  | .current =>
    if filesize = 0 then none
    else if leafIndex = lastLeafIndex filesize ∧ filesize % 64 ≠ 0 then some (leaf64.extract 0 (filesize % 64))
    else some leaf64

/-- the verdict of the v1 storage-proof check in `validateFileContracts` for one proof
(after the contract and the leaf index have been determined) -/
def verifyV1 {H : Type} [HashOps H] [DecidableEq H] (era : Era) (leafIndex filesize : Nat) (leaf64 : ByteArray)
    (proof : List H) (root : H) : Bool :=
  match storageProofLeaf era leafIndex filesize leaf64 with
  | none => true
  | some lf =>
    if filesize > 0 ∧ proof.length < bitLen (leafIndex ^^^ lastLeafIndex filesize) then false
    else decide (storageProofRootV1 leafIndex filesize lf proof = root)

/-- the verdict of the v2 storage-proof check in `validateV2FileContracts` (after the height and
history checks and the computation of the leaf index):
`fc.Filesize > 0 && len(sp.Proof) < storageProofSubtreeHeight(leafIndex, fc.Filesize)` ⇒ reject
("too few proof hashes", added by fix a3a6e71), then
`storageProofRoot(StorageProofLeafHash(leaf), leafIndex, filesize, proof) == root` -/
def verifyV2 {H : Type} [HashOps H] [DecidableEq H] (leafIndex filesize : Nat) (leaf64 : ByteArray)
    (proof : List H) (root : H) : Bool :=
  if filesize > 0 ∧ proof.length < storageProofSubtreeHeight leafIndex filesize then false
  else decide (storageProofRoot (leaf (padLeaf leaf64)) leafIndex filesize proof = root)

/-- the v2 verdict BEFORE fix a3a6e71 (no guard): kept for `C07.c07_v2_zero_root_counterexample` -/
def verifyV2NoGuard {H : Type} [HashOps H] [DecidableEq H] (leafIndex filesize : Nat) (leaf64 : ByteArray)
    (proof : List H) (root : H) : Bool :=
  decide (storageProofRoot (leaf (padLeaf leaf64)) leafIndex filesize proof = root)

/-! ## the challenged leaf (consensus/state.go `State.StorageProofLeafIndex`) -/

/-- number of 64-byte leaves of a file of `filesize` bytes (`StorageProofLeafIndex`'s `numLeaves`) -/
def numLeaves (filesize : Nat) : Nat := if filesize % 64 ≠ 0 then filesize / 64 + 1 else filesize / 64


/-- the loop `for i := 0; i < len(seed); i += 8 { _, r = bits.Div64(r, binary.BigEndian.Uint64(seed[i:]), numLeaves) }`
over the four big-endian words of the 32-byte seed, from word `k` on (`bits.Div64` panics on a zero
divisor and on `numLeaves ≤ r`) -/
def leafIndexLoop (seed : ByteArray) (numLeaves : Nat) : Nat → Nat → Except String Nat
  | 0, r => .ok r
  | fuel + 1, r => do
      let qr ← Go.bits_Div64 r (readBe64 seed (8 * (3 - fuel))) numLeaves
      leafIndexLoop seed numLeaves fuel qr.2

/-- `StorageProofLeafIndex` after `seed := hashAll(windowID, fcid)`: number of leaves rounded up,
`0` for an empty file, otherwise the 256-bit seed reduced word by word -/
def storageProofLeafIndexOfSeed (filesize : Nat) (seed : ByteArray) : Except String Nat :=
  if numLeaves filesize = 0 then .ok 0
  else leafIndexLoop seed (numLeaves filesize) 4 0

/-- `State.StorageProofLeafIndex(filesize, windowID, fcid)`; `hash` is `hashAll` on the two 32-byte
ids, i.e. BLAKE2b-256 of their concatenation -/
def storageProofLeafIndex (hash : ByteArray → ByteArray) (filesize : Nat) (windowID fcid : ByteArray) : Except String Nat :=
  storageProofLeafIndexOfSeed filesize (hash (windowID ++ fcid))

/-! ## the prover side (specification) -/

/-- the leaves of a file: 64-byte segments, the last one zero-padded -/
def fileLeaves (file : ByteArray) : List ByteArray :=
  (List.range (numLeaves file.size)).map (fun i => padLeaf (file.extract (64 * i) (64 * i + 64)))

/-- the Merkle root of a file -/
def fileRoot {H : Type} [HashOps H] (file : ByteArray) : H := metaRoot ((fileLeaves file).map leaf)

/-- the honest leaf-to-root proof of leaf `i` in the plain tree over `ls` -/
def spPath {H : Type} [HashOps H] (ls : List H) (i : Nat) : List H :=
  if h : ls.length < 2 then []
  else
    let k := splitPoint ls.length
    if i < k then spPath (ls.take k) i ++ [metaRoot (ls.drop k)]
    else spPath (ls.drop k) (i - k) ++ [metaRoot (ls.take k)]
termination_by ls.length
decreasing_by
  · have := splitPoint_lt (n := ls.length) (by omega)
    simp [List.length_take]; omega
  · have := splitPoint_pos ls.length
    simp [List.length_drop]; omega

end Sia.SP
