/-
  SiaModel.Merkle.MultiproofBytes — V2TransactionsMultiproof.EncodeTo / DecodeFrom on
  BYTES, over an abstract transaction-set type.

  `TxSetOps T` is what the codec uses of the transactions: their non-ephemeral element
  leaves in visiting order (`forEachElementLeaf`), writing proofs back through the
  StateElement pointers, and the plain `EncodeSlice` / `DecodeSlice` codec of the
  transactions (with whatever proofs they currently carry). Hashes are 32-byte strings;
  the hash functions are a `Hasher Bytes` instance.  Core Lean only.
-/
import SiaModel.Merkle.Multiproof
import SiaModel.Codec.Schema
namespace Sia.Multiproof
open Sia.Codec Sia.ElemAcc

/-- `types.Hash256`: exactly 32 bytes -/
abbrev Hash32 := { b : Bytes // b.length = 32 }

instance : Inhabited Hash32 := ⟨⟨List.replicate 32 0, by simp⟩⟩

structure TxSetOps (T : Type) where
  /-- `forEachElementLeaf`: tag = position, element hash, leaf index, current proof -/
  leaves : T → List (MLeaf Hash32)
  /-- write the given proofs into the visited StateElements, in visiting order -/
  setProofs : T → List (List Hash32) → T
  /-- `EncodeSlice(e, txns)` -/
  encP : T → Bytes
  /-- `DecodeSlice(d, &txns)` -/
  decP : Bytes → Except DecErr (T × Bytes)

section
variable {T : Type} [Hasher Hash32]

/-- `l.MerkleProof = nil` for every visited leaf -/
def TxSetOps.strip (ops : TxSetOps T) (t : T) : T := ops.setProofs t ((ops.leaves t).map fun _ => [])

/-- `EncodeTo`: proofless transactions, inferred numLeaves, the multiproof hashes -/
def encodeBytes (ops : TxSetOps T) (t : T) : Bytes :=
  ops.encP (ops.strip t) ++ (u64le (inferNumLeaves (ops.leaves t)) ++ ((computeMultiproof (ops.leaves t)).map (·.val)).flatten)

/-- `for i := range multiproof { multiproof[i].DecodeFrom(d) }` -/
def readHashes : Nat → Bytes → Except DecErr (List Hash32 × Bytes)
  | 0, bs => .ok ([], bs)
  | n + 1, bs =>
    if h : 32 ≤ bs.length then
      match readHashes n (bs.drop 32) with
      | .ok (hs, r') => .ok (⟨bs.take 32, by simp [List.length_take]; omega⟩ :: hs, r')
      | .error e => .error e
    else .error .short

/-- `DecodeFrom` -/
def decodeBytes (ops : TxSetOps T) (bs : Bytes) : Except DecErr (T × Bytes) :=
  match ops.decP bs with
  | .error e => .error e
  | .ok (t0, r) =>
    match readU64 r with
    | .error e => .error e
    | .ok (numLeaves, r1) =>
      if (ops.leaves t0).any (fun l => l.index ≥ numLeaves) then .error .invalid
      else
        let sized := sizeProofs (ops.leaves t0) numLeaves
        match readHashes (multiproofSize sized) r1 with
        | .error e => .error e
        | .ok (hs, r2) =>
          match expandMultiproof sized hs with
          | .error _ => .error .panic
          | .ok out => .ok (ops.setProofs t0 (out.map (·.proof)), r2)

end
end Sia.Multiproof
